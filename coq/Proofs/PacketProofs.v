(* PacketProofs.v — lemmas about Model/Packet.v (C03, C15). *)
From Hop Require Import Base Replay ReplayProofs Packet.
From Coq Require Import ZifyN ZifyNat ZifyBool.
Ltac Zify.zify_post_hook ::= Z.div_mod_to_equations.
Open Scope N_scope.

(* ---------------------------------------------------------------- bytes *)
Lemma len_nil : len [] = 0. Proof. reflexivity. Qed.
Lemma len_cons x l : len (x :: l) = 1 + len l.
Proof. unfold len. simpl length. lia. Qed.
Lemma len_app a b : len (a ++ b) = len a + len b.
Proof. unfold len. rewrite app_length. lia. Qed.
Lemma len_take n l : len (take n l) = N.min n (len l).
Proof. unfold len, take. rewrite firstn_length. lia. Qed.
Lemma len_drop n l : len (drop n l) = len l - n.
Proof. unfold len, drop. rewrite skipn_length. lia. Qed.
Lemma take_drop n l : take n l ++ drop n l = l.
Proof. apply firstn_skipn. Qed.
Lemma take_all n l : len l <= n -> take n l = l.
Proof. intros H. unfold take. apply firstn_all2. unfold len in H. lia. Qed.
Lemma drop_all n l : len l <= n -> drop n l = [].
Proof. intros H. unfold drop. apply skipn_all2. unfold len in H. lia. Qed.
Lemma drop_0 l : drop 0 l = l. Proof. reflexivity. Qed.
Lemma take_app_exact a b : take (len a) (a ++ b) = a.
Proof. unfold take, len. rewrite Nnat.Nat2N.id. rewrite firstn_app, Nat.sub_diag, firstn_all. simpl. apply app_nil_r. Qed.
Lemma drop_app_exact a b : drop (len a) (a ++ b) = b.
Proof. unfold drop, len. rewrite Nnat.Nat2N.id. rewrite skipn_app, Nat.sub_diag, skipn_all. reflexivity. Qed.
Lemma skipn_skipn' {A} (i j : nat) : forall l : list A, skipn i (skipn j l) = skipn (j + i) l.
Proof.
  induction j as [|j IH]; intros l; [reflexivity|].
  destruct l as [|x l]; [now rewrite !skipn_nil|]. simpl. apply IH.
Qed.
Lemma drop_drop i j l : drop i (drop j l) = drop (j + i) l.
Proof.
  unfold drop. rewrite skipn_skipn'. f_equal. lia.
Qed.
Lemma beq_bytes_eq a : forall b, beq_bytes a b = true <-> a = b.
Proof.
  induction a as [|x a IH]; intros [|y b]; simpl; split; try congruence; try discriminate; auto.
  - intros H. apply andb_prop in H. destruct H as [H1 H2]. apply N.eqb_eq in H1. apply IH in H2. congruence.
  - intros H. inversion H; subst. rewrite N.eqb_refl. simpl. now apply IH.
Qed.
Lemma beq_bytes_refl a : beq_bytes a a = true.
Proof. now apply beq_bytes_eq. Qed.

Lemma idx_ok b i : i < len b -> idx b i = Ok (nth (N.to_nat i) b 0).
Proof. intros H. unfold idx. apply N.ltb_lt in H. now rewrite H. Qed.

(* ---------------------------------------------------------------- one datagram *)
Section One.
  Variable open : bytes -> bytes -> bytes -> option bytes.

  Lemma plaintext_len_neg n : (plaintext_len n <? 0)%Z = (n <? 48).
  Proof. unfold plaintext_len. lia. Qed.

  (* readPacketLocked on a datagram of at least 48 bytes with an exactly fitting buffer *)
  Lemma read_packet_spec ss pkt :
    48 <= len pkt ->
    read_packet open ss (Z.to_N (plaintext_len (len pkt))) pkt (key_recv ss) =
    if negb (wf_header ss pkt) then Err
    else match key_recv ss with
         | None => Err
         | Some k =>
           match open k (pkt_ad pkt) (pkt_body pkt) with
           | None => Err
           | Some p => if len p + 48 =? len pkt then Ok (mark (window ss) (pkt_counter pkt), pkt_type pkt, p) else Panic
           end
         end.
  Proof.
    intros H48. unfold read_packet, wf_header.
    replace (48 <=? len pkt) with true by (symmetry; apply N.leb_le; exact H48).
    replace (Z.of_N (Z.to_N (plaintext_len (len pkt))) <? plaintext_len (len pkt))%Z with false
      by (unfold plaintext_len; lia).
    rewrite !idx_ok by lia. cbn [bind]. unfold pkt_type. change (N.to_nat 0) with 0%nat.
    change (N.to_nat 1) with 1%nat. change (N.to_nat 2) with 2%nat. change (N.to_nat 3) with 3%nat.
    cbn [andb].
    destruct ((nth 0 pkt 0 =? mt_transport) || (nth 0 pkt 0 =? mt_control)); cbn [negb andb]; [|reflexivity].
    destruct (nth 1 pkt 0 =? 0); cbn [negb andb]; [|reflexivity].
    destruct (nth 2 pkt 0 =? 0); cbn [negb andb]; [|reflexivity].
    destruct (nth 3 pkt 0 =? 0); cbn [negb andb]; [|reflexivity].
    replace (len pkt <? 8) with false by lia.
    destruct (beq_bytes (sid ss) (pkt_sid pkt)); cbn [negb andb]; [|reflexivity].
    replace (len pkt <? 16) with false by lia.
    destruct (check (window ss) (pkt_counter pkt)); cbn [negb]; [|reflexivity].
    destruct (key_recv ss) as [k|]; [|reflexivity].
    destruct (open k (pkt_ad pkt) (pkt_body pkt)) as [p|]; [|reflexivity].
    replace (Z.of_N (len p) =? plaintext_len (len pkt))%Z with (len p + 48 =? len pkt)
      by (unfold plaintext_len; lia).
    destruct (len p + 48 =? len pkt); reflexivity.
  Qed.

  Lemma wf_header_48 ss pkt : wf_header ss pkt = true -> 48 <= len pkt.
  Proof.
    unfold wf_header. intros H. repeat (apply andb_prop in H; destruct H as [H ?]). now apply N.leb_le.
  Qed.

  (* the full characterisation of handleSessionMessage on one session *)
  Theorem session_input_spec ss a pkt :
    match opens open ss pkt with
    | None => exists o, session_input open ss a pkt = Ok (ss, o) /\ outcome_authentic o = false
    | Some p =>
      if len p + 48 =? len pkt
      then session_input open ss a pkt = Ok (apply_auth ss a (pkt_type pkt) (pkt_counter pkt) p)
      else session_input open ss a pkt = Panic
    end.
  Proof.
    unfold opens, session_input.
    destruct (closed ss) eqn:Hc; [exists OClosedDrop; split; reflexivity|].
    rewrite plaintext_len_neg.
    destruct (N.ltb_spec (len pkt) 48) as [Hs|Hs].
    - replace (wf_header ss pkt) with false.
      + cbn [negb]. exists ORejected. split; reflexivity.
      + symmetry. unfold wf_header. replace (48 <=? len pkt) with false by lia. reflexivity.
    - rewrite read_packet_spec by exact Hs.
      destruct (wf_header ss pkt) eqn:Hw; cbn [negb]; [|exists ORejected; split; reflexivity].
      destruct (key_recv ss) as [k|]; [|exists ORejected; split; reflexivity].
      destruct (open k (pkt_ad pkt) (pkt_body pkt)) as [p|]; [|exists ORejected; split; reflexivity].
      destruct (len p + 48 =? len pkt); [|reflexivity].
      unfold apply_auth.
      assert (Ht : (pkt_type pkt =? mt_transport) || (pkt_type pkt =? mt_control) = true).
      { unfold wf_header in Hw. repeat (apply andb_prop in Hw; destruct Hw as [Hw ?]). assumption. }
      destruct (pkt_type pkt =? mt_transport) eqn:Ht1.
      + destruct (qlen (queue (set_window ss (mark (window ss) (pkt_counter pkt)))) <?
                  qcap (set_window ss (mark (window ss) (pkt_counter pkt)))); reflexivity.
      + cbn [orb] in Ht. rewrite Ht.
        destruct ((len p =? 1) && (nth 0 p 0 =? ctrl_close)); reflexivity.
  Qed.
End One.

(* ---------------------------------------------------------------- consequences for one datagram *)
Section Step.
  Variable open : bytes -> bytes -> bytes -> option bytes.

  Lemma apply_auth_authentic ss a t c p : outcome_authentic (snd (apply_auth ss a t c p)) = true.
  Proof.
    unfold apply_auth. destruct (t =? mt_transport).
    - destruct (_ <? _); reflexivity.
    - destruct (_ && _); reflexivity.
  Qed.

  Lemma apply_auth_not_badtype ss a t c p : snd (apply_auth ss a t c p) <> OBadType.
  Proof.
    unfold apply_auth. destruct (t =? mt_transport).
    - destruct (_ <? _); discriminate.
    - destruct (_ && _); discriminate.
  Qed.

  (* inversion: an Ok result is either "nothing happened" or the effect of an authentic fresh datagram *)
  Lemma session_input_inv ss a pkt ss' o :
    session_input open ss a pkt = Ok (ss', o) ->
    (outcome_authentic o = false /\ ss' = ss) \/
    (exists p, opens open ss pkt = Some p /\ len p + 48 = len pkt /\
               (ss', o) = apply_auth ss a (pkt_type pkt) (pkt_counter pkt) p).
  Proof.
    intros H. pose proof (session_input_spec open ss a pkt) as S.
    destruct (opens open ss pkt) as [p|].
    - destruct (N.eqb_spec (len p + 48) (len pkt)) as [E|E].
      + right. exists p. repeat split; [exact E|]. congruence.
      + congruence.
    - destruct S as [o' [S1 S2]]. left. rewrite S1 in H. inversion H; subst. auto.
  Qed.

  (* C03: datagrams that do not authenticate never close or disturb an established session *)
  Theorem reject_preserves_state ss a pkt ss' o :
    session_input open ss a pkt = Ok (ss', o) -> outcome_authentic o = false -> ss' = ss.
  Proof.
    intros H Ho. destruct (session_input_inv _ _ _ _ _ H) as [[_ E]|[p [_ [_ E]]]]; [exact E|].
    pose proof (apply_auth_authentic ss a (pkt_type pkt) (pkt_counter pkt) p) as A.
    rewrite <- E in A. simpl in A. congruence.
  Qed.

  Theorem unauthentic_changes_nothing ss a pkt :
    opens open ss pkt = None ->
    exists o, session_input open ss a pkt = Ok (ss, o) /\ outcome_authentic o = false.
  Proof.
    intros H. pose proof (session_input_spec open ss a pkt) as S. now rewrite H in S.
  Qed.

  (* in the AEAD's terms: if SANSE does not open the body under the read key, nothing changes *)
  Theorem aead_reject_changes_nothing ss a pkt :
    (forall k, key_recv ss = Some k -> open k (pkt_ad pkt) (pkt_body pkt) = None) ->
    exists o, session_input open ss a pkt = Ok (ss, o) /\ outcome_authentic o = false.
  Proof.
    intros H. apply unauthentic_changes_nothing. unfold opens.
    destruct (closed ss); [reflexivity|]. destruct (negb (wf_header ss pkt)); [reflexivity|].
    destruct (key_recv ss) as [k|]; [|reflexivity]. now apply H.
  Qed.

  Lemma opens_inv ss pkt p :
    opens open ss pkt = Some p ->
    closed ss = false /\ wf_header ss pkt = true /\
    exists k, key_recv ss = Some k /\ open k (pkt_ad pkt) (pkt_body pkt) = Some p.
  Proof.
    unfold opens. destruct (closed ss); [discriminate|].
    destruct (wf_header ss pkt); cbn [negb]; [|discriminate].
    destruct (key_recv ss) as [k|]; [|discriminate]. intros H. repeat split. exists k. auto.
  Qed.

  Lemma wf_header_inv ss pkt :
    wf_header ss pkt = true ->
    48 <= len pkt /\ (pkt_type pkt = mt_transport \/ pkt_type pkt = mt_control) /\
    nth 1 pkt 0 = 0 /\ nth 2 pkt 0 = 0 /\ nth 3 pkt 0 = 0 /\
    sid ss = pkt_sid pkt /\ check (window ss) (pkt_counter pkt) = true.
  Proof.
    unfold wf_header. rewrite !andb_true_iff.
    intros [[[[[[H0 H1] H2] H3] H4] H5] H6].
    apply N.leb_le in H0. apply N.eqb_eq in H2, H3, H4. apply beq_bytes_eq in H5.
    apply orb_prop in H1. repeat split; auto. destruct H1 as [E|E]; apply N.eqb_eq in E; auto.
  Qed.

  (* any state change implies: session open, header well formed, counter fresh, SANSE opened *)
  Theorem change_implies_authentic_fresh ss a pkt ss' o :
    session_input open ss a pkt = Ok (ss', o) -> ss' <> ss ->
    closed ss = false /\ wf_header ss pkt = true /\
    exists k p, key_recv ss = Some k /\ open k (pkt_ad pkt) (pkt_body pkt) = Some p /\ len p + 48 = len pkt.
  Proof.
    intros H Hn. destruct (session_input_inv _ _ _ _ _ H) as [[_ E]|[p [Ho [El _]]]]; [congruence|].
    destruct (opens_inv _ _ _ Ho) as [Hc [Hw [k [Hk Hop]]]]. repeat split; auto. exists k, p. auto.
  Qed.

  (* C03: a session is closed by the network only through an authentic, fresh control message *)
  Theorem close_only_by_authentic_control ss a pkt ss' o :
    session_input open ss a pkt = Ok (ss', o) -> closed ss = false -> closed ss' = true ->
    pkt_type pkt = mt_control /\ wf_header ss pkt = true /\ (o = OCtrlClose \/ o = OCtrlBad) /\
    exists k p, key_recv ss = Some k /\ open k (pkt_ad pkt) (pkt_body pkt) = Some p.
  Proof.
    intros H Hc Hc'. destruct (session_input_inv _ _ _ _ _ H) as [[_ E]|[p [Ho [El E]]]]; [congruence|].
    destruct (opens_inv _ _ _ Ho) as [_ [Hw [k [Hk Hop]]]].
    destruct (wf_header_inv _ _ Hw) as [_ [Ht _]].
    unfold apply_auth in E.
    destruct (pkt_type pkt =? mt_transport) eqn:Et.
    - exfalso. destruct (_ <? _) in E; inversion E; subst; simpl in Hc'; congruence.
    - destruct Ht as [Ht|Ht]; [rewrite Ht in Et; discriminate|].
      repeat split; auto.
      + destruct (_ && _) in E; inversion E; auto.
      + exists k, p. auto.
  Qed.

  Theorem never_bad_type ss a pkt ss' o : session_input open ss a pkt = Ok (ss', o) -> o <> OBadType.
  Proof.
    intros H. destruct (session_input_inv _ _ _ _ _ H) as [[Ha _]|[p [_ [_ E]]]].
    - intros ->. discriminate.
    - pose proof (apply_auth_not_badtype ss a (pkt_type pkt) (pkt_counter pkt) p) as A.
      rewrite <- E in A. exact A.
  Qed.

  (* the handler panics only if the AEAD returns a plaintext of the wrong length (SANSE never does) *)
  Theorem panic_only_if_aead_length_lie ss a pkt :
    session_input open ss a pkt = Panic ->
    exists k p, key_recv ss = Some k /\ open k (pkt_ad pkt) (pkt_body pkt) = Some p /\ len p + 48 <> len pkt.
  Proof.
    intros H. pose proof (session_input_spec open ss a pkt) as S.
    destruct (opens open ss pkt) as [p|] eqn:Ho.
    - destruct (opens_inv _ _ _ Ho) as [_ [_ [k [Hk Hop]]]].
      destruct (N.eqb_spec (len p + 48) (len pkt)); [congruence|]. exists k, p. auto.
    - destruct S as [o [S _]]. congruence.
  Qed.
  Theorem session_input_never_err ss a pkt : session_input open ss a pkt <> Err.
  Proof.
    pose proof (session_input_spec open ss a pkt) as S.
    destruct (opens open ss pkt) as [p|].
    - destruct (len p + 48 =? len pkt); congruence.
    - destruct S as [o [S _]]. congruence.
  Qed.

  (* ---- C15, one datagram ---- *)
  Theorem addr_changes_only_on_accept ss a pkt ss' o :
    session_input open ss a pkt = Ok (ss', o) -> remote ss' <> remote ss ->
    outcome_accepted o = true /\ remote ss' = a /\
    closed ss = false /\ wf_header ss pkt = true /\
    exists k p, key_recv ss = Some k /\ open k (pkt_ad pkt) (pkt_body pkt) = Some p.
  Proof.
    intros H Hn. destruct (session_input_inv _ _ _ _ _ H) as [[_ E]|[p [Ho [El E]]]]; [congruence|].
    destruct (opens_inv _ _ _ Ho) as [Hc [Hw [k [Hk Hop]]]].
    assert (outcome_accepted o = true /\ remote ss' = a).
    { unfold apply_auth in E. destruct (pkt_type pkt =? mt_transport).
      - destruct (_ <? _) in E; inversion E; subst; auto.
      - destruct (_ && _) in E; inversion E; subst; auto. exfalso. apply Hn. reflexivity. }
    destruct H0. repeat split; auto. exists k, p. auto.
  Qed.

  Theorem accept_moves_addr ss a pkt ss' o :
    session_input open ss a pkt = Ok (ss', o) -> outcome_accepted o = true -> remote ss' = a.
  Proof.
    intros H Ha. destruct (session_input_inv _ _ _ _ _ H) as [[Hu _]|[p [_ [_ E]]]].
    - destruct o; discriminate.
    - unfold apply_auth in E. destruct (pkt_type pkt =? mt_transport).
      + destruct (_ <? _) in E; inversion E; subst; auto.
      + destruct (_ && _) in E; inversion E; subst; auto. discriminate.
  Qed.

  Theorem not_accepted_keeps_addr ss a pkt ss' o :
    session_input open ss a pkt = Ok (ss', o) -> outcome_accepted o = false -> remote ss' = remote ss.
  Proof.
    intros H Ha. destruct (session_input_inv _ _ _ _ _ H) as [[_ E]|[p [_ [_ E]]]]; [congruence|].
    unfold apply_auth in E. destruct (pkt_type pkt =? mt_transport).
    - destruct (_ <? _) in E; inversion E; subst; discriminate.
    - destruct (_ && _) in E; inversion E; subst; auto. discriminate.
  Qed.
End Step.

(* ---------------------------------------------------------------- endpoints: client and server *)
Section Endpoints.
  Variable open : bytes -> bytes -> bytes -> option bytes.

  Theorem client_reject_preserves_state ss a pkt ss' o :
    client_handle open ss a pkt = Ok (ss', o) -> outcome_authentic o = false -> ss' = ss.
  Proof.
    unfold client_handle. destruct (peek_session pkt) as [id|]; [|intros H; inversion H; auto].
    destruct (negb (beq_bytes id (sid ss))); [intros H; inversion H; auto|].
    apply reject_preserves_state.
  Qed.

  Lemma update_same sv id ss : lookup sv id = Some ss -> update sv id ss = sv.
  Proof.
    induction sv as [|s r IH]; simpl; [reflexivity|].
    destruct (beq_bytes (sid s) id); intros H; [inversion H; subst; reflexivity|]. now rewrite IH.
  Qed.

  Theorem server_reject_preserves_state sv a pkt sv' o :
    server_handle open sv a pkt = Ok (sv', o) -> outcome_authentic o = false -> sv' = sv.
  Proof.
    unfold server_handle. destruct (peek_session pkt) as [id|]; [|intros H; inversion H; auto].
    destruct (lookup sv id) as [ss|] eqn:L; [|intros H; inversion H; auto].
    destruct (session_input open ss a pkt) as [[ss' o']| |] eqn:S; try discriminate.
    intros H Ho. inversion H; subst. rewrite (reject_preserves_state _ _ _ _ _ _ S Ho).
    now apply update_same.
  Qed.

  (* frame: a datagram never changes identity, keys, send counter, queue capacity or reader buffer *)
  Lemma session_input_frame ss a pkt ss' o :
    session_input open ss a pkt = Ok (ss', o) ->
    sid ss' = sid ss /\ key_send ss' = key_send ss /\ key_recv ss' = key_recv ss /\
    count ss' = count ss /\ qcap ss' = qcap ss /\ rbuf ss' = rbuf ss.
  Proof.
    intros H. destruct (session_input_inv _ _ _ _ _ _ H) as [[_ E]|[p [_ [_ E]]]]; [subst; auto 10|].
    unfold apply_auth in E. destruct (pkt_type pkt =? mt_transport).
    - destruct (_ <? _) in E; inversion E; subst; simpl; auto 10.
    - destruct (_ && _) in E; inversion E; subst; simpl; auto 10.
  Qed.

  (* a datagram only ever touches the session whose id it carries *)
  Lemma lookup_update_other sv id id' s' :
    sid s' = id -> id' <> id -> lookup (update sv id s') id' = lookup sv id'.
  Proof.
    intros E Hne. induction sv as [|s r IH]; simpl; [reflexivity|].
    destruct (beq_bytes (sid s) id) eqn:B; simpl.
    - apply beq_bytes_eq in B. rewrite E, B.
      destruct (beq_bytes id id') eqn:B2; [|reflexivity].
      apply beq_bytes_eq in B2. congruence.
    - destruct (beq_bytes (sid s) id'); [reflexivity|exact IH].
  Qed.

  Lemma lookup_sid sv id ss : lookup sv id = Some ss -> sid ss = id.
  Proof.
    induction sv as [|s r IH]; simpl; [discriminate|].
    destruct (beq_bytes (sid s) id) eqn:B; [|exact IH].
    intros H. inversion H; subst. now apply beq_bytes_eq.
  Qed.

  Theorem server_other_sessions_untouched sv a pkt sv' o id' :
    server_handle open sv a pkt = Ok (sv', o) -> peek_session pkt <> Some id' ->
    lookup sv' id' = lookup sv id'.
  Proof.
    unfold server_handle. destruct (peek_session pkt) as [id|]; [|intros H; inversion H; auto].
    destruct (lookup sv id) as [ss|] eqn:L; [|intros H; inversion H; auto].
    destruct (session_input open ss a pkt) as [[ss' o']| |] eqn:S; try discriminate.
    intros H Hne. inversion H; subst. apply lookup_update_other.
    - destruct (session_input_frame _ _ _ _ _ S) as [E _]. rewrite E. now apply lookup_sid with sv.
    - congruence.
  Qed.

  Theorem server_never_panics_unless_aead_lies sv a pkt :
    server_handle open sv a pkt = Panic ->
    exists ss k p, In ss sv /\ key_recv ss = Some k /\ open k (pkt_ad pkt) (pkt_body pkt) = Some p /\ len p + 48 <> len pkt.
  Proof.
    unfold server_handle. destruct (peek_session pkt) as [id|]; [|discriminate].
    destruct (lookup sv id) as [ss|] eqn:L; [|discriminate].
    destruct (session_input open ss a pkt) as [[ss' o']| |] eqn:S; try discriminate.
    intros _. destruct (panic_only_if_aead_length_lie _ _ _ _ S) as [k [p H]].
    exists ss, k, p. split; [|exact H].
    clear -L. induction sv as [|s r IH]; simpl in *; [discriminate|].
      destruct (beq_bytes (sid s) id); [inversion L; auto|right; auto].
  Qed.
End Endpoints.

(* ---------------------------------------------------------------- local calls leave the receive side alone *)
Section Frames.
  Variable seal : bytes -> bytes -> bytes -> bytes.
  Variable open : bytes -> bytes -> bytes -> option bytes.

  (* everything but the send counter *)
  Definition same_but_count (s s' : sess) : Prop :=
    sid s' = sid s /\ key_send s' = key_send s /\ key_recv s' = key_recv s /\ window s' = window s /\
    queue s' = queue s /\ qcap s' = qcap s /\ rbuf s' = rbuf s /\ closed s' = closed s /\ remote s' = remote s.

  Lemma sbc_refl s : same_but_count s s.
  Proof. unfold same_but_count; auto 12. Qed.
  Lemma sbc_trans a b c : same_but_count a b -> same_but_count b c -> same_but_count a c.
  Proof. unfold same_but_count. intuition congruence. Qed.

  Lemma seal_packet_ok ss mt m ss' pkt :
    seal_packet seal ss mt m = Ok (ss', pkt) ->
    ss' = set_count ss (u64_add (count ss) 1) /\
    pkt = header mt (sid ss) (count ss) ++ seal (key_send ss) (take ad_len (header mt (sid ss) (count ss))) m /\
    len (seal (key_send ss) (take ad_len (header mt (sid ss) (count ss))) m) = tag_len + len m.
  Proof.
    unfold seal_packet. destruct (N.eqb_spec (len (seal (key_send ss) (take ad_len (header mt (sid ss) (count ss))) m)) (tag_len + len m)) as [E|E];
      cbn [negb]; [|discriminate].
    intros H. inversion H. auto.
  Qed.

  Lemma send_ok ss mt m ss' d :
    send seal ss mt m = Ok (ss', d) ->
    closed ss = false /\ ss' = set_count ss (u64_add (count ss) 1) /\ snd d = remote ss /\
    fst d = header mt (sid ss) (count ss) ++ seal (key_send ss) (take ad_len (header mt (sid ss) (count ss))) m.
  Proof.
    unfold send. destruct (closed ss); [discriminate|].
    destruct (seal_packet seal ss mt m) as [[s1 pkt]| |] eqn:S; try discriminate.
    intros H. inversion H; subst. destruct (seal_packet_ok _ _ _ _ _ S) as [E1 [E2 _]]. simpl. auto.
  Qed.

  Lemma send_sbc ss mt m ss' d : send seal ss mt m = Ok (ss', d) -> same_but_count ss ss'.
  Proof. intros H. destruct (send_ok _ _ _ _ _ H) as [_ [E _]]. subst. unfold same_but_count; simpl; auto 12. Qed.

  Lemma write_msg_sbc max ss m ss' d : write_msg seal max ss m = Ok (ss', d) -> same_but_count ss ss'.
  Proof. unfold write_msg. destruct (max <? len m); [discriminate|]. apply send_sbc. Qed.

  Lemma write_loop_sbc max b : forall rs ss out total,
    same_but_count ss (w_ss (write_loop seal max ss b rs out total)).
  Proof.
    induction rs as [|[i e] r IH]; intros ss out total; simpl; [apply sbc_refl|].
    destruct (write_msg seal max ss (slice b i e)) as [[s1 d]| |] eqn:W; simpl; try apply sbc_refl.
    eapply sbc_trans; [eapply write_msg_sbc; exact W|apply IH].
  Qed.

  Lemma write_sbc max ss b w : write seal max ss b = Some w -> same_but_count ss (w_ss w).
  Proof.
    unfold write. destruct (len b <=? max).
    - destruct (write_msg seal max ss b) as [[s1 d]| |] eqn:W; intros H; inversion H; simpl; try apply sbc_refl.
      eapply write_msg_sbc; exact W.
    - destruct (chunk_ranges _ _ _ _); [|discriminate]. intros H. inversion H. apply write_loop_sbc.
  Qed.

  (* a local call (anything but an arriving datagram) never touches window, keys, identity;
     it moves the address never *)
  Lemma ep_step_local max ss e :
    (forall a pkt, e <> EvIn a pkt) ->
    let s1 := fst (ep_step seal open max ss e) in
    sid s1 = sid ss /\ key_send s1 = key_send ss /\ key_recv s1 = key_recv ss /\ window s1 = window ss /\
    remote s1 = remote ss /\ qcap s1 = qcap ss /\ (closed ss = true -> closed s1 = true).
  Proof.
    intros Hne. destruct e as [a pkt|n|n|mt m|b|]; simpl.
    - exfalso. eapply Hne. reflexivity.
    - unfold read_msg. destruct (0 <? len (rbuf ss)).
      + destruct (n <? len (rbuf ss)); simpl; auto 10.
      + destruct (queue ss) as [|m q]; simpl; auto 10. destruct (len m <=? n); simpl; auto 10.
    - unfold read. destruct (0 <? len (rbuf ss)); simpl; auto 10.
      destruct (queue ss) as [|m q]; simpl; auto 10.
    - destruct (send seal ss mt m) as [[s1 d]| |] eqn:S; simpl; auto 10.
      destruct (send_sbc _ _ _ _ _ S) as (?&?&?&?&?&?&?&?&?). intuition congruence.
    - destruct (write seal max ss b) as [w|] eqn:W; simpl; auto 10.
      destruct (write_sbc _ _ _ _ W) as (?&?&?&?&?&?&?&?&?).
      destruct (w_panic w); simpl; intuition congruence.
    - auto 10.
  Qed.
End Frames.

(* ---------------------------------------------------------------- histories of one session *)
Section Histories.
  Variable seal : bytes -> bytes -> bytes -> bytes.
  Variable open : bytes -> bytes -> bytes -> option bytes.
  Notation ep_step := (ep_step seal open).
  Notation accepted := (accepted seal open).
  Notation delivered := (delivered seal open).
  Notation addr_spec := (addr_spec seal open).
  Notation ep_run := (ep_run seal open).

  Definition is_in (e : ev) : bool := match e with EvIn _ _ => true | _ => false end.
  Lemma not_in_ne e : is_in e = false -> forall a pkt, e <> EvIn a pkt.
  Proof. intros H a pkt ->. discriminate. Qed.

  Lemma accepted_in max ss a pkt r :
    accepted max ss (EvIn a pkt :: r) =
    match session_input open ss a pkt with
    | Ok (ss', oc) => if outcome_authentic oc then pkt_counter pkt :: accepted max ss' r else accepted max ss' r
    | _ => accepted max ss r
    end.
  Proof. simpl. destruct (session_input open ss a pkt) as [[ss' oc]| |]; reflexivity. Qed.

  Lemma accepted_local max ss e r :
    is_in e = false -> accepted max ss (e :: r) = accepted max (fst (ep_step max ss e)) r.
  Proof.
    intros H. cbn [Packet.accepted]. destruct (ep_step max ss e) as [s1 o] eqn:E. simpl.
    destruct e; try discriminate; reflexivity.
  Qed.

  Lemma apply_auth_fields ss a t c p ss' o :
    (ss', o) = apply_auth ss a t c p ->
    window ss' = mark (window ss) c /\ key_recv ss' = key_recv ss /\ sid ss' = sid ss /\ rbuf ss' = rbuf ss /\
    (o = ODelivered -> queue ss' = queue ss ++ [p]) /\ (o <> ODelivered -> queue ss' = queue ss).
  Proof.
    unfold apply_auth. destruct (t =? mt_transport).
    - destruct (_ <? _); intros E; inversion E; subst; simpl; repeat split; auto; try discriminate; congruence.
    - destruct (_ && _); intros E; inversion E; subst; simpl; repeat split; auto; try discriminate; congruence.
  Qed.

  Lemma auth_below_tail kr e r : auth_below open kr (e :: r) -> auth_below open kr r.
  Proof. intros H. now inversion H. Qed.

  (* C03 at-most-once: over any history, the counters of the datagrams that passed every check are
     pairwise distinct (and distinct from those marked before the history started) *)
  Theorem accepted_nodup max : forall evs ss A,
    Inv (window ss) A -> Forall (fun x => x < lim) A -> NoDup A ->
    auth_below open (key_recv ss) evs ->
    NoDup (rev (accepted max ss evs) ++ A).
  Proof.
    induction evs as [|e r IH]; intros ss A HI HA HN HB; [exact HN|].
    destruct (is_in e) eqn:Ein.
    - destruct e as [a pkt| | | | |]; try discriminate. rewrite accepted_in.
      destruct (session_input open ss a pkt) as [[ss' oc]| |] eqn:S;
        try (apply IH; auto; eapply auth_below_tail; eassumption).
      destruct (session_input_inv _ _ _ _ _ _ S) as [[Hu E]|[p [Ho [El E]]]].
      + rewrite Hu. subst ss'. apply IH; auto. eapply auth_below_tail; eassumption.
      + pose proof (apply_auth_authentic ss a (pkt_type pkt) (pkt_counter pkt) p) as Au.
        rewrite <- E in Au. simpl in Au. rewrite Au.
        destruct (apply_auth_fields _ _ _ _ _ _ _ E) as [Ew [Ek _]].
        destruct (opens_inv _ _ _ _ Ho) as [_ [Hw [k [Hk Hop]]]].
        destruct (wf_header_inv _ _ Hw) as (_&_&_&_&_&_&Hch).
        assert (Hc : pkt_counter pkt < lim).
        { inversion HB as [|? ? H1 _]; subst. exact (H1 k p Hk Hop). }
        rewrite (check_fresh_inv _ _ _ HI HA Hc) in Hch.
        unfold fresh_b in Hch. apply andb_prop in Hch. destruct Hch as [Hm _].
        apply negb_true_iff in Hm.
        simpl rev. rewrite <- app_assoc. simpl.
        apply IH.
        * rewrite Ew. now apply mark_inv.
        * now constructor.
        * constructor; [|exact HN]. intros Hin. apply mem_In in Hin. congruence.
        * rewrite Ek. eapply auth_below_tail; eassumption.
    - rewrite accepted_local by exact Ein.
      destruct (ep_step_local seal open max ss e (not_in_ne _ Ein)) as (_&_&Ek&Ew&_).
      apply IH; auto; [now rewrite Ew|rewrite Ek; eapply auth_below_tail; eassumption].
  Qed.

  Lemma delivered_in max ss a pkt r :
    delivered max ss (EvIn a pkt :: r) =
    match session_input open ss a pkt with
    | Ok (ss', ODelivered) =>
      match opens open ss pkt with
      | Some p => (pkt_counter pkt, p) :: delivered max ss' r
      | None => delivered max ss' r
      end
    | Ok (ss', _) => delivered max ss' r
    | _ => delivered max ss r
    end.
  Proof. simpl. destruct (session_input open ss a pkt) as [[ss' oc]| |]; try reflexivity. Qed.

  Lemma delivered_local max ss e r :
    is_in e = false -> delivered max ss (e :: r) = delivered max (fst (ep_step max ss e)) r.
  Proof.
    intros H. cbn [Packet.delivered]. destruct (ep_step max ss e) as [s1 o] eqn:E. simpl.
    destruct e; try discriminate; reflexivity.
  Qed.

  (* the counters of delivered messages are a subsequence of the accepted counters *)
  Inductive subseq {A} : list A -> list A -> Prop :=
  | sub_nil : subseq [] []
  | sub_skip x l1 l2 : subseq l1 l2 -> subseq l1 (x :: l2)
  | sub_take x l1 l2 : subseq l1 l2 -> subseq (x :: l1) (x :: l2).

  Lemma subseq_in {A} (l1 l2 : list A) x : subseq l1 l2 -> In x l1 -> In x l2.
  Proof. induction 1; simpl; intuition. Qed.
  Lemma subseq_nodup {A} (l1 l2 : list A) : subseq l1 l2 -> NoDup l2 -> NoDup l1.
  Proof.
    induction 1; intros HN; auto; inversion HN; subst; auto.
    constructor; auto. intros Hin. eapply subseq_in in Hin; eauto.
  Qed.

  Lemma delivered_sub_accepted max : forall evs ss,
    subseq (map fst (delivered max ss evs)) (accepted max ss evs).
  Proof.
    induction evs as [|e r IH]; intros ss; [constructor|].
    destruct (is_in e) eqn:Ein.
    - destruct e as [a pkt| | | | |]; try discriminate. rewrite accepted_in, delivered_in.
      destruct (session_input open ss a pkt) as [[ss' oc]| |] eqn:S; try apply IH.
      destruct oc; simpl; try apply IH; try (apply sub_skip; apply IH).
      destruct (opens open ss pkt); simpl; [apply sub_take|apply sub_skip]; apply IH.
    - rewrite accepted_local, delivered_local by exact Ein. apply IH.
  Qed.

  Lemma nodup_app_l {A} (l l' : list A) : NoDup (l ++ l') -> NoDup l.
  Proof.
    induction l as [|x l IH]; simpl; intros H; [constructor|]. inversion H; subst.
    constructor; [|auto]. intros Hin. apply H2. apply in_or_app. now left.
  Qed.

  Theorem delivered_at_most_once max evs ss A :
    Inv (window ss) A -> Forall (fun x => x < lim) A -> NoDup A ->
    auth_below open (key_recv ss) evs ->
    NoDup (map fst (delivered max ss evs)) /\
    (forall c, In c (map fst (delivered max ss evs)) -> ~ In c A).
  Proof.
    intros HI HA HN HB. pose proof (accepted_nodup max evs ss A HI HA HN HB) as H.
    pose proof (delivered_sub_accepted max evs ss) as Hs. split.
    - eapply subseq_nodup; [exact Hs|]. apply nodup_app_l in H. apply NoDup_rev in H.
      now rewrite rev_involutive in H.
    - intros c Hin HinA. eapply subseq_in in Hin; [|exact Hs].
      apply in_rev in Hin. revert H Hin HinA. generalize (rev (accepted max ss evs)).
      induction l as [|x l IHl]; simpl; [tauto|]. intros HN' [->|Hin] HinA.
      + inversion HN'; subst. apply H1. apply in_or_app. now right.
      + inversion HN'; subst. now apply IHl.
  Qed.
End Histories.

(* ---------------------------------------------------------------- reader stream and address over histories *)
Section Histories2.
  Variable seal : bytes -> bytes -> bytes -> bytes.
  Variable open : bytes -> bytes -> bytes -> option bytes.
  Notation ep_step := (ep_step seal open).
  Notation delivered := (delivered seal open).
  Notation addr_spec := (addr_spec seal open).
  Notation ep_run := (ep_run seal open).

  (* bytes accepted for the reader but not yet handed to it *)
  Definition pending (ss : sess) : bytes := rbuf ss ++ List.concat (queue ss).

  Definition ev_delivers (ss : sess) (e : ev) : bytes :=
    match e with
    | EvIn a pkt =>
      match session_input open ss a pkt with
      | Ok (_, ODelivered) => match opens open ss pkt with Some p => p | None => [] end
      | _ => []
      end
    | _ => []
    end.
  Definition ob_reads (o : eobs) : bytes := match o with ObRd (RData b) => b | _ => [] end.

  Lemma len0_nil (l : bytes) : (0 <? len l) = false -> l = [].
  Proof. destruct l; [reflexivity|]. rewrite len_cons. intros H. lia. Qed.

  Lemma step_stream max ss e :
    pending ss ++ ev_delivers ss e = ob_reads (snd (ep_step max ss e)) ++ pending (fst (ep_step max ss e)).
  Proof.
    destruct e as [a pkt|n|n|mt m|b|]; simpl.
    - destruct (session_input open ss a pkt) as [[ss' oc]| |] eqn:S; simpl; try apply app_nil_r.
      destruct (session_input_inv _ _ _ _ _ _ S) as [[Hu E]|[p [Ho [El E]]]].
      + subst ss'. destruct oc; try discriminate; apply app_nil_r.
      + destruct (apply_auth_fields _ _ _ _ _ _ _ E) as (_&_&_&Er&Eq1&Eq2). unfold pending.
        destruct oc; try (rewrite app_nil_r, Er, Eq2 by discriminate; reflexivity).
        rewrite Ho, Er, Eq1 by reflexivity. rewrite concat_app. simpl. now rewrite app_nil_r, app_assoc.
    - unfold read_msg, pending. destruct ss as [i0 ks kr cnt w q cap rb cl rem]. cbn [rbuf queue closed].
      destruct (0 <? len rb) eqn:Hb.
      + destruct (n <? len rb); simpl; now rewrite app_nil_r.
      + apply len0_nil in Hb. subst rb. destruct q as [|m q]; simpl; [destruct cl; reflexivity|].
        destruct (len m <=? n); simpl; now rewrite app_nil_r.
    - unfold read, pending. destruct ss as [i0 ks kr cnt w q cap rb cl rem]. cbn [rbuf queue closed].
      destruct (0 <? len rb) eqn:Hb; simpl.
      + now rewrite app_nil_r, app_assoc, take_drop.
      + apply len0_nil in Hb. subst rb. destruct q as [|m q]; simpl; [destruct cl; reflexivity|].
        now rewrite app_nil_r, app_assoc, take_drop.
    - destruct (send seal ss mt m) as [[s1 d]| |] eqn:S; simpl; try apply app_nil_r.
      destruct (send_sbc _ _ _ _ _ _ S) as (_&_&_&_&Eq&_&Er&_). unfold pending. now rewrite app_nil_r, Eq, Er.
    - destruct (write seal max ss b) as [w|] eqn:W; simpl; try apply app_nil_r.
      destruct (write_sbc _ _ _ _ _ W) as (_&_&_&_&Eq&_&Er&_). unfold pending.
      destruct (w_panic w); simpl; now rewrite app_nil_r, Eq, Er.
    - apply app_nil_r.
  Qed.

  Lemma delivered_cons max ss e r :
    List.concat (map snd (delivered max ss (e :: r))) =
    ev_delivers ss e ++ List.concat (map snd (delivered max (fst (ep_step max ss e)) r)).
  Proof.
    destruct (is_in e) eqn:Ein.
    - destruct e as [a pkt| | | | |]; try discriminate. rewrite delivered_in. simpl.
      destruct (session_input open ss a pkt) as [[ss' oc]| |] eqn:S; simpl; try reflexivity.
      destruct oc; simpl; try reflexivity.
      destruct (opens open ss pkt) as [p|] eqn:Ho; simpl; [reflexivity|].
      exfalso. destruct (session_input_inv _ _ _ _ _ _ S) as [[Hu _]|[p [Ho' _]]]; [discriminate|congruence].
    - rewrite delivered_local by exact Ein. destruct e; try discriminate; reflexivity.
  Qed.

  (* C03: what the reader is given is exactly the authentic fresh messages, in order, each byte once:
     (bytes pending at the start) ++ (delivered messages) = (bytes read) ++ (bytes still pending) *)
  Theorem reader_stream max : forall evs ss,
    pending ss ++ List.concat (map snd (delivered max ss evs)) =
    read_bytes (snd (ep_run max ss evs)) ++ pending (fst (ep_run max ss evs)).
  Proof.
    induction evs as [|e r IH]; intros ss; [simpl; now rewrite app_nil_r|].
    rewrite delivered_cons, app_assoc, (step_stream max), <- app_assoc, IH.
    cbn [Packet.ep_run]. destruct (ep_step max ss e) as [s1 o]. cbn [fst snd].
    destruct (ep_run max s1 r) as [s2 os]. cbn [fst snd].
    rewrite app_assoc. f_equal. destruct o as [| [] | | |]; reflexivity.
  Qed.

  (* ReadMsg with an adequate buffer and nothing buffered returns exactly the oldest queued message *)
  Lemma read_msg_whole ss m q n :
    rbuf ss = [] -> queue ss = m :: q -> len m <= n ->
    read_msg ss n = (set_queue ss q, RData m).
  Proof.
    intros Hb Hq Hn. unfold read_msg. rewrite Hb, Hq. simpl.
    replace (len m <=? n) with true by lia. reflexivity.
  Qed.

  (* ---- C15 over histories ---- *)
  Theorem addr_history max : forall evs ss,
    remote (fst (ep_run max ss evs)) = addr_spec max ss evs (remote ss).
  Proof.
    induction evs as [|e r IH]; intros ss; [reflexivity|].
    cbn [Packet.ep_run Packet.addr_spec].
    destruct (ep_step max ss e) as [s1 o] eqn:E.
    specialize (IH s1). destruct (ep_run max s1 r) as [s2 os]. cbn [fst] in *. rewrite IH.
    destruct (is_in e) eqn:Ein.
    - destruct e as [a pkt| | | | |]; try discriminate. simpl in E.
      destruct (session_input open ss a pkt) as [[ss' oc]| |] eqn:S; inversion E; subst; try reflexivity.
      destruct (outcome_accepted oc) eqn:Ha.
      + now rewrite (accept_moves_addr _ _ _ _ _ _ S Ha).
      + now rewrite (not_accepted_keeps_addr _ _ _ _ _ _ S Ha).
    - pose proof (ep_step_local seal open max ss e (not_in_ne _ Ein)) as L. rewrite E in L. cbn [fst] in L.
      destruct L as (_&_&_&_&Er&_). rewrite Er. destruct e; try discriminate; destruct o; reflexivity.
  Qed.

  Theorem send_uses_current_addr ss mt m ss' d :
    send seal ss mt m = Ok (ss', d) -> snd d = remote ss.
  Proof. intros H. now destruct (send_ok _ _ _ _ _ _ H) as (_&_&E&_). Qed.

  Lemma write_loop_dsts max b : forall rs ss out total,
    Forall (fun d => snd d = remote ss) out ->
    Forall (fun d : dgram => snd d = remote ss) (w_out (write_loop seal max ss b rs out total)).
  Proof.
    induction rs as [|[i e] r IH]; intros ss out total Ho; simpl; [exact Ho|].
    destruct (write_msg seal max ss (slice b i e)) as [[s1 d]| |] eqn:W; simpl; try exact Ho.
    destruct (write_msg_sbc _ _ _ _ _ _ W) as (_&_&_&_&_&_&_&_&Er).
    rewrite <- Er. apply IH. rewrite Er. apply Forall_app. split; [exact Ho|].
    constructor; [|constructor]. unfold write_msg in W. destruct (max <? len (slice b i e)); [discriminate|].
    eapply send_uses_current_addr; exact W.
  Qed.

  Theorem write_uses_current_addr max ss b w :
    write seal max ss b = Some w -> Forall (fun d : dgram => snd d = remote ss) (w_out w).
  Proof.
    unfold write. destruct (len b <=? max).
    - destruct (write_msg seal max ss b) as [[s1 d]| |] eqn:W; intros H; inversion H; simpl; constructor; [|constructor].
      unfold write_msg in W. destruct (max <? len b); [discriminate|]. eapply send_uses_current_addr; exact W.
    - destruct (chunk_ranges _ _ _ _); [|discriminate]. intros H. inversion H. apply write_loop_dsts. constructor.
  Qed.

  (* after any history, a send goes to the source of the last accepted datagram (or the handshake address) *)
  Theorem send_after_history max evs ss mt m s' d :
    send seal (fst (ep_run max ss evs)) mt m = Ok (s', d) -> snd d = addr_spec max ss evs (remote ss).
  Proof. intros H. rewrite (send_uses_current_addr _ _ _ _ _ H). apply addr_history. Qed.

  (* "accepted" in declarative terms *)
  Theorem accepted_iff ss a pkt ss' o :
    session_input open ss a pkt = Ok (ss', o) ->
    (outcome_accepted o = true <->
     exists p, opens open ss pkt = Some p /\ (pkt_type pkt = mt_transport \/ p = [ctrl_close])).
  Proof.
    intros H. destruct (session_input_inv _ _ _ _ _ _ H) as [[Hu E]|[p [Ho [El E]]]].
    - split; [destruct o; discriminate|]. intros [p [Ho _]].
      pose proof (session_input_spec open ss a pkt) as S. rewrite Ho in S.
      destruct (len p + 48 =? len pkt); [|congruence].
      assert (E2 : (ss', o) = apply_auth ss a (pkt_type pkt) (pkt_counter pkt) p) by congruence.
      pose proof (apply_auth_authentic ss a (pkt_type pkt) (pkt_counter pkt) p) as A.
      rewrite <- E2 in A. simpl in A. congruence.
    - destruct (opens_inv _ _ _ _ Ho) as [_ [Hw _]]. destruct (wf_header_inv _ _ Hw) as (_&Ht&_).
      unfold apply_auth in E. destruct (N.eqb_spec (pkt_type pkt) mt_transport) as [Et|Et].
      + split; [intros _; exists p; auto|]. intros _. destruct (_ <? _) in E; inversion E; reflexivity.
      + destruct Ht as [Ht|Ht]; [contradiction|].
        destruct ((len p =? 1) && (nth 0 p 0 =? ctrl_close)) eqn:B; inversion E; subst.
        * split; [intros _|reflexivity]. exists p. split; [exact Ho|right].
          apply andb_prop in B. destruct B as [B1 B2]. apply N.eqb_eq in B1, B2.
          destruct p as [|x [|y p]]; [discriminate| |rewrite !len_cons in B1; lia]. simpl in B2. now subst.
        * split; [discriminate|]. intros [p' [Ho' [Et'|Ep]]]; [contradiction|].
          rewrite Ho in Ho'. inversion Ho'; subst. discriminate.
  Qed.
End Histories2.

(* ---------------------------------------------------------------- Handle.Write: the chunking law *)
Lemma chunk_ranges_done fuel max n i : n <= i -> chunk_ranges fuel max n i = Some [].
Proof.
  intros H. destruct fuel; simpl; replace (i <? n) with false by lia; reflexivity.
Qed.

Lemma slice_eq b i e : slice b i e = take (e - i) (drop i b).
Proof. reflexivity. Qed.

Lemma chunk_ranges_spec max b : 0 < max -> forall fuel i, i <= len b -> (N.to_nat (len b - i) < fuel)%nat ->
  exists rs, chunk_ranges fuel max (len b) i = Some rs /\
    List.concat (map (fun r => slice b (fst r) (snd r)) rs) = drop i b /\
    (forall t0, fold_left (fun t r => t + (snd r - fst r)) rs t0 = t0 + (len b - i)) /\
    Forall (fun r => fst r < snd r /\ snd r - fst r <= max /\ snd r <= len b) rs.
Proof.
  intros Hmax. induction fuel as [|f IH]; intros i Hi Hf; [lia|].
  cbn [chunk_ranges]. destruct (N.ltb_spec i (len b)) as [Hlt|Hge].
  - destruct (N.ltb_spec (len b) (i + max)) as [Hover|Hfit].
    + rewrite chunk_ranges_done by lia. eexists. split; [reflexivity|]. simpl. split; [|split].
      * rewrite app_nil_r, slice_eq. apply take_all. rewrite len_drop. lia.
      * intros t0. lia.
      * constructor; [|constructor]. simpl. lia.
    + destruct (IH (i + max)) as [rs [E [Hc [Hs Hall]]]]; [lia|lia|].
      rewrite E. eexists. split; [reflexivity|]. simpl. split; [|split].
      * rewrite Hc, slice_eq. replace (i + max - i) with max by lia.
        rewrite <- (drop_drop max i b). apply take_drop.
      * intros t0. rewrite Hs. lia.
      * constructor; [simpl; lia|exact Hall].
  - assert (i = len b) by lia. subst i. exists []. simpl. split; [reflexivity|]. split; [|split].
    + symmetry. apply drop_all. lia.
    + intros t0. lia.
    + constructor.
Qed.

(* C03: a write of ANY size is cut into pieces that together are exactly the buffer, each at most max
   bytes, and the count returned (when every piece is sent) is the buffer's length *)
Theorem write_chunks_complete max b cs n :
  0 < max -> write_chunks max b = Some (cs, n) ->
  List.concat cs = b /\ n = len b /\ Forall (fun c => len c <= max) cs.
Proof.
  intros Hmax. unfold write_chunks. destruct (N.leb_spec (len b) max) as [Hle|Hgt].
  - intros H. inversion H; subst. simpl. rewrite app_nil_r. repeat split. constructor; [exact Hle|constructor].
  - destruct (chunk_ranges_spec max b Hmax (S (length b)) 0) as [rs [E [Hc [Hs Hall]]]]; [lia|unfold len; lia|].
    rewrite E. intros H. inversion H; subst. repeat split.
    + rewrite Hc. reflexivity.
    + rewrite Hs. lia.
    + clear -Hall. induction Hall as [|r rs Hr _ IH]; simpl; constructor; [|exact IH].
      rewrite slice_eq, len_take, len_drop. lia.
Qed.

Theorem write_chunks_total max b : 0 < max -> exists cs n, write_chunks max b = Some (cs, n).
Proof.
  intros Hmax. unfold write_chunks. destruct (len b <=? max); [eauto|].
  destruct (chunk_ranges_spec max b Hmax (S (length b)) 0) as [rs [E _]]; [lia|unfold len; lia|].
  rewrite E. eauto.
Qed.

(* every piece is non-empty when the buffer is larger than max (no empty datagrams are invented) *)
Theorem write_chunks_nonempty max b cs n :
  0 < max -> max < len b -> write_chunks max b = Some (cs, n) -> Forall (fun c => 0 < len c) cs.
Proof.
  intros Hmax Hgt. unfold write_chunks. replace (len b <=? max) with false by lia.
  destruct (chunk_ranges_spec max b Hmax (S (length b)) 0) as [rs [E [_ [_ Hall]]]]; [lia|unfold len; lia|].
  rewrite E. intros H. inversion H; subst. clear -Hall.
  induction Hall as [|r rs Hr _ IH]; simpl; constructor; [|exact IH].
  rewrite slice_eq, len_take, len_drop. lia.
Qed.

(* ---------------------------------------------------------------- wire format: building and parsing the header *)
Lemma fold_be_enc k : forall n acc,
  fold_left (fun a b => a * 256 + b) (be_enc k n) acc = acc * 256 ^ N.of_nat k + n mod 256 ^ N.of_nat k.
Proof.
  induction k as [|k IH]; intros n acc.
  - simpl. rewrite N.mod_1_r. lia.
  - cbn [be_enc fold_left]. rewrite IH.
    replace (N.of_nat (S k)) with (N.succ (N.of_nat k)) by lia. rewrite N.pow_succ_r'.
    assert (P : 256 ^ N.of_nat k <> 0) by (apply N.pow_nonzero; discriminate).
    rewrite (N.mul_comm 256 (256 ^ N.of_nat k)).
    rewrite (N.mod_mul_r n (256 ^ N.of_nat k) 256) by (auto; discriminate). lia.
Qed.

Lemma be_dec_enc8 c : c < 2 ^ 64 -> be_dec (be_enc 8 c) = c.
Proof.
  intros H. unfold be_dec. rewrite fold_be_enc. change (256 ^ N.of_nat 8) with (2 ^ 64).
  rewrite N.mod_small by exact H. lia.
Qed.

Lemma len_be_enc k n : len (be_enc k n) = N.of_nat k.
Proof. unfold len. f_equal. induction k; simpl; auto. Qed.

Lemma len_header t id c : len (header t id c) = 12 + len id.
Proof. unfold header. rewrite !len_app, len_be_enc. rewrite !len_cons, len_nil. lia. Qed.

(* a datagram built as header ++ rest parses back to the same fields *)
Lemma parse_built t id c rest :
  len id = 4 -> c < 2 ^ 64 ->
  let pkt := header t id c ++ rest in
  pkt_type pkt = t /\ nth 1 pkt 0 = 0 /\ nth 2 pkt 0 = 0 /\ nth 3 pkt 0 = 0 /\
  pkt_sid pkt = id /\ pkt_counter pkt = c /\ pkt_ad pkt = header t id c /\ pkt_body pkt = rest /\
  len pkt = 16 + len rest.
Proof.
  intros Hid Hc pkt.
  assert (Hh : len (header t id c) = 16) by (rewrite len_header; lia).
  assert (E4 : drop 4 pkt = id ++ be_enc 8 c ++ rest).
  { unfold pkt, header. rewrite <- !app_assoc. reflexivity. }
  assert (E8 : drop 8 pkt = be_enc 8 c ++ rest).
  { replace 8 with (4 + 4) by reflexivity. rewrite <- drop_drop, E4, <- Hid. apply drop_app_exact. }
  repeat split.
  - unfold pkt_sid, slice. rewrite E4. replace (8 - 4) with (len id) by lia. apply take_app_exact.
  - unfold pkt_counter, slice. rewrite E8. replace (16 - 8) with (len (be_enc 8 c)) by (rewrite len_be_enc; reflexivity).
    rewrite take_app_exact. now apply be_dec_enc8.
  - unfold pkt_ad, ad_len. rewrite <- Hh. apply take_app_exact.
  - unfold pkt_body, ad_len. rewrite <- Hh. apply drop_app_exact.
  - unfold pkt. rewrite len_app, Hh. reflexivity.
Qed.

(* if the first 16 bytes of a datagram are a header, its fields are that header's *)
Lemma parse_ad t id c pkt :
  len id = 4 -> c < 2 ^ 64 -> 16 <= len pkt ->
  take ad_len (header t id c) = pkt_ad pkt ->
  pkt_type pkt = t /\ pkt_sid pkt = id /\ pkt_counter pkt = c.
Proof.
  intros Hid Hc Hl E.
  assert (Hh : len (header t id c) = 16) by (rewrite len_header; lia).
  rewrite take_all in E by (unfold ad_len; lia).
  assert (Ep : pkt = header t id c ++ drop 16 pkt).
  { rewrite E. unfold pkt_ad, ad_len. symmetry. apply take_drop. }
  destruct (parse_built t id c (drop 16 pkt) Hid Hc) as (H1&_&_&_&H5&H6&_).
  rewrite <- Ep in *. auto.
Qed.

(* ---------------------------------------------------------------- the system: several endpoints, one adversary *)
Section System.
  Variable seal : bytes -> bytes -> bytes -> bytes.
  Variable open : bytes -> bytes -> bytes -> option bytes.
  Notation sys_step := (sys_step seal open).
  Notation sys_run := (sys_run seal open).
  Notation int_ctxt_run := (int_ctxt_run seal open).

  Definition who_ctr (en : entry) : nat * N := (en_who en, en_ctr en).

  Record SysInv (st : sys) (n : nat) : Prop := {
    si_sid : forall i, len (sid (eps st i)) = 4;
    si_cnt : forall i, count (eps st i) + N.of_nat n < lim;
    si_log : forall en, In en (slog st) ->
        en_key en = key_send (eps st (en_who en)) /\ en_sid en = sid (eps st (en_who en)) /\
        en_ad en = take ad_len (header (en_mt en) (en_sid en) (en_ctr en)) /\
        en_ct en = seal (en_key en) (en_ad en) (en_pt en) /\
        en_ctr en < count (eps st (en_who en));
    si_uniq : NoDup (map who_ctr (slog st));
    si_dlv : forall j t c p, In (j, t, c, p) (dlog st) ->
        exists en, In en (slog st) /\ key_recv (eps st j) = Some (en_key en) /\
                   en_mt en = t /\ en_sid en = sid (eps st j) /\ en_ctr en = c /\ en_pt en = p;
    si_win : forall j, Inv (window (eps st j)) (dlog_ctrs j (dlog st)) /\
                       Forall (fun x => x < lim) (dlog_ctrs j (dlog st)) /\ NoDup (dlog_ctrs j (dlog st))
  }.

  Lemma SysInv_weaken st n : SysInv st (S n) -> SysInv st n.
  Proof.
    intros [H1 H2 H3 H4 H5 H6]. split; auto. intros i. specialize (H2 i). lia.
  Qed.

  Lemma upd_ep_same f i n : upd_ep f i (f i) n = f n.
  Proof. unfold upd_ep. destruct (Nat.eqb_spec n i); congruence. Qed.
  Lemma upd_ep_eq f i s : upd_ep f i s i = s.
  Proof. unfold upd_ep. now rewrite Nat.eqb_refl. Qed.
  Lemma upd_ep_ne f i s n : n <> i -> upd_ep f i s n = f n.
  Proof. unfold upd_ep. intros H. destruct (Nat.eqb_spec n i); congruence. Qed.

  (* if only fields irrelevant to the invariant's per-endpoint facts change, pointwise facts transfer *)
  Lemma upd_ep_field {A} (g : sess -> A) f i s : g s = g (f i) -> forall n, g (upd_ep f i s n) = g (f n).
  Proof. intros H n. unfold upd_ep. destruct (Nat.eqb_spec n i); congruence. Qed.

  Lemma lim_lt_64 x : x < lim -> x < 2 ^ 64.
  Proof. rewrite lim_val. change (2 ^ 64) with 18446744073709551616. lia. Qed.

  Lemma dlog_ctrs_cons_eq j t c p dl : dlog_ctrs j ((j, t, c, p) :: dl) = c :: dlog_ctrs j dl.
  Proof. simpl. now rewrite Nat.eqb_refl. Qed.
  Lemma dlog_ctrs_cons_ne j j' t c p dl : j' <> j -> dlog_ctrs j' ((j, t, c, p) :: dl) = dlog_ctrs j' dl.
  Proof. simpl. intros H. destruct (Nat.eqb_spec j j'); congruence. Qed.

  Lemma step_send_inv st n i mt m :
    SysInv st (S n) -> SysInv (sys_step st (SSend i mt m)) n.
  Proof.
    intros HI. pose proof HI as [H1 H2 H3 H4 H5 H6]. cbn [Packet.sys_step].
    destruct (send seal (eps st i) mt m) as [[s' d]| |] eqn:S; try (now apply SysInv_weaken).
    destruct (send_ok _ _ _ _ _ _ S) as (_&Es&_&_).
    assert (Ec : count s' = count (eps st i) + 1).
    { subst s'. simpl. unfold u64_add. specialize (H2 i). apply N.mod_small.
      change two64 with 18446744073709551616. rewrite lim_val in H2. lia. }
    assert (Esid : sid s' = sid (eps st i)) by (subst s'; reflexivity).
    assert (Eks : key_send s' = key_send (eps st i)) by (subst s'; reflexivity).
    assert (Ekr : key_recv s' = key_recv (eps st i)) by (subst s'; reflexivity).
    assert (Ew : window s' = window (eps st i)) by (subst s'; reflexivity).
    split; cbn [eps slog dlog].
    - intros k. rewrite (upd_ep_field sid) by exact Esid. apply H1.
    - intros k. unfold upd_ep. destruct (Nat.eqb_spec k i) as [->|_].
      + rewrite Ec. specialize (H2 i). lia.
      + specialize (H2 k). lia.
    - intros en [<-|Hin]; cbn [en_who en_key en_sid en_ad en_ct en_ctr en_mt en_pt].
      + rewrite upd_ep_eq, Eks, Esid, Ec. repeat split; auto. lia.
      + destruct (H3 en Hin) as (A1&A2&A3&A4&A5).
        rewrite (upd_ep_field key_send) by exact Eks. rewrite (upd_ep_field sid) by exact Esid.
        repeat split; auto. unfold upd_ep. destruct (Nat.eqb_spec (en_who en) i) as [E|_]; [|exact A5].
        rewrite Ec. rewrite E in A5. lia.
    - simpl. constructor; [|exact H4]. intros Hin. apply in_map_iff in Hin.
      destruct Hin as [en [E Hin]]. unfold who_ctr in E. simpl in E. inversion E as [[Ew' Ec']].
      destruct (H3 en Hin) as (_&_&_&_&A5). lia.
    - intros j t c p Hin. destruct (H5 j t c p Hin) as [en (B1&B2&B3&B4&B5&B6)].
      exists en. rewrite (upd_ep_field key_recv) by exact Ekr. rewrite (upd_ep_field sid) by exact Esid.
      repeat split; auto. now right.
    - intros j. rewrite (upd_ep_field window) by exact Ew. apply H6.
  Qed.

  Lemma step_local_inv st n j e : SysInv st (S n) -> SysInv (sys_step st (SLocal j e)) n.
  Proof.
    intros HI. apply SysInv_weaken in HI. pose proof HI as [H1 H2 H3 H4 H5 H6]. cbn [Packet.sys_step].
    assert (G : forall s1, sid s1 = sid (eps st j) -> key_send s1 = key_send (eps st j) ->
                key_recv s1 = key_recv (eps st j) -> window s1 = window (eps st j) -> count s1 = count (eps st j) ->
                SysInv (mkSys (upd_ep (eps st) j s1) (slog st) (dlog st)) n).
    { intros s1 E1 E2 E3 E4 E5. split; cbn [eps slog dlog].
      - intros k. rewrite (upd_ep_field sid) by exact E1. apply H1.
      - intros k. rewrite (upd_ep_field count) by exact E5. apply H2.
      - intros en Hin. rewrite (upd_ep_field key_send) by exact E2. rewrite (upd_ep_field sid) by exact E1.
        rewrite (upd_ep_field count) by exact E5. now apply H3.
      - exact H4.
      - intros j' t c p Hin. rewrite (upd_ep_field key_recv) by exact E3. rewrite (upd_ep_field sid) by exact E1.
        now apply H5.
      - intros j'. rewrite (upd_ep_field window) by exact E4. apply H6. }
    destruct e as [a pkt|k|k|mt m|b|]; try exact HI; apply G; simpl.
    - unfold read_msg. destruct (0 <? len (rbuf (eps st j))); [destruct (k <? _); reflexivity|].
      destruct (queue (eps st j)) as [|m q]; [reflexivity|]. destruct (len m <=? k); reflexivity.
    - unfold read_msg. destruct (0 <? len (rbuf (eps st j))); [destruct (k <? _); reflexivity|].
      destruct (queue (eps st j)) as [|m q]; [reflexivity|]. destruct (len m <=? k); reflexivity.
    - unfold read_msg. destruct (0 <? len (rbuf (eps st j))); [destruct (k <? _); reflexivity|].
      destruct (queue (eps st j)) as [|m q]; [reflexivity|]. destruct (len m <=? k); reflexivity.
    - unfold read_msg. destruct (0 <? len (rbuf (eps st j))); [destruct (k <? _); reflexivity|].
      destruct (queue (eps st j)) as [|m q]; [reflexivity|]. destruct (len m <=? k); reflexivity.
    - unfold read_msg. destruct (0 <? len (rbuf (eps st j))); [destruct (k <? _); reflexivity|].
      destruct (queue (eps st j)) as [|m q]; [reflexivity|]. destruct (len m <=? k); reflexivity.
    - unfold read. destruct (0 <? len (rbuf (eps st j))); [reflexivity|]. destruct (queue (eps st j)); reflexivity.
    - unfold read. destruct (0 <? len (rbuf (eps st j))); [reflexivity|]. destruct (queue (eps st j)); reflexivity.
    - unfold read. destruct (0 <? len (rbuf (eps st j))); [reflexivity|]. destruct (queue (eps st j)); reflexivity.
    - unfold read. destruct (0 <? len (rbuf (eps st j))); [reflexivity|]. destruct (queue (eps st j)); reflexivity.
    - unfold read. destruct (0 <? len (rbuf (eps st j))); [reflexivity|]. destruct (queue (eps st j)); reflexivity.
    - reflexivity.
    - reflexivity.
    - reflexivity.
    - reflexivity.
    - reflexivity.
  Qed.
End System.

Section System2.
  Variable seal : bytes -> bytes -> bytes -> bytes.
  Variable open : bytes -> bytes -> bytes -> option bytes.
  Notation sys_step := (sys_step seal open).
  Notation sys_run := (sys_run seal open).
  Notation int_ctxt_run := (int_ctxt_run seal open).
  Notation SysInv := (SysInv seal).

  (* INT-CTXT for the one datagram being handed over *)
  Definition int_ctxt_here (st : sys) (j : nat) (pkt : bytes) : Prop :=
    forall k p, key_recv (eps st j) = Some k -> open k (pkt_ad pkt) (pkt_body pkt) = Some p ->
      exists en, In en (slog st) /\ en_key en = k /\ en_ad en = pkt_ad pkt /\ en_pt en = p /\ en_ct en = pkt_body pkt.

  Lemma step_in_inv st n j a pkt :
    SysInv st (S n) -> int_ctxt_here st j pkt -> SysInv (sys_step st (SIn j a pkt)) n.
  Proof.
    intros HI HC. apply SysInv_weaken in HI. pose proof HI as [H1 H2 H3 H4 H5 H6]. cbn [Packet.sys_step].
    destruct (session_input open (eps st j) a pkt) as [[s' o]| |] eqn:S; try exact HI.
    destruct (session_input_frame _ _ _ _ _ _ S) as (E1&E2&E3&E5&_).
    (* facts that hold whatever the outcome *)
    assert (G : forall dl', (forall j' t c p, In (j', t, c, p) dl' ->
                  exists en, In en (slog st) /\ key_recv (eps st j') = Some (en_key en) /\
                             en_mt en = t /\ en_sid en = sid (eps st j') /\ en_ctr en = c /\ en_pt en = p) ->
                (forall j', Inv (window (upd_ep (eps st) j s' j')) (dlog_ctrs j' dl') /\
                            Forall (fun x => x < lim) (dlog_ctrs j' dl') /\ NoDup (dlog_ctrs j' dl')) ->
                SysInv (mkSys (upd_ep (eps st) j s') (slog st) dl') n).
    { intros dl' D W. split; cbn [eps slog dlog].
      - intros k. rewrite (upd_ep_field sid) by exact E1. apply H1.
      - intros k. rewrite (upd_ep_field count) by exact E5. apply H2.
      - intros en Hin. rewrite (upd_ep_field key_send) by exact E2. rewrite (upd_ep_field sid) by exact E1.
        rewrite (upd_ep_field count) by exact E5. now apply H3.
      - exact H4.
      - intros j' t c p Hin. rewrite (upd_ep_field key_recv) by exact E3. rewrite (upd_ep_field sid) by exact E1.
        now apply D.
      - exact W. }
    destruct (session_input_inv _ _ _ _ _ _ S) as [[Hu Es]|[p [Ho [El E]]]].
    - (* nothing happened *)
      rewrite Hu. subst s'. apply G; [exact H5|]. intros j'. rewrite upd_ep_same. apply H6.
    - pose proof (apply_auth_authentic (eps st j) a (pkt_type pkt) (pkt_counter pkt) p) as Au.
      rewrite <- E in Au. simpl in Au. rewrite Au, Ho.
      destruct (apply_auth_fields _ _ _ _ _ _ _ E) as (Ew&_).
      destruct (opens_inv _ _ _ _ Ho) as (_&Hw&k&Hk&Hop).
      destruct (wf_header_inv _ _ Hw) as (H48&_&_&_&_&Hsid&Hch).
      destruct (HC k p Hk Hop) as [en (I1&I2&I3&I4&I5)].
      destruct (H3 en I1) as (L1&L2&L3&L4&L5).
      assert (Hc64 : en_ctr en < lim) by (specialize (H2 (en_who en)); lia).
      destruct (parse_ad (en_mt en) (en_sid en) (en_ctr en) pkt) as (P1&P2&P3).
      { rewrite L2. apply H1. } { now apply lim_lt_64. } { lia. } { now rewrite <- L3. }
      apply G.
      + intros j' t c p' [Eq|Hin]; [|now apply H5].
        inversion Eq; subst j' t c p'. exists en. repeat split; auto; congruence.
      + intros j'. destruct (Nat.eq_dec j' j) as [->|Hne].
        * rewrite upd_ep_eq, dlog_ctrs_cons_eq, Ew. destruct (H6 j) as (W1&W2&W3).
          assert (Hc : pkt_counter pkt < lim) by (rewrite P3; exact Hc64).
          split; [|split].
          -- now apply mark_inv.
          -- now constructor.
          -- constructor; [|exact W3]. rewrite (check_fresh_inv _ _ _ W1 W2 Hc) in Hch.
             unfold fresh_b in Hch. apply andb_prop in Hch. destruct Hch as [Hm _].
             apply negb_true_iff in Hm. intros Hin. apply mem_In in Hin. congruence.
        * rewrite upd_ep_ne by exact Hne. rewrite dlog_ctrs_cons_ne by exact Hne. apply H6.
  Qed.

  Lemma run_inv : forall evs st,
    SysInv st (length evs) -> int_ctxt_run st evs -> SysInv (sys_run st evs) 0.
  Proof.
    induction evs as [|e r IH]; intros st HI HC; [exact HI|].
    simpl in HC. destruct HC as [HC1 HC2]. cbn [Packet.sys_run fold_left]. apply IH; [|exact HC2].
    cbn [length] in HI. destruct e as [i mt m|j a pkt|j e].
    - now apply step_send_inv.
    - now apply step_in_inv.
    - now apply step_local_inv.
  Qed.

  Lemma init_inv st n : sys_init_ok st n -> SysInv st n.
  Proof.
    intros (L&D&H). split.
    - intros i. apply H.
    - intros i. destruct (H i) as (_&_&Hc). unfold lim. exact Hc.
    - rewrite L. intros en [].
    - rewrite L. constructor.
    - rewrite D. intros j t c p [].
    - intros j. rewrite D. simpl. destruct (H j) as (_&Hw&_). rewrite Hw.
      split; [apply inv_init|split; constructor].
  Qed.

  (* identities and keys never change along a run *)
  Lemma sys_step_ids st e i :
    sid (eps (sys_step st e) i) = sid (eps st i) /\ key_send (eps (sys_step st e) i) = key_send (eps st i) /\
    key_recv (eps (sys_step st e) i) = key_recv (eps st i).
  Proof.
    destruct e as [i' mt m|j a pkt|j e]; cbn [Packet.sys_step].
    - destruct (send seal (eps st i') mt m) as [[s' d]| |] eqn:S; auto.
      destruct (send_sbc _ _ _ _ _ _ S) as (A&B&C&_). cbn [eps].
      rewrite (upd_ep_field sid), (upd_ep_field key_send), (upd_ep_field key_recv); auto.
    - destruct (session_input open (eps st j) a pkt) as [[s' o]| |] eqn:S; auto.
      destruct (session_input_frame _ _ _ _ _ _ S) as (A&B&C&_). cbn [eps].
      rewrite (upd_ep_field sid), (upd_ep_field key_send), (upd_ep_field key_recv); auto.
    - destruct (is_in e) eqn:Ein; [destruct e; try discriminate; auto|].
      destruct e; auto; cbn [eps];
        match goal with |- context [Packet.ep_step ?s ?o ?m ?x ?ev] =>
          destruct (ep_step_local s o m x ev (not_in_ne _ Ein)) as (A&B&C&_) end;
        rewrite (upd_ep_field sid), (upd_ep_field key_send), (upd_ep_field key_recv); auto.
  Qed.

  Lemma sys_run_ids : forall evs st i,
    sid (eps (sys_run st evs) i) = sid (eps st i) /\ key_send (eps (sys_run st evs) i) = key_send (eps st i) /\
    key_recv (eps (sys_run st evs) i) = key_recv (eps st i).
  Proof.
    induction evs as [|e r IH]; intros st i; [auto|]. cbn [Packet.sys_run fold_left].
    destruct (IH (sys_step st e) i) as (A&B&C). destruct (sys_step_ids st e i) as (A'&B'&C').
    unfold Packet.sys_run in *. repeat split; congruence.
  Qed.

  (* C03 authenticity: under INT-CTXT every accepted datagram (hence every delivered message and every
     close) was sealed by an honest endpoint holding the receiver's read key, as that type, for that
     session id, under that counter, with that plaintext *)
  Theorem delivered_was_sealed_under_int_ctxt st0 evs :
    sys_init_ok st0 (length evs) -> int_ctxt_run st0 evs ->
    forall j t c p, In (j, t, c, p) (dlog (sys_run st0 evs)) ->
    exists en, In en (slog (sys_run st0 evs)) /\
      key_recv (eps st0 j) = Some (key_send (eps st0 (en_who en))) /\
      en_mt en = t /\ en_sid en = sid (eps st0 j) /\ sid (eps st0 (en_who en)) = sid (eps st0 j) /\
      en_ctr en = c /\ en_pt en = p.
  Proof.
    intros Hi Hc j t c p Hin.
    pose proof (run_inv evs st0 (init_inv _ _ Hi) Hc) as [_ _ H3 _ H5 _].
    destruct (H5 j t c p Hin) as [en (B1&B2&B3&B4&B5&B6)]. exists en.
    destruct (H3 en B1) as (L1&L2&_).
    destruct (sys_run_ids evs st0 j) as (S1&_&S3).
    destruct (sys_run_ids evs st0 (en_who en)) as (T1&T2&_).
    repeat split; auto; congruence.
  Qed.

  (* with pairwise distinct keys the sealer is the peer *)
  Corollary delivered_from_peer_under_int_ctxt st0 evs j peer :
    sys_init_ok st0 (length evs) -> int_ctxt_run st0 evs ->
    (forall i, key_recv (eps st0 j) = Some (key_send (eps st0 i)) -> i = peer) ->
    forall t c p, In (j, t, c, p) (dlog (sys_run st0 evs)) ->
    exists en, In en (slog (sys_run st0 evs)) /\ en_who en = peer /\ en_mt en = t /\ en_ctr en = c /\ en_pt en = p.
  Proof.
    intros Hi Hc Hk t c p Hin.
    destruct (delivered_was_sealed_under_int_ctxt st0 evs Hi Hc j t c p Hin) as [en (A&B&C&_&_&D&E)].
    exists en. repeat split; auto.
  Qed.

  (* at most once, system-wide: no receiver accepts a counter twice; no sender uses a counter twice *)
  Theorem system_at_most_once_under_int_ctxt st0 evs :
    sys_init_ok st0 (length evs) -> int_ctxt_run st0 evs ->
    (forall j, NoDup (dlog_ctrs j (dlog (sys_run st0 evs)))) /\
    NoDup (map who_ctr (slog (sys_run st0 evs))).
  Proof.
    intros Hi Hc. pose proof (run_inv evs st0 (init_inv _ _ Hi) Hc) as [_ _ _ H4 _ H6].
    split; [intros j; apply H6|exact H4].
  Qed.
End System2.

(* ---------------------------------------------------------------- completeness on a faithful network *)
Lemma wt_mark s c : wt s <= c -> c + 448 < 2 ^ 64 -> wt (mark s c) = c.
Proof.
  intros H1 H2. unfold mark.
  assert (E : u64_add c window_size = c + 448).
  { unfold u64_add. rewrite window_val. apply N.mod_small. exact H2. }
  rewrite E. replace (c + 448 <? wt s) with false by lia.
  destruct (N.ltb_spec (wt s) c); simpl; lia.
Qed.

Lemma check_above s c : wt s < c -> check s c = true.
Proof. intros H. unfold check. apply N.ltb_lt in H. now rewrite H. Qed.

Section Faithful.
  Variable seal : bytes -> bytes -> bytes -> bytes.
  Variable open : bytes -> bytes -> bytes -> option bytes.
  (* the two AEAD laws are only needed for the keys in use: [good] selects them (the real AEAD has keys it
     refuses); the unconditional form is the instance good := fun _ => True *)
  Variable good : bytes -> Prop.
  Hypothesis open_seal : forall k ad p, good k -> open k ad (seal k ad p) = Some p.
  Hypothesis seal_len : forall k ad p, good k -> len (seal k ad p) = tag_len + len p.

  (* one message: written by A, carried unchanged, accepted by B and queued *)
  Lemma one_message max A B a m :
    good (key_send A) ->
    in_sync A B -> count A + 1 < lim -> qlen (queue B) < qcap B -> len m <= max ->
    exists d,
      write_msg seal max A m = Ok (set_count A (count A + 1), d) /\ snd d = remote A /\
      session_input open B a (fst d) =
        Ok (set_remote (set_queue (set_window B (mark (window B) (count A))) (queue B ++ [m])) a, ODelivered) /\
      in_sync (set_count A (count A + 1))
              (set_remote (set_queue (set_window B (mark (window B) (count A))) (queue B ++ [m])) a).
  Proof.
    intros Hg (HcA&HcB&Hk&Hs&Hl&Hwt&Hch) Hcnt Hq Hm.
    assert (Hc64 : count A < 2 ^ 64) by (apply lim_lt_64; lia).
    assert (Hu : u64_add (count A) 1 = count A + 1).
    { unfold u64_add. apply N.mod_small. change two64 with 18446744073709551616. rewrite lim_val in Hcnt. lia. }
    set (hdr := header mt_transport (sid A) (count A)).
    assert (Hh : len hdr = 16) by (unfold hdr; rewrite len_header; lia).
    assert (Had : take ad_len hdr = hdr) by (apply take_all; unfold ad_len; lia).
    set (enc := seal (key_send A) hdr m).
    exists (hdr ++ enc, remote A).
    assert (W : write_msg seal max A m = Ok (set_count A (count A + 1), (hdr ++ enc, remote A))).
    { unfold write_msg. replace (max <? len m) with false by lia.
      unfold send. rewrite HcA. unfold seal_packet. fold hdr. rewrite Had. fold enc.
      unfold enc at 1. rewrite seal_len by exact Hg. rewrite N.eqb_refl. cbn [negb]. now rewrite Hu. }
    split; [exact W|]. split; [reflexivity|]. cbn [fst].
    destruct (parse_built mt_transport (sid A) (count A) enc Hl Hc64) as (P1&P2&P3&P4&P5&P6&P7&P8&P9).
    fold hdr in P1, P2, P3, P4, P5, P6, P7, P8, P9.
    assert (Ho : opens open B (hdr ++ enc) = Some m).
    { unfold opens. rewrite HcB. unfold wf_header.
      rewrite P1, P2, P3, P4, P5, P6, P9, Hs, beq_bytes_refl, Hch.
      unfold enc at 1. rewrite seal_len by exact Hg. unfold tag_len.
      replace (48 <=? 16 + (32 + len m)) with true by lia. cbn [negb andb orb N.eqb mt_transport Pos.eqb].
      rewrite Hk, P7, P8. now apply open_seal. }
    pose proof (session_input_spec open B a (hdr ++ enc)) as S. rewrite Ho in S.
    rewrite P9 in S. unfold enc at 1 in S. rewrite seal_len in S by exact Hg. unfold tag_len in S.
    replace (len m + 48 =? 16 + (32 + len m)) with true in S by lia.
    rewrite S, P1, P6. unfold apply_auth. cbn [N.eqb mt_transport Pos.eqb set_window qcap queue].
    apply N.ltb_lt in Hq. rewrite Hq. split; [reflexivity|].
    unfold in_sync. cbn. repeat split; auto.
    - rewrite wt_mark; [lia|exact Hwt|]. rewrite lim_val in Hcnt. change (2^64) with 18446744073709551616. lia.
    - apply check_above. rewrite wt_mark; [lia|exact Hwt|]. rewrite lim_val in Hcnt. change (2^64) with 18446744073709551616. lia.
  Qed.

  Definition sum_ranges (rs : list (N * N)) : N := fold_right (fun r t => (snd r - fst r) + t) 0 rs.

  Lemma loop_delivered max b a : forall rs A B out total,
    good (key_send A) ->
    in_sync A B -> count A + N.of_nat (length rs) < lim -> qlen (queue B) + N.of_nat (length rs) <= qcap B ->
    Forall (fun r => snd r - fst r <= max /\ snd r <= len b /\ fst r <= snd r) rs ->
    let w := write_loop seal max A b rs out total in
    w_err w = false /\ w_panic w = false /\ w_n w = total + sum_ranges rs /\
    exists news B',
      w_out w = out ++ news /\ length news = length rs /\
      Forall (fun d : dgram => snd d = remote A) news /\
      feed open B a (map fst news) = Ok (B', repeat ODelivered (length rs)) /\
      queue B' = queue B ++ map (fun r => slice b (fst r) (snd r)) rs /\
      rbuf B' = rbuf B /\ closed B' = false /\ (rs <> [] -> remote B' = a).
  Proof.
    induction rs as [|[i e] r IH]; intros A B out total Hg Hs Hc Hq Hall.
    - simpl. repeat split; auto; try lia. exists [], B. rewrite !app_nil_r. repeat split; auto.
      + destruct Hs as (_&H&_). exact H.
      + congruence.
    - inversion Hall as [|? ? [R1 [R2 R3]] Hall']; subst. cbn [fst snd] in *.
      cbn [length] in Hc, Hq.
      destruct (one_message max A B a (slice b i e) Hg) as [d (W&Wd&Sin&Hs')]; auto; try lia.
      { rewrite slice_eq, len_take, len_drop. lia. }
      cbn [write_loop]. rewrite W.
      set (A' := set_count A (count A + 1)) in *.
      set (B1 := set_remote (set_queue (set_window B (mark (window B) (count A))) (queue B ++ [slice b i e])) a) in *.
      destruct (IH A' B1 (out ++ [d]) (total + (e - i))) as (I1&I2&I3&news&B'&I4&I5&I6&I7&I8&I9&I10&I11); auto.
      { unfold A'. cbn. lia. }
      { unfold B1. cbn. unfold qlen in *. rewrite app_length. cbn. lia. }
      repeat split; auto.
      + rewrite I3. unfold sum_ranges. cbn [fold_right fst snd]. lia.
      + exists (d :: news), B'. repeat split.
        * rewrite I4, <- app_assoc. reflexivity.
        * cbn. now rewrite I5.
        * constructor; [exact Wd|exact I6].
        * cbn [map feed]. rewrite Sin. fold B1. rewrite I7. reflexivity.
        * rewrite I8. unfold B1. cbn. now rewrite <- app_assoc.
        * rewrite I9. reflexivity.
        * exact I10.
        * intros _. destruct r as [|x r']; [|apply I11; discriminate].
          destruct news; [|discriminate]. cbn in I7. inversion I7; subst. reflexivity.
  Qed.

  (* C03 completeness: on a faithful network every byte accepted by a write call of ANY size is delivered,
     in order, and the call reports exactly the number of bytes it was given *)
  Theorem write_delivered_good max A B a b w :
    good (key_send A) ->
    0 < max -> in_sync A B ->
    count A + len b + 1 < lim ->                        (* the property's bound on counters *)
    qlen (queue B) + len b + 1 <= qcap B ->              (* scope: the receive queue never fills up *)
    write seal max A b = Some w ->
    w_err w = false /\ w_panic w = false /\ w_n w = len b /\
    Forall (fun d : dgram => snd d = remote A) (w_out w) /\
    exists B', feed open B a (map fst (w_out w)) = Ok (B', repeat ODelivered (length (w_out w))) /\
               List.concat (queue B') = List.concat (queue B) ++ b /\ rbuf B' = rbuf B /\ remote B' = a.
  Proof.
    intros Hg Hmax Hs Hc Hq. unfold write. destruct (N.leb_spec (len b) max) as [Hle|Hgt].
    - destruct (one_message max A B a b Hg) as [d (W&Wd&Sin&Hs')]; auto; try lia.
      rewrite W. intros H. inversion H; subst. cbn. repeat split; auto.
      eexists. rewrite Sin. split; [reflexivity|]. cbn. rewrite concat_app. cbn. now rewrite app_nil_r.
    - destruct (chunk_ranges_spec max b Hmax (S (length b)) 0) as [rs [E [Hcat [Hsum Hall]]]]; [lia|unfold len; lia|].
      rewrite E. intros H. inversion H; subst.
      assert (Hs0 : fold_left (fun t r => t + (snd r - fst r)) rs 0 = len b) by (rewrite Hsum; lia).
      assert (Hlen : N.of_nat (length rs) <= len b).
      { rewrite <- Hs0. clear -Hall.
        assert (G : forall t0, t0 + N.of_nat (length rs) <= fold_left (fun t r => t + (snd r - fst r)) rs t0).
        { induction Hall as [|r rs Hr _ IH]; intros t0; simpl; [lia|].
          specialize (IH (t0 + (snd r - fst r))). lia. }
        specialize (G 0). lia. }
      assert (Hne : rs <> []).
      { intros ->. simpl in Hcat. rewrite drop_0 in Hcat. subst b. rewrite len_nil in Hgt. lia. }
      destruct (loop_delivered max b a rs A B [] 0) as (I1&I2&I3&news&B'&I4&I5&I6&I7&I8&I9&I10&I11); auto; try lia.
      { eapply Forall_impl; [|exact Hall]. simpl. intros r0 (?&?&?). lia. }
      cbn [app] in I4. rewrite I4, I5. repeat split; auto.
      + rewrite I3, <- Hs0. clear.
        assert (G : forall t0, t0 + sum_ranges rs = fold_left (fun t r => t + (snd r - fst r)) rs t0).
        { induction rs as [|r rs IH]; intros t0; simpl; [lia|]. rewrite <- IH. unfold sum_ranges. simpl. lia. }
        apply G.
      + exists B'. rewrite I7, I8, concat_app, Hcat, drop_0. auto.
  Qed.
End Faithful.

(* the form with unconditional AEAD laws *)
Theorem write_delivered seal open :
  (forall k ad p, open k ad (seal k ad p) = Some p) ->
  (forall k ad p, len (seal k ad p) = tag_len + len p) ->
  forall max A B a b w,
    0 < max -> in_sync A B ->
    count A + len b + 1 < lim ->
    qlen (queue B) + len b + 1 <= qcap B ->
    write seal max A b = Some w ->
    w_err w = false /\ w_panic w = false /\ w_n w = len b /\
    Forall (fun d : dgram => snd d = remote A) (w_out w) /\
    exists B', feed open B a (map fst (w_out w)) = Ok (B', repeat ODelivered (length (w_out w))) /\
               List.concat (queue B') = List.concat (queue B) ++ b /\ rbuf B' = rbuf B /\ remote B' = a.
Proof.
  intros Hos Hsl max A B a b w. apply (write_delivered_good seal open (fun _ => True)); auto.
Qed.

(* ---------------------------------------------------------------- the wire image *)
Section Wire.
  Variable seal : bytes -> bytes -> bytes -> bytes.

  (* what a datagram of session ss carrying plaintext p under counter c looks like *)
  Definition wire_image (ss : sess) (mt c : N) (p : bytes) : bytes :=
    header mt (sid ss) c ++ seal (key_send ss) (take ad_len (header mt (sid ss) c)) p.

  Theorem send_wire ss mt m ss' d :
    send seal ss mt m = Ok (ss', d) -> fst d = wire_image ss mt (count ss) m.
  Proof. intros H. now destruct (send_ok _ _ _ _ _ _ H) as (_&_&_&E). Qed.

  Definition is_image_of (ss : sess) (b : bytes) (d : dgram) : Prop :=
    exists c i e, fst d = wire_image ss mt_transport c (slice b i e).

  Lemma is_image_sbc s s' b d : same_but_count s s' -> is_image_of s' b d -> is_image_of s b d.
  Proof.
    intros (E1&E2&_) (c&i&e&H). exists c, i, e. unfold wire_image in *. now rewrite <- E1, <- E2.
  Qed.

  Lemma write_loop_wire max b : forall rs ss out total,
    Forall (is_image_of ss b) out ->
    Forall (is_image_of ss b) (w_out (write_loop seal max ss b rs out total)).
  Proof.
    induction rs as [|[i e] r IH]; intros ss out total Ho; simpl; [exact Ho|].
    destruct (write_msg seal max ss (slice b i e)) as [[s1 d]| |] eqn:W; simpl; try exact Ho.
    pose proof (write_msg_sbc _ _ _ _ _ _ W) as Hs.
    eapply Forall_impl; [intros x; apply (is_image_sbc ss s1 b x Hs)|].
    apply IH. apply Forall_app. split.
    - eapply Forall_impl; [|exact Ho]. intros x (c&i'&e'&H). exists c, i', e'.
      destruct Hs as (E1&E2&_). unfold wire_image in *. now rewrite E1, E2.
    - constructor; [|constructor]. unfold write_msg in W. destruct (max <? len (slice b i e)); [discriminate|].
      exists (count ss), i, e. destruct Hs as (E1&E2&_). unfold wire_image. rewrite E1, E2.
      apply (send_wire _ _ _ _ _ W).
  Qed.

  (* C03 confidentiality, structural part: every datagram a Write puts on the wire is a header followed by
     SANSE's output on a piece of the buffer; the buffer reaches the wire only through Seal *)
  Theorem write_wire max ss b w :
    write seal max ss b = Some w -> Forall (is_image_of ss b) (w_out w).
  Proof.
    unfold write. destruct (len b <=? max) eqn:Hle.
    - destruct (write_msg seal max ss b) as [[s1 d]| |] eqn:W; intros H; inversion H; simpl; constructor; [|constructor].
      unfold write_msg in W. destruct (max <? len b); [discriminate|].
      exists (count ss), 0, (len b). rewrite (send_wire _ _ _ _ _ W). f_equal. f_equal.
      rewrite slice_eq, drop_0, N.sub_0_r. symmetry. apply take_all. lia.
    - destruct (chunk_ranges _ _ _ _); [|discriminate]. intros H. inversion H. apply write_loop_wire. constructor.
  Qed.
End Wire.
