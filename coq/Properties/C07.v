(* C07 — a delegate session can do only what its grants allow, once, and in time.
   Model: Model/Authz.v (the code after `fix: checkCmd must honour a grant's start time`,
   `fix: a session admitted through authorization grants must not issue grants` and
   `fix: refuse port forwarding for sessions admitted through authorization grants`);
   proofs: Proofs/AuthzProofs.v.  Histories: grant additions (server API or through an authgrant
   tube), logins, exec / port-forwarding / intent requests in any session at arbitrary clock values.

   The full statement - every action a grant-admitted session starts is covered by a live,
   matching, unused grant of that session - is proved for all histories.  On the tube switch as it
   was before the last two fixes (`trace_orig`: PFControl / PF / AuthGrant tubes of a grant session
   handled without consulting its grants) the statement fails; the two witnesses are kept as
   `..._original_refuted`. *)
From Hop Require Import Base Authz AuthzProofs.
Open Scope N_scope.

(* ---- the full statement: every started action (shell, command, port forwarding, grant issuing)
   of a session admitted through grants is covered by its own live, matching, unused grant ---- *)
Theorem c07_action_needs_live_grant :
  forall parse ops, all_justified (start_justified scope_all) (trace parse ops).
Proof. exact actions_justified. Qed.
Print Assumptions c07_action_needs_live_grant.

(* in particular such a session never starts port forwarding and never has a grant stored: whatever
   it starts is a shell or a command *)
Theorem c07_delegate_starts_only_exec : forall parse ops pre sid a t used post u k ags,
    trace parse ops = pre ++ EvStart sid a t used :: post ->
    login_of pre sid = Some (u, k, ViaGrant ags) ->
    exists cmd shell, a = AExec cmd shell.
Proof. exact delegate_starts_only_exec. Qed.
Print Assumptions c07_delegate_starts_only_exec.

(* spelled out: a shell or command started in a session that was admitted through grants used a
   grant g that the session was handed at login, that was stored for exactly the session's user and
   key, with start <= t < expiry, of the right type, with identical command text, not used before *)
Theorem c07_exec_needs_live_grant : forall parse ops pre sid cmd shell t used post u k ags,
    trace parse ops = pre ++ EvStart sid (AExec cmd shell) t used :: post ->
    login_of pre sid = Some (u, k, ViaGrant ags) ->
    exists g, used = Some g /\ In g ags /\ In (EvAdded g u k) pre /\
              authorizes g (AExec cmd shell) t /\ ~ In (g_id g) (used_ids pre).
Proof. exact exec_needs_live_grant. Qed.
Print Assumptions c07_exec_needs_live_grant.

(* each grant authorizes a single action: over a whole history no serial is spent twice, and
   serials identify stored grants *)
Theorem c07_single_use : forall parse ops, NoDup (used_ids (trace parse ops)).
Proof. exact single_use. Qed.
Print Assumptions c07_single_use.

Theorem c07_grant_serials_unique : forall parse ops g u k g' u' k',
    In (EvAdded g u k) (trace parse ops) -> In (EvAdded g' u' k') (trace parse ops) ->
    g_id g = g_id g' -> EvAdded g u k = EvAdded g' u' k'.
Proof. intros parse ops. intros. eapply added_ids_functional; eauto. apply ids_unique. Qed.
Print Assumptions c07_grant_serials_unique.

(* key-bound: the grants a connection receives at login were all stored for exactly its user and
   its key *)
Theorem c07_key_bound : forall parse ops pre sid u k ags post g,
    trace parse ops = pre ++ EvLogin sid u k (ViaGrant ags) :: post ->
    In g ags -> In (EvAdded g u k) pre.
Proof. exact key_bound. Qed.
Print Assumptions c07_key_bound.

(* grants disappear once consumed: whatever is still stored on the server after a history - in the
   map or in any session - has never been used (and a login empties the map entry and removes the
   key from the transport key set: c05_grant_consumed) *)
Theorem c07_session_grants_unused : forall parse ops sid s g,
    nth_sess (st_sess (final parse ops)) sid = Some s -> In g (s_actions s) ->
    ~ In (g_id g) (used_ids (trace parse ops)).
Proof. exact session_grants_unused. Qed.
Print Assumptions c07_session_grants_unused.

Theorem c07_map_grants_unused : forall parse ops u k l g,
    ag_lookup (st_agmap (final parse ops)) (u, k) = Some l -> In g l ->
    ~ In (g_id g) (used_ids (trace parse ops)).
Proof. exact map_grants_unused. Qed.
Print Assumptions c07_map_grants_unused.

Theorem c07_grants_leave_the_server_at_login : forall parse ops u k st' sid ags,
    step parse (final parse ops) (OLogin u k) = (st', [EvLogin sid u k (ViaGrant ags)]) ->
    ag_lookup (st_agmap st') (u, k) = None /\ key_mem (st_keys st') k = false /\
    unconsumed (trace parse ops ++ [EvLogin sid u k (ViaGrant ags)]) u k = [].
Proof. exact grant_consumed_login. Qed.
Print Assumptions c07_grants_leave_the_server_at_login.

(* target-side intent policy: a further grant is stored through an authgrant tube only if the
   session was not itself admitted through grants, grants are enabled, the intent has not expired, names the session's user, carries a well-formed
   delegate certificate and a known grant type *)
Theorem c07_issue_conditions : forall parse st sid i cert_ok wall st' evs,
    step parse st (OIntent sid i cert_ok wall) = (st', evs) ->
    In (EvStart sid (AIssue i) wall None) evs ->
    exists s, nth_sess (st_sess st) sid = Some s /\ s_using s = false /\ st_enabled st = true /\
              (wall <= i_exp i)%Z /\ s_user s = i_user i /\ cert_ok = true /\ 1 <= i_type i <= 4.
Proof. exact issue_conditions. Qed.
Print Assumptions c07_issue_conditions.

(* ---- on the tube switch before the last two fixes the full statement fails ---- *)
Definition no_parse (l : bytes) : option key := None.
Definition alice : user := [97].
Definition ls : bytes := [108; 115].
Definition g_ls : grant := mkGrant 0 2 0 100 ls no_session.

(* witness 1: a delegate holding one grant, for the command "ls", opens a port-forwarding control
   tube; the server starts port forwarding *)
Definition w_pf : list op :=
  [ OSetFile alice FMissing; OEnable true; OAddGrant (Some (mkIntent 2 0 100 alice 7 ls));
    OLogin alice 7; OPF 0 50 ].
Example c07_w_pf_trace :
  trace_orig no_parse w_pf =
  [EvSetFile alice FMissing; EvEnable true; EvAdded g_ls alice 7; EvLogin 0 alice 7 (ViaGrant [g_ls])]
    ++ EvStart 0 APF 50 None :: [].
Proof. vm_compute. reflexivity. Qed.

Theorem c07_action_needs_live_grant_original_refuted :
  exists ops, ~ all_justified (start_justified scope_all) (trace_orig no_parse ops).
Proof.
  exists w_pf. intro H.
  pose proof (all_justified_split _ _ H _ _ _ c07_w_pf_trace) as J.
  vm_compute in J. destruct (J eq_refl) as [g [Hn _]]. discriminate Hn.
Qed.
Print Assumptions c07_action_needs_live_grant_original_refuted.

(* the same history on the code as it is: the request is refused *)
Example c07_w_pf_now :
  trace no_parse w_pf =
  [EvSetFile alice FMissing; EvEnable true; EvAdded g_ls alice 7; EvLogin 0 alice 7 (ViaGrant [g_ls]);
   EvRefuse 0 APF 50].
Proof. vm_compute. reflexivity. Qed.

(* witness 2: the same delegate opens an authgrant tube, has a Shell grant for its own key stored,
   reconnects and is given a shell: one command grant became unlimited access *)
Definition g_sh : grant := mkGrant 1 1 0 100 [] no_session.
Definition w_issue : list op :=
  [ OSetFile alice FMissing; OEnable true; OAddGrant (Some (mkIntent 2 0 100 alice 7 ls));
    OLogin alice 7; OIntent 0 (mkIntent 1 0 100 alice 7 []) true 50; OLogin alice 7; OExec 1 [] true 60 ].
Example c07_w_issue_trace :
  trace_orig no_parse w_issue =
  [EvSetFile alice FMissing; EvEnable true; EvAdded g_ls alice 7; EvLogin 0 alice 7 (ViaGrant [g_ls]);
   EvAdded g_sh alice 7]
    ++ EvStart 0 (AIssue (mkIntent 1 0 100 alice 7 [])) 50 None
    :: [EvLogin 1 alice 7 (ViaGrant [g_sh]); EvStart 1 (AExec [] true) 60 (Some g_sh)].
Proof. vm_compute. reflexivity. Qed.

Theorem c07_grant_issuing_original_refuted :
  exists ops pre sid i t post u k ags,
    trace_orig no_parse ops = pre ++ EvStart sid (AIssue i) t None :: post /\
    login_of pre sid = Some (u, k, ViaGrant ags) /\
    ~ start_justified scope_all pre (EvStart sid (AIssue i) t None).
Proof.
  exists w_issue. do 8 eexists. split; [exact c07_w_issue_trace|]. split; [vm_compute; reflexivity|].
  intro J. vm_compute in J. destruct (J eq_refl) as [g [Hn _]]. discriminate Hn.
Qed.
Print Assumptions c07_grant_issuing_original_refuted.

(* now: the intent is denied, the second login finds no grant, there is no session 1 *)
Example c07_w_issue_now :
  trace no_parse w_issue =
  [EvSetFile alice FMissing; EvEnable true; EvAdded g_ls alice 7; EvLogin 0 alice 7 (ViaGrant [g_ls]);
   EvRefuse 0 (AIssue (mkIntent 1 0 100 alice 7 [])) 50; EvDenied alice 7; EvNoSession 1].
Proof. vm_compute. reflexivity. Qed.

(* ---- non-vacuity of c07_exec_needs_live_grant: its premises hold in a concrete history, and the
   grant-time / command / single-use refusals really occur ---- *)
Definition ex_ops : list op :=
  [ OSetFile alice FMissing; OEnable true;
    OAddGrant (Some (mkIntent 2 10 100 alice 7 ls)); OAddGrant (Some (mkIntent 1 10 20 alice 7 []));
    OLogin alice 7;
    OExec 0 ls false 5;            (* before the start time: refused *)
    OExec 0 [108] false 50;        (* prefix of the command: refused *)
    OExec 0 ls false 50;           (* started, uses grant 0 *)
    OExec 0 ls false 51;           (* again: refused *)
    OExec 0 [] true 20 ].          (* shell at the expiry instant: refused *)
Example c07_example_trace :
  trace no_parse ex_ops =
  [EvSetFile alice FMissing; EvEnable true;
   EvAdded (mkGrant 0 2 10 100 ls no_session) alice 7; EvAdded (mkGrant 1 1 10 20 [] no_session) alice 7;
   EvLogin 0 alice 7 (ViaGrant [mkGrant 0 2 10 100 ls no_session; mkGrant 1 1 10 20 [] no_session]);
   EvRefuse 0 (AExec ls false) 5; EvRefuse 0 (AExec [108] false) 50]
    ++ EvStart 0 (AExec ls false) 50 (Some (mkGrant 0 2 10 100 ls no_session))
    :: [EvRefuse 0 (AExec ls false) 51; EvRefuse 0 (AExec [] true) 20].
Proof. vm_compute. reflexivity. Qed.
Example c07_example_premise :
  login_of [EvSetFile alice FMissing; EvEnable true;
            EvAdded (mkGrant 0 2 10 100 ls no_session) alice 7; EvAdded (mkGrant 1 1 10 20 [] no_session) alice 7;
            EvLogin 0 alice 7 (ViaGrant [mkGrant 0 2 10 100 ls no_session; mkGrant 1 1 10 20 [] no_session]);
            EvRefuse 0 (AExec ls false) 5; EvRefuse 0 (AExec [108] false) 50] 0
  = Some (alice, 7, ViaGrant [mkGrant 0 2 10 100 ls no_session; mkGrant 1 1 10 20 [] no_session]).
Proof. vm_compute. reflexivity. Qed.
