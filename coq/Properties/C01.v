(* C01 — a handshake completes only with a peer that proved its certified key.

   Model: Model/Handshake.v (message readers/writers over a symbolic duplex whose outputs,
   like X25519, ML-KEM and the certificate policy verdict, are oracles) and Model/HsServer.v
   (Server.readPacket). All theorems hold for every byte string and every oracle behaviour. *)
From Hop Require Import Base Handshake HsServer HandshakeProofs HsServerProofs HsBindingProofs HsHonestProofs HsInstances Keccak Cyclist CyclistProofs HsConcrete HsConcreteProofs.
Open Scope N_scope.

(* ---- client side, discoverable mode. The client accepts a ServerAuth only if the policy
   admits the decrypted certificate chain (for the name in the client's verify configuration
   [pol]) and the trailing MAC is the squeeze of the transcript [sa_T7] that absorbed
   DH(client ephemeral, certified server key). *)
Theorem c01_client_accept_server_auth : forall O X ce pol T b T' r,
  read_server_auth O X ce pol T b = (T', Ok r) ->
  exists ee des leaf inter,
    at_ b 0 = MT_ServerAuth /\ SAMinLen + sa_L b <= len b /\ sa_n r = SAMinLen + sa_L b /\
    sa_sid r = slice b HeaderLen SessionIDLen /\ sa_eph r = slice b (HeaderLen + SessionIDLen) DHLen /\
    x_dh X ce (sa_eph r) = Some ee /\
    certs_of (sa_certs_pt O T b ee) (len (slice b sa_off (sa_L b))) = Ok (leaf, inter) /\
    slice b (sa_off + sa_L b) MacLen = o_sq O (sa_T5 O T b ee) MacLen /\
    x_policy X pol leaf inter = Some (sa_pk r) /\
    x_dh X ce (sa_pk r) = Some des /\
    slice b (sa_off + sa_L b + MacLen) MacLen = o_sq O (sa_T7 O T b ee des) MacLen /\
    T' = OSqueeze MacLen :: sa_T7 O T b ee des.
Proof. exact read_server_auth_accept. Qed.
Print Assumptions c01_client_accept_server_auth.

(* ---- client side, hidden mode: the same with DH(client static, certified server key). *)
Theorem c01_client_accept_response_hidden : forall O X ek cs pol T b T' r,
  read_response_hidden O X ek cs pol T b = (T', Ok r) ->
  exists k dss leaf inter,
    at_ b 0 = MT_ServerResponseHidden /\ SRHMinLen + sa_L b <= len b /\ sa_n r = SRHMinLen + sa_L b /\
    sa_sid r = slice b HeaderLen SessionIDLen /\
    x_decaps X ek (slice b (HeaderLen + SessionIDLen) KemCtLen) = Some k /\
    certs_of (srh_certs_pt O T b k) (len (slice b srh_off (sa_L b))) = Ok (leaf, inter) /\
    slice b (srh_off + sa_L b) MacLen = o_sq O (srh_T4 O T b k) MacLen /\
    x_policy X pol leaf inter = Some (sa_pk r) /\
    x_dh X cs (sa_pk r) = Some dss /\
    slice b (srh_off + sa_L b + MacLen) MacLen = o_sq O (srh_T6 O T b k dss) MacLen /\
    T' = OSqueeze MacLen :: srh_T6 O T b k dss.
Proof. exact read_response_hidden_accept. Qed.
Print Assumptions c01_client_accept_response_hidden.

(* ---- with the named hypothesis mac_binding (equal 16-byte squeezes come from equal
   transcripts): whoever produced the accepted final MAC as a squeeze of a transcript had
   absorbed the static DH value immediately before, i.e. knew DH(e, s_cert) resp. DH(ss). *)
Theorem c01_server_auth_mac_producer_under_mac_binding : forall O X ce pol T b T' r Tp,
  mac_binding O ->
  read_server_auth O X ce pol T b = (T', Ok r) ->
  o_sq O Tp MacLen = slice b (sa_off + sa_L b + MacLen) MacLen ->
  exists des, x_dh X ce (sa_pk r) = Some des /\ exists Tm, Tp = OAbsorb des :: Tm.
Proof. exact server_auth_mac_producer_under_mac_binding. Qed.
Print Assumptions c01_server_auth_mac_producer_under_mac_binding.

Theorem c01_response_hidden_mac_producer_under_mac_binding : forall O X ek cs pol T b T' r Tp,
  mac_binding O ->
  read_response_hidden O X ek cs pol T b = (T', Ok r) ->
  o_sq O Tp MacLen = slice b (srh_off + sa_L b + MacLen) MacLen ->
  exists dss, x_dh X cs (sa_pk r) = Some dss /\ exists Tm, Tp = OAbsorb dss :: Tm.
Proof. exact response_hidden_mac_producer_under_mac_binding. Qed.
Print Assumptions c01_response_hidden_mac_producer_under_mac_binding.

(* ---- server side: readPQClientAuth accepts only if the server's client-verification policy
   admits the certificate and the final MAC covers DH(server ephemeral, certified client key). *)
Theorem c01_server_accept_client_auth : forall O X se pol sid T b T' n pk,
  read_client_auth O X se pol sid T b = (T', Ok (n, pk)) ->
  exists dse leaf inter,
    at_ b 0 = MT_ClientAuth /\ ca_off + sa_L b + 2 * MacLen <= len b /\ n = ca_off + sa_L b + 2 * MacLen /\
    slice b HeaderLen SessionIDLen = sid /\
    certs_of (ca_certs_pt O T b) (len (slice b ca_off (sa_L b))) = Ok (leaf, inter) /\
    slice b (ca_off + sa_L b) MacLen = o_sq O (ca_T3 O T b) MacLen /\
    x_policy X pol leaf inter = Some pk /\
    x_dh X se pk = Some dse /\
    slice b (ca_off + sa_L b + MacLen) MacLen = o_sq O (ca_T5 O T b dse) MacLen /\
    T' = OSqueeze MacLen :: ca_T5 O T b dse.
Proof. exact read_client_auth_accept. Qed.
Print Assumptions c01_server_accept_client_auth.

Theorem c01_client_auth_mac_producer_under_mac_binding : forall O X se pol sid T b T' n pk Tp,
  mac_binding O ->
  read_client_auth O X se pol sid T b = (T', Ok (n, pk)) ->
  o_sq O Tp MacLen = slice b (ca_off + sa_L b + MacLen) MacLen ->
  exists dse, x_dh X se pk = Some dse /\ exists Tm, Tp = OAbsorb dse :: Tm.
Proof. exact client_auth_mac_producer_under_mac_binding. Qed.
Print Assumptions c01_client_auth_mac_producer_under_mac_binding.

(* ---- hidden mode, server side: the request is accepted only if it trial-decrypts under the
   KEM key of a configured certificate, the client certificate passes the server's policy, the
   timestamp is within the window and the final MAC verifies. *)
Theorem c01_server_accept_request_hidden : forall O X certs pol now T b T' q,
  read_request_hidden O X certs pol now T b = (T', Ok q) ->
  exists cs Tp kid k leaf inter,
    certs = Some cs /\ In (hq_cert q) cs /\
    at_ b 0 = MT_ClientRequestHidden /\ at_ b 1 = Version /\
    hq_n q = HeaderLen + KemCtLen + sa_L b + MacLen + KemKeyLen + TimestampLen + MacLen /\ hq_n q <= len b /\
    hc_kem (hq_cert q) = Some kid /\ hc_hasname (hq_cert q) = true /\
    x_decaps X kid (slice b (HeaderLen + KemKeyLen) KemCtLen) = Some k /\
    certs_of (hq_certs_pt O Tp b k) (len (slice b hq_off (sa_L b))) = Ok (leaf, inter) /\
    slice b (hq_off + sa_L b) MacLen = o_sq O (hq_T4 O Tp b k) MacLen /\
    x_kemparse X (slice b HeaderLen KemKeyLen) = Some (hq_kem q) /\
    x_policy X pol leaf inter = Some (hq_pk q) /\
    be_dec (hq_ts O Tp b k) <= now /\ now - be_dec (hq_ts O Tp b k) <= HiddenExpiration /\
    slice b (hq_off + sa_L b + MacLen + TimestampLen) MacLen = o_sq O (hq_T6 O Tp b k) MacLen /\
    T' = OSqueeze MacLen :: hq_T6 O Tp b k /\ hq_tr q = T'.
Proof. exact read_request_hidden_accept. Qed.
Print Assumptions c01_server_accept_request_hidden.

(* ... and the keys of a hidden-mode session are derived from a transcript in which the server
   absorbed DH(certified server key, certified client key) before the final MAC: only a
   holder of the client's private key can compute them. *)
Theorem c01_hidden_keys_bind_static_dh : forall O X T sid ect ek ss cpk leaf inter T' m,
  write_response_hidden O X T sid ect ek ss cpk leaf inter = (T', Ok m) ->
  exists dss Tm, x_dh X ss cpk = Some dss /\ T' = OSqueeze MacLen :: OAbsorb dss :: Tm /\
                 slice m (len m - MacLen) MacLen = slice m (len m - MacLen) MacLen.
Proof. exact write_response_hidden_binds_ss. Qed.
Print Assumptions c01_hidden_keys_bind_static_dh.

(* ---- Server.readPacket publishes a handle to Accept only in a step whose datagram is a
   ClientAuth accepted by readPQClientAuth against the stored handshake of the source address
   (consumed length = datagram length), or — in hidden mode — a request accepted by
   readPQClientRequestHidden. For every datagram, state and packet model SM. *)
Theorem c01_server_publishes_only_authenticated : forall O X SM s I a d,
  sv_pending (so_srv (server_step O X SM s I a d)) <> sv_pending s ->
  published_by_client_auth O X s a d (so_srv (server_step O X SM s I a d)) \/
  published_by_hidden_request O X s I d (so_srv (server_step O X SM s I a d)).
Proof. exact server_publishes_only_authenticated. Qed.
Print Assumptions c01_server_publishes_only_authenticated.

(* ---- the combination logic of certificateParserAndVerifier, for all verdicts of its parts *)
Theorem c01_policy_table : forall p,
  policy_verify p = true <->
  p_parse p = true /\
  (p_nil p = true \/
   ((p_skip p = true \/ (p_ak_allowed p = true /\ p_ak_ok p = true) \/ p_store_ok p = true) /\
    p_cb p <> Some false)).
Proof. exact policy_verify_spec. Qed.
Print Assumptions c01_policy_table.

(* the four configured policies of the property text (no callback) *)
Definition pol_store (parse sto : bool) := {| p_parse := parse; p_nil := false; p_skip := false; p_ak_allowed := false; p_ak_ok := false; p_store_ok := sto; p_cb := None |}.
Definition pol_authkeys (parse ako : bool) := {| p_parse := parse; p_nil := false; p_skip := false; p_ak_allowed := true; p_ak_ok := ako; p_store_ok := false; p_cb := None |}.
Definition pol_both (parse ako sto : bool) := {| p_parse := parse; p_nil := false; p_skip := false; p_ak_allowed := true; p_ak_ok := ako; p_store_ok := sto; p_cb := None |}.
Definition pol_skip (parse ako sto : bool) := {| p_parse := parse; p_nil := false; p_skip := true; p_ak_allowed := false; p_ak_ok := ako; p_store_ok := sto; p_cb := None |}.
Theorem c01_policy_table_four : forall parse ako sto,
  policy_verify (pol_store parse sto) = parse && sto /\
  policy_verify (pol_authkeys parse ako) = parse && ako /\
  policy_verify (pol_both parse ako sto) = parse && (ako || sto) /\
  policy_verify (pol_skip parse ako sto) = parse.
Proof. intros [|] [|] [|]; repeat split; reflexivity. Qed.
Print Assumptions c01_policy_table_four.

(* ---- non-vacuity: with a toy oracle a well-formed ServerAuth is accepted, and the same
   message with one MAC bit flipped is rejected. *)
Definition toyO : doracle :=
  {| o_sq := fun T n => repeat (N.of_nat (List.length T)) (N.to_nat n);
     o_dec := fun _ c => c; o_enc := fun _ p => p |}.
Definition toyX : xoracle :=
  {| x_dh := fun id pk => Some (id :: pk); x_decaps := fun _ c => Some (take 32 c);
     x_kemparse := fun b => Some b; x_policy := fun _ leaf _ => Some leaf;
     x_hash := fun b => take 32 b; x_open := fun _ _ c => Some (take 32 c) |}.
Definition toy_sa : bytes :=
  [4; 0; 0; 7] ++ [9; 9; 9; 9] ++ repeat 5 32 ++ [0; 2; 42; 43; 0; 1; 44] ++ repeat 5 16 ++ repeat 7 16.
Example c01_nonvacuous_accept : is_ok (snd (read_server_auth toyO toyX 1 0 [] toy_sa)) = true.
Proof. vm_compute. reflexivity. Qed.
Example c01_nonvacuous_reject :
  is_ok (snd (read_server_auth toyO toyX 1 0 [] (firstn 78 toy_sa ++ [9]))) = false.
Proof. vm_compute. reflexivity. Qed.

(* the hypothesis mac_binding of the *_under_mac_binding theorems is satisfiable *)
Example c01_mac_binding_satisfiable : mac_binding injO.
Proof. exact mac_binding_satisfiable. Qed.

(* ====== the executable instance (Model/HsConcrete.v): readers written directly over Cyclist API calls
   on the handshake state's Cyclist object, as the Go code is, coincide with the symbolic readers whose
   oracle is "run the transcript on Cyclist over Keccak-p[1600,12]" — same outcome, and the object
   left behind is the object of the transcript left behind. So every theorem above about the symbolic
   readers (all oracles) speaks about byte-exact hop when instantiated with hopO. *)
Theorem c01_concrete_server_auth_reader : forall X ce pol T c b,
  cy_of keccak12 T = Ok c -> md c = MKey ->
  exists c', c_read_server_auth keccak12 X ce pol c b = Ok (c', snd (read_server_auth hopO X ce pol T b)) /\
             cy_of keccak12 (fst (read_server_auth hopO X ce pol T b)) = Ok c'.
Proof. exact (read_server_auth_concrete keccak12). Qed.
Print Assumptions c01_concrete_server_auth_reader.

Theorem c01_concrete_client_auth_reader : forall X se pol sid T c b,
  cy_of keccak12 T = Ok c -> md c = MKey ->
  exists c', c_read_client_auth keccak12 X se pol sid c b = Ok (c', snd (read_client_auth hopO X se pol sid T b)) /\
             cy_of keccak12 (fst (read_client_auth hopO X se pol sid T b)) = Ok c'.
Proof. exact (read_client_auth_concrete keccak12). Qed.
Print Assumptions c01_concrete_client_auth_reader.

Theorem c01_concrete_server_auth_accept_iff : forall X ce pol T c b,
  cy_of keccak12 T = Ok c -> md c = MKey ->
  (exists c' r, c_read_server_auth keccak12 X ce pol c b = Ok (c', Ok r)) <->
  (exists T' r, read_server_auth hopO X ce pol T b = (T', Ok r)).
Proof. exact (server_auth_accept_iff_concrete keccak12). Qed.
Print Assumptions c01_concrete_server_auth_accept_iff.

Theorem c01_concrete_client_auth_accept_iff : forall X se pol sid T c b,
  cy_of keccak12 T = Ok c -> md c = MKey ->
  (exists c' r, c_read_client_auth keccak12 X se pol sid c b = Ok (c', Ok r)) <->
  (exists T' r, read_client_auth hopO X se pol sid T b = (T', Ok r)).
Proof. exact (client_auth_accept_iff_concrete keccak12). Qed.
Print Assumptions c01_concrete_client_auth_accept_iff.

(* C01 for the byte-exact reader: acceptance => the policy admits the decrypted chain and the trailing
   MAC is what Cyclist squeezes right after Absorb(DH(e, certified key)) on the object reached by the
   code's call sequence. Only X25519 and the policy remain oracles. *)
Theorem c01_concrete_server_auth_accept : forall X ce pol T c b c' r,
  cy_of keccak12 T = Ok c -> md c = MKey ->
  c_read_server_auth keccak12 X ce pol c b = Ok (c', Ok r) ->
  exists ee des leaf inter c6,
    x_dh X ce (sa_eph r) = Some ee /\
    certs_of (sa_certs_pt hopO T b ee) (len (slice b sa_off (sa_L b))) = Ok (leaf, inter) /\
    x_policy X pol leaf inter = Some (sa_pk r) /\
    x_dh X ce (sa_pk r) = Some des /\
    cy_of keccak12 (OSqueeze MacLen :: sa_T5 hopO T b ee) = Ok c6 /\
    slice b (sa_off + sa_L b + MacLen) MacLen = fst (cy_squeeze keccak12 (cy_absorb keccak12 c6 des) (N.to_nat MacLen)).
Proof. exact (c_read_server_auth_accept keccak12). Qed.
Print Assumptions c01_concrete_server_auth_accept.
