//go:build verif

package portforwarding

import (
	"io"
	"net"
)

// VerifWireToBytes = toBytes
func VerifWireToBytes(a net.Addr, fwdType int) []byte { return toBytes(a, fwdType) }

// VerifWireReadPacket = readPacket
func VerifWireReadPacket(r io.Reader) (net.Addr, byte, error) { return readPacket(r) }
