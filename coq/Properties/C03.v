(* C03 — transport channel: authentic, at-most-once, complete and confidential delivery.
   Model: Model/Packet.v (follows transport.go / handle.go / server.go / client.go after the `fix:` commits
   of branch `packet`); proofs: Proofs/PacketProofs.v; replay filter: Model/Replay.v, Proofs/ReplayProofs.v.
   `seal` / `open` are arbitrary functions (Section variables, universally quantified in every theorem):
   theorems without a named hypothesis hold for ANY AEAD, even a broken one. *)
From Hop Require Import Base Replay ReplayProofs Packet PacketProofs PacketExamples PacketSanse PacketSanseProofs.
Open Scope N_scope.

(* ---- "datagrams that do not authenticate never close or disturb an established session" ---- *)

(* NO hypothesis: whatever the bytes, the source address and the AEAD, a datagram that fails any check
   (length, type, reserved bytes, session id, replay window, key present, AEAD) leaves the whole session
   record — window, queue, reader buffer, closed flag, address, counters — exactly as it was *)
Theorem c03_reject_preserves_state :
  forall open ss a pkt ss' o,
    session_input open ss a pkt = Ok (ss', o) -> outcome_authentic o = false -> ss' = ss.
Proof. exact reject_preserves_state. Qed.
Print Assumptions c03_reject_preserves_state.

Theorem c03_client_reject_preserves_state :
  forall open ss a pkt ss' o,
    client_handle open ss a pkt = Ok (ss', o) -> outcome_authentic o = false -> ss' = ss.
Proof. exact client_reject_preserves_state. Qed.
Print Assumptions c03_client_reject_preserves_state.

Theorem c03_server_reject_preserves_state :
  forall open sv a pkt sv' o,
    server_handle open sv a pkt = Ok (sv', o) -> outcome_authentic o = false -> sv' = sv.
Proof. exact server_reject_preserves_state. Qed.
Print Assumptions c03_server_reject_preserves_state.

(* in the AEAD's own terms: if SANSE does not open the body under the session's read key with the 16
   header bytes as associated data, the handler returns without having changed anything *)
Theorem c03_unauthentic_datagram_changes_nothing :
  forall open ss a pkt,
    (forall k, key_recv ss = Some k -> open k (pkt_ad pkt) (pkt_body pkt) = None) ->
    exists o, session_input open ss a pkt = Ok (ss, o) /\ outcome_authentic o = false.
Proof. exact aead_reject_changes_nothing. Qed.
Print Assumptions c03_unauthentic_datagram_changes_nothing.

(* conversely: ANY change of the session record implies the session was open, the header was well formed
   for this session (>= 48 bytes, type transport/control, reserved zero, session id), the counter passed
   the replay filter, and SANSE opened the body to a plaintext of the right length *)
Theorem c03_state_change_implies_authentic_fresh :
  forall open ss a pkt ss' o,
    session_input open ss a pkt = Ok (ss', o) -> ss' <> ss ->
    closed ss = false /\ wf_header ss pkt = true /\
    exists k p, key_recv ss = Some k /\ open k (pkt_ad pkt) (pkt_body pkt) = Some p /\ len p + 48 = len pkt.
Proof. exact change_implies_authentic_fresh. Qed.
Print Assumptions c03_state_change_implies_authentic_fresh.

(* the complete characterisation of handleSessionMessage on one session *)
Theorem c03_session_input_spec :
  forall open ss a pkt,
    match opens open ss pkt with
    | None => exists o, session_input open ss a pkt = Ok (ss, o) /\ outcome_authentic o = false
    | Some p =>
      if len p + 48 =? len pkt
      then session_input open ss a pkt = Ok (apply_auth ss a (pkt_type pkt) (pkt_counter pkt) p)
      else session_input open ss a pkt = Panic
    end.
Proof. exact session_input_spec. Qed.
Print Assumptions c03_session_input_spec.

(* a datagram only ever touches the session whose id it carries *)
Theorem c03_server_other_sessions_untouched :
  forall open sv a pkt sv' o id',
    server_handle open sv a pkt = Ok (sv', o) -> peek_session pkt <> Some id' -> lookup sv' id' = lookup sv id'.
Proof. exact server_other_sessions_untouched. Qed.
Print Assumptions c03_server_other_sessions_untouched.

(* the handler (after the fix) cannot panic unless the AEAD returns a plaintext of the wrong length *)
Theorem c03_handler_panics_only_if_aead_length_lie :
  forall open ss a pkt, session_input open ss a pkt = Panic ->
    exists k p, key_recv ss = Some k /\ open k (pkt_ad pkt) (pkt_body pkt) = Some p /\ len p + 48 <> len pkt.
Proof. exact panic_only_if_aead_length_lie. Qed.
Print Assumptions c03_handler_panics_only_if_aead_length_lie.

Theorem c03_server_panics_only_if_aead_length_lie :
  forall open sv a pkt, server_handle open sv a pkt = Panic ->
    exists ss k p, In ss sv /\ key_recv ss = Some k /\ open k (pkt_ad pkt) (pkt_body pkt) = Some p /\ len p + 48 <> len pkt.
Proof. exact server_never_panics_unless_aead_lies. Qed.
Print Assumptions c03_server_panics_only_if_aead_length_lie.

(* the default branch of the type switch is dead code *)
Theorem c03_unknown_type_branch_unreachable :
  forall open ss a pkt ss' o, session_input open ss a pkt = Ok (ss', o) -> o <> OBadType.
Proof. exact never_bad_type. Qed.
Print Assumptions c03_unknown_type_branch_unreachable.

(* ---- "session close only via authenticated control message" ---- *)
Theorem c03_close_only_by_authentic_control :
  forall open ss a pkt ss' o,
    session_input open ss a pkt = Ok (ss', o) -> closed ss = false -> closed ss' = true ->
    pkt_type pkt = mt_control /\ wf_header ss pkt = true /\ (o = OCtrlClose \/ o = OCtrlBad) /\
    exists k p, key_recv ss = Some k /\ open k (pkt_ad pkt) (pkt_body pkt) = Some p.
Proof. exact close_only_by_authentic_control. Qed.
Print Assumptions c03_close_only_by_authentic_control.

(* ---- "returned at most once, however the network drops, duplicates, reorders ..." ---- *)

(* over ANY history of datagrams (any bytes, any sources) interleaved with reads, writes, sends and close:
   the counters of the datagrams that passed every check are pairwise distinct and distinct from the
   counters A marked before; hypothesis auth_below = the property's bound "counters < 2^63" on the
   datagrams that authenticate (the replay filter's uint64 arithmetic wraps above 2^64 - 448) *)
Theorem c03_accepted_counters_distinct :
  forall seal open max evs ss A,
    Inv (window ss) A -> Forall (fun x => x < lim) A -> NoDup A ->
    auth_below open (key_recv ss) evs ->
    NoDup (rev (accepted seal open max ss evs) ++ A).
Proof. exact accepted_nodup. Qed.
Print Assumptions c03_accepted_counters_distinct.

Theorem c03_at_most_once :
  forall seal open max evs ss A,
    Inv (window ss) A -> Forall (fun x => x < lim) A -> NoDup A ->
    auth_below open (key_recv ss) evs ->
    NoDup (map fst (delivered seal open max ss evs)) /\
    (forall c, In c (map fst (delivered seal open max ss evs)) -> ~ In c A).
Proof. exact delivered_at_most_once. Qed.
Print Assumptions c03_at_most_once.

(* the hypotheses are satisfiable: a fresh session, and a history with a genuine datagram, its replay and a forgery *)
Example c03_at_most_once_nonvacuous :
  Inv (window exB) [] /\ auth_below toy_open (key_recv exB) ex_history /\
  snd (ep_run toy_seal toy_open 100 exB ex_history) =
  [ObIn ODelivered; ObIn ORejected; ObIn ORejected;
   ObSent [(wire_image toy_seal exB mt_transport 0 [7], 3)] 1 false; ObRd (RData [9; 9]); ObRd RBlock].
Proof. split; [exact inv_init|]. split; [exact ex_auth_below|exact ex_history_runs]. Qed.

(* the reader side: (bytes pending at the start) ++ (messages delivered during the history, in order)
   = (bytes handed to Read/ReadMsg calls, in order) ++ (bytes still pending): nothing is handed out twice,
   nothing is lost, nothing is invented — for ReadMsg and Read with any buffer sizes *)
Theorem c03_reader_gets_each_delivered_byte_once :
  forall seal open max evs ss,
    pending ss ++ List.concat (map snd (delivered seal open max ss evs)) =
    read_bytes (snd (ep_run seal open max ss evs)) ++ pending (fst (ep_run seal open max ss evs)).
Proof. exact reader_stream. Qed.
Print Assumptions c03_reader_gets_each_delivered_byte_once.

Theorem c03_readmsg_returns_whole_message :
  forall ss m q n, rbuf ss = [] -> queue ss = m :: q -> len m <= n -> read_msg ss n = (set_queue ss q, RData m).
Proof. exact (read_msg_whole (fun _ _ _ => []) (fun _ _ _ => None)). Qed.
Print Assumptions c03_readmsg_returns_whole_message.

(* ---- "byte-identical to a message the authenticated peer wrote on that session in that direction" ---- *)

(* system of any number of honest endpoints and an adversary who owns the network (SIn hands ANY bytes to any
   endpoint from any address; copies, reflections and cross-injections are special cases).
   The hypothesis int_ctxt_run (named in the theorem): symbolic INT-CTXT of the AEAD along the run — whenever
   a datagram handed to endpoint j opens under j's read key, that (key, ad, plaintext, ciphertext) was
   produced by an honest Seal call earlier in the run (ghost log slog).
   Conclusion: every accepted datagram — hence every message put on a receive queue (type transport) and
   every close (type control) — was sealed by an endpoint whose write key is j's read key, as that type,
   for j's session id, under that counter, with exactly that plaintext. *)
Theorem c03_delivered_was_sent_under_int_ctxt :
  forall seal open st0 evs,
    sys_init_ok st0 (length evs) -> int_ctxt_run seal open st0 evs ->
    forall j t c p, In (j, t, c, p) (dlog (sys_run seal open st0 evs)) ->
    exists en, In en (slog (sys_run seal open st0 evs)) /\
      key_recv (eps st0 j) = Some (key_send (eps st0 (en_who en))) /\
      en_mt en = t /\ en_sid en = sid (eps st0 j) /\ sid (eps st0 (en_who en)) = sid (eps st0 j) /\
      en_ctr en = c /\ en_pt en = p.
Proof. exact delivered_was_sealed_under_int_ctxt. Qed.
Print Assumptions c03_delivered_was_sent_under_int_ctxt.

(* when keys are pairwise distinct (each direction of each session has its own key) the sealer is the peer *)
Theorem c03_delivered_from_peer_under_int_ctxt :
  forall seal open st0 evs j peer,
    sys_init_ok st0 (length evs) -> int_ctxt_run seal open st0 evs ->
    (forall i, key_recv (eps st0 j) = Some (key_send (eps st0 i)) -> i = peer) ->
    forall t c p, In (j, t, c, p) (dlog (sys_run seal open st0 evs)) ->
    exists en, In en (slog (sys_run seal open st0 evs)) /\ en_who en = peer /\ en_mt en = t /\ en_ctr en = c /\ en_pt en = p.
Proof. exact delivered_from_peer_under_int_ctxt. Qed.
Print Assumptions c03_delivered_from_peer_under_int_ctxt.

(* at most once, system-wide: no receiver accepts a counter twice and no sender seals under a counter twice,
   so accepted datagrams map injectively to honest sends *)
Theorem c03_system_at_most_once_under_int_ctxt :
  forall seal open st0 evs,
    sys_init_ok st0 (length evs) -> int_ctxt_run seal open st0 evs ->
    (forall j, NoDup (dlog_ctrs j (dlog (sys_run seal open st0 evs)))) /\
    NoDup (map who_ctr (slog (sys_run seal open st0 evs))).
Proof. exact system_at_most_once_under_int_ctxt. Qed.
Print Assumptions c03_system_at_most_once_under_int_ctxt.

(* the hypotheses are satisfiable: three endpoints; a genuine datagram is delivered, replayed, forged,
   reflected to its sender, injected into another session; a genuine close follows *)
Example c03_int_ctxt_nonvacuous :
  sys_init_ok ex_sys (length ex_run) /\ int_ctxt_run toy_seal toy_open ex_sys ex_run /\
  dlog (sys_run toy_seal toy_open ex_sys ex_run) = [(1%nat, mt_control, 6, [1]); (1%nat, mt_transport, 5, [9; 9])] /\
  closed (eps (sys_run toy_seal toy_open ex_sys ex_run) 1) = true /\
  remote (eps (sys_run toy_seal toy_open ex_sys ex_run) 1) = 4.
Proof. split; [exact ex_sys_init|]. split; [exact ex_int_ctxt|exact ex_run_delivers]. Qed.

(* ---- "every byte accepted by a write call of any size is delivered, and the call reports exactly the
        number of bytes it sent" ---- *)

(* the chunking law of Handle.Write for ALL buffer sizes and every max > 0 *)
Theorem c03_write_complete :
  forall max b cs n, 0 < max -> write_chunks max b = Some (cs, n) ->
    List.concat cs = b /\ n = len b /\ Forall (fun c => len c <= max) cs.
Proof. exact write_chunks_complete. Qed.
Print Assumptions c03_write_complete.

Theorem c03_write_total : forall max b, 0 < max -> exists cs n, write_chunks max b = Some (cs, n).
Proof. exact write_chunks_total. Qed.
Print Assumptions c03_write_total.

Theorem c03_write_no_empty_chunks :
  forall max b cs n, 0 < max -> max < len b -> write_chunks max b = Some (cs, n) -> Forall (fun c => 0 < len c) cs.
Proof. exact write_chunks_nonempty. Qed.
Print Assumptions c03_write_no_empty_chunks.

Example c03_write_complete_nonvacuous : write_chunks 3 [1; 2; 3; 4; 5; 6; 7] = Some ([[1; 2; 3]; [4; 5; 6]; [7]], 7).
Proof. exact ex_write_chunks. Qed.

(* end to end on a faithful network (datagrams of the write handed to the peer in order, unchanged):
   hypotheses open_seal (AEAD correctness) and seal_len (Seal adds 32 bytes), named in the theorem;
   in_sync = the two sessions are the two ends of one direction and the receiver has seen nothing at or
   above the sender's next counter; the two numeric premises are the property's counter bound and the
   scope decision "the receive queue never fills up" (DESIGN.md section 5, decision 1) *)
Theorem c03_write_delivered_on_faithful_network_under_open_seal :
  forall seal open,
    (forall k ad p, open k ad (seal k ad p) = Some p) ->
    (forall k ad p, len (seal k ad p) = tag_len + len p) ->
    forall max A B a b w,
      0 < max -> in_sync A B ->
      count A + len b + 1 < lim ->
      qlen (queue B) + len b + 1 <= qcap B ->
      write seal max A b = Some w ->
      w_err w = false /\ w_panic w = false /\ w_n w = len b /\
      Forall (fun d : dgram => snd d = remote A) (w_out w) /\
      exists B', feed open B a (map fst (w_out w)) = Ok (B', repeat ODelivered (length (w_out w))) /\
                 List.concat (queue B') = List.concat (queue B) ++ b /\ rbuf B' = rbuf B /\ remote B' = a.
Proof. exact write_delivered. Qed.
Print Assumptions c03_write_delivered_on_faithful_network_under_open_seal.

Example c03_write_delivered_nonvacuous :
  (forall k ad p, toy_open k ad (toy_seal k ad p) = Some p) /\
  (forall k ad p, len (toy_seal k ad p) = tag_len + len p) /\ in_sync exA exB /\
  match write toy_seal 3 exA [10; 11; 12; 13; 14; 15; 16] with
  | Some w =>
    match feed toy_open exB 9 (map fst (w_out w)) with
    | Ok (B', os) => w_n w = 7 /\ w_err w = false /\ queue B' = [[10; 11; 12]; [13; 14; 15]; [16]] /\
                     os = [ODelivered; ODelivered; ODelivered] /\ remote B' = 9
    | _ => False
    end
  | None => False
  end.
Proof.
  split; [exact toy_open_seal|]. split; [exact toy_seal_len|]. split; [exact ex_in_sync|exact ex_write_delivered].
Qed.

(* ---- "application data never appears on the wire unencrypted" (structural part) ---- *)

(* every datagram a send / Write hands to the socket is header(type,0,0,0,session id,counter) followed by
   SANSE.Seal(write key, ad = those 16 header bytes, plaintext piece): the plaintext reaches the wire
   only as an argument of Seal, and type, session id and counter are authenticated *)
Theorem c03_wire_is_header_plus_seal :
  forall seal ss mt m ss' d, send seal ss mt m = Ok (ss', d) -> fst d = wire_image seal ss mt (count ss) m.
Proof. exact send_wire. Qed.
Print Assumptions c03_wire_is_header_plus_seal.

Theorem c03_write_wire_is_header_plus_seal :
  forall seal max ss b w, write seal max ss b = Some w -> Forall (is_image_of seal ss b) (w_out w).
Proof. exact write_wire. Qed.
Print Assumptions c03_write_wire_is_header_plus_seal.

(* ====================================================================================================== *)
(* The real AEAD: Section variables instantiated with Kravatte-SANSE exactly as transport.go calls it      *)
(* (Model/PacketSanse.v: fresh NewSANSE(key) per packet, nonce nil, AD = the 16 header bytes), on the      *)
(* executable model of Model/Sanse.v / Kravatte.v.  The AEAD hypotheses are DISCHARGED from C12's theorems *)
(* (open_seal, seal_length, kv_out_length); only INT-CTXT remains a (cryptographic) hypothesis elsewhere.  *)
(* ====================================================================================================== *)

Theorem c03_sanse_open_seal : forall k ad p, good_key k -> sanse_open k ad (sanse_seal k ad p) = Some p.
Proof. exact sanse_open_seal. Qed.
Print Assumptions c03_sanse_open_seal.

Theorem c03_sanse_seal_length : forall k ad p, good_key k -> len (sanse_seal k ad p) = tag_len + len p.
Proof. exact sanse_seal_len. Qed.
Print Assumptions c03_sanse_seal_length.

Theorem c03_sanse_open_length : forall k ad ct p, sanse_open k ad ct = Some p -> len p + 32 = len ct.
Proof. exact sanse_open_len. Qed.
Print Assumptions c03_sanse_open_length.

(* unconditional: with the real AEAD, write of any size on a faithful network is delivered completely
   (good_key = the key is one NewSANSE accepts, 1..199 bytes; transport keys are 16 bytes: c03_key16_good) *)
Theorem c03_write_delivered_on_faithful_network_sanse :
  forall max A B a b w,
    good_key (key_send A) ->
    0 < max -> in_sync A B ->
    count A + len b + 1 < lim ->
    qlen (queue B) + len b + 1 <= qcap B ->
    write sanse_seal max A b = Some w ->
    w_err w = false /\ w_panic w = false /\ w_n w = len b /\
    Forall (fun d : dgram => snd d = remote A) (w_out w) /\
    exists B', feed sanse_open B a (map fst (w_out w)) = Ok (B', repeat ODelivered (length (w_out w))) /\
               List.concat (queue B') = List.concat (queue B) ++ b /\ rbuf B' = rbuf B /\ remote B' = a.
Proof. exact write_delivered_sanse. Qed.
Print Assumptions c03_write_delivered_on_faithful_network_sanse.

Theorem c03_key16_good : forall k, len k = 16 -> good_key k.
Proof. exact key16_good. Qed.
Print Assumptions c03_key16_good.

(* unconditional: with the real AEAD the receive handlers and send never panic *)
Theorem c03_handler_never_panics_sanse : forall ss a pkt, session_input sanse_open ss a pkt <> Panic.
Proof. exact session_input_never_panics_sanse. Qed.
Print Assumptions c03_handler_never_panics_sanse.

Theorem c03_server_never_panics_sanse : forall sv a pkt, server_handle sanse_open sv a pkt <> Panic.
Proof. exact server_never_panics_sanse. Qed.
Print Assumptions c03_server_never_panics_sanse.

Theorem c03_client_never_panics_sanse : forall ss a pkt, client_handle sanse_open ss a pkt <> Panic.
Proof. exact client_never_panics_sanse. Qed.
Print Assumptions c03_client_never_panics_sanse.

Theorem c03_send_never_panics_sanse : forall ss mt m, good_key (key_send ss) -> send sanse_seal ss mt m <> Panic.
Proof. exact send_never_panics_sanse. Qed.
Print Assumptions c03_send_never_panics_sanse.

(* executed on the Kravatte model: the example sessions, a 7-byte write cut at 3, a flipped copy rejected *)
Example c03_sanse_instance_runs :
  in_sync exA exB /\ good_key (key_send exA) /\
  match write sanse_seal 3 exA [10; 11; 12; 13; 14; 15; 16] with
  | Some w =>
    match feed sanse_open exB 9 (map fst (w_out w)) with
    | Ok (B', os) => w_n w = 7 /\ queue B' = [[10; 11; 12]; [13; 14; 15]; [16]] /\
                     os = [ODelivered; ODelivered; ODelivered] /\ map (fun d => len (fst d)) (w_out w) = [51; 51; 49]
    | _ => False
    end
  | None => False
  end.
Proof. split; [exact ex_in_sync|]. split; [apply key16_good; reflexivity|]. vm_compute. repeat split; reflexivity. Qed.

(* ====================================================================================================== *)
(* Composition with the handshake server/client step model (C10, Model/HsServer.v)                          *)
(* server_step / client_step take the session-packet path as a parameter SM with the named premises         *)
(* sm_total / sm_rejects.  Proofs/HsPacketCompose.v instantiates SM with this file's handler run on         *)
(* Kravatte-SANSE (sm_sanse for the server, sm_sanse_client for the client; the packet-level part of the    *)
(* session state — counter, window, queue, reader buffer, address — and the address ids are ARBITRARY,      *)
(* universally quantified functions ext / aid) and discharges both premises.                                *)
(* ====================================================================================================== *)
From Hop Require HsPacketCompose.

(* Server.readPacket never panics on any datagram: no premise about the packet path left *)
Theorem c10_server_step_total_composed :
  forall ext aid O X s I a d,
    HsServerProofs.rand_ok s I ->
    HsServer.so_res (HsServer.server_step O X (HsPacketCompose.sm_sanse ext aid) s I a d) <> Panic.
Proof. exact HsPacketCompose.server_step_total_composed. Qed.
Print Assumptions c10_server_step_total_composed.

(* neither do the client's receive steps *)
Theorem c10_client_step_total_composed :
  forall ext aid O X st a d stale,
    snd (HsServer.client_step O X (HsPacketCompose.sm_sanse_client ext aid) st a d stale) <> Panic.
Proof. exact HsPacketCompose.client_step_total_composed. Qed.
Print Assumptions c10_client_step_total_composed.

(* a datagram that authenticates under no session (for every session, in whatever packet-level state, it
   fails a header check, the replay check or SANSE's tag check, or the session is closed) leaves the server
   state exactly unchanged unless it is one of the three handshake messages C10 lists *)
Theorem c10_junk_leaves_state_composed :
  forall ext aid O X s I a d,
    HsPacketCompose.unauthentic ext d ->
    let o := HsServer.server_step O X (HsPacketCompose.sm_sanse ext aid) s I a d in
    HsServer.so_srv o = s \/
    (Handshake.at_ d 0 = Handshake.MT_ClientAck /\
     exists n k, Handshake.read_client_ack O X (HsServer.sv_ck s) (fst a) (snd a) d = Ok (n, k)) \/
    (Handshake.at_ d 0 = Handshake.MT_ClientAuth /\ exists h, HsServer.find_hs a (HsServer.sv_hs s) = Some h) \/
    (Handshake.at_ d 0 = Handshake.MT_ClientRequestHidden /\
     exists T q, Handshake.read_request_hidden O X (HsServer.i_certs I) (HsServer.sv_pol s) (HsServer.i_now I) [] d = (T, Ok q)).
Proof. exact HsPacketCompose.server_step_junk_leaves_state_composed. Qed.
Print Assumptions c10_junk_leaves_state_composed.

(* the premise is satisfiable: every datagram shorter than 48 bytes is unauthentic, for every ext *)
Example c10_unauthentic_nonvacuous : forall ext d, len d < 48 -> HsPacketCompose.unauthentic ext d.
Proof.
  intros ext d H x. unfold opens. destruct (closed _); [reflexivity|].
  unfold wf_header. replace (48 <=? len d) with false by (symmetry; apply N.leb_gt; exact H). reflexivity.
Qed.

(* ====================================================================================================== *)
(* The receive loops (Model/RecvLoop.v): Server.Serve's goroutine — ReadMsgUDP into the 65535-byte buffer  *)
(* (a longer datagram is truncated by the socket), readPacket's length guard and switch on the message     *)
(* type, handleSessionMessage on the session table, the handshake handlers as an ABSTRACT step HS whose     *)
(* session-table effects (createSessionFromHandshakeLocked, finishHandshake) are modelled — and             *)
(* Client.listen / the client's handshake reads.  Events: a datagram of ANY bytes, length, type and source  *)
(* address arrives, or the application calls into the Handle of some session.  All theorems are for every   *)
(* event sequence (induction over the list), every AEAD, every handshake step function HS / CHS.            *)
(* Premises: the process did not crash (l_crashed ... = false; with an AEAD that is honest about lengths    *)
(* only a handshake handler can crash it: c10_loop_crash_only_in_handshake_handler) and no handshake        *)
(* handler finishes session B again (no_finish; createSession can never pick B: it only picks free ids).    *)
(* ====================================================================================================== *)
From Hop Require Import RecvLoop RecvLoopProofs RecvLoopCorollaries.

(* REFINEMENT: session B's record after the loop has processed the whole sequence is exactly what the
   per-session history model (ep_run — the model all theorems above are about) computes from the events
   addressed to B: evs_for is a function of the event list alone (truncate, classify, peek the session id) *)
Theorem c03_loop_refines_session :
  forall seal open max H HS evs st B sB,
    lookup (l_tab H st) B = Some sB ->
    l_crashed H (srv_run seal open max H HS st evs) = false ->
    no_finish seal open max H HS B st evs ->
    lookup (l_tab H (srv_run seal open max H HS st evs)) B = Some (fst (ep_run seal open max sB (evs_for B evs))).
Proof. exact srv_loop_refines_session. Qed.
Print Assumptions c03_loop_refines_session.

Theorem c03_client_loop_refines_session :
  forall seal open max C CHS evs s s',
    cli_run seal open max C CHS (COpen C s) evs = COpen C s' ->
    s' = fst (ep_run seal open max s (cli_evs_for (sid s) evs)).
Proof. exact cli_loop_refines_session. Qed.
Print Assumptions c03_client_loop_refines_session.

(* CROSS-SESSION ISOLATION, one step: an event not addressed to B — a datagram of any type, length and source
   carrying another session id (or none), a handshake datagram that does not finish B, a call on another
   session's Handle — leaves B's record exactly as it was, whether or not the step crashes the process *)
Theorem c03_loop_other_session_untouched :
  forall seal open max H HS st e B sB,
    lookup (l_tab H st) B = Some sB -> ev_for B e = [] -> step_quiet H HS B st e ->
    lookup (l_tab H (srv_step seal open max H HS st e)) B = Some sB.
Proof. exact srv_step_other_session_untouched. Qed.
Print Assumptions c03_loop_other_session_untouched.

(* ... and over whole runs (non-interference): two runs that differ in everything except the events addressed
   to B — other sessions, their traffic, handshakes, the handshake side's state — leave B's record identical *)
Theorem c03_loop_cross_session_isolation :
  forall seal open max H HS st1 st2 evs1 evs2 B sB,
    lookup (l_tab H st1) B = Some sB -> lookup (l_tab H st2) B = Some sB ->
    l_crashed H (srv_run seal open max H HS st1 evs1) = false ->
    l_crashed H (srv_run seal open max H HS st2 evs2) = false ->
    no_finish seal open max H HS B st1 evs1 -> no_finish seal open max H HS B st2 evs2 ->
    evs_for B evs1 = evs_for B evs2 ->
    lookup (l_tab H (srv_run seal open max H HS st1 evs1)) B = lookup (l_tab H (srv_run seal open max H HS st2 evs2)) B.
Proof. exact srv_loop_noninterference. Qed.
Print Assumptions c03_loop_cross_session_isolation.

(* C03 at the endpoint loop: B's record is the history model's; the counters of the messages put on B's
   receive queue are pairwise distinct (and distinct from those marked before); the reader's byte stream is
   the concatenation of the delivered messages — each of which opened under B's read key (definition of
   delivered) — nothing twice, nothing lost; whatever else arrives at the socket *)
Theorem c03_loop_delivery :
  forall seal open max H HS st evs B sB A,
    lookup (l_tab H st) B = Some sB -> l_crashed H (srv_run seal open max H HS st evs) = false ->
    no_finish seal open max H HS B st evs ->
    Inv (window sB) A -> Forall (fun x => x < lim) A -> NoDup A ->
    auth_below open (key_recv sB) (evs_for B evs) ->
    let h := evs_for B evs in
    lookup (l_tab H (srv_run seal open max H HS st evs)) B = Some (fst (ep_run seal open max sB h)) /\
    NoDup (map fst (delivered seal open max sB h)) /\
    (forall c, In c (map fst (delivered seal open max sB h)) -> ~ In c A) /\
    pending sB ++ List.concat (map snd (delivered seal open max sB h)) =
      read_bytes (snd (ep_run seal open max sB h)) ++ pending (fst (ep_run seal open max sB h)).
Proof. exact srv_loop_delivery. Qed.
Print Assumptions c03_loop_delivery.

Theorem c03_client_loop_delivery :
  forall seal open max C CHS evs s s' A,
    cli_run seal open max C CHS (COpen C s) evs = COpen C s' ->
    Inv (window s) A -> Forall (fun x => x < lim) A -> NoDup A ->
    auth_below open (key_recv s) (cli_evs_for (sid s) evs) ->
    let h := cli_evs_for (sid s) evs in
    s' = fst (ep_run seal open max s h) /\
    NoDup (map fst (delivered seal open max s h)) /\
    (forall c, In c (map fst (delivered seal open max s h)) -> ~ In c A) /\
    pending s ++ List.concat (map snd (delivered seal open max s h)) =
      read_bytes (snd (ep_run seal open max s h)) ++ pending (fst (ep_run seal open max s h)).
Proof. exact cli_loop_delivery. Qed.
Print Assumptions c03_client_loop_delivery.

(* C10 "leaves established sessions working", session part: after ANY event sequence B's record — keys,
   replay window, queue, address, closed flag — equals the record produced by the authentic fresh
   subsequence alone (auth_only drops every datagram that failed a check), and every datagram of that
   subsequence opens under B's read key with a fresh counter at the moment it arrives *)
Theorem c10_loop_state_is_authentic_subsequence :
  forall seal open max H HS st evs B sB,
    lookup (l_tab H st) B = Some sB -> l_crashed H (srv_run seal open max H HS st evs) = false ->
    no_finish seal open max H HS B st evs ->
    let h := auth_only seal open max sB (evs_for B evs) in
    lookup (l_tab H (srv_run seal open max H HS st evs)) B = Some (fst (ep_run seal open max sB h)) /\
    all_authentic seal open max sB h.
Proof. exact srv_loop_authentic_subsequence. Qed.
Print Assumptions c10_loop_state_is_authentic_subsequence.

Theorem c10_client_loop_state_is_authentic_subsequence :
  forall seal open max C CHS evs s s',
    cli_run seal open max C CHS (COpen C s) evs = COpen C s' ->
    let h := auth_only seal open max s (cli_evs_for (sid s) evs) in
    s' = fst (ep_run seal open max s h) /\ all_authentic seal open max s h.
Proof. exact cli_loop_authentic_subsequence. Qed.
Print Assumptions c10_client_loop_state_is_authentic_subsequence.

(* the same for one session's history, whatever produced it *)
Theorem c10_state_is_authentic_subsequence :
  forall seal open max evs ss,
    fst (ep_run seal open max ss (auth_only seal open max ss evs)) = fst (ep_run seal open max ss evs) /\
    all_authentic seal open max ss (auth_only seal open max ss evs).
Proof. intros. split; [apply auth_only_same_state|apply auth_only_all_authentic]. Qed.
Print Assumptions c10_state_is_authentic_subsequence.

(* C10 "never crashes", session part, at the loop: with an AEAD honest about lengths no transport / control /
   unknown-type / short / oversized datagram and no Handle call brings the receive goroutine down — only a
   handshake handler could (their totality is C10's c10_server_step_total); Kravatte-SANSE is honest *)
Theorem c10_loop_crash_only_in_handshake_handler :
  forall seal open max H HS st e,
    open_len_ok open -> l_crashed H st = false -> l_crashed H (srv_step seal open max H HS st e) = true ->
    exists a raw, e = LDgram a raw /\ classify (sock_read raw) = DHandshake.
Proof. exact srv_crash_only_in_handshake_handler. Qed.
Print Assumptions c10_loop_crash_only_in_handshake_handler.

Theorem c10_loop_crash_only_in_handshake_handler_sanse :
  forall seal max H HS st e,
    l_crashed H st = false -> l_crashed H (srv_step seal sanse_open max H HS st e) = true ->
    exists a raw, e = LDgram a raw /\ classify (sock_read raw) = DHandshake.
Proof. exact srv_crash_only_in_handshake_handler_sanse. Qed.
Print Assumptions c10_loop_crash_only_in_handshake_handler_sanse.

Theorem c10_client_listen_never_crashes_sanse :
  forall seal max C CHS evs s s', cli_run seal sanse_open max C CHS (COpen C s) evs <> CCrash C s'.
Proof. exact cli_never_crashes_sanse. Qed.
Print Assumptions c10_client_listen_never_crashes_sanse.

(* before its handshake has completed the client has no session a datagram could reach: whatever arrives, a
   transport packet included, is consumed as the next handshake message (source address ignored) *)
Theorem c03_client_handshaking_consumes_any_datagram :
  forall seal open max C CHS c a raw,
    cli_step seal open max C CHS (CHs C c) (LDgram a raw) =
    match CHS c (sock_read raw) with inl c' => CHs C c' | inr (Some s) => COpen C s | inr None => CFail C end.
Proof. exact cli_handshaking_consumes_any_datagram. Qed.
Print Assumptions c03_client_handshaking_consumes_any_datagram.

(* the hypotheses are satisfiable and the conclusions non-trivial: a server with sessions B and C; B's genuine
   datagram, C's genuine datagram, a replay, a forgery, B's genuine close under a handshake type / an unknown
   type / followed by 65600 bytes (truncated to 65535: rejected), a 3-byte datagram, a read on C, B's close *)
Example c03_loop_nonvacuous :
  l_crashed unit (srv_run toy_seal toy_open 100 unit ex_HS ex_lst ex_levs) = false /\
  no_finish toy_seal toy_open 100 unit ex_HS [1; 2; 3; 4] ex_lst ex_levs /\
  map (fun e => match e with EvIn a p => (a, len p) | _ => (0, 0) end) (evs_for [1; 2; 3; 4] ex_levs) =
    [(3, 50); (4, 50); (4, 50); (5, 49); (6, 65535); (8, 49)] /\
  option_map (fun s => (closed s, remote s, queue s, wt (window s)))
             (lookup (l_tab unit (srv_run toy_seal toy_open 100 unit ex_HS ex_lst ex_levs)) [1; 2; 3; 4]) =
    Some (true, 8, [[9; 9]], 6) /\
  option_map (fun s => (closed s, remote s, queue s))
             (lookup (l_tab unit (srv_run toy_seal toy_open 100 unit ex_HS ex_lst ex_levs)) [9; 9; 9; 9]) =
    Some (false, 7, []) /\
  map (fun e => match e with EvIn a _ => a | _ => 0 end) (auth_only toy_seal toy_open 100 exB (evs_for [1; 2; 3; 4] ex_levs)) = [3; 8].
Proof. exact ex_loop_runs. Qed.

(* ---- MaxPlaintextSize / MaxTotalPacketSize: the inconsistency is real but harmless ---- *)

(* MaxPlaintextSize subtracts MacLen (16) where the tag is TagLen (32): a full-size datagram is 64551 bytes,
   16 over MaxTotalPacketSize ... *)
Theorem c03_full_size_datagram_exceeds_max_total_packet_size :
  max_plaintext_size = max_total_packet_size - header_len - session_id_len - counter_len - mac_len /\
  max_datagram_len = 64551 /\ max_datagram_len = max_total_packet_size + (tag_len - mac_len).
Proof. repeat split. Qed.
Print Assumptions c03_full_size_datagram_exceeds_max_total_packet_size.

(* ... but it fits the receive buffers of Serve, listen and the client's handshake (65535) and the largest UDP
   payload of either address family, so the socket's truncation is the identity on it *)
Theorem c03_full_size_datagram_fits_every_receive_buffer :
  max_datagram_len <= recv_buf_len /\ max_datagram_len <= udp4_max_payload /\ max_datagram_len <= udp6_max_payload /\
  forall d, len d <= max_datagram_len -> sock_read d = d.
Proof.
  destruct max_datagram_fits as (F1&F2&F3). repeat split; try assumption.
  intros d Hd. apply sock_read_fits. eapply N.le_trans; eassumption.
Qed.
Print Assumptions c03_full_size_datagram_fits_every_receive_buffer.

(* for every accepted write — WriteMsg of at most MaxPlaintextSize bytes, Write of ANY size — every datagram
   handed to the socket is at most 64551 bytes long, reaches the peer's loop untruncated and is a legal UDP
   payload; no AEAD hypothesis (seal_packet panics unless Seal adds exactly 32 bytes) *)
Theorem c03_accepted_write_fits_every_receive_buffer :
  forall seal ss b w,
    len (sid ss) = 4 -> write seal max_plaintext_size ss b = Some w ->
    Forall (fun d : dgram => len (fst d) <= max_datagram_len /\ sock_read (fst d) = fst d /\
                             len (fst d) <= udp4_max_payload) (w_out w).
Proof. exact write_fits_receive_buffers. Qed.
Print Assumptions c03_accepted_write_fits_every_receive_buffer.

Theorem c03_accepted_writemsg_fits_every_receive_buffer :
  forall seal ss m ss' d,
    len (sid ss) = 4 -> write_msg seal max_plaintext_size ss m = Ok (ss', d) ->
    len (fst d) <= max_datagram_len /\ sock_read (fst d) = fst d /\ len (fst d) <= udp4_max_payload.
Proof. exact write_msg_fits_receive_buffers. Qed.
Print Assumptions c03_accepted_writemsg_fits_every_receive_buffer.

(* the bound for every chunk size: 16 + max + 32 *)
Theorem c03_write_datagram_length_bound :
  forall seal max ss b w,
    len (sid ss) = 4 -> write seal max ss b = Some w ->
    Forall (fun d : dgram => len (fst d) <= ad_len + max + tag_len) (w_out w).
Proof. exact write_out_len. Qed.
Print Assumptions c03_write_datagram_length_bound.

(* non-vacuous: a maximal WriteMsg on the toy AEAD yields a 64551-byte datagram *)
Example c03_full_size_write_nonvacuous :
  match write_msg toy_seal max_plaintext_size exA (repeat 0 (N.to_nat max_plaintext_size)) with
  | Ok (_, d) => len (fst d) = 64551 /\ len (sock_read (fst d)) = 64551
  | _ => False
  end.
Proof. vm_compute. split; reflexivity. Qed.

(* ====================================================================================================== *)
(* Concurrent writers (Model/SendConc.v): Handle.send's two locks as an interleaving model.  Any number of   *)
(* goroutines each perform one send — writeLock.Lock; the ss.m section (closed check, sealPacketLocked,       *)
(* address snapshot) as one atomic step; WriteMsgUDP; Unlock — scheduled in ANY order (a goroutine that finds *)
(* writeLock taken does not move), interleaved with closes and address changes by the receive side.           *)
(* ====================================================================================================== *)
From Hop Require Import SendConc SendConcProofs.

(* for EVERY schedule: the datagrams on the wire, in wire order, carry the consecutive counters count, count+1, ...
   (uint64), each is header(type,0,0,0,sid, THAT counter) ++ Seal(key, ad = that header, message) of one of the
   calls — sealed under the counter it carries —, and the session counter has advanced by exactly the number
   of packets sealed (one more than on the wire while a goroutine is between Seal and WriteMsgUDP) *)
Theorem c03_concurrent_sends_consecutive_counters :
  forall seal ss calls sched,
    let st := crun seal (cinit ss calls) sched in
    wire_seq seal ss calls (count ss) (map fst (c_wire st)) /\
    count (c_ss st) = iterc (count ss) (length (c_wire st) + (if existsb sealed (c_thr st) then 1 else 0)).
Proof. exact concurrent_sends_consecutive_counters. Qed.
Print Assumptions c03_concurrent_sends_consecutive_counters.

(* below the uint64 wrap the k-th datagram's counter is count + k: pairwise distinct *)
Theorem c03_concurrent_counters_distinct_below_wrap :
  forall c k, c + N.of_nat k < 2 ^ 64 -> iterc c k = c + N.of_nat k.
Proof. exact iterc_plain. Qed.
Print Assumptions c03_concurrent_counters_distinct_below_wrap.

(* two writers, the second one trying to get in at every point, a roam in between: counters 5 and 6, in wire
   order; the datagram sealed before the roam still goes to the old address (the snapshot is taken under ss.m) *)
Example c03_concurrent_writers_example :
  let st := crun toy_seal (cinit exA [(mt_transport, [1]); (mt_transport, [2])])
                 [CT 1; CT 0; CT 1; CT 0; CRoam 9; CT 1; CT 0; CT 0; CT 0; CT 0] in
  map (fun d => (pkt_counter (fst d), snd d)) (c_wire st) = [(5, 1); (6, 9)] /\
  map fst (c_wire st) = [wire_image toy_seal exA mt_transport 5 [2]; wire_image toy_seal exA mt_transport 6 [1]] /\
  count (c_ss st) = 7 /\ c_wlock st = None.
Proof. vm_compute. repeat split; reflexivity. Qed.

(* ====================================================================================================== *)
(* End-to-end completeness THROUGH the peer's receive loop (Proofs/RecvLoopFaithful.v): on a faithful network   *)
(* every byte accepted by a write call of any size is delivered -- with the socket's truncation to the receive  *)
(* buffer and readPacket's dispatch between the wire and the session — restated for MaxPlaintextSize, the bound *)
(* the code uses (a full-size datagram is 64551 bytes and fits: c03_accepted_write_fits_every_receive_buffer).  *)
(* ====================================================================================================== *)
From Hop Require Import RecvLoopFaithful.

Theorem c03_loop_write_delivered_on_faithful_network_under_open_seal :
  forall seal open max H HS,
    (forall k ad p, open k ad (seal k ad p) = Some p) ->
    (forall k ad p, len (seal k ad p) = tag_len + len p) ->
    open_len_ok open ->
    forall st A B a b w,
      l_crashed H st = false -> lookup (l_tab H st) (sid A) = Some B -> in_sync A B ->
      count A + len b + 1 < lim -> qlen (queue B) + len b + 1 <= qcap B ->
      write seal max_plaintext_size A b = Some w ->
      let evs := map (fun d : dgram => LDgram a (fst d)) (w_out w) in
      w_err w = false /\ w_panic w = false /\ w_n w = len b /\
      l_crashed H (srv_run seal open max H HS st evs) = false /\
      exists B', lookup (l_tab H (srv_run seal open max H HS st evs)) (sid A) = Some B' /\
                 List.concat (queue B') = List.concat (queue B) ++ b /\ rbuf B' = rbuf B /\ remote B' = a.
Proof. exact srv_loop_write_delivered. Qed.
Print Assumptions c03_loop_write_delivered_on_faithful_network_under_open_seal.

(* unconditional on Kravatte-SANSE *)
Theorem c03_loop_write_delivered_on_faithful_network_sanse :
  forall max H HS st A B a b w,
    good_key (key_send A) ->
    l_crashed H st = false -> lookup (l_tab H st) (sid A) = Some B -> in_sync A B ->
    count A + len b + 1 < lim -> qlen (queue B) + len b + 1 <= qcap B ->
    write sanse_seal max_plaintext_size A b = Some w ->
    let evs := map (fun d : dgram => LDgram a (fst d)) (w_out w) in
    w_err w = false /\ w_n w = len b /\
    l_crashed H (srv_run sanse_seal sanse_open max H HS st evs) = false /\
    exists B', lookup (l_tab H (srv_run sanse_seal sanse_open max H HS st evs)) (sid A) = Some B' /\
               List.concat (queue B') = List.concat (queue B) ++ b /\ remote B' = a.
Proof. exact srv_loop_write_delivered_sanse. Qed.
Print Assumptions c03_loop_write_delivered_on_faithful_network_sanse.

(* the hypotheses are satisfiable: the toy AEAD is correct, adds 32 bytes and is honest about lengths; exA / exB are
   in sync; B sits in a table next to C *)
Example c03_loop_write_delivered_nonvacuous :
  (forall k ad p, toy_open k ad (toy_seal k ad p) = Some p) /\
  (forall k ad p, len (toy_seal k ad p) = tag_len + len p) /\ open_len_ok toy_open /\
  in_sync exA exB /\ lookup (l_tab unit ex_lst) (sid exA) = Some exB /\
  match write toy_seal max_plaintext_size exA [10; 11; 12] with
  | Some w =>
    option_map queue (lookup (l_tab unit (srv_run toy_seal toy_open 100 unit ex_HS ex_lst
                                            (map (fun d : dgram => LDgram 9 (fst d)) (w_out w)))) [1; 2; 3; 4]) = Some [[10; 11; 12]]
  | None => False
  end.
Proof.
  split; [exact toy_open_seal|]. split; [exact toy_seal_len|]. split; [exact toy_open_len_ok|].
  split; [exact ex_in_sync|]. split; vm_compute; reflexivity.
Qed.
