(* WireText.v — the text forms of public keys (keys/dh.go, keys/kem.go, keys/signatures.go):
     "hop-dh-v1-"   ++ base64(32-byte X25519 key)        DHPublicKey.String / ParseDHPublicKey
     "hop-kem-v1-"  ++ base64(800-byte ML-KEM-512 key)   KEMPublicKeyToString / ParseKEMPublicKey
     "hop-sign-v1-" ++ base64(32-byte Ed25519 key)       SigningPublicKey.String / ParseSigningPublicKey
   with Go's encoding/base64.StdEncoding transcribed from go1.24 src/encoding/base64/base64.go
   (Encode, Decode/decodeQuantum, DecodeString): alphabet A-Z a-z 0-9 + /, padding '=' required,
   NOT strict (non-zero trailing bits of the last quantum are dropped), '\r' and '\n' ignored anywhere
   (also between and after the padding characters), anything after the padding is an error.
   Strings are lists of byte values.  Definitions only; lemmas in Proofs/WireTextProofs.v. *)
From Hop Require Import Base.
Open Scope N_scope.

(* ---- alphabet: enc.encode[v] and enc.decodeMap[c] (0xff = None) ---------------------------- *)
Definition b64_char (v : N) : N :=
  if v <? 26 then v + 65          (* 'A'.. *)
  else if v <? 52 then v + 71     (* 'a'.. *)
  else if v <? 62 then v - 4      (* '0'.. *)
  else if v =? 62 then 43         (* '+' *)
  else 47.                        (* '/' *)

Definition b64_val (c : N) : option N :=
  if (65 <=? c) && (c <=? 90) then Some (c - 65)
  else if (97 <=? c) && (c <=? 122) then Some (c - 71)
  else if (48 <=? c) && (c <=? 57) then Some (c + 4)
  else if c =? 43 then Some 62
  else if c =? 47 then Some 63
  else None.

Definition b64_pad_char : N := 61.   (* '=' *)

(* ---- Encode: 3 bytes -> 4 characters; a tail of 1 or 2 bytes is padded with '=' ------------ *)
Fixpoint b64_encode (l : bytes) : bytes :=
  match l with
  | [] => []
  | [a] =>
      let v := a * 65536 in
      [b64_char (v / 262144 mod 64); b64_char (v / 4096 mod 64); b64_pad_char; b64_pad_char]
  | [a; b] =>
      let v := a * 65536 + b * 256 in
      [b64_char (v / 262144 mod 64); b64_char (v / 4096 mod 64); b64_char (v / 64 mod 64); b64_pad_char]
  | a :: b :: c :: r =>
      let v := a * 65536 + b * 256 + c in
      b64_char (v / 262144 mod 64) :: b64_char (v / 4096 mod 64) :: b64_char (v / 64 mod 64)
        :: b64_char (v mod 64) :: b64_encode r
  end.

(* ---- Decode ----------------------------------------------------------------------------------
   Go's Decode is a loop of decodeQuantum calls (the assemble64/assemble32 fast paths compute the
   same three bytes for four alphabet characters and fall back to decodeQuantum otherwise).
   State of the transcription: the digits of the current quantum collected so far (dbuf[0..j)),
   and [cap] = len(dst) - n, the room left in the buffer DecodeString allocated
   (DecodedLen(len s) = len s / 4 * 3): a write beyond it is an index-out-of-range Panic. *)
Definition is_nl (c : N) : bool := (c =? 10) || (c =? 13).

Fixpoint skip_nl (s : bytes) : bytes :=
  match s with
  | c :: r => if is_nl c then skip_nl r else s
  | [] => []
  end.

(* val := dbuf[0]<<18 | dbuf[1]<<12 | dbuf[2]<<6 | dbuf[3]  (missing digits are 0) *)
Definition dval (d : list N) : N :=
  nth 0%nat d 0 * 262144 + nth 1%nat d 0 * 4096 + nth 2%nat d 0 * 64 + nth 3%nat d 0.
(* byte(val>>16), byte(val>>8), byte(val) *)
Definition out3 (v : N) : bytes := [v / 65536 mod 256; v / 256 mod 256; v mod 256].

(* the padding character was just read with j = |dig| digits in the quantum *)
Definition b64_pad (dig : list N) (rest : bytes) (cap : N) : res bytes :=
  let j := len dig in
  if j <? 2 then Err                                    (* case 0, 1: incorrect padding *)
  else
    let after :=
      if j =? 2 then                                    (* "==" expected *)
        match skip_nl rest with
        | [] => None                                    (* not enough padding *)
        | c :: r => if c =? b64_pad_char then Some r else None
        end
      else Some rest in
    match after with
    | None => Err
    | Some r =>
        (* dlen = j; the bytes are stored before the trailing-garbage error is returned *)
        if cap <? j - 1 then Panic
        else match skip_nl r with
             | [] => Ok (take (j - 1) (out3 (dval dig)))
             | _ :: _ => Err                            (* trailing garbage *)
             end
    end.

Fixpoint b64_go (src : bytes) (dig : list N) (cap : N) : res bytes :=
  match src with
  | [] => match dig with [] => Ok [] | _ :: _ => Err end   (* j = 0: done; j >= 1: input ends inside a quantum *)
  | c :: rest =>
      match b64_val c with
      | Some v =>
          match dig with
          | [d0; d1; d2] =>
              if cap <? 3 then Panic
              else b <- b64_go rest [] (cap - 3) ;; Ok (out3 (dval [d0; d1; d2; v]) ++ b)
          | _ => b64_go rest (dig ++ [v]) cap
          end
      | None =>
          if is_nl c then b64_go rest dig cap
          else if c =? b64_pad_char then b64_pad dig rest cap
          else Err
      end
  end.

(* DecodeString: dbuf := make([]byte, len(s)/4*3); Decode(dbuf, s) *)
Definition b64_decode (s : bytes) : res bytes := b64_go s [] (len s / 4 * 3).

(* ---- key text forms ------------------------------------------------------------------------ *)
Definition has_prefix (p s : bytes) : bool := (len p <=? len s) && beq_bytes (take (len p) s) p.

(* fmt.Sprintf("%s%s", Prefix, base64.StdEncoding.EncodeToString(k)) *)
Definition format_key (pre k : bytes) : bytes := pre ++ b64_encode k.

(* strings.HasPrefix; DecodeString(encoded[len(Prefix):]); len(b) != n; [chk] = what the key type's
   own unmarshalling refuses (nothing for the 32-byte array keys) *)
Definition parse_key (pre : bytes) (n : N) (chk : bytes -> bool) (s : bytes) : res bytes :=
  if has_prefix pre s then
    b <- b64_decode (drop (len pre) s) ;;
    if len b =? n then (if chk b then Ok b else Err) else Err
  else Err.

Definition dh_prefix : bytes := [104;111;112;45;100;104;45;118;49;45].            (* "hop-dh-v1-" *)
Definition kem_prefix : bytes := [104;111;112;45;107;101;109;45;118;49;45].       (* "hop-kem-v1-" *)
Definition sign_prefix : bytes := [104;111;112;45;115;105;103;110;45;118;49;45].  (* "hop-sign-v1-" *)

Definition no_check (_ : bytes) : bool := true.

(* ML-KEM-512 UnmarshalBinaryPublicKey (circl v1.6.1, cpapke.UnpackMLKEM): FIPS 203 "encapsulation key
   check": the first 768 bytes are 512 little-endian 12-bit coefficients, three bytes for two; the key
   is refused unless re-packing the coefficients reduced mod q = 3329 gives the same bytes, i.e. unless
   every coefficient is < 3329.  The last 32 bytes (rho) are free. *)
Fixpoint ek_coeffs_ok (b : bytes) : bool :=
  match b with
  | b0 :: b1 :: b2 :: r =>
      (b0 + (b1 mod 16) * 256 <? 3329) && (b1 / 16 + b2 * 16 <? 3329) && ek_coeffs_ok r
  | _ => true
  end.
Definition kem_ek_ok (b : bytes) : bool := ek_coeffs_ok (take 768 b).

Definition format_dh := format_key dh_prefix.
Definition parse_dh := parse_key dh_prefix 32 no_check.
Definition format_sign := format_key sign_prefix.
Definition parse_sign := parse_key sign_prefix 32 no_check.
(* a KEM public key value is identified with its 800-byte MarshalBinary form: for every key the
   unmarshaller accepts, MarshalBinary returns the bytes it was read from (that is the check above) *)
Definition format_kem := format_key kem_prefix.
Definition parse_kem := parse_key kem_prefix 800 kem_ek_ok.
