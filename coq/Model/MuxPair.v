(* MuxPair.v — the two ends of one session.  Tube identifiers index ONE space shared by both ends (a frame carries
   only (REL, id)), so "concurrently created tubes get distinct identifiers" is a statement about the two muxers
   of a session together: tubes/muxer.go newMuxer gives idParity 0 to tubes.Server and 1 to tubes.Client, and
   the APPLICATION decides which constructor each end runs:
     hopclient/hopclient.go connectLocked     c.TubeMuxer = tubes.Client(c.TransportConn, &config)   (repaired;
                                              the original called tubes.Server here)
     hopclient/principal.go                   client.TubeMuxer = tubes.Client(...)
     hopserver/hopserver.go newSession        tubeMuxer: tubes.Server(serverConn, &muxerConfig)
   Definitions only. *)
From Hop Require Import Base Recv Mux.
Open Scope N_scope.

(* the muxer each end of a hop session starts with: argument of mux_new = isServer *)
Definition hopclient_is_server : bool := false.          (* hopclient.connectLocked: tubes.Client *)
Definition hopserver_is_server : bool := true.           (* hopserver.newSession:    tubes.Server *)
Definition hopclient_mux : mux := mux_new hopclient_is_server.
Definition hopserver_mux : mux := mux_new hopserver_is_server.
(* the original hopclient.connectLocked *)
Definition hopclient_original_mux : mux := mux_new true.

(* the (reliability, id) pairs that Create*Tube returned in a history (any operations in between: incoming
   frames of any content, Accept, close, reap, read) *)
Fixpoint created_ids (m : mux) (ops : list mop) : list (bool * N) :=
  match ops with
  | [] => []
  | o :: rest =>
      let m1 := fst (mstep m o) in
      match o with
      | MCreate rel ty =>
          match create_tube m rel ty with
          | Ok (_, id) => (rel, id) :: created_ids m1 rest
          | _ => created_ids m1 rest
          end
      | _ => created_ids m1 rest
      end
  end.

(* the frames a locally created tube sends first: Reliable/Unreliable.initiate(req = true) sends
   REQ (+REL for reliable tubes) +ACK with the tube type in the byte that fromBytes reads as the top byte of
   ackNo; data frames of a reliable tube start at number 1 *)
Definition req_frame (rel : bool) (id ty : N) : mframe :=
  {| mf_id := id; mf_req := true; mf_resp := false; mf_rel := rel; mf_ack := true; mf_fin := false; mf_rtr := false;
     mf_ackno := ty * 16777216; mf_no := 0; mf_data := [] |}.
Definition data_frame (id no : N) (d : bytes) : mframe :=
  {| mf_id := id; mf_req := false; mf_resp := false; mf_rel := true; mf_ack := false; mf_fin := false; mf_rtr := false;
     mf_ackno := 0; mf_no := no; mf_data := d |}.

(* both ends create one reliable tube before any frame is delivered; then end A's REQ and first data frame
   reach end B.  Observed: the two ids, whether B offers anything to Accept, what the reader of B's OWN tube gets *)
Definition same_time_create (sa sb : bool) (ty_a ty_b : N) (d : bytes) : option (N * N * bool * bytes) :=
  match create_tube (mux_new sa) true ty_a, create_tube (mux_new sb) true ty_b with
  | Ok (_, ida), Ok (b1, idb) =>
      let b2 := demux b1 (req_frame true ida ty_a) in
      let b3 := demux b2 (data_frame ida 1 d) in
      Some (ida, idb, negb (len (map (fun _ => 0) (m_queue b3)) =? 0), snd (read_tube b3 true idb))
  | _, _ => None
  end.
