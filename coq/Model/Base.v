(* Base.v — shared definitions for all models: bytes, hex literals, outcomes, mismatch finder.
   Definitions only (plus tiny computational lemmas are kept in Proofs/BaseProofs.v). *)
From Coq Require Export List NArith ZArith Bool String Ascii Lia.
Export ListNotations.
Open Scope N_scope.
(* String (needed for hex literals) shadows the list functions of the same name *)
Notation length := Datatypes.length.

Definition byte := N.
Definition bytes := list N.

(* ---- hex literals: the harness writes byte strings as  (hex "0a1b...") ---- *)
Definition hexval (c : ascii) : N :=
  let n := N_of_ascii c in
  if (48 <=? n) && (n <=? 57) then n - 48
  else if (97 <=? n) && (n <=? 102) then n - 87
  else if (65 <=? n) && (n <=? 70) then n - 55
  else 0.

Fixpoint hex (s : string) : bytes :=
  match s with
  | String a (String b r) => (16 * hexval a + hexval b) :: hex r
  | _ => []
  end.

(* ---- outcomes: a Go function returns a value, an error, or panics ---- *)
Inductive res (A : Type) : Type :=
| Ok (a : A)
| Err            (* any non-nil error: only is_err is ever compared *)
| Panic.         (* a Go run-time panic (index/slice out of range, makeslice, explicit panic) *)
Arguments Ok {A} a.
Arguments Err {A}.
Arguments Panic {A}.

Definition bind {A B} (r : res A) (f : A -> res B) : res B :=
  match r with Ok a => f a | Err => Err | Panic => Panic end.
Notation "x <- r ;; k" := (bind r (fun x => k)) (at level 61, r at next level, right associativity).

Definition is_ok {A} (r : res A) : bool := match r with Ok _ => true | _ => false end.
Definition is_panic {A} (r : res A) : bool := match r with Panic => true | _ => false end.

(* observation codes used by the correspondence files: 0 = ok, 1 = err, 2 = panic *)
Definition res_code {A} (r : res A) : N := match r with Ok _ => 0 | Err => 1 | Panic => 2 end.

(* ---- byte helpers ---- *)
Definition wf_byte (b : N) : bool := b <? 256.
Definition wf_bytes (l : bytes) : bool := forallb wf_byte l.

Definition len (l : bytes) : N := N.of_nat (List.length l).

(* big-endian encoding of n on k bytes (truncating, as Go's binary.BigEndian.PutUintXX on a
   value already of that width) *)
Fixpoint be_enc (k : nat) (n : N) : bytes :=
  match k with
  | O => []
  | S k' => ((n / 256 ^ N.of_nat k') mod 256) :: be_enc k' n
  end.
Definition be_dec (l : bytes) : N := fold_left (fun acc b => acc * 256 + b) l 0.

Fixpoint le_enc (k : nat) (n : N) : bytes :=
  match k with
  | O => []
  | S k' => (n mod 256) :: le_enc k' (n / 256)
  end.
Fixpoint le_dec (l : bytes) : N :=
  match l with [] => 0 | b :: r => b + 256 * le_dec r end.

Definition take (n : N) (l : bytes) : bytes := firstn (N.to_nat n) l.
Definition drop (n : N) (l : bytes) : bytes := skipn (N.to_nat n) l.

Fixpoint beq_bytes (a b : bytes) : bool :=
  match a, b with
  | [], [] => true
  | x :: a', y :: b' => (x =? y) && beq_bytes a' b'
  | _, _ => false
  end.

Fixpoint beq_list {A} (eq : A -> A -> bool) (a b : list A) : bool :=
  match a, b with
  | [], [] => true
  | x :: a', y :: b' => eq x y && beq_list eq a' b'
  | _, _ => false
  end.

(* ---- correspondence: indices of the cases on which the predicate is false ---- *)
Fixpoint mismatches_from {A} (i : N) (f : A -> bool) (l : list A) : list N :=
  match l with
  | [] => []
  | x :: r => if f x then mismatches_from (i + 1) f r else i :: mismatches_from (i + 1) f r
  end.
Definition mismatches {A} (f : A -> bool) (l : list A) : list N := mismatches_from 0 f l.
