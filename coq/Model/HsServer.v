(* HsServer.v — transport/server.go readPacket (handshake paths), setHandshakeState,
   finishHandshake, createSessionFromHandshakeLocked, and the client's receive steps of
   transport/client.go, over the message readers of Handshake.v.

   The handling of established-session packets (handleSessionMessage / readPacketLocked) belongs
   to the packet model (C03/C15); here it is a function parameter [SM] of the step functions,
   so every theorem states exactly what it needs from it.

   Definitions only. *)
From Hop Require Import Base Handshake.
Open Scope N_scope.

Definition len_list {A} (l : list A) : N := N.of_nat (List.length l).

Definition addr := (bytes * N)%type.          (* ip bytes, port *)
Definition addr_eqb (a b : addr) : bool := beq_bytes (fst a) (fst b) && (snd a =? snd b).

(* a stored HandshakeState (server side) *)
Record hstate := { h_tr : tr; h_sid : bytes; h_ekey : N; h_hidden : bool }.

(* a SessionState as far as the handshake is concerned *)
Record sess := { s_sid : bytes;
                 s_est : bool;         (* handle created and handleState = established *)
                 s_closed : bool;
                 s_hidden : bool;
                 s_c2s : bytes; s_s2c : bytes;   (* [] until finishHandshake *)
                 s_peer : option bytes           (* certified public key of the authenticated client *) }.

Record srv := { sv_hidden : bool;              (* config.IsHidden *)
                sv_ck : N;                     (* id of the current cookie key *)
                sv_pol : N;                    (* id of config.ClientVerify *)
                sv_maxpending : N;
                sv_serving : bool;
                sv_hs : list (addr * hstate);  (* Server.handshakes *)
                sv_ss : list sess;             (* Server.sessions *)
                sv_pending : list bytes }.     (* session ids of the handles queued for Accept *)

Definition set_hs (s : srv) (h : list (addr * hstate)) : srv :=
  {| sv_hidden := sv_hidden s; sv_ck := sv_ck s; sv_pol := sv_pol s; sv_maxpending := sv_maxpending s;
     sv_serving := sv_serving s; sv_hs := h; sv_ss := sv_ss s; sv_pending := sv_pending s |}.
Definition set_ss (s : srv) (x : list sess) : srv :=
  {| sv_hidden := sv_hidden s; sv_ck := sv_ck s; sv_pol := sv_pol s; sv_maxpending := sv_maxpending s;
     sv_serving := sv_serving s; sv_hs := sv_hs s; sv_ss := x; sv_pending := sv_pending s |}.
Definition set_pending (s : srv) (p : list bytes) : srv :=
  {| sv_hidden := sv_hidden s; sv_ck := sv_ck s; sv_pol := sv_pol s; sv_maxpending := sv_maxpending s;
     sv_serving := sv_serving s; sv_hs := sv_hs s; sv_ss := sv_ss s; sv_pending := p |}.

(* what the tables of the property C19 are *)
Definition tables (s : srv) := (sv_hs s, sv_ss s, sv_pending s).

Fixpoint find_hs (a : addr) (l : list (addr * hstate)) : option hstate :=
  match l with [] => None | (a', h) :: r => if addr_eqb a a' then Some h else find_hs a r end.
Fixpoint del_hs (a : addr) (l : list (addr * hstate)) : list (addr * hstate) :=
  match l with [] => [] | (a', h) :: r => if addr_eqb a a' then del_hs a r else (a', h) :: del_hs a r end.
Fixpoint upd_hs (a : addr) (h : hstate) (l : list (addr * hstate)) : list (addr * hstate) :=
  match l with [] => [] | (a', h') :: r => if addr_eqb a a' then (a', h) :: r else (a', h') :: upd_hs a h r end.
Fixpoint find_ss (sid : bytes) (l : list sess) : option sess :=
  match l with [] => None | x :: r => if beq_bytes sid (s_sid x) then Some x else find_ss sid r end.
Fixpoint upd_ss (x : sess) (l : list sess) : list sess :=
  match l with [] => [] | y :: r => if beq_bytes (s_sid x) (s_sid y) then x :: r else y :: upd_ss x r end.

(* createSessionFromHandshakeLocked: up to 100 random candidates, the first one not in the
   table; panics when all collide *)
Fixpoint pick_sid (cands : list bytes) (l : list sess) : option bytes :=
  match cands with
  | [] => None
  | c :: r => match find_ss c l with None => Some c | Some _ => pick_sid r l end
  end.

(* inputs of one step that are not a function of state and datagram: randomness, clock,
   configuration callbacks *)
Record step_in := {
  i_now : N;
  i_kem_ct : bytes; i_kem_k : bytes;       (* keys.Encapsulate to the peer's ephemeral KEM key *)
  i_cookie : bytes;                        (* writeCookie(k) under the current key for this peer *)
  i_ekey : N; i_epub : bytes;              (* fresh ephemeral X25519 key pair of the server *)
  i_sids : list bytes;                     (* successive rand.Read results for the session id (at most 100 used) *)
  i_cert : bytes -> option (N * bytes * bytes);  (* GetCertificate(ServerName): static key id, raw leaf, raw intermediate *)
  i_certs : option (list hcert);           (* GetCertList() *)
  i_cert_h : N -> option (N * bytes * bytes)     (* GetCertificate for the first host name of certificate idx *)
}.

Record step_out := { so_srv : srv; so_out : list (addr * bytes); so_res : res unit }.
Definition out_ (s : srv) (o : list (addr * bytes)) (r : res unit) : step_out :=
  {| so_srv := s; so_out := o; so_res := r |}.

Definition zero_sid : bytes := [0; 0; 0; 0].

(* setHandshakeState: false (nothing changes) when the address already has a handshake.
   Returns the new server state, the session id the HandshakeState ends up with, whether it
   was stored, or None for the createSession panic. *)
Definition set_handshake_state (s : srv) (I : step_in) (a : addr) (T : tr) (ekey : N) (hidden : bool)
  : option (srv * bytes * bool) :=
  match find_hs a (sv_hs s) with
  | Some _ => Some (s, zero_sid, false)
  | None =>
    match pick_sid (firstn 100 (i_sids I)) (sv_ss s) with
    | None => None
    | Some sid =>
      let h := {| h_tr := T; h_sid := sid; h_ekey := ekey; h_hidden := hidden |} in
      let x := {| s_sid := sid; s_est := false; s_closed := false; s_hidden := false;
                  s_c2s := []; s_s2c := []; s_peer := None |} in
      Some (set_ss (set_hs s ((a, h) :: sv_hs s)) (x :: sv_ss s), sid, true)
    end
  end.

(* finishHandshake for a handshake with transcript T and session id sid; rm = the address under
   which it is tracked (None when it never was stored) *)
Definition finish_handshake (O : doracle) (s : srv) (rm : option addr) (sid : bytes) (T : tr) (pk : bytes)
  (hidden : bool) : srv * res unit :=
  if negb (sv_serving s) then (s, Err) else
  let s1 := match rm with Some a => set_hs s (del_hs a (sv_hs s)) | None => s end in
  match find_ss sid (sv_ss s1) with
  | None => (s1, Err)
  | Some x =>
    let '(k1, k2, _) := derive_final_keys O T in
    let full := sv_maxpending s1 <=? len_list (sv_pending s1) in
    let x' := {| s_sid := sid; s_est := true; s_closed := full; s_hidden := hidden;
                 s_c2s := k1; s_s2c := k2; s_peer := Some pk |} in
    let s2 := set_ss s1 (upd_ss x' (sv_ss s1)) in
    (if full then s2 else set_pending s2 (sv_pending s2 ++ [sid]), Ok tt)
  end.

(* handleSessionMessage as far as this model needs it: find the session named in the packet,
   let the packet model [SM] process it. *)
Definition session_message (SM : sess -> addr -> bytes -> res sess) (s : srv) (a : addr) (d : bytes)
  : srv * res unit :=
  if len d <? HeaderLen + SessionIDLen then (s, Err) else
  match find_ss (slice d HeaderLen SessionIDLen) (sv_ss s) with
  | None => (s, Err)
  | Some x =>
    match SM x a d with
    | Ok x' => (set_ss s (upd_ss x' (sv_ss s)), Ok tt)
    | Err => (s, Err)
    | Panic => (s, Panic)
    end
  end.

(* Server.readPacket on one datagram d from address a *)
Definition server_step (O : doracle) (X : xoracle) (SM : sess -> addr -> bytes -> res sess)
  (s : srv) (I : step_in) (a : addr) (d : bytes) : step_out :=
  if len d <? 4 then out_ s [] Err else
  let mt := at_ d 0 in
  if mt =? MT_ClientHello then
    if sv_hidden s then out_ s [] (Ok tt) else
    match read_client_hello O X (tr_start PQName) d with
    | (T, Ok (n, kc)) =>
      if negb (n =? len d) then out_ s [] Err else
      let '(m, _) := write_server_hello O T (i_kem_ct I) (i_kem_k I) (i_cookie I) in
      out_ s [(a, m)] (Ok tt)
    | (_, Err) => out_ s [] Err
    | (_, Panic) => out_ s [] Panic
    end
  else if mt =? MT_ClientAck then
    if sv_hidden s then out_ s [] (Ok tt) else
    match read_client_ack O X (sv_ck s) (fst a) (snd a) d with
    | Ok (n, k) =>
      if negb (n =? len d) then out_ s [] Err else
      match set_handshake_state s I a (ak_tr k) (i_ekey I) false with
      | None => out_ s [] Panic
      | Some (s1, sid, stored) =>
        match i_cert I (ak_sni k) with
        | None => out_ s1 [] Err
        | Some (ss, leaf, inter) =>
          let '(T', r) := write_server_auth O X (ak_tr k) sid (i_epub I) (i_ekey I) ss (ak_eph k) leaf inter in
          let s2 := if stored
                    then set_hs s1 (upd_hs a {| h_tr := T'; h_sid := sid; h_ekey := i_ekey I; h_hidden := false |} (sv_hs s1))
                    else s1 in
          match r with
          | Ok m => out_ s2 [(a, m)] (Ok tt)
          | Err => out_ s2 [] Err
          | Panic => out_ s2 [] Panic
          end
        end
      end
    | Err => out_ s [] Err
    | Panic => out_ s [] Panic
    end
  else if mt =? MT_ClientAuth then
    if sv_hidden s then out_ s [] (Ok tt) else
    match read_client_auth_pre d with
    | Ok _ =>
      match find_hs a (sv_hs s) with
      | None => out_ s [] Err
      | Some h =>
        let '(T', r) := read_client_auth O X (h_ekey h) (sv_pol s) (h_sid h) (h_tr h) d in
        let s1 := set_hs s (upd_hs a {| h_tr := T'; h_sid := h_sid h; h_ekey := h_ekey h; h_hidden := h_hidden h |} (sv_hs s)) in
        match r with
        | Ok (n, pk) =>
          if negb (n =? len d) then out_ s1 [] Err else
          let '(s2, r2) := finish_handshake O s1 (Some a) (h_sid h) T' pk false in
          out_ s2 [] r2
        | Err => out_ s1 [] Err
        | Panic => out_ s1 [] Panic
        end
      end
    | Err => out_ s [] Err
    | Panic => out_ s [] Panic
    end
  else if (mt =? MT_ServerHello) || (mt =? MT_ServerAuth) then out_ s [] Err
  else if (mt =? MT_Transport) || (mt =? MT_Control) then
    let '(s1, r) := session_message SM s a d in out_ s1 [] r
  else if mt =? MT_ClientRequestHidden then
    match read_request_hidden O X (i_certs I) (sv_pol s) (i_now I) [] d with
    | (_, Ok q) =>
      if negb (hq_n q =? len d) then out_ s [] Err else
      match set_handshake_state s I a (hq_tr q) (i_ekey I) true with
      | None => out_ s [] Panic
      | Some (s1, sid, stored) =>
        (* writePQServerResponseHidden; on failure an empty datagram is sent and the error returned *)
        match i_cert_h I (hc_idx (hq_cert q)) with
        | None => out_ s1 [(a, [])] Err
        | Some (ss, leaf, inter) =>
          let '(T', r) := write_response_hidden O X (hq_tr q) sid (i_kem_ct I) (i_kem_k I) ss (hq_pk q) leaf inter in
          let s2 := if stored
                    then set_hs s1 (upd_hs a {| h_tr := T'; h_sid := sid; h_ekey := i_ekey I; h_hidden := true |} (sv_hs s1))
                    else s1 in
          match r with
          | Ok m =>
            let '(s3, r3) := finish_handshake O s2 (if stored then Some a else None) sid T' (hq_pk q) true in
            out_ s3 [(a, m)] r3
          | Err => out_ s2 [(a, [])] Err
          | Panic => out_ s2 [] Panic
          end
        end
      end
    | (_, Err) => out_ s [] Err
    | (_, Panic) => out_ s [] Panic
    end
  else
    (* default: handleSessionMessage, its error ignored, then ErrInvalidMessage *)
    let '(s1, r) := session_message SM s a d in
    match r with Panic => out_ s1 [] Panic | _ => out_ s1 [] Err end.

(* ------------------------------------------------------------------ client (client.go) *)
(* what the client holds while handshaking *)
Record cli := { c_tr : tr; c_ek : N; c_kpub : bytes; c_ce : N; c_epub : bytes; c_cs : N;
                c_pol : N; c_leaf : bytes; c_inter : bytes; c_sni : bytes }.

Inductive cstate :=
| CWaitSH (c : cli)           (* ClientHello sent *)
| CWaitSA (c : cli)           (* ClientAck sent *)
| CWaitSRH (c : cli)          (* hidden request sent *)
| CEstablished (x : sess)     (* handshake complete: session id and keys *)
| CFailed.

Definition with_tr (c : cli) (T : tr) : cli :=
  {| c_tr := T; c_ek := c_ek c; c_kpub := c_kpub c; c_ce := c_ce c; c_epub := c_epub c; c_cs := c_cs c;
     c_pol := c_pol c; c_leaf := c_leaf c; c_inter := c_inter c; c_sni := c_sni c |}.

(* the client's first flight *)
Definition client_start (O : doracle) (c : cli) : cstate * list bytes :=
  let '(m, T) := write_client_hello O (tr_start PQName) (c_kpub c) in (CWaitSH (with_tr c T), [m]).
Definition client_start_hidden (O : doracle) (c : cli) (ct k ts : bytes) : cstate * list bytes :=
  match write_request_hidden O (tr_start_hidden O) (c_kpub c) ct k (c_leaf c) (c_inter c) ts with
  | (T, Ok m) => (CWaitSRH (with_tr c T), [m])
  | (_, _) => (CFailed, [])
  end.

Definition mk_client_session (O : doracle) (sid : bytes) (T : tr) (pk : bytes) (hidden : bool) : sess :=
  let '(k1, k2, _) := derive_final_keys O T in
  {| s_sid := sid; s_est := true; s_closed := false; s_hidden := hidden; s_c2s := k1; s_s2c := k2; s_peer := Some pk |}.

(* One received datagram d. stale = what the client's 65535-byte buffer holds beyond the
   datagram (readPQServerHello is handed the whole buffer, not buf[:n]). *)
Definition client_step (O : doracle) (X : xoracle) (SM : sess -> addr -> bytes -> res sess)
  (st : cstate) (a : addr) (d stale : bytes) : cstate * list bytes * res unit :=
  match st with
  | CWaitSH c =>
    if len d <? 4 then (CFailed, [], Err) else
    match read_server_hello O X (c_ek c) (c_tr c) (d ++ stale) with
    | (T, Ok (n, cookie)) =>
      if negb (n =? len d) then (CFailed, [], Err) else
      let T1 := rekey O T PQName in
      let '(m, T2) := write_client_ack O T1 (c_epub c) (c_kpub c) cookie (c_sni c) in
      (CWaitSA (with_tr c T2), [m], Ok tt)
    | (_, Err) => (CFailed, [], Err)
    | (_, Panic) => (CFailed, [], Panic)
    end
  | CWaitSA c =>
    match read_server_auth O X (c_ce c) (c_pol c) (c_tr c) d with
    | (T, Ok r) =>
      if negb (sa_n r =? len d) then (CFailed, [], Err) else
      match write_client_auth O X T (sa_sid r) (c_cs c) (sa_eph r) (c_leaf c) (c_inter c) with
      | (T', Ok m) => (CEstablished (mk_client_session O (sa_sid r) T' (sa_pk r) false), [m], Ok tt)
      | (_, Err) => (CFailed, [], Err)
      | (_, Panic) => (CFailed, [], Panic)
      end
    | (_, Err) => (CFailed, [], Err)
    | (_, Panic) => (CFailed, [], Panic)
    end
  | CWaitSRH c =>
    match read_response_hidden O X (c_ek c) (c_cs c) (c_pol c) (c_tr c) d with
    | (T, Ok r) =>
      if negb (sa_n r =? len d) then (CFailed, [], Err) else
      (CEstablished (mk_client_session O (sa_sid r) T (sa_pk r) true), [], Ok tt)
    | (_, Err) => (CFailed, [], Err)
    | (_, Panic) => (CFailed, [], Panic)
    end
  | CEstablished x =>
    (* client.handleSessionMessage: PeekSession, session id comparison, then the packet model *)
    if len d <? HeaderLen + SessionIDLen then (st, [], Err) else
    if negb (beq_bytes (slice d HeaderLen SessionIDLen) (s_sid x)) then (st, [], Err) else
    match SM x a d with
    | Ok x' => (CEstablished x', [], Ok tt)
    | Err => (st, [], Err)
    | Panic => (st, [], Panic)
    end
  | CFailed => (CFailed, [], Err)
  end.
