(* Correspondence entry points for C13: programs over the Cyclist API run on the Go object, and raw
   permutation calls; every returned byte, the panic flag and the final object are compared. *)
From Hop Require Import Base Keccak Cyclist.
From Hop Require Export CorrBytes.
Open Scope N_scope.
Definition Ab := CAbsorb.
Definition En := CEncrypt.
Definition De := CDecrypt.
Definition Sq (n : N) := CSqueeze (N.to_nat n).
Definition Sk (n : N) := CSqueezeKey (N.to_nat n).
Definition Ra := CRatchet.

(* run as far as the Go program ran: outputs of the calls that returned, the object after them, and
   whether the next call panicked *)
Fixpoint run_obs (c : cy) (ops : list cop) : list bytes * cy * bool :=
  match ops with
  | [] => ([], c, false)
  | o :: r =>
      match cy_step keccak12 c o with
      | Ok (y, c1) => let '(ys, c2, p) := run_obs c1 r in (y :: ys, c2, p)
      | _ => ([], c, true)
      end
  end.
Definition cy_dump (c : cy) : bytes :=
  st c ++ [match ph c with PUp => 0 | PDown => 1 end; match md c with MHash => 0 | MKey => 1 end;
           N.of_nat (r_abs c); N.of_nat (r_sq c)].

(* ((key, id, counter), ops, (init_panicked, outputs, panicked, final dump)) *)
Definition c13_case := ((bytes * bytes * bytes) * list cop * (bool * list bytes * bool * bytes))%type.
Definition c13_ok (c : c13_case) : bool :=
  let '((k, id, ctr), ops, (ipanic, outs, panicked, dump)) := c in
  match cy_initialize keccak12 k id ctr with
  | Ok c0 =>
      let '(ys, c1, p) := run_obs c0 ops in
      negb ipanic && beq_list beq_bytes ys outs && Bool.eqb p panicked && beq_bytes (cy_dump c1) dump
  | _ => ipanic
  end.

(* raw permutation: (200 input bytes, 200 output bytes of the package's keccakF1600) *)
Definition c13p_case := (bytes * bytes)%type.
Definition c13p_ok (c : c13p_case) : bool := beq_bytes (keccak12 (fst c)) (snd c).
