package hvxwire

import (
	"bytes"
	"fmt"
	"io"
	"sync"
	"sync/atomic"
	"time"

	"github.com/sirupsen/logrus"

	"hop.computer/hop/tubes"
)

// MuxResult is what one black-box muxer run observed.
type MuxResult struct {
	SetupOK      bool   `json:"setup"`
	EchoBefore   bool   `json:"echo_before"`
	EchoAfter    bool   `json:"echo_after"`
	StopReturned bool   `json:"stop"`
	StopMs       int64  `json:"stop_ms"`
	Accepted     int32  `json:"accepted"`
	Held         int    `json:"held"`        // tubes the application keeps without reading
	HeldQueued   int    `json:"held_queued"` // datagrams waiting in held unreliable tubes after the injection
	Note         string `json:"note"`
}

// ProbeTubeType is the tube type of the liveness-probe tube; ProbeID its id (first tube created
// by the client-side muxer: odd parity). Injected frames never address (reliable, ProbeID).
const (
	ProbeTubeType = 200
	ProbeID       = 1
	// HoldTubeType: tubes of this type are accepted by the victim application and then neither
	// read nor closed (a slow or stalled consumer without a read deadline).
	HoldTubeType = 201
)

// MuxOpts selects the victim application's behaviour.
type MuxOpts struct {
	// StopAccepting: after the probe tube has been accepted the application stops calling
	// Accept (nobody drains the muxer's accept queue).
	StopAccepting bool `json:"stop_accepting"`
}

func quietLog() *logrus.Entry {
	l := logrus.New()
	l.SetOutput(io.Discard)
	l.SetLevel(logrus.PanicLevel)
	return logrus.NewEntry(l)
}

func pingPong(t *tubes.Reliable, msg string, within time.Duration) bool {
	done := make(chan bool, 1)
	go func() {
		if _, err := t.Write([]byte(msg)); err != nil {
			done <- false
			return
		}
		buf := make([]byte, len(msg))
		_, err := io.ReadFull(t, buf)
		done <- err == nil && bytes.Equal(buf, []byte(msg))
	}()
	select {
	case ok := <-done:
		return ok
	case <-time.After(within):
		return false
	}
}

// RunMuxCase: two real muxers over an in-memory connection; the server side is the victim. A
// reliable probe tube is opened by the honest peer and echoed by the victim's accept loop (which
// closes every other tube it is handed, like a server does with tube types it does not serve,
// except tubes of HoldTubeType, which it keeps without reading).
// Then the raw frames are injected into the victim's receive path, as sent by the peer; the
// oracle observations are: the probe tube still echoes, and Stop returns within the bound.
func RunMuxCase(frames [][]byte, opts MuxOpts, stopBound time.Duration) (res MuxResult) {
	cv, cp := NewMemPair()
	victim := tubes.Server(cv, &tubes.Config{Timeout: 60 * time.Second, Log: quietLog()})
	peer := tubes.Client(cp, &tubes.Config{Timeout: 60 * time.Second, Log: quietLog()})
	var accepted atomic.Int32
	var heldMu sync.Mutex
	var held []tubes.Tube
	go func() {
		for {
			t, err := victim.Accept()
			if err != nil {
				return
			}
			accepted.Add(1)
			if r, ok := t.(*tubes.Reliable); ok && t.Type() == ProbeTubeType && t.GetID() == ProbeID {
				go io.Copy(r, r)
				if opts.StopAccepting {
					return
				}
			} else if t.Type() == HoldTubeType {
				heldMu.Lock()
				held = append(held, t) // kept open, never read
				heldMu.Unlock()
			} else {
				go t.Close()
			}
		}
	}()
	probe, err := peer.CreateReliableTube(ProbeTubeType)
	if err != nil || probe.GetID() != ProbeID {
		res.Note = fmt.Sprintf("probe tube not created: %v", err)
		go victim.Stop()
		go peer.Stop()
		return
	}
	res.SetupOK = true
	res.EchoBefore = pingPong(probe, "ping-before-injection", 20*time.Second)
	for _, f := range frames {
		cv.Inject(f)
	}
	// give the receiver time to work through the injected frames (bounded)
	for i := 0; i < 600 && len(cv.in) > 0; i++ {
		time.Sleep(5 * time.Millisecond)
	}
	time.Sleep(30 * time.Millisecond)
	heldMu.Lock()
	res.Held = len(held)
	for _, t := range held {
		if u, ok := t.(*tubes.Unreliable); ok {
			res.HeldQueued += tubes.VerifWireUnreliableQueued(u)
		}
	}
	heldMu.Unlock()
	res.EchoAfter = pingPong(probe, "ping-after-injection", 20*time.Second)
	start := time.Now()
	done := make(chan struct{})
	go func() {
		victim.Stop()
		close(done)
	}()
	select {
	case <-done:
		res.StopReturned = true
	case <-time.After(stopBound):
	}
	res.StopMs = time.Since(start).Milliseconds()
	res.Accepted = accepted.Load()
	go peer.Stop()
	return
}
