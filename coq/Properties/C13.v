(* C13 — the Cyclist duplex matches its specification and stays in sync across peers.
   Theorems are for EVERY function f on states (in particular every permutation, Keccak-p[1600,12]
   among them), every operand length (empty and multi-block included) and every program.
   "Matches its specification" is the pair: Model/Cyclist.v is the Cyclist mode of the Xoodyak paper
   and reproduces the published XKCP transcript (Proofs/CyclistVectors.v, Proofs/KeccakVectors.v), and
   the Go code agrees with that model on every run of ./check C13 (Corr/C13.v). *)
From Hop Require Import Base Keccak Cyclist CyclistProofs CyclistSpecProofs CyclistVectors KeccakVectors.
Open Scope N_scope.

(* The receiver of a ciphertext recovers the plaintext AND ends in exactly the sender's state. *)
Theorem c13_decrypt_encrypt : forall (f : bytes -> bytes) c p ct c1,
  cy_encrypt f c p = Ok (ct, c1) -> cy_decrypt f c ct = Ok (p, c1).
Proof. exact decrypt_encrypt. Qed.
Print Assumptions c13_decrypt_encrypt.

(* ... and the other direction (a peer that decrypted can be mirrored by one that encrypts). *)
Theorem c13_encrypt_decrypt : forall (f : bytes -> bytes) c ct p c1,
  cy_decrypt f c ct = Ok (p, c1) -> cy_encrypt f c p = Ok (ct, c1).
Proof. exact encrypt_decrypt. Qed.
Print Assumptions c13_encrypt_decrypt.

(* Sync over programs.  [cy_run f c ops] runs any program over Absorb / Encrypt / Decrypt / Squeeze /
   SqueezeKey / Ratchet and returns what every call returned plus the final object.  The peer starts
   from an equal object and runs the mirrored program: Decrypt of each ciphertext the first side
   produced, Encrypt of each plaintext it recovered, and the same Absorb/Squeeze/SqueezeKey/Ratchet
   calls.  Then the peer's outputs are: the original plaintext at every Encrypt, the original
   ciphertext at every Decrypt, and *the same bytes* at every Squeeze / SqueezeKey at every later
   step; and both objects end in the same state. *)
Theorem c13_sync_program : forall (f : bytes -> bytes) ops c outs c',
  cy_run f c ops = Ok (outs, c') ->
  cy_run f c (mirror_ops ops outs) = Ok (mirror_outs ops outs, c').
Proof. exact run_mirror. Qed.
Print Assumptions c13_sync_program.

(* the mirrored view is a faithful one: mirroring it again gives the original program and outputs
   (so the statement above is not about some degenerate peer program) *)
Theorem c13_mirror_involutive : forall (f : bytes -> bytes) ops c outs c',
  cy_run f c ops = Ok (outs, c') ->
  mirror_ops (mirror_ops ops outs) (mirror_outs ops outs) = ops /\
  mirror_outs (mirror_ops ops outs) (mirror_outs ops outs) = outs.
Proof. exact mirror_involutive. Qed.
Print Assumptions c13_mirror_involutive.

(* a call the first side cannot make (keyed-only call in hash mode) cannot be made by the peer either *)
Theorem c13_panic_symmetric : forall (f : bytes -> bytes) c o y,
  cy_step f c o = Panic -> cy_step f c (mirror_op o y) = Panic.
Proof. exact step_panic_mirror. Qed.
Print Assumptions c13_panic_symmetric.

(* Length laws: every call returns exactly as many bytes as asked / given, for every state-length
   preserving f, on every object reachable from Initialize. *)
Theorem c13_lengths_if_f_preserves_length : forall (f : bytes -> bytes),
  (forall s, List.length (f s) = cy_fB) ->
  (forall k id ctr c, cy_initialize f k id ctr = Ok c -> cy_wf c) /\
  (forall c o y c1, cy_wf c -> cy_step f c o = Ok (y, c1) ->
     cy_wf c1 /\
     List.length y = match o with
                     | CAbsorb _ | CRatchet => 0%nat
                     | CEncrypt p => List.length p
                     | CDecrypt ct => List.length ct
                     | CSqueeze n | CSqueezeKey n => n
                     end).
Proof. exact lengths_law. Qed.
Print Assumptions c13_lengths_if_f_preserves_length.

(* ciphertext length needs no hypothesis at all *)
Theorem c13_crypt_length : forall (f : bytes -> bytes) d c i, List.length (fst (crypt f d c i)) = List.length i.
Proof. exact crypt_length. Qed.
Print Assumptions c13_crypt_length.

(* the instance hop uses satisfies the hypothesis of the length theorem *)
Theorem c13_keccak12_preserves_length : forall s, List.length (keccak12 s) = cy_fB.
Proof. exact keccak12_len. Qed.
Print Assumptions c13_keccak12_preserves_length.

(* domain separation as in the specification's table: hash mode ignores c_U and keeps only bit 0 of c_D *)
Theorem c13_hash_mode_ignores_cu : forall (f : bytes -> bytes) c cu, md c = MHash -> cy_up f c cu = cy_up f c 0.
Proof. exact up_hash_ignores_cu. Qed.
Print Assumptions c13_hash_mode_ignores_cu.
Theorem c13_hash_mode_masks_cd : forall c x cd, md c = MHash -> cy_down c x cd = cy_down c x (N.land cd 1).
Proof. exact down_hash_masks_cd. Qed.
Print Assumptions c13_hash_mode_masks_cd.

(* ---- the interface restated in the form of the Xoodyak paper's Algorithms 2-3 (for every f) ----
   These pin the mode independently of the Go code and of the (short) XKCP transcript: every colour byte,
   rate and length of the specification appears in a statement below. *)

(* Split(X, r): one block if |X| <= r (also for the empty string), else the first r bytes and Split of the rest *)
Theorem c13_spec_split : forall r x y,
  ((List.length x <= r)%nat -> cy_blocks r x = [x]) /\
  ((0 < r)%nat -> List.length x = r -> y <> [] -> cy_blocks r (x ++ y) = x :: cy_blocks r y) /\
  List.concat (cy_blocks r x) = x.
Proof. intros r x y. exact (conj (blocks_small r x) (conj (blocks_app r x y) (blocks_concat r x))). Qed.
Print Assumptions c13_spec_split.

(* Down(X, c_D): s <- s + (X || 01 || 00* || c_D), c_D and 01 in hash mode; phase down, mode and rates kept *)
Theorem c13_spec_down : forall c x cd, (List.length x <= 198)%nat ->
  st (cy_down c x cd) =
  xor_into (st c) (x ++ [1] ++ repeat 0 (198 - List.length x) ++
                   [match md c with MHash => N.land cd 1 | MKey => cd end]).
Proof. exact down_paper_form. Qed.
Print Assumptions c13_spec_down.

(* Up(c_U): s <- f(s + (00* || c_U)) in keyed mode, f(s) in hash mode *)
Theorem c13_spec_up : forall (f : bytes -> bytes) c cu,
  st (cy_up f c cu) = f (match md c with MHash => st c | MKey => xor_into (st c) (repeat 0 199 ++ [cu]) end).
Proof. exact up_paper_form. Qed.
Print Assumptions c13_spec_up.

(* Absorb(X) = AbsorbAny(X, R_absorb, 0x03): a Down per block, colour 0x03 on the first and 0x00 after,
   an Up(0x00) before a block iff the phase is down *)
Theorem c13_spec_absorb : forall (f : bytes -> bytes) c x y,
  ((List.length x <= r_abs c)%nat -> cy_absorb f c x = cy_down (up_if_down f c) x 3) /\
  ((0 < r_abs c)%nat -> List.length x = r_abs c -> y <> [] ->
   cy_absorb f c (x ++ y) = absorb_any f (cy_down (up_if_down f c) x 3) y (r_abs c) 0).
Proof. intros f c x y. exact (conj (absorb_one_block f c x) (absorb_more_blocks f c x y)). Qed.
Print Assumptions c13_spec_absorb.
Theorem c13_spec_absorb_any : forall (f : bytes -> bytes) c x y r cd,
  ((List.length x <= r)%nat -> absorb_any f c x r cd = cy_down (up_if_down f c) x cd) /\
  ((0 < r)%nat -> List.length x = r -> y <> [] ->
   absorb_any f c (x ++ y) r cd = absorb_any f (cy_down (up_if_down f c) x cd) y r 0).
Proof. intros f c x y r cd. exact (conj (absorb_any_small f c x r cd) (absorb_any_app f c x y r cd)). Qed.
Print Assumptions c13_spec_absorb_any.

(* AbsorbKey: K || id || enc8(|id|) in ONE Down with colour 0x02 on the keyed empty object (rates 136),
   then the counter one byte per block with colour 0x00; Panic iff K is non-empty and |K| + |id| >= 136;
   no key: the empty hash-mode object *)
Theorem c13_spec_initialize : forall (f : bytes -> bytes) k id ctr,
  cy_initialize f [] id ctr = Ok cy_empty /\
  (k <> [] -> (List.length k + List.length id <= 135)%nat ->
   cy_initialize f k id [] = Ok (cy_down keyed_empty (k ++ id ++ [N.of_nat (List.length id) mod 256]) 2)) /\
  (k <> [] -> ctr <> [] -> (List.length k + List.length id <= 135)%nat ->
   cy_initialize f k id ctr =
   Ok (fold_left (fun c' b => cy_down (up_if_down f c') [b] 0) ctr
         (cy_down keyed_empty (k ++ id ++ [N.of_nat (List.length id) mod 256]) 2))) /\
  (k <> [] -> (136 <= List.length k + List.length id)%nat -> cy_initialize f k id ctr = Panic).
Proof.
  intros f k id ctr.
  exact (conj (initialize_hash f id ctr) (conj (initialize_keyed_no_counter f k id)
        (conj (initialize_keyed_counter f k id ctr) (initialize_too_long_panics f k id ctr)))).
Qed.
Print Assumptions c13_spec_initialize.

(* Squeeze = SqueezeAny(l, 0x40), SqueezeKey = SqueezeAny(l, 0x20);
   SqueezeAny: Up(c_U) and the first min(l, R) state bytes, then while bytes are missing Down(empty, 0x00), Up(0x00) *)
Theorem c13_spec_squeeze : forall (f : bytes -> bytes) c n cu,
  cy_squeeze f c n = squeeze_any f c n 64 /\
  (md c = MKey -> cy_squeeze_key f c n = Ok (squeeze_any f c n 32)) /\
  ((n <= r_sq c)%nat -> squeeze_any f c n cu = (firstn n (st (cy_up f c cu)), cy_up f c cu)) /\
  ((0 < r_sq c)%nat -> (r_sq c < n)%nat ->
   squeeze_any f c n cu =
   let c1 := cy_up f c cu in
   let (y, c2) := squeeze_any f (cy_down c1 [] 0) (n - r_sq c) 0 in
   (firstn (r_sq c) (st c1) ++ y, c2)).
Proof.
  intros f c n cu.
  exact (conj (squeeze_colour f c n) (conj (squeeze_key_colour f c n)
        (conj (squeeze_any_one_block f c n cu) (squeeze_any_more_blocks f c n cu)))).
Qed.
Print Assumptions c13_spec_squeeze.

(* Ratchet = AbsorbAny(SqueezeAny(32, 0x10), R_absorb, 0x00) = Up(0x10), then Down of the first 32 state bytes, colour 0x00 *)
Theorem c13_spec_ratchet : forall (f : bytes -> bytes) c,
  md c = MKey -> (32 <= r_sq c)%nat -> (32 <= r_abs c)%nat ->
  cy_ratchet f c = let c1 := cy_up f c 16 in Ok (cy_down c1 (firstn 32 (st c1)) 0).
Proof. exact ratchet_closed_form. Qed.
Print Assumptions c13_spec_ratchet.

(* Crypt: blocks of R_kout = 136; Up(0x80) for the first block and Up(0x00) for the others; output = input
   xor state; then Down of the PLAINTEXT block with colour 0x00 *)
Theorem c13_spec_crypt : forall (f : bytes -> bytes) c p d x y,
  (md c = MKey -> (List.length p <= 136)%nat ->
   cy_encrypt f c p = let c1 := cy_up f c 128 in Ok (xor_ks p (st c1), cy_down c1 p 0)) /\
  (md c = MKey -> (List.length p <= 136)%nat ->
   cy_decrypt f c p = let c1 := cy_up f c 128 in let q := xor_ks p (st c1) in Ok (q, cy_down c1 q 0)) /\
  (List.length x = 136%nat -> y <> [] ->
   crypt f d c (x ++ y) =
   let c1 := cy_up f c 128 in
   let o := xor_ks x (st c1) in
   let (os, c3) := crypt_blocks f d (cy_down c1 (if d then o else x) 0) (cy_blocks 136 y) 0 in
   (o ++ List.concat os, c3)).
Proof.
  intros f c p d x y.
  exact (conj (encrypt_one_block f c p) (conj (decrypt_one_block f c p) (crypt_more_blocks f d c x y))).
Qed.
Print Assumptions c13_spec_crypt.

(* ---- anchors and non-vacuity ---- *)
(* the published XKCP transcript, on the Gallina Cyclist over the Gallina Keccak-p[1600,12] *)
Theorem c13_xkcp_transcript : run_from_key xkcp_ops = Some xkcp_outs.
Proof. exact cyclist_xkcp_transcript. Qed.
Print Assumptions c13_xkcp_transcript.

(* a concrete keyed multi-block program (137-byte and empty operands, ratchet, key squeeze) satisfies
   the premise of c13_sync_program with f = keccak12, and the peer's squeezes are the same bytes *)
Definition ex_prog : list cop :=
  [CAbsorb (repeat 7 137%nat); CEncrypt (repeat 1 273%nat); CSqueeze 16%nat; CDecrypt []; CRatchet;
   CSqueezeKey 32%nat; CEncrypt []; CSqueeze 140%nat].
Example c13_sync_nonvacuous :
  match cy_initialize keccak12 (repeat 9 16%nat) [1; 2] [3] with
  | Ok c => match cy_run keccak12 c ex_prog with
            | Ok (outs, c') =>
                cy_run keccak12 c (mirror_ops ex_prog outs) = Ok (mirror_outs ex_prog outs, c') /\
                nth 2 (mirror_outs ex_prog outs) [] = nth 2 outs [] /\ List.length (nth 7 outs []) = 140%nat /\
                nth 1 outs [] <> repeat 1 273%nat
            | _ => False
            end
  | _ => False
  end.
Proof. vm_compute. repeat split; congruence. Qed.
