//go:build verif

package userauth

// VerifWireInitMsgBytes = newUserAuthInitMsg(user).toBytes()
func VerifWireInitMsgBytes(user string) []byte { return newUserAuthInitMsg(user).toBytes() }
