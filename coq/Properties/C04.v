(* C04 — certificate verification accepts exactly the valid chains.
   Model: Model/Certs.v (verify_parent, verify_leaf, issue, self_sign, policy_verify transcribe
   certs/verify.go, certs/issue.go, authkeys/verify.go, transport/handshake.go).
   [sv] is the Ed25519 oracle, [clock] the value time.Now() would return; every theorem quantifies over
   both, and over all stores, options and certificates.  Premises about cryptography are named in the
   theorem (…_under_sig_sound, …_under_fp_inj, …) and instantiated by an Example below. *)
From Hop Require Import Base Certs CertsProofs CertsExamples.
Open Scope N_scope.

(* ---------------------------------------------------------------- VerifyParent = "parent issued child" *)
Theorem c04_verify_parent_iff : forall sv child par,
  verify_parent sv child par = VPOk <-> parent_ok sv child par.
Proof. exact verify_parent_ok_iff. Qed.
Print Assumptions c04_verify_parent_iff.

(* ---------------------------------------------------------------- VerifyLeaf = valid_chain *)
(* no premise at all: success <-> a valid chain built on the intermediate the code selects
   (the presented one when the leaf names its fingerprint, otherwise the stored one) *)
Theorem c04_verify_iff_sel : forall sv clock st o leaf,
  verify_leaf sv clock st o leaf = VOk <-> valid_chain_sel sv clock st o leaf.
Proof. exact verify_leaf_ok_sel. Qed.
Print Assumptions c04_verify_iff_sel.

(* soundness, no premise: every accepted leaf has a valid chain (the property's sentence) *)
Theorem c04_verify_sound : forall sv clock st o leaf,
  verify_leaf sv clock st o leaf = VOk -> valid_chain sv clock st o leaf.
Proof. exact verify_leaf_sound. Qed.
Print Assumptions c04_verify_sound.

(* the equivalence with the property's sentence (intermediate "presented or stored"); premise: a
   presented and a stored certificate carrying the fingerprint the leaf names are one certificate *)
Theorem c04_verify_iff : forall sv clock st o leaf,
  presented_coherent st o leaf ->
  (verify_leaf sv clock st o leaf = VOk <-> valid_chain sv clock st o leaf).
Proof. exact verify_leaf_iff. Qed.
Print Assumptions c04_verify_iff.
Example c04_verify_iff_nonvacuous :
  presented_coherent ex_st (ex_o 500) ex_leaf /\ valid_chain ex_sv 0 ex_st (ex_o 500) ex_leaf /\
  verify_leaf ex_sv 0 ex_st (ex_o 500) ex_leaf = VOk.
Proof. exact (conj (ex_coherent 500) (conj ex_valid_chain ex_accepts)). Qed.

(* that premise follows from collision-freeness of the fingerprint on the certificates at hand *)
Theorem c04_verify_iff_under_fp_inj : forall sv clock (U : cert -> Prop) st o leaf,
  (forall c1 c2, U c1 -> U c2 -> fp c1 = fp c2 -> c1 = c2) ->
  (forall p, presented o = Some p -> U p) -> (forall f c, st f = Some c -> U c) ->
  (verify_leaf sv clock st o leaf = VOk <-> valid_chain sv clock st o leaf).
Proof.
  exact (fun sv clock U st o leaf Hi Hp Hs =>
           verify_leaf_iff sv clock st o leaf (coherent_of_fp_inj U st o leaf Hi Hp Hs)).
Qed.
Print Assumptions c04_verify_iff_under_fp_inj.
Example c04_fp_inj_nonvacuous : forall c1 c2, ex_U c1 -> ex_U c2 -> fp c1 = fp c2 -> c1 = c2.
Proof. exact ex_fp_inj. Qed.

(* without a presented intermediate there is no premise *)
Theorem c04_verify_iff_no_presented : forall sv clock st o leaf,
  presented o = None ->
  (verify_leaf sv clock st o leaf = VOk <-> valid_chain sv clock st o leaf).
Proof.
  exact (fun sv clock st o leaf H => verify_leaf_iff sv clock st o leaf (coherent_none st o leaf H)).
Qed.
Print Assumptions c04_verify_iff_no_presented.

(* ---------------------------------------------------------------- the clock *)
(* for fixed links the verdict depends on the time exactly through the three windows nb <= t < na *)
Theorem c04_window : forall sv clock st o leaf im root t,
  select_intermediate st o leaf = Some im -> chain_links sv st o leaf im root ->
  (verify_leaf sv clock st (with_cur o t) leaf = VOk <->
   valid_at t leaf /\ valid_at t im /\ valid_at t root).
Proof. exact verify_leaf_window. Qed.
Print Assumptions c04_window.

(* mutation 1 of the property text: the expiry bound is exclusive (for leaf, intermediate and root) *)
Theorem c04_expiry_exclusive : forall sv clock st o leaf im root,
  select_intermediate st o leaf = Some im -> chain_links sv st o leaf im root ->
  verify_leaf sv clock st (with_cur o (na leaf)) leaf <> VOk /\
  verify_leaf sv clock st (with_cur o (na im)) leaf <> VOk /\
  verify_leaf sv clock st (with_cur o (na root)) leaf <> VOk.
Proof. exact expiry_exclusive_all. Qed.
Print Assumptions c04_expiry_exclusive.

Theorem c04_expired_rejected : forall sv clock st o leaf,
  (na leaf <= now_of clock o)%Z -> verify_leaf sv clock st o leaf <> VOk.
Proof. exact verify_leaf_expired. Qed.
Print Assumptions c04_expired_rejected.

(* ... while the last instant before expiry, and the first instant of validity, are accepted *)
Theorem c04_last_instant_accepted : forall sv clock st o leaf im root,
  select_intermediate st o leaf = Some im -> chain_links sv st o leaf im root ->
  (nb leaf <= na leaf - 1)%Z -> valid_at (na leaf - 1) im -> valid_at (na leaf - 1) root ->
  verify_leaf sv clock st (with_cur o (na leaf - 1)) leaf = VOk.
Proof. exact last_instant_accepted. Qed.
Print Assumptions c04_last_instant_accepted.

Theorem c04_first_instant_accepted : forall sv clock st o leaf im root,
  select_intermediate st o leaf = Some im -> chain_links sv st o leaf im root ->
  (nb leaf < na leaf)%Z -> valid_at (nb leaf) im -> valid_at (nb leaf) root ->
  verify_leaf sv clock st (with_cur o (nb leaf)) leaf = VOk /\
  verify_leaf sv clock st (with_cur o (nb leaf - 1)) leaf <> VOk.
Proof. exact first_instant_accepted. Qed.
Print Assumptions c04_first_instant_accepted.
Example c04_expiry_example :
  verify_leaf ex_sv 0 ex_st (ex_o 799) ex_leaf = VOk /\
  verify_leaf ex_sv 0 ex_st (ex_o 800) ex_leaf = VTimeInvalid /\
  verify_leaf ex_sv 0 ex_st (ex_o 200) ex_leaf = VOk /\
  verify_leaf ex_sv 0 ex_st (ex_o 199) ex_leaf = VTimeInvalid.
Proof. exact ex_expiry_exclusive. Qed.

(* ---------------------------------------------------------------- wrong type / anchor / name *)
Theorem c04_wrong_type_rejected : forall sv clock st o leaf,
  ctype leaf <> Leaf -> verify_leaf sv clock st o leaf <> VOk.
Proof. exact verify_leaf_wrong_type. Qed.
Print Assumptions c04_wrong_type_rejected.

(* mutation 2 of the property text: the trust anchor must be of root type *)
Theorem c04_anchor_must_be_root : forall sv clock st o leaf im r,
  select_intermediate st o leaf = Some im -> st (parent im) = Some r -> ctype r <> Root ->
  verify_leaf sv clock st o leaf <> VOk.
Proof. exact verify_leaf_anchor_type. Qed.
Print Assumptions c04_anchor_must_be_root.

Theorem c04_accepted_has_root_anchor : forall sv clock st o leaf,
  verify_leaf sv clock st o leaf = VOk ->
  exists im root, fp im = parent leaf /\ st (parent im) = Some root /\ fp root = parent im /\ ctype root = Root.
Proof. exact accepted_anchor_root. Qed.
Print Assumptions c04_accepted_has_root_anchor.
Example c04_anchor_example :
  verify_leaf ex_sv 0 (store_of [(101, ex_root_as_im)]) (ex_o 500) ex_leaf = VInvalidCertificate.
Proof. exact ex_anchor_must_be_root. Qed.

(* mutation 3 of the property text: names are compared with their type *)
Theorem c04_name_type_sensitive : forall sv clock st o leaf t l,
  oname o = Some (t, l) -> (forall t', In (t', l) (names leaf) -> t' <> t) ->
  verify_leaf sv clock st o leaf <> VOk.
Proof. exact verify_leaf_name_type. Qed.
Print Assumptions c04_name_type_sensitive.
Example c04_name_example :
  verify_leaf ex_sv 0 ex_st (mkOpts (Some ex_im) (Some (0, hex "6162")) (Some 500%Z)) ex_leaf = VMismatchedName /\
  verify_leaf ex_sv 0 ex_st (mkOpts (Some ex_im) (Some (1, hex "61")) (Some 500%Z)) ex_leaf = VMismatchedName.
Proof. exact ex_name_type_sensitive. Qed.

(* a presented intermediate whose fingerprint the leaf does not name changes nothing *)
Theorem c04_presented_other_fp_ignored : forall sv clock st o leaf p,
  presented o = Some p -> fp p <> parent leaf ->
  verify_leaf sv clock st o leaf = verify_leaf sv clock st (mkOpts None (oname o) (cur o)) leaf.
Proof. exact presented_other_fp_ignored. Qed.
Print Assumptions c04_presented_other_fp_ignored.

(* ---------------------------------------------------------------- mutations of a verified chain *)
(* sig_sound: one signature value authenticates one signed body (whatever the key).
   Changing type, name set, either time, key or parent of a verified leaf while keeping its
   signature bytes gives a certificate that no store, options or clock accept. *)
Theorem c04_field_mutation_rejected_under_sig_sound : forall sv clock (U : cert -> Prop),
  (forall k1 k2 c1 c2, U c1 -> U c2 -> sv k1 c1 = true -> sv k2 c2 = true -> sg c1 = sg c2 -> body c1 = body c2) ->
  forall st o leaf st' o' leaf',
  U leaf -> U leaf' ->
  verify_leaf sv clock st o leaf = VOk ->
  sg leaf' = sg leaf ->
  (ctype leaf' <> ctype leaf \/ names leaf' <> names leaf \/ nb leaf' <> nb leaf \/ na leaf' <> na leaf \/
   pk leaf' <> pk leaf \/ parent leaf' <> parent leaf) ->
  verify_leaf sv clock st' o' leaf' <> VOk.
Proof. exact leaf_any_field_mutation_rejected. Qed.
Print Assumptions c04_field_mutation_rejected_under_sig_sound.
Example c04_sig_sound_nonvacuous :
  (forall k1 k2 c1 c2, ex_U c1 -> ex_U c2 -> ex_sv k1 c1 = true -> ex_sv k2 c2 = true -> sg c1 = sg c2 -> body c1 = body c2) /\
  (ex_U ex_leaf /\ ex_U ex_leaf_mut /\ sg ex_leaf_mut = sg ex_leaf /\ na ex_leaf_mut <> na ex_leaf) /\
  verify_leaf ex_sv 0 ex_st (ex_o 500) ex_leaf = VOk /\
  verify_leaf ex_sv 0 ex_st (ex_o 900) ex_leaf_mut <> VOk.
Proof. exact (conj ex_sig_sound (conj ex_mutation_premises (conj ex_accepts ex_mutation_rejected))). Qed.

(* flipping bits of the signature itself: sig_unique (one signature per key and body among the
   scenario's certificates: deterministic signers + strong unforgeability) and fp_inj *)
Theorem c04_signature_mutation_rejected_under_sig_unique_fp_inj : forall sv clock (U : cert -> Prop),
  (forall c1 c2, U c1 -> U c2 -> fp c1 = fp c2 -> c1 = c2) ->
  (forall k c1 c2, U c1 -> U c2 -> sv k c1 = true -> sv k c2 = true -> body c1 = body c2 -> sg c1 = sg c2) ->
  forall st o leaf o' leaf',
  (forall p, presented o = Some p -> U p) -> (forall p, presented o' = Some p -> U p) ->
  (forall f c, st f = Some c -> U c) ->
  U leaf -> U leaf' ->
  verify_leaf sv clock st o leaf = VOk ->
  body leaf' = body leaf -> sg leaf' <> sg leaf ->
  verify_leaf sv clock st o' leaf' <> VOk.
Proof. exact leaf_signature_mutation_rejected. Qed.
Print Assumptions c04_signature_mutation_rejected_under_sig_unique_fp_inj.
Example c04_sig_unique_nonvacuous : forall k c1 c2, ex_U c1 -> ex_U c2 ->
  ex_sv k c1 = true -> ex_sv k c2 = true -> body c1 = body c2 -> sg c1 = sg c2.
Proof. exact ex_sig_unique. Qed.

(* anything changed in the intermediate: under fp_inj an accepting run used the genuine intermediate
   (the only certificate with the fingerprint the leaf names) and the genuine root *)
Theorem c04_accepted_intermediate_genuine_under_fp_inj : forall sv clock (U : cert -> Prop),
  (forall c1 c2, U c1 -> U c2 -> fp c1 = fp c2 -> c1 = c2) ->
  forall st o leaf im,
  (forall p, presented o = Some p -> U p) -> (forall f c, st f = Some c -> U c) ->
  U im -> fp im = parent leaf ->
  verify_leaf sv clock st o leaf = VOk ->
  presented o = Some im \/ st (parent leaf) = Some im.
Proof. exact accepted_intermediate_genuine. Qed.
Print Assumptions c04_accepted_intermediate_genuine_under_fp_inj.

Theorem c04_intermediate_mutation_rejected_under_fp_inj : forall sv clock (U : cert -> Prop),
  (forall c1 c2, U c1 -> U c2 -> fp c1 = fp c2 -> c1 = c2) ->
  forall st o leaf im im',
  (forall f c, st f = Some c -> U c) ->
  U im -> U im' -> fp im = parent leaf -> im' <> im ->
  presented o = Some im' -> st (parent leaf) <> Some im ->
  verify_leaf sv clock st o leaf <> VOk.
Proof. exact intermediate_mutation_rejected. Qed.
Print Assumptions c04_intermediate_mutation_rejected_under_fp_inj.
Example c04_intermediate_mutation_example :
  (ex_U ex_im /\ ex_U ex_im_mut /\ fp ex_im = parent ex_leaf /\ ex_im_mut <> ex_im) /\
  verify_leaf ex_sv 0 ex_st (mkOpts (Some ex_im_mut) None (Some 500%Z)) ex_leaf = VUnknownIntermediate.
Proof. exact (conj ex_im_mutation_premises ex_im_mutation_rejected). Qed.

Theorem c04_accepted_root_genuine_under_fp_inj : forall sv clock (U : cert -> Prop),
  (forall c1 c2, U c1 -> U c2 -> fp c1 = fp c2 -> c1 = c2) ->
  forall st o leaf root,
  (forall p, presented o = Some p -> U p) -> (forall f c, st f = Some c -> U c) ->
  U root ->
  verify_leaf sv clock st o leaf = VOk ->
  (exists im, (presented o = Some im \/ st (parent leaf) = Some im) /\ fp im = parent leaf /\ parent im = fp root) ->
  st (fp root) = Some root.
Proof. exact accepted_root_genuine. Qed.
Print Assumptions c04_accepted_root_genuine_under_fp_inj.

(* ---------------------------------------------------------------- issuing functions *)
(* issue: clamps to the parent's expiry, requires the parent valid at issuance *)
Theorem c04_issue_clamps : forall par hk child ty t0 dur s f r c,
  issue par hk child ty t0 dur s f r = Some c ->
  ctype c = ty /\ names c = id_names child /\ pk c = id_pk child /\ parent c = fp par /\
  sg c = s /\ fp c = f /\
  fp par <> zero_fp /\ (nb par <= nb c)%Z /\ (nb c < na par)%Z /\ (nb c < na c)%Z /\ (na c <= na par)%Z /\
  nb c = t0 /\ na c = Z.min (t0 + dur) (na par) /\ 64 <= rawlen c.
Proof. exact issue_fields. Qed.
Print Assumptions c04_issue_clamps.

(* every chain produced by selfSign / IssueIntermediate / IssueLeafAt verifies at every time inside the
   leaf's window, against every store holding the root, whether the intermediate is presented or
   stored (whatever else is presented), for every name the leaf carries.  Premise sign_correct =
   Ed25519 correctness: the signature issue made with the parent's private key verifies under the
   parent's public key. *)
Theorem c04_issued_chain_verifies :
  forall sv clock idr kr now0 exp0 sr fr rr root idi t1 d1 si fi ri im idl t2 d2 sl fl rl leaf st o,
    self_sign idr Root kr now0 exp0 sr fr rr = Some root ->
    issue_intermediate root true idi t1 d1 si fi ri = Some im ->
    issue_leaf_at im true idl t2 d2 sl fl rl = Some leaf ->
    sign_correct sv root im -> sign_correct sv im leaf ->
    st (fp root) = Some root ->
    (presented o = Some im \/ ((forall p, presented o = Some p -> fp p <> fp im) /\ st (fp im) = Some im)) ->
    name_req o leaf ->
    valid_at (now_of clock o) leaf ->
    verify_leaf sv clock st o leaf = VOk.
Proof. exact issued_chain_verifies. Qed.
Print Assumptions c04_issued_chain_verifies.

(* the same after a trip through the wire format (ReadFrom keeps whole seconds: a monotone map [q]) *)
Theorem c04_issued_chain_verifies_reparsed :
  forall sv clock (q : Z -> Z) idr kr now0 exp0 sr fr rr root idi t1 d1 si fi ri im idl t2 d2 sl fl rl leaf st o,
    (forall a b, (a <= b)%Z -> (q a <= q b)%Z) ->
    self_sign idr Root kr now0 exp0 sr fr rr = Some root ->
    issue_intermediate root true idi t1 d1 si fi ri = Some im ->
    issue_leaf_at im true idl t2 d2 sl fl rl = Some leaf ->
    sv (pk root) (retime q im) = true -> sv (pk im) (retime q leaf) = true ->
    st (fp root) = Some (retime q root) ->
    (presented o = Some (retime q im) \/
     ((forall p, presented o = Some p -> fp p <> fp im) /\ st (fp im) = Some (retime q im))) ->
    name_req o leaf ->
    valid_at (now_of clock o) (retime q leaf) ->
    verify_leaf sv clock st o (retime q leaf) = VOk.
Proof. exact issued_chain_verifies_reparsed. Qed.
Print Assumptions c04_issued_chain_verifies_reparsed.
Example c04_issued_chain_example :
  exists root im leaf, ex2_root = Some root /\ ex2_im root = Some im /\ ex2_leaf im = Some leaf /\
    na im = 1000%Z /\ na leaf = 800%Z /\
    sign_correct ex_sv root im /\ sign_correct ex_sv im leaf /\
    verify_leaf ex_sv 0 (store_of [(101, root)]) (mkOpts (Some im) (Some ex_name) (Some 799%Z)) leaf = VOk.
Proof. exact ex_issue_chain. Qed.

(* ---------------------------------------------------------------- authorized keys and the handshake's cascade *)
Theorem c04_authkeys_iff : forall ks o leaf,
  authkeys_verify ks o leaf = true <-> ctype leaf = Leaf /\ name_req o leaf /\ In (pk leaf) ks.
Proof. exact authkeys_verify_spec. Qed.
Print Assumptions c04_authkeys_iff.

(* when certificateParserAndVerifier lets the handshake go on, one of its documented reasons holds *)
Theorem c04_policy_ok_cases : forall sv clock cfg pleaf pim leaf',
  policy_verify sv clock cfg pleaf pim = POk leaf' ->
  pleaf = Some leaf' /\ pim <> Some None /\
  (cfg = None \/
   exists c, cfg = Some c /\
     (match vc_callback c with Some cb => cb leaf' = true | None => True end) /\
     let o := mkOpts (match pim with Some (Some i) => Some i | _ => None end) (vc_name c) (vc_cur c) in
     (vc_skip c = true \/
      (vc_authkeys_allowed c = true /\ exists ks, vc_authkeys c = Some ks /\ authkeys_verify ks o leaf' = true) \/
      verify_leaf sv clock (vc_store c) o leaf' = VOk)).
Proof. exact policy_ok_cases. Qed.
Print Assumptions c04_policy_ok_cases.

(* verification on, authorized keys off: only verified chains pass *)
Theorem c04_policy_strict : forall sv clock c pleaf pim leaf',
  vc_skip c = false -> vc_authkeys_allowed c = false ->
  policy_verify sv clock (Some c) pleaf pim = POk leaf' ->
  verify_leaf sv clock (vc_store c)
     (mkOpts (match pim with Some (Some i) => Some i | _ => None end) (vc_name c) (vc_cur c)) leaf' = VOk.
Proof. exact policy_strict_ok. Qed.
Print Assumptions c04_policy_strict.
Example c04_policy_example :
  policy_verify ex_sv 0 (Some (ex_cfg ex_st)) (Some ex_leaf) (Some (Some ex_im)) = POk ex_leaf /\
  policy_verify ex_sv 0 (Some (ex_cfg (store_of []))) (Some ex_leaf) (Some (Some ex_im)) = PErr.
Proof. exact ex_policy. Qed.
