// c09: tubes are isolated from each other and from earlier tubes with the same id.
//   white.go  white-box: operation sequences on a real tubes.Muxer (Create*Tube, raw frames into its receiver,
//             Accept, forced close + reaping, reads) vs Model/Mux.v, with the isolation / identifier /
//             accept-once oracle
//   net.go    black-box: two real muxers over the scheduling in-memory MsgConn pair; concurrent tube creation
//             from both sides, per-tube streams and messages, identifier reuse with held-back datagrams
//   roles.go  which end of a session picks which identifiers: a real hopclient<->hopserver session (roles observed,
//             two-ended concurrent creation), bare muxer pairs with the roles the application chose, and the
//             same-role collision witness
package main

import (
	"os"

	"verifharness/hv"
)

func main() {
	defer hv.Flush()
	r := hv.NewRand(hv.Seed())
	only := os.Getenv("C09_ONLY") // debugging aid: "net" or "white"
	if only != "net" && only != "roles" {
		genWhite(r)
	}
	if only != "white" && only != "roles" {
		genNet(r)
	}
	if only == "" || only == "roles" {
		genRoles(r)
	}
}
