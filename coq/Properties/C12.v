(* C12 — Kravatte-SANSE AEAD: correct, tamper-evident, sensitive to the whole key.
   The SANSE theorems hold for EVERY deck function: any type D of histories with any absorb and output
   functions (first group), or any F : list bitstr -> nat -> bytes on explicit histories (tamper
   group); the executed Kravatte instance is tied to the latter by c12_executed_instance_is_deck_sanse.
   "Equals the specification": Model/Kravatte.v + Model/Sanse.v reproduce the published XKCP transcripts
   inside Coq (Proofs/KravatteVectors.v), and the Go code agrees with the model on every ./check C12. *)
From Hop Require Import Base Keccak Kravatte Sanse SanseProofs KravatteProofs MaskProofs KravatteVectors.
Open Scope N_scope.

(* ---- open o seal, whole sessions, every deck function that returns as many bytes as asked ---- *)
Theorem c12_unwrap_wrap : forall D absorb out s a p c t s',
  sn_wrap D absorb out s a p = (c, t, s') -> sn_unwrap D absorb out s a c t = (Some p, s').
Proof. exact unwrap_wrap. Qed.
Print Assumptions c12_unwrap_wrap.

Theorem c12_open_seal : forall D absorb out,
  (forall d n, List.length (out d n) = n) ->
  forall s a p ct s', sn_seal D absorb out s a p = (ct, s') -> sn_open D absorb out s a ct = (Some p, s').
Proof. exact open_seal. Qed.
Print Assumptions c12_open_seal.

(* multi-message sessions: the receiver, starting in the sender's state and opening the ciphertexts in
   order with the same associated data, gets every plaintext back and ends in the sender's state *)
Theorem c12_open_seal_session : forall D absorb out,
  (forall d n, List.length (out d n) = n) ->
  forall msgs s cts s',
    sn_seal_all D absorb out s msgs = (cts, s') ->
    sn_open_all D absorb out s (combine (map fst msgs) cts) = (map (fun m => Some (snd m)) msgs, s').
Proof. exact open_all_seal_all. Qed.
Print Assumptions c12_open_seal_session.

Theorem c12_seal_length : forall D absorb out,
  (forall d n, List.length (out d n) = n) ->
  forall s a p, List.length (fst (sn_seal D absorb out s a p)) = (List.length p + 32)%nat.
Proof. exact seal_length. Qed.
Print Assumptions c12_seal_length.

(* the hypothesis holds for Kravatte over any permutation p *)
Theorem c12_kravatte_returns_n_bytes : forall p s n, List.length (kv_out p s n) = n.
Proof. exact kv_out_length. Qed.
Print Assumptions c12_kravatte_returns_n_bytes.

(* ---- what acceptance means: ALL 32 tag bytes equal the deck function on the new history ---- *)
Theorem c12_open_checks_all_tag_bits : forall D absorb out s a c t,
  (exists p, fst (sn_unwrap D absorb out s a c t) = Some p) <->
  t = out (sn_d (snd (sn_unwrap D absorb out s a c t))) 32%nat.
Proof. exact unwrap_accepts_iff. Qed.
Print Assumptions c12_open_checks_all_tag_bits.

(* a tag that agrees with the right one on its first 16 bytes only is rejected: a comparison truncated
   to 16 bytes is not this function (toy deck function: all-zero output) *)
Example c12_sixteen_matching_tag_bytes_are_not_enough :
  let out := fun (_ : list bitstr) n => repeat 0 n in
  let t := repeat 0 16 ++ repeat 1 16 in
  firstn 16 t = firstn 16 (out [] 32%nat) /\
  fst (sn_unwrap (list bitstr) (fun h m => m :: h) out (mksn [] false) [7] [9] t) = None.
Proof. vm_compute. split; reflexivity. Qed.

(* ---- tamper evidence: any change of ciphertext or associated data under a fixed tag is rejected,
        given that the tag does not collide on the two histories (named idealisation) ---- *)
Theorem c12_reject_if_ct_or_ad_changed_under_tag_inj : forall (F : list bitstr -> nat -> bytes),
  (forall h1 h2, F h1 32%nat = F h2 32%nat -> h1 = h2) ->
  forall s a c t a' c',
    (exists p, fst (sn_unwrap (list bitstr) (fun h m => m :: h) F s a c t) = Some p) ->
    (a', c') <> (a, c) ->
    fst (sn_unwrap (list bitstr) (fun h m => m :: h) F s a' c' t) = None.
Proof. exact reject_if_changed_under_tag_inj. Qed.
Print Assumptions c12_reject_if_ct_or_ad_changed_under_tag_inj.

(* the same with the idealisation reduced to the two histories actually involved *)
Theorem c12_reject_if_ct_or_ad_changed_unless_tags_collide : forall (F : list bitstr -> nat -> bytes) s a c t a' c',
  (exists p, fst (sn_unwrap (list bitstr) (fun h m => m :: h) F s a c t) = Some p) ->
  (a', c') <> (a, c) ->
  (F (hist_after F s a c t) 32%nat = F (hist_after F s a' c' t) 32%nat ->
   hist_after F s a c t = hist_after F s a' c' t) ->
  fst (sn_unwrap (list bitstr) (fun h m => m :: h) F s a' c' t) = None.
Proof. exact reject_if_changed. Qed.
Print Assumptions c12_reject_if_ct_or_ad_changed_unless_tags_collide.

(* the instance that is executed (deck state updated in place) IS Deck-SANSE over a deck function on
   histories, so the two theorems above speak about it *)
Theorem c12_executed_instance_is_deck_sanse : forall k s a ct,
  sanse6_open (lift kv_state kv6_absorb (mkkv k k zero_lanes) s) a ct =
  let '(r, s') := sn_open (list bitstr) (fun h m => m :: h) (kravatte6_go k) s a ct in
  (r, lift kv_state kv6_absorb (mkkv k k zero_lanes) s').
Proof. exact executed_instance_is_deck_sanse. Qed.
Print Assumptions c12_executed_instance_is_deck_sanse.

(* concrete instance on the executed Kravatte: the XKCP message is accepted, and the same message with
   one ciphertext bit, one associated-data bit, or one tag bit (in the SECOND half of the tag) flipped
   is rejected *)
Definition flip0 (l : bytes) (i : nat) : bytes := firstn i l ++ [N.lxor (nth i l 0) 1] ++ skipn (S i) l.
Example c12_tamper_nonvacuous :
  match sanse6_new ks_key with
  | Ok s => fst (sanse6_unwrap s ks_ad ks_ct ks_tag) = Some ks_pt /\
            fst (sanse6_unwrap s ks_ad (flip0 ks_ct 300) ks_tag) = None /\
            fst (sanse6_unwrap s (flip0 ks_ad 0) ks_ct ks_tag) = None /\
            fst (sanse6_unwrap s ks_ad ks_ct (flip0 ks_tag 31)) = None
  | _ => False
  end.
Proof. vm_compute. repeat split; reflexivity. Qed.

(* ---- the whole key matters ---- *)
Theorem c12_pad_injective : forall k1 k2,
  (List.length k1 < 200)%nat -> (List.length k2 < 200)%nat -> kv_pad_key k1 = kv_pad_key k2 -> k1 = k2.
Proof. exact pad_key_injective. Qed.
Print Assumptions c12_pad_injective.

Theorem c12_mask_injective_under_perm_inj : forall (p : lanes -> lanes),
  (forall a b, p a = p b -> a = b) ->
  forall k1 k2, (List.length k1 < 200)%nat -> (List.length k2 < 200)%nat ->
                wf_bytes k1 = true -> wf_bytes k2 = true ->
                kv_k (kv_init p k1) = kv_k (kv_init p k2) -> k1 = k2.
Proof. exact mask_injective. Qed.
Print Assumptions c12_mask_injective_under_perm_inj.

(* The Go mask derivation (RefMaskInitialize: snp.StateSetBytes of the key into a zero state,
   snp.StateSetByte(1, len(key)) as fixed, permutation), transcribed on uint64 lanes with masks and
   shifts, IS the specification's k = p(K || 1 || 0..0) for EVERY well-formed key of 1..199 bytes
   (byte -> lane packing proved at the bit level; the permutation is the same function on both sides). *)
Theorem c12_go_mask_is_spec_all_keys : forall k,
  k <> [] -> (List.length k < 200)%nat -> wf_bytes k = true ->
  go_mask_init k = Ok (kv_k (kv6_init k)).
Proof. exact go_mask_init_is_spec. Qed.
Print Assumptions c12_go_mask_is_spec_all_keys.

(* hence the Go derivation itself never maps two different keys to the same mask (Keccak-p injective) *)
Theorem c12_go_mask_injective_under_keccak6_inj :
  (forall a b, keccak6 a = keccak6 b -> a = b) ->
  forall k1 k2, k1 <> [] -> k2 <> [] -> (List.length k1 < 200)%nat -> (List.length k2 < 200)%nat ->
                wf_bytes k1 = true -> wf_bytes k2 = true ->
                go_mask_init k1 = go_mask_init k2 -> k1 = k2.
Proof. exact go_mask_injective. Qed.
Print Assumptions c12_go_mask_injective_under_keccak6_inj.

(* the Go mask derivation (RefMaskInitialize + snp.StateSetBytes/StateSetByte, as fixed) equals the
   specification's for every key length 1..199 (one key per length, evaluated) *)
Theorem c12_go_mask_matches_spec_lengths_1_199 :
  forallb (fun l => res_lanes_eqb (go_mask_init (test_key l)) (kv_k (kv6_init (test_key l)))) (seq 1 199) = true.
Proof. exact go_mask_init_matches_spec_all_lengths. Qed.
Print Assumptions c12_go_mask_matches_spec_lengths_1_199.

(* the code BEFORE "fix: snp.StateSetByte ..." violated the property: two 17-byte keys differing in
   their last byte had the same mask (hence identical ciphertexts) — kept as a witness *)
Theorem c12_orig_mask_not_injective_refuted :
  exists k1 k2, List.length k1 = 17%nat /\ List.length k2 = 17%nat /\ k1 <> k2 /\
                go_mask_init_orig k1 = go_mask_init_orig k2.
Proof. exact go_mask_init_orig_not_injective. Qed.
Print Assumptions c12_orig_mask_not_injective_refuted.

(* ---- anchors: the published XKCP transcripts on the Gallina model ---- *)
Theorem c12_xkcp_kravatte_transcript :
  kravatte_F keccak6 kk_key [kk_m3; kk_m2; kk_m1] 16 = hex "569bd92b206a97972f18b8b399384d14".
Proof. exact kk_F_20. Qed.
Print Assumptions c12_xkcp_kravatte_transcript.
Theorem c12_xkcp_sanse_transcript :
  match ks_run with Some (c, t, _) => c = ks_ct /\ t = ks_tag | None => False end.
Proof. exact ks_wrap_ciphertext_and_tag. Qed.
Print Assumptions c12_xkcp_sanse_transcript.

(* a three-message session on the executed Kravatte instance satisfies c12_open_seal_session's premise
   and conclusion (empty plaintext, empty AD and a 201-byte plaintext included) *)
Example c12_session_nonvacuous :
  match sanse6_new (repeat 5 17%nat) with
  | Ok s =>
      let msgs := [([1; 2], repeat 3 201%nat); ([], []); ([9], [4; 5; 6])] in
      let (cts, s') := sn_seal_all kv_state kv6_absorb kv6_out s msgs in
      sn_open_all kv_state kv6_absorb kv6_out s (combine (map fst msgs) cts) = (map (fun m => Some (snd m)) msgs, s')
      /\ map (@List.length N) cts = [233; 32; 35]%nat
  | _ => False
  end.
Proof. vm_compute. split; reflexivity. Qed.
