(* TubesFloat.v — IEEE-754 binary64 arithmetic on positive normal numbers, in Gallina over Z, for the float64
   congestion window of tubes/sender.go (cwndSize).  Only what that code needs: +, *, / with
   round-to-nearest-even, comparison, conversion from/to integers.  A value is m * 2^e with 2^52 <= m < 2^53.
   No zero, negatives, subnormals, infinities or NaN: cwndSize stays within [5, 2^16) in every history the
   driver generates (the operations are x+1, x+1/x, x/2, 3*x/4, clamped below at 10).
   Definitions only; checked against the hardware on every run through the correspondence (windowSize and
   ssThresh observations of the real sender). *)
From Coq Require Import ZArith NArith Bool.
Open Scope Z_scope.

Definition fl := (Z * Z)%type.

Definition fl_round (m e : Z) : fl :=
  let b := Z.log2 m + 1 in
  if b <=? 53 then (m * 2 ^ (53 - b), e - (53 - b))
  else
    let sh := b - 53 in
    let q := m / 2 ^ sh in
    let r := m mod 2 ^ sh in
    let half := 2 ^ (sh - 1) in
    let q' := if (half <? r) || ((r =? half) && Z.odd q) then q + 1 else q in
    if q' =? 2 ^ 53 then (2 ^ 52, e + sh + 1) else (q', e + sh).

Definition fl_of_Z (n : Z) : fl := fl_round n 0.

Definition fl_add (x y : fl) : fl :=
  let '(m1, e1) := x in let '(m2, e2) := y in
  let e := Z.min e1 e2 in
  fl_round (m1 * 2 ^ (e1 - e) + m2 * 2 ^ (e2 - e)) e.

Definition fl_mul (x y : fl) : fl :=
  let '(m1, e1) := x in let '(m2, e2) := y in fl_round (m1 * m2) (e1 + e2).

Definition fl_div (x y : fl) : fl :=
  let '(m1, e1) := x in let '(m2, e2) := y in
  let k := 64 in
  let num := m1 * 2 ^ k in
  let q := num / m2 in
  let sticky := if num mod m2 =? 0 then 0 else 1 in
  fl_round (2 * q + sticky) (e1 - e2 - k - 1).

Definition fl_ltb (x y : fl) : bool :=
  let '(m1, e1) := x in let '(m2, e2) := y in
  let e := Z.min e1 e2 in
  m1 * 2 ^ (e1 - e) <? m2 * 2 ^ (e2 - e).

(* Go's conversion of a positive float64 to an integer type: truncation *)
Definition fl_trunc (x : fl) : Z :=
  let '(m, e) := x in if 0 <=? e then m * 2 ^ e else m / 2 ^ (- e).
