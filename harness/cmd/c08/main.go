// c08: reliable tubes deliver the written byte stream in order, intact and complete.
//   recv.go  white-box: frame sequences into the real tubes.receiver vs Model/Recv.v
//   send.go  white-box: operation sequences on the sender of a real tubes.Reliable vs Model/Send.v
//   sendone.go white-box: call sequences on the real Reliable.sendOneFrame (acknowledgement suppression) vs Model/SendOne.v
//   net.go   black-box: two real muxers over a scheduling in-memory MsgConn pair with seeded faults
package main

import (
	"os"

	"verifharness/hv"
)

func main() {
	defer hv.Flush()
	r := hv.NewRand(hv.Seed())
	only := os.Getenv("C08_ONLY") // debugging aid: "net" or "white"
	if only != "net" && only != "sendone" {
		genUnwrap(r)
		genRecv(r)
		genSend(r)
	}
	if only != "net" {
		genSendOne(r)
		genWindowWrap(r)
	}
	if only != "white" && only != "sendone" {
		genNet(r)
	}
}
