package hsx

import (
	"crypto/rand"
	"encoding/binary"
	"fmt"
	"net"
	"time"

	"hop.computer/hop/keys"
	"hop.computer/hop/transport"
	"verifharness/hv"
)

// BuildHiddenRequest writes a hidden-mode request from the layout and schedule of
// handshake_spec.md with a real Cyclist, for any timestamp and any server KEM key.
func BuildHiddenRequest(serverKEM *keys.KEMPublicKey, cli *Ident, ts int64) []byte {
	req, _ := BuildHiddenRequestK(serverKEM, cli, ts)
	return req
}

// BuildHiddenRequestK also returns the client's view of a response ciphertext (decapsulation
// with the ephemeral KEM key of the request).
func BuildHiddenRequestK(serverKEM *keys.KEMPublicKey, cli *Ident, ts int64) ([]byte, func(ct []byte) []byte) {
	return BuildHiddenRequestU(serverKEM, cli, uint64(ts))
}

// BuildHiddenRequestU: the timestamp field is any 64-bit value (the wire field is unsigned).
func BuildHiddenRequestU(serverKEM *keys.KEMPublicKey, cli *Ident, ts uint64) ([]byte, func(ct []byte) []byte) {
	sh := &Shadow{Fps: [][]byte{nil}}
	sh.Reset()
	sh.Absorb([]byte(PQHiddenName))
	sh.Rekey(PQHiddenName)
	leaf, _ := cli.Leaf.Marshal()
	var inter []byte
	if cli.Inter != nil {
		inter, _ = cli.Inter.Marshal()
	}
	ecl := 4 + len(leaf) + len(inter)
	eph := must(keys.GenerateKEMKeyPair(rand.Reader))
	kpub, _ := eph.Public.MarshalBinary()
	ct, k, err := keys.Encapsulate(rand.Reader, serverKEM)
	if err != nil {
		panic(err)
	}
	hdr := []byte{8, 1, byte(ecl >> 8), byte(ecl)}
	sh.Absorb(hdr)
	sh.Absorb(kpub)
	sh.Absorb(k)
	ec := sh.Encrypt(vectors(leaf, inter))
	tag := sh.Squeeze(16)
	tb := make([]byte, 8)
	binary.BigEndian.PutUint64(tb, ts)
	ets := sh.Encrypt(tb)
	mac := sh.Squeeze(16)
	out := append([]byte(nil), hdr...)
	out = append(out, kpub...)
	out = append(out, ct...)
	out = append(out, ec...)
	out = append(out, tag...)
	out = append(out, ets...)
	return append(out, mac...), func(c []byte) []byte { k, _ := eph.Decapsulate(c); return k }
}

// C19Discoverable: client hellos never allocate state; a ClientAck is accepted only with a cookie
// minted under the current key for the same source address and client KEM key.
func (w *World) C19Discoverable(r *hv.Rand) {
	cv := w.P.Verify(PolStore, "", nil, false)
	ccfg := w.Cli.ClientConfig(w.P.Verify(PolStore, w.SrvName, nil, false))
	srv := NewSrv(SingleConfig(w.Srv, cv, false))
	q := NewSeq(srv, []*Ident{w.Srv}, false)
	ok, sig, what := true, "", ""
	fail := func(s, m string) {
		if ok {
			ok, sig, what = false, s, m
		}
	}
	// --- hellos from many addresses (and many from one): tables stay empty
	n := hv.Scale(24, 400)
	var hello []byte
	for i := 0; i < n; i++ {
		hs, err := transport.VerifHsNewClientHS(&ccfg, srv.Addr, false)
		if err != nil {
			panic(err)
		}
		buf := make([]byte, 1000)
		m, _ := transport.VerifHsWritePQClientHello(hs, buf)
		hello = append([]byte(nil), buf[:m]...)
		a := Addr(fmt.Sprintf("10.1.%d.%d", i/250, i%250+1), 4000+i)
		if i%4 == 3 {
			a = Addr("10.1.9.9", 4999)
		}
		out, _ := q.Step(a, hello, "ClientHello", nil)
		if len(out) != 1 {
			fail("C19:honest-hello-unanswered", "a well-formed ClientHello got no ServerHello")
		}
		if h, s, p := srv.S.VerifHsTables(); h+s+p != 0 {
			fail("C19:client-hello-allocates-state", fmt.Sprintf("after %d ClientHellos the server tables hold %d handshakes, %d sessions, %d pending", i+1, h, s, p))
		}
	}
	q.Base(hello)
	for i := 0; i < 10; i++ { // the same hello again and again
		q.Step(Addr("10.1.9.9", 4999), hello, "ClientHello-repeat", nil)
	}
	if h, s, p := srv.S.VerifHsTables(); h+s+p != 0 {
		fail("C19:client-hello-allocates-state", "repeated ClientHellos allocated state")
	}
	// --- cookies presented from elsewhere
	type variant struct {
		name   string
		from   func(a *net.UDPAddr) *net.UDPAddr
		mutate func(w2 *WB) []byte
		rotate bool
		accept bool
	}
	other := must(keys.GenerateKEMKeyPair(rand.Reader))
	okpub, _ := other.Public.MarshalBinary()
	same := func(a *net.UDPAddr) *net.UDPAddr { return a }
	vs := []variant{
		{"another port", func(a *net.UDPAddr) *net.UDPAddr { return Addr(a.IP.String(), a.Port+1) }, nil, false, false},
		{"another ip", func(a *net.UDPAddr) *net.UDPAddr { return Addr("10.7.7.7", a.Port) }, nil, false, false},
		{"another ip and port", func(a *net.UDPAddr) *net.UDPAddr { return Addr("10.7.7.8", a.Port+7) }, nil, false, false},
		{"port differing only in the high byte", func(a *net.UDPAddr) *net.UDPAddr { return Addr(a.IP.String(), a.Port^0x100) }, nil, false, false},
		{"another client KEM key in the message", same, func(x *WB) []byte { m := append([]byte(nil), x.CAck...); copy(m[36:836], okpub); return m }, false, false},
		{"cookie of another handshake (other address)", same, nil, false, false},
		{"after cookie-key rotation", same, nil, true, false},
		{"cookie with its first bit flipped", same, func(x *WB) []byte { m := append([]byte(nil), x.CAck...); m[836] ^= 0x80; return m }, false, false},
		{"cookie with a bit of the sealed secret flipped", same, func(x *WB) []byte { m := append([]byte(nil), x.CAck...); m[836+17] ^= 0x04; return m }, false, false},
		{"cookie with a bit of its tag flipped", same, func(x *WB) []byte { m := append([]byte(nil), x.CAck...); m[836+40] ^= 0x01; return m }, false, false},
		{"cookie with its last bit flipped", same, func(x *WB) []byte { m := append([]byte(nil), x.CAck...); m[899] ^= 0x01; return m }, false, false},
		{"one bit of the client KEM key flipped (AD component)", same, func(x *WB) []byte { m := append([]byte(nil), x.CAck...); m[36+5] ^= 0x01; return m }, false, false},
		{"the neighbouring port below", func(a *net.UDPAddr) *net.UDPAddr { return Addr(a.IP.String(), a.Port-1) }, nil, false, false},
		{"the same port on a neighbouring ip", func(a *net.UDPAddr) *net.UDPAddr { return Addr("10.0.0.2", a.Port) }, nil, false, false},
		{"unchanged (control)", same, nil, false, true},
	}
	q.Emit("discoverable-hello-flood", fmt.Sprintf("%d ClientHellos from many addresses and repeated from one; table sizes after every step", n+10), ok, sig, what, true)
	for _, v := range vs {
		srv := NewSrv(SingleConfig(w.Srv, cv, false))
		q := NewSeq(srv, []*Ident{w.Srv}, false)
		del := func(from *net.UDPAddr, d []byte, what string) []Dgram { out, _ := q.Step(from, d, what, nil); return out }
		ok, sig, what := true, "", ""
		a := w.NextAddr()
		// run CH/SH white box without delivering the ClientAck
		x, err := newWBUntilAck(srv, del, ccfg, a)
		if err != nil {
			panic(err)
		}
		q.Base(x.CAck)
		msg := x.CAck
		if v.mutate != nil {
			msg = v.mutate(x)
		}
		if v.name == "cookie of another handshake (other address)" {
			y, err := newWBUntilAck(srv, del, ccfg, w.NextAddr())
			if err != nil {
				panic(err)
			}
			msg = append([]byte(nil), x.CAck...)
			copy(msg[836:900], y.CAck[836:900])
		}
		if v.rotate {
			q.Rotate()
		}
		h0, s0, _ := srv.S.VerifHsTables()
		out, _ := q.Step(v.from(a), msg, "ClientAck["+v.name+"]", nil)
		h1, s1, _ := srv.S.VerifHsTables()
		accepted := len(out) > 0 || h1 != h0 || s1 != s0
		if accepted && !v.accept {
			ok, sig, what = false, "C19:client-ack-accepted-with-foreign-cookie", "a ClientAck whose cookie was minted for a different source/key or under an older key, or was altered ("+v.name+"), was answered or allocated state"
		}
		if !accepted && v.accept {
			ok, sig, what = false, "C19:honest-client-ack-rejected", "an unchanged ClientAck from the address the cookie was minted for was rejected"
		}
		if !v.accept { // and the unchanged ClientAck from the right address still works afterwards
			if out, _ := q.Step(a, x.CAck, "ClientAck[unchanged, afterwards]", nil); ok && (len(out) > 0) == v.rotate {
				if v.rotate {
					ok, sig, what = false, "C19:client-ack-accepted-with-foreign-cookie", "after rotation even the unchanged ClientAck was answered"
				} else {
					ok, sig, what = false, "C19:honest-client-ack-rejected", "after a displaced ClientAck the unchanged one from the right address was rejected"
				}
			}
		}
		q.Emit("discoverable-cookie/"+v.name, "cookie presented: "+v.name, ok, sig, what, !v.accept)
	}
}

// newWBUntilAck: ClientHello delivered, ServerHello read, ClientAck written but NOT delivered.
func newWBUntilAck(srv *Srv, deliver Deliverer, cfg transport.ClientConfig, addr *net.UDPAddr) (*WB, error) {
	w := &WB{Srv: srv, Addr: addr, Cfg: cfg}
	hs, err := transport.VerifHsNewClientHS(&w.Cfg, srv.Addr, false)
	if err != nil {
		return nil, err
	}
	w.HS = hs
	buf := make([]byte, 65535)
	n, err := transport.VerifHsWritePQClientHello(hs, buf)
	if err != nil {
		return nil, err
	}
	w.CH = append([]byte(nil), buf[:n]...)
	if w.SH, err = one(deliver(addr, w.CH, "ClientHello"), "ClientHello"); err != nil {
		return nil, err
	}
	if _, err = transport.VerifHsReadPQServerHello(hs, w.SH); err != nil {
		return nil, err
	}
	hs.VerifHsRekey(PQName)
	if n, err = hs.VerifHsWritePQClientAck(buf); err != nil {
		return nil, err
	}
	w.CAck = append([]byte(nil), buf[:n]...)
	return w, nil
}

// C19Hidden: a hidden server is silent towards everything but a fresh well-formed request under
// one of its KEM keys.
func (w *World) C19Hidden(r *hv.Rand) {
	cv := w.P.Verify(PolStore, "", nil, false)
	// valid discoverable-mode messages, produced against a discoverable twin with the same identity
	twin := NewSrv(SingleConfig(w.Srv, cv, false))
	ccfg := w.Cli.ClientConfig(w.P.Verify(PolStore, w.SrvName, nil, false))
	tw, err := NewWB(twin, ccfg, w.NextAddr())
	if err != nil {
		panic(err)
	}
	if err := tw.Auth(); err != nil {
		panic(err)
	}
	for _, cfg := range w.c10configs()[2:] {
		var srv *Srv
		var ids []*Ident
		var q *Seq
		ok, sig, what := true, "", ""
		fail := func(s, m string) {
			if ok {
				ok, sig, what = false, s, m
			}
		}
		begin := func() {
			srv, ids = cfg.mk()
			q = NewSeq(srv, ids, true)
			ok, sig, what = true, "", ""
		}
		silent := func(from *net.UDPAddr, d []byte, name string) {
			out, _ := q.Step(from, d, name, nil)
			if len(out) > 0 {
				fail("C19:hidden-server-answers-non-request", fmt.Sprintf("the hidden server sent %d datagram(s) in response to %s", len(out), name))
			}
		}
		// (1) everything that is not a hidden request
		begin()
		for _, b := range [][]byte{tw.CH, tw.CAck, tw.CAuth} {
			q.Base(b)
		}
		a := w.NextAddr()
		silent(a, tw.CH, "a valid ClientHello")
		silent(a, tw.CAck, "a valid ClientAck")
		silent(a, tw.CAuth, "a valid ClientAuth")
		silent(a, tw.SH, "a ServerHello")
		silent(a, tw.SA, "a ServerAuth")
		for _, j := range garbage(r)[:40] {
			silent(a, j, "garbage")
		}
		q.Emit("hidden-silence/"+cfg.name+"/non-requests", "hidden server probed with valid discoverable-mode messages and garbage", ok, sig, what, true)
		// (2) requests that must not be answered
		begin()
		now := time.Now().Unix()
		wrong := must(keys.GenerateKEMKeyPair(rand.Reader))
		silent(w.NextAddr(), BuildHiddenRequest(&wrong.Public, w.Cli, now), "a request under a KEM key that is not the server's")
		id := ids[len(ids)-1]
		for _, dt := range []int64{6, 7, 60, 3600, 1 << 33} {
			silent(w.NextAddr(), BuildHiddenRequest(&id.KEM.Public, w.Cli, time.Now().Unix()-dt), fmt.Sprintf("a stale request (timestamp %d s old)", dt))
		}
		for _, dt := range []int64{2, 60, 1 << 40} {
			silent(w.NextAddr(), BuildHiddenRequest(&id.KEM.Public, w.Cli, time.Now().Unix()+dt), fmt.Sprintf("a request from the future (+%d s)", dt))
		}
		silent(w.NextAddr(), BuildHiddenRequest(&id.KEM.Public, w.P.Untrusted("mallory"), time.Now().Unix()), "a well-formed request of a client the policy rejects")
		q.Emit("hidden-silence/"+cfg.name+"/bad-requests", "requests under a foreign KEM key, stale, from the future, from a client the policy rejects", ok, sig, what, true)
		// (3) fresh ones are answered (controls), each then re-sent changed
		for _, dt := range []int64{0, 1, 3} {
			begin()
			req, dec := BuildHiddenRequestK(&id.KEM.Public, w.Cli, time.Now().Unix()-dt)
			q.Base(req)
			out, _ := q.Step(w.NextAddr(), req, fmt.Sprintf("fresh request (%d s old)", dt), dec)
			if len(out) != 1 || len(out[0].Data) < 808 {
				fail("C19:fresh-hidden-request-unanswered", fmt.Sprintf("a fresh well-formed request (%d s old) was not answered", dt))
			}
			for _, off := range []int{0, 1, 2, 3, 4, 803, 804, 1571, 1572, len(req) - 41, len(req) - 25, len(req) - 24, len(req) - 17, len(req) - 16, len(req) - 1} {
				x := append([]byte(nil), req...)
				x[off] ^= 0x40
				silent(w.NextAddr(), x, fmt.Sprintf("an answered request with byte %d changed", off))
			}
			silent(w.NextAddr(), req[:len(req)-1], "an answered request cut by one byte")
			silent(w.NextAddr(), append(append([]byte(nil), req...), 0), "an answered request extended by one byte")
			q.Emit(fmt.Sprintf("hidden-silence/%s/fresh-%ds-and-changed-copies", cfg.name, dt), "a fresh request (answered) and the same request with one byte changed, cut, extended (silence)", ok, sig, what, true)
		}
	}
	// timestamp field set to boundary values in otherwise fully valid requests (right KEM key,
	// acceptable certificate, correct tag and MAC): the server may answer only if
	// 0 <= now - ts <= 5 in unbounded integer arithmetic, the field being an unsigned 64-bit number.
	// Then every answered one, and every one with a huge timestamp, again after the window.
	srv := NewSrv(SingleConfig(w.Srv, cv, true))
	q := NewSeq(srv, []*Ident{w.Srv}, true)
	ok, sig, what := true, "", ""
	fail := func(s, m string) {
		if ok {
			ok, sig, what = false, s, m
		}
	}
	type sent struct {
		req  []byte
		dec  func([]byte) []byte
		name string
	}
	var replay []sent
	for time.Now().Nanosecond() > 400_000_000 { // keep "now" fixed over the class
		time.Sleep(20 * time.Millisecond)
	}
	now := uint64(time.Now().Unix())
	type tsv struct {
		name string
		v    uint64
	}
	vals := []tsv{{"now", now}, {"now-4", now - 4}, {"now-5", now - 5}, {"now-6", now - 6}, {"now-3600", now - 3600}, {"0", 0}, {"1", 1},
		{"now+1", now + 1}, {"now+5", now + 5}, {"now+3600", now + 3600}, {"2^31", 1 << 31}, {"2^32", 1 << 32}, {"2^62", 1 << 62},
		{"2^63-1", 1<<63 - 1}, {"2^63", 1 << 63}, {"2^63+1", 1<<63 + 1}, {"2^63+now-1", 1<<63 + now - 1}, {"2^63+now", 1<<63 + now},
		{"2^63+now+1", 1<<63 + now + 1}, {"2^63+now+10", 1<<63 + now + 10}, {"2^64-now", -now}, {"2^64-6", ^uint64(5)}, {"2^64-1", ^uint64(0)}}
	for _, t := range vals {
		if uint64(time.Now().Unix()) != now {
			break // the clock ticked: the remaining values would be judged against another second
		}
		req, dec := BuildHiddenRequestU(&w.Srv.KEM.Public, w.Cli, t.v)
		if t.v <= now && now-t.v <= 5 || t.v >= 1<<62 {
			q.Base(req) // it will be presented a second time
		}
		out, _ := q.Step(w.NextAddr(), req, "valid request with timestamp field "+t.name, dec)
		may := t.v <= now && now-t.v <= 5
		answered := len(out) > 0
		if answered && !may {
			fail("C19:hidden-server-answers-stale-timestamp", fmt.Sprintf("a fully valid hidden request whose timestamp field is %s = %d was answered at time %d: now - ts is not in [0,5]", t.name, t.v, now))
		}
		if !answered && may {
			fail("C19:fresh-hidden-request-unanswered", fmt.Sprintf("a fresh request (timestamp %s) was not answered", t.name))
		}
		if answered || t.v >= 1<<62 {
			replay = append(replay, sent{req, dec, t.name})
		}
	}
	time.Sleep(time.Duration(hv.Scale(6200, 7500)) * time.Millisecond)
	for _, r := range replay {
		out, _ := q.Step(w.NextAddr(), r.req, "replayed after the window: timestamp field "+r.name, r.dec)
		if len(out) != 0 {
			fail("C19:hidden-server-answers-late-replay", "a request (timestamp field "+r.name+") replayed more than 5 s after it was first presented was answered")
		}
	}
	q.Emit("hidden-timestamp-boundaries-and-late-replay", fmt.Sprintf("%d fully valid hidden requests with boundary timestamp fields, then %d of them replayed after the window", len(vals), len(replay)), ok, sig, what, true)
}
