//go:build verif

package cyclist

// Add-only accessors for the C13 correspondence driver (mapped into the package with -overlay).

// VerifState returns the 200 state bytes, the phase (0 up, 1 down) and the mode (0 hash, 1 keyed).
func (c *Cyclist) VerifState() (state []byte, phase, mode int) {
	state = make([]byte, fB)
	c.stateCopyOut(state)
	return state, int(c.phase), int(c.mode)
}

// VerifRates returns rAbsorb and rSqueeze.
func (c *Cyclist) VerifRates() (int, int) { return c.rAbsorb, c.rSqueeze }

// VerifPermute applies the package's keccakF1600 (whichever implementation this build selected)
// to a 200-byte little-endian state.
func VerifPermute(in []byte) []byte {
	var c Cyclist
	c.stateAddBytes(in[:fB])
	keccakF1600(&c.s)
	out := make([]byte, fB)
	c.stateCopyOut(out)
	return out
}
