package hvxwire

import (
	"time"

	"hop.computer/hop/authgrants"
	"hop.computer/hop/certs"
)

// "Modify after parse": values of formats whose Go representation keeps state besides the fields
// (a parsed Certificate retains the bytes it was read from and their fingerprint) are obtained
// by DECODING, or are encoded once, and then have one field set to another value. The value
// space of C18's first clause includes such values: their encoding must be the encoding of the
// CURRENT fields, and unrepresentable fields must still be refused.

// CertEdit changes one field of a certificate in place.
type CertEdit struct {
	Name string
	Do   func(c *certs.Certificate)
}

// CertEdits: every encoded field set to another representable value, and to unrepresentable ones.
func CertEdits() []CertEdit {
	return []CertEdit{
		{"version", func(c *certs.Certificate) { c.Version++ }},
		{"type", func(c *certs.Certificate) { c.Type = certs.CertificateType(byte(c.Type) + 1) }},
		{"issued-at", func(c *certs.Certificate) { c.IssuedAt = time.Unix(c.IssuedAt.Unix()+3600, 0) }},
		{"expires-at", func(c *certs.Certificate) { c.ExpiresAt = time.Unix(c.ExpiresAt.Unix()+86400*365, 0) }},
		{"public-key", func(c *certs.Certificate) { c.PublicKey[0] ^= 0x55; c.PublicKey[31]++ }},
		{"parent", func(c *certs.Certificate) { c.Parent[7] ^= 0xff }},
		{"signature", func(c *certs.Certificate) { c.Signature[63]++ }},
		{"name-added", func(c *certs.Certificate) {
			c.IDChunk.Blocks = append(c.IDChunk.Blocks, certs.DNSName("added.example"))
		}},
		{"name-replaced", func(c *certs.Certificate) {
			c.IDChunk.Blocks = append([]certs.Name(nil), c.IDChunk.Blocks...)
			if len(c.IDChunk.Blocks) == 0 {
				c.IDChunk.Blocks = []certs.Name{{}}
			}
			c.IDChunk.Blocks[0] = certs.RawStringName("other")
		}},
		{"name-type", func(c *certs.Certificate) {
			c.IDChunk.Blocks = append([]certs.Name(nil), c.IDChunk.Blocks...)
			if len(c.IDChunk.Blocks) > 0 {
				c.IDChunk.Blocks[0].Type ^= 3
			} else {
				c.IDChunk.Blocks = []certs.Name{nameOf(3, 2)}
			}
		}},
		{"names-removed", func(c *certs.Certificate) { c.IDChunk.Blocks = nil }},
		{"name-252-bytes", func(c *certs.Certificate) { c.IDChunk.Blocks = []certs.Name{nameOf(252, 1)} }},
		{"name-253-bytes(unrepresentable)", func(c *certs.Certificate) { c.IDChunk.Blocks = []certs.Name{nameOf(253, 1)} }},
		{"chunk-513-bytes(unrepresentable)", func(c *certs.Certificate) { c.IDChunk = chunkOfBody(511) }},
		{"chunk-512-bytes", func(c *certs.Certificate) { c.IDChunk = chunkOfBody(510) }},
	}
}

// IntentEdit changes one field of an intent in place.
type IntentEdit struct {
	Name string
	Do   func(i *authgrants.Intent)
}

func IntentEdits() []IntentEdit {
	es := []IntentEdit{
		{"grant-type", func(i *authgrants.Intent) {
			if i.GrantType == authgrants.Command {
				i.GrantType = authgrants.Shell
			} else {
				i.GrantType = authgrants.Command
			}
		}},
		{"reserved", func(i *authgrants.Intent) { i.Reserved ^= 0x80 }},
		{"port", func(i *authgrants.Intent) { i.TargetPort += 1000 }},
		{"start", func(i *authgrants.Intent) { i.StartTime = time.Unix(i.StartTime.Unix()+60, 0) }},
		{"exp", func(i *authgrants.Intent) { i.ExpTime = time.Unix(i.ExpTime.Unix()+7200, 0) }},
		{"sni", func(i *authgrants.Intent) { i.TargetSNI = certs.DNSName("elsewhere.example") }},
		{"sni-253-bytes(unrepresentable)", func(i *authgrants.Intent) { i.TargetSNI = nameOf(253, 1) }},
		{"user", func(i *authgrants.Intent) { i.TargetUsername = "root" }},
		{"user-256-bytes(unrepresentable)", func(i *authgrants.Intent) { i.TargetUsername = string(pat(256, 'u')) }},
		{"command", func(i *authgrants.Intent) {
			i.GrantType = authgrants.Command
			i.AssociatedData.CommandGrantData.Cmd = "rm -rf /"
		}},
	}
	for _, ce := range CertEdits() {
		ce := ce
		es = append(es, IntentEdit{"delegate-cert." + ce.Name, func(i *authgrants.Intent) { ce.Do(&i.DelegateCert) }})
	}
	return es
}
