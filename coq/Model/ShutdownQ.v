(* ShutdownQ.v — the bounded sender queue of a Reliable tube and the tube lock r.l
   (tubes/reliable.go receive / send / Close / enterClosedState, tubes/sender.go sendEmptyPacket /
   sendFin, tubes/muxer.go sender / Stop's forced close).

   The tube's sender queue (sender.sendQueue, capacity [qcap], 1024 in the code) has ONE consumer,
   the goroutine Reliable.send, which also takes r.l in its ticker and window branches.  Its
   producers all hold r.l: the muxer receiver in Reliable.receive (sendEmptyPacket: one
   acknowledgement per data frame), Close (sendFin), Reliable.send itself (window branch).
   The muxer queues are unbuffered: handing a frame to the muxer is a rendezvous with Muxer.sender,
   which is busy while it is inside the transport write; the write blocks while the link is blocked
   ([qwblock]) and the transport is open, and fails once the transport is closed (Stop's forced
   close closes it first), after which Muxer.sender only drains.

   [qfixed = false]: the code before the fix (an enqueue under r.l waits for room);
   [qfixed = true]: the code as it is now (an enqueue under r.l never waits: a full queue drops the
   acknowledgement / leaves the frame to the retransmission timer).
   [qretx]: frames are unacknowledged (the ticker branch hands a retransmission to the muxer while
   holding r.l; Close's FIN is then not queued directly).
   Stop has begun: its forced-close timer is armed in the initial state.  Definitions only. *)
From Hop Require Import Base.
Open Scope nat_scope.

Record qcfg := mkQC { qcap : nat; qfixed : bool; qwblock : bool; qretx : bool }.

Inductive rpc := R_idle | R_lock | R_enq | R_done.                                   (* Muxer.receiver -> Reliable.receive *)
Inductive spc := S_sel | S_hand | S_tick_lock | S_tick | S_win_lock | S_win | S_done. (* Reliable.send *)
Inductive mpc := M_recv | M_write | M_drain.                                         (* Muxer.sender *)
Inductive cpc := C_lock | C_fin | C_wait | C_done.                                   (* closeTubeHelper: Close; WaitForClose *)
Inductive fpc := F_timer | F_lock | F_in | F_waitsd | F_done.                        (* forced close: timer, goroutine, enterClosedState *)

Record qst := mkQ {
  rp : rpc; sp : spc; mp : mpc; cp : cpc; fp : fpc;
  lk : bool;        (* r.l held *)
  ql : nat;         (* len(sender.sendQueue) *)
  qc : bool;        (* sender.Close(): sender.closed, queues closed *)
  tc : bool;        (* tubeState == closed *)
  rc : bool;        (* close(r.closed) *)
  xc : bool;        (* transport closed *)
  pn : bool         (* ghost: send on the closed queue / second close *)
}.

Inductive qact :=
| AArr     (* background: a data frame arrives (Muxer.receiver took it from the transport) *)
| ATick    (* background: the retransmission ticker is chosen by send's select *)
| AWin     (* background: windowOpen is chosen by send's select *)
| ARecv    (* the muxer receiver goroutine *)
| ASend    (* Reliable.send *)
| AMux     (* Muxer.sender: the transport write ends *)
| AClose   (* the caller of Close / WaitForClose *)
| AForce.  (* Stop's forced close *)

Definition is_bg (a : qact) : bool := match a with AArr | ATick | AWin => true | _ => false end.

(* s.sendQueue <- pkt while holding r.l: [None] = blocked *)
Definition enq (c : qcfg) (q : nat) : option nat :=
  if q <? qcap c then Some (S q) else if qfixed c then Some q else None.

Definition mux_ready (m : mpc) : bool := match m with M_write => false | _ => true end.
Definition mux_take (m : mpc) : mpc := match m with M_recv => M_write | _ => m end.

Definition qstep (c : qcfg) (x : qst) (a : qact) : option qst :=
  let '(mkQ r s m cl f l q qcl t rcl xcl p) := x in
  match a with
  | AArr => match r with R_idle => Some (mkQ R_lock s m cl f l q qcl t rcl xcl p) | _ => None end
  | ATick => match s with S_sel => Some (mkQ r S_tick_lock m cl f l q qcl t rcl xcl p) | _ => None end
  | AWin => match s with S_sel => Some (mkQ r S_win_lock m cl f l q qcl t rcl xcl p) | _ => None end
  | ARecv =>
    match r with
    | R_idle => if xcl then Some (mkQ R_done s m cl f l q qcl t rcl xcl p) else None   (* ReadMsg fails: receiver ends *)
    | R_lock => if l then None else Some (mkQ R_enq s m cl f true q qcl t rcl xcl p)    (* r.l.Lock() *)
    | R_enq =>                                                                         (* closed? sendEmptyPacket; Unlock *)
      if t || qcl then Some (mkQ R_idle s m cl f false q qcl t rcl xcl p)
      else match enq c q with
           | Some q' => Some (mkQ R_idle s m cl f false q' qcl t rcl xcl p)
           | None => None
           end
    | R_done => None
    end
  | ASend =>
    match s with
    | S_sel => match q with
               | S q' => Some (mkQ r S_hand m cl f l q' qcl t rcl xcl p)               (* pkt := <-sendQueue *)
               | O => if qcl then Some (mkQ r S_done m cl f l q qcl t rcl xcl p) else None  (* closed and drained: close(sendDone) *)
               end
    | S_hand => if mux_ready m then Some (mkQ r S_sel (mux_take m) cl f l q qcl t rcl xcl p) else None  (* r.sendQueue <- bytes *)
    | S_tick_lock => if l then None else Some (mkQ r S_tick m cl f true q qcl t rcl xcl p)
    | S_tick =>
      if qcl || negb (qretx c) then Some (mkQ r S_sel m cl f false q qcl t rcl xcl p)
      else if mux_ready m then Some (mkQ r S_sel (mux_take m) cl f false q qcl t rcl xcl p)  (* r.prioritySendQueue <- rto frame, holding r.l *)
      else None
    | S_win_lock => if l then None else Some (mkQ r S_win m cl f true q qcl t rcl xcl p)
    | S_win =>
      if qcl then Some (mkQ r S_sel m cl f false q qcl t rcl xcl p)
      else match enq c q with
           | Some q' => Some (mkQ r S_sel m cl f false q' qcl t rcl xcl p)
           | None => None
           end
    | S_done => None
    end
  | AMux =>
    match m with
    | M_write => if xcl then Some (mkQ r s M_drain cl f l q qcl t rcl xcl p)            (* write error: drain from now on *)
                 else if qwblock c then None
                 else Some (mkQ r s M_recv cl f l q qcl t rcl xcl p)
    | _ => None
    end
  | AClose =>
    match cl with
    | C_lock => if l then None
                else if t then Some (mkQ r s m C_wait f l q qcl t rcl xcl p)            (* io.EOF *)
                else Some (mkQ r s m C_fin f true q qcl t rcl xcl p)
    | C_fin =>                                                                         (* sender.sendFin; Unlock *)
      if qretx c then Some (mkQ r s m C_wait f false q qcl t rcl xcl p)
      else if qcl then Some (mkQ r s m C_wait f false q qcl t rcl xcl true)
      else match enq c q with
           | Some q' => Some (mkQ r s m C_wait f false q' qcl t rcl xcl p)
           | None => None
           end
    | C_wait => if rcl then Some (mkQ r s m C_done f l q qcl t rcl xcl p) else None     (* <-r.closed *)
    | C_done => None
    end
  | AForce =>
    match f with
    | F_timer => Some (mkQ r s m cl F_lock l q qcl t rcl true p)                        (* underlying.Close(); go func *)
    | F_lock => if l then None else Some (mkQ r s m cl F_in true q qcl t rcl xcl p)
    | F_in => if t then Some (mkQ r s m cl F_done false q qcl t rcl xcl p)
              else Some (mkQ r s m cl F_waitsd false q true true rcl xcl (p || qcl))    (* ecs1: closed, sender.Close(), Unlock *)
    | F_waitsd => match s with
                  | S_done => if l then None else Some (mkQ r s m cl F_done l q qcl t true xcl (p || rcl))  (* <-sendDone; Lock; close(r.closed); Unlock *)
                  | _ => None
                  end
    | F_done => None
    end
  end.

Fixpoint qrun (c : qcfg) (x : qst) (l : list qact) : option qst :=
  match l with
  | [] => Some x
  | a :: l' => match qstep c x a with Some x' => qrun c x' l' | None => None end
  end.

(* an established tube, Reliable.send running, Close called, Stop's forced-close timer armed;
   [mw]: Muxer.sender is inside a transport write *)
Definition qinit (mw : bool) : qst :=
  mkQ R_idle S_sel (if mw then M_write else M_recv) C_lock F_timer false 0 false false false false false.

Definition qreach (c : qcfg) (x : qst) : Prop := exists mw l, qrun c (qinit mw) l = Some x.

(* no transition other than the background events is enabled *)
Definition qquiet (c : qcfg) (x : qst) : Prop := forall a, is_bg a = false -> qstep c x a = None.
(* nothing at all can move *)
Definition qdead (c : qcfg) (x : qst) : Prop := forall a, qstep c x a = None.

(* every call returned, every goroutine but the draining muxer sender ended, tube closed and signalled *)
Definition qfinal (x : qst) : Prop :=
  cp x = C_done /\ fp x = F_done /\ sp x = S_done /\ rp x = R_done /\ tc x = true /\ rc x = true /\ ql x = 0.
