(* Correspondence entry points for the receive-loop model (Model/RecvLoop.v), C03 / C15 / C10 session part.
   c03l_ok : a whole event sequence on one endpoint whose REAL receive loop is running (Server.Serve goroutine
             with 1-3 sessions in the table, or Client.listen): datagrams of any type and length arriving at
             the socket (the model truncates to the receive buffer, classifies, dispatches), interleaved with
             the Handle calls of PacketCorr; after EVERY event the state projection of every session is
             compared, plus the buffer length the loop handed to ReadMsgUDP.
   c03k_ok : the Go package's size constants against the model's. *)
From Hop Require Import Base Replay Packet PacketSanse RecvLoop.
From Hop Require Export PacketCorr.
Open Scope N_scope.

Inductive lop :=
| LD (a : N) (pkt : bytes) (pad : N) (ki : N) (r : option bytes) (es : list hs_eff)
     (* the datagram pkt ++ (pad bytes 0xAA) arrives from address a.  r = Open(read key of session ki, d[:16], d[16:])
        on d = what the socket leaves in the buffer; es = the session-table effects of the handshake handler
        (oracle input; [] for every datagram the handshake handlers reject) *)
| LO (o : op).
     (* a Handle call on session index i (RM / RD / WM / WR / SD / CL of PacketCorr) *)

Definition raw_of (pkt : bytes) (pad : N) : bytes := pkt ++ repeat 170 (N.to_nat pad).

Definition ev_of_op (o : op) : option (N * ev) :=
  match o with
  | RM i n => Some (i, EvReadMsg n)
  | RD i n => Some (i, EvRead n)
  | WM i m _ _ => Some (i, EvSend mt_transport m)     (* after WriteMsg's size check: see lstep *)
  | WR i b _ _ => Some (i, EvWrite b)
  | SD i mt b _ _ => Some (i, EvSend mt b)
  | CL i => Some (i, EvClose)
  | I _ _ _ _ => None
  end.

Definition ob_of_eobs (e : ev) (o : eobs) (sn : list snap) : ob :=
  match o with
  | ObRd r => let '(c, d) := rd_ob r in Ob c 0 d [] sn
  | ObSent ds n err =>
    Ob (if err then 1 else 0) (match e with EvWrite _ => n | _ => 0 end) (map fst ds) (map snd ds) sn
  | ObNone => Ob 0 0 [] [] sn
  | ObIn oc => Ob (if outcome_err oc then 1 else 0) 0 [] [] sn
  | ObPanic => Ob 2 0 [] [] sn
  end.

Section LRun.
  Variable sealf : bytes -> bytes -> bytes -> bytes.
  Variable openf : bytes -> bytes -> bytes -> option bytes.

  (* the handshake handlers as an oracle: the effects recorded for this datagram *)
  Definition hs_const (es : list hs_eff) : unit -> list bytes -> addr -> bytes -> option (unit * list hs_eff) :=
    fun _ _ _ _ => Some (tt, es).

  (* server: the table in the order of the case's session list (sessions created by a handshake are prepended) *)
  Definition lstep_srv (st : lsrv unit) (o : lop) : lsrv unit * ob :=
    match o with
    | LD a pkt pad _ _ es =>
      let st' := srv_step sealf openf max_plaintext_size unit (hs_const es) st (LDgram a (raw_of pkt pad)) in
      (st', Ob (if l_crashed unit st' then 2 else 0) recv_buf_len [] [] (map snap_of (l_tab unit st')))
    | LO op =>
      match ev_of_op op with
      | None => (st, Ob 9 0 [] [] [])
      | Some (i, e) =>
        let s := nth_sess (l_tab unit st) i in
        (* WriteMsg's own check, before send *)
        match op with
        | WM _ m _ _ =>
          if max_plaintext_size <? len m then (st, Ob 1 0 [] [] (map snap_of (l_tab unit st))) else
          let st' := srv_step sealf openf max_plaintext_size unit (hs_const []) st (LLocal (sid s) e) in
          (st', ob_of_eobs e (snd (ep_step sealf openf max_plaintext_size s e)) (map snap_of (l_tab unit st')))
        | _ =>
          let st' := srv_step sealf openf max_plaintext_size unit (hs_const []) st (LLocal (sid s) e) in
          (st', ob_of_eobs e (snd (ep_step sealf openf max_plaintext_size s e)) (map snap_of (l_tab unit st')))
        end
      end
    end.

  Fixpoint lrun_srv (st : lsrv unit) (ops : list lop) : list ob :=
    match ops with
    | [] => []
    | o :: r => let '(st', b) := lstep_srv st o in b :: lrun_srv st' r
    end.

  (* client: listen loop on its one session *)
  Definition chs_none : unit -> bytes -> unit + option sess := fun _ _ => inr None.
  Definition cli_sess (st : lcli unit) : list sess :=
    match st with COpen _ s => [s] | CCrash _ s => [s] | _ => [] end.
  Definition lstep_cli (st : lcli unit) (o : lop) : lcli unit * ob :=
    match o with
    | LD a pkt pad _ _ _ =>
      let st' := cli_step sealf openf max_plaintext_size unit chs_none st (LDgram a (raw_of pkt pad)) in
      (st', Ob (match st' with CCrash _ _ => 2 | _ => 0 end) recv_buf_len [] [] (map snap_of (cli_sess st')))
    | LO op =>
      match ev_of_op op, st with
      | Some (_, e), COpen _ s =>
        match op with
        | WM _ m _ _ =>
          if max_plaintext_size <? len m then (st, Ob 1 0 [] [] (map snap_of (cli_sess st))) else
          let st' := cli_step sealf openf max_plaintext_size unit chs_none st (LLocal (sid s) e) in
          (st', ob_of_eobs e (snd (ep_step sealf openf max_plaintext_size s e)) (map snap_of (cli_sess st')))
        | _ =>
          let st' := cli_step sealf openf max_plaintext_size unit chs_none st (LLocal (sid s) e) in
          (st', ob_of_eobs e (snd (ep_step sealf openf max_plaintext_size s e)) (map snap_of (cli_sess st')))
        end
      | _, _ => (st, Ob 9 0 [] [] [])
      end
    end.

  Fixpoint lrun_cli (st : lcli unit) (ops : list lop) : list ob :=
    match ops with
    | [] => []
    | o :: r => let '(st', b) := lstep_cli st o in b :: lrun_cli st' r
    end.
End LRun.

(* oracle tables of a loop case *)
Fixpoint lotbl_of (sv : list sess) (ops : list lop) : otbl :=
  match ops with
  | [] => []
  | LD _ pkt pad ki r _ :: rest =>
    let d := sock_read (raw_of pkt pad) in
    (key_recv_of sv ki, take 16 d, drop 16 d, r) :: lotbl_of sv rest
  | _ :: rest => lotbl_of sv rest
  end.
Fixpoint lops_ops (ops : list lop) : list op :=
  match ops with
  | [] => []
  | LO o :: rest => o :: lops_ops rest
  | _ :: rest => lops_ops rest
  end.

(* case: kind (0 server / 1 client), sessions, events, observations *)
Definition c03l_case := (N * list sess * list lop * list ob)%type.
Definition c03l_ok (c : c03l_case) : bool :=
  let '(kind, sv, ops, obs) := c in
  let sealf := seal_tbl (stbl_of sv (lops_ops ops)) in
  let openf := open_tbl (lotbl_of sv ops) in
  if kind =? 0
  then beq_list beq_ob (lrun_srv sealf openf (mkL unit tt sv false) ops) obs
  else beq_list beq_ob (lrun_cli sealf openf (COpen unit (nth_sess sv 0)) ops) obs.
Definition c15l_ok := c03l_ok.

(* the package's size constants:
   [MaxTotalPacketSize; MaxPlaintextSize; HeaderLen; SessionIDLen; CounterLen; MacLen; TagLen; AssociatedDataLen]
   and the buffer lengths the three loops were seen to pass to ReadMsgUDP (Serve, listen, Handshake) *)
Definition nonempty {A} (l : list A) : bool := match l with [] => false | _ => true end.
Definition c03k_ok (c : list N * list N) : bool :=
  let '(ks, bufs) := c in
  beq_list N.eqb ks [max_total_packet_size; max_plaintext_size; header_len; session_id_len; counter_len; mac_len;
                     tag_len; ad_len] &&
  (max_plaintext_size =? max_plaintext_size_formula) &&
  forallb (fun b => (b =? recv_buf_len) && (max_datagram_len <=? b)) bufs && nonempty bufs.

(* ---- concurrent writers (Model/SendConc.v) ---- *)
From Hop Require Import SendConc.
(* case: session, the send calls (type, message) of all goroutines, the order in which their datagrams appeared
   on the wire (indices into the calls), observed [(first 16 bytes, length, destination)] and the send counter
   afterwards.  The model runs the interleaving in which, for each datagram in wire order, its goroutine takes
   its three steps while the next one keeps trying to take the write lock (blocked: no-op). *)
Definition c03cw_case := (sess * list (N * bytes) * list N * (list (bytes * N * N) * N))%type.
Fixpoint cw_sched (order : list N) : list cev :=
  match order with
  | [] => []
  | i :: r =>
    let nxt := match r with j :: _ => [CT (N.to_nat j)] | [] => [] end in
    [CT (N.to_nat i)] ++ nxt ++ [CT (N.to_nat i)] ++ nxt ++ [CT (N.to_nat i)] ++ cw_sched r
  end.
Definition c03cw_ok (c : c03cw_case) : bool :=
  let '(s, calls, order, (pk, cnt)) := c in
  let st := crun dummy_seal (cinit s calls) (cw_sched order) in
  negb (c_panic st) && (count (c_ss st) =? cnt) &&
  beq_list (fun x y => let '(h1, l1, a1) := x in let '(h2, l2, a2) := y in beq_bytes h1 h2 && (l1 =? l2) && (a1 =? a2))
           (map (fun d => (take 16 (fst d), len (fst d), snd d)) (c_wire st)) pk &&
  forallb (fun i => match nth_error (c_thr st) (N.to_nat i) with
                    | Some t => match w_pc t with WDone false => true | _ => false end
                    | None => false end) order.
