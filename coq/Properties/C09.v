(* C09 — tubes are isolated from each other; identifiers; accept-once; whole unreliable messages.
   Theorems about Model/Mux.v (tubes/muxer.go, the receive entry points of reliable.go / unreliable.go).
   Proofs in Proofs/MuxProofs.v. *)
From Hop Require Import Base Recv Mux MuxProofs.
Open Scope N_scope.

(* ---- at most one live tube per (reliability, id), in every reachable state: for every history of creates,
   incoming frames (any bytes), accepts, closes, reaps and reads on a client or server muxer. *)
Theorem c09_live_ids_unique : forall (server : bool) (ops : list mop),
  let m := fst (mrun (mux_new server) ops) in
  NoDup (map t_id (m_reliable m)) /\ NoDup (map t_id (m_unreliable m)).
Proof. intros. pose proof (mrun_inv ops (mux_new server) (minv_new server)) as [A B _ _]. split; assumption. Qed.
Print Assumptions c09_live_ids_unique.

(* ---- identifiers handed out by Create*Tube (pickTubeID under the muxer lock): in every reachable state the
   returned id has the muxer's parity, is below 256, is not used by any live tube of that reliability, is the
   smallest such id, and the new tube is the only change to the maps; nothing is queued for Accept.
   Create fails only when all 128 ids of the parity are live (or the muxer is stopping). *)
Theorem c09_ids_distinct_parity : forall (server : bool) (ops : list mop) (rel : bool) (ty : N),
  let m := fst (mrun (mux_new server) ops) in
  match create_tube m rel ty with
  | Ok (m', id) =>
      id mod 2 = m_parity m /\ id < 256 /\ get_tube m rel id = None /\
      (forall x, x < id -> x mod 2 = m_parity m -> get_tube m rel x <> None) /\
      get_tube m' rel id = Some (new_tube rel id ty (m_epoch m)) /\
      (forall rel' id', (rel' <> rel \/ id' <> id) -> get_tube m' rel' id' = get_tube m rel' id') /\
      m_queue m' = m_queue m
  | _ => m_running m = true -> forall x, x < 256 -> x mod 2 = m_parity m -> get_tube m rel x <> None
  end.
Proof.
  intros. pose proof (mrun_inv ops (mux_new server) (minv_new server)) as I. fold m in I.
  destruct (create_tube m rel ty) as [[m' id]| |] eqn:C.
  - destruct (create_tube_spec _ _ _ _ _ I C) as (A & B & D & E & F & G & H & _). repeat split; assumption.
  - intros. eapply create_tube_err; eauto.
  - intros. exfalso. unfold create_tube in C. destruct (pick_tube_id m rel); [destruct (make_tube _ _ _ _ _) as [[? ?]|]|]; discriminate.
Qed.
Print Assumptions c09_ids_distinct_parity.

(* ---- demultiplexing: for every muxer state and every decoded frame,
   (1) no tube other than the one with the frame's (reliability, id) changes in any way;
   (2) if that tube is live it handles the frame (initiate handling for REQ/RESP, receive otherwise) and nothing
       is queued for Accept — in particular a repeated REQ for a live tube queues nothing;
   (3) if it is unknown: a REQ on a running muxer whose Accept queue is not full creates exactly one tube with the
       opener's reliability, id and type and queues exactly that tube once; any other frame — including a REQ
       that meets a full Accept queue (128 waiting tubes) — leaves the muxer COMPLETELY unchanged: a refused
       request registers nothing, so the opener's repeated REQ is treated as a first one again. *)
Theorem c09_demux_by_rel_id_accept_once : forall (m : mux) (f : mframe),
  (forall rel id, (rel <> mf_rel f \/ id <> mf_id f) -> get_tube (demux m f) rel id = get_tube m rel id) /\
  (forall t, get_tube m (mf_rel f) (mf_id f) = Some t ->
     get_tube (demux m f) (mf_rel f) (mf_id f) = Some (handled t f) /\ m_queue (demux m f) = m_queue m) /\
  (get_tube m (mf_rel f) (mf_id f) = None ->
     if mf_req f && m_running m && negb (queue_full m) then
       let t := new_tube (mf_rel f) (mf_id f) (mf_type f) (m_epoch m) in
       get_tube (demux m f) (mf_rel f) (mf_id f) = Some (handled t f) /\ m_queue (demux m f) = m_queue m ++ [t]
     else demux m f = m).
Proof. intros. destruct (demux_spec m f) as (A & B & C & _). auto. Qed.
Print Assumptions c09_demux_by_rel_id_accept_once.

(* ---- every live tube that the peer opened is, or was, offered: in every reachable state the Accept queue holds
   at most 128 tubes, and (c09_demux_by_rel_id_accept_once, case 3) a tube enters a map on a peer's REQ only
   together with its entry in the Accept queue — there is no reachable state with a remotely opened tube that
   was registered but never queued. *)
Theorem c09_accept_queue_bounded : forall (server : bool) (ops : list mop),
  (List.length (m_queue (fst (mrun (mux_new server) ops))) <= accept_queue_cap)%nat.
Proof. intros. apply (inv_queue _ (mrun_inv ops (mux_new server) (minv_new server))). Qed.
Print Assumptions c09_accept_queue_bounded.

(* ---- unreliable tubes: for any list of arriving frames each of which is the frame of some written message
   (in any order, with any duplication and omission), what is queued for the reader is a sequence of whole
   written messages — never a fragment, a merge or altered bytes.  (WriteMsgUDP refuses messages above
   MaxFrameDataLength; the tube's own FIN carries an empty payload and is outside the premise: scope decision 3
   of DESIGN.md.) *)
Theorem c09_unreliable_whole_messages : forall (written : list bytes) (frames : list mframe) (t : tube),
  t_rel t = false ->
  Forall (fun f => exists no msg, In msg written /\ unrel_frame (t_id t) no msg = Some f) frames ->
  exists delivered, t_msgs (fold_left tube_receive frames t) = t_msgs t ++ delivered /\
                    Forall (fun x => In x written) delivered.
Proof. exact unreliable_whole_messages. Qed.
Print Assumptions c09_unreliable_whole_messages.

Example c09_unreliable_example :
  let t := tube_receive_initiate (new_tube false 3 1 0) in
  let fr := fun no msg => {| mf_id := 3; mf_req := false; mf_resp := false; mf_rel := false; mf_ack := false;
                             mf_fin := false; mf_rtr := false; mf_ackno := 0; mf_no := no; mf_data := msg |} in
  unrel_frame 3 2 [5;6] = Some (fr 2 [5;6]) /\
  t_msgs (fold_left tube_receive [fr 2 [5;6]; fr 1 [4]; fr 2 [5;6]] t) = [[5;6]; [4]; [5;6]].
Proof. vm_compute. auto. Qed.

(* ---- isolation from EARLIER tubes with the same id does not hold (design-level: frames carry no instance
   epoch and every tube starts at frame number 1).  Witness: the peer opens reliable tube 1 (instance 0); the
   tube is closed and reaped; the peer opens tube 1 again (instance 1); a data frame that was sent to instance
   0 and delayed arrives now: it is handled by instance 1 and its bytes are handed to instance 1's reader. *)
Definition req1 (ty : N) : mframe :=
  {| mf_id := 1; mf_req := true; mf_resp := false; mf_rel := true; mf_ack := true; mf_fin := false; mf_rtr := false;
     mf_ackno := ty * 16777216; mf_no := 0; mf_data := [] |}.
Definition old_data : mframe :=
  {| mf_id := 1; mf_req := false; mf_resp := false; mf_rel := true; mf_ack := false; mf_fin := false; mf_rtr := false;
     mf_ackno := 0; mf_no := 1; mf_data := [79; 76; 68] |}.
Theorem c09_epoch_isolation_refuted :
  exists (before between : list mop) (f : mframe),
    let m0 := fst (mrun (mux_new true) before) in
    let m1 := fst (mrun m0 between) in
    handler_epoch m0 f = Some 0 /\           (* when f was sent, (rel,id) was instance 0 *)
    handler_epoch m1 f = Some 1 /\           (* when it arrives, instance 1 handles it *)
    snd (read_tube (demux m1 f) (mf_rel f) (mf_id f)) = mf_data f /\ mf_data f <> [].
Proof.
  exists [MFrame (req1 7); MAccept], [MClose true 1; MReap true 1; MFrame (req1 9); MAccept], old_data.
  vm_compute. repeat split; try reflexivity. discriminate.
Qed.
Print Assumptions c09_epoch_isolation_refuted.

(* same root cause: a delayed copy of a REQ that was already served (tube accepted, closed, reaped) creates a
   ghost tube and offers it to Accept a second time *)
Theorem c09_accept_once_across_reuse_refuted :
  exists (ops : list mop) (f : mframe),
    let m := fst (mrun (mux_new true) ops) in
    In (MFrame f) ops /\ m_queue m = [] /\ List.length (m_queue (demux m f)) = 1%nat.
Proof.
  exists [MFrame (req1 7); MAccept; MClose true 1; MReap true 1], (req1 7).
  vm_compute. repeat split; auto.
Qed.
Print Assumptions c09_accept_once_across_reuse_refuted.

(* ---- what does hold (partial): among LIVE tubes there is no cross-delivery — in every reachable state a frame
   changes at most the single live tube with its (reliability, id), whose instance is unambiguous because live
   ids are unique (c09_live_ids_unique); instances differ only across a close + reap of the same id. *)
Theorem c09_no_cross_tube_live_partial : forall (server : bool) (ops : list mop) (f : mframe) (rel : bool) (id : N),
  let m := fst (mrun (mux_new server) ops) in
  (rel <> mf_rel f \/ id <> mf_id f) -> get_tube (demux m f) rel id = get_tube m rel id.
Proof. intros. apply demux_spec. assumption. Qed.
Print Assumptions c09_no_cross_tube_live_partial.

(* ---- totality and locality of the muxer's receive step (also backs C11's clause "a bad frame for one tube
   never crashes the muxer or disturbs its other tubes").
   c09_demux_total: in ANY muxer state, for ANY decoded frame whose payload is at most 65523 bytes — all that the
   repaired fromBytes can produce from the muxer's 65535-byte read buffer — the receive step does not panic (the
   only slice expression on that path, fromInitiateBytes' b[10:10+dataLength] on the re-encoded frame with its
   uint16 addition, is in bounds), and it keeps every reachable state well-formed (unique live ids, bounded
   Accept queue).  The tube-level handlers it calls are total in the models: receiver.receive (Model/Recv.v) has
   no failing operation, and sender.recvAck returns an error instead of indexing an empty buffer (Model/Send.v,
   after group wire's repair). *)
Theorem c09_demux_total : forall (m : mux) (f : mframe),
  len (mf_data f) <= max_wire_payload ->
  demux_res m f = Ok (demux m f) /\ (MInv m -> MInv (demux m f)).
Proof. intros m f H. split. apply demux_total; auto. apply demux_spec. Qed.
Print Assumptions c09_demux_total.

(* the bound is what makes it total: a payload of 65530 bytes (which fromBytes cannot deliver) would wrap the
   uint16 addition and panic *)
Example c09_demux_res_can_panic :
  demux_res (mux_new true) {| mf_id := 1; mf_req := false; mf_resp := false; mf_rel := true; mf_ack := false;
                              mf_fin := false; mf_rtr := false; mf_ackno := 0; mf_no := 1;
                              mf_data := repeat 0 (N.to_nat 65530) |} = Panic.
Proof. vm_compute. reflexivity. Qed.

(* c09_demux_local: a frame addressed to (rel, id) leaves every other tube exactly as it was — same state, same
   receiver, same queued messages, same instance — and touches the Accept queue only by appending the one tube a
   REQ for an unknown (rel, id) creates.  So the muxer keeps serving its other tubes whatever arrives. *)
Theorem c09_demux_local : forall (m : mux) (f : mframe),
  (forall rel id, (rel <> mf_rel f \/ id <> mf_id f) -> get_tube (demux m f) rel id = get_tube m rel id) /\
  (m_queue (demux m f) = m_queue m \/
   exists t, m_queue (demux m f) = m_queue m ++ [t] /\ t_rel t = mf_rel f /\ t_id t = mf_id f /\
             get_tube m (mf_rel f) (mf_id f) = None /\ mf_req f = true).
Proof.
  intros m f. destruct (demux_spec m f) as (A & B & C & _). split; [exact A|].
  destruct (get_tube m (mf_rel f) (mf_id f)) as [t|] eqn:G.
  - left. apply (B t eq_refl).
  - specialize (C eq_refl). destruct (mf_req f && m_running m && negb (queue_full m)) eqn:E.
    + right. destruct C as [_ Q]. eexists. split; [exact Q|]. cbn. repeat split; auto;
      try (destruct (mf_req f); [reflexivity|discriminate]).
    + left. rewrite C. reflexivity.
Qed.
Print Assumptions c09_demux_local.

(* ---- the delay before a locally opened reliable tube's id is reused (property anchor "delayed reaping").
   The opener frees the id reap_delay = 4*RTT(opener) after its tube closed; the acceptor's old tube lives at most
   last_ack_duration = 4*RTT(acceptor) after it sent its FIN.  If the acceptor's estimate is not larger than the
   opener's — in particular when both still have the initial 333 ms — the predecessor is gone when the id can be
   handed out again, even if the opener's final ACK was lost.  (Changing either constant, or capping the reap
   delay below 4*333 ms, breaks this: driver classes mux-reap-delay and net-reopen-after-lost-final-ack.) *)
Theorem c09_reap_delay_covers_peer_lastack : forall ta tc rtt_acceptor rtt_opener : N,
  ta <= tc -> rtt_acceptor <= rtt_opener -> predecessor_gone_at_reuse ta tc rtt_acceptor rtt_opener.
Proof. exact reap_delay_covers. Qed.
Print Assumptions c09_reap_delay_covers_peer_lastack.

Example c09_reap_delay_initial_estimates : forall ta tc, ta <= tc ->
  predecessor_gone_at_reuse ta tc mux_initial_rtt mux_initial_rtt.
Proof. intros. apply reap_delay_covers; auto. apply N.le_refl. Qed.

(* a reap delay capped at one second would not cover the peer's 1.332 s *)
Example c09_reap_delay_capped_at_1s_too_short :
  ~ (0 + last_ack_duration mux_initial_rtt <= 0 + N.min (reap_delay mux_initial_rtt) 1000000000).
Proof. vm_compute. intros H. apply H. reflexivity. Qed.

(* ---- and it does NOT hold when the estimates differ the other way (open finding
   C09:id-reused-while-peer-in-lastack-asymmetric-rtt): the opener has measured the minimum RTT, the acceptor still
   has the initial estimate; 20 ms after closing the opener may reuse the id while the predecessor stays in
   lastAck for 1.332 s. *)
Theorem c09_reap_delay_asymmetric_refuted :
  exists ta tc rtt_acceptor rtt_opener : N, ta <= tc /\ mux_min_rtt <= rtt_opener /\
    ~ predecessor_gone_at_reuse ta tc rtt_acceptor rtt_opener.
Proof. exists 0, 0, mux_initial_rtt, mux_min_rtt. split; [apply N.le_refl|]. split; [apply N.le_refl|].
  vm_compute. intros H. apply H. reflexivity. Qed.
Print Assumptions c09_reap_delay_asymmetric_refuted.

(* ================================================================================================================
   The two ends of one session (Model/MuxPair.v, Proofs/MuxPairProofs.v).  A frame carries only (REL, id): the
   identifiers of a session are ONE space shared by its two muxers, so "concurrently created tubes get distinct
   identifiers" needs the two ends to pick from disjoint sets.  newMuxer gives tubes.Server parity 0 and
   tubes.Client parity 1; which constructor runs is the application's choice (hopclient.connectLocked,
   hopserver.newSession).  The original hopclient called tubes.Server: repaired ("fix: hopclient: run the client
   end of a session as the client muxer ..."), driver classes app-session-roles / app-session-concurrent-create. *)
From Hop Require Import MuxPair MuxPairProofs.

(* ---- every identifier that Create*Tube returns, anywhere in any history (creates, incoming frames with any
   content — hence any behaviour of the peer and of the network —, accepts, closes, reaps, reads), has the parity
   of the muxer's role and is below 256 *)
Theorem c09_created_ids_have_role_parity : forall (server : bool) (ops : list mop) (x : bool * N),
  In x (created_ids (mux_new server) ops) -> snd x mod 2 = (if server then 0 else 1) /\ snd x < 256.
Proof. intros server ops x H. apply (created_ids_parity ops _ (minv_new server) _ H). Qed.
Print Assumptions c09_created_ids_have_role_parity.

(* ---- two ends with different roles never hand out the same identifier: for ALL histories at the two ends
   (independent lists of operations: the frames each end receives are arbitrary, so this covers every
   interleaving of the two ends' creates — "concurrently" — and every network schedule) *)
Theorem c09_two_ends_distinct_roles_disjoint_ids : forall (sa sb : bool) (opsA opsB : list mop), sa <> sb ->
  forall x y, In x (created_ids (mux_new sa) opsA) -> In y (created_ids (mux_new sb) opsB) -> snd x <> snd y.
Proof. exact two_ends_disjoint. Qed.
Print Assumptions c09_two_ends_distinct_roles_disjoint_ids.

(* ---- instantiated with the roles the application code gives the two ends of a hop session *)
Theorem c09_hop_session_ends_disjoint_ids : forall (opsC opsS : list mop),
  forall x y, In x (created_ids hopclient_mux opsC) -> In y (created_ids hopserver_mux opsS) -> snd x <> snd y.
Proof. intros opsC opsS. apply two_ends_disjoint. discriminate. Qed.
Print Assumptions c09_hop_session_ends_disjoint_ids.

Example c09_two_ends_example :
  created_ids hopclient_mux [MCreate true 1; MFrame (req_frame true 0 2); MCreate true 1; MCreate false 6] = [(true, 1); (true, 3); (false, 1)] /\
  created_ids hopserver_mux [MCreate true 2; MFrame (req_frame true 1 1); MCreate true 2; MCreate false 3] = [(true, 0); (true, 2); (false, 0)].
Proof. vm_compute. auto. Qed.

(* ---- with the SAME role at both ends (the original hopclient.connectLocked ran tubes.Server against
   hopserver's tubes.Server) the statement fails on the first tube: both ends pick id 0 *)
Theorem c09_same_role_ids_collide_refuted :
  exists (opsC opsS : list mop) (x y : bool * N),
    In x (created_ids hopclient_original_mux opsC) /\ In y (created_ids hopserver_mux opsS) /\ x = y.
Proof. exists [MCreate true 7], [MCreate true 9], (true, 0), (true, 0). vm_compute. auto. Qed.
Print Assumptions c09_same_role_ids_collide_refuted.

(* ---- and the two tubes cross: when the client end's REQ (type 7) reaches the server end, the server end's OWN tube
   0 (type 9, waiting for the answer to its own REQ) takes it as that answer: nothing is offered to Accept, and
   the data the client end writes on its type-7 tube is handed to the reader of the server end's type-9 tube.
   With distinct roles the same history offers the client's tube to Accept and the server's own tube reads nothing. *)
Theorem c09_same_role_tubes_cross_refuted :
  same_time_create true true 7 9 [79; 78; 69] = Some (0, 0, false, [79; 78; 69]) /\
  same_time_create false true 7 9 [79; 78; 69] = Some (1, 0, true, []).
Proof. vm_compute. auto. Qed.
Print Assumptions c09_same_role_tubes_cross_refuted.
