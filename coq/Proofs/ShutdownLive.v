(* ShutdownLive.v — deadlock freedom of shutdown: in every reachable state in which Stop has begun
   (or a muxer read timeout is configured), if no progress transition is enabled then every call has
   returned, every goroutine has ended and the tube is closed. *)
From Hop Require Import Base ConcBase ConcUtil Shutdown ShutdownProofs ShutdownProofs2 ShutdownSpec.
From Coq Require Import Lia Arith.
Local Open Scope nat_scope.

Section Live.
Variable x : st.
Hypothesis HI : Inv (shd x).
Hypothesis Hq : quiescent x.

Let s := shd x.
Let Hnp : panic s = false. Proof. destruct HI as [HA _]. destruct HA; auto. Qed.

Ltac use a := let H := fresh "Q" in
  pose proof (Hq a eq_refl) as H; unfold step in H; fold s in H; rewrite Hnp in H.

(* the tube sender cannot be parked with a closed queue *)
Lemma live_sender : tq_closed s = true -> sp s <> S_run.
Proof.
  intros Hc Hs. use (ASendDrain true). rewrite Hs in Q. destruct (tq s); [rewrite Hc in Q|]; discriminate.
Qed.

Lemma live_not_pending : ecs_pending s = false.
Proof.
  destruct HI as [HA HP]. fold s in HA, HP. dA HA. destruct (ecs_pending s) eqn:Ep; auto. exfalso.
  destruct (J3 eq_refl) as (A & B & C).
  assert (Hsd : send_done s = true).
  { destruct (send_done s) eqn:E; auto. exfalso.
    pose proof (live_sender B) as Hs.
    destruct (sp s) eqn:Esp; try contradiction.
    - destruct (J13 eq_refl). congruence.
    - destruct J12 as [_ J12']. specialize (J12' eq_refl). discriminate. }
  assert (He : exists s1, ecs2 s = Some s1) by (unfold ecs2; rewrite Hsd; eauto).
  destruct He as [s1 He].
  unfold npend in HP. simpl in HP.
  destruct (mrp s) eqn:Em.
  all: try (use AMRecvStep; rewrite Em, He in Q; discriminate).
  all: destruct (fp s) eqn:Ef.
  all: try (use AForce; rewrite Ef, He in Q; discriminate).
  all: destruct (lp s) eqn:El; simpl in HP; try lia.
  all: assert (Hb : background x ALast = false) by (unfold background; fold s; rewrite El; reflexivity);
       pose proof (Hq ALast Hb) as Q; unfold step in Q; fold s in Q; rewrite Hnp, El, He in Q; discriminate.
Qed.

Lemma live_begun : cfg_timeout s = true -> running (ms s) = false.
Proof.
  intros Hc. destruct HI as [HA HP]. fold s in HA, HP. dA HA.
  destruct (running (ms s)) eqn:Er; auto. exfalso.
  assert (Hu : under_closed s = false) by (destruct (under_closed s) eqn:E; auto; specialize (J25 eq_refl); congruence).
  pose proof live_not_pending as Hnpend.
  destruct (mrp s) eqn:Em.
  - use AMRecvStep. rewrite Em in Q. destruct (ms s); discriminate.
  - use EReadTimeout. rewrite Em, Hc, Hu in Q. simpl in Q. destruct (ms s); discriminate.
  - unfold npend in HP. rewrite Em, Hnpend in HP. simpl in HP. lia.
  - destruct (J41 (or_introl eq_refl)) as [Hg|Hg]; [|congruence].
    destruct (g2 s) eqn:Eg; try contradiction.
    + use AG2. rewrite Eg in Q. simpl in Q. destruct (stop_begin s); discriminate.
    + specialize (J35 (or_introl eq_refl)). congruence.
    + specialize (J35 (or_intror eq_refl)). congruence.
  - simpl in J28. destruct (ms s); simpl in *; try discriminate. destruct (own s); simpl in *; discriminate.
Qed.

Theorem live_all_done : running (ms s) = false -> all_done x.
Proof.
  intros Hb. pose proof live_not_pending as Hnpend.
  destruct HI as [HA HP]. fold s in HA, HP. dA HA. unfold npend in HP. rewrite Hnpend in HP. simpl in HP.
  (* 1-3: the forced close has run, the tube is closed *)
  assert (Hfa : force_armed s = false).
  { destruct (force_armed s) eqn:E; auto. use TForceFire. rewrite E in Q. discriminate. }
  assert (Hfp : fp s = F_none \/ fp s = F_done).
  { destruct (fp s) eqn:Ef; auto.
    - use AForce. rewrite Ef in Q. destruct (ms s); discriminate.
    - use AForce. rewrite Ef in Q. destruct (ecs1 s); discriminate.
    - simpl in HP. lia. }
  assert (Hts : ts s = TClosed).
  { destruct (J23 Hb) as [H|[H|[H|H]]]; auto; try congruence; destruct Hfp; congruence. }
  assert (Hrc : r_closed s = true) by (destruct (J4 Hts); auto; congruence).
  (* 5: initiation goroutine *)
  assert (Hip : ip s = I_done).
  { destruct (ip s) eqn:Ei; auto; try contradiction.
    use AInit. rewrite Ei, Hrc in Q. discriminate. }
  assert (Hid : init_done s = true) by (apply J15; auto).
  (* 6: helper *)
  assert (Hhp : hp s = H_done).
  { destruct (hp s) eqn:Eh; auto.
    - simpl in J19. congruence.
    - use AHelper. rewrite Eh, Hid in Q. simpl in Q. destruct (do_close s) as [s1 r]. destruct (r =? 2)%N; discriminate.
    - use AHelper. rewrite Eh, Hrc in Q. discriminate.
    - use AHelper. rewrite Eh, Hid in Q. discriminate. }
  assert (Hwg : wgc s = 0) by (rewrite J20, Hhp; reflexivity).
  (* 7: the Stop owner *)
  assert (Hown : own s = O_done).
  { destruct (own s) eqn:Eo; auto.
    - simpl in J17. congruence.
    - use AOwner. unfold ostep in Q. rewrite Eo, Hwg in Q. discriminate.
    - use AOwner. unfold ostep in Q. rewrite Eo in Q. discriminate.
    - simpl in J22, J27. destruct (msp s) eqn:Em; try discriminate.
      + use AMSend. rewrite Em in Q. destruct (mq s); [rewrite J22 in Q|destruct (under_closed s)]; discriminate.
      + use AMSend. rewrite Em in Q. destruct (mq s); [rewrite J22 in Q|]; discriminate.
      + use AOwner. unfold ostep in Q. rewrite Eo, Em in Q. discriminate.
    - use AOwner. unfold ostep in Q. rewrite Eo in Q. discriminate.
    - simpl in J26, J28. specialize (J26 eq_refl). destruct (mrp s) eqn:Em; try discriminate.
      + use AMRecvStep. rewrite Em in Q. destruct (ms s); discriminate.
      + use AMRecvErr. rewrite Em, J26 in Q. destruct (ms s); discriminate.
      + use AOwner. unfold ostep in Q. rewrite Eo, Em in Q. discriminate.
    - use AOwner. unfold ostep in Q. rewrite Eo in Q. discriminate. }
  rewrite Hown in *. simpl in *.
  assert (Hst : stopped s = true) by auto.
  assert (Hmsp : msp s = MS_done) by (destruct (msp s); auto; discriminate).
  assert (Hmrp : mrp s = MR_done) by (destruct (mrp s); auto; discriminate).
  assert (Hg1 : g1 s = G_none \/ g1 s = G_done).
  { destruct (g1 s) eqn:Eg; auto.
    - use AG1. rewrite Eg in Q. simpl in Q. destruct (stop_begin s); discriminate.
    - use AG1. rewrite Eg in Q. simpl in Q. rewrite Hst in Q. discriminate. }
  assert (Hg2 : g2 s = G_none \/ g2 s = G_done).
  { destruct (g2 s) eqn:Eg; auto.
    - use AG2. rewrite Eg in Q. simpl in Q. destruct (stop_begin s); discriminate.
    - use AG2. rewrite Eg in Q. simpl in Q. rewrite Hst in Q. discriminate. }
  assert (Hlp : lp s = LA_none).
  { destruct (lp s) eqn:El; auto.
    - assert (Hbk : background x ALast = false).
      { unfold background. fold s. rewrite El. unfold rearming. rewrite Hts. reflexivity. }
      pose proof (Hq ALast Hbk) as Q. unfold step in Q. fold s in Q. rewrite Hnp, El, Hts in Q. discriminate.
    - rewrite Hmrp in HP. destruct Hfp as [E|E]; rewrite E in HP; simpl in HP; lia. }
  assert (Hla : la_armed s = false).
  { destruct (la_armed s) eqn:E; auto. specialize (J7 eq_refl). congruence. }
  assert (Hsp : sp s = S_none \/ sp s = S_done).
  { destruct (sp s) eqn:E; auto. exfalso. apply (J40 Hrc). auto. }
  (* users *)
  unfold all_done. fold s. repeat split; auto.
  apply forallb_forall. intros t Hin. apply In_nth_error in Hin. destruct Hin as [i Hi].
  use (AU i). rewrite Hi in Q.
  destruct (ustep s t) as [[s' t']|] eqn:Eu; [discriminate|].
  unfold ustep in Eu. unfold ufinished.
  destruct (upcv t); try (rewrite ?Hid, ?Hrc, ?Hst in Eu; simpl in Eu; try destruct (do_close s); try destruct (do_write s); discriminate).
  destruct (uprog t) as [|[ | | | ] r]; auto; try discriminate.
  destruct (stop_begin s); discriminate.
Qed.
End Live.

Theorem stop_returns est tmo progs x : reachable est tmo progs x ->
  ms (shd x) <> MRunning \/ cfg_timeout (shd x) = true -> quiescent x -> all_done x.
Proof.
  intros Hr Hc Hq. pose proof (inv_reachable _ _ _ _ Hr) as HI.
  apply live_all_done; auto. destruct Hc as [Hc|Hc].
  - destruct (ms (shd x)); auto. contradiction.
  - apply live_begun; auto.
Qed.
