(* KeccakVectors.v — anchors of Model/Keccak.v to published values that do not come from hop-go:
   (1) Keccak-f[1600] = Keccak-p[1600,24] of the all-zero state (the "KeccakF-1600-IntermediateValues"
       reference output; first lane F1258F7940E1DDE7, last lane EAF1FF7B5CECA249);
   (2) SHA3-256 of the empty message (FIPS 202 / NIST example value
       a7ffc6f8bf1ed76651c14756a061d662f580ff4de43b49fa82d80a4b80f8434a): one 24-round call on the
       padded block 06 00..00 80 of rate 136.
   Together they pin down theta/rho/pi/chi and all 24 round constants; Keccak-p[1600,12] and
   Keccak-p[1600,6] are the last 12 / 6 of these rounds (FIPS 202 section 3.4), anchored further by the
   XKCP Cyclist and Kravatte transcripts (CyclistVectors.v, KravatteVectors.v). *)
From Hop Require Import Base Keccak.
Open Scope N_scope.

Example keccak_f1600_zero_state :
  bytes_of_lanes (keccak_p 24 (repeat 0 25)) =
  hex "e7dde140798f25f18a47c033f9ccd584eea95aa61e2698d54d49806f304715bd57d05362054e288bd46f8e7f2da497ffc44746a4a0e5fe90762e19d60cda5b8c9c05191bf7a630ad64fc8fd0b75a933035d617233fa95aeb0321710d26e6a6a95f55cfdb167ca58126c84703cd31b8439f56a5111a2ff20161aed9215a63e505f270c98cf2febe641166c47b95703661cb0ed04f555a7cb8c832cf1c8ae83e8c14263aae22790c94e409c5a224f94118c26504e72635f5163ba1307fe944f67549a2ec5c7bfff1ea".
Proof. vm_compute. reflexivity. Qed.

Example sha3_256_empty :
  firstn 32 (keccak_p_bytes 24 ([6] ++ repeat 0 134 ++ [128] ++ repeat 0 64)) =
  hex "a7ffc6f8bf1ed76651c14756a061d662f580ff4de43b49fa82d80a4b80f8434a".
Proof. vm_compute. reflexivity. Qed.

(* the tables computed from their FIPS 202 definitions, shown for the reader *)
Example rho_offsets_value :
  rho_offsets = [0; 1; 62; 28; 27; 36; 44; 6; 55; 20; 3; 10; 43; 25; 39; 41; 45; 15; 21; 8; 18; 2; 61; 56; 14].
Proof. reflexivity. Qed.
Example round_constant_first_last :
  nth 0 round_constants 0 = 1 /\ nth 23 round_constants 0 = 9223372039002292232 (* 0x8000000080008008 *).
Proof. split; reflexivity. Qed.
