(* Shutdown.v — interleaving transition system for the shutdown of one muxer endpoint with one
   Reliable tube (tubes/reliable.go Close / receive / enterLastAckState / lastAckTimeout /
   enterClosedState / send / initiate, tubes/sender.go Close / sendFin / sendEmptyPacket,
   tubes/muxer.go Stop / sender / receiver / closeTubeHelper / the forced-close timer), running
   against an ARBITRARY environment: any frame may arrive at any moment, or never (loss up to a
   dead network, duplication, reordering, a misbehaving peer), timers fire at any moment while
   armed.  [Shutdown2] below composes two endpoints through a lossy network multiset and is shown
   to project onto this system, so every theorem holds for both ends of a tube.

   Atomicity: every critical section of Reliable.l (and Muxer.m) that contains no blocking
   operation is ONE transition; enterClosedState, which releases r.l while it waits for the tube
   sender to drain, is two (phase 1: mark closed, close the sender queues; phase 2: after
   <-sendDone, re-lock and close(r.closed)).  Assumption (stated in docs/C16.md): the transport
   write of the muxer sender does not block (UDP), hence a send to a muxer queue is never blocked
   for ever; queue capacities are not modelled (counters).  A send on a closed channel or a second
   close of a channel sets [panic].

   Definitions only.  Proofs: Proofs/ShutdownProofs.v. *)
From Hop Require Import Base ConcBase.
Open Scope N_scope.

Inductive tstate := TCreated | TInitiated | TCloseWait | TLastAck | TFinWait1 | TFinWait2 | TClosing | TClosed.
Inductive mstate := MRunning | MStopping | MStopped.

Definition tstate_eqb (a b : tstate) : bool :=
  match a, b with
  | TCreated, TCreated | TInitiated, TInitiated | TCloseWait, TCloseWait | TLastAck, TLastAck
  | TFinWait1, TFinWait1 | TFinWait2, TFinWait2 | TClosing, TClosing | TClosed, TClosed => true
  | _, _ => false
  end.

(* what an arriving frame does, as far as shutdown is concerned *)
Inductive ackk := ANone | AAck (k : nat) | ABad.       (* acknowledges k more frames / beyond what was sent or >100 duplicates *)
Record inframe := mkF { f_init : bool;                  (* REQ/RESP initiation frame *)
                        f_ack : ackk; f_fin : bool;     (* FIN flag present *)
                        f_inorder : bool;               (* this arrival completes the stream: recvWindow.receive returns
                                                           finProcessed — the FIN carried by this packet, or a FIN that
                                                           was waiting in the reorder heap behind the data frame that
                                                           this packet delivers (then the packet has no FIN flag) *)
                        f_data : bool }.

Inductive uop := UClose | UWaitClose | UStop | UWrite.
Inductive upc :=
| UIdle
| UC_wait                       (* Close: select { <-initDone; <-closed } *)
| UW_closed | UW_init           (* WaitForClose: <-r.closed; <-r.initDone *)
| US_waitstopped                (* Stop: the elected caller runs the owner procedure (process [own] below) and returns
                                   when it is done; every other caller waits for close(m.stopped) *)
| UR_init.                      (* Write: <-r.initDone *)
Record uthread := mkU { uprog : list uop; upcv : upc; urets : list (uop * N) }.

Inductive hpc := H_none | H_close | H_wclosed | H_winit | H_done.      (* closeTubeHelper goroutine *)
Inductive spc := S_none | S_run | S_done.                              (* Reliable.send goroutine *)
Inductive ipc := I_none | I_wait | I_done.                             (* Reliable.initiate goroutine *)
Inductive mspc := MS_run | MS_drain | MS_offer | MS_done.              (* Muxer.sender goroutine *)
Inductive fpc := F_none | F_cb | F_go | F_ecs | F_done.                (* forced-close callback and its per-tube goroutine *)
Inductive lpc := LA_none | LA_cb | LA_ecs.                             (* lastAckTimeout callback *)
Inductive gpc := G_none | G_start | G_wait | G_done.                   (* go m.Stop() from the sender / receiver *)
(* the elected Stop caller's procedure after the first critical section *)
Inductive opc := O_none | O_wg | O_closeq | O_senderr (timer_fired : bool) | O_conn | O_recverr | O_signal | O_done.
Inductive mrpc2 := MR_check | MR_read | MR_ecs | MR_offer | MR_done.  (* Muxer.receiver goroutine *)

Record sh := mkS {
  (* Reliable *)
  ts : tstate;
  s_closed : bool;              (* sender.closed *)
  tq : nat; tq_closed : bool;   (* sender.sendQueue + prioritySendQueue *)
  fin_sent : bool;
  unack_data : nat; unack_fin : bool;       (* sender.frames: data frames then the FIN *)
  send_done : bool; r_closed : bool; init_done : bool; init_recv : bool;
  la_armed : bool;              (* lastAckTimer armed *)
  rw_closed : bool;             (* recvWindow.closed *)
  ecs_pending : bool;           (* some goroutine is between phase 1 and phase 2 of enterClosedState *)
  (* Muxer *)
  ms : mstate;
  mq : nat; mq_closed : bool;   (* Muxer.sendQueue + prioritySendQueue *)
  under_closed : bool;          (* underlying.Close() happened *)
  stopped : bool;               (* close(m.stopped) *)
  force_armed : bool;           (* time.AfterFunc(muxerTimeout, ...) *)
  wgc : nat;                    (* Stop's WaitGroup *)
  cfg_timeout : bool;           (* Config.Timeout != 0 *)
  (* goroutines *)
  hp : hpc; sp : spc; ip : ipc; msp : mspc; mrp : mrpc2; fp : fpc; lp : lpc; g1 : gpc; g2 : gpc; own : opc;
  (* ghosts *)
  panic : bool;
  stop_owner : nat;             (* how many Stop calls were elected owner *)
  written : nat                 (* frames handed to the transport *)
}.

Record st := mkSt { shd : sh; uths : list uthread }.

(* ---------------------------------------------------------------- record updates *)
Definition with_tube (s : sh) ts' sc tq' tqc fs ud uf sd rc id ir la rw ep : sh :=
  mkS ts' sc tq' tqc fs ud uf sd rc id ir la rw ep (ms s) (mq s) (mq_closed s) (under_closed s) (stopped s)
      (force_armed s) (wgc s) (cfg_timeout s) (hp s) (sp s) (ip s) (msp s) (mrp s) (fp s) (lp s) (g1 s) (g2 s) (own s)
      (panic s) (stop_owner s) (written s).
Definition set_panic (s : sh) : sh :=
  mkS (ts s) (s_closed s) (tq s) (tq_closed s) (fin_sent s) (unack_data s) (unack_fin s) (send_done s) (r_closed s)
      (init_done s) (init_recv s) (la_armed s) (rw_closed s) (ecs_pending s) (ms s) (mq s) (mq_closed s) (under_closed s)
      (stopped s) (force_armed s) (wgc s) (cfg_timeout s) (hp s) (sp s) (ip s) (msp s) (mrp s) (fp s) (lp s) (g1 s) (g2 s) (own s)
      true (stop_owner s) (written s).
Definition set_tq (s : sh) (n : nat) : sh :=
  with_tube s (ts s) (s_closed s) n (tq_closed s) (fin_sent s) (unack_data s) (unack_fin s) (send_done s) (r_closed s)
    (init_done s) (init_recv s) (la_armed s) (rw_closed s) (ecs_pending s).
Definition set_mq (s : sh) (n : nat) : sh :=
  mkS (ts s) (s_closed s) (tq s) (tq_closed s) (fin_sent s) (unack_data s) (unack_fin s) (send_done s) (r_closed s)
      (init_done s) (init_recv s) (la_armed s) (rw_closed s) (ecs_pending s) (ms s) n (mq_closed s) (under_closed s)
      (stopped s) (force_armed s) (wgc s) (cfg_timeout s) (hp s) (sp s) (ip s) (msp s) (mrp s) (fp s) (lp s) (g1 s) (g2 s) (own s)
      (panic s) (stop_owner s) (written s).
Definition set_procs (s : sh) hp' sp' ip' msp' mrp' fp' lp' g1' g2' : sh :=
  mkS (ts s) (s_closed s) (tq s) (tq_closed s) (fin_sent s) (unack_data s) (unack_fin s) (send_done s) (r_closed s)
      (init_done s) (init_recv s) (la_armed s) (rw_closed s) (ecs_pending s) (ms s) (mq s) (mq_closed s) (under_closed s)
      (stopped s) (force_armed s) (wgc s) (cfg_timeout s) hp' sp' ip' msp' mrp' fp' lp' g1' g2' (own s)
      (panic s) (stop_owner s) (written s).
Definition set_mux (s : sh) ms' mq' mqc uc stp fa wg so wr : sh :=
  mkS (ts s) (s_closed s) (tq s) (tq_closed s) (fin_sent s) (unack_data s) (unack_fin s) (send_done s) (r_closed s)
      (init_done s) (init_recv s) (la_armed s) (rw_closed s) (ecs_pending s) ms' mq' mqc uc stp fa wg (cfg_timeout s)
      (hp s) (sp s) (ip s) (msp s) (mrp s) (fp s) (lp s) (g1 s) (g2 s) (own s) (panic s) so wr.

Definition set_hp s v := set_procs s v (sp s) (ip s) (msp s) (mrp s) (fp s) (lp s) (g1 s) (g2 s).
Definition set_sp s v := set_procs s (hp s) v (ip s) (msp s) (mrp s) (fp s) (lp s) (g1 s) (g2 s).
Definition set_ip s v := set_procs s (hp s) (sp s) v (msp s) (mrp s) (fp s) (lp s) (g1 s) (g2 s).
Definition set_msp s v := set_procs s (hp s) (sp s) (ip s) v (mrp s) (fp s) (lp s) (g1 s) (g2 s).
Definition set_mrp s v := set_procs s (hp s) (sp s) (ip s) (msp s) v (fp s) (lp s) (g1 s) (g2 s).
Definition set_fp s v := set_procs s (hp s) (sp s) (ip s) (msp s) (mrp s) v (lp s) (g1 s) (g2 s).
Definition set_lp s v := set_procs s (hp s) (sp s) (ip s) (msp s) (mrp s) (fp s) v (g1 s) (g2 s).
Definition set_g1 s v := set_procs s (hp s) (sp s) (ip s) (msp s) (mrp s) (fp s) (lp s) v (g2 s).
Definition set_g2 s v := set_procs s (hp s) (sp s) (ip s) (msp s) (mrp s) (fp s) (lp s) (g1 s) v.
Definition set_own (s : sh) (v : opc) : sh :=
  mkS (ts s) (s_closed s) (tq s) (tq_closed s) (fin_sent s) (unack_data s) (unack_fin s) (send_done s) (r_closed s)
      (init_done s) (init_recv s) (la_armed s) (rw_closed s) (ecs_pending s) (ms s) (mq s) (mq_closed s) (under_closed s)
      (stopped s) (force_armed s) (wgc s) (cfg_timeout s) (hp s) (sp s) (ip s) (msp s) (mrp s) (fp s) (lp s) (g1 s) (g2 s) v
      (panic s) (stop_owner s) (written s).

(* a send to the tube's own sender queue / to a muxer queue: on a closed channel it panics *)
Definition send_tq (s : sh) : sh := if tq_closed s then set_panic s else set_tq s (S (tq s)).
Definition send_mq (s : sh) : sh := if mq_closed s then set_panic s else set_mq s (S (mq s)).
(* sender.sendEmptyPacket: if s.closed.Load() { return }; s.sendQueue <- pkt *)
Definition send_empty (s : sh) : sh := if s_closed s then s else send_tq s.

Definition unacked (s : sh) : nat := (unack_data s + if unack_fin s then 1 else 0)%nat.

(* ---------------------------------------------------------------- enterClosedState *)
(* phase 1 (under r.l).  Returns the new state and whether the caller has to do phase 2. *)
Definition ecs1 (s : sh) : sh * bool :=
  match ts s with
  | TClosed => (s, false)
  | _ =>
    if s_closed s then
      (* sender was never started (or already closed): no wait; close(r.closed) right away *)
      (if r_closed s then set_panic s
       else with_tube s TClosed true (tq s) (tq_closed s) (fin_sent s) (unack_data s) (unack_fin s) (send_done s) true
                      (init_done s) (init_recv s) false true false, false)
    else
      (* sender.Close(): closed = true; ticker stop; close both sender queues; recvWindow.Close() *)
      (if tq_closed s then set_panic s
       else with_tube s TClosed true (tq s) true (fin_sent s) (unack_data s) (unack_fin s) (send_done s) (r_closed s)
                      (init_done s) (init_recv s) false true true, true)
  end.
(* phase 2: <-r.sendDone; r.l.Lock(); close(r.closed) *)
Definition ecs2 (s : sh) : option sh :=
  if send_done s then
    Some (if r_closed s then set_panic s
          else with_tube s (ts s) (s_closed s) (tq s) (tq_closed s) (fin_sent s) (unack_data s) (unack_fin s) (send_done s)
                         true (init_done s) (init_recv s) (la_armed s) (rw_closed s) false)
  else None.

(* ---------------------------------------------------------------- Reliable.receive / receiveInitiatePkt (under r.l) *)
Definition set_ts (s : sh) (t : tstate) : sh :=
  with_tube s t (s_closed s) (tq s) (tq_closed s) (fin_sent s) (unack_data s) (unack_fin s) (send_done s) (r_closed s)
    (init_done s) (init_recv s) (la_armed s) (rw_closed s) (ecs_pending s).
Definition set_unack (s : sh) (d : nat) (f : bool) : sh :=
  with_tube s (ts s) (s_closed s) (tq s) (tq_closed s) (fin_sent s) d f (send_done s) (r_closed s)
    (init_done s) (init_recv s) (la_armed s) (rw_closed s) (ecs_pending s).
Definition set_rw (s : sh) : sh :=
  with_tube s (ts s) (s_closed s) (tq s) (tq_closed s) (fin_sent s) (unack_data s) (unack_fin s) (send_done s) (r_closed s)
    (init_done s) (init_recv s) (la_armed s) true (ecs_pending s).

(* the state-machine part of receive after the acknowledgement was applied *)
Definition recv_fsm (s : sh) (f : inframe) : sh * bool :=
  (* Handle ACK of FIN *)
  let isack := match f_ack f with ANone => false | _ => true end in
  let '(s1, w1) :=
    if isack && negb (tstate_eqb (ts s) TInitiated) && Nat.eqb (unacked s) 0 then
      match ts s with
      | TFinWait1 => (set_ts s TFinWait2, false)
      | TClosing | TLastAck => ecs1 s
      | _ => (s, false)
      end
    else (s, false) in
  (* Handle FIN *)
  let finnow := (f_fin f && rw_closed s) || (f_inorder f && negb (rw_closed s)) in
  let s1 := if f_inorder f && negb (rw_closed s1) && negb (tstate_eqb (ts s1) TClosed) then set_rw s1 else s1 in
  let '(s2, w2) :=
    if finnow then
      let '(s2, w2) :=
        match ts s1 with
        | TInitiated => (set_ts s1 TCloseWait, false)
        | TFinWait1 => (set_ts s1 TClosing, false)
        | TFinWait2 => ecs1 (send_empty s1)
        | _ => (s1, false)
        end in
      (if tstate_eqb (ts s2) TClosed then s2 else send_empty s2, w2)
    else (s1, false) in
  (* ACK every data packet *)
  let s3 := if f_data f && negb (tstate_eqb (ts s2) TClosed) && negb (f_fin f) then send_empty s2 else s2 in
  (s3, w1 || w2).

Definition receive (s : sh) (f : inframe) : sh * bool :=
  if f_init f then
    (* receiveInitiatePkt *)
    match ts s with
    | TCreated =>
      let s1 := with_tube s TInitiated (s_closed s) (tq s) (tq_closed s) (fin_sent s) (unack_data s) (unack_fin s)
                          (send_done s) (r_closed s) (init_done s) true (la_armed s) (rw_closed s) (ecs_pending s) in
      (send_mq s1, false)                       (* REQ => answer with RESP on the muxer queue *)
    | TClosed => (s, false)
    | _ => (send_mq s, false)
    end
  else
    match ts s with
    | TCreated | TClosed => (s, false)          (* ErrBadTubeState *)
    | _ =>
      match f_ack f with
      | ABad => ecs1 s                          (* recvAck error: enterClosedState; return *)
      | AAck k =>
        if Nat.ltb (unacked s) k then ecs1 s    (* acknowledges more than was sent: errAckBeyondSent *)
        else
          let d := unack_data s in
          let s1 := if Nat.leb k d then set_unack s (d - k) (unack_fin s) else set_unack s 0 false in
          recv_fsm s1 f
      | ANone => recv_fsm s f
      end
    end.

(* ---------------------------------------------------------------- Reliable.Close / Write (under r.l, after their waits) *)
Definition do_close (s : sh) : sh * N :=
  match ts s with
  | TCreated => (s, 2)                                                     (* ErrBadTubeState *)
  | TInitiated | TCloseWait =>
    let s1 := match ts s with
              | TInitiated => set_ts s TFinWait1
              | _ => with_tube s TLastAck (s_closed s) (tq s) (tq_closed s) (fin_sent s) (unack_data s) (unack_fin s)
                               (send_done s) (r_closed s) (init_done s) (init_recv s) true (rw_closed s) (ecs_pending s)
              end in
    (* sendFin *)
    if fin_sent s1 then (s1, 1)
    else
      let s2 := with_tube s1 (ts s1) (s_closed s1) (tq s1) (tq_closed s1) true (unack_data s1) true (send_done s1)
                          (r_closed s1) (init_done s1) (init_recv s1) (la_armed s1) (rw_closed s1) (ecs_pending s1) in
      (if Nat.eqb (unacked s1) 0 then send_tq s2 else s2, 0)
  | _ => (s, 1)                                                            (* io.EOF *)
  end.

Definition do_write (s : sh) : sh * N :=
  match ts s with
  | TCreated => (s, 2)
  | TInitiated | TCloseWait =>
    if fin_sent s || s_closed s then (s, 1)
    else (set_unack s (S (unack_data s)) (unack_fin s), 0)
  | _ => (s, 1)
  end.

(* ---------------------------------------------------------------- actors *)
Inductive actor :=
| AU (i : nat)                  (* a user goroutine *)
| AHelper | ASendDrain (emit : bool) | ASendTick | ASendWindow | AInit | AMSend | AMRecvFrame (f : inframe)
| AMRecvErr | AMRecvStep | AForce | ALast | AG1 | AG2
| AOwner | TForceFire | TLastFire | TSenderTimer | EReadTimeout | AInitTick.

Definition ufinish (t : uthread) (o : uop) (r : N) := mkU (uprog t) UIdle (urets t ++ [(o, r)]).
Definition ugoto (t : uthread) (p : upc) := mkU (uprog t) p (urets t).

(* Stop, first critical section (under m.m) *)
Definition stop_begin (s : sh) : sh * bool :=        (* (state, elected owner?) *)
  match ms s with
  | MRunning =>
    (* one closeTubeHelper goroutine for the tube; state = stopping; arm the forced close *)
    (mkS (ts s) (s_closed s) (tq s) (tq_closed s) (fin_sent s) (unack_data s) (unack_fin s) (send_done s) (r_closed s)
         (init_done s) (init_recv s) (la_armed s) (rw_closed s) (ecs_pending s) MStopping (mq s) (mq_closed s)
         (under_closed s) (stopped s) true (S (wgc s)) (cfg_timeout s) H_close (sp s) (ip s) (msp s) (mrp s) (fp s) (lp s)
         (g1 s) (g2 s) O_wg (panic s) (S (stop_owner s)) (written s), true)
  | _ => (s, false)
  end.

Definition ustep (s : sh) (t : uthread) : option (sh * uthread) :=
  match upcv t with
  | UIdle =>
    match uprog t with
    | [] => None
    | UClose :: r => Some (s, mkU r UC_wait (urets t))
    | UWaitClose :: r => Some (s, mkU r UW_closed (urets t))
    | UWrite :: r => Some (s, mkU r UR_init (urets t))
    | UStop :: r => let '(s', _) := stop_begin s in Some (s', mkU r US_waitstopped (urets t))
    end
  | UC_wait => if init_done s || r_closed s then let '(s', r) := do_close s in Some (s', ufinish t UClose r) else None
  | UW_closed => if r_closed s then Some (s, ugoto t UW_init) else None
  | UW_init => if init_done s then Some (s, ufinish t UWaitClose 0) else None
  | UR_init => if init_done s then let '(s', r) := do_write s in Some (s', ufinish t UWrite r) else None
  | US_waitstopped => if stopped s then Some (s, ufinish t UStop 0) else None
  end.

(* the owner procedure of Stop after electing itself *)
Definition ostep (s : sh) : option sh :=
  match own s with
  | O_wg => match wgc s with O => Some (set_own s O_closeq) | S _ => None end           (* wg.Wait() *)
  | O_closeq =>                                     (* state = stopped; close both muxer queues *)
    Some (set_own (if mq_closed s then set_panic s
                   else set_mux s MStopped (mq s) true (under_closed s) (stopped s) (force_armed s) (wgc s) (stop_owner s) (written s))
                  (O_senderr false))
  | O_senderr fired =>                              (* sendErr = <-senderErr *)
    match msp s with
    | MS_offer => Some (set_own (set_msp s MS_done) O_conn)
    | _ => None
    end
  | O_conn =>                                       (* m.underlying.Close() *)
    Some (set_own (set_mux s (ms s) (mq s) (mq_closed s) true (stopped s) (force_armed s) (wgc s) (stop_owner s) (written s)) O_recverr)
  | O_recverr => match mrp s with MR_offer => Some (set_own (set_mrp s MR_done) O_signal) | _ => None end
  | O_signal =>                                     (* close(m.stopped) *)
    Some (set_own (if stopped s then set_panic s
                   else set_mux s (ms s) (mq s) (mq_closed s) (under_closed s) true (force_armed s) (wgc s) (stop_owner s) (written s)) O_done)
  | _ => None
  end.

(* `go m.Stop()` started by the muxer sender (write error) or receiver (read error) *)
Definition gstep (s : sh) (p : gpc) : option (sh * gpc) :=
  match p with
  | G_start => let '(s', _) := stop_begin s in Some (s', G_wait)
  | G_wait => if stopped s then Some (s, G_done) else None
  | _ => None
  end.

Definition step (x : st) (a : actor) : option st :=
  let s := shd x in
  if panic s then None else                       (* a panic ends the run *)
  match a with
  | AU i =>
    match nth_error (uths x) i with
    | None => None
    | Some t => match ustep s t with
                | None => None
                | Some (s', t') => Some (mkSt s' (gupd (uths x) i t'))
                end
    end
  | AHelper =>                                     (* closeTubeHelper: v.Close(); v.WaitForClose(); wg.Done() *)
    match hp s with
    | H_close => if init_done s || r_closed s then
                   let '(s', r) := do_close s in
                   if r =? 2 then Some (mkSt (set_hp (set_mux s' (ms s') (mq s') (mq_closed s') (under_closed s') (stopped s') (force_armed s') (pred (wgc s')) (stop_owner s') (written s')) H_done) (uths x))
                   else Some (mkSt (set_hp s' H_wclosed) (uths x))
                 else None
    | H_wclosed => if r_closed s then Some (mkSt (set_hp s H_winit) (uths x)) else None
    | H_winit => if init_done s then
                   Some (mkSt (set_hp (set_mux s (ms s) (mq s) (mq_closed s) (under_closed s) (stopped s) (force_armed s) (pred (wgc s)) (stop_owner s) (written s)) H_done) (uths x))
                 else None
    | _ => None
    end
  | ASendDrain emit =>                              (* Reliable.send: take one frame off a sender queue, sendOneFrame *)
    match sp s with
    | S_run =>
      match tq s with
      | S n => let s1 := set_tq s n in Some (mkSt (if emit then send_mq s1 else s1) (uths x))
      | O => if tq_closed s then
               Some (mkSt (set_sp (with_tube s (ts s) (s_closed s) (tq s) (tq_closed s) (fin_sent s) (unack_data s) (unack_fin s)
                                             true (r_closed s) (init_done s) (init_recv s) (la_armed s) (rw_closed s) (ecs_pending s)) S_done) (uths x))
             else None
      end
    | _ => None
    end
  | ASendTick =>                                    (* retransmission ticker (under r.l) *)
    match sp s with
    | S_run => if s_closed s then None
               else if Nat.ltb 0 (unacked s) then Some (mkSt (send_mq s) (uths x)) else None
    | _ => None
    end
  | ASendWindow =>                                  (* windowOpen (under r.l): move a frame to the sender queue *)
    match sp s with
    | S_run => if s_closed s then None
               else if Nat.ltb 0 (unacked s) then Some (mkSt (send_tq s) (uths x)) else None
    | _ => None
    end
  | AInitTick =>                                    (* initiate: resend the REQ while created (under r.l) *)
    match ip s, ts s with
    | I_wait, TCreated => Some (mkSt (send_mq s) (uths x))
    | _, _ => None
    end
  | AInit =>                                        (* initiate: select { initRecv; closed } then start the sender *)
    match ip s with
    | I_wait =>
      if r_closed s then
        Some (mkSt (set_ip (with_tube s (ts s) (s_closed s) (tq s) (tq_closed s) (fin_sent s) (unack_data s) (unack_fin s) (send_done s)
                                     (r_closed s) true (init_recv s) (la_armed s) (rw_closed s) (ecs_pending s)) I_done) (uths x))
      else if init_recv s then
        match ts s with
        | TInitiated =>                              (* sender.closed.Store(false); go r.send() *)
          Some (mkSt (set_sp (set_ip (with_tube s (ts s) false (tq s) (tq_closed s) (fin_sent s) (unack_data s) (unack_fin s) (send_done s)
                                               (r_closed s) true (init_recv s) (la_armed s) (rw_closed s) (ecs_pending s)) I_done) S_run) (uths x))
        | _ =>
          Some (mkSt (set_ip (with_tube s (ts s) (s_closed s) (tq s) (tq_closed s) (fin_sent s) (unack_data s) (unack_fin s) (send_done s)
                                       (r_closed s) true (init_recv s) (la_armed s) (rw_closed s) (ecs_pending s)) I_done) (uths x))
        end
      else None
    | _ => None
    end
  | AMSend =>                                       (* Muxer.sender *)
    match msp s with
    | MS_run =>
      match mq s with
      | S n =>
        if under_closed s then                      (* WriteMsg fails: go m.Stop(); drain *)
          Some (mkSt (set_g1 (set_msp (set_mq s n) MS_drain) (match g1 s with G_none => G_start | p => p end)) (uths x))
        else Some (mkSt (set_mux s (ms s) n (mq_closed s) (under_closed s) (stopped s) (force_armed s) (wgc s) (stop_owner s) (S (written s))) (uths x))
      | O => if mq_closed s then Some (mkSt (set_msp s MS_offer) (uths x)) else None
      end
    | MS_drain =>
      match mq s with
      | S n => Some (mkSt (set_mq s n) (uths x))
      | O => if mq_closed s then Some (mkSt (set_msp s MS_offer) (uths x)) else None
      end
    | _ => None
    end
  | AMRecvFrame f =>                                (* Muxer.receiver: ReadMsg returns a frame; dispatch it *)
    match mrp s with
    | MR_read =>
      if under_closed s then None
      else let '(s', w) := receive s f in
           Some (mkSt (set_mrp s' (if w then MR_ecs else MR_check)) (uths x))
    | _ => None
    end
  | AMRecvStep =>
    match mrp s with
    | MR_ecs => match ecs2 s with Some s' => Some (mkSt (set_mrp s' MR_check) (uths x)) | None => None end
    | MR_check => match ms s with                    (* for m.state.Load() != muxerStopped *)
                  | MStopped => Some (mkSt (set_mrp s MR_offer) (uths x))
                  | _ => Some (mkSt (set_mrp s MR_read) (uths x))
                  end
    | _ => None
    end
  | AMRecvErr =>                                    (* ReadMsg fails: socket closed *)
    match mrp s with
    | MR_read =>
      if under_closed s then
        match ms s with
        | MStopped => Some (mkSt (set_mrp s MR_offer) (uths x))
        | _ => Some (mkSt (set_g2 (set_mrp s MR_offer) (match g2 s with G_none => G_start | p => p end)) (uths x))   (* go m.Stop() *)
        end
      else None
    | _ => None
    end
  | EReadTimeout =>                                 (* Config.Timeout != 0 and nothing arrived: ReadMsg times out *)
    match mrp s with
    | MR_read =>
      if cfg_timeout s && negb (under_closed s) then
        match ms s with
        | MStopped => Some (mkSt (set_mrp s MR_offer) (uths x))
        | _ => Some (mkSt (set_g2 (set_mrp s MR_offer) (match g2 s with G_none => G_start | p => p end)) (uths x))
        end
      else None
    | _ => None
    end
  | TForceFire => if force_armed s then
                    Some (mkSt (set_fp (set_mux s (ms s) (mq s) (mq_closed s) (under_closed s) (stopped s) false (wgc s) (stop_owner s) (written s))
                                       (match fp s with F_none => F_cb | p => p end)) (uths x))
                  else None
  | AForce =>
    match fp s with
    | F_cb => match ms s with
              | MStopped => Some (mkSt (set_fp s F_done) (uths x))
              | _ => Some (mkSt (set_fp (set_mux s (ms s) (mq s) (mq_closed s) true (stopped s) (force_armed s) (wgc s) (stop_owner s) (written s)) F_go) (uths x))
              end
    | F_go => let '(s', w) := ecs1 s in Some (mkSt (set_fp s' (if w then F_ecs else F_done)) (uths x))
    | F_ecs => match ecs2 s with Some s' => Some (mkSt (set_fp s' F_done) (uths x)) | None => None end
    | _ => None
    end
  | TLastFire => if la_armed s then
                   match lp s with
                   | LA_none => Some (mkSt (set_lp (with_tube s (ts s) (s_closed s) (tq s) (tq_closed s) (fin_sent s) (unack_data s) (unack_fin s) (send_done s)
                                                              (r_closed s) (init_done s) (init_recv s) false (rw_closed s) (ecs_pending s)) LA_cb) (uths x))
                   | _ => None
                   end
                 else None
  | ALast =>
    match lp s with
    | LA_cb =>
      match ts s with
      | TLastAck =>
        if Nat.ltb 1 (unacked s) then            (* data still unacknowledged: re-arm *)
          Some (mkSt (set_lp (with_tube s (ts s) (s_closed s) (tq s) (tq_closed s) (fin_sent s) (unack_data s) (unack_fin s) (send_done s)
                                        (r_closed s) (init_done s) (init_recv s) true (rw_closed s) (ecs_pending s)) LA_none) (uths x))
        else let '(s', w) := ecs1 s in Some (mkSt (set_lp s' (if w then LA_ecs else LA_none)) (uths x))
      | _ => Some (mkSt (set_lp s LA_none) (uths x))
      end
    | LA_ecs => match ecs2 s with Some s' => Some (mkSt (set_lp s' LA_none) (uths x)) | None => None end
    | _ => None
    end
  | AG1 => match gstep s (g1 s) with
           | Some (s', p) => Some (mkSt (set_g1 s' p) (uths x))
           | None => None
           end
  | AG2 => match gstep s (g2 s) with
           | Some (s', p) => Some (mkSt (set_g2 s' p) (uths x))
           | None => None
           end
  | AOwner => match ostep s with Some s' => Some (mkSt s' (uths x)) | None => None end
  | TSenderTimer =>                                (* Stop's senderTimer fires: m.underlying.Close() *)
    match own s with
    | O_senderr false =>
      Some (mkSt (set_own (set_mux s (ms s) (mq s) (mq_closed s) true (stopped s) (force_armed s) (wgc s) (stop_owner s) (written s))
                          (O_senderr true)) (uths x))
    | _ => None
    end
  end.

Fixpoint run (x : st) (l : list actor) : option st :=
  match l with
  | [] => Some x
  | a :: r => match step x a with Some x' => run x' r | None => None end
  end.

(* initial states: an established tube (sender running) or a tube still waiting for the peer's
   initiation frame; muxer running *)
Definition sh_init (established timeout : bool) : sh :=
  mkS (if established then TInitiated else TCreated) (negb established) 0 false false 0 false false false established established
      false false false MRunning 0 false false false false 0 timeout
      H_none (if established then S_run else S_none) (if established then I_done else I_wait) MS_run MR_check F_none LA_none G_none G_none O_none
      false 0 0.
Definition init (established timeout : bool) (progs : list (list uop)) : st :=
  mkSt (sh_init established timeout) (map (fun p => mkU p UIdle []) progs).
Definition reachable est tmo progs (x : st) : Prop := exists l, run (init est tmo progs) l = Some x.
