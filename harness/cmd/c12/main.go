// c12: Kravatte-SANSE correspondence driver.
//
// Runs the real kravatte.NewSANSE AEAD (and the exported Kravatte object) on generated inputs and
// judges what it did with specification oracles that share no code with /repo or the Coq model:
//   - reference: a one-shot Kravatte / Deck-SANSE written from the definitions (hvxcrypto): every
//     sealed byte and every Open verdict must equal the specification's;
//   - round trip: a receiver in the same session state opens what the sender sealed;
//   - tamper: EVERY single-bit flip of ciphertext, tag and associated data must be rejected;
//   - key sensitivity: flipping a bit in ANY key byte changes the sealed output (all key lengths 1..199);
//   - aliasing: dst = plaintext[:0], dst = ciphertext[:0], dst overlapping ad, dst with a prefix: same
//     results as without aliasing, and untouched caller buffers stay untouched.
//
// The session logs, the chunked Kra/Vatte runs and the masks are also evaluated on the Gallina model
// inside Coq (Corr/C12.v).
package main

import (
	"bytes"
	"crypto/cipher"
	"fmt"

	"hop.computer/hop/kravatte"
	"verifharness/hv"
	"verifharness/hvxcrypto"
)

func sig(s string) string { return "C12:" + s }

var ib = hvxcrypto.IB

type verdict struct {
	ok   bool
	sig  string
	what string
}

func (v *verdict) fail(s, w string) {
	if v.ok {
		v.ok, v.sig, v.what = false, sig(s), w
	}
}

func short(b []byte) string {
	if len(b) <= 48 {
		return fmt.Sprintf("%x", b)
	}
	return fmt.Sprintf("%x..(%d bytes)", b[:24], len(b))
}

type msg struct{ a, p []byte }

// feedReference makes the receiver of session() open what the REFERENCE implementation sealed (a conformant
// peer's messages) instead of the real sender's output; on conformant code the two are the same bytes.
var feedReference bool

// forceTagSecondHalf makes the receiver-side tamper of session() hit tag bytes 16..31.
var forceTagSecondHalf bool

// session runs msgs through a sender and a receiver created from the same key, judges every step
// with the oracles and emits the sender's and the receiver's log as two model-compared cases.
// tamper >= 0 makes the receiver see message #tamper with one flipped bit (it must reject, and the
// session is then out of step: the remaining Opens are still compared with the model).
func session(class string, key []byte, msgs []msg, tamper int, r *hv.Rand, allFlips bool) {
	v := verdict{ok: true}
	var snd, rcv cipher.AEAD
	var err1, err2 error
	panicked, _ := hv.Catch(func() {
		snd, err1 = kravatte.NewSANSE(key)
		rcv, err2 = kravatte.NewSANSE(key)
	})
	newerr := err1 != nil
	// the property quantifies over key lengths 1..199; 200 and more must be refused; the empty key is
	// outside the property (the code panics on it: recorded and compared with the model, not judged)
	if len(key) > 0 && (panicked || (len(key) >= 200) != newerr || (err1 != nil) != (err2 != nil)) {
		v.fail("constructor-accepts-or-rejects-wrong-key-length", fmt.Sprintf("NewSANSE(len %d) error=%v panic=%v", len(key), err1, panicked))
	}
	desc := fmt.Sprintf("key[%d]=%x", len(key), key)
	if newerr || panicked {
		code := 1
		if panicked {
			code = 2
		}
		hv.Emit(hv.Case{Fn: "c12_ok", Coq: hv.Tuple(ib(key), "[]", hv.Tuple(hv.Ni(code), "[]")), Class: class, Desc: desc,
			Spec: v.ok, Sig: v.sig, What: v.what, NT: false})
		return
	}
	refS, refR := hvxcrypto.NewRefSanse(key), hvxcrypto.NewRefSanse(key)
	var sSteps, sOuts, rSteps, rOuts []string
	flips := 0
	inSync := true
	for i, m := range msgs {
		desc += fmt.Sprintf(" | A[%d]=%s P[%d]=%s", len(m.a), short(m.a), len(m.p), short(m.p))
		pCopy, aCopy := append([]byte{}, m.p...), append([]byte{}, m.a...)
		rcvBefore := kravatte.VerifClone(rcv)
		var ct []byte
		if pn, pmsg := hv.Catch(func() { ct = snd.Seal(nil, nil, m.p, m.a) }); pn {
			v.fail("seal-or-open-panicked", fmt.Sprintf("message %d: Seal panicked: %s", i, pmsg))
			hv.Emit(hv.Case{Class: class, Desc: "sender: " + desc, Spec: v.ok, Sig: v.sig, What: v.what, NT: true})
			return
		}
		if !bytes.Equal(pCopy, m.p) || !bytes.Equal(aCopy, m.a) {
			v.fail("seal-modified-caller-buffer", fmt.Sprintf("message %d: Seal(nil, ...) changed its plaintext or associated-data argument", i))
		}
		wc, wt := refS.Wrap(m.a, m.p)
		if !bytes.Equal(ct, append(append([]byte{}, wc...), wt...)) {
			v.fail("output-differs-from-kravatte-sanse-specification", fmt.Sprintf("message %d: Seal gives %s, the specification %s||%s", i, short(ct), short(wc), short(wt)))
		}
		sSteps = append(sSteps, "Se "+ib(m.a)+" "+ib(m.p))
		sOuts = append(sOuts, hv.Some(ib(ct)))

		// tamper oracle: every single-bit flip of C||T and of A must be rejected by a receiver in the
		// right state (each attempt on a fresh copy of that state)
		if inSync && allFlips {
			try := func(what string, c2, a2 []byte) {
				flips++
				x := kravatte.VerifClone(rcvBefore)
				var pt []byte
				var err error
				if pn, _ := hv.Catch(func() { pt, err = x.Open(nil, nil, c2, a2) }); pn {
					v.fail("seal-or-open-panicked", fmt.Sprintf("message %d: Open panicked after %s", i, what))
				} else if err == nil {
					v.fail("tampered-message-accepted", fmt.Sprintf("message %d: Open accepted after %s (returned %s)", i, what, short(pt)))
				}
			}
			for bit := 0; bit < 8*len(ct); bit++ {
				c2 := append([]byte{}, ct...)
				c2[bit/8] ^= 1 << uint(bit%8)
				part := "ciphertext"
				if bit/8 >= len(ct)-32 {
					part = fmt.Sprintf("tag byte %d", bit/8-(len(ct)-32))
				}
				try(fmt.Sprintf("flipping bit %d of byte %d (%s)", bit%8, bit/8, part), c2, m.a)
			}
			for bit := 0; bit < 8*len(m.a); bit++ {
				a2 := append([]byte{}, m.a...)
				a2[bit/8] ^= 1 << uint(bit%8)
				try(fmt.Sprintf("flipping bit %d of associated-data byte %d", bit%8, bit/8), ct, a2)
			}
		}

		// the receiver's view
		seen, seenA := ct, m.a
		if feedReference {
			seen = append(append([]byte{}, wc...), wt...)
		}
		tampered := false
		if i == tamper {
			tampered = true
			seen, seenA = append([]byte{}, ct...), append([]byte{}, m.a...)
			n := 8 * (len(seen) + len(seenA))
			bit := r.Intn(n)
			if forceTagSecondHalf || r.Chance(40) { // favour the tag, in particular its second half
				bit = 8*(len(seen)-32) + r.Intn(256)
				if forceTagSecondHalf || r.Chance(50) {
					bit = 8*(len(seen)-16) + r.Intn(128)
				}
			}
			if bit < 8*len(seen) {
				seen[bit/8] ^= 1 << uint(bit%8)
			} else {
				bit -= 8 * len(seen)
				seenA[bit/8] ^= 1 << uint(bit%8)
			}
			desc += fmt.Sprintf(" (receiver sees a flipped bit: ct=%s ad=%s)", short(seen), short(seenA))
		}
		seenCopy := append([]byte{}, seen...)
		var pt []byte
		var err error
		if pn, pmsg := hv.Catch(func() { pt, err = rcv.Open(nil, nil, seen, seenA) }); pn {
			v.fail("seal-or-open-panicked", fmt.Sprintf("message %d: Open panicked: %s", i, pmsg))
			hv.Emit(hv.Case{Class: class, Desc: "receiver: " + desc, Spec: v.ok, Sig: v.sig, What: v.what, NT: true})
			return
		}
		if !bytes.Equal(seenCopy, seen) {
			v.fail("open-modified-caller-buffer", fmt.Sprintf("message %d: Open(nil, ...) changed its ciphertext argument", i))
		}
		n := len(seen) - 32
		rp, rok := refR.Unwrap(seenA, seen[:n], seen[n:])
		if (err == nil) != rok || (rok && !bytes.Equal(pt, rp)) {
			v.fail("output-differs-from-kravatte-sanse-specification", fmt.Sprintf("message %d: Open error=%v plaintext=%s, the specification accept=%v plaintext=%s", i, err, short(pt), rok, short(rp)))
		}
		if inSync && !tampered && (err != nil || !bytes.Equal(pt, m.p)) {
			v.fail("open-does-not-return-the-sealed-plaintext", fmt.Sprintf("message %d: Open error=%v, returned %s", i, err, short(pt)))
		}
		if inSync && tampered && err == nil {
			v.fail("tampered-message-accepted", fmt.Sprintf("message %d: Open accepted a message with one flipped bit", i))
		}
		if tampered {
			inSync = false
		}
		rSteps = append(rSteps, "Op "+ib(seenA)+" "+ib(seen))
		if err == nil {
			if pt == nil {
				pt = []byte{}
			}
			rOuts = append(rOuts, hv.Some(ib(pt)))
		} else {
			rOuts = append(rOuts, "None")
		}
	}
	if flips > 0 {
		desc += fmt.Sprintf(" [all %d single-bit flips of C, T, A tried]", flips)
	}
	nt := len(msgs) > 0
	hv.Emit(hv.Case{Fn: "c12_ok", Coq: hv.Tuple(ib(key), hv.List(sSteps), hv.Tuple("0", hv.List(sOuts))),
		Class: class + "/sender", Desc: "sender: " + desc, Spec: v.ok, Sig: v.sig, What: v.what, NT: nt})
	hv.Emit(hv.Case{Fn: "c12_ok", Coq: hv.Tuple(ib(key), hv.List(rSteps), hv.Tuple("0", hv.List(rOuts))),
		Class: class + "/receiver", Desc: "receiver: " + desc, Spec: v.ok, Sig: v.sig, What: v.what, NT: nt})
}

// keySensitivity: for every byte position of the key, flipping one bit of it changes Seal's output.
func keySensitivity(key []byte, r *hv.Rand) {
	v := verdict{ok: true}
	a, p := r.Bytes(r.Intn(12)), r.Bytes(1+r.Intn(40))
	base, _ := kravatte.NewSANSE(key)
	want := base.Seal(nil, nil, p, a)
	for i := range key {
		k2 := append([]byte{}, key...)
		k2[i] ^= 1 << uint(r.Intn(8))
		x, err := kravatte.NewSANSE(k2)
		if err != nil {
			v.fail("constructor-accepts-or-rejects-wrong-key-length", "NewSANSE failed")
			break
		}
		if got := x.Seal(nil, nil, p, a); bytes.Equal(got, want) {
			v.fail("key-byte-does-not-influence-output", fmt.Sprintf("keys %x and %x (differ in byte %d of %d) seal A=%x P=%x to the same %x", key, k2, i, len(key), a, p, got))
		}
	}
	hv.Emit(hv.Case{Class: "key-sensitivity", Desc: fmt.Sprintf("key[%d]=%x: one bit flipped in each of the %d key bytes in turn, A=%x P=%x", len(key), key, len(key), a, p),
		Spec: v.ok, Sig: v.sig, What: v.what, NT: true})
}

func maskCase(key []byte) {
	var kv kravatte.Kravatte
	ret := 0
	panicked, _ := hv.Catch(func() { ret = kv.RefMaskInitialize(key) })
	v := verdict{ok: true}
	if len(key) > 0 && (panicked || (ret != 0) != (len(key) >= 200)) {
		v.fail("constructor-accepts-or-rejects-wrong-key-length", fmt.Sprintf("RefMaskInitialize(len %d) = %d panic=%v", len(key), ret, panicked))
	}
	mask := kv.VerifMask()
	code := 0
	if panicked {
		code = 2
	} else if ret != 0 {
		code = 1
	}
	if code == 0 {
		// k = p(K || 1 || 0*): the first output block of the empty history is p(p(0)) + k
		z := hvxcrypto.KravatteF(key, nil, 200)
		var zero [25]uint64
		hvxcrypto.KeccakP(&zero, 6)
		hvxcrypto.KeccakP(&zero, 6)
		for i := 0; i < 200; i++ {
			z[i] ^= byte(zero[i/8] >> (8 * uint(i%8)))
		}
		if !bytes.Equal(z, mask) {
			v.fail("output-differs-from-kravatte-sanse-specification", fmt.Sprintf("mask for key %x is %x, the specification's p(K||1||0*) is %x", key, mask, z))
		}
	}
	hv.Emit(hv.Case{Fn: "c12m_ok", Coq: hv.Tuple(ib(key), hv.Ni(code), ib(mask)), Class: "mask", Desc: fmt.Sprintf("RefMaskInitialize(key[%d]=%x)", len(key), key),
		Spec: v.ok, Sig: v.sig, What: v.what, NT: code == 0})
}

// kravatteCase: strings fed to Kra in random chunks, output taken from Vatte in random chunks.
func kravatteCase(r *hv.Rand) {
	key := r.Bytes(hv.Pick(r, []int{1, 7, 16, 16, 32, 33, 199}))
	var kv kravatte.Kravatte
	v := verdict{ok: true}
	if kv.RefMaskInitialize(key) != 0 {
		v.fail("constructor-accepts-or-rejects-wrong-key-length", "RefMaskInitialize failed")
	}
	var hist []hvxcrypto.BitStr
	var items []string
	desc := fmt.Sprintf("key[%d]=%x", len(key), key)
	nstr := 1 + r.Intn(3)
	for s := 0; s < nstr; s++ {
		n := hv.Pick(r, []int{0, 1, 24, 25, 26, 199, 200, 201, 399, 400, 401, r.Intn(64), r.Intn(700)})
		data := r.Bytes(n)
		nt := 0
		if r.Chance(30) {
			nt = 1 + r.Intn(7)
		}
		tail := byte(r.Intn(1 << uint(nt)))
		// non-final chunks (whole bytes), then the final call with the bit length
		rest := data
		var chunks []int
		for len(rest) > 0 && r.Chance(60) {
			c := hv.Pick(r, []int{0, 1, 7, 24, 25, 26, 100, 199, 200, 201, 250, 400})
			if c > len(rest) {
				c = r.Intn(len(rest) + 1)
			}
			if kv.Kra(rest[:c], 8*c, kravatte.FlagNone) != 0 {
				v.fail("kra-or-vatte-returned-error", "Kra(FlagNone) returned non-zero")
			}
			chunks = append(chunks, c)
			rest = rest[c:]
		}
		last := append([]byte{}, rest...)
		if nt > 0 {
			last = append(last, tail)
		}
		if kv.Kra(last, 8*len(rest)+nt, kravatte.FlagLastPart) != 0 {
			v.fail("kra-or-vatte-returned-error", "Kra(FlagLastPart) returned non-zero")
		}
		hist = append(hist, hvxcrypto.BitStr{B: data, NTail: nt, Tail: tail})
		total := hv.Pick(r, []int{0, 1, 16, 32, 199, 200, 201, 399, 400, 401, r.Intn(450)})
		out := make([]byte, total)
		pos := 0
		var ochunks []int
		for pos < total && r.Chance(55) {
			c := hv.Pick(r, []int{0, 1, 8, 32, 199, 200, 201})
			if c > total-pos {
				c = r.Intn(total - pos + 1)
			}
			if kv.Vatte(out[pos:pos+c], 8*c, kravatte.FlagNone) != 0 {
				v.fail("kra-or-vatte-returned-error", "Vatte(FlagNone) returned non-zero")
			}
			ochunks = append(ochunks, c)
			pos += c
		}
		fl := kravatte.FlagNone
		if r.Bool() {
			fl = kravatte.FlagLastPart
		}
		if kv.Vatte(out[pos:], 8*(total-pos), fl) != 0 {
			v.fail("kra-or-vatte-returned-error", "final Vatte returned non-zero")
		}
		want := hvxcrypto.KravatteF(key, hist, total)
		if !bytes.Equal(out, want) {
			v.fail("output-differs-from-kravatte-sanse-specification", fmt.Sprintf("string %d: Vatte gives %s, the specification %s", s, short(out), short(want)))
		}
		items = append(items, hv.Tuple(ib(data), hv.Ni(nt), hv.Ni(int(tail)), ib(out)))
		desc += fmt.Sprintf(" | string[%d bytes + %d bits (0x%02x)]=%s in-chunks=%v out=%d bytes out-chunks=%v", n, nt, tail, short(data), chunks, total, ochunks)
	}
	hv.Emit(hv.Case{Fn: "c12k_ok", Coq: hv.Tuple(ib(key), hv.List(items)), Class: "kravatte-chunked", Desc: desc,
		Spec: v.ok, Sig: v.sig, What: v.what, NT: true})
}

// aliasing: results with overlapping buffers equal the results without; judged on the Go side only.
func aliasCase(r *hv.Rand, plen, alen int) {
	key := r.Bytes(16)
	p, a := r.Bytes(plen), r.Bytes(alen)
	v := verdict{ok: true}
	mk := func() cipher.AEAD { x, _ := kravatte.NewSANSE(key); return x }
	ref := mk().Seal(nil, nil, p, a)
	// 1. dst = plaintext[:0] with room for the tag
	buf := make([]byte, plen, plen+32)
	copy(buf, p)
	if got := mk().Seal(buf[:0], nil, buf, a); !bytes.Equal(got, ref) {
		v.fail("aliased-call-gives-different-result", fmt.Sprintf("Seal(dst=plaintext[:0]) gives %s, without aliasing %s", short(got), short(ref)))
	}
	// 2. dst = plaintext[:0] without room (must reallocate and leave the plaintext alone)
	buf2 := append([]byte{}, p...)
	buf2 = buf2[:plen:plen]
	if got := mk().Seal(buf2[:0], nil, buf2, a); !bytes.Equal(got, ref) || !bytes.Equal(buf2, p) {
		v.fail("aliased-call-gives-different-result", "Seal(dst=plaintext[:0], no capacity) gives a different result or changed the plaintext")
	}
	// 3. dst with a prefix
	pre := append(make([]byte, 0, 5+plen+32), 1, 2, 3, 4, 5)
	if got := mk().Seal(pre, nil, p, a); !bytes.Equal(got[:5], []byte{1, 2, 3, 4, 5}) || !bytes.Equal(got[5:], ref) {
		v.fail("aliased-call-gives-different-result", "Seal(dst=prefix) does not return prefix||sealed")
	}
	// 4. Open with dst = ciphertext[:0]
	ct := append([]byte{}, ref...)
	if got, err := mk().Open(ct[:0], nil, ct, a); err != nil || !bytes.Equal(got, p) {
		v.fail("aliased-call-gives-different-result", fmt.Sprintf("Open(dst=ciphertext[:0]) error=%v gives %s, expected %s", err, short(got), short(p)))
	}
	// 5. dst overlapping the associated data: one buffer  [ad | free space], dst starts inside ad
	for _, k := range []int{0, alen / 2, alen} {
		big := make([]byte, alen+plen+64)
		copy(big, a)
		if got := mk().Seal(big[k:k], nil, p, big[:alen]); !bytes.Equal(got, ref) {
			v.fail("aliased-call-gives-different-result", fmt.Sprintf("Seal(dst inside ad at %d) gives %s, without aliasing %s", k, short(got), short(ref)))
		}
		big2 := make([]byte, alen+len(ref)+64)
		copy(big2, a)
		if got, err := mk().Open(big2[k:k], nil, ref, big2[:alen]); err != nil || !bytes.Equal(got, p) {
			v.fail("aliased-call-gives-different-result", fmt.Sprintf("Open(dst inside ad at %d) error=%v gives %s", k, err, short(got)))
		}
	}
	// 6. plaintext and ad in one buffer next to each other, dst = the plaintext part
	both := make([]byte, alen+plen, alen+plen+32)
	copy(both, a)
	copy(both[alen:], p)
	if got := mk().Seal(both[alen:alen], nil, both[alen:], both[:alen]); !bytes.Equal(got, ref) || !bytes.Equal(both[:alen], a) {
		v.fail("aliased-call-gives-different-result", "Seal with ad and plaintext adjacent in one buffer gives a different result or changed ad")
	}
	// 7. inexact overlap: plaintext starts 8 bytes into dst's backing array
	if plen > 0 {
		sh := make([]byte, 8+plen, 8+plen+40)
		copy(sh[8:], p)
		if got := mk().Seal(sh[:0], nil, sh[8:], a); !bytes.Equal(got, ref) {
			v.fail("aliased-call-gives-different-result", "Seal with plaintext = dst shifted by 8 bytes gives a different result")
		}
	}
	hv.Emit(hv.Case{Class: "aliasing", Desc: fmt.Sprintf("key=%x A[%d]=%s P[%d]=%s: dst=plaintext[:0] (with/without capacity), dst=prefix, Open dst=ciphertext[:0], dst inside ad, adjacent ad|plaintext, shifted overlap", key, alen, short(a), plen, short(p)),
		Spec: v.ok, Sig: v.sig, What: v.what, NT: true})
}

// guarded runs one generator item; a Go panic inside the code under test is an observation.
func guarded(class, desc string, f func()) {
	if pn, msg := hv.Catch(f); pn {
		hv.Emit(hv.Case{Class: class, Desc: desc, Spec: false, Sig: sig("seal-or-open-panicked"), What: desc + ": panic: " + msg, NT: true})
	}
}

func main() {
	defer hv.Flush()
	r := hv.NewRand(hv.Seed())
	hv.Info(map[string]interface{}{"driver": "c12"})

	// --- regression: the trailing-key-bytes defect (fixed by "fix: snp.StateSetByte ...")
	k17 := make([]byte, 17)
	for i := range k17 {
		k17[i] = byte(i)
	}
	{
		v := verdict{ok: true}
		k2 := append([]byte{}, k17...)
		k2[16] = 0xff
		x, _ := kravatte.NewSANSE(k17)
		y, _ := kravatte.NewSANSE(k2)
		c1 := x.Seal(nil, nil, []byte("attack at dawn"), []byte("ad"))
		c2 := y.Seal(nil, nil, []byte("attack at dawn"), []byte("ad"))
		if bytes.Equal(c1, c2) {
			v.fail("key-byte-does-not-influence-output", fmt.Sprintf("17-byte keys %x and %x seal to the same %x", k17, k2, c1))
		}
		hv.Emit(hv.Case{Class: "regression-trailing-key-bytes", Desc: "two 17-byte keys differing only in byte 16 must seal differently", Spec: v.ok, Sig: v.sig, What: v.what, NT: true})
	}
	session("regression-trailing-key-bytes", k17, []msg{{[]byte("ad"), []byte("attack at dawn")}}, -1, r, true)

	// --- masks and constructor for every key length 0..201 (the property: 1..199)
	for l := 0; l <= 201; l++ {
		maskCase(r.Bytes(l))
	}
	session("constructor-limits", nil, nil, -1, r, false)
	session("constructor-limits", r.Bytes(200), nil, -1, r, false)
	session("constructor-limits", r.Bytes(260), nil, -1, r, false)

	// --- every key length 1..199: a short two-message session (all flips), key sensitivity at every byte
	for l := 1; l <= 199; l++ {
		key := r.Bytes(l)
		if l%hv.Scale(2, 1) == 0 || l < 40 {
			session("all-key-lengths", key, []msg{{r.Bytes(r.Intn(6)), r.Bytes(1 + r.Intn(24))}, {nil, r.Bytes(r.Intn(3))}}, -1, r, true)
		}
		guarded("key-sensitivity", fmt.Sprintf("key sensitivity, key[%d]=%x", l, key), func() { keySensitivity(key, r) })
	}

	// --- plaintext / associated-data lengths across the 200-byte block boundaries, multi-message sessions
	pl := []int{0, 1, 199, 200, 201, 399, 400, 401, 599, 600, 601, 799, 800, 801, 999, 1000, 1001, 1199, 1200, 1201, 1399, 1400, 1401}
	al := []int{0, 0, 1, 2, 8, 198, 199, 200, 201, 399, 400, 401}
	// every boundary plaintext length once (single message, all flips), AD cycling through its boundaries
	for i, n := range pl {
		session("length-boundary", r.Bytes(hv.Pick(r, []int{16, 32})), []msg{{r.Bytes(al[i%len(al)]), r.Bytes(n)}}, -1, r, true)
	}
	for _, n := range al {
		session("length-boundary", r.Bytes(16), []msg{{r.Bytes(n), r.Bytes(hv.Pick(r, []int{0, 1, 31, 200}))}}, -1, r, true)
	}
	for i := 0; i < hv.Scale(70, 1500); i++ {
		nm := 1 + r.Intn(4)
		var ms []msg
		for j := 0; j < nm; j++ {
			p := hv.Pick(r, pl)
			if r.Chance(35) {
				p = r.Intn(300)
			}
			a := hv.Pick(r, al)
			if r.Chance(30) {
				a = r.Intn(40)
			}
			ms = append(ms, msg{r.Bytes(a), r.Bytes(p)})
		}
		tamper := -1
		if r.Chance(45) {
			tamper = r.Intn(nm)
		}
		key := r.Bytes(hv.Pick(r, []int{16, 16, 32, 32, 1, 5, 17, 64, 199}))
		session("multi-message-session", key, ms, tamper, r, r.Chance(hv.Scale(40, 100)))
	}
	// --- long sessions on one instance: 5..14 messages of mixed lengths incl. empty ones.  The session bit e
	// alternates for the whole session, so anything that only shows after several messages (a counter instead
	// of a bit, state that drifts) shows here; half of them make the receiver open what a conformant peer
	// (the reference) sealed, a third see one flipped bit somewhere (the rest of the session is then compared
	// out of step: in this code a rejected message still advances the session, as the model has it).
	for i := 0; i < hv.Scale(36, 600); i++ {
		nm := 5 + r.Intn(10)
		var ms []msg
		for j := 0; j < nm; j++ {
			p := hv.Pick(r, []int{0, 0, 1, 2, 16, 31, 32, 33, r.Intn(64), r.Intn(64), hv.Pick(r, []int{199, 200, 201, 400})})
			a := hv.Pick(r, []int{0, 0, 1, 4, 12, r.Intn(32), hv.Pick(r, []int{199, 200, 201})})
			ms = append(ms, msg{r.Bytes(a), r.Bytes(p)})
		}
		tamper := -1
		if r.Chance(33) {
			tamper = r.Intn(nm)
		}
		feedReference = i%2 == 1
		class := "long-session"
		if feedReference {
			class = "long-session-reference-sealed"
		}
		session(class, r.Bytes(hv.Pick(r, []int{16, 16, 32, 7, 33})), ms, tamper, r, false)
	}
	feedReference = false

	// A flipped tag bit also changes the decryption stream (T keys it), so with a non-empty ciphertext the
	// recomputed tag differs everywhere; only on EMPTY plaintexts is the tag compared against a value that
	// does not depend on it.  These sessions put the receiver-side flip into tag bytes 16..31 of such a
	// message (this is where a comparison truncated to 16 bytes shows in the model comparison as well).
	forceTagSecondHalf = true
	for i := 0; i < hv.Scale(16, 200); i++ {
		ms := []msg{{r.Bytes(r.Intn(20)), r.Bytes(r.Intn(40))}, {r.Bytes(hv.Pick(r, []int{0, 0, 1, 8, 200})), nil}, {r.Bytes(r.Intn(4)), r.Bytes(r.Intn(20))}}
		session("empty-plaintext-tag-tamper", r.Bytes(hv.Pick(r, []int{16, 32})), ms, 1, r, false)
	}
	forceTagSecondHalf = false
	if hv.Thorough() { // maximum hop packet (transport.MaxPlaintextSize is about 64.5 kB)
		for _, n := range []int{4000, 16384, 64478, 64479} {
			session("max-packet", r.Bytes(16), []msg{{r.Bytes(12), r.Bytes(n)}}, -1, r, n < 20000)
		}
	} else {
		session("large-packet", r.Bytes(16), []msg{{r.Bytes(12), r.Bytes(4000)}}, -1, r, false)
	}

	// --- aliasing
	for _, n := range []int{0, 1, 31, 32, 33, 199, 200, 201, 400, 1400} {
		for _, a := range []int{0, 1, 16, 200, 201} {
			guarded("aliasing", fmt.Sprintf("aliasing P[%d] A[%d]", n, a), func() { aliasCase(r, n, a) })
		}
	}

	// --- the Kravatte object with chunked input and output
	for i := 0; i < hv.Scale(120, 3000); i++ {
		guarded("kravatte-chunked", "chunked Kra/Vatte sequence", func() { kravatteCase(r) })
	}
}
