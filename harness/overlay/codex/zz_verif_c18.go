//go:build verif

package codex

import "github.com/creack/pty"

// VerifWireExecInitBytes = newExecInitMsg(...).ToBytes(); hasSize=false passes a nil *pty.Winsize.
func VerifWireExecInitBytes(usePty bool, cmd, term string, hasSize bool, rows, cols, x, y uint16) []byte {
	var size *pty.Winsize
	if hasSize {
		size = &pty.Winsize{Rows: rows, Cols: cols, X: x, Y: y}
	}
	return newExecInitMsg(usePty, cmd, term, size).ToBytes()
}
