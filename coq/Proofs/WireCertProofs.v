(* Proofs about Model/WireCert.v: Name, IDChunk, Certificate codecs. *)
From Hop Require Import Base WireBase WireCert WireBaseProofs.
From Coq Require Import ZifyN ZifyNat ZifyBool.
Ltac Zify.zify_post_hook ::= Z.div_mod_to_equations.
Open Scope N_scope.

(* destruct a monadic bind in a hypothesis  H : val (x <~ m ;; k) s = Ok _ *)
Ltac inv_bind H a s' E :=
  rewrite val_bind in H;
  match type of H with
  | match ?X with _ => _ end = _ => destruct X as [[a s']| |] eqn:E; try discriminate H
  end.

Ltac split_wf H :=
  repeat (rewrite wf_app in H; let H1 := fresh H in apply andb_prop in H; destruct H as [H1 H]).

(* ====================== Name ====================== *)
Lemma enc_name_ok n b :
  enc_name n = Ok b ->
  len (n_label n) <= 252 /\ b = (len (n_label n) + 3) :: (n_type n mod 256) :: len (n_label n) :: n_label n.
Proof.
  unfold enc_name. destruct (255 <? len (n_label n) + 3) eqn:E1; [discriminate|].
  destruct (252 <? len (n_label n)) eqn:E2; [discriminate|].
  intros H. injection H as <-. split; [lia|].
  rewrite (N.mod_small (len (n_label n) + 3)), (N.mod_small (len (n_label n))) by lia. reflexivity.
Qed.

Lemma name_roundtrip n b rest :
  enc_name n = Ok b -> wt_name n = true -> val dec_name (b ++ rest) = Ok (n, rest).
Proof.
  intros H Hwt. apply enc_name_ok in H. destruct H as [Hl ->].
  unfold wt_name in Hwt. apply andb_prop in Hwt. destruct Hwt as [_ Hty].
  rewrite N.mod_small by lia.
  set (L := len (n_label n)) in *.
  change (((L + 3) :: n_type n :: L :: n_label n) ++ rest)
    with ([L + 3] ++ ([n_type n] ++ ([L] ++ (n_label n ++ rest)))).
  unfold dec_name.
  rewrite val_bind, val_read_fixed. change 1 with (len [L + 3]) at 1. rewrite val_read_full_app. cbn [byte1 hd].
  replace (L + 3 <? 3) with false by lia.
  rewrite val_bind, val_read_fixed. change 1 with (len [n_type n]) at 1. rewrite val_read_full_app.
  rewrite val_bind, val_read_fixed. change 1 with (len [L]) at 1. rewrite val_read_full_app. cbn [byte1 hd].
  replace (L + 3 - 3 <? L) with false by lia.
  rewrite val_bind, val_copy_n. unfold L. rewrite val_read_full_app. rewrite val_ret.
  destruct n; reflexivity.
Qed.

Lemma name_dec_sound s n r :
  val dec_name s = Ok (n, r) -> wf_bytes s = true ->
  wt_name n = true /\ repr_name n = true /\ wf_bytes r = true /\
  exists p, s = p ++ r /\ len p = 3 + len (n_label n).
Proof.
  unfold dec_name. intros H Hwf.
  inv_bind H bs s1 E1. rewrite val_read_fixed in E1. apply val_read_full_inv in E1. destruct E1 as (-> & Hb & _ & _).
  destruct (byte1 bs <? 3) eqn:Eb; [discriminate|].
  inv_bind H ty s2 E2. rewrite val_read_fixed in E2. apply val_read_full_inv in E2. destruct E2 as (-> & Ht & _ & _).
  inv_bind H il s3 E3. rewrite val_read_fixed in E3. apply val_read_full_inv in E3. destruct E3 as (-> & Hi & _ & _).
  destruct (byte1 bs - 3 <? byte1 il) eqn:Ei; [discriminate|].
  inv_bind H lab s4 E4. rewrite val_copy_n in E4. apply val_read_full_inv in E4. destruct E4 as (-> & Hlab & _ & _).
  rewrite val_ret in H. injection H as <- <-.
  split_wf Hwf.
  pose proof (wf_hd _ Hwf0). pose proof (wf_hd _ Hwf1). pose proof (wf_hd _ Hwf2).
  unfold wt_name, repr_name. cbn [n_label n_type].
  repeat split.
  - rewrite Hwf3. cbn. lia.
  - lia.
  - exact Hwf.
  - exists (bs ++ ty ++ il ++ lab). rewrite <- !app_assoc. split; [reflexivity|]. rewrite !len_app. lia.
Qed.

Lemma name_enc_complete n : repr_name n = true -> exists b, enc_name n = Ok b.
Proof.
  unfold repr_name, enc_name. intros H.
  replace (255 <? len (n_label n) + 3) with false by lia.
  replace (252 <? len (n_label n)) with false by lia. eauto.
Qed.
Lemma enc_name_repr n b : enc_name n = Ok b -> repr_name n = true.
Proof. intros H. apply enc_name_ok in H. unfold repr_name. lia. Qed.
Lemma enc_name_no_panic n : enc_name n <> Panic.
Proof. unfold enc_name. repeat destruct (_ <? _); discriminate. Qed.

Lemma dec_name_no_panic s : val dec_name s <> Panic.
Proof.
  unfold dec_name.
  rewrite val_bind, val_read_fixed. destruct (val (read_full 1) s) as [[bs s1]| |] eqn:E1; try discriminate;
    [|exfalso; eapply val_read_full_err; eauto].
  destruct (byte1 bs <? 3); [discriminate|].
  rewrite val_bind, val_read_fixed. destruct (val (read_full 1) s1) as [[ty s2]| |] eqn:E2; try discriminate;
    [|exfalso; eapply val_read_full_err; eauto].
  rewrite val_bind, val_read_fixed. destruct (val (read_full 1) s2) as [[il s3]| |] eqn:E3; try discriminate;
    [|exfalso; eapply val_read_full_err; eauto].
  destruct (byte1 bs - 3 <? byte1 il); [discriminate|].
  rewrite val_bind, val_copy_n. destruct (val (read_full (byte1 il)) s3) as [[lab s4]| |] eqn:E4; try discriminate.
  exfalso; eapply val_read_full_err; eauto.
Qed.

(* a name costs its 3 header bytes, the copy buffer (at most the label length) and the label *)
Lemma dec_name_cost s : wf_bytes s = true -> cost dec_name s <= 513.
Proof.
  intros Hwf. unfold dec_name.
  rewrite cost_bind, cost_read_fixed, val_read_fixed.
  destruct (val (read_full 1) s) as [[bs s1]| |] eqn:E1; try lia.
  apply val_read_full_inv in E1. destruct E1 as (-> & _ & _ & _). split_wf Hwf.
  destruct (byte1 bs <? 3); [rewrite cost_fail; lia|].
  rewrite cost_bind, cost_read_fixed, val_read_fixed.
  destruct (val (read_full 1) s1) as [[ty s2]| |] eqn:E2; try lia.
  apply val_read_full_inv in E2. destruct E2 as (-> & _ & _ & _). split_wf Hwf.
  rewrite cost_bind, cost_read_fixed, val_read_fixed.
  destruct (val (read_full 1) s2) as [[il s3]| |] eqn:E3; try lia.
  apply val_read_full_inv in E3. destruct E3 as (-> & _ & _ & _). split_wf Hwf.
  pose proof (wf_hd _ Hwf2).
  destruct (byte1 bs - 3 <? byte1 il); [rewrite cost_fail; lia|].
  rewrite cost_bind.
  assert (cost (copy_n (byte1 il)) s3 <= 2 * byte1 il).
  { unfold cost, copy_n. destruct (N.leb_spec (byte1 il) (len s3)); cbn [snd]; lia. }
  destruct (val (copy_n (byte1 il)) s3) as [[lab s4]| |]; rewrite ?cost_ret; lia.
Qed.

(* ====================== IDChunk ====================== *)
Lemma body_len_ge c : 3 * N.of_nat (List.length c) <= chunk_body_len c.
Proof. induction c; cbn [chunk_body_len Datatypes.length]; lia. Qed.

Lemma enc_names_ok c bs :
  enc_names c = Ok bs -> forallb repr_name c = true /\ len bs = chunk_body_len c.
Proof.
  revert bs. induction c as [|n c IH]; intros bs H; cbn [enc_names] in H.
  - injection H as <-. split; reflexivity.
  - apply app_res_ok in H. destruct H as (x & y & Hx & Hy & ->).
    destruct (IH _ Hy) as [IH1 IH2]. cbn [forallb chunk_body_len].
    rewrite (enc_name_repr _ _ Hx), IH1. split; [reflexivity|].
    apply enc_name_ok in Hx. destruct Hx as [_ ->]. rewrite len_app, !len_cons, IH2. lia.
Qed.

Lemma dec_blocks_roundtrip c :
  forall fuel bl read acc bs rest,
    enc_names c = Ok bs -> wt_chunk c = true -> (List.length c <= fuel)%nat ->
    read + chunk_body_len c = bl ->
    val (dec_blocks fuel bl read acc) (bs ++ rest) = Ok (acc ++ c, rest).
Proof.
  induction c as [|n c IH]; intros fuel bl read acc bs rest He Hwt Hf Hbl.
  - cbn [enc_names] in He. injection He as <-. cbn [chunk_body_len] in Hbl.
    destruct fuel; cbn [dec_blocks];
      replace (read <? bl) with false by lia; replace (read =? bl) with true by lia;
      rewrite val_ret, app_nil_r; reflexivity.
  - cbn [enc_names] in He. apply app_res_ok in He. destruct He as (x & y & Hx & Hy & ->).
    cbn [wt_chunk forallb] in Hwt. apply andb_prop in Hwt. destruct Hwt as [Hwn Hwc].
    cbn [chunk_body_len] in Hbl. cbn [Datatypes.length] in Hf.
    destruct fuel as [|f]; [lia|]. cbn [dec_blocks].
    replace (read <? bl) with true by lia.
    rewrite val_bind, <- app_assoc, (name_roundtrip _ _ _ Hx Hwn).
    rewrite (IH f bl _ (acc ++ [n]) y rest Hy Hwc); [rewrite <- app_assoc; reflexivity|lia|lia].
Qed.

Lemma enc_chunk_ok c b :
  enc_chunk c = Ok b ->
  chunk_serialized_len c <= 512 /\ exists bs, enc_names c = Ok bs /\ b = be_enc 2 (chunk_serialized_len c) ++ bs.
Proof.
  unfold enc_chunk. destruct (512 <? chunk_serialized_len c) eqn:E; [discriminate|].
  intros H. rewrite N.mod_small in H by lia.
  apply app_res_ok in H. destruct H as (x & y & Hx & Hy & ->).
  assert (x = be_enc 2 (chunk_serialized_len c)) as -> by congruence.
  split; [lia|]. exists y. split; [exact Hy|]. reflexivity.
Qed.

Lemma chunk_roundtrip c b rest :
  enc_chunk c = Ok b -> wt_chunk c = true -> val dec_chunk (b ++ rest) = Ok (c, rest).
Proof.
  intros H Hwt. apply enc_chunk_ok in H. destruct H as (Hl & bs & Hbs & ->).
  unfold dec_chunk, chunk_serialized_len in *.
  rewrite <- app_assoc, val_bind, val_read_fixed.
  replace 2 with (len (be_enc 2 (2 + chunk_body_len c))) at 1 by (rewrite len_be_enc; reflexivity).
  rewrite val_read_full_app, be_dec_enc by (change (256 ^ N.of_nat 2) with 65536; lia).
  replace (512 <? 2 + chunk_body_len c) with false by lia.
  replace (2 + chunk_body_len c <? 2) with false by lia. cbn [orb].
  pose proof (body_len_ge c).
  rewrite (dec_blocks_roundtrip c chunk_fuel _ 0 [] bs rest Hbs Hwt); [reflexivity| |lia].
  unfold chunk_fuel. lia.
Qed.

Lemma dec_blocks_sound fuel :
  forall bl read acc s c r,
    val (dec_blocks fuel bl read acc) s = Ok (c, r) -> wf_bytes s = true ->
    exists c', c = acc ++ c' /\ wt_chunk c' = true /\ forallb repr_name c' = true /\
               read + chunk_body_len c' = bl /\ wf_bytes r = true.
Proof.
  induction fuel as [|f IH]; intros bl read acc s c r H Hwf; cbn [dec_blocks] in H.
  - destruct (read <? bl) eqn:E1; [discriminate|].
    destruct (read =? bl) eqn:E2; [|discriminate].
    rewrite val_ret in H. injection H as <- <-. exists []. rewrite app_nil_r. cbn. repeat split; auto. lia.
  - destruct (read <? bl) eqn:E1.
    + inv_bind H nm s1 En.
      destruct (name_dec_sound _ _ _ En Hwf) as (Hw & Hr & Hwf1 & _).
      destruct (IH _ _ _ _ _ _ H Hwf1) as (c' & -> & Hwc & Hrc & Hbl & Hwr).
      exists (nm :: c'). rewrite <- app_assoc. cbn [app wt_chunk forallb chunk_body_len].
      unfold wt_chunk in Hwc. rewrite Hw, Hr, Hwc, Hrc. repeat split; auto. lia.
    + destruct (read =? bl) eqn:E2; [|discriminate].
      rewrite val_ret in H. injection H as <- <-. exists []. rewrite app_nil_r. cbn. repeat split; auto. lia.
Qed.

Lemma chunk_dec_sound s c r :
  val dec_chunk s = Ok (c, r) -> wf_bytes s = true ->
  wt_chunk c = true /\ repr_chunk c = true /\ wf_bytes r = true.
Proof.
  unfold dec_chunk. intros H Hwf.
  inv_bind H l s1 E1. rewrite val_read_fixed in E1. apply val_read_full_inv in E1. destruct E1 as (-> & Hl & _ & _).
  split_wf Hwf.
  destruct ((512 <? be_dec l) || (be_dec l <? 2)) eqn:E; [discriminate|].
  apply orb_false_elim in E. destruct E as [Ea Eb].
  destruct (dec_blocks_sound _ _ _ _ _ _ _ H Hwf) as (c' & -> & Hw & Hr & Hbl & Hwr).
  cbn [app]. unfold repr_chunk, chunk_serialized_len. rewrite Hw, Hr. repeat split; auto.
  cbn [andb]. lia.
Qed.

Lemma enc_names_complete c : forallb repr_name c = true -> exists bs, enc_names c = Ok bs.
Proof.
  induction c as [|n c IH]; cbn [forallb enc_names]; intros H; [eauto|].
  apply andb_prop in H. destruct H as [Hn Hc].
  destruct (name_enc_complete _ Hn) as [x ->]. destruct (IH Hc) as [y ->]. eexists. reflexivity.
Qed.
Lemma chunk_enc_complete c : repr_chunk c = true -> exists b, enc_chunk c = Ok b.
Proof.
  unfold repr_chunk, enc_chunk. intros H. apply andb_prop in H. destruct H as [Hn Hl].
  replace (512 <? chunk_serialized_len c) with false by lia.
  destruct (enc_names_complete _ Hn) as [y ->]. eexists. reflexivity.
Qed.
Lemma enc_chunk_repr c b : enc_chunk c = Ok b -> repr_chunk c = true.
Proof.
  intros H. apply enc_chunk_ok in H. destruct H as (Hl & bs & Hbs & _).
  apply enc_names_ok in Hbs. destruct Hbs as [Hr _]. unfold repr_chunk. rewrite Hr. cbn [andb]. apply N.leb_le. exact Hl.
Qed.

Lemma enc_names_no_panic c : enc_names c <> Panic.
Proof.
  induction c; cbn [enc_names]; [discriminate|]. apply app_res_no_panic; [apply enc_name_no_panic|assumption].
Qed.
Lemma enc_chunk_no_panic c : enc_chunk c <> Panic.
Proof.
  unfold enc_chunk. destruct (_ <? _); [discriminate|]. apply app_res_no_panic; [discriminate|apply enc_names_no_panic].
Qed.

(* the fuel never runs out: every block consumes at least 3 bytes *)
Lemma dec_blocks_no_panic fuel :
  forall bl read acc s, bl <= read + 3 * N.of_nat fuel -> wf_bytes s = true ->
                        val (dec_blocks fuel bl read acc) s <> Panic.
Proof.
  induction fuel as [|f IH]; intros bl read acc s Hf Hwf; cbn [dec_blocks].
  - replace (read <? bl) with false by lia. destruct (read =? bl); discriminate.
  - destruct (read <? bl) eqn:E; [|destruct (read =? bl); discriminate].
    rewrite val_bind. destruct (val dec_name s) as [[nm s1]| |] eqn:En; try discriminate.
    + destruct (name_dec_sound _ _ _ En Hwf) as (_ & _ & Hwf1 & _). apply IH; [lia|exact Hwf1].
    + exfalso. eapply dec_name_no_panic; eauto.
Qed.

Lemma dec_chunk_no_panic s : wf_bytes s = true -> val dec_chunk s <> Panic.
Proof.
  intros Hwf. unfold dec_chunk. rewrite val_bind, val_read_fixed.
  destruct (val (read_full 2) s) as [[l s1]| |] eqn:E1; try discriminate;
    [|exfalso; eapply val_read_full_err; eauto].
  apply val_read_full_inv in E1. destruct E1 as (-> & _ & _ & _). split_wf Hwf.
  destruct ((512 <? be_dec l) || (be_dec l <? 2)) eqn:E; [discriminate|].
  apply orb_false_elim in E. destruct E as [Ea Eb].
  apply dec_blocks_no_panic; [unfold chunk_fuel; lia|exact Hwf].
Qed.

Lemma dec_blocks_cost fuel :
  forall bl read acc s, wf_bytes s = true -> cost (dec_blocks fuel bl read acc) s <= 513 * N.of_nat fuel.
Proof.
  induction fuel as [|f IH]; intros bl read acc s Hwf; cbn [dec_blocks].
  - destruct (read <? bl); [cbn; lia|]. destruct (read =? bl); cbn; lia.
  - destruct (read <? bl); [|destruct (read =? bl); cbn; lia].
    rewrite cost_bind. pose proof (dec_name_cost s Hwf).
    destruct (val dec_name s) as [[nm s1]| |] eqn:En; try lia.
    destruct (name_dec_sound _ _ _ En Hwf) as (_ & _ & Hwf1 & _).
    specialize (IH bl (read + 3 + len (n_label nm)) (acc ++ [nm]) s1 Hwf1). lia.
Qed.

Definition chunk_cost_bound : N := 2 + 513 * 172.
Lemma dec_chunk_cost s : wf_bytes s = true -> cost dec_chunk s <= chunk_cost_bound.
Proof.
  intros Hwf. unfold dec_chunk, chunk_cost_bound. rewrite cost_bind, cost_read_fixed, val_read_fixed.
  destruct (val (read_full 2) s) as [[l s1]| |] eqn:E1; try lia.
  apply val_read_full_inv in E1. destruct E1 as (-> & _ & _ & _). split_wf Hwf.
  destruct ((512 <? be_dec l) || (be_dec l <? 2)); [rewrite cost_fail; lia|].
  pose proof (dec_blocks_cost chunk_fuel (be_dec l - 2) 0 [] s1 Hwf). unfold chunk_fuel in *. lia.
Qed.

(* ====================== Certificate ====================== *)
Lemma max_unix_lt : max_unix_time < 2 ^ 63.
Proof. unfold max_unix_time. lia. Qed.

Lemma enc_cert_ok c b :
  enc_cert c = Ok b ->
  exists ch, enc_chunk (c_chunk c) = Ok ch /\
    b = ([c_version c mod 256; c_type c mod 256; 0; 0] ++ be_enc 8 (c_issued c) ++ be_enc 8 (c_expires c)
          ++ c_pub c ++ c_parent c) ++ ch ++ c_sig c.
Proof.
  unfold enc_cert. intros H. apply app_res_ok in H. destruct H as (x & y & Hx & Hy & ->).
  injection Hx as <-. apply app_res_ok in Hy. destruct Hy as (ch & sg & Hch & Hsg & ->).
  injection Hsg as <-. eauto.
Qed.

Ltac wt_cert_split H :=
  unfold wt_cert in H;
  repeat (let H1 := fresh H in apply andb_prop in H; destruct H as [H H1]).

Lemma cert_roundtrip c b rest :
  enc_cert c = Ok b -> wt_cert c = true -> val dec_cert (b ++ rest) = Ok (c, rest).
Proof.
  intros H Hwt. apply enc_cert_ok in H. destruct H as (ch & Hch & ->).
  wt_cert_split Hwt.
  pose proof max_unix_lt as Hm.
  rewrite !N.mod_small by lia.
  rewrite <- !app_assoc.
  change ([c_version c; c_type c; 0; 0] ++ ?t) with ([c_version c] ++ ([c_type c] ++ ([0; 0] ++ t))).
  unfold dec_cert.
  rewrite val_bind, val_read_fixed. change 1 with (len [c_version c]) at 1. rewrite val_read_full_app.
  rewrite val_bind, val_read_fixed. change 1 with (len [c_type c]) at 1. rewrite val_read_full_app.
  rewrite val_bind, val_read_fixed. change 2 with (len [0; 0]) at 1. rewrite val_read_full_app.
  rewrite val_bind, val_read_fixed.
  replace 8 with (len (be_enc 8 (c_issued c))) at 1 by (rewrite len_be_enc; reflexivity).
  rewrite val_read_full_app, be_dec_enc by (change (256 ^ N.of_nat 8) with (2 ^ 64); lia).
  replace (max_unix_time <? c_issued c) with false by lia.
  rewrite val_bind, val_read_fixed.
  replace 8 with (len (be_enc 8 (c_expires c))) at 1 by (rewrite len_be_enc; reflexivity).
  rewrite val_read_full_app, be_dec_enc by (change (256 ^ N.of_nat 8) with (2 ^ 64); lia).
  replace (max_unix_time <? c_expires c) with false by lia.
  rewrite val_bind, val_read_fixed.
  replace 32 with (len (c_pub c)) at 1 by lia. rewrite val_read_full_app.
  rewrite val_bind.
  replace 32 with (len (c_parent c)) at 1 by lia. rewrite val_read_full_app.
  rewrite val_bind, (chunk_roundtrip _ _ _ Hch Hwt6).
  rewrite val_bind.
  replace 64 with (len (c_sig c)) at 1 by lia. rewrite val_read_full_app.
  rewrite val_ret. cbn [byte1 hd]. destruct c; reflexivity.
Qed.

Lemma cert_dec_sound s c r :
  val dec_cert s = Ok (c, r) -> wf_bytes s = true ->
  wt_cert c = true /\ repr_cert c = true /\ wf_bytes r = true.
Proof.
  unfold dec_cert. intros H Hwf.
  inv_bind H v s1 E1. rewrite val_read_fixed in E1. apply val_read_full_inv in E1. destruct E1 as (-> & Hv & _ & _). split_wf Hwf.
  inv_bind H t s2 E2. rewrite val_read_fixed in E2. apply val_read_full_inv in E2. destruct E2 as (-> & Ht & _ & _). split_wf Hwf.
  inv_bind H rs s3 E3. rewrite val_read_fixed in E3. apply val_read_full_inv in E3. destruct E3 as (-> & Hrs & _ & _). split_wf Hwf.
  inv_bind H ib s4 E4. rewrite val_read_fixed in E4. apply val_read_full_inv in E4. destruct E4 as (-> & Hib & _ & _). split_wf Hwf.
  destruct (max_unix_time <? be_dec ib) eqn:Ei; [discriminate|].
  inv_bind H eb s5 E5. rewrite val_read_fixed in E5. apply val_read_full_inv in E5. destruct E5 as (-> & Heb & _ & _). split_wf Hwf.
  destruct (max_unix_time <? be_dec eb) eqn:Ee; [discriminate|].
  inv_bind H pk s6 E6. rewrite val_read_fixed in E6. apply val_read_full_inv in E6. destruct E6 as (-> & Hpk & _ & _). split_wf Hwf.
  inv_bind H par s7 E7. apply val_read_full_inv in E7. destruct E7 as (-> & Hpar & _ & _). split_wf Hwf.
  inv_bind H ch s8 E8. destruct (chunk_dec_sound _ _ _ E8 Hwf) as (Hwc & Hrc & Hwf8).
  inv_bind H sg s9 E9. apply val_read_full_inv in E9. destruct E9 as (-> & Hsg & _ & _). split_wf Hwf8.
  rewrite val_ret in H. injection H as <- <-.
  pose proof (wf_hd _ Hwf0). pose proof (wf_hd _ Hwf1).
  unfold wt_cert, repr_cert. cbn [c_version c_type c_issued c_expires c_chunk c_pub c_parent c_sig].
  rewrite Hwc, Hrc, Hwf5, Hwf6, Hwf7, Hpk, Hpar, Hsg.
  repeat split; auto.
  repeat (apply andb_true_intro; split); try reflexivity; lia.
Qed.

Lemma cert_enc_complete c : repr_cert c = true -> exists b, enc_cert c = Ok b.
Proof.
  unfold repr_cert, enc_cert. intros H. destruct (chunk_enc_complete _ H) as [ch ->]. eexists. reflexivity.
Qed.
Lemma enc_cert_repr c b : enc_cert c = Ok b -> repr_cert c = true.
Proof. intros H. apply enc_cert_ok in H. destruct H as (ch & Hch & _). eapply enc_chunk_repr; eauto. Qed.
Lemma enc_cert_no_panic c : enc_cert c <> Panic.
Proof.
  unfold enc_cert. apply app_res_no_panic; [discriminate|].
  apply app_res_no_panic; [apply enc_chunk_no_panic|discriminate].
Qed.

(* generic step for totality / cost proofs over strict readers *)
Ltac step_read_np :=
  rewrite val_bind, ?val_read_fixed, ?val_copy_n;
  match goal with
  | |- match val (read_full ?k) ?s with _ => _ end <> Panic =>
      let a := fresh "a" in let s' := fresh "s" in let E := fresh "E" in
      destruct (val (read_full k) s) as [[a s']| |] eqn:E;
      [apply val_read_full_inv in E; destruct E as (-> & _ & _ & _)
      |discriminate
      |exfalso; eapply val_read_full_err; eauto]
  end.

Lemma dec_cert_no_panic s : wf_bytes s = true -> val dec_cert s <> Panic.
Proof.
  intros Hwf. unfold dec_cert.
  step_read_np. split_wf Hwf. step_read_np. split_wf Hwf. step_read_np. split_wf Hwf. step_read_np. split_wf Hwf.
  destruct (_ <? _); [discriminate|].
  step_read_np. split_wf Hwf. destruct (_ <? _); [discriminate|].
  step_read_np. split_wf Hwf. step_read_np. split_wf Hwf.
  rewrite val_bind.
  match goal with |- match val dec_chunk ?s with _ => _ end <> Panic =>
    destruct (val dec_chunk s) as [[ch s7]| |] eqn:Ec; try discriminate end.
  - step_read_np. discriminate.
  - exfalso. eapply dec_chunk_no_panic; eauto.
Qed.

Definition cert_cost_bound : N := 52 + chunk_cost_bound.
Lemma dec_cert_cost s : wf_bytes s = true -> cost dec_cert s <= cert_cost_bound.
Proof.
  intros Hwf. unfold dec_cert, cert_cost_bound.
  repeat match goal with
  | |- context [cost (bindM (read_fixed ?k) ?f) ?s] =>
      rewrite (cost_bind (read_fixed k) f s), cost_read_fixed, val_read_fixed;
      let a := fresh "a" in let s' := fresh "s" in let E := fresh "E" in
      destruct (val (read_full k) s) as [[a s']| |] eqn:E; [|lia|lia];
      apply val_read_full_inv in E; destruct E as (-> & _ & _ & _); split_wf Hwf
  | |- context [cost (bindM (read_full ?k) ?f) ?s] =>
      rewrite (cost_bind (read_full k) f s), cost_read_full;
      let a := fresh "a" in let s' := fresh "s" in let E := fresh "E" in
      destruct (val (read_full k) s) as [[a s']| |] eqn:E; [|lia|lia];
      apply val_read_full_inv in E; destruct E as (-> & _ & _ & _); split_wf Hwf
  | |- context [if ?b then failM else _] => destruct b; [rewrite cost_fail; lia|]
  end.
  rewrite cost_bind. pose proof (dec_chunk_cost _ Hwf).
  match goal with |- context [val dec_chunk ?s] =>
    destruct (val dec_chunk s) as [[ch s6]| |] eqn:Ec; try lia end.
  rewrite cost_bind, cost_read_full. destruct (val (read_full 64) s6) as [[sg s7]| |]; rewrite ?cost_ret; lia.
Qed.
