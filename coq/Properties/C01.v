(* C01 — a handshake completes only with a peer that proved its certified key. *)
From Hop Require Import Base Handshake HsServer HandshakeProofs.
Open Scope N_scope.

(* The client accepts a ServerAuth only if the policy admits the decrypted certificate for the
   expected name and the trailing MAC is the squeeze of the transcript that absorbed
   DH(e, s_cert). *)
Theorem c01_client_accept_server_auth : forall O X ce pol T b T' r,
  read_server_auth O X ce pol T b = (T', Ok r) ->
  exists ee des leaf inter,
    at_ b 0 = MT_ServerAuth /\ SAMinLen + sa_L b <= len b /\ sa_n r = SAMinLen + sa_L b /\
    sa_sid r = slice b HeaderLen SessionIDLen /\ sa_eph r = slice b (HeaderLen + SessionIDLen) DHLen /\
    x_dh X ce (sa_eph r) = Some ee /\
    certs_of (sa_certs_pt O T b ee) (len (slice b sa_off (sa_L b))) = Ok (leaf, inter) /\
    slice b (sa_off + sa_L b) MacLen = o_sq O (sa_T5 O T b ee) MacLen /\
    x_policy X pol leaf inter = Some (sa_pk r) /\
    x_dh X ce (sa_pk r) = Some des /\
    slice b (sa_off + sa_L b + MacLen) MacLen = o_sq O (sa_T7 O T b ee des) MacLen /\
    T' = OSqueeze MacLen :: sa_T7 O T b ee des.
Proof. exact read_server_auth_accept. Qed.
Print Assumptions c01_client_accept_server_auth.
