(* Handshake.v — the PQ handshake message readers and writers of transport/handshake_pq.go
   (the ones wired into client.go / server.go), transport/handshake.go (cookie, SNI, final
   keys, certificateParserAndVerifier) and transport/duplex.go (certificate vectors, cookie
   replay), over a SYMBOLIC duplex.

   The duplex state is the transcript: the list of operations performed on it, newest first,
   with their byte arguments.  What the real Cyclist returns for Squeeze / Decrypt / Encrypt
   is an oracle indexed by the transcript (record [doracle]); X25519, ML-KEM, the certificate
   policy, the cookie AEAD and SHA3 are oracles too.  Theorems quantify over ALL oracles; the
   correspondence instantiates them with the values the real Go run produced.

   Every reader returns the transcript it leaves behind together with its outcome, because
   the Go readers mutate the (possibly stored) handshake state before they reject.

   Definitions only. *)
From Hop Require Import Base.
Open Scope N_scope.

(* ------------------------------------------------------------------ constants (common.go) *)
Definition HeaderLen : N := 4.
Definition MacLen : N := 16.
Definition KeyLen : N := 16.
Definition DHLen : N := 32.
Definition SNILen : N := 256.
Definition SessionIDLen : N := 4.
Definition TimestampLen : N := 8.
Definition KemCtLen : N := 768.
Definition KemKeyLen : N := 800.
Definition PQCookieLen : N := 64.
Definition PQSharedSecretLen : N := 32.
Definition HiddenExpiration : N := 5.

Definition MT_ClientHello : N := 1.
Definition MT_ServerHello : N := 2.
Definition MT_ClientAck : N := 3.
Definition MT_ServerAuth : N := 4.
Definition MT_ClientAuth : N := 5.
Definition MT_ClientRequestHidden : N := 8.
Definition MT_ServerResponseHidden : N := 9.
Definition MT_Transport : N := 16.
Definition MT_Control : N := 128.
Definition Version : N := 1.

(* protocol names as byte strings; only their distinctness and fixedness matter *)
Definition PQName : bytes := hex "686f705f70714e4e5f58585f6379636c6973745f6b656363616b5f70313630305f3132".
Definition PQHiddenName : bytes := hex "686f705f7071494b5f6379636c6973745f6b656363616b5f43353132".
Definition LblC2S : bytes := hex "636c69656e745f746f5f7365727665725f6b6579".
Definition LblS2C : bytes := hex "7365727665725f746f5f636c69656e745f6b6579".

(* ------------------------------------------------------------------ slices *)
Definition slice (b : bytes) (off n : N) : bytes := take n (drop off b).
Definition at_ (b : bytes) (i : N) : N := nth (N.to_nat i) b 0.

(* ------------------------------------------------------------------ symbolic duplex *)
Inductive dop :=
| OReset                      (* InitializeEmpty *)
| OInitKey (k id : bytes)     (* Initialize(key, id, nil) *)
| OAbsorb (x : bytes)
| OCrypt (pt : bytes)         (* Encrypt(pt) or Decrypt(ct) with plaintext pt: same state afterwards *)
| OSqueeze (n : N)
| ORatchet.
Definition tr := list dop.     (* newest operation first *)

Record doracle := {
  o_sq : tr -> N -> bytes;        (* output of Squeeze(n) in the state reached by the transcript *)
  o_dec : tr -> bytes -> bytes;   (* plaintext of Decrypt(ct) *)
  o_enc : tr -> bytes -> bytes    (* ciphertext of Encrypt(pt) *)
}.

Definition absorb (T : tr) (x : bytes) : tr := OAbsorb x :: T.
Definition squeeze (O : doracle) (T : tr) (n : N) : bytes * tr := (o_sq O T n, OSqueeze n :: T).
Definition decrypt (O : doracle) (T : tr) (c : bytes) : bytes * tr :=
  let p := o_dec O T c in (p, OCrypt p :: T).
Definition encrypt (O : doracle) (T : tr) (p : bytes) : bytes * tr := (o_enc O T p, OCrypt p :: T).
Definition ratchet (T : tr) : tr := ORatchet :: T.
(* RekeyFromSqueeze: Squeeze(KeyLen) then Initialize(key, name, nil) *)
Definition rekey (O : doracle) (T : tr) (name : bytes) : tr :=
  OInitKey (o_sq O T KeyLen) name :: OSqueeze KeyLen :: T.

(* the state a party starts from: InitializeEmpty; Absorb(protocol name) *)
Definition tr_start (name : bytes) : tr := [OAbsorb name; OReset].
(* hidden mode additionally rekeys at once *)
Definition tr_start_hidden (O : doracle) : tr := rekey O (tr_start PQHiddenName) PQHiddenName.

(* ------------------------------------------------------------------ other oracles *)
Record xoracle := {
  x_dh : N -> bytes -> option bytes;      (* X25519 with the private key named by the id (None: low-order point) *)
  x_decaps : N -> bytes -> option bytes;  (* ML-KEM decapsulation with the key pair named by the id *)
  x_kemparse : bytes -> option bytes;     (* ParseKEMPublicKeyFromBytes then MarshalBinary: canonical bytes *)
  x_policy : N -> bytes -> bytes -> option bytes;
      (* certificateParserAndVerifier under the verify configuration named by the id:
         raw leaf, raw intermediate -> the leaf's public key when parsing and policy succeed *)
  x_hash : bytes -> bytes;                (* SHA3-256 *)
  x_open : N -> bytes -> bytes -> option bytes  (* cookie AEAD open: key id, associated data, cookie *)
}.

(* ------------------------------------------------------------------ duplex.go: certificate vectors *)
Definition read_vector (src : bytes) : res (N * bytes) :=
  if len src <? 2 then Err else
  let vl := at_ src 0 * 256 + at_ src 1 in
  if len src <? 2 + vl then Err else Ok (vl, slice src 2 vl).

(* DecryptCertificates: returns the transcript after the Decrypt in every case *)
Definition decrypt_certs (O : doracle) (T : tr) (c : bytes) : tr * res (bytes * bytes) :=
  let '(p, T1) := decrypt O T c in
  (T1,
   match read_vector p with
   | Ok (ll, leaf) =>
     match read_vector (drop (2 + ll) p) with
     | Ok (il, inter) => if ll + il + 4 =? len c then Ok (leaf, inter) else Err
     | _ => Err
     end
   | _ => Err
   end).

Definition write_vector (src : bytes) : bytes := be_enc 2 (len src) ++ src.
(* EncryptCertificates (inputs below 65536 bytes, as certificates are) *)
Definition encrypt_certs (O : doracle) (T : tr) (leaf inter : bytes) : bytes * tr :=
  encrypt O T (write_vector leaf ++ write_vector inter).
Definition enc_certs_len (leaf inter : bytes) : N := 4 + len leaf + len inter.

(* CookieAD = SHA3-256(ekem || ip || port_be16) *)
Definition cookie_ad (X : xoracle) (ekem ip : bytes) (port : N) : bytes :=
  x_hash X (ekem ++ ip ++ be_enc 2 port).

(* deriveFinalKeys *)
Definition derive_final_keys (O : doracle) (T : tr) : bytes * bytes * tr :=
  let T1 := absorb (ratchet T) LblC2S in
  let '(k1, T2) := squeeze O T1 KeyLen in
  let T3 := absorb (ratchet T2) LblS2C in
  let '(k2, T4) := squeeze O T3 KeyLen in
  (k1, k2, T4).

(* ------------------------------------------------------------------ ClientHello *)
Definition PQHelloLen : N := HeaderLen + KemKeyLen + MacLen.

(* writePQClientHello; kpub = the marshalled ephemeral KEM public key *)
Definition write_client_hello (O : doracle) (T : tr) (kpub : bytes) : bytes * tr :=
  let hdr := [MT_ClientHello; Version; 0; 0] in
  let T1 := absorb T hdr in
  let T2 := absorb T1 kpub in
  let '(mac, T3) := squeeze O T2 MacLen in
  (hdr ++ kpub ++ mac, T3).

(* readPQClientHello: Ok (consumed, canonical bytes of the client's KEM key) *)
Definition read_client_hello (O : doracle) (X : xoracle) (T : tr) (b : bytes) : tr * res (N * bytes) :=
  if len b <? PQHelloLen then (T, Err) else
  if negb (at_ b 0 =? MT_ClientHello) then (T, Err) else
  if negb (at_ b 1 =? Version) then (T, Err) else
  if negb ((at_ b 2 =? 0) && (at_ b 3 =? 0)) then (T, Err) else
  let T1 := absorb T (take HeaderLen b) in
  let kb := slice b HeaderLen KemKeyLen in
  match x_kemparse X kb with
  | None => (T1, Err)
  | Some kc =>
    let T2 := absorb T1 kb in
    let '(mac, T3) := squeeze O T2 MacLen in
    if negb (beq_bytes mac (slice b (HeaderLen + KemKeyLen) MacLen)) then (T3, Err)
    else (T3, Ok (PQHelloLen, kc))
  end.

(* ------------------------------------------------------------------ ServerHello *)
Definition PQServerHelloLen : N := HeaderLen + KemCtLen + PQCookieLen + MacLen.

(* writePQServerHello: ct, k from Encapsulate; cookie from writeCookie (both supplied) *)
Definition write_server_hello (O : doracle) (T : tr) (ct k cookie : bytes) : bytes * tr :=
  let hdr := [MT_ServerHello; 0; 0; 0] in
  let T1 := absorb T hdr in
  let T2 := absorb T1 k in
  let T3 := absorb T2 cookie in
  let '(mac, T4) := squeeze O T3 MacLen in
  (hdr ++ ct ++ cookie ++ mac, T4).

(* readPQServerHello; ek = id of the client's ephemeral KEM key. Ok (consumed, cookie) *)
Definition read_server_hello (O : doracle) (X : xoracle) (ek : N) (T : tr) (b : bytes) : tr * res (N * bytes) :=
  if len b <? PQServerHelloLen then (T, Err) else
  if negb (at_ b 0 =? MT_ServerHello) then (T, Err) else
  if negb ((at_ b 1 =? 0) && (at_ b 2 =? 0) && (at_ b 3 =? 0)) then (T, Err) else
  let T1 := absorb T (take HeaderLen b) in
  match x_decaps X ek (slice b HeaderLen KemCtLen) with
  | None => (T1, Err)
  | Some k =>
    let T2 := absorb T1 k in
    let cookie := slice b (HeaderLen + KemCtLen) PQCookieLen in
    let T3 := absorb T2 cookie in
    let '(mac, T4) := squeeze O T3 MacLen in
    if negb (beq_bytes mac (slice b (HeaderLen + KemCtLen + PQCookieLen) MacLen)) then (T4, Err)
    else (T4, Ok (PQServerHelloLen, cookie))
  end.

(* ------------------------------------------------------------------ ClientAck *)
Definition PQClientAckLen : N := HeaderLen + DHLen + KemKeyLen + PQCookieLen + SNILen + MacLen.

(* writePQClientAck; sni = the SNI padded to SNILen *)
Definition write_client_ack (O : doracle) (T : tr) (epub kpub cookie sni : bytes) : bytes * tr :=
  let hdr := [MT_ClientAck; 0; 0; 0] in
  let T1 := absorb T hdr in
  let T2 := absorb T1 epub in
  let T3 := absorb T2 kpub in
  let T4 := absorb T3 cookie in
  let '(esni, T5) := encrypt O T4 sni in
  let '(mac, T6) := squeeze O T5 MacLen in
  (hdr ++ epub ++ kpub ++ cookie ++ esni ++ mac, T6).

(* ReplayPQDuplexFromCookie: ck = id of the server's current cookie key.
   Ok = the transcript equivalent to "after ServerHello was written, then rekeyed". *)
Definition replay_from_cookie (O : doracle) (X : xoracle) (ck : N) (cookie kc ip : bytes) (port : N) : res tr :=
  if len cookie <? PQCookieLen then Err else
  match x_open X ck (cookie_ad X kc ip port) (take PQCookieLen cookie) with
  | None => Err
  | Some k =>
    if negb (len k =? PQSharedSecretLen) then Err else
    let T0 := tr_start PQName in
    let T1 := absorb T0 [MT_ClientHello; Version; 0; 0] in
    let T2 := absorb T1 kc in
    let '(_, T3) := squeeze O T2 MacLen in
    let T4 := absorb T3 [MT_ServerHello; 0; 0; 0] in
    let T5 := absorb T4 k in
    let T6 := absorb T5 cookie in
    let '(_, T7) := squeeze O T6 MacLen in
    Ok (rekey O T7 PQName)
  end.

(* certs.Name.ReadFrom on the decrypted SNI (always SNILen bytes): the label *)
Definition parse_sni (p : bytes) : res bytes :=
  let bs := at_ p 0 in
  if bs <? 3 then Err else
  let idl := at_ p 2 in
  if bs - 3 <? idl then Err else
  if len p <? 3 + idl then Err else Ok (slice p 3 idl).

Record ack_ok := { ak_tr : tr; ak_eph : bytes; ak_kem : bytes; ak_sni : bytes }.

(* readPQClientAck: (consumed, accepted state). On a MAC mismatch Go returns (length, nil, err). *)
Definition read_client_ack (O : doracle) (X : xoracle) (ck : N) (ip : bytes) (port : N) (b : bytes)
  : res (N * ack_ok) :=
  if len b <? PQClientAckLen then Err else
  if negb (at_ b 0 =? MT_ClientAck) then Err else
  if negb ((at_ b 1 =? 0) && (at_ b 2 =? 0) && (at_ b 3 =? 0)) then Err else
  let hdr := take HeaderLen b in
  let eph := slice b HeaderLen DHLen in
  match x_kemparse X (slice b (HeaderLen + DHLen) KemKeyLen) with
  | None => Err
  | Some kc =>
    let cookie := slice b (HeaderLen + DHLen + KemKeyLen) PQCookieLen in
    T <- replay_from_cookie O X ck cookie kc ip port ;;
    let T1 := absorb T hdr in
    let T2 := absorb T1 eph in
    let T3 := absorb T2 kc in
    let T4 := absorb T3 cookie in
    let '(sni, T5) := decrypt O T4 (slice b (HeaderLen + DHLen + KemKeyLen + PQCookieLen) SNILen) in
    let '(mac, T6) := squeeze O T5 MacLen in
    if negb (beq_bytes mac (slice b (HeaderLen + DHLen + KemKeyLen + PQCookieLen + SNILen) MacLen)) then Err else
    name <- parse_sni sni ;;
    Ok (PQClientAckLen, {| ak_tr := T6; ak_eph := eph; ak_kem := kc; ak_sni := name |})
  end.

(* ------------------------------------------------------------------ ServerAuth *)
(* writePQServerAuth. es = id of the server's ephemeral X25519 key, ss = id of the static key of
   the selected certificate. Go returns an error (after partial writes) when a DH fails. *)
Definition write_server_auth (O : doracle) (X : xoracle) (T : tr) (sid epub : bytes) (es ss : N)
  (ceph leaf inter : bytes) : tr * res bytes :=
  let ecl := enc_certs_len leaf inter in
  let hdr := [MT_ServerAuth; 0; (ecl / 256) mod 256; ecl mod 256] in
  let T1 := absorb T hdr in
  let T2 := absorb T1 sid in
  let T3 := absorb T2 epub in
  match x_dh X es ceph with
  | None => (T3, Err)
  | Some ee =>
    let T4 := absorb T3 ee in
    let '(ec, T5) := encrypt_certs O T4 leaf inter in
    let '(tag, T6) := squeeze O T5 MacLen in
    match x_dh X ss ceph with
    | None => (T6, Err)
    | Some des =>
      let T7 := absorb T6 des in
      let '(mac, T8) := squeeze O T7 MacLen in
      (T8, Ok (hdr ++ sid ++ epub ++ ec ++ tag ++ mac))
    end
  end.

Record sa_ok := { sa_n : N; sa_sid : bytes; sa_eph : bytes; sa_pk : bytes }.

Definition SAMinLen : N := HeaderLen + SessionIDLen + 2 * MacLen + DHLen.

(* readPQServerAuth (client; with the final-MAC fix). ce = id of the client's ephemeral X25519
   key, pol = id of the client's verify configuration. *)
Definition read_server_auth (O : doracle) (X : xoracle) (ce pol : N) (T : tr) (b : bytes) : tr * res sa_ok :=
  if len b <? SAMinLen then (T, Err) else
  if negb (at_ b 0 =? MT_ServerAuth) then (T, Err) else
  if negb (at_ b 1 =? 0) then (T, Err) else
  let L := at_ b 2 * 256 + at_ b 3 in
  let full := SAMinLen + L in
  if len b <? full then (T, Err) else
  let T1 := absorb T (take HeaderLen b) in
  let sid := slice b HeaderLen SessionIDLen in
  let T2 := absorb T1 sid in
  let eph := slice b (HeaderLen + SessionIDLen) DHLen in
  let T3 := absorb T2 eph in
  match x_dh X ce eph with
  | None => (T3, Err)
  | Some ee =>
    let T4 := absorb T3 ee in
    let off := HeaderLen + SessionIDLen + DHLen in
    let '(T5, rc) := decrypt_certs O T4 (slice b off L) in
    match rc with
    | Ok (leaf, inter) =>
      let '(tag, T6) := squeeze O T5 MacLen in
      if negb (beq_bytes tag (slice b (off + L) MacLen)) then (T6, Err) else
      match x_policy X pol leaf inter with
      | None => (T6, Err)
      | Some pk =>
        match x_dh X ce pk with
        | None => (T6, Err)
        | Some des =>
          let T7 := absorb T6 des in
          let '(mac, T8) := squeeze O T7 MacLen in
          if negb (beq_bytes mac (slice b (off + L + MacLen) MacLen)) then (T8, Err)
          else (T8, Ok {| sa_n := full; sa_sid := sid; sa_eph := eph; sa_pk := pk |})
        end
      end
    | Err => (T5, Err)
    | Panic => (T5, Panic)
    end
  end.

(* ------------------------------------------------------------------ ClientAuth *)
(* writePQClientAuth. cs = id of the client's static key; seph = the server's ephemeral public key *)
Definition write_client_auth (O : doracle) (X : xoracle) (T : tr) (sid : bytes) (cs : N)
  (seph leaf inter : bytes) : tr * res bytes :=
  let ecl := enc_certs_len leaf inter in
  let hdr := [MT_ClientAuth; 0; (ecl / 256) mod 256; ecl mod 256] in
  let T1 := absorb T hdr in
  let T2 := absorb T1 sid in
  if len leaf =? 0 then (T2, Err) else
  let '(ec, T3) := encrypt_certs O T2 leaf inter in
  let '(tag, T4) := squeeze O T3 MacLen in
  match x_dh X cs seph with
  | None => (T4, Err)
  | Some se =>
    let T5 := absorb T4 se in
    let '(mac, T6) := squeeze O T5 MacLen in
    (T6, Ok (hdr ++ sid ++ ec ++ tag ++ mac))
  end.

(* readPQClientAuth (with the 2*MacLen fix), applied to the stored handshake state of the
   source address: T its transcript, sid its session id, se = id of its ephemeral X25519 key,
   pol = the server's client-verification configuration. Ok (consumed, leaf public key).
   The case "no handshake state for this address" is in the caller. *)
Definition read_client_auth_pre (b : bytes) : res N :=
  if len b <? HeaderLen then Err else
  let L := at_ b 2 * 256 + at_ b 3 in
  if len b <? HeaderLen + SessionIDLen + L + 2 * MacLen then Err else
  if negb (at_ b 0 =? MT_ClientAuth) then Err else
  if negb (at_ b 1 =? 0) then Err else Ok L.

Definition read_client_auth (O : doracle) (X : xoracle) (se pol : N) (sid : bytes) (T : tr) (b : bytes)
  : tr * res (N * bytes) :=
  match read_client_auth_pre b with
  | Ok L =>
    let T1 := absorb T (take HeaderLen b) in
    let bsid := slice b HeaderLen SessionIDLen in
    if negb (beq_bytes sid bsid) then (T1, Err) else
    let T2 := absorb T1 bsid in
    let off := HeaderLen + SessionIDLen in
    let '(T3, rc) := decrypt_certs O T2 (slice b off L) in
    match rc with
    | Ok (leaf, inter) =>
      let '(tag, T4) := squeeze O T3 MacLen in
      if negb (beq_bytes tag (slice b (off + L) MacLen)) then (T4, Err) else
      match x_policy X pol leaf inter with
      | None => (T4, Err)
      | Some pk =>
        match x_dh X se pk with
        | None => (T4, Err)
        | Some dse =>
          let T5 := absorb T4 dse in
          let '(mac, T6) := squeeze O T5 MacLen in
          if negb (beq_bytes mac (slice b (off + L + MacLen) MacLen)) then (T6, Err)
          else (T6, Ok (off + L + 2 * MacLen, pk))
        end
      end
    | Err => (T3, Err)
    | Panic => (T3, Panic)
    end
  | Err => (T, Err)
  | Panic => (T, Panic)
  end.

(* ------------------------------------------------------------------ hidden mode: request *)
(* writePQClientRequestHidden: ct, k from Encapsulate to the server's static KEM key; ts = 8-byte time *)
Definition write_request_hidden (O : doracle) (T : tr) (kpub ct k leaf inter ts : bytes) : tr * res bytes :=
  let ecl := enc_certs_len leaf inter in
  let hdr := [MT_ClientRequestHidden; Version; (ecl / 256) mod 256; ecl mod 256] in
  let T1 := absorb T hdr in
  let T2 := absorb T1 kpub in
  let T3 := absorb T2 k in
  if len leaf =? 0 then (T3, Err) else
  let '(ec, T4) := encrypt_certs O T3 leaf inter in
  let '(tag, T5) := squeeze O T4 MacLen in
  let '(ets, T6) := encrypt O T5 ts in
  let '(mac, T7) := squeeze O T6 MacLen in
  (T7, Ok (hdr ++ kpub ++ ct ++ ec ++ tag ++ ets ++ mac)).

(* one configured certificate as the hidden reader sees it *)
Record hcert := { hc_kem : option N;   (* id of its KEM key pair (None: certificate without KEM key) *)
                  hc_hasname : bool;   (* len(cert.HostNames) > 0 *)
                  hc_idx : N }.        (* which certificate (selects static key and chain for the response) *)

Record trial_ok := { to_tr : tr; to_leaf : bytes; to_inter : bytes; to_cert : hcert }.

(* one iteration of the per-certificate loop (with the bufCopy fix: every iteration starts
   from the whole message). T is the transcript left by the previous iteration; the loop
   re-initialises the duplex, which appends to the recorded history. Returns the transcript
   and, when the certificate matched, the decrypted certificate vectors. *)
Definition hidden_trial (O : doracle) (X : xoracle) (L : N) (b : bytes) (T : tr) (c : hcert)
  : tr * option (bytes * bytes) :=
  let T0 := rekey O (OAbsorb PQHiddenName :: OReset :: T) PQHiddenName in
  let T1 := absorb T0 (take HeaderLen b) in
  let T2 := absorb T1 (slice b HeaderLen KemKeyLen) in
  match hc_kem c with
  | None => (T2, None)
  | Some kid =>
    match x_decaps X kid (slice b (HeaderLen + KemKeyLen) KemCtLen) with
    | None => (T2, None)
    | Some k =>
      let T3 := absorb T2 k in
      let off := HeaderLen + KemKeyLen + KemCtLen in
      let '(T4, rc) := decrypt_certs O T3 (slice b off L) in
      match rc with
      | Ok (leaf, inter) =>
        let '(tag, T5) := squeeze O T4 MacLen in
        if negb (beq_bytes tag (slice b (off + L) MacLen)) then (T5, None) else
        if negb (hc_hasname c) then (T5, None) else (T5, Some (leaf, inter))
      | _ => (T4, None)
      end
    end
  end.

Fixpoint hidden_trials (O : doracle) (X : xoracle) (L : N) (b : bytes) (T : tr) (cs : list hcert)
  : tr * option trial_ok :=
  match cs with
  | [] => (T, None)
  | c :: r =>
    match hidden_trial O X L b T c with
    | (T', Some (leaf, inter)) => (T', Some {| to_tr := T'; to_leaf := leaf; to_inter := inter; to_cert := c |})
    | (T', None) => hidden_trials O X L b T' r
    end
  end.

Record hreq_ok := { hq_n : N; hq_tr : tr; hq_kem : bytes; hq_pk : bytes; hq_cert : hcert }.

(* readPQClientRequestHidden. certs = GetCertList() (None: it returned an error); pol = the
   server's client-verification configuration; now = time.Now().Unix().
   b[2], b[3] are read before any length check: Panic when the caller passes fewer than 4 bytes
   (readPacket never does: msgLen >= 4). *)
Definition read_request_hidden (O : doracle) (X : xoracle) (certs : option (list hcert)) (pol : N) (now : N)
  (T : tr) (b : bytes) : tr * res hreq_ok :=
  if len b <? 4 then (T, Panic) else
  let L := at_ b 2 * 256 + at_ b 3 in
  let length := HeaderLen + KemCtLen + L + MacLen + KemKeyLen + TimestampLen + MacLen in
  if len b <? length then (T, Err) else
  if negb (at_ b 0 =? MT_ClientRequestHidden) then (T, Err) else
  if negb (at_ b 1 =? Version) then (T, Err) else
  match certs with
  | None => (T, Err)
  | Some cs =>
    match hidden_trials O X L b T cs with
    | (T', None) => (T', Err)
    | (_, Some t) =>
      let T1 := to_tr t in
      match x_kemparse X (slice b HeaderLen KemKeyLen) with
      | None => (T1, Err)
      | Some kc =>
        match x_policy X pol (to_leaf t) (to_inter t) with
        | None => (T1, Err)
        | Some pk =>
          let off := HeaderLen + KemKeyLen + KemCtLen + L + MacLen in
          let '(ts, T2) := decrypt O T1 (slice b off TimestampLen) in
          let tv := be_dec ts in
          if (now <? tv) || (HiddenExpiration <? now - tv) then (T2, Err) else
          let '(mac, T3) := squeeze O T2 MacLen in
          if negb (beq_bytes mac (slice b (off + TimestampLen) MacLen)) then (T3, Err)
          else (T3, Ok {| hq_n := length; hq_tr := T3; hq_kem := kc; hq_pk := pk; hq_cert := to_cert t |})
        end
      end
    end
  end.

(* ------------------------------------------------------------------ hidden mode: response *)
(* writePQServerResponseHidden: ect, ek from Encapsulate to the client's ephemeral KEM key;
   ss = id of the selected certificate's static key; cpk = the client's certified static key *)
Definition write_response_hidden (O : doracle) (X : xoracle) (T : tr) (sid ect ek : bytes) (ss : N)
  (cpk leaf inter : bytes) : tr * res bytes :=
  let ecl := enc_certs_len leaf inter in
  let hdr := [MT_ServerResponseHidden; 0; (ecl / 256) mod 256; ecl mod 256] in
  let T1 := absorb T hdr in
  let T2 := absorb T1 sid in
  let T3 := absorb T2 ek in
  let '(ec, T4) := encrypt_certs O T3 leaf inter in
  let '(tag, T5) := squeeze O T4 MacLen in
  match x_dh X ss cpk with
  | None => (T5, Err)
  | Some dss =>
    let T6 := absorb T5 dss in
    let '(mac, T7) := squeeze O T6 MacLen in
    (T7, Ok (hdr ++ sid ++ ect ++ ec ++ tag ++ mac))
  end.

Definition SRHMinLen : N := HeaderLen + SessionIDLen + KemCtLen + 2 * MacLen.

(* readPQServerResponseHidden (client). ek = id of the client's ephemeral KEM key, cs = id of
   its static X25519 key, pol = its verify configuration *)
Definition read_response_hidden (O : doracle) (X : xoracle) (ek cs pol : N) (T : tr) (b : bytes)
  : tr * res sa_ok :=
  if len b <? SRHMinLen then (T, Err) else
  if negb (at_ b 0 =? MT_ServerResponseHidden) then (T, Err) else
  if negb (at_ b 1 =? 0) then (T, Err) else
  let L := at_ b 2 * 256 + at_ b 3 in
  let full := SRHMinLen + L in
  if len b <? full then (T, Err) else
  let T1 := absorb T (take HeaderLen b) in
  let sid := slice b HeaderLen SessionIDLen in
  let T2 := absorb T1 sid in
  match x_decaps X ek (slice b (HeaderLen + SessionIDLen) KemCtLen) with
  | None => (T2, Err)
  | Some k =>
    let T3 := absorb T2 k in
    let off := HeaderLen + SessionIDLen + KemCtLen in
    let '(T4, rc) := decrypt_certs O T3 (slice b off L) in
    match rc with
    | Ok (leaf, inter) =>
      let '(tag, T5) := squeeze O T4 MacLen in
      if negb (beq_bytes tag (slice b (off + L) MacLen)) then (T5, Err) else
      match x_policy X pol leaf inter with
      | None => (T5, Err)
      | Some pk =>
        match x_dh X cs pk with
        | None => (T5, Err)
        | Some dss =>
          let T6 := absorb T5 dss in
          let '(mac, T7) := squeeze O T6 MacLen in
          if negb (beq_bytes mac (slice b (off + L + MacLen) MacLen)) then (T7, Err)
          else (T7, Ok {| sa_n := full; sa_sid := sid; sa_eph := []; sa_pk := pk |})
        end
      end
    | Err => (T4, Err)
    | Panic => (T4, Panic)
    end
  end.

(* ------------------------------------------------------------------ certificateParserAndVerifier *)
(* The combination logic of handshake.go certificateParserAndVerifier over the verdicts of
   its parts (the parts themselves are C04's subject):
     parse     : leaf (and intermediate, if present) parse with no trailing bytes
     v_nil     : hs.certVerify == nil
     skip      : InsecureSkipVerify
     ak_allowed, ak_ok : AuthKeysAllowed, AuthKeys.VerifyLeaf succeeded
     store_ok  : Store.VerifyLeaf succeeded
     cb        : AddVerifyCallback verdict (None: no callback) *)
Record pol_in := { p_parse : bool; p_nil : bool; p_skip : bool; p_ak_allowed : bool; p_ak_ok : bool;
                   p_store_ok : bool; p_cb : option bool }.

Definition policy_verify (p : pol_in) : bool :=
  if negb (p_parse p) then false else
  if p_nil p then true else
  let chain :=
    if negb (p_skip p) then
      (if negb (p_ak_allowed p) || negb (p_ak_ok p) then p_store_ok p else true)
    else true in
  if negb chain then false else
  match p_cb p with Some false => false | _ => true end.
