(* Correspondence entry points for C12 (Kravatte-SANSE).
   c12_ok  : an AEAD session on one object created by kravatte.NewSANSE(key): Seal / Open calls in order,
             compared with the model: constructor error flag, every sealed byte string, every Open result.
   c12k_ok : the Kravatte object itself (RefMaskInitialize, Kra in arbitrary chunks, Vatte in arbitrary
             chunks): for each string of the sequence the concatenated output, compared with the one-shot
             specification function on the history so far.
   c12m_ok : the mask k for a key, compared both with the transcription of the Go code and with the
             specification's p(K || 1 || 0..0). *)
From Hop Require Import Base Keccak Kravatte Sanse.
From Hop Require Export CorrBytes.
Open Scope N_scope.

Inductive c12_step := SSeal (a p : bytes) | SOpen (a ct : bytes).
Definition Se := SSeal.
Definition Op := SOpen.

Fixpoint c12_run (s : sanse kv_state) (steps : list c12_step) : list (option bytes) :=
  match steps with
  | [] => []
  | SSeal a p :: r => let (ct, s') := sanse6_seal s a p in Some ct :: c12_run s' r
  | SOpen a ct :: r => let (p, s') := sanse6_open s a ct in p :: c12_run s' r
  end.
Definition beq_obytes (a b : option bytes) : bool :=
  match a, b with Some x, Some y => beq_bytes x y | None, None => true | _, _ => false end.

(* (key, steps, (NewSANSE: 0 ok / 1 error / 2 panic, results)) *)
Definition c12_case := (bytes * list c12_step * (N * list (option bytes)))%type.
Definition c12_ok (c : c12_case) : bool :=
  let '(key, steps, (code, outs)) := c in
  match sanse6_new key with
  | Ok s => (code =? 0) && beq_list beq_obytes (c12_run s steps) outs
  | r => code =? res_code r
  end.

(* Kravatte level: (key, [(string bytes, number of tail bits, tail bits value, output bytes)]) ; the
   strings are absorbed in order, output i is what Vatte returned after string i *)
Definition bits_of (n v : N) : list bool := map (fun i => N.testbit v (N.of_nat i)) (seq 0 (N.to_nat n)).
Fixpoint c12k_run (s : kv_state) (l : list (bytes * N * N * bytes)) : bool :=
  match l with
  | [] => true
  | (b, nt, tv, out) :: r =>
      let s' := kv6_absorb s (mkbs b (bits_of nt tv)) in
      beq_bytes (kv6_out s' (List.length out)) out && c12k_run s' r
  end.
Definition c12k_case := (bytes * list (bytes * N * N * bytes))%type.
Definition c12k_ok (c : c12k_case) : bool :=
  match go_mask_init (fst c) with
  | Ok k => c12k_run (mkkv k k zero_lanes) (snd c)
  | _ => false
  end.

(* mask: (key, RefMaskInitialize: 0 ok / 1 returned non-zero / 2 panicked, the 200 bytes of k) *)
Definition c12m_case := (bytes * N * bytes)%type.
Definition c12m_ok (c : c12m_case) : bool :=
  let '(key, code, mask) := c in
  match go_mask_init key with
  | Ok k => (code =? 0) && beq_bytes (bytes_of_lanes k) mask
            && beq_bytes (bytes_of_lanes (kv_k (kv6_init key))) mask
  | r => code =? res_code r
  end.
