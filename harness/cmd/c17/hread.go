// Read side of transport.Handle: Read / ReadMsg with buffers shorter or longer than the queued
// messages (leftover handling), arrival of transport messages through the real
// handleSessionMessage, Close (Handle.Close or the peer's authenticated close message) and
// SetReadDeadline.  Every case is one sequential history on a real Handle (or a real Client around
// one); Coq replays the same operations on Model/HandleRead.v (Corr/CorrC17Read.v c17r_ok) and the
// specification oracle below judges the history from the property text: the reader sees exactly the
// bytes of the messages that were queued — nothing lost, duplicated or reordered — and end-of-stream
// only after all of them.
package main

import (
	"bytes"
	"errors"
	"fmt"
	"io"
	"net"
	"os"
	"strings"
	"time"

	"hop.computer/hop/transport"
	"verifharness/hv"
)

type hrConn struct{ out [][]byte }

func (w *hrConn) WriteMsgUDP(b, _ []byte, _ *net.UDPAddr) (int, int, error) {
	w.out = append(w.out, append([]byte(nil), b...))
	return len(b), 0, nil
}
func (w *hrConn) ReadMsgUDP(_, _ []byte) (int, int, int, *net.UDPAddr, error) {
	return 0, 0, 0, nil, net.ErrClosed
}
func (w *hrConn) Read(b []byte) (int, error) { return 0, net.ErrClosed }
func (w *hrConn) Write(b []byte) (int, error) {
	n, _, err := w.WriteMsgUDP(b, nil, nil)
	return n, err
}
func (w *hrConn) Close() error                     { return nil }
func (w *hrConn) LocalAddr() net.Addr              { return &net.UDPAddr{IP: net.IPv4(127, 0, 0, 1), Port: 1} }
func (w *hrConn) RemoteAddr() net.Addr             { return &net.UDPAddr{IP: net.IPv4(127, 0, 0, 1), Port: 2} }
func (w *hrConn) SetDeadline(time.Time) error      { return nil }
func (w *hrConn) SetReadDeadline(time.Time) error  { return nil }
func (w *hrConn) SetWriteDeadline(time.Time) error { return nil }

// hrRig: a sending session (only used to seal packets with the real sealPacketLocked) and the
// receiving Handle under test, reached through a Server or a Client.
type hrRig struct {
	sc        *hrConn
	sender    *transport.Handle
	h         *transport.Handle
	srv       *transport.Server
	cl        *transport.Client
	viaClient bool
	addr      *net.UDPAddr
}

func newHrRig(r *hv.Rand, cap int, viaClient bool) *hrRig {
	var key [transport.KeyLen]byte
	copy(key[:], r.Bytes(transport.KeyLen))
	sid := transport.SessionID{9, 8, 7, byte(cap)}
	g := &hrRig{sc: &hrConn{}, viaClient: viaClient, addr: &net.UDPAddr{IP: net.IPv4(127, 0, 0, 1), Port: 9}}
	g.sender = transport.VerifNewSession(g.sc, transport.VerifSessionConfig{SessionID: sid, WriteKey: key, Remote: g.addr, BufLen: 1})
	rk := key
	rc := &hrConn{}
	g.h = transport.VerifNewSession(rc, transport.VerifSessionConfig{SessionID: sid, ReadKey: &rk, Remote: g.addr, BufLen: cap})
	if viaClient {
		g.cl = transport.VerifNewClient(rc, g.h)
	} else {
		g.srv = transport.VerifNewServer(rc, g.h)
	}
	return g
}

// deliver seals payload as the peer would and hands the datagram to the real receive path.
func (g *hrRig) deliver(mt byte, payload []byte) error {
	g.sc.out = nil
	if err := g.sender.VerifSend(mt, payload); err != nil || len(g.sc.out) != 1 {
		return fmt.Errorf("could not seal: %v", err)
	}
	if g.viaClient {
		return g.cl.VerifHandleSessionMessage(g.addr, g.sc.out[0])
	}
	return g.srv.VerifHandleSessionMessage(g.addr, g.sc.out[0])
}

func (g *hrRig) read(msg bool, b []byte) (int, error) {
	switch {
	case g.viaClient && msg:
		return g.cl.ReadMsg(b)
	case g.viaClient:
		return g.cl.Read(b)
	case msg:
		return g.h.ReadMsg(b)
	}
	return g.h.Read(b)
}

// generator knobs of one class
type hrClass struct {
	name      string
	viaClient bool
	pRead     int  // percent of reader calls that are Read (rest ReadMsg)
	small     bool // prefer buffers shorter than the next chunk
	edge      bool // prefer len-1 / len / len+1 / 0
	flood     bool // more arrivals than capacity
	unexp     bool // un-expire the read deadline now and then (reads may block)
	closeMid  bool // close in the middle, keep reading
}

type hrRun struct {
	g        *hrRig
	r        *hv.Rand
	cap      int
	closed   bool
	expired  bool
	qlens    []int // generator's view of the queued message lengths
	evs      []string
	desc     []string
	payloads []string

	// specification oracle state (built only from what was observed on the real object)
	accepted   []byte
	acceptedMs [][]byte
	delivered  []byte
	nDelivered int // messages fully accounted for (ReadMsg-only view)
	sawEOF     bool
	onlyMsg    bool
	onlyRead   bool
	partial    bool
	ok         bool
	sig, what  string
	dead       bool // a call did not return: the case ends here
}

func (x *hrRun) fail(sig, what string) {
	if x.ok {
		x.ok, x.sig, x.what = false, sig, fmt.Sprintf("after [%s]: %s", strings.Join(x.desc, " "), what)
	}
}

func (x *hrRun) ev(op, res, d string) {
	x.evs = append(x.evs, hv.Tuple(op, res))
	x.desc = append(x.desc, d)
}

func (x *hrRun) nextLen() int {
	if bl := x.g.h.VerifReadBufLen(); bl > 0 {
		return bl
	}
	if len(x.qlens) > 0 {
		return x.qlens[0]
	}
	return 0
}

func (x *hrRun) arrive(m []byte) {
	before := x.g.h.VerifRecvLen()
	err := x.g.deliver(0x10, m)
	after := x.g.h.VerifRecvLen()
	x.payloads = append(x.payloads, fmt.Sprintf("%x", m))
	if err != nil {
		x.ev("(Ha "+hv.Hex(m)+")", "Vn", fmt.Sprintf("A%d!err", len(m)))
		x.fail("C17:handle-read-authentic-message-rejected", "an authentic transport message was refused by handleSessionMessage: "+err.Error())
		return
	}
	if after > before {
		x.accepted = append(x.accepted, m...)
		x.acceptedMs = append(x.acceptedMs, m)
		x.qlens = append(x.qlens, len(m))
		x.ev("(Ha "+hv.Hex(m)+")", "Vq", fmt.Sprintf("A%d", len(m)))
	} else {
		x.ev("(Ha "+hv.Hex(m)+")", "Vx", fmt.Sprintf("A%d(dropped)", len(m)))
	}
}

func (x *hrRun) close(how int) {
	var err error
	tag := "C"
	switch how {
	case 0:
		err = x.g.h.Close()
	default: // the peer's authenticated close message
		err = x.g.deliver(0x80, []byte{0x01})
		tag = "Cpeer"
	}
	x.closed = true
	if err != nil {
		x.ev("Hc", "Ve", tag+"!err")
		x.fail("C17:handle-close-error", "close reported "+err.Error())
		return
	}
	x.ev("Hc", "Vn", tag)
}

func (x *hrRun) setdl(expire bool) {
	t := time.Time{}
	op, tag := "Hu", "Dzero"
	if expire {
		t, op, tag = time.Now().Add(-time.Hour), "Hx", "Dpast"
	}
	err := x.g.h.SetReadDeadline(t)
	switch {
	case err == nil:
		x.expired = expire
		x.ev(op, "Vn", tag)
	case err == io.EOF:
		x.ev(op, "Ve", tag+"=EOF")
		if !x.closed {
			x.fail("C17:handle-read-eof-on-open-session", "SetReadDeadline reported io.EOF on a session that was never closed")
		}
	default:
		x.ev(op, "Vt", tag+"!err")
	}
}

type hrRet struct {
	n     int
	err   error
	buf   []byte
	panic string // non-empty: the call panicked
}

// reader issues one Read/ReadMsg with an n-byte buffer and judges the return.
func (x *hrRun) reader(msg bool, n int) {
	if x.dead {
		return
	}
	op, tag := "(Hr "+hv.Ni(n)+")", fmt.Sprintf("R%d", n)
	if msg {
		op, tag = "(Hm "+hv.Ni(n)+")", fmt.Sprintf("M%d", n)
		x.onlyRead = false
	} else {
		x.onlyMsg = false
	}
	pendingBefore := len(x.accepted) - len(x.delivered)
	chunk := x.nextLen()
	hasChunk := x.g.h.VerifReadBufLen() > 0 || x.g.h.VerifRecvLen() > 0
	wouldBlock := !hasChunk && !x.closed && !x.expired

	ch := make(chan hrRet, 1)
	buf := bytes.Repeat([]byte{0xEE}, n)
	go func() {
		var k int
		var err error
		if p, pm := hv.Catch(func() { k, err = x.g.read(msg, buf) }); p {
			ch <- hrRet{panic: "panic: " + pm}
			return
		}
		ch <- hrRet{n: k, err: err, buf: buf}
	}()
	wait := 10 * time.Second // generous: the machine may be busy; a call that needs this long has hung
	if wouldBlock {
		wait = 25 * time.Millisecond
	}
	var ret hrRet
	select {
	case ret = <-ch:
		// (if wouldBlock: nothing is queued, the session is open and no deadline is set, so the call should
		// have waited; what it returned instead is recorded as observed and judged below; the model says HBlock)
	case <-time.After(wait):
		x.ev(op, "Vb", tag+"=blocked")
		if !wouldBlock {
			x.fail("C17:handle-read-call-did-not-return", fmt.Sprintf("%s did not return within 10 s although data, end-of-stream or an expired deadline was available", tag))
			x.g.h.Close()
			x.dead = true
			return
		}
		// release it with an expired deadline: must come back empty-handed with a timeout error
		x.setdl(true)
		select {
		case ret = <-ch:
			if ret.n != 0 || !errors.Is(ret.err, os.ErrDeadlineExceeded) {
				x.fail("C17:handle-read-not-released-by-deadline", fmt.Sprintf("a blocked %s released by an expired read deadline returned (%d, %v)", tag, ret.n, ret.err))
			}
		case <-time.After(10 * time.Second):
			x.fail("C17:handle-read-not-released-by-deadline", "a blocked "+tag+" was not released by an expired read deadline")
			x.g.h.Close()
			x.dead = true
		}
		return
	}

	if ret.panic != "" {
		x.ev(op, "Vn", tag+"=panic")
		x.fail("C17:handle-read-panic", tag+" panicked: "+ret.panic)
		x.dead = true
		return
	}
	// generator view: did this call take a message off the queue?
	if len(x.qlens) > 0 && x.g.h.VerifRecvLen() < len(x.qlens) {
		x.qlens = x.qlens[1:]
	}
	switch {
	case ret.err == nil:
		if ret.n < 0 || ret.n > n {
			x.ev(op, "Vn", tag+"=badcount")
			x.fail("C17:handle-read-bad-count", fmt.Sprintf("%s returned n=%d for a %d-byte buffer", tag, ret.n, n))
			x.dead = true
			return
		}
		data := append([]byte(nil), ret.buf[:ret.n]...)
		x.ev(op, "(Vd "+hv.Hex(data)+")", fmt.Sprintf("%s=%d", tag, ret.n))
		if x.sawEOF && ret.n > 0 {
			x.fail("C17:handle-read-data-after-eof", fmt.Sprintf("%s returned %d bytes after an earlier read had reported end-of-stream", tag, ret.n))
		}
		var rest []byte // (more delivered than queued = duplicated bytes: rest stays empty)
		if len(x.delivered) <= len(x.accepted) {
			rest = x.accepted[len(x.delivered):]
		}
		if !bytes.HasPrefix(rest, data) {
			x.fail("C17:handle-read-bytes-differ-from-queued-stream", fmt.Sprintf("%s returned %x; the queued bytes not yet delivered start with %x (lost, duplicated or reordered bytes)", tag, data, rest[:min(len(rest), len(data)+8)]))
		}
		x.delivered = append(x.delivered, data...)
		if ret.n < chunk {
			x.partial = true
		}
		if msg && x.onlyMsg {
			if x.nDelivered >= len(x.acceptedMs) || !bytes.Equal(x.acceptedMs[x.nDelivered], data) {
				x.fail("C17:handle-readmsg-not-a-whole-message", fmt.Sprintf("%s returned %x, which is not the next queued message", tag, data))
			}
			x.nDelivered++
		}
	case ret.err == io.EOF:
		x.ev(op, "Ve", tag+"=EOF")
		if ret.n != 0 {
			x.fail("C17:handle-read-bad-count", fmt.Sprintf("%s returned n=%d with io.EOF", tag, ret.n))
		}
		if !x.closed {
			x.fail("C17:handle-read-eof-on-open-session", tag+" reported io.EOF on a session that was never closed")
		}
		if pendingBefore > 0 || hasChunk {
			x.fail("C17:handle-read-eof-before-queued-data", fmt.Sprintf("%s reported end-of-stream with %d queued bytes not yet delivered", tag, pendingBefore))
		}
		x.sawEOF = true
	case errors.Is(ret.err, os.ErrDeadlineExceeded):
		x.ev(op, "Vt", tag+"=timeout")
		if ret.n != 0 {
			x.fail("C17:handle-read-bad-count", fmt.Sprintf("%s returned n=%d with a timeout", tag, ret.n))
		}
		if pendingBefore > 0 || hasChunk {
			x.fail("C17:handle-read-error-before-queued-data", fmt.Sprintf("%s reported a timeout with %d queued bytes not yet delivered (buffered data goes first)", tag, pendingBefore))
		}
		if !x.expired {
			x.fail("C17:handle-read-unexpected-error", tag+" reported a timeout although no read deadline had expired")
		}
	case ret.err == transport.ErrBufOverflow:
		x.ev(op, "Vo", tag+"=overflow")
		x.partial = true
		if !msg || ret.n != 0 {
			x.fail("C17:handle-read-unexpected-error", fmt.Sprintf("%s returned (%d, ErrBufOverflow)", tag, ret.n))
		} else if n >= chunk {
			x.fail("C17:handle-readmsg-overflow-with-room", fmt.Sprintf("%s reported ErrBufOverflow although the next chunk has %d bytes", tag, chunk))
		}
	default:
		x.ev(op, "Vn", tag+"!err")
		x.fail("C17:handle-read-unexpected-error", tag+" returned "+ret.err.Error())
	}
}

func hrPayload(r *hv.Rand, seq *byte, n int) []byte {
	// distinguishable bytes: a running counter in the high bits, random low bits, so that lost,
	// repeated or swapped bytes never go unnoticed
	b := make([]byte, n)
	for i := range b {
		*seq++
		b[i] = *seq<<2 | byte(r.Intn(4))
	}
	return b
}

func hrBufSize(r *hv.Rand, c hrClass, L int) int {
	switch {
	case c.edge:
		return max(0, hv.Pick(r, []int{0, 1, L - 1, L, L + 1, L, L - 1, 2 * L}))
	case c.small && L > 1:
		return hv.Pick(r, []int{1, 1 + r.Intn(L), 1 + r.Intn(L), L / 2, L - 1, 0, L})
	}
	return hv.Pick(r, []int{0, 1, 2, 3, 7, L, L + 1, 64, 4096, 1 + r.Intn(40)})
}

func runHrCase(r *hv.Rand, c hrClass, script []string) {
	cap := hv.Pick(r, []int{1, 2, 3, 4, 8})
	x := &hrRun{g: newHrRig(r, cap, c.viaClient), r: r, cap: cap, expired: true, ok: true, onlyMsg: true, onlyRead: true}
	var seq byte = byte(r.Intn(256))
	sizes := []int{0, 1, 2, 3, 5, 8, 13, 16, 31, 64, 200}
	if script != nil {
		for _, s := range script {
			var k int
			fmt.Sscanf(s[1:], "%d", &k)
			switch s[0] {
			case 'A':
				x.arrive(hrPayload(r, &seq, k))
			case 'R':
				x.reader(false, k)
			case 'M':
				x.reader(true, k)
			case 'C':
				x.close(k)
			case 'U':
				x.setdl(false)
			case 'X':
				x.setdl(true)
			}
		}
	} else {
		L := 8 + r.Intn(18)
		closeAt := -1
		if c.closeMid {
			closeAt = 2 + r.Intn(L-2)
		}
		for i := 0; i < L && !x.dead; i++ {
			p := r.Intn(100)
			pa := 40
			if c.flood {
				pa = 65
			}
			switch {
			case i == closeAt:
				x.close(r.Intn(2))
			case p < pa:
				x.arrive(hrPayload(r, &seq, hv.Pick(r, sizes)))
			case p < 92:
				x.reader(r.Intn(100) >= c.pRead, hrBufSize(r, c, x.nextLen()))
			case p < 96 && c.unexp:
				x.setdl(false)
			case p < 98:
				x.setdl(true)
			default:
				if c.closeMid || r.Chance(30) {
					x.close(r.Intn(2))
				} else {
					x.arrive(hrPayload(r, &seq, hv.Pick(r, sizes)))
				}
			}
		}
	}
	// drain: close, then read everything that is left; end-of-stream must come after the last byte
	if !x.dead {
		if !x.closed {
			x.close(r.Intn(2))
		}
		bound := 2*(len(x.accepted)-len(x.delivered)+len(x.qlens)+1) + 6
		for i := 0; i < bound && !x.sawEOF && !x.dead; i++ {
			useMsg := !x.onlyRead && (x.onlyMsg || r.Chance(30))
			n := hv.Pick(r, []int{1, 2, 5, 64, 300})
			if useMsg {
				n = hv.Pick(r, []int{x.nextLen(), x.nextLen(), 300, max(0, x.nextLen()-1)})
				if i%2 == 1 {
					n = 300 // at most one overflow per chunk, so that the bound below is a real bound
				}
			}
			x.reader(useMsg, n)
		}
		if !x.dead {
			if !x.sawEOF {
				x.fail("C17:handle-read-no-eof-after-drain", fmt.Sprintf("%d reads after close never reported end-of-stream", bound))
			}
			if !bytes.Equal(x.delivered, x.accepted) {
				x.fail("C17:handle-read-bytes-lost", fmt.Sprintf("end-of-stream after %d delivered bytes, but %d bytes had been queued", len(x.delivered), len(x.accepted)))
			}
			// and nothing afterwards
			x.reader(false, 16)
			x.reader(true, 16)
		}
	}
	d := fmt.Sprintf("cap=%d %s", cap, strings.Join(x.desc, " "))
	cs := hv.Case{Class: c.name, Desc: d, Spec: x.ok, Sig: x.sig, What: x.what, NT: x.partial,
		Replay: map[string]interface{}{"history(A<len>=arrival R<n>=Read M<n>=ReadMsg C=Close D=SetReadDeadline)": d, "payloads": x.payloads, "via": map[bool]string{true: "Client", false: "Handle"}[c.viaClient]}}
	if !x.dead {
		cs.Fn = "c17r_ok"
		cs.Coq = hv.Tuple(hv.Ni(cap), hv.B(true), hv.List(x.evs), hv.Ni(x.g.h.VerifRecvLen()), hv.Ni(x.g.h.VerifReadBufLen()))
	}
	hv.Emit(cs)
}

func runHandleRead(r *hv.Rand) {
	// scripted: the model's witnesses / corner cases (Properties/C17Read.v)
	scripts := [][]string{
		{"A5", "R2", "M10"},                                                // ReadMsg after a short Read returns the rest of the message
		{"A5", "R2", "M1", "M3"},                                           // ... or ErrBufOverflow while the rest does not fit
		{"A4", "R0", "R0", "R4"},                                           // zero-length buffer moves the message into the leftover buffer
		{"A0", "R4", "A0", "M0"},                                           // empty messages
		{"A3", "A3", "C0", "R2", "R2", "R2", "R2"},                         // data queued before Close comes before EOF, fragment by fragment
		{"A6", "R4", "C1", "R1", "R1", "R1"},                               // leftover survives the peer's close
		{"A9", "M8", "M8", "M9"},                                           // overflow keeps the message
		{"A2", "A2", "A2", "A2", "A2", "A2", "A2", "A2", "A2", "R1", "A2"}, // queue full
		{"U0", "R4", "A3", "U0", "R4"},                                     // blocked Read released by a deadline
		{"U0", "R0"},                                                       // zero-length Read on an idle open handle blocks
		{"C0", "X0", "U0", "R3"},                                           // deadline changes after close
	}
	for i, s := range scripts {
		runHrCase(r, hrClass{name: "handle-read-script", viaClient: i%2 == 1, pRead: 50}, s)
	}
	classes := []hrClass{
		{name: "handle-read-partial", pRead: 100, small: true},
		{name: "handle-read-edge", pRead: 100, edge: true},
		{name: "handle-read-any", pRead: 100},
		{name: "handle-readmsg", pRead: 0, edge: true},
		{name: "handle-read-mixed", pRead: 60, edge: true},
		{name: "handle-read-close-drain", pRead: 85, small: true, closeMid: true},
		{name: "handle-read-queue-full", pRead: 90, flood: true},
		{name: "client-read-partial", pRead: 80, small: true, viaClient: true},
		{name: "client-read-close-drain", pRead: 70, edge: true, viaClient: true, closeMid: true},
	}
	n := hv.Scale(30, 400)
	for _, c := range classes {
		for i := 0; i < n; i++ {
			runHrCase(r, c, nil)
		}
	}
	// a few histories in which the read deadline is cleared, so that an idle read really blocks
	for i := 0; i < hv.Scale(6, 40); i++ {
		runHrCase(r, hrClass{name: "handle-read-block", pRead: 80, unexp: true}, nil)
	}
}
