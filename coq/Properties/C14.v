From Hop Require Import Base Replay.
Theorem c14_placeholder : check win_init 0 = true.
Proof. reflexivity. Qed.
Print Assumptions c14_placeholder.
