// c14: replay-filter correspondence driver. Generates Mark/Check programs, runs them on the
// real transport.SlidingWindow, evaluates the set-based specification on the results.
package main

import (
	"fmt"
	"strings"

	"hop.computer/hop/transport"
	"verifharness/hv"
)

type op struct {
	mark bool
	c    uint64
}

// set-based oracle, written from the property statement (not from the code or the model)
type oracle struct {
	seen map[uint64]bool
	top  uint64
}

func (o *oracle) fresh(c uint64) bool { return !o.seen[c] && c+448 >= o.top }
func (o *oracle) mark(c uint64) {
	o.seen[c] = true
	if c > o.top {
		o.top = c
	}
}

func runCase(class string, ops []op) {
	var w transport.SlidingWindow
	o := &oracle{seen: map[uint64]bool{}}
	var obs []bool
	var coq []string
	var desc []string
	specOK := true
	what := ""
	checks := 0
	blocksTouched := map[uint64]bool{}
	for i, p := range ops {
		if p.mark {
			w.Mark(p.c)
			o.mark(p.c)
			coq = append(coq, "M "+hv.N(p.c))
			desc = append(desc, "M"+hv.N(p.c))
			blocksTouched[p.c>>6] = true
		} else {
			got := w.Check(p.c)
			want := o.fresh(p.c)
			obs = append(obs, got)
			checks++
			if got != want && specOK {
				specOK = false
				what = fmt.Sprintf("op %d: Check(%d)=%v but the set-based definition says %v", i, p.c, got, want)
			}
			coq = append(coq, "C "+hv.N(p.c))
			desc = append(desc, "C"+hv.N(p.c))
		}
	}
	d := strings.Join(desc, " ")
	hv.Emit(hv.Case{Fn: "c14_ok", Coq: hv.Tuple(hv.List(coq), hv.Bools(obs)), Class: class, Desc: d,
		Spec: specOK, Sig: "C14:check-differs-from-set-definition", What: what,
		NT: checks > 0 && len(blocksTouched) >= 2, Replay: map[string]interface{}{"ops": d}})
}

func main() {
	defer hv.Flush()
	r := hv.NewRand(hv.Seed())
	// accept-style history: Check then Mark if fresh (the transport's usage), plus extra probes
	boundary := func(top uint64) []uint64 {
		c := []uint64{top, top + 1, top + 63, top + 64, top + 65, top + 447, top + 448, top + 449, top + 511, top + 512, top + 513, top + 1<<20}
		for _, d := range []uint64{1, 2, 63, 64, 65, 127, 128, 447, 448, 449, 450, 511, 512, 513} {
			if top >= d {
				c = append(c, top-d)
			}
		}
		c = append(c, (top|63)+1, top|63, top&^63, (top&^63)+64)
		if top&^63 > 0 {
			c = append(c, (top&^63)-1)
		}
		return c
	}
	n := hv.Scale(1500, 10000)
	for k := 0; k < n; k++ {
		var ops []op
		top := uint64(0)
		class := hv.Pick(r, []string{"accept-boundary", "accept-random-near", "mark-arbitrary", "descending", "bigjump"})
		start := hv.Pick(r, []uint64{0, 0, 1, 63, 64, 447, 448, 449, 512, 1000, 1 << 32, (1 << 62) + 5, (1 << 63) - 2000})
		var shadow transport.SlidingWindow
		if start > 0 {
			ops = append(ops, op{true, start})
			shadow.Mark(start)
			top = start
		}
		L := 4 + r.Intn(hv.Scale(40, 120))
		for i := 0; i < L; i++ {
			var c uint64
			switch class {
			case "accept-boundary", "mark-arbitrary":
				c = hv.Pick(r, boundary(top))
			case "accept-random-near":
				lo := uint64(0)
				if top > 600 {
					lo = top - 600
				}
				c = lo + uint64(r.Intn(1300))
			case "descending":
				if top > uint64(i*7) {
					c = top - uint64(i*7) - uint64(r.Intn(3))
				} else {
					c = uint64(r.Intn(64))
				}
				if i == 0 {
					c = top + 500 + uint64(r.Intn(100))
				}
			case "bigjump":
				if r.Chance(25) {
					c = top + hv.Pick(r, []uint64{449, 512, 513, 576, 1024, 4096, 1 << 20, 1 << 40})
				} else {
					c = hv.Pick(r, boundary(top))
				}
			}
			if c >= 1<<63 {
				c = (1 << 63) - 1 - uint64(r.Intn(1000))
			}
			if class == "mark-arbitrary" {
				// arbitrary Mark calls (not only fresh ones)
				ops = append(ops, op{true, c})
				shadow.Mark(c)
			} else {
				// the transport's usage: Check, and Mark only if Check said yes
				ops = append(ops, op{false, c})
				if shadow.Check(c) {
					ops = append(ops, op{true, c})
					shadow.Mark(c)
				}
			}
			if c > top {
				top = c
			}
			// probes around the window edges
			for j := 0; j < 2; j++ {
				ops = append(ops, op{false, hv.Pick(r, boundary(top))})
			}
		}
		runCase(class, ops)
	}
	throughClass(r)
	// exhaustive short histories over a boundary alphabet
	alpha := []uint64{0, 1, 63, 64, 447, 448, 449, 511, 512, 513, 960, 1025}
	depth := hv.Scale(3, 4)
	var rec func(prefix []uint64)
	rec = func(prefix []uint64) {
		if len(prefix) == depth {
			var ops []op
			for _, c := range prefix {
				ops = append(ops, op{true, c})
			}
			for _, c := range alpha {
				ops = append(ops, op{false, c})
			}
			runCase("exhaustive-mark", ops)
			return
		}
		for _, c := range alpha {
			rec(append(append([]uint64{}, prefix...), c))
		}
	}
	rec(nil)
}
