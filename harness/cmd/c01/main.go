// c01: correspondence driver for C01 (handshake completes only with a peer that proved its
// certified key). Real transport.Client / transport.Server over an in-memory wire; impostors
// are real endpoints configured with substituted keys and certificates.
package main

import (
	"github.com/sirupsen/logrus"
	"verifharness/hsx"
	"verifharness/hv"
)

func main() {
	defer hv.Flush()
	logrus.SetLevel(logrus.PanicLevel)
	r := hv.NewRand(hv.Seed())
	w := hsx.NewWorld()
	w.C01Matrix()
	w.C01Readers(r)
	w.C01Transplant()
	w.C01Policy()
	w.C01NameTypes()
	w.C01KeySetHistories()
}
