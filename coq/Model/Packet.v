(* Packet.v — model of the transport data path of hop-go (C03, C15):
     transport/transport.go   PlaintextLen, PeekSession, sealPacketLocked, readPacketLocked,
                              handleControlLocked, closeLocked
     transport/handle.go      send, WriteMsg, Write, ReadMsg, Read, Close
     transport/server.go      handleSessionMessage          transport/client.go  handleSessionMessage
   The replay window is Replay.win (Model/Replay.v).  The AEAD (kravatte SANSE) is a pair of
   Section variables; the model never looks inside it.
   The model follows the code AFTER the three `fix:` commits of branch `packet`
   (Write loop starts at 0; handleSessionMessage rejects a negative PlaintextLen before make). *)
From Hop Require Import Base Replay.
Open Scope N_scope.

(* ---- protocol constants (transport/common.go) ---- *)
Definition header_len : N := 4.
Definition session_id_len : N := 4.
Definition counter_len : N := 8.
Definition tag_len : N := 32.
Definition ad_len : N := 16.                       (* AssociatedDataLen = 4 + 4 + 8 *)
Definition overhead : N := 48.                     (* HeaderLen+SessionIDLen+CounterLen+TagLen *)
Definition mt_transport : N := 16.                 (* 0x10 *)
Definition mt_control : N := 128.                  (* 0x80 *)
Definition ctrl_close : N := 1.
Definition max_plaintext_size : N := 64503.        (* 65535-1000-4-4-8-16 *)

(* func PlaintextLen(transportLen int) int — may be negative *)
Definition plaintext_len (n : N) : Z := (Z.of_N n - 48)%Z.

Definition addr := N.   (* canonical id of a UDP address (EqualUDPAddress classes); 0 = nil *)

Definition slice (b : bytes) (i j : N) : bytes := take (j - i) (drop i b).

(* SessionState (+ the Handle's receive side) *)
Record sess := mkSess {
  sid : bytes;                 (* sessionID [4]byte *)
  key_send : bytes;            (* *writeKey *)
  key_recv : option bytes;     (* readKey, nil until the handshake has derived keys *)
  count : N;                   (* uint64 send counter *)
  window : win;
  queue : list bytes;          (* Handle.recv.C, oldest first *)
  qcap : N;                    (* cap(recv.C) = MaxBufferedPackets *)
  rbuf : bytes;                (* Handle.buf: bytes of a message not yet taken by the reader *)
  closed : bool;               (* handleState == closed *)
  remote : addr                (* remoteAddr *)
}.

Definition set_count (s : sess) (c : N) : sess :=
  mkSess (sid s) (key_send s) (key_recv s) c (window s) (queue s) (qcap s) (rbuf s) (closed s) (remote s).
Definition set_window (s : sess) (w : win) : sess :=
  mkSess (sid s) (key_send s) (key_recv s) (count s) w (queue s) (qcap s) (rbuf s) (closed s) (remote s).
Definition set_queue (s : sess) (q : list bytes) : sess :=
  mkSess (sid s) (key_send s) (key_recv s) (count s) (window s) q (qcap s) (rbuf s) (closed s) (remote s).
Definition set_rbuf (s : sess) (b : bytes) : sess :=
  mkSess (sid s) (key_send s) (key_recv s) (count s) (window s) (queue s) (qcap s) b (closed s) (remote s).
Definition set_closed (s : sess) : sess :=
  mkSess (sid s) (key_send s) (key_recv s) (count s) (window s) (queue s) (qcap s) (rbuf s) true (remote s).
Definition set_remote (s : sess) (a : addr) : sess :=
  mkSess (sid s) (key_send s) (key_recv s) (count s) (window s) (queue s) (qcap s) (rbuf s) (closed s) a.

(* what handleSessionMessage did with one datagram *)
Inductive outcome :=
| ORejected      (* returned an error before touching the session *)
| OClosedDrop    (* session already closed: returned nil, nothing done *)
| ODelivered     (* authentic transport message put on the receive queue; address updated *)
| OQueueFull     (* authentic transport message, queue full: dropped; window marked, address updated *)
| OCtrlClose     (* authentic close message: session closed; address updated *)
| OCtrlBad       (* authentic control message with another body: session closed, error, no address update *)
| OBadType.      (* the switch's default branch (closes); unreachable, see PacketProofs *)

(* error bit of handleSessionMessage's return value *)
Definition outcome_err (o : outcome) : bool :=
  match o with ORejected | OCtrlBad | OBadType => true | _ => false end.
(* did the datagram pass every check (type, reserved, session, replay window, AEAD)? *)
Definition outcome_authentic (o : outcome) : bool :=
  match o with ORejected | OClosedDrop => false | _ => true end.
(* did the handler reach its tail (the address update)? *)
Definition outcome_accepted (o : outcome) : bool :=
  match o with ODelivered | OQueueFull | OCtrlClose => true | _ => false end.

Definition pkt_type (pkt : bytes) : N := nth 0 pkt 0.
Definition pkt_sid (pkt : bytes) : bytes := slice pkt 4 8.
Definition pkt_counter (pkt : bytes) : N := be_dec (slice pkt 8 16).
Definition pkt_ad (pkt : bytes) : bytes := take ad_len pkt.
Definition pkt_body (pkt : bytes) : bytes := drop ad_len pkt.

Definition qlen (q : list bytes) : N := N.of_nat (length q).

(* b[i] on a slice whose capacity equals its length *)
Definition idx (b : bytes) (i : N) : res N :=
  if i <? len b then Ok (nth (N.to_nat i) b 0) else Panic.

(* the wire header: type, three reserved zero bytes, session id, 8-byte big-endian counter *)
Definition header (mt : N) (id : bytes) (c : N) : bytes := [mt; 0; 0; 0] ++ id ++ be_enc 8 c.

Section AEAD.
  (* kravatte.NewSANSE(key).Seal(dst, nil, plaintext, ad) / .Open(dst, nil, ciphertext, ad); no nonce *)
  Variable seal : bytes -> bytes -> bytes -> bytes.           (* key ad plaintext -> ciphertext||tag *)
  Variable open : bytes -> bytes -> bytes -> option bytes.    (* key ad ciphertext||tag *)

  (* func (ss *SessionState) sealPacketLocked(msgType, in, key) ([]byte, error) *)
  Definition seal_packet (ss : sess) (mt : N) (pt : bytes) : res (sess * bytes) :=
    let hdr := header mt (sid ss) (count ss) in
    let enc := seal (key_send ss) (take ad_len hdr) pt in
    if negb (len enc =? tag_len + len pt) then Panic       (* logrus.Panicf("expected len(buf) = len(enc)") *)
    else Ok (set_count ss (u64_add (count ss) 1), hdr ++ enc).

  (* func (ss *SessionState) readPacketLocked(plaintext, pkt, key) (int, MessageType, error)
     buflen = len(plaintext).  Returns the new window, the type and the opened plaintext. *)
  Definition read_packet (ss : sess) (buflen : N) (pkt : bytes) (key : option bytes)
    : res (win * N * bytes) :=
    let ptlen := plaintext_len (len pkt) in
    if (Z.of_N buflen <? ptlen)%Z then Err else                                  (* ErrBufOverflow *)
    t <- idx pkt 0 ;;
    if negb ((t =? mt_transport) || (t =? mt_control)) then Err else              (* ErrUnexpectedMessage *)
    r1 <- idx pkt 1 ;; if negb (r1 =? 0) then Err else
    r2 <- idx pkt 2 ;; if negb (r2 =? 0) then Err else
    r3 <- idx pkt 3 ;; if negb (r3 =? 0) then Err else                            (* ErrInvalidMessage *)
    if len pkt <? 8 then Panic else                                               (* b[:SessionIDLen] *)
    if negb (beq_bytes (sid ss) (pkt_sid pkt)) then Err else                      (* ErrUnknownSession *)
    if len pkt <? 16 then Panic else                                              (* _ = b[7] *)
    let c := pkt_counter pkt in
    if negb (check (window ss) c) then Err else                                   (* ErrReplay *)
    match key with
    | None => Err                                                                 (* readKey is nil *)
    | Some k =>
      (* enc := b[:ciphertextLen] with ciphertextLen = len(pkt)-16 = len(b): never out of range here *)
      match open k (pkt_ad pkt) (pkt_body pkt) with
      | None => Err
      | Some out =>
        if negb (Z.of_N (len out) =? ptlen)%Z then Panic                          (* logrus.Panicf("len(out)") *)
        else Ok (mark (window ss) c, t, out)
      end
    end.

  (* handleControlLocked + the switch of handleSessionMessage, from `ss.m.Lock()` on *)
  Definition session_input (ss : sess) (a : addr) (pkt : bytes) : res (sess * outcome) :=
    if closed ss then Ok (ss, OClosedDrop) else
    let ptlen := plaintext_len (len pkt) in
    if (ptlen <? 0)%Z then Ok (ss, ORejected) else         (* fix: ErrBufUnderflow instead of makeslice panic *)
    match read_packet ss (Z.to_N ptlen) pkt (key_recv ss) with
    | Panic => Panic
    | Err => Ok (ss, ORejected)
    | Ok (w, t, pt) =>
      let ss1 := set_window ss w in
      if t =? mt_transport then
        (* select { case recv.C <- plaintext: default: drop } *)
        if qlen (queue ss1) <? qcap ss1
        then Ok (set_remote (set_queue ss1 (queue ss1 ++ [pt])) a, ODelivered)
        else Ok (set_remote ss1 a, OQueueFull)
      else if t =? mt_control then
        if (len pt =? 1) && (nth 0 pt 0 =? ctrl_close)
        then Ok (set_remote (set_closed ss1) a, OCtrlClose)
        else Ok (set_closed ss1, OCtrlBad)
      else Ok (set_closed ss1, OBadType)
    end.

  (* func PeekSession(msg []byte) (SessionID, error) *)
  Definition peek_session (pkt : bytes) : option bytes :=
    if len pkt <? header_len + session_id_len then None else Some (pkt_sid pkt).

  (* ---- client.go handleSessionMessage: one session ---- *)
  Definition client_handle (ss : sess) (a : addr) (pkt : bytes) : res (sess * outcome) :=
    match peek_session pkt with
    | None => Ok (ss, ORejected)                                  (* ErrBufUnderflow *)
    | Some id =>
      if negb (beq_bytes id (sid ss)) then Ok (ss, ORejected)     (* ErrUnknownSession *)
      else session_input ss a pkt
    end.

  (* ---- server.go handleSessionMessage: table of sessions keyed by session id ---- *)
  Definition server := list sess.
  Fixpoint lookup (sv : server) (id : bytes) : option sess :=
    match sv with
    | [] => None
    | s :: r => if beq_bytes (sid s) id then Some s else lookup r id
    end.
  Fixpoint update (sv : server) (id : bytes) (s' : sess) : server :=
    match sv with
    | [] => []
    | s :: r => if beq_bytes (sid s) id then s' :: r else s :: update r id s'
    end.
  Definition server_handle (sv : server) (a : addr) (pkt : bytes) : res (server * outcome) :=
    match peek_session pkt with
    | None => Ok (sv, ORejected)
    | Some id =>
      match lookup sv id with
      | None => Ok (sv, ORejected)                                (* ErrUnknownSession *)
      | Some ss =>
        match session_input ss a pkt with
        | Ok (ss', o) => Ok (update sv id ss', o)
        | Err => Err
        | Panic => Panic
        end
      end
    end.

  (* ---- handle.go send / WriteMsg / Write ---- *)
  Definition dgram := (bytes * addr)%type.        (* datagram handed to WriteMsgUDP and its destination *)

  (* func (c *Handle) send(msgType, b) error — the underlying transport accepts every datagram *)
  Definition send (ss : sess) (mt : N) (b : bytes) : res (sess * dgram) :=
    if closed ss then Err                                           (* io.EOF *)
    else match seal_packet ss mt b with
         | Ok (ss', pkt) => Ok (ss', (pkt, remote ss))              (* remoteAddr read under the same lock *)
         | Err => Err
         | Panic => Panic
         end.

  Definition write_msg (max : N) (ss : sess) (b : bytes) : res (sess * dgram) :=
    if max <? len b then Err else send ss mt_transport b.           (* ErrBufOverflow *)

  (* the for-header of Handle.Write: for i := 0; i < len(b); i += max { end := min(i+max, len(b)) ... }
     as the list of (i, end) pairs; fuel only bounds the recursion (None = ran out, max = 0) *)
  Fixpoint chunk_ranges (fuel : nat) (max n i : N) : option (list (N * N)) :=
    if i <? n then
      match fuel with
      | O => None
      | S f =>
        let e := if n <? i + max then n else i + max in
        match chunk_ranges f max n (i + max) with
        | Some r => Some ((i, e) :: r)
        | None => None
        end
      end
    else Some [].

  (* result of a Write call *)
  Record wres := mkW { w_ss : sess; w_out : list dgram; w_n : N; w_err : bool; w_panic : bool }.

  (* the loop body over the ranges: WriteMsg(b[i:end]); on error return (total, err); total += end - i *)
  Fixpoint write_loop (max : N) (ss : sess) (b : bytes) (rs : list (N * N)) (out : list dgram) (total : N) : wres :=
    match rs with
    | [] => mkW ss out total false false
    | (i, e) :: r =>
      match write_msg max ss (slice b i e) with
      | Ok (ss', d) => write_loop max ss' b r (out ++ [d]) (total + (e - i))
      | Err => mkW ss out total true false
      | Panic => mkW ss out total true true
      end
    end.

  (* func (c *Handle) Write(buf []byte) (int, error) *)
  Definition write (max : N) (ss : sess) (b : bytes) : option wres :=
    if len b <=? max then
      match write_msg max ss b with
      | Ok (ss', d) => Some (mkW ss' [d] (len b) false false)
      | Err => Some (mkW ss [] 0 true false)
      | Panic => Some (mkW ss [] 0 true true)
      end
    else
      match chunk_ranges (S (length b)) max (len b) 0 with
      | Some rs => Some (write_loop max ss b rs [] 0)
      | None => None
      end.
End AEAD.

(* the pure chunking law of Handle.Write (no session): the pieces handed to WriteMsg and the count returned
   when every WriteMsg succeeds *)
Definition write_chunks (max : N) (b : bytes) : option (list bytes * N) :=
  if len b <=? max then Some ([b], len b)
  else match chunk_ranges (S (length b)) max (len b) 0 with
       | Some rs => Some (map (fun r => slice b (fst r) (snd r)) rs,
                          fold_left (fun t r => t + (snd r - fst r)) rs 0)
       | None => None
       end.

(* ---- reader side: handle.go ReadMsg / Read with a caller buffer of n bytes ---- *)
Inductive rd :=
| RData (b : bytes)      (* (len b, nil) and these bytes copied *)
| RErr                   (* ErrBufOverflow from ReadMsg *)
| REOF                   (* closed and drained *)
| RBlock.                (* nothing buffered, session open: the call blocks (until its deadline) *)

Definition read_msg (ss : sess) (n : N) : sess * rd :=
  if 0 <? len (rbuf ss) then
    if n <? len (rbuf ss) then (ss, RErr)
    else (set_rbuf ss [], RData (rbuf ss))
  else match queue ss with
       | [] => (ss, if closed ss then REOF else RBlock)
       | m :: q =>
         if len m <=? n then (set_queue ss q, RData m)
         else (set_rbuf (set_queue ss q) m, RErr)
       end.

Definition read (ss : sess) (n : N) : sess * rd :=
  if 0 <? len (rbuf ss) then
    (set_rbuf ss (drop n (rbuf ss)), RData (take n (rbuf ss)))
  else match queue ss with
       | [] => (ss, if closed ss then REOF else RBlock)
       | m :: q => (set_rbuf (set_queue ss q) (drop n m), RData (take n m))
       end.

(* func (c *Handle) Close() *)
Definition close (ss : sess) : sess := set_closed ss.

(* ====================================================================================== *)
(* Specification-level definitions used by the theorems of Properties/C03.v and C15.v     *)
(* ====================================================================================== *)

Section Spec.
  Variable seal : bytes -> bytes -> bytes -> bytes.
  Variable open : bytes -> bytes -> bytes -> option bytes.

  (* every check of readPacketLocked that does not involve the key *)
  Definition wf_header (ss : sess) (pkt : bytes) : bool :=
    (48 <=? len pkt) &&
    ((pkt_type pkt =? mt_transport) || (pkt_type pkt =? mt_control)) &&
    (nth 1 pkt 0 =? 0) && (nth 2 pkt 0 =? 0) && (nth 3 pkt 0 =? 0) &&
    beq_bytes (sid ss) (pkt_sid pkt) &&
    check (window ss) (pkt_counter pkt).

  (* "the datagram authenticates": the session is open, the header is well formed for this session,
     its counter passes the replay filter and SANSE opens the body under the session's read key with
     the 16 header bytes as associated data *)
  Definition opens (ss : sess) (pkt : bytes) : option bytes :=
    if closed ss then None
    else if negb (wf_header ss pkt) then None
    else match key_recv ss with
         | None => None
         | Some k => open k (pkt_ad pkt) (pkt_body pkt)
         end.

  (* what an authentic fresh datagram of type t, counter c, plaintext p from address a does *)
  Definition apply_auth (ss : sess) (a : addr) (t c : N) (p : bytes) : sess * outcome :=
    let ss1 := set_window ss (mark (window ss) c) in
    if t =? mt_transport then
      if qlen (queue ss1) <? qcap ss1
      then (set_remote (set_queue ss1 (queue ss1 ++ [p])) a, ODelivered)
      else (set_remote ss1 a, OQueueFull)
    else if (len p =? 1) && (nth 0 p 0 =? ctrl_close)
         then (set_remote (set_closed ss1) a, OCtrlClose)
         else (set_closed ss1, OCtrlBad).

  (* ---- histories of one endpoint session: datagrams from the network interleaved with local calls ---- *)
  Inductive ev :=
  | EvIn (a : addr) (pkt : bytes)      (* a datagram arrives (any bytes, any source) *)
  | EvReadMsg (n : N)
  | EvRead (n : N)
  | EvSend (mt : N) (m : bytes)        (* Handle.send: WriteMsg is EvSend mt_transport after its size check *)
  | EvWrite (b : bytes)
  | EvClose.

  Inductive eobs :=
  | ObIn (o : outcome)
  | ObRd (r : rd)
  | ObSent (ds : list dgram) (n : N) (err : bool)
  | ObNone
  | ObPanic.

  Definition ep_step (max : N) (ss : sess) (e : ev) : sess * eobs :=
    match e with
    | EvIn a pkt =>
      match session_input open ss a pkt with
      | Ok (ss', o) => (ss', ObIn o)
      | _ => (ss, ObPanic)
      end
    | EvReadMsg n => let '(s', r) := read_msg ss n in (s', ObRd r)
    | EvRead n => let '(s', r) := read ss n in (s', ObRd r)
    | EvSend mt m =>
      match send seal ss mt m with
      | Ok (ss', d) => (ss', ObSent [d] (len m) false)
      | Err => (ss, ObSent [] 0 true)
      | Panic => (ss, ObPanic)
      end
    | EvWrite b =>
      match write seal max ss b with
      | Some w => if w_panic w then (w_ss w, ObPanic) else (w_ss w, ObSent (w_out w) (w_n w) (w_err w))
      | None => (ss, ObPanic)
      end
    | EvClose => (close ss, ObNone)
    end.

  Fixpoint ep_run (max : N) (ss : sess) (evs : list ev) : sess * list eobs :=
    match evs with
    | [] => (ss, [])
    | e :: r => let '(s1, o) := ep_step max ss e in
                let '(s2, os) := ep_run max s1 r in (s2, o :: os)
    end.

  (* ghost projections of a history *)
  (* counters of the datagrams that passed every check, oldest first *)
  Fixpoint accepted (max : N) (ss : sess) (evs : list ev) : list N :=
    match evs with
    | [] => []
    | e :: r =>
      let '(s1, o) := ep_step max ss e in
      match e, o with
      | EvIn _ pkt, ObIn oc => if outcome_authentic oc then pkt_counter pkt :: accepted max s1 r else accepted max s1 r
      | _, _ => accepted max s1 r
      end
    end.
  (* (counter, message) of the datagrams put on the receive queue, oldest first *)
  Fixpoint delivered (max : N) (ss : sess) (evs : list ev) : list (N * bytes) :=
    match evs with
    | [] => []
    | e :: r =>
      let '(s1, o) := ep_step max ss e in
      match e, o with
      | EvIn _ pkt, ObIn ODelivered =>
        match opens ss pkt with
        | Some p => (pkt_counter pkt, p) :: delivered max s1 r
        | None => delivered max s1 r
        end
      | _, _ => delivered max s1 r
      end
    end.
  (* hypothesis of the at-most-once theorem (the property's bound on counters): every datagram of the
     history that SANSE opens under the read key kr carries a counter below 2^63 *)
  Definition auth_below (kr : option bytes) (evs : list ev) : Prop :=
    Forall (fun e => match e with
                     | EvIn _ pkt => forall k p, kr = Some k -> open k (pkt_ad pkt) (pkt_body pkt) = Some p ->
                                                 pkt_counter pkt < 2 ^ 63
                     | _ => True
                     end) evs.

  (* the bytes the reader has been given, in order *)
  Fixpoint read_bytes (os : list eobs) : bytes :=
    match os with
    | [] => []
    | ObRd (RData b) :: r => b ++ read_bytes r
    | _ :: r => read_bytes r
    end.
  (* the address the session would send to, judged from the history alone: source of the last
     datagram that passed every check and reached the handler's tail, else the initial address *)
  Fixpoint addr_spec (max : N) (ss : sess) (evs : list ev) (cur : addr) : addr :=
    match evs with
    | [] => cur
    | e :: r =>
      let '(s1, o) := ep_step max ss e in
      match e, o with
      | EvIn a _, ObIn oc => addr_spec max s1 r (if outcome_accepted oc then a else cur)
      | _, _ => addr_spec max s1 r cur
      end
    end.

  (* a faithful network: datagrams handed to the peer in order, unchanged, from one address *)
  Fixpoint feed (B : sess) (a : addr) (pkts : list bytes) : res (sess * list outcome) :=
    match pkts with
    | [] => Ok (B, [])
    | p :: r =>
      match session_input open B a p with
      | Ok (B', o) =>
        match feed B' a r with
        | Ok (B'', os) => Ok (B'', o :: os)
        | Err => Err
        | Panic => Panic
        end
      | Err => Err
      | Panic => Panic
      end
    end.

  (* sender A and receiver B are the two ends of one direction of a session, and B has seen nothing
     at or above A's next counter *)
  Definition in_sync (A B : sess) : Prop :=
    closed A = false /\ closed B = false /\ key_recv B = Some (key_send A) /\ sid B = sid A /\
    len (sid A) = 4 /\ wt (window B) <= count A /\ check (window B) (count A) = true.

  (* ---- several endpoints, one adversary: the system the authenticity theorem quantifies over ---- *)
  (* ghost record of one honest call of SANSE.Seal *)
  Record entry := mkEntry {
    en_who : nat; en_mt : N; en_sid : bytes; en_ctr : N;   (* who sealed, and the header fields it used *)
    en_key : bytes; en_ad : bytes; en_pt : bytes; en_ct : bytes }.

  Record sys := mkSys {
    eps : nat -> sess;                       (* the honest endpoints' sessions *)
    slog : list entry;                       (* ghost: honest seals so far, newest first *)
    dlog : list (nat * N * N * bytes)        (* ghost: (receiver, type, counter, plaintext) of accepted datagrams *)
  }.

  Definition upd_ep (f : nat -> sess) (i : nat) (s : sess) : nat -> sess :=
    fun n => if Nat.eqb n i then s else f n.

  Inductive sev :=
  | SSend (i : nat) (mt : N) (m : bytes)         (* endpoint i seals and sends m; the adversary gets the datagram *)
  | SIn (j : nat) (a : addr) (pkt : bytes)       (* the adversary hands ANY bytes to endpoint j from any address *)
  | SLocal (j : nat) (e : ev).                   (* reads, close (EvIn/EvSend/EvWrite are ignored here) *)

  Definition sys_step (st : sys) (e : sev) : sys :=
    match e with
    | SSend i mt m =>
      let s := eps st i in
      match send seal s mt m with
      | Ok (s', _) =>
        let ad := take ad_len (header mt (sid s) (count s)) in
        mkSys (upd_ep (eps st) i s')
              (mkEntry i mt (sid s) (count s) (key_send s) ad m (seal (key_send s) ad m) :: slog st)
              (dlog st)
      | _ => st
      end
    | SIn j a pkt =>
      let s := eps st j in
      match session_input open s a pkt with
      | Ok (s', o) =>
        mkSys (upd_ep (eps st) j s') (slog st)
              (if outcome_authentic o
               then match opens s pkt with
                    | Some p => (j, pkt_type pkt, pkt_counter pkt, p) :: dlog st
                    | None => dlog st
                    end
               else dlog st)
      | _ => st
      end
    | SLocal j e =>
      match e with
      | EvReadMsg _ | EvRead _ | EvClose =>
        mkSys (upd_ep (eps st) j (fst (ep_step 1 (eps st j) e))) (slog st) (dlog st)
      | _ => st
      end
    end.

  Definition sys_run (st : sys) (evs : list sev) : sys := fold_left sys_step evs st.

  (* counters of the datagrams endpoint j accepted, newest first *)
  Fixpoint dlog_ctrs (j : nat) (dl : list (nat * N * N * bytes)) : list N :=
    match dl with
    | [] => []
    | (j', _, c, _) :: r => if Nat.eqb j' j then c :: dlog_ctrs j r else dlog_ctrs j r
    end.

  (* a well-formed initial configuration: 4-byte session ids, fresh replay windows, empty ghost logs, and
     send counters that stay below 2^63 for the n events to come (the property's bound on counters) *)
  Definition sys_init_ok (st : sys) (n : nat) : Prop :=
    slog st = [] /\ dlog st = [] /\
    forall i, len (sid (eps st i)) = 4 /\ window (eps st i) = win_init /\ count (eps st i) + N.of_nat n < 2 ^ 63.

  (* symbolic INT-CTXT along a run: whenever a datagram handed to endpoint j opens under j's read key,
     that exact (key, associated data, plaintext, ciphertext) was produced by an honest Seal earlier in the run *)
  Fixpoint int_ctxt_run (st : sys) (evs : list sev) : Prop :=
    match evs with
    | [] => True
    | e :: r =>
      match e with
      | SIn j a pkt =>
        forall k p, key_recv (eps st j) = Some k -> open k (pkt_ad pkt) (pkt_body pkt) = Some p ->
          exists en, In en (slog st) /\ en_key en = k /\ en_ad en = pkt_ad pkt /\ en_pt en = p /\ en_ct en = pkt_body pkt
      | _ => True
      end /\ int_ctxt_run (sys_step st e) r
    end.
End Spec.
