#!/bin/bash
# usage: seed_vs.sh <SEEDID> <Cxx> [<Cxx>...] — run checks against /repo HEAD + seeded patch, in a scratch worktree
id=$1; shift
wt=/tmp/vs-$id-$$
git -C /repo worktree add -q --detach $wt HEAD || exit 2
if git -C $wt apply /verif/seeded/$id/patch.diff; then
  for p in "$@"; do echo "== seed $id vs $p"; (cd /verif && VERIF_REPO=$wt ./check $p 2>&1 | grep -E "^(VIOLATION|KNOWN|C[0-9]+ tier)" | cut -c1-260); done
else echo "== seed $id: PATCH DOES NOT APPLY to current /repo HEAD"; fi
git -C /repo worktree remove --force $wt
