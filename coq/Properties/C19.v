(* C19 — the server is stateless before a valid cookie and silent in hidden mode.
   Model: Model/HsServer.v server_step (Server.readPacket) over Model/Handshake.v. *)
From Hop Require Import Base Handshake HsServer HandshakeProofs HsServerProofs.
Open Scope N_scope.

(* A ClientHello — accepted or not, answered or not — leaves the whole server state unchanged:
   handshake table, session table, accept queue, cookie key. *)
Theorem c19_hello_stateless : forall O X SM s I a d,
  at_ d 0 = MT_ClientHello -> so_srv (server_step O X SM s I a d) = s.
Proof. exact client_hello_stateless. Qed.
Print Assumptions c19_hello_stateless.

Corollary c19_hello_tables_unchanged : forall O X SM s I a d,
  at_ d 0 = MT_ClientHello -> tables (so_srv (server_step O X SM s I a d)) = tables s.
Proof. intros. rewrite client_hello_stateless; auto. Qed.
Print Assumptions c19_hello_tables_unchanged.

(* A ClientAck is answered (ServerAuth) or changes any table only if the cookie it carries opens
   under the server's CURRENT cookie key with associated data H(client KEM key as carried in the
   message || source ip || source port), the message has exactly the ClientAck length, and the
   server is not hidden. *)
Theorem c19_ack_needs_bound_cookie : forall O X SM s I a d,
  at_ d 0 = MT_ClientAck ->
  let o := server_step O X SM s I a d in
  (so_out o <> [] \/ so_srv o <> s) ->
  len d = PQClientAckLen /\ sv_hidden s = false /\
  exists kc sec,
    x_kemparse X (slice d (HeaderLen + DHLen) KemKeyLen) = Some kc /\
    x_open X (sv_ck s) (cookie_ad X kc (fst a) (snd a))
           (take PQCookieLen (slice d (HeaderLen + DHLen + KemKeyLen) PQCookieLen)) = Some sec.
Proof. exact client_ack_needs_bound_cookie. Qed.
Print Assumptions c19_ack_needs_bound_cookie.

(* With the AEAD idealised (named hypothesis aead_int_ctxt: whatever opens under a key was sealed
   under that key with that associated data — [minted] is the ghost log of the server's seals):
   the cookie was minted by this server under its current key for exactly this source address
   and client KEM key. *)
Section IntCtxt.
  Variable X : xoracle.
  Variable minted : N -> bytes -> bytes -> Prop.   (* key id, associated data, cookie *)
  Hypothesis aead_int_ctxt : forall ck ad c k, x_open X ck ad c = Some k -> minted ck ad c.

  Theorem c19_ack_cookie_minted_under_int_ctxt : forall O SM s I a d,
    at_ d 0 = MT_ClientAck ->
    let o := server_step O X SM s I a d in
    (so_out o <> [] \/ so_srv o <> s) ->
    exists kc, x_kemparse X (slice d (HeaderLen + DHLen) KemKeyLen) = Some kc /\
      minted (sv_ck s) (cookie_ad X kc (fst a) (snd a))
             (take PQCookieLen (slice d (HeaderLen + DHLen + KemKeyLen) PQCookieLen)).
  Proof.
    intros O SM s I a d Ht o Hch.
    destruct (client_ack_needs_bound_cookie O X SM s I a d Ht Hch) as (_ & _ & kc & sec & Hk & Ho).
    exists kc. split; auto. eapply aead_int_ctxt; eauto.
  Qed.
End IntCtxt.
Print Assumptions c19_ack_cookie_minted_under_int_ctxt.
(* the hypothesis is satisfiable: take minted := "opens" *)
Example c19_int_ctxt_instance : forall X : xoracle,
  forall ck ad c k, x_open X ck ad c = Some k -> (fun ck ad c => exists k, x_open X ck ad c = Some k) ck ad c.
Proof. intros. cbn. eauto. Qed.

(* A hidden server sends a datagram only in a step whose datagram is a hidden request accepted
   by readPQClientRequestHidden with nothing trailing ... *)
Theorem c19_hidden_silent : forall O X SM s I a d,
  sv_hidden s = true ->
  so_out (server_step O X SM s I a d) <> [] ->
  at_ d 0 = MT_ClientRequestHidden /\
  exists T q, read_request_hidden O X (i_certs I) (sv_pol s) (i_now I) [] d = (T, Ok q) /\ hq_n q = len d.
Proof. exact hidden_server_silent. Qed.
Print Assumptions c19_hidden_silent.

(* ... and acceptance by that reader means: trial decryption succeeded under the KEM key of a
   configured certificate, the client certificate passes the policy, the decrypted timestamp ts
   satisfies 0 <= now - ts <= 5, and both MACs verify. *)
Theorem c19_hidden_silent_full : forall O X SM s I a d,
  sv_hidden s = true ->
  so_out (server_step O X SM s I a d) <> [] ->
  exists cs Tp kid k leaf inter q,
    i_certs I = Some cs /\ In (hq_cert q) cs /\ at_ d 0 = MT_ClientRequestHidden /\ at_ d 1 = Version /\
    len d = HeaderLen + KemCtLen + sa_L d + MacLen + KemKeyLen + TimestampLen + MacLen /\
    hc_kem (hq_cert q) = Some kid /\
    x_decaps X kid (slice d (HeaderLen + KemKeyLen) KemCtLen) = Some k /\
    certs_of (hq_certs_pt O Tp d k) (len (slice d hq_off (sa_L d))) = Ok (leaf, inter) /\
    slice d (hq_off + sa_L d) MacLen = o_sq O (hq_T4 O Tp d k) MacLen /\
    x_policy X (sv_pol s) leaf inter = Some (hq_pk q) /\
    be_dec (hq_ts O Tp d k) <= i_now I /\ i_now I - be_dec (hq_ts O Tp d k) <= HiddenExpiration /\
    slice d (hq_off + sa_L d + MacLen + TimestampLen) MacLen = o_sq O (hq_T6 O Tp d k) MacLen.
Proof.
  intros O X SM s I a d Hh Hout.
  destruct (hidden_server_silent O X SM s I a d Hh Hout) as (Ht & T & q & Hr & Hn).
  apply read_request_hidden_accept in Hr
    as (cs & Tp & kid & k & leaf & inter & Hc & Hin & _ & Hv & Hlen & _ & Hk & _ & Hd & Hce & Htag & _ & Hp & Ha & Hb & Hm & _).
  exists cs, Tp, kid, k, leaf, inter, q. rewrite <- Hn, Hlen. repeat split; auto.
Qed.
Print Assumptions c19_hidden_silent_full.
