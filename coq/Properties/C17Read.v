(* C17 (and C03 "delivered byte-identical"), part 4: the read side of transport.Handle —
   Read / ReadMsg with buffers shorter than the queued message, the leftover buffer, the receive
   queue, Close, read deadlines.  Model: Model/HandleRead.v (one transition per call; Read and ReadMsg
   hold readLock for their whole body).  All theorems quantify over every sequence of operations:
   every sequence of buffer sizes (0 included), message sizes (0 included), arrivals, closes and
   deadline changes, and every queue capacity. *)
From Hop Require Import Base HandleRead HandleReadProofs.
Local Open Scope N_scope.

(* ------------------------------------------------------------------ byte-stream law *)
(* Nothing lost, nothing duplicated, order kept: at every moment the bytes handed to the reader so
   far, then the leftover buffer, then the queued messages, are exactly the bytes of the messages
   accepted into the queue so far.  (A message that finds the queue full, or the session closed,
   is dropped whole by handleSessionMessage before it is accepted — the datagram layer may lose
   messages, the read path may not lose bytes.) *)
Theorem c17_read_stream_law : forall cap ex ops s evs,
  hr_run (hrinit cap ex) ops = (s, evs) ->
  hr_delivered evs ++ hrbuf s ++ List.concat (hrq s) = hr_accepted evs.
Proof. exact hr_stream_law. Qed.
Print Assumptions c17_read_stream_law.

(* the same from an arbitrary state (the step-by-step form of the law) *)
Theorem c17_read_stream_law_from_any_state : forall ops s s' evs,
  hr_run s ops = (s', evs) ->
  hr_pending s ++ hr_accepted evs = hr_delivered evs ++ hr_pending s'.
Proof. exact hr_run_stream. Qed.
Print Assumptions c17_read_stream_law_from_any_state.

(* a call never returns more than the caller's buffer holds *)
Theorem c17_read_fits_buffer : forall s n s' b,
  (hr_step s (HRead n) = (s', HData b) \/ hr_step s (HReadMsg n) = (s', HData b)) -> len b <= n.
Proof. exact hr_read_fits. Qed.
Print Assumptions c17_read_fits_buffer.

(* Non-vacuity: a 5-byte message read with buffers of 2, 0, 2, 4 bytes while a second message
   arrives in between, then Close: the fragments are 2+0+2+1 bytes, then the second message, then
   io.EOF; delivered = accepted = both messages. *)
Example c17_read_stream_instance :
  let ops := [HArrive [1;2;3;4;5]; HRead 2; HRead 0; HArrive [6;7]; HRead 2; HRead 4; HShut; HRead 4; HRead 4] in
  let '(s, evs) := hr_run (hrinit 4 false) ops in
  map snd evs = [HQueued; HData [1;2]; HData []; HQueued; HData [3;4]; HData [5]; HNil; HData [6;7]; HEof] /\
  hr_delivered evs = [1;2;3;4;5;6;7] /\ hr_accepted evs = [1;2;3;4;5;6;7] /\ hrbuf s = [] /\ hrq s = [].
Proof. vm_compute. repeat split. Qed.

(* ------------------------------------------------------------------ data before end-of-stream *)
(* A reader call reports io.EOF only on a closed handle whose leftover buffer and queue are both
   empty, and it changes nothing. *)
Theorem c17_read_eof_only_when_drained : forall s o s',
  hr_is_reader_ev (o, HEof) = true -> hr_step s o = (s', HEof) ->
  (hrclosed s = true /\ hrbuf s = [] /\ hrq s = []) /\ s' = s.
Proof. exact hr_eof_drained. Qed.
Print Assumptions c17_read_eof_only_when_drained.

(* For every history: when a Read/ReadMsg reports io.EOF, every byte accepted so far has been
   delivered; afterwards nothing is accepted, nothing is delivered, and every Read/ReadMsg reports
   io.EOF again (no data after end-of-stream). *)
Theorem c17_read_data_before_eof : forall cap ex ops1 o ops2 s1 evs1 s2 s3 evs2,
  hr_run (hrinit cap ex) ops1 = (s1, evs1) ->
  hr_is_reader_ev (o, HEof) = true ->
  hr_step s1 o = (s2, HEof) ->
  hr_run s2 ops2 = (s3, evs2) ->
  hr_delivered evs1 = hr_accepted evs1 /\
  hr_accepted evs2 = [] /\ hr_delivered evs2 = [] /\
  Forall (fun e => hr_is_reader_ev e = true -> snd e = HEof) evs2.
Proof. exact hr_data_before_eof. Qed.
Print Assumptions c17_read_data_before_eof.

(* runs compose, so the two halves above are one history *)
Theorem c17_read_run_app : forall ops1 ops2 s s1 evs1 s2 evs2,
  hr_run s ops1 = (s1, evs1) -> hr_run s1 ops2 = (s2, evs2) ->
  hr_run s (ops1 ++ ops2) = (s2, evs1 ++ evs2).
Proof. exact hr_run_app. Qed.
Print Assumptions c17_read_run_app.

(* Close does not discard anything: a Read with a non-empty buffer on a handle that still holds
   something (leftover or queued, closed or not) returns data — never an error, never blocks — and
   strictly reduces what is held ... *)
Theorem c17_read_progress : forall s n,
  0 < n -> (hr_measure s > 0)%nat ->
  exists s' b, hr_step s (HRead n) = (s', HData b) /\ (hr_measure s' < hr_measure s)%nat /\
               hrclosed s' = hrclosed s.
Proof. exact hr_read_progress. Qed.
Print Assumptions c17_read_progress.

(* ... so a closed handle is drained by at most [hr_measure s] (= bytes + messages held) Reads of any
   non-empty buffer size: all of them return data, together exactly the pending bytes in order, and
   the next Read reports io.EOF. *)
Theorem c17_read_close_then_drain : forall n, 0 < n -> forall k s,
  hrclosed s = true -> (hr_measure s <= k)%nat ->
  exists j s' evs, (j <= k)%nat /\ hr_run s (hr_reads n j) = (s', evs) /\
    Forall (fun e => exists b, snd e = HData b) evs /\
    hr_delivered evs = hr_pending s /\ hr_accepted evs = [] /\
    hr_step s' (HRead n) = (s', HEof).
Proof. exact hr_drain. Qed.
Print Assumptions c17_read_close_then_drain.

(* Non-vacuity: leftover [3;4;5] and two queued messages (one empty) on a closed handle, 2-byte
   buffer: measure 3 + (1+2) + (1+0) = 7; five Reads return 2,1,2,0 bytes... then io.EOF. *)
Example c17_read_drain_instance :
  let s := mkHR [[6;7]; []] [3;4;5] true false 4 in
  hr_measure s = 7%nat /\
  map snd (snd (hr_run s (hr_reads 2 5))) = [HData [3;4]; HData [5]; HData [6;7]; HData []; HEof].
Proof. vm_compute. split; reflexivity. Qed.

(* ------------------------------------------------------------------ message law (ReadMsg) *)
(* A connection that is read with ReadMsg only (no Read): the messages returned, then the message
   parked in the buffer by an ErrBufOverflow (if any), then the queue, are exactly the accepted
   messages — whole, in order, at most once (C03: "byte-identical to a message the peer wrote"). *)
Theorem c17_readmsg_whole_messages : forall cap ex ops s evs,
  forallb (fun o => negb (hr_is_read_op o)) ops = true ->
  hr_run (hrinit cap ex) ops = (s, evs) ->
  hr_delivered_msgs evs ++ hr_bufmsg s ++ hrq s = hr_accepted_msgs evs.
Proof. exact hr_msg_law. Qed.
Print Assumptions c17_readmsg_whole_messages.

(* Non-vacuity: a 9-byte message, ReadMsg with 8 bytes twice (ErrBufOverflow, message kept), then 9. *)
Example c17_readmsg_overflow_instance :
  let ops := [HArrive [1;2;3;4;5;6;7;8;9]; HReadMsg 8; HReadMsg 8; HReadMsg 9; HReadMsg 9] in
  map snd (snd (hr_run (hrinit 2 true) ops)) = [HQueued; HOverflow; HOverflow; HData [1;2;3;4;5;6;7;8;9]; HTimeout].
Proof. vm_compute. reflexivity. Qed.

(* The hypothesis "no Read" is needed: after a short Read, ReadMsg returns the rest of the fragmented
   message, which is not a message the peer wrote (the byte-stream law still holds).  This is the
   stream interface working as written ("If there's buffered data, return all of it"), recorded so
   that nobody reads the message law as covering mixed use.  Replayed on the real Handle by the
   driver (class handle-read-script). *)
Theorem c17_readmsg_after_short_read_returns_fragment_refuted :
  exists ops s evs, hr_run (hrinit 4 true) ops = (s, evs) /\
    hr_accepted_msgs evs = [[1;2;3;4;5]] /\ hr_delivered_msgs evs = [[3;4;5]] /\
    hr_delivered evs = [1;2;3;4;5].
Proof. exists [HArrive [1;2;3;4;5]; HRead 2; HReadMsg 10]. eexists. eexists. vm_compute. repeat split. Qed.
Print Assumptions c17_readmsg_after_short_read_returns_fragment_refuted.

(* Also as written: Read with a zero-length buffer on an empty leftover buffer still performs the
   Recv — on an idle open handle it blocks (or times out / reports io.EOF), and when a message is
   queued it moves the whole message into the leftover buffer and returns (0, nil). *)
Example c17_read_zero_length_buffer :
  map snd (snd (hr_run (hrinit 4 false) [HRead 0])) = [HBlock] /\
  map snd (snd (hr_run (hrinit 4 true) [HRead 0])) = [HTimeout] /\
  (let '(s, evs) := hr_run (hrinit 4 false) [HArrive [1;2;3;4]; HRead 0] in
   map snd evs = [HQueued; HData []] /\ hrbuf s = [1;2;3;4] /\ hrq s = []).
Proof. vm_compute. repeat split. Qed.
