(* Link.v — the two ends of one direction of a reliable tube put together: the sender of Model/Send.v, the
   receiver of Model/Recv.v, the data path (what the sender hands to the muxer travels as (frameNo, bytes, FIN)
   and arrives as a frame at the receiver) and the acknowledgement path (the receiver's ackNo, truncated to 32
   bits, arrives at the sender's recvAck).  Definitions only.

   A `round` is one retransmission-timeout period during which the network delivers: the RetransmitTicker case
   runs; every frame it transmits reaches the receiver — in any order, any number of times, mixed with any other
   (old, duplicated) frames of the same stream; then one acknowledgement carrying the receiver's ackNo reaches
   the sender.  Nothing is assumed about what happened before the round (any loss, duplication, reordering,
   outage of any length). *)
From Hop Require Import Base Recv Send.
Open Scope N_scope.

(* a frame on the wire, as the receiver decodes it: data frames carry no ACK flag, the FIN does (sendFin) *)
Definition wire := (N * bytes * bool)%type.
Definition rframe_of (x : wire) : rframe :=
  let '(no, d, fin) := x in {| f_no := no; f_data := d; f_ack := fin; f_fin := fin |}.

Definition deliver_frames (r : recv) (xs : list wire) : recv :=
  fold_left (fun r x => fst (fst (receive r (rframe_of x)))) xs r.

Record sys := { y_snd : sender; y_rcv : recv }.

(* the timer case retransmits at least the oldest unacknowledged frame (true whenever windowSize >= 1 and
   rtoCounter >= 0, see tick_sends_when_window_open) *)
Definition tick_sends (s : sender) : Prop := (0 < frames_to_send s true 0)%Z.

Inductive round (m : nat) (all : list wire) : sys -> sys -> Prop :=
| round_intro : forall (s : sender) (r : recv) (arrivals : list wire) (rtt : N),
    s_frames s <> [] ->
    tick_sends s ->
    (* the channel delivers every frame the tick transmitted ... *)
    (forall e, In e (snd (rto_tick s)) -> In (sf_proj (snd e)) arrivals) ->
    (* ... and otherwise only frames of this stream (old copies, duplicates, anything still in flight) *)
    (forall x, In x arrivals -> In x all) ->
    let s1 := fst (rto_tick s) in
    let r' := deliver_frames r arrivals in
    (* the receiver's acknowledgement reaches the sender (Reliable.receive: recvAck, fast retransmission, window) *)
    let s' := fst (fst (sstep_m m s1 (SAck (r_ack r' mod two32) rtt))) in
    round m all {| y_snd := s; y_rcv := r |} {| y_snd := s'; y_rcv := r' |}.

(* k rounds in a row *)
Inductive rounds (m : nat) (all : list wire) : nat -> sys -> sys -> Prop :=
| rounds_O : forall y, rounds m all O y y
| rounds_S : forall k y1 y2 y3, round m all y1 y2 -> rounds m all k y2 y3 -> rounds m all (S k) y1 y3.

(* everything written has been delivered and acknowledged: the sender's buffer is empty, the receiver has
   consumed the FIN, and what the reader got so far (`out`) plus what is buffered for it is the whole stream; a
   read of the rest reports EOF *)
Definition complete (writes : list bytes) (out : bytes) (y : sys) : Prop :=
  s_frames (y_snd y) = [] /\ r_closed (y_rcv y) = true /\
  out ++ r_buf (y_rcv y) = List.concat writes /\
  (forall k, len (r_buf (y_rcv y)) <= k -> exists r', read (y_rcv y) k = Some (r', r_buf (y_rcv y), true)).

(* what may happen before the network recovers: the timer fires and whatever it sends is lost or delayed; any
   frames of the stream (delayed, duplicated, reordered copies) reach the receiver; an acknowledgement of
   something the receiver has consumed reaches the sender.  (Repeated acknowledgements that acknowledge nothing
   new are not in this relation: more than 100 of them make recvAck close the tube — docs/C08.md, item 4.) *)
Inductive lossy (m : nat) (all : list wire) : sys -> sys -> Prop :=
| lossy_tick : forall s r,
    lossy m all {| y_snd := s; y_rcv := r |} {| y_snd := fst (rto_tick s); y_rcv := r |}
| lossy_deliver : forall s r xs, (forall x, In x xs -> In x all) ->
    lossy m all {| y_snd := s; y_rcv := r |} {| y_snd := s; y_rcv := deliver_frames r xs |}
| lossy_ack : forall s r w rtt, s_ack s < w -> w <= r_ws r ->
    lossy m all {| y_snd := s; y_rcv := r |}
                {| y_snd := fst (fst (sstep_m m s (SAck (w mod two32) rtt))); y_rcv := r |}.
Inductive lossy_star (m : nat) (all : list wire) : sys -> sys -> Prop :=
| lossy_refl : forall y, lossy_star m all y y
| lossy_step : forall y1 y2 y3, lossy m all y1 y2 -> lossy_star m all y2 y3 -> lossy_star m all y1 y3.

(* the canonical start: the application wrote `writes` and called Close; the receiver is fresh (initiated) *)
Definition start (m : nat) (writes : list bytes) : sys :=
  {| y_snd := fst (srun_m m sender_new (map SWrite writes ++ [SFin])); y_rcv := recv_init |}.

(* the simplest round: the channel delivers exactly what the tick transmitted, in order, once *)
Definition auto_round (m : nat) (y : sys) (rtt : N) : sys :=
  let s1 := fst (rto_tick (y_snd y)) in
  let r' := deliver_frames (y_rcv y) (map (fun e : emit => sf_proj (snd e)) (snd (rto_tick (y_snd y)))) in
  {| y_snd := fst (fst (sstep_m m s1 (SAck (r_ack r' mod two32) rtt))); y_rcv := r' |}.
