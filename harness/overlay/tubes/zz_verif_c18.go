//go:build verif

package tubes

// White-box access for the C18/C11 correspondence drivers (wire group). Exported wrappers only;
// every wrapper calls the unexported production function unchanged.

import (
	"bytes"
	"sync/atomic"
	"time"

	"github.com/sirupsen/logrus"

	"hop.computer/hop/common"
)

// VerifWireFrame mirrors the unexported frame struct.
type VerifWireFrame struct {
	AckNo, FrameNo                uint32
	DataLength                    uint16
	REQ, RESP, REL, ACK, FIN, RTR bool
	TubeID                        byte
	Data                          []byte
}

func (v VerifWireFrame) in() *frame {
	return &frame{ackNo: v.AckNo, frameNo: v.FrameNo, dataLength: v.DataLength, tubeID: v.TubeID, data: v.Data,
		flags: frameFlags{REQ: v.REQ, RESP: v.RESP, REL: v.REL, ACK: v.ACK, FIN: v.FIN, RTR: v.RTR}}
}

func verifWireOut(f *frame) VerifWireFrame {
	return VerifWireFrame{AckNo: f.ackNo, FrameNo: f.frameNo, DataLength: f.dataLength, TubeID: f.tubeID, Data: f.data,
		REQ: f.flags.REQ, RESP: f.flags.RESP, REL: f.flags.REL, ACK: f.flags.ACK, FIN: f.flags.FIN, RTR: f.flags.RTR}
}

// VerifWireFrameToBytes = (*frame).toBytes
func VerifWireFrameToBytes(v VerifWireFrame) []byte { return v.in().toBytes() }

// VerifWireFromBytes = fromBytes
func VerifWireFromBytes(b []byte) (VerifWireFrame, error) {
	f, err := fromBytes(b)
	if err != nil || f == nil {
		return VerifWireFrame{}, err
	}
	return verifWireOut(f), nil
}

// VerifWireInitFrame mirrors initiateFrame.
type VerifWireInitFrame struct {
	FrameNo                       uint32
	TubeID, TubeType              byte
	Data                          []byte
	DataLength                    uint16
	REQ, RESP, REL, ACK, FIN, RTR bool
}

// VerifWireInitToBytes = (*initiateFrame).toBytes
func VerifWireInitToBytes(v VerifWireInitFrame) []byte {
	p := &initiateFrame{frameNo: v.FrameNo, tubeID: v.TubeID, tubeType: TubeType(v.TubeType), data: v.Data, dataLength: v.DataLength,
		flags: frameFlags{REQ: v.REQ, RESP: v.RESP, REL: v.REL, ACK: v.ACK, FIN: v.FIN, RTR: v.RTR}}
	return p.toBytes()
}

// VerifWireFromInitiateBytes = fromInitiateBytes
func VerifWireFromInitiateBytes(b []byte) VerifWireInitFrame {
	p := fromInitiateBytes(b)
	return VerifWireInitFrame{FrameNo: p.frameNo, TubeID: p.tubeID, TubeType: byte(p.tubeType), Data: p.data, DataLength: p.dataLength,
		REQ: p.flags.REQ, RESP: p.flags.RESP, REL: p.flags.REL, ACK: p.flags.ACK, FIN: p.flags.FIN, RTR: p.flags.RTR}
}

// VerifWireReframe is what the muxer receiver does with a frame it treats as an initiate frame:
// fromInitiateBytes(frame.toBytes()).
func VerifWireReframe(b []byte) (VerifWireInitFrame, error) {
	f, err := fromBytes(b)
	if err != nil || f == nil {
		return VerifWireInitFrame{}, err
	}
	return VerifWireFromInitiateBytes(f.toBytes()), nil
}

func verifWireLog() *logrus.Entry {
	l := logrus.New()
	l.SetLevel(logrus.PanicLevel)
	return logrus.NewEntry(l)
}

// VerifWireUnreliableWrite runs the production (*Unreliable).WriteMsgUDP on an initiated tube whose
// outgoing queue is captured; returns the encoded frame that was queued (nil if none).
func VerifWireUnreliableWrite(id byte, frameNo uint32, b []byte) (queued []byte, n int, err error) {
	u := &Unreliable{
		id:        id,
		state:     atomic.Value{},
		initiated: make(chan struct{}),
		closed:    make(chan struct{}),
		send:      common.NewDeadlineChan[[]byte](4),
		recv:      common.NewDeadlineChan[[]byte](4),
		log:       verifWireLog(),
	}
	u.state.Store(initiated)
	close(u.initiated)
	u.frameNo.Store(frameNo)
	n, _, err = u.WriteMsgUDP(b, nil, nil)
	select {
	case queued = <-u.send.C:
	default:
	}
	return
}

// VerifWirePreloadedReliable returns a Reliable tube in the initiated state whose receive buffer
// already holds b followed by end-of-stream (as after the peer wrote b and closed). Read is
// the production (*Reliable).Read / receiver.read. Used to feed exact byte strings to decoders
// whose parameter type is *tubes.Reliable. Writes are discarded.
func VerifWirePreloadedReliable(b []byte) *Reliable {
	log := verifWireLog()
	r := &Reliable{
		tubeState:  initiated,
		initRecv:   make(chan struct{}),
		initDone:   make(chan struct{}),
		sendDone:   make(chan struct{}),
		closed:     make(chan struct{}, 1),
		recvWindow: newReceiver(log),
		sender:     newSender(log),
		log:        log,
	}
	r.sender.RetransmitTicker.Stop()
	close(r.initDone)
	r.recvWindow.m.Lock()
	r.recvWindow.buffer = bytes.NewBuffer(append([]byte(nil), b...))
	r.recvWindow.m.Unlock()
	r.recvWindow.closed.Store(true)
	return r
}

// VerifWireRecvAck builds a sender in the given state (ackNo, one unacknowledged frame per entry of
// dataLens with consecutive frame numbers starting at uint32(ackNo), frameNo just past them,
// window size, duplicate-ack counter), runs the production recvAck(ack) and reports the state afterwards.
func VerifWireRecvAck(ackNo uint64, dataLens []uint16, window uint16, dup int, ack uint32) (newAck uint64, remaining int, missing uint32, err error) {
	s := newSender(verifWireLog())
	defer s.RetransmitTicker.Stop()
	s.ackNo = ackNo
	s.senderWindow.windowSize = window
	s.senderWindow.duplicatedAckCounter = dup
	for i, dl := range dataLens {
		f := &frame{frameNo: uint32(ackNo) + uint32(i), dataLength: dl, data: make([]byte, 0)}
		s.frames = append(s.frames, struct {
			*frame
			time.Time
		}{f, time.Now()})
	}
	s.unacked = uint16(len(dataLens))
	// keep the sender's own invariant: frame numbers [ackNo, frameNo) are exactly the buffered frames
	s.frameNo = uint32(ackNo) + uint32(len(dataLens))
	missing, err = s.recvAck(ack)
	return s.ackNo, len(s.frames), missing, err
}

// VerifWireReliableWriteMsgUDP runs the production (*Reliable).WriteMsgUDP on a preloaded tube and
// returns the bytes it put into the stream (the data of the frames the sender buffered).
func VerifWireReliableWriteMsgUDP(b []byte) (stream []byte, n int, err error) {
	r := VerifWirePreloadedReliable(nil)
	n, _, err = r.WriteMsgUDP(b, nil, nil)
	r.sender.m.Lock()
	for _, f := range r.sender.frames {
		stream = append(stream, f.data...)
	}
	r.sender.m.Unlock()
	return
}

// VerifWireUnread is the number of bytes still buffered in a preloaded tube.
func VerifWireUnread(r *Reliable) int {
	r.recvWindow.m.Lock()
	defer r.recvWindow.m.Unlock()
	return r.recvWindow.buffer.Len()
}

// VerifWireReliableReadMsgUDP runs the production (*Reliable).ReadMsgUDP on a tube whose stream holds
// exactly b; returns the message, the bytes left unread and the error.
func VerifWireReliableReadMsgUDP(b []byte) (msg []byte, left int, err error) {
	return VerifWireReliableReadMsgUDPOn(VerifWirePreloadedReliable(b), make([]byte, 1<<17))
}

// VerifWireReliableReadMsgUDPOn is the call alone, on a prepared tube and buffer.
func VerifWireReliableReadMsgUDPOn(r *Reliable, buf []byte) (msg []byte, left int, err error) {
	n, _, _, _, err := r.ReadMsgUDP(buf, nil)
	return buf[:n], VerifWireUnread(r), err
}

// VerifWireUnreliableQueued is the number of datagrams waiting in an unreliable tube's receive queue.
func VerifWireUnreliableQueued(u *Unreliable) int { return len(u.recv.C) }

// VerifWireWritten returns what the production Write path of a preloaded tube put into its stream so
// far (the data of the frames its sender buffered).
func VerifWireWritten(r *Reliable) (stream []byte) {
	r.sender.m.Lock()
	for _, f := range r.sender.frames {
		stream = append(stream, f.data...)
	}
	r.sender.m.Unlock()
	return
}

// VerifWireUnreliableRead runs the production (*Unreliable).ReadMsgUDP with a buffer of bufLen bytes on
// an initiated tube whose receive queue holds the single datagram msg.
func VerifWireUnreliableRead(msg []byte, bufLen int) (out []byte, n int, err error) {
	u := &Unreliable{
		state:     atomic.Value{},
		initiated: make(chan struct{}),
		closed:    make(chan struct{}),
		send:      common.NewDeadlineChan[[]byte](4),
		recv:      common.NewDeadlineChan[[]byte](4),
		log:       verifWireLog(),
	}
	u.state.Store(initiated)
	close(u.initiated)
	u.recv.C <- append([]byte(nil), msg...)
	buf := make([]byte, bufLen)
	n, _, _, _, err = u.ReadMsgUDP(buf, nil)
	return buf[:n], n, err
}
