package hvxpacket

import (
	"bytes"
	"fmt"
	"io"
	"sort"
	"sync"

	"github.com/sirupsen/logrus"

	"hop.computer/hop/transport"
	"verifharness/hv"
)

func quiet() {
	logrus.SetOutput(io.Discard)
	logrus.SetLevel(logrus.PanicLevel)
}

// regressions: the inputs of the defects fixed on branch `packet`; they run first on every check.
func regressions(r *hv.Rand) {
	// handleSessionMessage (server and client) on 8..47-byte datagrams carrying a live session id
	for kind := 0; kind < 2; kind++ {
		s := newSim(r, "C03", "regress-short-datagram", kind)
		f := s.fs[0]
		for _, l := range []int{8, 9, 15, 16, 17, 31, 32, 46, 47, 48} {
			b := make([]byte, l)
			b[0] = 0x10
			copy(b[4:8], f.spec.sid[:])
			s.feed(b, 2, fmt.Sprintf("short-%d", l))
		}
		// and truncations of an authentic datagram to every length
		s.peerSend(0, s.msg(5))
		d := s.pool[len(s.pool)-1]
		for l := 0; l < len(d.b); l++ {
			s.feed(d.b[:l], 3, fmt.Sprintf("truncate-%d(%s)", l, d.name))
		}
		s.feed(d.b, 1, d.name)
		s.finish()
		s.emit(-1 - kind)
	}
}

type pairT struct {
	h, peer *transport.Handle
	w, pw   *wire
	spec    sessSpec
	peerIn  func(pkt []byte) error
}

func newPair(r *hv.Rand, count uint64, closed bool, qcapPeer int) *pairT {
	p := &pairT{w: &wire{}, pw: &wire{}}
	c := sessSpec{count: count, qcap: 8, closed: closed, remote: uint64(1 + r.Intn(4))}
	copy(c.sid[:], r.Bytes(4))
	rk := key(r)
	c.rk = &rk
	c.wk = key(r)
	p.spec = c
	p.h = transport.VerifNewSession(p.w, transport.VerifSessionConfig{SessionID: c.sid, ReadKey: c.rk, WriteKey: c.wk, Remote: mkAddr(c.remote, false), BufLen: c.qcap, Count: count, Closed: closed})
	prk := c.wk
	p.peer = transport.VerifNewSession(p.pw, transport.VerifSessionConfig{SessionID: c.sid, ReadKey: &prk, WriteKey: rk, Remote: mkAddr(1, false), BufLen: qcapPeer})
	cl := transport.VerifNewClient(p.pw, p.peer)
	p.peerIn = func(pkt []byte) error { return cl.VerifHandleSessionMessage(mkAddr(1, false), pkt) }
	return p
}

// bigWrites: Handle.Write with sizes around multiples of MaxPlaintextSize.
func bigWrites(r *hv.Rand) {
	max := transport.MaxPlaintextSize
	sizes := []int{max + 1000, 0, 1, max - 1, max, max + 1, 2*max - 1, 2 * max, 2*max + 1, 3*max + 7, 3 * max, 4*max + 1}
	for k := 0; k < hv.Scale(4, 40); k++ {
		sizes = append(sizes, r.Intn(4*max))
	}
	for k, L := range sizes {
		closed := k > 0 && r.Chance(12)
		count := hv.Pick(r, []uint64{0, 0, 5, 1 << 40})
		p := newPair(r, count, closed, 16)
		buf := r.Bytes(L)
		var n int
		var err error
		panicked, pmsg := hv.Catch(func() { n, err = p.h.Write(buf) })
		em := p.w.take()
		code := 0
		if err != nil {
			code = 1
		}
		if panicked {
			code = 2
		}
		var pk []string
		for _, e := range em {
			h := e.pkt
			if len(h) > 16 {
				h = h[:16]
			}
			pk = append(pk, hv.Tuple(hx(h), hv.Ni(len(e.pkt)), hv.N(addrID(e.dst))))
		}
		st := p.h.VerifState()
		coq := hv.Tuple(p.spec.coq(), hv.Ni(L), hv.Tuple(hv.Ni(code), hv.Ni(n), hv.List(pk), u64(st.Count)))
		// ---- specification oracle: every byte accepted is delivered, n is what was sent ----
		sig, what := "", ""
		fail := func(s, w string) {
			if sig == "" {
				sig, what = s, w
			}
		}
		if panicked {
			fail("C03:write-panics", pmsg)
		}
		if err == nil && n != L {
			fail("C03:write-count-wrong", fmt.Sprintf("Write(%d bytes) returned (%d, nil)", L, n))
		}
		var got []byte
		rb := make([]byte, 70000)
		for j, e := range em {
			if transport.PlaintextLen(len(e.pkt)) > max {
				fail("C03:chunk-larger-than-max", fmt.Sprintf("datagram %d carries %d plaintext bytes", j, transport.PlaintextLen(len(e.pkt))))
			}
			if L >= 16 {
				off := (j * max)
				if off+16 <= L && contains(e.pkt, buf[off:off+16]) {
					fail("C03:plaintext-on-wire", fmt.Sprintf("datagram %d contains 16 plaintext bytes", j))
				}
			}
			if err := p.peerIn(e.pkt); err != nil {
				fail("C03:written-bytes-not-delivered", fmt.Sprintf("peer rejected datagram %d of Write(%d): %v", j, L, err))
				break
			}
			m, err := p.peer.ReadMsg(rb)
			if err != nil {
				fail("C03:written-bytes-not-delivered", fmt.Sprintf("peer could not read datagram %d of Write(%d): %v", j, L, err))
				break
			}
			got = append(got, rb[:m]...)
		}
		if n > L || !bytes.Equal(got, buf[:min(n, L)]) {
			fail("C03:written-bytes-not-delivered", fmt.Sprintf("Write(%d bytes) returned n=%d but the peer received %d bytes (first difference at %d)", L, n, len(got), firstDiff(got, buf)))
		}
		hv.Emit(hv.Case{Fn: "c03w_ok", Coq: coq, Class: "big-write", Desc: fmt.Sprintf("Write(%d bytes) closed=%v count=%d -> n=%d code=%d datagrams=%d", L, closed, count, n, code, len(em)),
			Spec: sig == "", Sig: sig, What: what, NT: L > max})
	}
}

func firstDiff(a, b []byte) int {
	for i := 0; i < len(a) && i < len(b); i++ {
		if a[i] != b[i] {
			return i
		}
	}
	return min(len(a), len(b))
}

// readPacketCases: readPacketLocked called directly (short packets, short and long plaintext buffers).
func readPacketCases(r *hv.Rand) {
	for k := 0; k < hv.Scale(150, 1500); k++ {
		p := newPair(r, 0, false, 8)
		pc := hv.Pick(r, []uint64{0, 1, 500})
		p.peer.VerifSetCount(pc)
		var marks []uint64
		if r.Chance(30) {
			marks = []uint64{pc}
			p.h.VerifMark(pc)
		}
		p.spec.marks = marks
		m := r.Bytes(hv.Pick(r, []int{0, 1, 5, 16, 33}))
		p.peer.WriteMsg(m)
		good := p.pw.take()[0].pkt
		pkt := good
		lab := "authentic"
		switch r.Intn(6) {
		case 0:
			l := r.Intn(len(good))
			if r.Bool() {
				l = r.Intn(21)
			}
			pkt = good[:l]
			lab = fmt.Sprintf("truncate-%d", l)
		case 1:
			pkt = flipIn(r, good, hv.Pick(r, []string{"type", "reserved", "sid", "counter", "body", "tag"}))
			lab = "flip"
		case 2:
			pkt = append(append([]byte(nil), good...), r.Bytes(1+r.Intn(8))...)
			lab = "extend"
		}
		exact := make([]byte, len(pkt)) // capacity == length: Go's b[:n] checks capacity
		copy(exact, pkt)
		bl := transport.PlaintextLen(len(pkt)) + hv.Pick(r, []int{0, 0, 0, -1, 1, 5, -len(m)})
		if bl < 0 {
			bl = 0
		}
		var or []byte
		ok := false
		if len(pkt) >= 16 {
			or, ok = openDirect(*p.spec.rk, pkt[:16], pkt[16:])
		}
		var n int
		var mt byte
		var out []byte
		var err error
		panicked, _ := hv.Catch(func() { n, mt, out, err = p.h.VerifReadPacket(bl, exact) })
		code := 0
		if err != nil {
			code, n, mt, out = 1, 0, 0, nil
		}
		if panicked {
			code, n, mt, out = 2, 0, 0, nil
		}
		st := p.h.VerifState()
		tbl := "[]"
		if len(pkt) >= 16 {
			tbl = hv.List([]string{hv.Tuple(hx(p.spec.rk[:]), hx(pkt[:16]), hx(pkt[16:]), optHex(or, ok))})
		}
		coq := hv.Tuple(p.spec.coq(), tbl, hv.Ni(bl), hx(pkt), hv.Tuple(hv.Ni(code), hv.Ni(n), hv.Ni(int(mt)), hx(out), u64(st.Wt), u64s(st.Blocks[:])))
		hv.Emit(hv.Case{Fn: "c03rp_ok", Coq: coq, Class: "read-packet-direct", Desc: fmt.Sprintf("readPacketLocked(buf %d, %s %d bytes %s) -> %d", bl, lab, len(pkt), short(pkt), code),
			Spec: true, NT: code != 0, Key: fmt.Sprintf("%s/%d/%d/%d/%v", lab, len(pkt), bl, code, marks)})
	}
}

// concurrentWriters: several goroutines write on one Handle; every message arrives once, counters are distinct.
// Judged by the specification oracle only (the interleaving is the Go scheduler's).
func concurrentWriters(r *hv.Rand) {
	for k := 0; k < hv.Scale(12, 100); k++ {
		G, K := 2+r.Intn(5), 5+r.Intn(20)
		p := newPair(r, hv.Pick(r, []uint64{0, 100}), false, 4096)
		var wg sync.WaitGroup
		var mu sync.Mutex
		want := map[string]bool{}
		nerr := 0
		for g := 0; g < G; g++ {
			wg.Add(1)
			seed := r.U64()
			go func(g int) {
				defer wg.Done()
				rr := hv.NewRand(seed)
				for j := 0; j < K; j++ {
					m := append([]byte{byte(g), byte(j)}, rr.Bytes(rr.Intn(40))...)
					var err error
					if j%2 == 0 {
						err = p.h.WriteMsg(m)
					} else {
						_, err = p.h.Write(m)
					}
					mu.Lock()
					if err != nil {
						nerr++
					} else {
						want[string(m)] = true
					}
					mu.Unlock()
				}
			}(g)
		}
		wg.Wait()
		em := p.w.take()
		sig, what := "", ""
		var ctrs []uint64
		for _, e := range em {
			ctrs = append(ctrs, ctrOf(e.pkt))
		}
		sort.Slice(ctrs, func(i, j int) bool { return ctrs[i] < ctrs[j] })
		for i := 1; i < len(ctrs); i++ {
			if ctrs[i] == ctrs[i-1] {
				sig, what = "C03:counter-reused-by-concurrent-writers", fmt.Sprintf("counter %d used twice", ctrs[i])
			}
		}
		rb := make([]byte, 70000)
		got := map[string]int{}
		for _, e := range em {
			if err := p.peerIn(e.pkt); err != nil && sig == "" {
				sig, what = "C03:written-bytes-not-delivered", fmt.Sprintf("peer rejected a datagram of a concurrent writer: %v", err)
			}
			n, err := p.peer.ReadMsg(rb)
			if err == nil {
				got[string(rb[:n])]++
			}
		}
		for m := range want {
			if got[m] != 1 && sig == "" {
				sig, what = "C03:written-bytes-not-delivered", fmt.Sprintf("message of writer %d delivered %d times", m[0], got[m])
			}
		}
		if len(got) != len(want) && sig == "" {
			sig, what = "C03:returned-message-not-written-by-peer-or-returned-twice", "peer read a message nobody wrote"
		}
		// correspondence with the interleaving model (coq/Model/SendConc.v, checker c03cw_ok): the calls of all
		// goroutines, and the order in which their datagrams reached the wire (the message identifies the call)
		fn, coq := "", ""
		if nerr == 0 && len(em) == G*K {
			calls := make([]string, G*K)
			for m := range want {
				calls[int(m[0])*K+int(m[1])] = hv.Tuple("16", hx([]byte(m)))
			}
			var order []uint64
			var pk []string
			okc := true
			for _, e := range em {
				m, ok := openDirect(p.spec.wk, e.pkt[:16], e.pkt[16:])
				if !ok || len(m) < 2 {
					okc = false
					break
				}
				order = append(order, uint64(int(m[0])*K+int(m[1])))
				pk = append(pk, hv.Tuple(hx(e.pkt[:16]), hv.Ni(len(e.pkt)), hv.N(addrID(e.dst))))
			}
			if okc {
				fn = "c03cw_ok"
				coq = hv.Tuple(p.spec.coq(), hv.List(calls), hv.Ns(order), hv.Tuple(hv.List(pk), u64(p.h.VerifState().Count)))
			}
		}
		hv.Emit(hv.Case{Fn: fn, Coq: coq, Class: "concurrent-writers", Desc: fmt.Sprintf("#%d %d writers x %d messages, %d datagrams, %d write errors", k, G, K, len(em), nerr),
			Spec: sig == "", Sig: sig, What: what, NT: true})
	}
}
