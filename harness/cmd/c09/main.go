// c09: tubes are isolated from each other and from earlier tubes with the same id.
//   white.go  white-box: operation sequences on a real tubes.Muxer (Create*Tube, raw frames into its receiver,
//             Accept, forced close + reaping, reads) vs Model/Mux.v, with the isolation / identifier /
//             accept-once oracle
//   net.go    black-box: two real muxers over the scheduling in-memory MsgConn pair; concurrent tube creation
//             from both sides, per-tube streams and messages, identifier reuse with held-back datagrams
package main

import (
	"os"

	"verifharness/hv"
)

func main() {
	defer hv.Flush()
	r := hv.NewRand(hv.Seed())
	only := os.Getenv("C09_ONLY") // debugging aid: "net" or "white"
	if only != "net" {
		genWhite(r)
	}
	if only != "white" {
		genNet(r)
	}
}
