(* PacketHex.v — compact byte-string literals for the generated C03/C15 case files.
   (hx n [w1; w2; ...]%uint63): the n bytes obtained by writing each 56-bit word big-endian on 7 bytes
   (the last word is zero-padded on the right).  Primitive 63-bit integers keep the generated
   files ~6x cheaper to parse than string literals; they are used for case input only, never in a theorem. *)
From Coq Require Import List NArith ZArith.
From Coq Require Export Uint63.
Import ListNotations.
Open Scope N_scope.

Definition word_bytes (w : int) : list N :=
  map (fun j => Z.to_N (Uint63.to_Z (Uint63.land (Uint63.lsr w j) 255%uint63))) [48; 40; 32; 24; 16; 8; 0]%uint63.
Definition hx (n : N) (ws : list int) : list N := firstn (N.to_nat n) (flat_map word_bytes ws).

(* 64-bit numbers as two 32-bit halves (large N numerals are slow to elaborate) *)
Definition of_int (w : int) : N := Z.to_N (Uint63.to_Z w).
Definition u (hi lo : int) : N := of_int hi * 4294967296 + of_int lo.
Fixpoint pairs (ws : list int) : list N :=
  match ws with
  | hi :: lo :: r => u hi lo :: pairs r
  | _ => []
  end.
