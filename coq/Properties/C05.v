From Hop Require Import Base Authz.
Theorem c05_placeholder : allowed [] 0 = false.
Proof. reflexivity. Qed.
Print Assumptions c05_placeholder.
