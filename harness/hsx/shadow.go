package hsx

import (
	"bytes"
	"fmt"
	"sort"
	"strings"

	"hop.computer/hop/cyclist"
	"verifharness/hv"
)

// Shadow is a real Cyclist driven by the driver along the schedule that handshake_spec.md
// prescribes for a message. It records every operation with its arguments and outputs: the
// outputs are the oracle values the Coq model consumes, the operation list is what the model's
// transcript is compared with, and the fingerprints tie the real reader's duplex to a prefix of it.
type Shadow struct {
	C   cyclist.Cyclist
	Ops []ShOp
	Fps [][]byte // Fps[i] = fingerprint after i operations
}

type ShOp struct {
	Kind string // reset, initkey, absorb, crypt, squeeze, ratchet
	A, B []byte
	N    int
	Out  []byte // oracle output consumed by the model at this position (nil for none)
}

func fp(c cyclist.Cyclist) []byte {
	var out [8]byte
	c.Squeeze(out[:])
	return out[:]
}

func NewShadow(c cyclist.Cyclist) *Shadow {
	s := &Shadow{C: c}
	s.Fps = append(s.Fps, fp(c))
	return s
}
func (s *Shadow) rec(o ShOp) { s.Ops = append(s.Ops, o); s.Fps = append(s.Fps, fp(s.C)) }
func (s *Shadow) Reset()     { s.C.InitializeEmpty(); s.rec(ShOp{Kind: "reset"}) }
func (s *Shadow) Absorb(x []byte) {
	s.C.Absorb(x)
	s.rec(ShOp{Kind: "absorb", A: append([]byte(nil), x...)})
}
func (s *Shadow) Squeeze(n int) []byte {
	out := make([]byte, n)
	s.C.Squeeze(out)
	s.rec(ShOp{Kind: "squeeze", N: n, Out: out})
	return out
}
func (s *Shadow) Decrypt(ct []byte) []byte {
	pt := make([]byte, len(ct))
	s.C.Decrypt(pt, ct)
	s.rec(ShOp{Kind: "crypt", A: pt, Out: pt})
	return pt
}
func (s *Shadow) Encrypt(pt []byte) []byte {
	ct := make([]byte, len(pt))
	s.C.Encrypt(ct, pt)
	s.rec(ShOp{Kind: "crypt", A: append([]byte(nil), pt...), Out: ct})
	return ct
}
func (s *Shadow) Ratchet() { s.C.Ratchet(); s.rec(ShOp{Kind: "ratchet"}) }

// Rekey = RekeyFromSqueeze: two recorded operations, as in the model.
func (s *Shadow) Rekey(name string) {
	k := make([]byte, 16)
	s.C.Squeeze(k)
	s.rec(ShOp{Kind: "squeeze", N: 16, Out: k})
	s.C.Initialize(k, []byte(name), nil)
	s.rec(ShOp{Kind: "initkey", A: k, B: []byte(name)})
}

// PrefixOf returns how many shadow operations lead to the duplex state with this fingerprint
// (-1: the state is not on the schedule).
func (s *Shadow) PrefixOf(fpr []byte) int {
	for i := len(s.Fps) - 1; i >= 0; i-- {
		if bytes.Equal(s.Fps[i], fpr) {
			return i
		}
	}
	return -1
}

func (o ShOp) Coq(hx func([]byte) string) string {
	switch o.Kind {
	case "reset":
		return "OReset"
	case "initkey":
		return hv.App("OInitKey", hx(o.A), hx(o.B))
	case "absorb":
		return hv.App("OAbsorb", hx(o.A))
	case "crypt":
		return hv.App("OCrypt", hx(o.A))
	case "squeeze":
		return hv.App("OSqueeze", hv.Ni(o.N))
	case "ratchet":
		return "ORatchet"
	}
	panic("bad op")
}

// OpsCoq prints the first n operations, oldest first.
func (s *Shadow) OpsCoq(n int, hx func([]byte) string) string {
	xs := make([]string, n)
	for i := 0; i < n; i++ {
		xs[i] = s.Ops[i].Coq(hx)
	}
	return hv.List(xs)
}

// Tape prints the oracle outputs aligned with the operations.
func (s *Shadow) Tape(hx func([]byte) string) string {
	xs := make([]string, len(s.Ops))
	for i, o := range s.Ops {
		xs[i] = hx(o.Out)
	}
	return hv.List(xs)
}

// ---------------------------------------------------------------- recorded non-duplex oracles

// Env collects the oracle values one model evaluation needs; printed as the Coq record HsCorr.env.
type Env struct {
	B       []byte // the message of the case: values that are slices of it are printed as references
	K0      int
	Sh      *Shadow
	dh      map[string]string
	decaps  map[string]string
	kem     map[string]string
	policy  map[string]string
	hash    map[string]string
	open    map[string]string
	lastPK  []byte
	canon   map[string][]byte
}

func NewEnv(b []byte, k0 int, sh *Shadow) *Env {
	return &Env{B: b, K0: k0, Sh: sh, dh: map[string]string{}, decaps: map[string]string{}, kem: map[string]string{},
		policy: map[string]string{}, hash: map[string]string{}, open: map[string]string{}, canon: map[string][]byte{}}
}

// Hx prints a byte string: as a slice of the case's message when it is one (the case files are
// dominated by the cost of parsing hex literals), literally otherwise.
func (e *Env) Hx(x []byte) string {
	if len(x) >= 8 && e.B != nil {
		if i := bytes.Index(e.B, x); i >= 0 {
			return fmt.Sprintf("(sl B %d %d)", i, len(x))
		}
	}
	return hv.Hex(x)
}
func (e *Env) optHex(b []byte, ok bool) string {
	if !ok {
		return "None"
	}
	return hv.Some(e.Hx(b))
}
func (e *Env) DH(id int, pk, out []byte, ok bool) {
	e.dh[hv.Tuple(hv.Ni(id), e.Hx(pk))] = e.optHex(out, ok)
}
func (e *Env) Decaps(id int, ct, out []byte, ok bool) {
	e.decaps[hv.Tuple(hv.Ni(id), e.Hx(ct))] = e.optHex(out, ok)
}
func (e *Env) KemParse(b, canon []byte, ok bool) {
	e.kem[e.Hx(b)] = e.optHex(canon, ok)
	if ok {
		e.canon[string(b)] = canon
	}
}
func (e *Env) kemCanon(b []byte) []byte { return e.canon[string(b)] }
func (e *Env) Policy(id int, leaf, inter, pk []byte, ok bool) {
	e.policy[hv.Tuple(hv.Ni(id), e.Hx(leaf), e.Hx(inter))] = e.optHex(pk, ok)
	if ok {
		e.lastPK = append([]byte(nil), pk...)
	}
}
func (e *Env) Hash(in, out []byte) { e.hash[e.Hx(in)] = e.Hx(out) }

// HashParts records a hash whose input is the concatenation of parts.
func (e *Env) HashParts(out []byte, parts ...[]byte) {
	xs := make([]string, len(parts))
	for i, p := range parts {
		xs[i] = e.Hx(p)
	}
	e.hash["("+strings.Join(xs, " ++ ")+")"] = e.Hx(out)
}
func (e *Env) Open(ck int, ad, cookie, out []byte, ok bool) {
	e.open[hv.Tuple(hv.Ni(ck), e.Hx(ad), e.Hx(cookie))] = e.optHex(out, ok)
}

// Empty: no oracle value was recorded.
func (e *Env) Empty() bool {
	return len(e.dh)+len(e.decaps)+len(e.kem)+len(e.policy)+len(e.hash)+len(e.open) == 0
}

func assoc(m map[string]string) string {
	ks := make([]string, 0, len(m))
	for k := range m {
		ks = append(ks, k)
	}
	sort.Strings(ks)
	xs := make([]string, len(ks))
	for i, k := range ks {
		xs[i] = hv.Tuple(k, m[k])
	}
	return hv.List(xs)
}

func (e *Env) Coq() string {
	tape := "[]"
	if e.Sh != nil {
		tape = e.Sh.Tape(e.Hx)
	}
	return fmt.Sprintf("(Env %d %s %s %s %s %s %s %s)", e.K0, tape, assoc(e.dh), assoc(e.decaps), assoc(e.kem),
		assoc(e.policy), assoc(e.hash), assoc(e.open))
}

// Case wraps the message and everything that may refer to it: (b, fun B => rest).
func (e *Env) Case(rest ...string) string {
	return hv.Tuple(hv.Hex(e.B), "(fun B : bytes => "+hv.Tuple(rest...)+")")
}

// Obs is what the real code did: outcome code (0 ok, 1 error, 2 panic), consumed length, output
// values, and the operations it performed on the duplex (nil: not observable).
func (e *Env) Obs(code, n int, vals [][]byte, sh *Shadow, prefix int) string {
	vs := make([]string, len(vals))
	for i, v := range vals {
		vs[i] = e.Hx(v)
	}
	ops := "None"
	if sh != nil && prefix >= 0 {
		ops = hv.Some(sh.OpsCoq(prefix, e.Hx))
	}
	return fmt.Sprintf("(Obs %d %d %s %s)", code, n, hv.List(vs), ops)
}

func Code(panicked bool, err error) int {
	if panicked {
		return 2
	}
	if err != nil {
		return 1
	}
	return 0
}

func short(b []byte) string {
	if len(b) <= 24 {
		return fmt.Sprintf("%x", b)
	}
	return fmt.Sprintf("%x..%x(%d)", b[:8], b[len(b)-8:], len(b))
}

var _ = strings.Join
