(* proofs for Model/Send.v — see Properties/C08.v *)
From Hop Require Import Base Recv Send.
From Coq Require Import ZifyN ZifyNat ZifyBool Lia.
Ltac Zify.zify_post_hook ::= Z.div_mod_to_equations.
Open Scope N_scope.

(* ------------------------------------------------------------------ segmentation *)
Lemma segment_spec : forall m fuel b, (0 < m)%nat -> (List.length b <= fuel)%nat ->
  List.concat (segment m fuel b) = b /\
  Forall (fun c => (0 < List.length c)%nat /\ (List.length c <= m)%nat) (segment m fuel b).
Proof.
  induction fuel as [|fuel IH]; intros b Hm Hl.
  - destruct b; simpl in *; [split; auto|lia].
  - destruct b as [|x b']. + simpl. split; auto.
    + remember (x :: b') as b. assert (Hne: b <> []) by (subst; discriminate).
      assert (segment m (S fuel) b = firstn m b :: segment m fuel (skipn m b)) as -> by (subst; reflexivity).
      assert (Hs: (List.length (skipn m b) <= fuel)%nat).
      { rewrite skipn_length. assert (0 < List.length b)%nat by (subst; simpl; lia). lia. }
      destruct (IH (skipn m b) Hm Hs) as [C F]. split.
      * simpl. rewrite C. apply firstn_skipn.
      * constructor; auto. rewrite firstn_length. assert (0 < List.length b)%nat by (subst; simpl; lia). lia.
Qed.

Lemma segments_concat : forall m b, (0 < m)%nat -> List.concat (segments m b) = b.
Proof. intros. apply segment_spec; auto. Qed.
Lemma segments_sizes : forall m b, (0 < m)%nat ->
  Forall (fun c => (0 < List.length c)%nat /\ (List.length c <= m)%nat) (segments m b).
Proof. intros. apply segment_spec; auto. Qed.

Lemma stream_chunks_concat : forall m writes, (0 < m)%nat ->
  List.concat (stream_chunks m writes) = List.concat writes.
Proof. intros m writes Hm. unfold stream_chunks. induction writes as [|w r IH]; simpl; auto.
  rewrite concat_app, IH, segments_concat by auto. reflexivity. Qed.
Lemma stream_chunks_sizes : forall m writes, (0 < m)%nat ->
  Forall (fun c => (0 < List.length c)%nat /\ (List.length c <= m)%nat) (stream_chunks m writes).
Proof. intros m writes Hm. unfold stream_chunks. induction writes as [|w r IH]; simpl; auto.
  apply Forall_app. split; auto. apply segments_sizes; auto. Qed.
Lemma stream_chunks_one : forall m b, stream_chunks m [b] = segments m b.
Proof. intros. unfold stream_chunks. simpl. apply app_nil_r. Qed.
Lemma stream_chunks_app : forall m w1 w2, stream_chunks m (w1 ++ w2) = stream_chunks m w1 ++ stream_chunks m w2.
Proof. intros. unfold stream_chunks. rewrite map_app, concat_app. reflexivity. Qed.

(* ------------------------------------------------------------------ spec frames *)
Lemma spec_from_app : forall c1 c2 k fin,
  spec_frames_from k (c1 ++ c2) fin = spec_frames_from k c1 false ++ spec_frames_from (k + N.of_nat (List.length c1)) c2 fin.
Proof. induction c1 as [|c r IH]; intros.
  - cbn [app List.length spec_frames_from]. replace (k + N.of_nat 0) with k by lia. reflexivity.
  - cbn [app List.length spec_frames_from]. rewrite IH. cbn [app].
    replace (k + N.of_nat (S (List.length r))) with (k + 1 + N.of_nat (List.length r)) by lia. reflexivity. Qed.
Lemma spec_from_length : forall c k fin,
  List.length (spec_frames_from k c fin) = (List.length c + if fin then 1 else 0)%nat.
Proof. induction c; intros; simpl. destruct fin; reflexivity. rewrite IHc. reflexivity. Qed.
Lemma spec_from_fin : forall c k,
  spec_frames_from k c true = spec_frames_from k c false ++ [((k + N.of_nat (List.length c)) mod two32, [], true)].
Proof. induction c as [|x r IH]; intros.
  - cbn. replace (k + 0) with k by lia. reflexivity.
  - cbn [spec_frames_from List.length app]. rewrite IH. cbn [app].
    replace (k + N.of_nat (S (List.length r))) with (k + 1 + N.of_nat (List.length r)) by lia. reflexivity. Qed.

Lemma number_frames_proj : forall chunks k,
  map sf_proj (number_frames (k mod two32) chunks) = spec_frames_from k chunks false.
Proof. induction chunks as [|c r IH]; intros; simpl; auto. unfold sf_proj at 1. simpl. f_equal.
  rewrite <- IH. f_equal. f_equal. unfold two32. rewrite N.add_mod_idemp_l by lia. reflexivity. Qed.
Lemma number_frames_length : forall chunks k, List.length (number_frames k chunks) = List.length chunks.
Proof. induction chunks; intros; simpl; auto. Qed.

(* ------------------------------------------------------------------ the buffer invariant *)
Section Inv.
Variable m : nat.
Hypothesis m_pos : (0 < m)%nat.

Definition all_frames (writes : list bytes) (fin : bool) := spec_frames (stream_chunks m writes) fin.

Definition SInv (writes : list bytes) (fin : bool) (s : sender) : Prop :=
  exists k : nat, (k <= List.length (all_frames writes fin))%nat /\
    s_ack s = N.of_nat k + 1 /\
    map sf_proj (s_frames s) = skipn k (all_frames writes fin) /\
    s_fno s = (N.of_nat (List.length (all_frames writes fin)) + 1) mod two32 /\
    s_fin_sent s = fin.

Lemma sinv_init : SInv [] false sender_new.
Proof. exists O. simpl. repeat split; auto. Qed.

Lemma skipn_add : forall (A : Type) (l : list A) k j, skipn j (skipn k l) = skipn (k + j) l.
Proof. induction l; intros; destruct k; simpl; auto. destruct j; auto. Qed.
Lemma skipn_app_le : forall (A : Type) (l1 l2 : list A) k, (k <= List.length l1)%nat -> skipn k (l1 ++ l2) = skipn k l1 ++ l2.
Proof. intros. rewrite skipn_app. replace (k - List.length l1)%nat with O by lia. reflexivity. Qed.

Lemma write_inv : forall writes fin s b s1 sig, SInv writes fin s -> write_m m s b = Ok (s1, sig) ->
  SInv (writes ++ [b]) fin s1 /\ s_ack s1 = s_ack s /\ fin = false /\ s_closed s1 = s_closed s.
Proof.
  intros writes fin s b s1 sig (k & Hk & Ha & Hf & Hn & Hfin) H. unfold write_m in H.
  destruct (s_fin_sent s || s_closed s) eqn:E; [discriminate|]. inversion H; subst s1; clear H.
  apply orb_false_iff in E. destruct E as [E1 E2]. rewrite E1 in Hfin. subst fin.
  split; [|cbn; auto]. exists k. cbn [s_ack s_frames s_fno s_fin_sent].
  unfold all_frames, spec_frames in *. rewrite stream_chunks_app, stream_chunks_one, spec_from_app.
  rewrite spec_from_length in Hk, Hn. rewrite Nat.add_0_r in Hk, Hn.
  rewrite app_length, !spec_from_length, !Nat.add_0_r.
  split; [lia|]. split; auto. split; [|split; auto].
  - rewrite map_app, Hf, skipn_app_le by (rewrite spec_from_length; lia).
    f_equal. rewrite Hn. replace (N.of_nat (List.length (stream_chunks m writes)) + 1) with (1 + N.of_nat (List.length (stream_chunks m writes))) by lia.
    apply number_frames_proj.
  - rewrite Hn. unfold two32. rewrite N.add_mod_idemp_l by lia. f_equal. lia.
Qed.

Lemma window_fill_proj : forall fr b u, map sf_proj (fst (fst (window_fill fr b u))) = map sf_proj fr.
Proof. induction fr as [|f r IH]; intros; simpl; auto.
  destruct (0 <? b)%Z; auto. destruct (sf_queued f).
  - specialize (IH b u). destruct (window_fill r b u) as [[a c] d]. simpl in *. rewrite IH. reflexivity.
  - specialize (IH (b - 1)%Z ((u + 1) mod two16)). destruct (window_fill r _ _) as [[a c] d]. simpl in *. rewrite IH. reflexivity. Qed.

Lemma rto_mark_proj : forall fr n u, map sf_proj (fst (fst (rto_mark fr n u))) = map sf_proj fr.
Proof. induction fr as [|f r IH]; intros; simpl; auto.
  destruct (0 <? n)%Z; auto.
  match goal with |- context [rto_mark r ?a ?b] => specialize (IH a b); destruct (rto_mark r a b) as [[x y] z] end.
  simpl in *. rewrite IH. reflexivity. Qed.

(* a step that changes neither ackNo, frameNo, finSent nor the projection of the buffer keeps the invariant *)
Lemma sinv_same : forall writes fin s s', SInv writes fin s ->
  s_ack s' = s_ack s -> s_fno s' = s_fno s -> s_fin_sent s' = s_fin_sent s ->
  map sf_proj (s_frames s') = map sf_proj (s_frames s) -> SInv writes fin s'.
Proof. intros writes fin s s' (k & Hk & Ha & Hf & Hn & Hfin) A B C D. exists k. rewrite A, B, C, D. auto. Qed.

Lemma window_open_inv : forall writes fin s, SInv writes fin s ->
  SInv writes fin (fst (window_open s)) /\ s_ack (fst (window_open s)) = s_ack s /\ s_closed (fst (window_open s)) = s_closed s.
Proof. intros. unfold window_open. destruct (s_closed s) eqn:C; simpl; auto.
  pose proof (window_fill_proj (s_frames s) (frames_to_send s false 0) (s_unacked s)) as P.
  destruct (window_fill _ _ _) as [[a c] d]. simpl in *. split; auto. eapply sinv_same; eauto. Qed.

Lemma rto_tick_inv : forall writes fin s, SInv writes fin s ->
  SInv writes fin (fst (rto_tick s)) /\ s_ack (fst (rto_tick s)) = s_ack s /\ s_closed (fst (rto_tick s)) = s_closed s.
Proof. intros. unfold rto_tick, rto_tick_common. destruct (s_closed s) eqn:C; simpl; auto.
  pose proof (rto_mark_proj (s_frames s) (frames_to_send s true 0) (s_unacked s)) as P.
  destruct (rto_mark _ _ _) as [[a c] d]. simpl in *.
  repeat match goal with |- context [if ?c then _ else _] => destruct c end; simpl;
  (split; [eapply sinv_same; eauto|auto]). Qed.

Lemma send_fin_inv : forall writes fin s s1 em, SInv writes fin s -> send_fin s = Ok (s1, em) ->
  SInv writes true s1 /\ s_ack s1 = s_ack s /\ s_closed s1 = s_closed s.
Proof.
  intros writes fin s s1 em (k & Hk & Ha & Hf & Hn & Hfin) H. unfold send_fin in H.
  destruct (s_fin_sent s) eqn:E; [discriminate|]. inversion H; subst s1; clear H. subst fin.
  split; [|cbn; auto]. exists k. cbn [s_ack s_frames s_fno s_fin_sent].
  unfold all_frames, spec_frames in *. rewrite spec_from_fin.
  rewrite spec_from_length in Hk, Hn. rewrite Nat.add_0_r in Hk, Hn.
  rewrite app_length, spec_from_length, Nat.add_0_r. cbn [List.length].
  split; [lia|]. split; auto. split; [|split; auto].
  - rewrite map_app, Hf, skipn_app_le by (rewrite spec_from_length; lia). f_equal.
    unfold sf_proj. cbn [map sf_no sf_data sf_fin]. rewrite Hn.
    replace (1 + N.of_nat (List.length (stream_chunks m writes))) with (N.of_nat (List.length (stream_chunks m writes)) + 1) by lia. reflexivity.
  - rewrite Hn. unfold two32. rewrite N.add_mod_idemp_l by lia. f_equal. lia.
Qed.

Lemma on_success_same : forall s f rtt, s_ack (on_success s f rtt) = s_ack s /\ s_fno (on_success s f rtt) = s_fno s /\
  s_fin_sent (on_success s f rtt) = s_fin_sent s /\ s_closed (on_success s f rtt) = s_closed s /\
  s_frames (on_success s f rtt) = s_frames s.
Proof. intros. unfold on_success. destruct (1000 <? _); [destruct (s_cst s)|]; cbn; auto. Qed.

Definition ack_pop (s : sender) (f0 : sframe) (rtt : N) (rest : list sframe) : sender :=
  let s1 := on_success s f0 rtt in
  {| s_ack := s_ack s1 + 1; s_fno := s_fno s1;
     s_unacked := if 0 <? s_unacked s1 then s_unacked s1 - 1 else 0;
     s_rtoc := s_rtoc s1; s_cst := s_cst s1; s_cwnd := s_cwnd s1; s_dup := s_dup s1;
     s_ssth := s_ssth s1; s_wsize := s_wsize s1; s_fin_sent := s_fin_sent s1;
     s_closed := s_closed s1; s_frames := rest; s_rto := s_rto s1 |}.
Lemma ack_loop_cons : forall f0 rest s new rtt,
  ack_loop (f0 :: rest) s new rtt = if s_ack s <? new then ack_loop rest (ack_pop s f0 rtt rest) new rtt else s.
Proof. reflexivity. Qed.
Lemma ack_loop_nil : forall s new rtt, ack_loop [] s new rtt = s.
Proof. intros. simpl. destruct (_ <? _); reflexivity. Qed.

(* the acknowledgement loop pops exactly new - ackNo frames when the buffer holds that many *)
Lemma ack_loop_spec : forall frames s new rtt,
  let s' := ack_loop frames s new rtt in
  exists j : nat, (j <= List.length frames)%nat /\ s_ack s' = s_ack s + N.of_nat j /\
    (s_frames s = frames -> s_frames s' = skipn j frames) /\ s_fno s' = s_fno s /\ s_fin_sent s' = s_fin_sent s /\ s_closed s' = s_closed s /\
    (new <= s_ack s + N.of_nat (List.length frames) -> s_ack s' = N.max (s_ack s) new).
Proof.
  induction frames as [|f0 rest IH]; intros s new rtt; cbv zeta.
  - rewrite ack_loop_nil. exists O; cbn [List.length skipn]; repeat split; auto; try lia.
  - rewrite ack_loop_cons. destruct (s_ack s <? new) eqn:E.
    + destruct (on_success_same s f0 rtt) as (A1 & A2 & A3 & A4 & A5).
      remember (ack_pop s f0 rtt rest) as s2 eqn:Es2.
      destruct (IH s2 new rtt) as (j & J1 & J2 & J3 & J4 & J5 & J6 & J7).
      assert (B1: s_ack s2 = s_ack s + 1) by (subst s2; unfold ack_pop; cbn; lia).
      assert (B2: s_fno s2 = s_fno s) by (subst s2; unfold ack_pop; cbn; auto).
      assert (B3: s_fin_sent s2 = s_fin_sent s) by (subst s2; unfold ack_pop; cbn; auto).
      assert (B4: s_closed s2 = s_closed s) by (subst s2; unfold ack_pop; cbn; auto).
      assert (B5: s_frames s2 = rest) by (subst s2; unfold ack_pop; cbn; auto).
      exists (S j). cbn [List.length skipn].
      split; [lia|]. split; [etransitivity; [exact J2|lia]|]. split; [intros; auto|].
      split; [congruence|]. split; [congruence|]. split; [congruence|].
      intros. etransitivity; [apply J7; lia|lia].
    + exists O. cbn [List.length skipn]. repeat split; auto; try lia.
Qed.

Lemma on_loss_same : forall s a, s_ack (fst (on_loss s a)) = s_ack s /\ s_frames (fst (on_loss s a)) = s_frames s /\
  s_fno (fst (on_loss s a)) = s_fno s /\ s_fin_sent (fst (on_loss s a)) = s_fin_sent s /\ s_closed (fst (on_loss s a)) = s_closed s.
Proof. intros. unfold on_loss.
  repeat match goal with |- context [if ?c then _ else _] => destruct c end; simpl; auto. Qed.

Lemma recv_ack_inv : forall writes fin s a rtt s1 missing sig, SInv writes fin s ->
  recv_ack s a rtt = Ok (s1, missing, sig) ->
  SInv writes fin s1 /\ s_closed s1 = s_closed s /\
  (s_ack s + two16 < two32 -> s_wsize s < two16 -> a < two32 -> s_ack s1 = N.max (s_ack s) a).
Proof.
  intros writes fin s a rtt s1 missing sig (k & Hk & Ha & Hf & Hn & Hfin) H. unfold recv_ack in H.
  destruct (100 <? s_dup s)%Z; [discriminate|].
  destruct ((s_ack s <? new_ack_no s a) && (N.of_nat (List.length (s_frames s)) <? new_ack_no s a - s_ack s)) eqn:EB; [discriminate|].
  set (new := new_ack_no s a) in *.
  destruct (if (s_ack s =? new) && (20 <? new) then on_loss s a else (s, 0)) as [s0 mi] eqn:EL.
  assert (S0: s_ack s0 = s_ack s /\ s_frames s0 = s_frames s /\ s_fno s0 = s_fno s /\ s_fin_sent s0 = s_fin_sent s /\ s_closed s0 = s_closed s).
  { destruct ((s_ack s =? new) && (20 <? new)).
    - pose proof (on_loss_same s a) as L. rewrite EL in L. exact L.
    - inversion EL; subst; auto. }
  destruct S0 as (A0 & F0 & N0 & FS0 & C0).
  inversion H; subst s1 missing sig; clear H.
  pose proof (ack_loop_spec (s_frames s0) s0 new rtt) as (j & J1 & J2 & J3 & J4 & J5 & J6 & J7).
  specialize (J3 eq_refl). cbv zeta in *.
  split; [|split].
  - exists (k + j)%nat. cbn [s_ack s_frames s_fno s_fin_sent set_cc].
    rewrite J2, J3, J4, J5, A0, F0, N0, FS0.
    assert (List.length (s_frames s) = (List.length (all_frames writes fin) - k)%nat).
    { rewrite <- (map_length sf_proj), Hf, skipn_length. reflexivity. }
    rewrite F0 in J1. split; [lia|]. split; [lia|]. split; auto.
    rewrite <- skipn_map, Hf. apply skipn_add.
  - cbn [s_closed set_cc]. rewrite J6. auto.
  - intros B W A32. cbn [s_ack set_cc].
    assert (Hnew: new = a).
    { unfold new, new_ack_no. destruct ((a <? s_ack s) && (u64sub (a + two32) (s_ack s) <=? s_wsize s)) eqn:EH; auto.
      exfalso. apply andb_true_iff in EH. destruct EH as [E1 E2]. unfold u64sub, two16, two32, two64 in *. lia. }
    rewrite Hnew in *. rewrite J7, A0; auto.
    rewrite A0, F0. apply andb_false_iff in EB. destruct EB as [EB|EB]; lia.
Qed.

Lemma f_to_u16_lt : forall f, f_to_u16 f < two16.
Proof. intros. unfold f_to_u16. apply N.mod_lt. unfold two16. lia. Qed.

Lemma write_wsize : forall s b s1 sig, write_m m s b = Ok (s1, sig) -> s_wsize s1 = s_wsize s.
Proof. intros s b s1 sig H. unfold write_m in H. destruct (_ || _); inversion H; reflexivity. Qed.
Lemma window_open_wsize : forall s, s_wsize (fst (window_open s)) = s_wsize s.
Proof. intros. unfold window_open. destruct (s_closed s); auto. destruct (window_fill _ _ _) as [[a c] d]. reflexivity. Qed.
Lemma send_fin_wsize : forall s s1 em, send_fin s = Ok (s1, em) -> s_wsize s1 = s_wsize s.
Proof. intros s s1 em H. unfold send_fin in H. destruct (s_fin_sent s); inversion H; reflexivity. Qed.
Lemma rto_tick_wsize : forall s, s_wsize s < two16 -> s_wsize (fst (rto_tick s)) < two16.
Proof. intros s H. unfold rto_tick, rto_tick_common. destruct (s_closed s); auto.
  destruct (rto_mark _ _ _) as [[a c] d].
  repeat match goal with |- context [if ?c then _ else _] => destruct c end; cbn; auto using f_to_u16_lt. Qed.
Lemma recv_ack_wsize : forall s a rtt s1 mi sig, recv_ack s a rtt = Ok (s1, mi, sig) -> s_wsize s1 < two16.
Proof. intros s a rtt s1 mi sig H. unfold recv_ack in H.
  destruct (100 <? s_dup s)%Z; [discriminate|]. destruct (_ && _); [discriminate|].
  match type of H with context [if ?c then on_loss s a else (s, 0)] => destruct (if c then on_loss s a else (s, 0)) as [s0 m0] end.
  inversion H. cbn. apply f_to_u16_lt. Qed.

Lemma all_len : forall writes fin,
  List.length (all_frames writes fin) = (List.length (stream_chunks m writes) + if fin then 1 else 0)%nat.
Proof. intros. unfold all_frames, spec_frames. apply spec_from_length. Qed.

Definition writes_step (writes : list bytes) (o : sop) (code : N) : list bytes :=
  match o with SWrite b => if code =? 0 then writes ++ [b] else writes | _ => writes end.
Definition ack_step (h : N) (o : sop) (code : N) : N :=
  match o with SAck a _ => if code =? 0 then N.max h a else h | _ => h end.

Lemma sstep_inv : forall writes s o, SInv writes (s_fin_sent s) s -> s_wsize s < two16 ->
  let '(s1, em, code) := sstep_m m s o in
  SInv (writes_step writes o code) (s_fin_sent s1) s1 /\ s_wsize s1 < two16 /\
  (s_ack s + two16 < two32 -> match o with SAck a _ => a < two32 | _ => True end ->
   s_ack s1 = ack_step (s_ack s) o code) /\
  match o with SFin => True | _ => s_fin_sent s1 = s_fin_sent s end.
Proof.
  intros writes s o I W. destruct o as [b|a rtt| |]; cbn [sstep_m writes_step ack_step].
  - destruct (write_m m s b) as [[s1 sig]| |] eqn:Hw; cbn; auto.
    pose proof (write_inv _ _ _ _ _ _ I Hw) as (I1 & A1 & F1 & C1).
    pose proof (write_wsize _ _ _ _ Hw) as W1.
    assert (FS: s_fin_sent s1 = s_fin_sent s).
    { destruct I1 as (k & _ & _ & _ & _ & E). congruence. }
    destruct sig.
    + pose proof (window_open_inv _ _ _ I1) as (I2 & A2 & C2). pose proof (window_open_wsize s1) as W2.
      destruct (window_open s1) as [s2 em] eqn:Ho. cbn [fst] in *. cbn.
      assert (FS2: s_fin_sent s2 = s_fin_sent s).
      { destruct I2 as (k & _ & _ & _ & _ & E). congruence. }
      rewrite FS2. split; [exact I2|]. split; [lia|]. split; [intros; lia|reflexivity].
    + cbn. rewrite FS. split; [exact I1|]. split; [lia|]. split; [intros; lia|reflexivity].
  - destruct (s_closed s) eqn:C; cbn; auto.
    destruct (recv_ack s a rtt) as [[[s1 mi] sig]| |] eqn:Hr.
    + pose proof (recv_ack_inv _ _ _ _ _ _ _ _ I Hr) as (I1 & C1 & A1).
      pose proof (recv_ack_wsize _ _ _ _ _ _ Hr) as W1.
      assert (FS: s_fin_sent s1 = s_fin_sent s).
      { destruct I1 as (k & _ & _ & _ & _ & E). congruence. }
      destruct sig.
      * pose proof (window_open_inv _ _ _ I1) as (I2 & A2 & C2). pose proof (window_open_wsize s1) as W2.
        destruct (window_open s1) as [s2 em] eqn:Ho. cbn [fst] in *. cbn.
        assert (FS2: s_fin_sent s2 = s_fin_sent s).
        { destruct I2 as (k & _ & _ & _ & _ & E). congruence. }
        rewrite FS2. split; [exact I2|]. split; [lia|]. split; [intros; rewrite A2; auto|reflexivity].
      * cbn. rewrite FS. split; [exact I1|]. split; [lia|]. split; [auto|reflexivity].
    + cbn. split; [|split; auto]. eapply sinv_same; eauto.
    + cbn. split; [|split; auto]. eapply sinv_same; eauto.
  - pose proof (rto_tick_inv _ _ _ I) as (I1 & A1 & C1). pose proof (rto_tick_wsize s W) as W1.
    destruct (rto_tick s) as [s1 em] eqn:Ht. cbn [fst] in *. cbn.
    assert (FS: s_fin_sent s1 = s_fin_sent s).
    { destruct I1 as (k & _ & _ & _ & _ & E). congruence. }
    rewrite FS. auto.
  - destruct (s_closed s) eqn:C; cbn; auto.
    destruct (send_fin s) as [[s1 em]| |] eqn:Hf; cbn; auto.
    pose proof (send_fin_inv _ _ _ _ _ I Hf) as (I1 & A1 & C1). pose proof (send_fin_wsize _ _ _ Hf) as W1.
    assert (FS: s_fin_sent s1 = true).
    { destruct I1 as (k & _ & _ & _ & _ & E). congruence. }
    rewrite FS. split; auto. split; [lia|auto].
Qed.

Lemma writes_of_cons : forall s o rest, writes_of s m (o :: rest) =
  let '(s1, _, code) := sstep_m m s o in
  match o with SWrite b => if code =? 0 then b :: writes_of s1 m rest else writes_of s1 m rest | _ => writes_of s1 m rest end.
Proof. reflexivity. Qed.

Lemma srun_exact : forall ops s writes u,
  SInv writes (s_fin_sent s) s -> s_wsize s < two16 ->
  (List.length (all_frames writes (s_fin_sent s)) <= u)%nat ->
  N.of_nat (u + frames_upper m ops) + two16 + 1 < two32 -> acks_32bit ops ->
  let s' := fst (srun_m m s ops) in
  SInv (writes ++ writes_of s m ops) (s_fin_sent s') s' /\ s_ack s' = high_ack m s ops (s_ack s).
Proof.
  induction ops as [|o rest IH]; intros s writes u I W U B A.
  - cbn. rewrite app_nil_r. auto.
  - pose proof (sstep_inv writes s o I W) as St.
    rewrite writes_of_cons. cbn [srun_m high_ack].
    destruct (sstep_m m s o) as [[s1 em] code] eqn:Hs.
    destruct St as (I1 & W1 & A1 & FSt).
    assert (Hack: s_ack s + two16 < two32).
    { destruct I as (k & Hk & Ha & _). rewrite Ha. unfold two16, two32 in *. lia. }
    assert (A32: match o with SAck a _ => a < two32 | _ => True end) by (destruct o; cbn in A; tauto).
    assert (Arest: acks_32bit rest) by (destruct o; cbn in A; tauto).
    specialize (A1 Hack A32).
    (* growth of the stream by this step *)
    assert (U1: exists u1, (List.length (all_frames (writes_step writes o code) (s_fin_sent s1)) <= u1)%nat /\
                           (u1 + frames_upper m rest <= u + frames_upper m (o :: rest))%nat).
    { destruct o as [b|a rtt| |]; cbn [writes_step frames_upper].
      - exists (u + List.length (segments m b))%nat. split; [|lia].
        rewrite FSt. destruct (code =? 0).
        + rewrite all_len in *. rewrite stream_chunks_app, stream_chunks_one, app_length. lia.
        + lia.
      - exists u. split; [|lia]. rewrite FSt. auto.
      - exists u. split; [|lia]. rewrite FSt. auto.
      - exists (S u). split; [|lia]. rewrite all_len in *. destruct (s_fin_sent s1); destruct (s_fin_sent s); lia. }
    destruct U1 as (u1 & U1a & U1b).
    destruct (srun_m m s1 rest) as [s2 em2] eqn:Hr. cbn [fst].
    specialize (IH s1 (writes_step writes o code) u1 I1 W1 U1a).
    rewrite Hr in IH. cbn [fst] in IH.
    destruct IH as (I2 & A2); auto. { unfold two16, two32 in *. lia. }
    split.
    + destruct o as [b|a rtt| |]; cbn [writes_step] in I2; auto.
      destruct (code =? 0); auto. rewrite <- app_assoc in I2. exact I2.
    + rewrite A2, A1. reflexivity.
Qed.
End Inv.
