(* MaskProofs.v — the Go mask derivation (RefMaskInitialize: snp.StateSetBytes of the key into a zero
   state, snp.StateSetByte of the padding byte 0x01 at offset len(key), permutation), transcribed on
   uint64 lanes in Model/Kravatte.v, equals the specification's p(lanes(K || 1 || 0..0)) for EVERY
   well-formed key of every length 1..199.  The permutation is the same function on both sides; the
   content is the byte -> lane packing: clearing and setting byte i of a lane with masks and shifts is
   the little-endian lane of the byte string with byte i replaced. *)
From Hop Require Import Base Keccak Kravatte SanseProofs KravatteProofs.
From Coq Require Import ZifyN ZifyNat ZifyBool.
Open Scope N_scope.

(* little-endian value of a byte list of any length (lane_of_8 is this on the first 8 bytes) *)
Definition lane_of (bs : bytes) : N := fold_right (fun x acc => N.lor x (N.shiftl acc 8)) 0 bs.
Lemma lane_of_8_eq : forall b, lane_of_8 b = lane_of (firstn 8 b).
Proof. reflexivity. Qed.

Lemma byte_high_bits : forall x n, x < 256 -> 8 <= n -> N.testbit x n = false.
Proof.
  intros x n Hx Hn. rewrite <- (N.mod_small x (2 ^ 8)) by exact Hx.
  apply N.mod_pow2_bits_high. exact Hn.
Qed.

(* bit n of the lane is bit (n mod 8) of byte n/8 *)
Lemma lane_of_testbit : forall bs n, wf_bytes bs = true ->
  N.testbit (lane_of bs) n = N.testbit (nth (N.to_nat (n / 8)) bs 0) (n mod 8).
Proof.
  induction bs as [|x r IH]; intros n W.
  - cbn [lane_of fold_right]. destruct (N.to_nat (n / 8)); cbn [nth]; rewrite !N.bits_0; reflexivity.
  - apply wf_cons in W as [Hx Wr]. cbn [lane_of fold_right]. fold (lane_of r).
    rewrite N.lor_spec. destruct (N.lt_ge_cases n 8) as [L|G].
    + rewrite N.shiftl_spec_low by exact L. rewrite orb_false_r.
      rewrite N.div_small, N.mod_small by exact L. reflexivity.
    + rewrite (byte_high_bits x n Hx G), N.shiftl_spec_high' by exact G. cbn [orb].
      rewrite IH by exact Wr.
      assert (E1 : N.to_nat (n / 8) = S (N.to_nat ((n - 8) / 8))).
      { assert (n / 8 = (n - 8) / 8 + 1).
        { replace n with ((n - 8) + 1 * 8) at 1 by lia. rewrite N.div_add by discriminate. reflexivity. }
        lia. }
      assert (E2 : n mod 8 = (n - 8) mod 8).
      { replace n with ((n - 8) + 1 * 8) at 1 by lia. rewrite N.mod_add by discriminate. reflexivity. }
      rewrite E1, E2. reflexivity.
Qed.

Lemma lane_of_small : forall bs n, wf_bytes bs = true -> N.of_nat (8 * List.length bs) <= n ->
  N.testbit (lane_of bs) n = false.
Proof.
  intros bs n W H. rewrite lane_of_testbit by exact W.
  rewrite nth_overflow; [apply N.bits_0|].
  assert (N.of_nat (List.length bs) <= n / 8).
  { apply N.div_le_lower_bound; [discriminate|]. lia. }
  lia.
Qed.

(* bit n of the lane after "clear byte i, set it to b" *)
Lemma set_byte_lane_testbit : forall v b i n, b < 256 -> (i < 8)%nat ->
  N.testbit (set_byte_lane v b (8 * N.of_nat i)) n =
  if (8 * N.of_nat i <=? n) && (n <? 8 * N.of_nat i + 8) then N.testbit b (n - 8 * N.of_nat i)
  else N.testbit v n && (n <? 64).
Proof.
  intros v b i n Hb Hi. unfold set_byte_lane. set (s := 8 * N.of_nat i).
  rewrite N.lxor_spec, N.land_spec, N.lxor_spec.
  change mask64 with (N.ones 64). change 255 with (N.ones 8).
  assert (M : N.testbit (N.ones 64) n = (n <? 64)).
  { destruct (N.ltb_spec n 64); [apply N.ones_spec_low | apply N.ones_spec_high]; assumption. }
  rewrite M.
  destruct (N.leb_spec s n) as [Ls|Ls]; cbn [andb].
  - rewrite !N.shiftl_spec_high' by exact Ls.
    destruct (N.ltb_spec n (s + 8)) as [Lh|Lh].
    + rewrite N.ones_spec_low by lia.
      assert (n <? 64 = true) by (apply N.ltb_lt; unfold s in *; lia).
      rewrite H. cbn [xorb]. rewrite andb_false_r. apply xorb_false_l.
    + rewrite N.ones_spec_high by lia. rewrite (byte_high_bits b (n - s) Hb) by lia.
      rewrite xorb_false_r, xorb_false_r. reflexivity.
  - rewrite !N.shiftl_spec_low by exact Ls. rewrite xorb_false_r, xorb_false_r. reflexivity.
Qed.

Lemma wf_cons_intro : forall x l, x < 256 -> wf_bytes l = true -> wf_bytes (x :: l) = true.
Proof.
  intros x l H W. unfold wf_bytes in *. cbn [forallb]. rewrite W. unfold wf_byte.
  apply N.ltb_lt in H. rewrite H. reflexivity.
Qed.
Lemma upd_wf : forall bs i b, wf_bytes bs = true -> b < 256 -> wf_bytes (upd i b bs) = true.
Proof.
  induction bs as [|x r IH]; intros i b W Hb; destruct i; cbn [upd]; try exact W.
  - apply wf_cons in W as [Hx Wr]. apply wf_cons_intro; assumption.
  - apply wf_cons in W as [Hx Wr]. apply wf_cons_intro; [exact Hx|apply IH; assumption].
Qed.

Lemma nth_upd : forall (l : bytes) j k b,
  nth k (upd j b l) 0 = if Nat.eqb k j then (if Nat.ltb j (List.length l) then b else 0) else nth k l 0.
Proof.
  induction l as [|x r IH]; intros j k b.
  - destruct j; cbn [upd List.length]; destruct k; cbn [nth]; destruct (Nat.eqb _ _); reflexivity.
  - destruct j, k; cbn [upd nth List.length]; try reflexivity.
    rewrite IH. cbn [Nat.eqb]. destruct (Nat.eqb k j); [|reflexivity].
    change (S j <? S (List.length r))%nat with (j <? List.length r)%nat. reflexivity.
Qed.

(* one lane: mask-and-shift update = replace byte i *)
Lemma set_byte_lane_lane_of : forall bs b i, wf_bytes bs = true -> b < 256 ->
  (i < List.length bs)%nat -> (List.length bs <= 8)%nat ->
  set_byte_lane (lane_of bs) b (8 * N.of_nat i) = lane_of (upd i b bs).
Proof.
  intros bs b i W Hb Hi Hl. apply N.bits_inj. intros n.
  assert (Wu : wf_bytes (upd i b bs) = true) by (apply upd_wf; assumption).
  rewrite set_byte_lane_testbit by (try exact Hb; lia).
  rewrite (lane_of_testbit (upd i b bs)) by exact Wu.
  rewrite nth_upd.
  destruct (N.leb_spec (8 * N.of_nat i) n) as [L1|L1]; cbn [andb].
  - destruct (N.ltb_spec n (8 * N.of_nat i + 8)) as [L2|L2].
    + assert (Q : n / 8 = N.of_nat i).
      { symmetry. apply (N.div_unique n 8 (N.of_nat i) (n - 8 * N.of_nat i)); lia. }
      assert (R : n mod 8 = n - 8 * N.of_nat i).
      { symmetry. apply (N.mod_unique n 8 (N.of_nat i) (n - 8 * N.of_nat i)); lia. }
      rewrite Q, R, Nat2N.id, Nat.eqb_refl.
      assert (Nat.ltb i (List.length bs) = true) by (apply Nat.ltb_lt; exact Hi).
      rewrite H. reflexivity.
    + assert (Q : N.to_nat (n / 8) <> i).
      { intros E. assert (N.of_nat i = n / 8) by lia.
        pose proof (N.mul_div_le n 8 ltac:(discriminate)). pose proof (N.mod_upper_bound n 8 ltac:(discriminate)).
        pose proof (N.div_mod n 8 ltac:(discriminate)). lia. }
      apply Nat.eqb_neq in Q. rewrite Q.
      destruct (N.ltb_spec n 64) as [L3|L3].
      * rewrite andb_true_r. apply lane_of_testbit, W.
      * rewrite andb_false_r. symmetry. rewrite <- (lane_of_testbit bs n W). apply lane_of_small; [exact W|lia].
  - assert (Q : N.to_nat (n / 8) <> i).
    { intros E. assert (N.of_nat i = n / 8) by lia.
      pose proof (N.mul_div_le n 8 ltac:(discriminate)). lia. }
    apply Nat.eqb_neq in Q. rewrite Q.
    assert (n <? 64 = true) by (apply N.ltb_lt; lia). rewrite H, andb_true_r.
    apply lane_of_testbit, W.
Qed.

(* ---- list plumbing ---- *)
Lemma upd_length : forall (l : bytes) i b, List.length (upd i b l) = List.length l.
Proof. induction l as [|x r IH]; intros i b; destruct i; cbn [upd List.length]; try reflexivity. f_equal. apply IH. Qed.

Lemma firstn_upd_lt : forall m (l : bytes) off b, (off < m)%nat -> firstn m (upd off b l) = upd off b (firstn m l).
Proof.
  induction m as [|m IH]; intros l off b H; [lia|].
  destruct l as [|x r]; [destruct off; reflexivity|].
  destruct off; cbn [upd firstn]; [reflexivity|]. f_equal. apply IH. lia.
Qed.
Lemma skipn_upd_lt : forall m (l : bytes) off b, (off < m)%nat -> skipn m (upd off b l) = skipn m l.
Proof.
  induction m as [|m IH]; intros l off b H; [lia|].
  destruct l as [|x r]; [destruct off; reflexivity|].
  destruct off; cbn [upd skipn]; [reflexivity|]. apply IH. lia.
Qed.
Lemma firstn_upd_ge : forall m (l : bytes) off b, (m <= off)%nat -> firstn m (upd off b l) = firstn m l.
Proof.
  induction m as [|m IH]; intros l off b H; [reflexivity|].
  destruct l as [|x r]; [destruct off; reflexivity|].
  destruct off; [lia|]. cbn [upd firstn]. f_equal. apply IH. lia.
Qed.
Lemma skipn_upd_ge : forall m (l : bytes) off b, (m <= off)%nat -> skipn m (upd off b l) = upd (off - m) b (skipn m l).
Proof.
  induction m as [|m IH]; intros l off b H.
  - rewrite Nat.sub_0_r. reflexivity.
  - destruct l as [|x r]; [destruct off; [lia|]; cbn [upd skipn Nat.sub]; destruct (off - m)%nat; reflexivity|].
    destruct off; [lia|]. cbn [upd skipn]. apply IH. lia.
Qed.
Lemma wf_firstn : forall m l, wf_bytes l = true -> wf_bytes (firstn m l) = true.
Proof.
  induction m as [|m IH]; intros l W; [reflexivity|]. destruct l as [|x r]; [reflexivity|].
  apply wf_cons in W as [Hx Wr]. cbn [firstn]. apply wf_cons_intro; [exact Hx|apply IH, Wr].
Qed.
Lemma wf_skipn : forall m l, wf_bytes l = true -> wf_bytes (skipn m l) = true.
Proof.
  induction m as [|m IH]; intros l W; [exact W|]. destruct l as [|x r]; [reflexivity|].
  apply wf_cons in W as [Hx Wr]. cbn [skipn]. apply IH, Wr.
Qed.

(* ---- the whole state: replacing byte [off] of the byte string = clear-and-set in lane off/8 ---- *)
Lemma lanes_upd : forall n bs off b,
  List.length bs = (8 * n)%nat -> (off < 8 * n)%nat -> wf_bytes bs = true -> b < 256 ->
  lanes_of_bytes_n n (upd off b bs) =
  upd (off / 8) (set_byte_lane (lane (lanes_of_bytes_n n bs) (off / 8)) b (8 * N.of_nat (off mod 8)))
      (lanes_of_bytes_n n bs).
Proof.
  induction n as [|n IH]; intros bs off b L H W Hb; [lia|].
  cbn [lanes_of_bytes_n]. destruct (Nat.lt_ge_cases off 8) as [Lo|Go].
  - rewrite (Nat.div_small off 8 Lo), (Nat.mod_small off 8 Lo). cbn [upd]. unfold lane at 1. cbn [nth].
    rewrite skipn_upd_lt by exact Lo. f_equal.
    rewrite !lane_of_8_eq, firstn_upd_lt by exact Lo.
    symmetry. apply set_byte_lane_lane_of.
    + apply wf_firstn, W.
    + exact Hb.
    + rewrite firstn_length. lia.
    + rewrite firstn_length. lia.
  - assert (D : (off / 8 = S ((off - 8) / 8))%nat).
    { replace off with ((off - 8) + 1 * 8)%nat at 1 by lia. rewrite Nat.div_add by discriminate. lia. }
    assert (M : (off mod 8 = (off - 8) mod 8)%nat).
    { replace off with ((off - 8) + 1 * 8)%nat at 1 by lia. rewrite Nat.mod_add by discriminate. reflexivity. }
    rewrite D, M. cbn [upd]. unfold lane at 1. cbn [nth]. fold (lane (lanes_of_bytes_n n (skipn 8 bs)) ((off - 8) / 8)).
    rewrite !lane_of_8_eq, firstn_upd_ge by exact Go. f_equal.
    rewrite skipn_upd_ge by exact Go. apply IH.
    + rewrite skipn_length. lia.
    + lia.
    + apply wf_skipn, W.
    + exact Hb.
Qed.

(* StateSetBytes: writing a byte string at an offset *)
Fixpoint write (bs : bytes) (off : nat) (k : bytes) : bytes :=
  match k with [] => bs | x :: r => write (upd off x bs) (S off) r end.

Lemma state_set_bytes_is_write : forall k bs off,
  List.length bs = 200%nat -> (off + List.length k <= 200)%nat -> wf_bytes bs = true -> wf_bytes k = true ->
  go_state_set_bytes (lanes_of_bytes bs) off k = lanes_of_bytes (write bs off k).
Proof.
  induction k as [|x r IH]; intros bs off L H W Wk; [reflexivity|].
  apply wf_cons in Wk as [Hx Wr]. cbn [go_state_set_bytes write List.length] in *.
  unfold lanes_of_bytes at 1 2. rewrite <- (lanes_upd 25 bs off x) by (try assumption; lia).
  apply IH.
  - rewrite upd_length. exact L.
  - lia.
  - apply upd_wf; assumption.
  - exact Wr.
Qed.

Lemma upd_app_mid : forall (pre : bytes) y rest v, upd (List.length pre) v (pre ++ y :: rest) = pre ++ v :: rest.
Proof. induction pre as [|x pre IH]; intros; [reflexivity|]. cbn [List.length app upd]. f_equal. apply IH. Qed.

Lemma write_zeros : forall k pre m,
  write (pre ++ repeat 0 (List.length k + m)) (List.length pre) k = pre ++ k ++ repeat 0 m.
Proof.
  induction k as [|x r IH]; intros pre m; [reflexivity|].
  cbn [write List.length Nat.add repeat]. rewrite upd_app_mid.
  replace (S (List.length pre)) with (List.length (pre ++ [x])) by (rewrite app_length; cbn; lia).
  replace (pre ++ x :: repeat 0 (List.length r + m)) with ((pre ++ [x]) ++ repeat 0 (List.length r + m))
    by (rewrite <- app_assoc; reflexivity).
  rewrite IH, <- app_assoc. reflexivity.
Qed.

(* the byte string the Go code builds is exactly K || 1 || 0..0 *)
Lemma go_key_block : forall k, (List.length k < 200)%nat ->
  upd (List.length k) 1 (write (repeat 0 200) 0 k) = kv_pad_key k.
Proof.
  intros k H.
  replace 200%nat with (List.length k + S (199 - List.length k))%nat at 1 by lia.
  pose proof (write_zeros k [] (S (199 - List.length k))) as Hw. cbn [app List.length] in Hw.
  rewrite Hw. cbn [repeat].
  pose proof (upd_app_mid k 0 (repeat 0 (199 - List.length k)) 1) as Hu. rewrite Hu. unfold kv_pad_key, kv_width.
  replace (200 - 1 - List.length k)%nat with (199 - List.length k)%nat by lia. reflexivity.
Qed.

Lemma write_length : forall k bs off, List.length (write bs off k) = List.length bs.
Proof. induction k as [|x r IH]; intros; [reflexivity|]. cbn [write]. rewrite IH. apply upd_length. Qed.
Lemma write_wf : forall k bs off, wf_bytes bs = true -> wf_bytes k = true -> wf_bytes (write bs off k) = true.
Proof.
  induction k as [|x r IH]; intros bs off W Wk; [exact W|].
  apply wf_cons in Wk as [Hx Wr]. cbn [write]. apply IH; [apply upd_wf; assumption|exact Wr].
Qed.

(* ---- the theorem: for every well-formed key of 1..199 bytes the Go derivation gives the specification's mask ---- *)
Lemma go_mask_init_is_spec : forall k,
  k <> [] -> (List.length k < 200)%nat -> wf_bytes k = true ->
  go_mask_init k = Ok (kv_k (kv6_init k)).
Proof.
  intros k Hne Hl W. unfold go_mask_init, go_mask_init_with, kv_width.
  destruct (200 <=? List.length k)%nat eqn:E; [apply Nat.leb_le in E; lia|].
  destruct k as [|x r]; [congruence|]. set (key := x :: r) in *.
  f_equal. unfold kv6_init, kv_init. cbn [kv_k]. f_equal.
  assert (Z : zero_lanes = lanes_of_bytes (repeat 0 200)) by reflexivity.
  assert (Wz : wf_bytes (repeat 0 200) = true) by reflexivity.
  rewrite Z. rewrite state_set_bytes_is_write; [| reflexivity | lia | exact Wz | exact W].
  unfold go_state_set_byte, lanes_of_bytes.
  rewrite <- (lanes_upd 25 (write (repeat 0 200) 0 key) (List.length key) 1).
  - fold (lanes_of_bytes (upd (List.length key) 1 (write (repeat 0 200) 0 key))).
    rewrite go_key_block by exact Hl. reflexivity.
  - rewrite write_length. reflexivity.
  - lia.
  - apply write_wf; assumption.
  - reflexivity.
Qed.

Lemma Ok_inj : forall (A : Type) (a b : A), Ok a = Ok b -> a = b.
Proof. intros A a b H. injection H as H. exact H. Qed.

Lemma go_mask_injective :
  (forall a b, keccak6 a = keccak6 b -> a = b) ->
  forall k1 k2, k1 <> [] -> k2 <> [] -> (List.length k1 < 200)%nat -> (List.length k2 < 200)%nat ->
                wf_bytes k1 = true -> wf_bytes k2 = true ->
                go_mask_init k1 = go_mask_init k2 -> k1 = k2.
Proof.
  intros Pinj k1 k2 N1 N2 L1 L2 W1 W2 H.
  pose proof (go_mask_init_is_spec k1 N1 L1 W1) as E1.
  pose proof (go_mask_init_is_spec k2 N2 L2 W2) as E2.
  assert (H' : Ok (kv_k (kv6_init k1)) = Ok (kv_k (kv6_init k2))) by (rewrite <- E1, <- E2; exact H).
  apply Ok_inj in H'.
  exact (mask_injective keccak6 Pinj k1 k2 L1 L2 W1 W2 H').
Qed.
