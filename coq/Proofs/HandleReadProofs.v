(* Proofs about Model/HandleRead.v: the byte-stream law of Handle.Read / ReadMsg for every sequence
   of buffer sizes, arrivals, closes and deadline changes; end-of-stream only when drained; nothing
   after end-of-stream; a closed handle is drained by finitely many Reads; the message law for
   ReadMsg-only readers. *)
From Coq Require Import List NArith Lia Bool Arith.
From Coq Require Import ZifyN ZifyNat ZifyBool.
From Hop Require Import Base HandleRead.
Import ListNotations.
Open Scope N_scope.

Lemma hr_take_drop : forall n (l : bytes), take n l ++ drop n l = l.
Proof. intros. unfold take, drop. apply firstn_skipn. Qed.

Lemma hr_take_all : forall n (l : bytes), len l <= n -> take n l = l.
Proof. intros n l H. unfold take, len in *. apply firstn_all2. lia. Qed.

Lemma hr_len_pos_false : forall l : bytes, (0 <? len l) = false -> l = [].
Proof. intros l H. unfold len in H. destruct l; [reflexivity|]. cbn [length] in H. lia. Qed.

Lemma hr_len_pos_true : forall l : bytes, (0 <? len l) = true -> l <> [].
Proof. intros l H E. subst l. cbn in H. discriminate. Qed.

Lemma hr_len_take_le : forall n (l : bytes), len (take n l) <= n.
Proof. intros. unfold len, take. pose proof (firstn_le_length (N.to_nat n) l). lia. Qed.

(* ------------------------------------------------------------------ one step: the stream equation *)
Lemma hr_step_stream : forall s o s' r,
  hr_step s o = (s', r) ->
  hr_pending s ++ hr_ev_accepted (o, r) = hr_ev_delivered (o, r) ++ hr_pending s'.
Proof.
  intros s o s' r H. destruct s as [q buf cl ex cap]. unfold hr_pending.
  destruct o as [n|n|m| | |]; cbn [hr_step] in H.
  - (* Read *)
    unfold hr_read in H. cbn [hrbuf hrq] in *.
    destruct (0 <? len buf) eqn:Eb.
    + inversion H; subst; clear H. cbn [hr_ev_accepted hr_ev_delivered hr_set_buf hrbuf hrq].
      rewrite app_nil_r, app_assoc, hr_take_drop. reflexivity.
    + apply hr_len_pos_false in Eb. subst buf. unfold hr_recv_seq in H. cbn [hrq hrclosed hrexpired] in H.
      destruct q as [|m q'].
      * destruct cl; [|destruct ex]; inversion H; subst; cbn; reflexivity.
      * cbn [hr_set_q hrbuf hrq hrclosed hrexpired hrcap] in H.
        destruct (N.min n (len m) =? len m) eqn:Ek; inversion H; subst; clear H;
          cbn [hr_ev_accepted hr_ev_delivered hr_set_buf hr_set_q hrbuf hrq hrclosed hrexpired hrcap List.concat app];
          rewrite app_nil_r.
        -- rewrite hr_take_all by lia. reflexivity.
        -- rewrite app_assoc, hr_take_drop. reflexivity.
  - (* ReadMsg *)
    unfold hr_readmsg in H. cbn [hrbuf hrq] in *.
    destruct (0 <? len buf) eqn:Eb.
    + destruct (n <? len buf) eqn:En; inversion H; subst; clear H;
        cbn [hr_ev_accepted hr_ev_delivered hr_set_buf hrbuf hrq app]; rewrite app_nil_r; [reflexivity|].
      rewrite hr_take_all by lia. reflexivity.
    + apply hr_len_pos_false in Eb. subst buf. unfold hr_recv_seq in H. cbn [hrq hrclosed hrexpired] in H.
      destruct q as [|m q'].
      * destruct cl; [|destruct ex]; inversion H; subst; cbn; reflexivity.
      * cbn [hr_set_q hrbuf hrq hrclosed hrexpired hrcap] in H.
        destruct (len m <=? n) eqn:Ek; inversion H; subst; clear H;
          cbn [hr_ev_accepted hr_ev_delivered hr_set_buf hr_set_q hrbuf hrq hrclosed hrexpired hrcap List.concat app];
          rewrite app_nil_r; reflexivity.
  - (* arrival *)
    unfold hr_arrive in H. cbn [hrclosed hrq hrcap] in H.
    destruct cl; cbn [negb] in H; [inversion H; subst; cbn; rewrite app_nil_r; reflexivity|].
    destruct (length q <? cap)%nat; inversion H; subst; clear H;
      cbn [hr_ev_accepted hr_ev_delivered hr_set_q hrbuf hrq app].
    + rewrite concat_app. cbn [List.concat]. rewrite app_nil_r, app_assoc. reflexivity.
    + rewrite app_nil_r. reflexivity.
  - inversion H; subst; cbn. rewrite app_nil_r. reflexivity.
  - unfold hr_setdl in H. cbn [hrclosed] in H. destruct cl; inversion H; subst; cbn; rewrite app_nil_r; reflexivity.
  - unfold hr_setdl in H. cbn [hrclosed] in H. destruct cl; inversion H; subst; cbn; rewrite app_nil_r; reflexivity.
Qed.

(* ------------------------------------------------------------------ runs *)
Lemma hr_run_cons : forall s o r,
  hr_run s (o :: r) = (let '(s1, x) := hr_step s o in let '(s2, evs) := hr_run s1 r in (s2, (o, x) :: evs)).
Proof. reflexivity. Qed.

Lemma hr_run_app : forall ops1 ops2 s s1 evs1 s2 evs2,
  hr_run s ops1 = (s1, evs1) -> hr_run s1 ops2 = (s2, evs2) ->
  hr_run s (ops1 ++ ops2) = (s2, evs1 ++ evs2).
Proof.
  induction ops1 as [|o r IH]; intros ops2 s s1 evs1 s2 evs2 H1 H2.
  - cbn in H1. inversion H1; subst. exact H2.
  - cbn [app]. rewrite hr_run_cons in *. destruct (hr_step s o) as [sa x]. destruct (hr_run sa r) as [sb evr] eqn:Er.
    inversion H1; subst. rewrite (IH ops2 sa s1 evr s2 evs2 Er H2). reflexivity.
Qed.

Lemma hr_accepted_cons : forall e evs, hr_accepted (e :: evs) = hr_ev_accepted e ++ hr_accepted evs.
Proof. reflexivity. Qed.
Lemma hr_delivered_cons : forall e evs, hr_delivered (e :: evs) = hr_ev_delivered e ++ hr_delivered evs.
Proof. reflexivity. Qed.

(* the byte-stream law, from any state, for every operation sequence *)
Lemma hr_run_stream : forall ops s s' evs,
  hr_run s ops = (s', evs) ->
  hr_pending s ++ hr_accepted evs = hr_delivered evs ++ hr_pending s'.
Proof.
  induction ops as [|o r IH]; intros s s' evs H.
  - cbn in H. inversion H; subst. cbn. rewrite app_nil_r. reflexivity.
  - rewrite hr_run_cons in H. destruct (hr_step s o) as [s1 x] eqn:E1. destruct (hr_run s1 r) as [s2 evr] eqn:Er.
    inversion H; subst. rewrite hr_accepted_cons, hr_delivered_cons.
    rewrite app_assoc, (hr_step_stream _ _ _ _ E1), <- app_assoc, (IH _ _ _ Er), app_assoc. reflexivity.
Qed.

Lemma hr_stream_law : forall cap ex ops s evs,
  hr_run (hrinit cap ex) ops = (s, evs) ->
  hr_delivered evs ++ hrbuf s ++ List.concat (hrq s) = hr_accepted evs.
Proof. intros cap ex ops s evs H. apply hr_run_stream in H. cbn in H. symmetry. exact H. Qed.

(* what has been delivered so far is a prefix of what has been accepted so far *)
Lemma hr_delivered_prefix : forall cap ex ops s evs,
  hr_run (hrinit cap ex) ops = (s, evs) -> exists rest, hr_accepted evs = hr_delivered evs ++ rest.
Proof. intros cap ex ops s evs H. eexists. symmetry. eapply hr_stream_law; eauto. Qed.

(* ------------------------------------------------------------------ end of stream *)
Definition hr_done (s : hrstate) : Prop := hrclosed s = true /\ hrbuf s = [] /\ hrq s = [].

Lemma hr_recv_err : forall s e, hr_recv_seq s = inl e -> hrq s = [] /\
  (e = HEof /\ hrclosed s = true \/ e = HTimeout /\ hrclosed s = false /\ hrexpired s = true
   \/ e = HBlock /\ hrclosed s = false /\ hrexpired s = false).
Proof.
  intros s e H. unfold hr_recv_seq in H. destruct (hrq s); [|discriminate]. split; [reflexivity|].
  destruct (hrclosed s); [|destruct (hrexpired s)]; inversion H; subst; auto.
Qed.

(* a reader never gets more than its buffer holds *)
Lemma hr_read_fits : forall s n s' b,
  (hr_step s (HRead n) = (s', HData b) \/ hr_step s (HReadMsg n) = (s', HData b)) -> len b <= n.
Proof.
  intros s n s' b [H|H]; cbn [hr_step] in H.
  - unfold hr_read in H. destruct (0 <? len (hrbuf s)).
    + inversion H; subst. apply hr_len_take_le.
    + destruct (hr_recv_seq s) as [e|[m s1]] eqn:E.
      * inversion H; subst e. apply hr_recv_err in E. destruct E as [_ [[X _]|[[X _]|[X _]]]]; discriminate.
      * destruct (N.min n (len m) =? len m); inversion H; subst;
          pose proof (hr_len_take_le (N.min n (len m)) m); lia.
  - unfold hr_readmsg in H. destruct (0 <? len (hrbuf s)).
    + destruct (n <? len (hrbuf s)); inversion H; subst. apply hr_len_take_le.
    + destruct (hr_recv_seq s) as [e|[m s1]] eqn:E.
      * inversion H; subst e. apply hr_recv_err in E. destruct E as [_ [[X _]|[[X _]|[X _]]]]; discriminate.
      * destruct (len m <=? n) eqn:L; inversion H; subst. lia.
Qed.

(* a reader call reports io.EOF only on a closed handle with nothing buffered and nothing queued *)
Lemma hr_eof_drained : forall s o s',
  hr_is_reader_ev (o, HEof) = true -> hr_step s o = (s', HEof) -> hr_done s /\ s' = s.
Proof.
  intros s o s' Ho H. destruct o as [n|n|m| | |]; try discriminate; cbn [hr_step] in H.
  - unfold hr_read in H. destruct (0 <? len (hrbuf s)) eqn:Eb; [discriminate|].
    apply hr_len_pos_false in Eb.
    destruct (hr_recv_seq s) as [e|[m s1]] eqn:E.
    + inversion H; subst. apply hr_recv_err in E. destruct E as [Q [[_ C]|[[X _]|[X _]]]]; try discriminate.
      repeat split; auto.
    + destruct (N.min n (len m) =? len m); discriminate.
  - unfold hr_readmsg in H. destruct (0 <? len (hrbuf s)) eqn:Eb.
    + destruct (n <? len (hrbuf s)); discriminate.
    + apply hr_len_pos_false in Eb.
      destruct (hr_recv_seq s) as [e|[m s1]] eqn:E.
      * inversion H; subst. apply hr_recv_err in E. destruct E as [Q [[_ C]|[[X _]|[X _]]]]; try discriminate.
        repeat split; auto.
      * destruct (len m <=? n); discriminate.
Qed.

(* once drained and closed, the handle stays so: arrivals are refused, readers get io.EOF *)
Lemma hr_done_step : forall s o s' r,
  hr_done s -> hr_step s o = (s', r) ->
  hr_done s' /\ hr_ev_accepted (o, r) = [] /\ hr_ev_delivered (o, r) = [] /\
  (hr_is_reader_ev (o, r) = true -> r = HEof).
Proof.
  intros s o s' r [C [B Q]] H. destruct s as [q buf cl ex cap]. cbn [hrclosed hrbuf hrq] in *. subst.
  destruct o; cbn in H; inversion H; subst; cbn; unfold hr_done; cbn; repeat split; auto; discriminate.
Qed.

Lemma hr_done_run : forall ops s s' evs,
  hr_done s -> hr_run s ops = (s', evs) ->
  hr_done s' /\ hr_accepted evs = [] /\ hr_delivered evs = [] /\
  Forall (fun e => hr_is_reader_ev e = true -> snd e = HEof) evs.
Proof.
  induction ops as [|o r IH]; intros s s' evs D H.
  - cbn in H. inversion H; subst. cbn. auto.
  - rewrite hr_run_cons in H. destruct (hr_step s o) as [s1 x] eqn:E1. destruct (hr_run s1 r) as [s2 evr] eqn:Er.
    inversion H; subst. destruct (hr_done_step _ _ _ _ D E1) as (D1 & A1 & L1 & R1).
    destruct (IH _ _ _ D1 Er) as (D2 & A2 & L2 & R2).
    rewrite hr_accepted_cons, hr_delivered_cons, A1, L1, A2, L2.
    split; [exact D2|]. split; [reflexivity|]. split; [reflexivity|].
    constructor; [exact R1|exact R2].
Qed.

(* "data queued before close is still returned before end-of-stream", for every history:
   when a reader call reports io.EOF, every byte accepted so far has been delivered, and from then on
   nothing is accepted, nothing is delivered, and every reader call reports io.EOF *)
Lemma hr_data_before_eof : forall cap ex ops1 o ops2 s1 evs1 s2 s3 evs2,
  hr_run (hrinit cap ex) ops1 = (s1, evs1) ->
  hr_is_reader_ev (o, HEof) = true ->
  hr_step s1 o = (s2, HEof) ->
  hr_run s2 ops2 = (s3, evs2) ->
  hr_delivered evs1 = hr_accepted evs1 /\
  hr_accepted evs2 = [] /\ hr_delivered evs2 = [] /\
  Forall (fun e => hr_is_reader_ev e = true -> snd e = HEof) evs2.
Proof.
  intros cap ex ops1 o ops2 s1 evs1 s2 s3 evs2 H1 Ho H2 H3.
  destruct (hr_eof_drained _ _ _ Ho H2) as [D E]. subst s2.
  split.
  - pose proof (hr_stream_law _ _ _ _ _ H1) as L. destruct D as (_ & B & Q). rewrite B, Q in L. cbn in L.
    rewrite app_nil_r in L. exact L.
  - destruct (hr_done_run _ _ _ _ D H3) as (_ & A & L & R). auto.
Qed.

(* ------------------------------------------------------------------ draining *)
Lemma hr_measure_zero : forall s, hr_measure s = 0%nat -> hrbuf s = [] /\ hrq s = [].
Proof.
  intros s H. unfold hr_measure in H. destruct (hrbuf s); [|cbn in H; lia].
  destruct (hrq s); [auto|cbn in H; lia].
Qed.

Lemma hr_length_drop : forall n (l : bytes), length (drop n l) = (length l - N.to_nat n)%nat.
Proof. intros. unfold drop. apply skipn_length. Qed.

(* a Read with a non-empty buffer on a handle that holds something returns data (never an error,
   never blocks) and strictly reduces what is held *)
Lemma hr_read_progress : forall s n,
  0 < n -> (hr_measure s > 0)%nat ->
  exists s' b, hr_step s (HRead n) = (s', HData b) /\ (hr_measure s' < hr_measure s)%nat /\
               hrclosed s' = hrclosed s.
Proof.
  intros s n Hn Hm. destruct s as [q buf cl ex cap]. cbn [hr_step]. unfold hr_read, hr_measure in *.
  cbn [hrbuf hrq hrclosed] in *.
  destruct (0 <? len buf) eqn:Eb.
  - eexists _, _. split; [reflexivity|]. cbn [hr_set_buf hrbuf hrq hrclosed]. split; [|reflexivity].
    rewrite hr_length_drop. unfold len in Eb. lia.
  - apply hr_len_pos_false in Eb. subst buf. unfold hr_recv_seq. cbn [hrq].
    destruct q as [|m q']; [cbn in Hm; lia|].
    cbn [hr_set_q hrbuf hrq hrclosed hrexpired hrcap].
    destruct (N.min n (len m) =? len m) eqn:Ek.
    + eexists _, _. split; [reflexivity|]. cbn. split; [lia|reflexivity].
    + eexists _, _. split; [reflexivity|]. cbn [hr_set_buf hrbuf hrq hrclosed fold_right length app]. split; [|reflexivity].
      rewrite hr_length_drop. unfold len in *. cbn [hr_set_q hrq]. lia.
Qed.

(* a closed handle is drained by at most [hr_measure s] Reads (any non-empty buffer size): they all
   return data, together exactly the pending bytes in order, and the next Read reports io.EOF *)
Lemma hr_drain : forall n, 0 < n -> forall k s, hrclosed s = true -> (hr_measure s <= k)%nat ->
  exists j s' evs, (j <= k)%nat /\ hr_run s (hr_reads n j) = (s', evs) /\
    Forall (fun e => exists b, snd e = HData b) evs /\
    hr_delivered evs = hr_pending s /\ hr_accepted evs = [] /\
    hr_step s' (HRead n) = (s', HEof).
Proof.
  intros n Hn. induction k as [|k IH]; intros s C M.
  - assert (Z : hr_measure s = 0%nat) by lia. destruct (hr_measure_zero _ Z) as [B Q].
    exists 0%nat, s, []. repeat split; auto.
    + unfold hr_pending. rewrite B, Q. reflexivity.
    + destruct s as [q buf cl ex cap]. cbn in *. subst. reflexivity.
  - destruct (Nat.eq_dec (hr_measure s) 0) as [Z|NZ].
    + destruct (IH s C) as (j & s' & evs & J & R); [lia|]. exists j, s', evs. split; [lia|exact R].
    + destruct (hr_read_progress s n Hn) as (s1 & b & E1 & M1 & C1); [lia|].
      destruct (IH s1) as (j & s' & evs & J & R & F & D & A & E); [congruence|lia|].
      exists (S j), s', ((HRead n, HData b) :: evs). split; [lia|].
      split; [unfold hr_reads; cbn [repeat]; rewrite hr_run_cons, E1; fold (hr_reads n j); rewrite R; reflexivity|].
      split; [constructor; [eexists; reflexivity|exact F]|].
      split; [|split; [rewrite hr_accepted_cons, A; reflexivity|exact E]].
      rewrite hr_delivered_cons, D. pose proof (hr_step_stream _ _ _ _ E1) as S1. cbn [hr_ev_accepted hr_ev_delivered] in S1.
      rewrite app_nil_r in S1. symmetry. exact S1.
Qed.

(* ------------------------------------------------------------------ message law (ReadMsg-only readers) *)
Definition hr_msgs (s : hrstate) : list bytes := hr_bufmsg s ++ hrq s.

Lemma hr_step_msgs : forall s o s' r,
  hr_is_read_op o = false -> hr_step s o = (s', r) ->
  hr_msgs s ++ hr_ev_accepted_msg (o, r) = hr_ev_delivered_msg (o, r) ++ hr_msgs s'.
Proof.
  intros s o s' r Ho H. destruct s as [q buf cl ex cap]. unfold hr_msgs, hr_bufmsg.
  destruct o as [n|n|m| | |]; try discriminate; cbn [hr_step] in H.
  - unfold hr_readmsg in H. cbn [hrbuf hrq] in *.
    destruct (0 <? len buf) eqn:Eb.
    + destruct buf as [|b0 buf']; [cbn in Eb; discriminate|].
      destruct (n <? len (b0 :: buf')) eqn:En; inversion H; subst; clear H;
        cbn [hr_ev_accepted_msg hr_ev_delivered_msg hr_set_buf hrbuf hrq app]; rewrite app_nil_r; [reflexivity|].
      rewrite hr_take_all by lia. reflexivity.
    + apply hr_len_pos_false in Eb. subst buf. unfold hr_recv_seq in H. cbn [hrq hrclosed hrexpired] in H.
      destruct q as [|m q'].
      * destruct cl; [|destruct ex]; inversion H; subst; cbn; reflexivity.
      * cbn [hr_set_q hrbuf hrq hrclosed hrexpired hrcap] in H.
        destruct (len m <=? n) eqn:Ek; inversion H; subst; clear H;
          cbn [hr_ev_accepted_msg hr_ev_delivered_msg hr_set_buf hr_set_q hrbuf hrq hrclosed hrexpired hrcap app];
          rewrite app_nil_r; [reflexivity|].
        destruct m as [|m0 m']; [cbn in Ek; lia|]. reflexivity.
  - unfold hr_arrive in H. cbn [hrclosed hrq hrcap] in H.
    destruct cl; [inversion H; subst; cbn [hr_ev_accepted_msg hr_ev_delivered_msg hrbuf hrq app]; rewrite app_nil_r; reflexivity|].
    destruct (length q <? cap)%nat; inversion H; subst; clear H;
      cbn [hr_ev_accepted_msg hr_ev_delivered_msg hr_set_q hrbuf hrq app].
    + rewrite app_assoc. reflexivity.
    + rewrite app_nil_r. reflexivity.
  - inversion H; subst; cbn [hr_ev_accepted_msg hr_ev_delivered_msg hr_set_closed hrbuf hrq app]. rewrite app_nil_r. reflexivity.
  - unfold hr_setdl in H. cbn [hrclosed] in H. destruct cl; inversion H; subst;
      cbn [hr_ev_accepted_msg hr_ev_delivered_msg hr_set_expired hrbuf hrq app]; rewrite app_nil_r; reflexivity.
  - unfold hr_setdl in H. cbn [hrclosed] in H. destruct cl; inversion H; subst;
      cbn [hr_ev_accepted_msg hr_ev_delivered_msg hr_set_expired hrbuf hrq app]; rewrite app_nil_r; reflexivity.
Qed.

Lemma hr_run_msgs : forall ops s s' evs,
  forallb (fun o => negb (hr_is_read_op o)) ops = true ->
  hr_run s ops = (s', evs) ->
  hr_msgs s ++ hr_accepted_msgs evs = hr_delivered_msgs evs ++ hr_msgs s'.
Proof.
  induction ops as [|o r IH]; intros s s' evs F H.
  - cbn in H. inversion H; subst. cbn. rewrite app_nil_r. reflexivity.
  - cbn [forallb] in F. apply andb_true_iff in F. destruct F as [Fo Fr]. apply negb_true_iff in Fo.
    rewrite hr_run_cons in H. destruct (hr_step s o) as [s1 x] eqn:E1. destruct (hr_run s1 r) as [s2 evr] eqn:Er.
    inversion H; subst. unfold hr_accepted_msgs, hr_delivered_msgs in *. cbn [map List.concat].
    rewrite app_assoc, (hr_step_msgs _ _ _ _ Fo E1), <- app_assoc, (IH _ _ _ Fr Er), app_assoc. reflexivity.
Qed.

(* a connection read with ReadMsg only: the messages returned, then the one parked by an
   ErrBufOverflow (if any), then the queue, are exactly the accepted messages, whole and in order *)
Lemma hr_msg_law : forall cap ex ops s evs,
  forallb (fun o => negb (hr_is_read_op o)) ops = true ->
  hr_run (hrinit cap ex) ops = (s, evs) ->
  hr_delivered_msgs evs ++ hr_bufmsg s ++ hrq s = hr_accepted_msgs evs.
Proof. intros cap ex ops s evs F H. pose proof (hr_run_msgs _ _ _ _ F H) as L. cbn in L. symmetry. exact L. Qed.
