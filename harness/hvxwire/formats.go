// Package hvxwire holds what the c18 and c11 drivers share: one description per wire format
// (generator, real encoder/decoder calls, Coq printer, value equality, the representability
// limits written from the property text), byte-level mutators, and a fake net.Conn.
package hvxwire

import (
	"bytes"
	"encoding/hex"
	"fmt"
	"net"
	"strings"
	"time"

	"hop.computer/hop/authgrants"
	"hop.computer/hop/certs"
	"hop.computer/hop/codex"
	"hop.computer/hop/common"
	"hop.computer/hop/keys"
	"hop.computer/hop/portforwarding"
	"hop.computer/hop/tubes"
	"hop.computer/hop/userauth"
	"verifharness/hv"
)

type Value interface{}

// Format describes one wire format.
type Format struct {
	Name   string
	EncFn  string // Coq checker for (value, code, bytes)
	DecFn  string // Coq checker for (bytes, code, value, remaining [, extra])
	Gen    func(r *hv.Rand) Value
	Enc    func(v Value) ([]byte, bool)      // real encoder; ok=false: it returned an error / nil
	Dec    func(b []byte) (Value, int, bool) // real decoder on a stream holding b: value, bytes left unread, ok
	Coq    func(v Value) string
	Zero   func() Value
	Eq     func(a, b Value) bool        // value equality of C18 (scope decision 5)
	Repr   func(v Value) (bool, string) // representable per the property text (limits)
	Desc   func(v Value) string
	Trail  int                   // bytes a decoder legitimately leaves unread after one encoding (userauth: 2)
	DecArg func(b []byte) string // optional extra oracle argument for the Coq decoder checker
	// Prep, when set, does the harness-side setup for decoding b (e.g. building the tube that
	// holds b) and returns the call of the real decoder alone, so that allocation measurements
	// cover only the code under test.
	Prep func(b []byte) func() (Value, int, bool)
	// Must: boundary values every run includes whatever the seed; Corpus: fixed byte inputs
	// (malformed encodings and the regression inputs of the fixed defects).
	Must func() []Value
	// Sweep: a few representative valid values whose encodings the C11 driver uses for the
	// length-field sweep (every offset overwritten with 1-, 2- and 4-byte huge values).
	Sweep  func() []Value
	Corpus func() [][]byte
}

func hx(b []byte) string {
	if len(b) > 48 {
		return fmt.Sprintf("%s..(%dB)", hex.EncodeToString(b[:24]), len(b))
	}
	return hex.EncodeToString(b)
}

var lens255 = []int{0, 1, 2, 3, 17, 127, 128, 251, 252, 253, 254, 255, 256, 257, 300, 511, 512, 513, 767}

func fill(r *hv.Rand, n int) []byte {
	// arithmetic progressions print compactly on the Coq side (CoqBytes); short fields are
	// also filled with random bytes and with bytes that look like length prefixes
	if n >= 16 || r.Chance(40) {
		return PatternD(n, byte(r.U64()), hv.Pick(r, []byte{0, 1, 1, 7, 255, 3}))
	}
	b := make([]byte, n)
	switch r.Intn(3) {
	case 0:
		for i := range b {
			b[i] = byte(r.U64())
		}
	case 1:
		for i := range b {
			b[i] = hv.Pick(r, []byte{0, 1, 2, 3, 4, 5, 0xff, 0xfe, 0x80})
		}
	default:
		for i := range b {
			b[i] = byte(0x61 + r.Intn(26))
		}
	}
	return b
}

func smallLen(r *hv.Rand) int {
	if r.Chance(60) {
		return r.Intn(12)
	}
	return hv.Pick(r, lens255)
}

// ---------------------------------------------------------------- common.WriteString

var WString = &Format{
	Name: "wstring", EncFn: "c18_enc_wstring", DecFn: "c18_dec_wstring",
	Gen: func(r *hv.Rand) Value {
		n := hv.Pick(r, append([]int{65535, 65536}, lens255...))
		if r.Chance(30) {
			n = r.Intn(40)
		}
		return fill(r, n)
	},
	Enc: func(v Value) ([]byte, bool) {
		var w bytes.Buffer
		_, err := common.WriteString(string(v.([]byte)), &w)
		return w.Bytes(), err == nil
	},
	Dec: func(b []byte) (Value, int, bool) {
		rd := bytes.NewReader(b)
		s, _, err := common.ReadString(rd)
		return []byte(s), rd.Len(), err == nil
	},
	Coq:  func(v Value) string { return CoqBytes(v.([]byte)) },
	Zero: func() Value { return []byte{} },
	Eq:   func(a, b Value) bool { return bytes.Equal(a.([]byte), b.([]byte)) },
	Repr: func(v Value) (bool, string) {
		return len(v.([]byte)) <= 255, "one-byte length: at most 255 bytes"
	},
	Desc: func(v Value) string { return "string " + hx(v.([]byte)) },
}

// ---------------------------------------------------------------- certs.Name

func genName(r *hv.Rand) certs.Name {
	n := smallLen(r)
	t := certs.IDType(hv.Pick(r, []byte{0, 1, 2, 3, 4, 0x7f, 0xff}))
	nm := certs.Name{Label: fill(r, n), Type: t}
	if n == 0 && r.Bool() {
		nm.Label = nil
	}
	return nm
}
func coqName(n certs.Name) string {
	return hv.App("Nm", CoqBytes(n.Label), hv.N(uint64(n.Type)))
}
func eqName(a, b certs.Name) bool { return bytes.Equal(a.Label, b.Label) && a.Type == b.Type }
func reprName(n certs.Name) (bool, string) {
	return len(n.Label) <= 252, "label at most 252 bytes (block size byte = len+3 <= 255)"
}

var Name = &Format{
	Name: "name", EncFn: "c18_enc_name", DecFn: "c18_dec_name",
	Gen: func(r *hv.Rand) Value { return genName(r) },
	Enc: func(v Value) ([]byte, bool) {
		n := v.(certs.Name)
		var w bytes.Buffer
		_, err := n.WriteTo(&w)
		return w.Bytes(), err == nil
	},
	Dec: func(b []byte) (Value, int, bool) {
		rd := bytes.NewReader(b)
		var n certs.Name
		_, err := n.ReadFrom(rd)
		return n, rd.Len(), err == nil
	},
	Coq:  func(v Value) string { return coqName(v.(certs.Name)) },
	Zero: func() Value { return certs.Name{} },
	Eq:   func(a, b Value) bool { return eqName(a.(certs.Name), b.(certs.Name)) },
	Repr: func(v Value) (bool, string) { return reprName(v.(certs.Name)) },
	Desc: func(v Value) string {
		n := v.(certs.Name)
		return fmt.Sprintf("name type=%d label(%d)=%s", n.Type, len(n.Label), hx(n.Label))
	},
}

// ---------------------------------------------------------------- certs.IDChunk

func genChunk(r *hv.Rand) certs.IDChunk {
	var c certs.IDChunk
	switch r.Intn(6) {
	case 0: // empty
	case 1: // a few ordinary names
		for i, k := 0, 1+r.Intn(4); i < k; i++ {
			c.Blocks = append(c.Blocks, genName(r))
		}
	case 2: // body length exactly at / around the 510-byte limit
		target := hv.Pick(r, []int{505, 506, 507, 508, 509, 510, 511, 512, 513, 515, 600})
		left := target
		for left >= 3 {
			l := left - 3
			if l > 252 {
				l = hv.Pick(r, []int{252, 200, 100, 10, 0})
			}
			if left-3-l > 0 && left-3-l < 3 { // do not strand 1 or 2 bytes
				l -= 3
				if l < 0 {
					l = 0
				}
			}
			c.Blocks = append(c.Blocks, certs.Name{Label: fill(r, l), Type: certs.IDType(r.Intn(4))})
			left -= 3 + l
		}
	case 3: // many empty names: 170 -> 512, 171 -> 515
		for i, k := 0, hv.Pick(r, []int{169, 170, 171, 200}); i < k; i++ {
			c.Blocks = append(c.Blocks, certs.Name{Label: []byte{}, Type: certs.IDType(i % 4)})
		}
	case 4: // one over-long name among good ones
		c.Blocks = append(c.Blocks, genName(r), certs.Name{Label: fill(r, hv.Pick(r, []int{252, 253, 254, 255, 256, 300})), Type: 1}, genName(r))
	default:
		for i, k := 0, r.Intn(3); i < k; i++ {
			c.Blocks = append(c.Blocks, certs.Name{Label: fill(r, hv.Pick(r, []int{0, 1, 100, 250, 251, 252})), Type: 1})
		}
	}
	return c
}
func coqChunk(c certs.IDChunk) string {
	if len(c.Blocks) == 0 {
		return "(@nil name)"
	}
	xs := make([]string, len(c.Blocks))
	for i, n := range c.Blocks {
		xs[i] = coqName(n)
	}
	return hv.List(xs)
}
func eqChunk(a, b certs.IDChunk) bool {
	if len(a.Blocks) != len(b.Blocks) {
		return false
	}
	for i := range a.Blocks {
		if !eqName(a.Blocks[i], b.Blocks[i]) {
			return false
		}
	}
	return true
}
func reprChunk(c certs.IDChunk) (bool, string) {
	total := 2
	for _, n := range c.Blocks {
		if ok, why := reprName(n); !ok {
			return false, why
		}
		total += 3 + len(n.Label)
	}
	return total <= 512, "id chunk at most 512 bytes"
}
func descChunk(c certs.IDChunk) string {
	var sb strings.Builder
	fmt.Fprintf(&sb, "chunk[%d]:", len(c.Blocks))
	for i, n := range c.Blocks {
		if i >= 6 {
			sb.WriteString(" ...")
			break
		}
		fmt.Fprintf(&sb, " (t%d,%dB)", n.Type, len(n.Label))
	}
	return sb.String()
}

var Chunk = &Format{
	Name: "chunk", EncFn: "c18_enc_chunk", DecFn: "c18_dec_chunk",
	Gen: func(r *hv.Rand) Value { return genChunk(r) },
	Enc: func(v Value) ([]byte, bool) {
		c := v.(certs.IDChunk)
		var w bytes.Buffer
		_, err := c.WriteTo(&w)
		return w.Bytes(), err == nil
	},
	Dec: func(b []byte) (Value, int, bool) {
		rd := bytes.NewReader(b)
		var c certs.IDChunk
		_, err := c.ReadFrom(rd)
		return c, rd.Len(), err == nil
	},
	Coq:  func(v Value) string { return coqChunk(v.(certs.IDChunk)) },
	Zero: func() Value { return certs.IDChunk{} },
	Eq:   func(a, b Value) bool { return eqChunk(a.(certs.IDChunk), b.(certs.IDChunk)) },
	Repr: func(v Value) (bool, string) { return reprChunk(v.(certs.IDChunk)) },
	Desc: func(v Value) string { return descChunk(v.(certs.IDChunk)) },
}

// ---------------------------------------------------------------- certs.Certificate

// MaxUnixTime is the largest Unix time a time.Time holds without wrapping its internal counter;
// larger values are times.Time values that compare as lying in the distant past (pre-1970 in
// time.Time's own order) and are outside the property (scope decision C18-5).
const MaxUnixTime = int64(^uint64(0)>>1) - 62135596800

var certTimes = []int64{0, 1, 2, 1700000000, 1<<31 - 1, 1 << 31, 1<<32 - 1, 1 << 32, 1 << 40, 1<<56 + 7, MaxUnixTime - 1, MaxUnixTime}

func genCert(r *hv.Rand) certs.Certificate {
	var c certs.Certificate
	c.Version = hv.Pick(r, []byte{0, 1, 2, 0xff})
	c.Type = certs.CertificateType(hv.Pick(r, []byte{0, 1, 2, 3, 4, 0xff}))
	c.IssuedAt = time.Unix(hv.Pick(r, certTimes), int64(r.Intn(2))*999)
	c.ExpiresAt = time.Unix(hv.Pick(r, certTimes), 0)
	if r.Chance(50) {
		c.IDChunk = genChunk(r)
	} else if r.Chance(70) {
		c.IDChunk = certs.IDChunk{Blocks: []certs.Name{certs.DNSName("host.example")}}
	}
	copy(c.PublicKey[:], PatternD(32, byte(r.U64()), byte(1+r.Intn(9))))
	copy(c.Parent[:], PatternD(32, byte(r.U64()), byte(1+r.Intn(9))))
	copy(c.Signature[:], PatternD(64, byte(r.U64()), byte(1+r.Intn(9))))
	if r.Chance(10) {
		c.Parent = [32]byte{}
	}
	return c
}
func coqCert(c *certs.Certificate) string {
	return hv.App("Ct", hv.N(uint64(c.Version)), hv.N(uint64(c.Type)), hv.N(uint64(c.IssuedAt.Unix())), hv.N(uint64(c.ExpiresAt.Unix())),
		coqChunk(c.IDChunk), CoqBytes(c.PublicKey[:]), CoqBytes(c.Parent[:]), CoqBytes(c.Signature[:]))
}
func eqCert(a, b *certs.Certificate) bool {
	return a.Version == b.Version && a.Type == b.Type && a.IssuedAt.Unix() == b.IssuedAt.Unix() && a.ExpiresAt.Unix() == b.ExpiresAt.Unix() &&
		eqChunk(a.IDChunk, b.IDChunk) && a.PublicKey == b.PublicKey && a.Parent == b.Parent && a.Signature == b.Signature
}
func descCert(c *certs.Certificate) string {
	return fmt.Sprintf("cert v%d t%d iss=%d exp=%d %s pk=%s", c.Version, c.Type, c.IssuedAt.Unix(), c.ExpiresAt.Unix(), descChunk(c.IDChunk), hx(c.PublicKey[:4]))
}

// certificates are handled by pointer (they embed a bytes.Buffer)
var Cert = &Format{
	Name: "cert", EncFn: "c18_enc_cert", DecFn: "c18_dec_cert",
	Gen: func(r *hv.Rand) Value { c := genCert(r); return &c },
	Enc: func(v Value) ([]byte, bool) {
		var w bytes.Buffer
		_, err := v.(*certs.Certificate).WriteTo(&w)
		return w.Bytes(), err == nil
	},
	Dec: func(b []byte) (Value, int, bool) {
		rd := bytes.NewReader(b)
		c := new(certs.Certificate)
		_, err := c.ReadFrom(rd)
		return c, rd.Len(), err == nil
	},
	Coq: func(v Value) string { return coqCert(v.(*certs.Certificate)) },
	Zero: func() Value {
		c := new(certs.Certificate)
		c.IssuedAt = time.Unix(0, 0)
		c.ExpiresAt = time.Unix(0, 0)
		return c
	},
	Eq:   func(a, b Value) bool { return eqCert(a.(*certs.Certificate), b.(*certs.Certificate)) },
	Repr: func(v Value) (bool, string) { return reprChunk(v.(*certs.Certificate).IDChunk) },
	Desc: func(v Value) string { return descCert(v.(*certs.Certificate)) },
}

// ---------------------------------------------------------------- authgrants.Intent / AgMessage

var intentTimes = []int64{0, 1, 1700000000, 1<<32 - 1, 1 << 32, 1 << 62, 1<<63 - 2, 1<<63 - 1}

func genIntent(r *hv.Rand) *authgrants.Intent {
	i := new(authgrants.Intent)
	if r.Chance(70) {
		i.GrantType = authgrants.GrantType(1 + r.Intn(5))
	} else {
		i.GrantType = authgrants.GrantType(r.Intn(256))
	}
	i.Reserved = hv.Pick(r, []byte{0, 0, 1, 0xff})
	i.TargetPort = hv.Pick(r, []uint16{0, 1, 22, 77, 255, 256, 65535})
	i.StartTime = time.Unix(hv.Pick(r, intentTimes), 0)
	i.ExpTime = time.Unix(hv.Pick(r, intentTimes), 0)
	if r.Chance(80) {
		i.TargetSNI = certs.DNSName(hv.Pick(r, []string{"target.example", "t", "", "10.0.0.1"}))
	} else {
		i.TargetSNI = genName(r)
	}
	ulen := hv.Pick(r, []int{0, 1, 4, 8, 32, 254, 255, 256, 257, 300})
	i.TargetUsername = string(fill(r, ulen))
	if r.Chance(25) {
		i.DelegateCert = genCert(r)
	} else {
		c := genCert(r)
		c.IDChunk = certs.IDChunk{Blocks: []certs.Name{certs.RawStringName("delegate")}}
		i.DelegateCert = c
	}
	clen := hv.Pick(r, []int{0, 1, 2, 20, 254, 255, 256, 257, 300, 512})
	i.AssociatedData.CommandGrantData.Cmd = string(fill(r, clen))
	return i
}
func coqIntent(i *authgrants.Intent) string {
	return hv.App("It", hv.N(uint64(i.GrantType)), hv.N(uint64(i.Reserved)), hv.N(uint64(i.TargetPort)),
		hv.N(uint64(i.StartTime.Unix())), hv.N(uint64(i.ExpTime.Unix())), coqName(i.TargetSNI), CoqStr(i.TargetUsername),
		coqCert(&i.DelegateCert), CoqStr(i.AssociatedData.CommandGrantData.Cmd))
}

// value equality: the command is part of the value only for grant type Command
func eqIntent(a, b *authgrants.Intent) bool {
	if a.GrantType != b.GrantType || a.Reserved != b.Reserved || a.TargetPort != b.TargetPort ||
		a.StartTime.Unix() != b.StartTime.Unix() || a.ExpTime.Unix() != b.ExpTime.Unix() ||
		!eqName(a.TargetSNI, b.TargetSNI) || a.TargetUsername != b.TargetUsername || !eqCert(&a.DelegateCert, &b.DelegateCert) {
		return false
	}
	if a.GrantType == authgrants.Command {
		return a.AssociatedData.CommandGrantData.Cmd == b.AssociatedData.CommandGrantData.Cmd
	}
	return true
}
func reprIntent(i *authgrants.Intent) (bool, string) {
	if ok, why := reprName(i.TargetSNI); !ok {
		return false, why
	}
	if len(i.TargetUsername) > 255 {
		return false, "user name at most 255 bytes"
	}
	if ok, why := reprChunk(i.DelegateCert.IDChunk); !ok {
		return false, why
	}
	if i.GrantType == authgrants.LocalPF || i.GrantType == authgrants.RemotePF {
		return false, "grant types 3/4 have no wire form"
	}
	if i.GrantType == authgrants.Command && len(i.AssociatedData.CommandGrantData.Cmd) > 255 {
		return false, "command at most 255 bytes"
	}
	return true, ""
}
func descIntent(i *authgrants.Intent) string {
	return fmt.Sprintf("intent gt=%d rsv=%d port=%d start=%d exp=%d sni=(t%d,%dB) user=%dB cmd=%dB %s", i.GrantType, i.Reserved, i.TargetPort,
		i.StartTime.Unix(), i.ExpTime.Unix(), i.TargetSNI.Type, len(i.TargetSNI.Label), len(i.TargetUsername), len(i.AssociatedData.CommandGrantData.Cmd), descCert(&i.DelegateCert))
}
func zeroIntent() *authgrants.Intent {
	i := new(authgrants.Intent)
	i.StartTime, i.ExpTime = time.Unix(0, 0), time.Unix(0, 0)
	i.DelegateCert.IssuedAt, i.DelegateCert.ExpiresAt = time.Unix(0, 0), time.Unix(0, 0)
	return i
}

var Intent = &Format{
	Name: "intent", EncFn: "c18_enc_intent", DecFn: "c18_dec_intent",
	Gen: func(r *hv.Rand) Value { return genIntent(r) },
	Enc: func(v Value) ([]byte, bool) {
		var w bytes.Buffer
		_, err := v.(*authgrants.Intent).WriteTo(&w)
		return w.Bytes(), err == nil
	},
	Dec: func(b []byte) (Value, int, bool) {
		rd := bytes.NewReader(b)
		i := new(authgrants.Intent)
		_, err := i.ReadFrom(rd)
		return i, rd.Len(), err == nil
	},
	Coq:  func(v Value) string { return coqIntent(v.(*authgrants.Intent)) },
	Zero: func() Value { return zeroIntent() },
	Eq:   func(a, b Value) bool { return eqIntent(a.(*authgrants.Intent), b.(*authgrants.Intent)) },
	Repr: func(v Value) (bool, string) { return reprIntent(v.(*authgrants.Intent)) },
	Desc: func(v Value) string { return descIntent(v.(*authgrants.Intent)) },
}

func coqAg(m *authgrants.AgMessage) string {
	i := &m.Data.Intent
	if m.MsgType != authgrants.IntentRequest && m.MsgType != authgrants.IntentCommunication {
		return hv.App("Ag", hv.N(uint64(m.MsgType)), "zero_intent", CoqStr(m.Data.Denial))
	}
	return hv.App("Ag", hv.N(uint64(m.MsgType)), coqIntent(i), CoqStr(m.Data.Denial))
}
func agHasIntent(m *authgrants.AgMessage) bool {
	return m.MsgType == authgrants.IntentRequest || m.MsgType == authgrants.IntentCommunication
}
func eqAg(a, b *authgrants.AgMessage) bool {
	if a.MsgType != b.MsgType {
		return false
	}
	if agHasIntent(a) {
		return eqIntent(&a.Data.Intent, &b.Data.Intent)
	}
	if a.MsgType == authgrants.IntentDenied {
		return a.Data.Denial == b.Data.Denial
	}
	return true
}

var Ag = &Format{
	Name: "agmsg", EncFn: "c18_enc_ag", DecFn: "c18_dec_ag",
	Gen: func(r *hv.Rand) Value {
		m := new(authgrants.AgMessage)
		m.Data.Intent = *zeroIntent()
		var t byte
		if r.Chance(75) {
			t = byte(1 + r.Intn(4))
		} else {
			t = byte(r.Intn(256))
		}
		SetAgType(m, t)
		if agHasIntent(m) {
			m.Data.Intent = *genIntent(r)
		}
		if t == 4 || r.Chance(20) {
			m.Data.Denial = string(fill(r, hv.Pick(r, []int{0, 1, 20, 254, 255, 256, 300})))
		}
		return m
	},
	Enc: func(v Value) ([]byte, bool) {
		var w bytes.Buffer
		_, err := v.(*authgrants.AgMessage).WriteTo(&w)
		return w.Bytes(), err == nil
	},
	Dec: func(b []byte) (Value, int, bool) {
		rd := bytes.NewReader(b)
		m := new(authgrants.AgMessage)
		m.Data.Intent = *zeroIntent()
		_, err := m.ReadFrom(rd)
		return m, rd.Len(), err == nil
	},
	Coq: func(v Value) string { return coqAg(v.(*authgrants.AgMessage)) },
	Zero: func() Value {
		m := new(authgrants.AgMessage)
		m.Data.Intent = *zeroIntent()
		return m
	},
	Eq: func(a, b Value) bool { return eqAg(a.(*authgrants.AgMessage), b.(*authgrants.AgMessage)) },
	Repr: func(v Value) (bool, string) {
		m := v.(*authgrants.AgMessage)
		if agHasIntent(m) {
			return reprIntent(&m.Data.Intent)
		}
		if m.MsgType == authgrants.IntentDenied && len(m.Data.Denial) > 255 {
			return false, "denial reason at most 255 bytes"
		}
		return true, ""
	},
	Desc: func(v Value) string {
		m := v.(*authgrants.AgMessage)
		if agHasIntent(m) {
			return fmt.Sprintf("agmsg type=%d %s", m.MsgType, descIntent(&m.Data.Intent))
		}
		return fmt.Sprintf("agmsg type=%d denial=%dB", m.MsgType, len(m.Data.Denial))
	},
}

// SetAgType sets MsgType (an unexported byte type, so no literal of it can be written here)
// by counting up from the zero value.
func SetAgType(m *authgrants.AgMessage, t byte) {
	m.MsgType = authgrants.IntentRequest - authgrants.IntentRequest
	for i := 0; i < int(t); i++ {
		m.MsgType++
	}
}

// ReadConfOrDenial (decoder only; same value type as Ag)
var ConfDen = &Format{
	Name: "confden", DecFn: "c18_dec_confden",
	Dec: func(b []byte) (Value, int, bool) {
		rd := bytes.NewReader(b)
		m, err := authgrants.ReadConfOrDenial(rd)
		mm := m
		if !agHasIntent(&mm) {
			mm.Data.Intent = *zeroIntent()
		}
		return &mm, rd.Len(), err == nil
	},
	Coq:  Ag.Coq,
	Zero: Ag.Zero,
	Eq:   Ag.Eq,
	Desc: Ag.Desc,
}

// ---------------------------------------------------------------- proxy response

type ProxyResp struct {
	Conf   bool
	Reason string
}

var Proxy = &Format{
	Name: "proxyresp", EncFn: "c18_enc_proxy", DecFn: "c18_dec_proxy",
	Gen: func(r *hv.Rand) Value {
		if r.Chance(20) {
			return ProxyResp{Conf: true}
		}
		return ProxyResp{Reason: string(fill(r, hv.Pick(r, []int{0, 1, 30, 254, 255, 256, 300, 1000})))}
	},
	Enc: func(v Value) ([]byte, bool) {
		p := v.(ProxyResp)
		var w bytes.Buffer
		var err error
		if p.Conf {
			err = authgrants.WriteConfirmation(&w)
		} else {
			err = authgrants.WriteFailure(&w, p.Reason)
		}
		return w.Bytes(), err == nil
	},
	// ReadResponse returns nil for a confirmation and an error carrying the reason otherwise;
	// a read failure is also an error: tell them apart by the bytes left (the harness cannot
	// see inside the error), so the decoded value is taken from a second parse by hand.
	Dec: func(b []byte) (Value, int, bool) {
		rd := bytes.NewReader(b)
		err := authgrants.ReadResponse(rd)
		if err == nil {
			return ProxyResp{Conf: true}, rd.Len(), true
		}
		// failure message or read error: ReadResponse's error text is the reason when the
		// message was complete
		if len(b) >= 2 && b[0] != 1 && len(b) >= 2+int(b[1]) {
			return ProxyResp{Reason: err.Error()}, rd.Len(), true
		}
		return ProxyResp{}, rd.Len(), false
	},
	Coq: func(v Value) string {
		p := v.(ProxyResp)
		if p.Conf {
			return "None"
		}
		return hv.Some(CoqStr(p.Reason))
	},
	Zero: func() Value { return ProxyResp{Conf: true} },
	// WriteFailure cuts the diagnostic to 255 bytes by design: equality is on the first 255 bytes
	Eq: func(a, b Value) bool {
		x, y := a.(ProxyResp), b.(ProxyResp)
		cut := func(s string) string {
			if len(s) > 255 {
				return s[:255]
			}
			return s
		}
		return x.Conf == y.Conf && cut(x.Reason) == cut(y.Reason)
	},
	Repr: func(v Value) (bool, string) { return true, "" },
	Desc: func(v Value) string {
		p := v.(ProxyResp)
		return fmt.Sprintf("proxyresp conf=%v reason=%dB", p.Conf, len(p.Reason))
	},
}

// ---------------------------------------------------------------- codex exec request

type ExecMsg struct {
	Pty        bool
	Cmd, Term  string
	HasSize    bool
	R, C, X, Y uint16
}

type FakeConn struct{ *bytes.Reader }

func (FakeConn) Write(b []byte) (int, error)        { return len(b), nil }
func (FakeConn) Close() error                       { return nil }
func (FakeConn) LocalAddr() net.Addr                { return &net.IPAddr{} }
func (FakeConn) RemoteAddr() net.Addr               { return &net.IPAddr{} }
func (FakeConn) SetDeadline(t time.Time) error      { return nil }
func (FakeConn) SetReadDeadline(t time.Time) error  { return nil }
func (FakeConn) SetWriteDeadline(t time.Time) error { return nil }

func coqExec(e ExecMsg) string {
	sz := "None"
	if e.HasSize {
		sz = hv.Some(hv.App("Ws", hv.N(uint64(e.R)), hv.N(uint64(e.C)), hv.N(uint64(e.X)), hv.N(uint64(e.Y))))
	}
	return hv.App("Ex", hv.B(e.Pty), CoqStr(e.Cmd), CoqStr(e.Term), sz)
}

var Exec = &Format{
	Name: "exec", EncFn: "c18_enc_exec", DecFn: "c18_dec_exec",
	Gen: func(r *hv.Rand) Value {
		e := ExecMsg{Pty: r.Bool(), HasSize: r.Bool()}
		e.Cmd = string(fill(r, hv.Pick(r, []int{0, 0, 1, 2, 10, 255, 256, 257, 1000, 65535, 65536, 70001})))
		e.Term = string(fill(r, hv.Pick(r, []int{0, 1, 5, 14, 255, 256, 65536})))
		if len(e.Cmd) > 1000 && len(e.Term) > 1000 {
			e.Term = "xterm"
		}
		if e.HasSize {
			e.R, e.C, e.X, e.Y = hv.Pick(r, []uint16{0, 1, 24, 255, 256, 65535}), hv.Pick(r, []uint16{0, 80, 65535}), uint16(r.Intn(65536)), uint16(r.Intn(65536))
		}
		return e
	},
	Enc: func(v Value) ([]byte, bool) {
		e := v.(ExecMsg)
		return codex.VerifWireExecInitBytes(e.Pty, e.Cmd, e.Term, e.HasSize, e.R, e.C, e.X, e.Y), true
	},
	Dec: func(b []byte) (Value, int, bool) {
		rd := bytes.NewReader(b)
		cmd, term, pty, size, err := codex.GetCmd(FakeConn{rd})
		e := ExecMsg{Pty: pty, Cmd: cmd, Term: term}
		if size != nil {
			e.HasSize, e.R, e.C, e.X, e.Y = true, size.Rows, size.Cols, size.X, size.Y
		}
		return e, rd.Len(), err == nil
	},
	Coq:  func(v Value) string { return coqExec(v.(ExecMsg)) },
	Zero: func() Value { return ExecMsg{} },
	Eq: func(a, b Value) bool {
		x, y := a.(ExecMsg), b.(ExecMsg)
		if !x.HasSize {
			x.R, x.C, x.X, x.Y = 0, 0, 0, 0
		}
		if !y.HasSize {
			y.R, y.C, y.X, y.Y = 0, 0, 0, 0
		}
		return x == y
	},
	Repr: func(v Value) (bool, string) { return true, "" }, // 32-bit lengths: nothing a test can build is unrepresentable
	Desc: func(v Value) string {
		e := v.(ExecMsg)
		return fmt.Sprintf("exec pty=%v cmd=%dB term=%dB size=%v(%d,%d,%d,%d)", e.Pty, len(e.Cmd), len(e.Term), e.HasSize, e.R, e.C, e.X, e.Y)
	},
}

// ---------------------------------------------------------------- userauth

func userAuthPrep(b []byte) func() (Value, int, bool) {
	t := tubes.VerifWirePreloadedReliable(b)
	return func() (Value, int, bool) {
		s := userauth.GetInitMsg(t)
		return []byte(s), tubes.VerifWireUnread(t), true
	}
}

var UserAuth = &Format{
	Name: "userauth", EncFn: "c18_enc_userauth", DecFn: "c18_dec_userauth", Trail: 2,
	Gen: func(r *hv.Rand) Value {
		n := hv.Pick(r, []int{0, 1, 2, 4, 8, 31, 32, 255, 256, 257, 1000, 65534, 65535, 65536, 65537, 65540, 70000, 131072 + 5})
		if r.Chance(40) {
			n = 1 + r.Intn(16)
		}
		return fill(r, n)
	},
	Enc: func(v Value) ([]byte, bool) {
		b := userauth.VerifWireInitMsgBytes(string(v.([]byte)))
		return b, b != nil
	},
	Dec:  func(b []byte) (Value, int, bool) { return userAuthPrep(b)() },
	Prep: userAuthPrep,
	Coq:  func(v Value) string { return CoqBytes(v.([]byte)) },
	Zero: func() Value { return []byte{} },
	Eq:   func(a, b Value) bool { return bytes.Equal(a.([]byte), b.([]byte)) },
	Repr: func(v Value) (bool, string) {
		return len(v.([]byte)) <= 65535, "user name at most 65535 bytes (16-bit length)"
	},
	Desc: func(v Value) string { return "user " + hx(v.([]byte)) },
}

// ---------------------------------------------------------------- port-forward request

type PfReq struct {
	Net  int    // 1 tcp, 2 udp, 3 unix, 0 = an address type toBytes does not know
	Fwd  int    // forwarding type as passed by the caller (a Go int)
	Addr string // the address string on the wire
	addr net.Addr
}

func mkPf(netw int, fwd int, host string, port int, path string) PfReq {
	switch netw {
	case 1:
		a := &net.TCPAddr{IP: net.ParseIP(host), Port: port}
		return PfReq{Net: 1, Fwd: fwd, Addr: net.JoinHostPort(a.IP.String(), fmt.Sprint(port)), addr: a}
	case 2:
		a := &net.UDPAddr{IP: net.ParseIP(host), Port: port}
		return PfReq{Net: 2, Fwd: fwd, Addr: net.JoinHostPort(a.IP.String(), fmt.Sprint(port)), addr: a}
	case 3:
		return PfReq{Net: 3, Fwd: fwd, Addr: path, addr: &net.UnixAddr{Name: path, Net: "unix"}}
	}
	return PfReq{Net: 0, Fwd: fwd, Addr: "", addr: &net.IPAddr{IP: net.ParseIP("127.0.0.1")}}
}

func coqPf(p PfReq) string {
	return hv.App("Pf", hv.Ni(p.Net), hv.Z(int64(p.Fwd)), CoqStr(p.Addr))
}

// SplitOK is the oracle input of the port-forward decoder model: does net.SplitHostPort accept
// the address string carried by b (nothing else about host/port parsing is modelled).
func SplitOK(b []byte) bool {
	if len(b) < 4 {
		return false
	}
	n := int(b[2])<<8 | int(b[3])
	if len(b) < 4+n {
		return false
	}
	_, _, err := net.SplitHostPort(string(b[4 : 4+n]))
	return err == nil
}

var Pf = &Format{
	Name: "pf", EncFn: "c18_enc_pf", DecFn: "c18_dec_pf",
	Gen: func(r *hv.Rand) Value {
		fwd := hv.Pick(r, []int{4, 5, 4, 5, 0, 1, 255, 256, 260, -1, 1 << 20})
		switch r.Intn(5) {
		case 0:
			return mkPf(1, fwd, hv.Pick(r, []string{"127.0.0.1", "::1", "10.1.2.3", "fe80::1", ""}), hv.Pick(r, []int{0, 22, 8080, 65535}), "")
		case 1:
			return mkPf(2, fwd, hv.Pick(r, []string{"127.0.0.1", "::1", "192.168.0.9"}), hv.Pick(r, []int{53, 65535}), "")
		case 2:
			return mkPf(0, fwd, "", 0, "")
		default:
			n := hv.Pick(r, []int{0, 1, 9, 107, 108, 255, 256, 65534, 65535, 65536, 65537, 65545, 70000})
			return mkPf(3, fwd, "", 0, string(fill(r, n)))
		}
	},
	Enc: func(v Value) ([]byte, bool) {
		p := v.(PfReq)
		b := portforwarding.VerifWireToBytes(p.addr, p.Fwd)
		return b, b != nil
	},
	Dec: func(b []byte) (Value, int, bool) {
		rd := bytes.NewReader(b)
		a, fwd, err := portforwarding.VerifWireReadPacket(rd)
		if err != nil {
			return PfReq{}, rd.Len(), false
		}
		p := PfReq{Fwd: int(fwd), addr: a}
		// the address string on the wire is what the model carries
		n := int(b[2])<<8 | int(b[3])
		p.Addr = string(b[4 : 4+n])
		switch a.(type) {
		case *net.TCPAddr:
			p.Net = 1
		case *net.UDPAddr:
			p.Net = 2
		case *net.UnixAddr:
			p.Net = 3
			p.Addr = a.(*net.UnixAddr).Name
		}
		return p, rd.Len(), true
	},
	DecArg: func(b []byte) string { return hv.B(SplitOK(b)) },
	Coq:    func(v Value) string { return coqPf(v.(PfReq)) },
	Zero:   func() Value { return PfReq{Net: 3} },
	Eq: func(a, b Value) bool {
		x, y := a.(PfReq), b.(PfReq)
		if x.Net != y.Net || x.Fwd != y.Fwd {
			return false
		}
		if x.Net == 3 {
			return x.Addr == y.Addr
		}
		// tcp/udp: compare what the application sees, the parsed address
		return x.addr.String() == y.addr.String()
	},
	Repr: func(v Value) (bool, string) {
		p := v.(PfReq)
		if p.Net == 0 {
			return false, "unknown address type"
		}
		if len(p.Addr) > 65535 {
			return false, "address at most 65535 bytes (16-bit length)"
		}
		if p.Fwd < 0 || p.Fwd > 255 {
			return false, "forwarding type is one byte"
		}
		return true, ""
	},
	Desc: func(v Value) string {
		p := v.(PfReq)
		return fmt.Sprintf("pf net=%d fwd=%d addr(%d)=%s", p.Net, p.Fwd, len(p.Addr), hx([]byte(p.Addr)))
	},
}

// All stream formats, in the order the drivers run them.
var All = []*Format{WString, Name, Chunk, Cert, Intent, Ag, Proxy, Exec, UserAuth, Pf}

// ---------------------------------------------------------------- key text forms (Go side only)

// KeyTextRoundTrip checks ParseDHPublicKey(String(k)) == k and the KEM analogue; base64 is
// outside the Coq model.
func KeyTextRoundTrip(r *hv.Rand) (ok bool, what string) {
	var k keys.DHPublicKey
	copy(k[:], r.Bytes(32))
	s := k.String()
	back, err := keys.ParseDHPublicKey(s)
	if err != nil || *back != k {
		return false, "DH public key text form does not round-trip: " + s
	}
	if again := back.String(); again != s {
		return false, "DH public key text form not stable: " + s
	}
	kp, err := keys.GenerateKEMKeyPair(bytes.NewReader(r.Bytes(64)))
	if err != nil {
		return false, "cannot generate a KEM key pair"
	}
	ks := keys.KEMPublicKeyToString(&kp.Public)
	kback, err := keys.ParseKEMPublicKey(ks)
	if err != nil {
		return false, "KEM public key text form does not parse: " + err.Error()
	}
	if keys.KEMPublicKeyToString(kback) != ks {
		return false, "KEM public key text form does not round-trip"
	}
	// rejecting branches: wrong prefix, wrong length, bad base64
	if _, err := keys.ParseDHPublicKey("hop-dh-v2-" + s[len(keys.DHPublicKeyPrefix):]); err == nil {
		return false, "DH key with a wrong prefix accepted"
	}
	if _, err := keys.ParseDHPublicKey(s[:len(s)-4]); err == nil {
		return false, "truncated DH key text accepted"
	}
	if _, err := keys.ParseKEMPublicKey(ks[:len(ks)-4]); err == nil {
		return false, "truncated KEM key text accepted"
	}
	return true, ""
}
