//go:build verif

package certs

import (
	"time"

	"hop.computer/hop/keys"
)

// White-box accessors for the C04 correspondence driver (mapped into the package by
// `go build -overlay`; nothing here is part of /repo). Only functions without an exported route:
// certificate bytes are built by the driver's own serializer, parsed with the exported ReadFrom and
// obtained with the exported Marshal, so no unexported field is touched.

// VerifIssue calls the unexported issue with a chosen type, time and duration.
func VerifIssue(parent *Certificate, child *Identity, certType CertificateType, issuedAt time.Time, duration time.Duration) (*Certificate, error) {
	return issue(parent, child, certType, issuedAt, duration)
}

// VerifSelfSign calls the unexported selfSign with a chosen type.
func VerifSelfSign(self *Identity, certType CertificateType, keyPair *keys.SigningKeyPair) (*Certificate, error) {
	return selfSign(self, certType, keyPair)
}
