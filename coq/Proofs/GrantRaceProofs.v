(* GrantRaceProofs.v — proofs about Model/GrantRace.v: with actionsLock every schedule of N
   concurrent checkCmd calls is a sequential run of check_cmd in lock-acquisition order
   (invariant over all reachable states), hence single use, no panic, no deadlock. *)
From Hop Require Import Base Authz ConcBase ConcUtil GrantRace.
From Coq Require Import Lia Arith Permutation.
Local Open Scope nat_scope.

Definition nohit (q : req) (g : grant) : Prop := hit q g = false.
Definition cc (q : req) := check_cmd (r_now q) (r_cmd q) (r_shell q).

Lemma cc_cons q g r :
  cc q (g :: r) = if hit q g then Some (g, r)
                  else match cc q r with Some (g', r') => Some (g', g :: r') | None => None end.
Proof. reflexivity. Qed.

Lemma cc_app q pre rest : Forall (nohit q) pre ->
  cc q (pre ++ rest) = match cc q rest with Some (g, r') => Some (g, pre ++ r') | None => None end.
Proof.
  induction 1 as [|g pre Hg Hpre IH]; cbn [app].
  - destruct (cc q rest) as [[g r']|]; reflexivity.
  - rewrite cc_cons, Hg, IH. destruct (cc q rest) as [[g' r']|]; reflexivity.
Qed.

Lemma cc_none_all q l : Forall (nohit q) l -> cc q l = None.
Proof. intros H. rewrite <- (app_nil_r l). rewrite cc_app by assumption. reflexivity. Qed.

Lemma cc_some_perm q l g r : cc q l = Some (g, r) ->
  Permutation l (g :: r) /\ hit q g = true /\ length l = S (length r).
Proof.
  revert g r; induction l as [|a l IH]; intros g r H.
  - discriminate.
  - rewrite cc_cons in H. destruct (hit q a) eqn:Ha.
    + inversion H; subst. auto.
    + destruct (cc q l) as [[g' r']|] eqn:E; try discriminate. inversion H; subst.
      destruct (IH _ _ eq_refl) as (P & Hh & Hl). split; [|split]; auto.
      * eapply perm_trans; [apply perm_skip, P | apply perm_swap].
      * simpl. lia.
Qed.

Lemma cc_none_nohit q l : cc q l = None -> Forall (nohit q) l.
Proof.
  induction l as [|a l IH]; intros H; constructor.
  - rewrite cc_cons in H. unfold nohit. destruct (hit q a); [discriminate|reflexivity].
  - apply IH. rewrite cc_cons in H. destruct (hit q a); [discriminate|].
    destruct (cc q l) as [[? ?]|]; [discriminate|reflexivity].
Qed.

(* ---- the backing array ---- *)
Definition cells (k : nat) (l : list grant) : list (option grant) :=
  map Some l ++ repeat None (k - length l).

Lemma firstn_len_app {A} (l1 l2 : list A) : firstn (length l1) (l1 ++ l2) = l1.
Proof. induction l1; simpl; congruence. Qed.
Lemma skipn_len_app {A} (l1 l2 : list A) : skipn (length l1) (l1 ++ l2) = l2.
Proof. induction l1; simpl; congruence. Qed.

Lemma del_at_gen (p : list (option grant)) c r t :
  del_at (length p) (length p + 1 + length r) (p ++ c :: r ++ t) = p ++ r ++ None :: t.
Proof.
  unfold del_at. rewrite firstn_len_app. f_equal.
  replace (skipn (S (length p)) (p ++ c :: r ++ t)) with (r ++ t).
  2:{ replace (p ++ c :: r ++ t) with ((p ++ [c]) ++ r ++ t) by (rewrite <- app_assoc; reflexivity).
      replace (S (length p)) with (length (p ++ [c])) by (rewrite app_length; simpl; lia).
      rewrite skipn_len_app. reflexivity. }
  replace (length p + 1 + length r - S (length p)) with (length r) by lia.
  rewrite firstn_len_app. f_equal. f_equal.
  replace (p ++ c :: r ++ t) with ((p ++ c :: r) ++ t) by (rewrite <- app_assoc; reflexivity).
  replace (length p + 1 + length r) with (length (p ++ c :: r)) by (rewrite app_length; simpl; lia).
  apply skipn_len_app.
Qed.

Lemma del_at_cells k pre g rest : length (pre ++ g :: rest) <= k ->
  del_at (length pre) (length (pre ++ g :: rest)) (cells k (pre ++ g :: rest)) = cells k (pre ++ rest).
Proof.
  intros Hk.
  assert (E1 : length (pre ++ g :: rest) = length pre + 1 + length rest) by (rewrite app_length; simpl; lia).
  assert (E2 : length (pre ++ rest) = length pre + length rest) by (rewrite app_length; lia).
  unfold cells. rewrite E1, E2 in *. rewrite !map_app. cbn [map]. rewrite <- !app_assoc. cbn [app].
  pose proof (del_at_gen (map Some pre) (Some g) (map Some rest) (repeat None (k - (length pre + 1 + length rest)))) as H.
  rewrite !map_length in H. rewrite H. f_equal. f_equal.
  replace (k - (length pre + length rest)) with (S (k - (length pre + 1 + length rest))) by lia.
  reflexivity.
Qed.

Lemma cells_nth k pre g rest : nth_error (cells k (pre ++ g :: rest)) (length pre) = Some (Some g).
Proof.
  unfold cells. rewrite map_app, <- app_assoc.
  rewrite nth_error_app2 by (rewrite map_length; lia).
  rewrite map_length, Nat.sub_diag. reflexivity.
Qed.

Lemma somes_map (l : list grant) : somes (map Some l) = l.
Proof. induction l; simpl; congruence. Qed.

Lemma remaining_cells k cur : somes (firstn (length cur) (cells k cur)) = cur.
Proof.
  unfold cells. rewrite <- (map_length Some cur) at 1. rewrite firstn_len_app. apply somes_map.
Qed.

Lemma NoDup_snoc {A} (l : list A) a : NoDup l -> ~ In a l -> NoDup (l ++ [a]).
Proof.
  intros H Hn. apply (Permutation_NoDup (l := a :: l)).
  - apply Permutation_cons_append.
  - constructor; auto.
Qed.

Section Locked.
Variables (gs : list grant) (qs : list req).
Let k := length gs.

(* where the lock holder is inside checkCmd, relative to the sequential state [cur] *)
Definition cs_inv (q : req) (s : sh) (cur : list grant) (p : pc) : Prop :=
  match p with
  | PRange => arr s = cells k cur /\ hlen s = length cur
  | PIter i L => arr s = cells k cur /\ hlen s = length cur /\ L = length cur /\
      exists pre rest, cur = pre ++ rest /\ length pre = i /\ Forall (nohit q) pre
  | PTest i L c => arr s = cells k cur /\ hlen s = length cur /\ L = length cur /\
      exists pre g rest, cur = pre ++ g :: rest /\ length pre = i /\ Forall (nohit q) pre /\ c = Some g
  | PDel i ag => arr s = cells k cur /\ hlen s = length cur /\
      exists pre rest, cur = pre ++ ag :: rest /\ length pre = i /\ Forall (nohit q) pre /\ hit q ag = true
  | PMove i L ag => arr s = cells k cur /\ hlen s = length cur /\ L = length cur /\
      exists pre rest, cur = pre ++ ag :: rest /\ length pre = i /\ Forall (nohit q) pre /\ hit q ag = true
  | PStore L ag => hlen s = length cur /\ L = length cur /\
      exists pre rest, cur = pre ++ ag :: rest /\ Forall (nohit q) pre /\ hit q ag = true /\
                       arr s = cells k (pre ++ rest)
  | PRet r => exists cur', arr s = cells k cur' /\ hlen s = length cur' /\
      match r with
      | Some g => cc q cur = Some (g, cur')
      | None => cc q cur = None /\ cur' = cur
      end
  | _ => False
  end.

Definition idle_ok (done : list nat) (res : list (nat * option grant)) (i : nat) (p : pc) : Prop :=
  (In i done /\ exists r, p = PDone r /\ In (i, r) res) \/ (~ In i done /\ p = PStart).

Definition Inv (x : st) : Prop :=
  exists done res cur,
    seq_run qs gs done = (res, cur) /\ NoDup done /\ map fst res = done /\ length cur <= k /\
    length (pcs x) = length qs /\
    (forall i r, In (i, r) res -> nth_error (pcs x) i = Some (PDone r)) /\
    match mu (shd x) with
    | None => arr (shd x) = cells k cur /\ hlen (shd x) = length cur /\
              forall i p, nth_error (pcs x) i = Some p -> idle_ok done res i p
    | Some h => ~ In h done /\
              (exists p q, nth_error (pcs x) h = Some p /\ nth_error qs h = Some q /\ cs_inv q (shd x) cur p) /\
              forall i p, i <> h -> nth_error (pcs x) i = Some p -> idle_ok done res i p
    end.

Lemma inv_init : Inv (init gs qs).
Proof.
  exists [], [], gs. unfold init; cbn [shd pcs mu arr hlen].
  repeat split; auto.
  - constructor.
  - rewrite map_length. reflexivity.
  - intros i r [].
  - unfold cells. fold k. rewrite Nat.sub_diag. cbn [repeat]. rewrite app_nil_r. reflexivity.
  - intros i p H. right. split; [intros []|].
    rewrite nth_error_map in H. destruct (nth_error qs i); simpl in H; congruence.
Qed.

Lemma hold_move x h p q s' p' done res cur :
  seq_run qs gs done = (res, cur) -> NoDup done -> map fst res = done -> length cur <= k ->
  length (pcs x) = length qs ->
  (forall i r, In (i, r) res -> nth_error (pcs x) i = Some (PDone r)) ->
  ~ In h done -> nth_error (pcs x) h = Some p -> nth_error qs h = Some q ->
  (forall i p, i <> h -> nth_error (pcs x) i = Some p -> idle_ok done res i p) ->
  mu s' = Some h -> cs_inv q s' cur p' ->
  Inv (mkSt s' (gupd (pcs x) h p')).
Proof.
  intros Hseq Hnd Hfst Hlen Hpl Hres Hnh Hp Hq Hoth Hmu Hcs.
  exists done, res, cur. cbn [shd pcs]. rewrite Hmu.
  split; [auto|]. split; [auto|]. split; [auto|]. split; [auto|].
  split; [rewrite gupd_length; auto|].
  split.
  - intros i r Hin. assert (i <> h).
    { intros ->. apply Hnh. rewrite <- Hfst. change h with (fst (h, r)). apply in_map, Hin. }
    rewrite nth_gupd_other by auto. auto.
  - split; [auto|]. split.
    + exists p', q. split; [eapply nth_gupd_same; eauto|]. auto.
    + intros i p0 Hne Hi. rewrite nth_gupd_other in Hi by auto. eauto.
Qed.

Lemma inv_step x i x' : Inv x -> step true qs x i = Some x' -> Inv x'.
Proof.
  intros (done & res & cur & Hseq & Hnd & Hfst & Hlen & Hpl & Hres & Hmu) Hstep.
  unfold step in Hstep.
  destruct (nth_error (pcs x) i) as [p|] eqn:Hp; try discriminate.
  destruct (nth_error qs i) as [q|] eqn:Hq; try discriminate.
  destruct (tstep true i q (shd x) p) as [[s' p']|] eqn:Ht; try discriminate.
  inversion Hstep; subst x'; clear Hstep.
  destruct (mu (shd x)) as [h|] eqn:Hm.
  - destruct Hmu as (Hnh & (ph & qh & Hph & Hqh & Hcs) & Hoth).
    destruct (Nat.eq_dec i h) as [->|Hne].
    + rewrite Hp in Hph; inversion Hph; subst ph. rewrite Hq in Hqh; inversion Hqh; subst qh.
      clear Hph Hqh.
      destruct p; cbn [cs_inv] in Hcs; try contradiction; cbn [tstep] in Ht.
      * (* PRange *)
        destruct Hcs as (Ha & Hl). inversion Ht; subst s' p'; clear Ht.
        eapply hold_move; eauto. cbn [cs_inv]. repeat split; auto.
        exists [], cur. repeat split; auto.
      * (* PIter *)
        destruct Hcs as (Ha & Hl & HL & pre & rest & Hc & Hi & Hpre).
        destruct (Nat.ltb i L) eqn:Hlt.
        -- apply Nat.ltb_lt in Hlt. destruct rest as [|g rest].
           { exfalso. subst cur L. rewrite app_nil_r in Hlt. lia. }
           subst cur i. rewrite Ha, cells_nth in Ht. inversion Ht; subst s' p'; clear Ht.
           eapply hold_move; eauto. cbn [cs_inv]. repeat split; auto.
           exists pre, g, rest. repeat split; auto.
        -- apply Nat.ltb_ge in Hlt. inversion Ht; subst s' p'; clear Ht.
           assert (rest = []).
           { destruct rest; auto. subst cur L. rewrite app_length in Hlt. simpl in Hlt. lia. }
           subst rest. rewrite app_nil_r in Hc. subst pre.
           eapply hold_move; eauto. cbn [cs_inv]. exists cur. repeat split; auto.
           apply cc_none_all; auto.
      * (* PTest *)
        destruct Hcs as (Ha & Hl & HL & pre & g & rest & Hc & Hi & Hpre & Hcg). subst c.
        destruct (hit q g) eqn:Hh; inversion Ht; subst s' p'; clear Ht.
        -- eapply hold_move; eauto. cbn [cs_inv]. repeat split; auto.
           exists pre, rest. repeat split; auto.
        -- eapply hold_move; eauto. cbn [cs_inv]. repeat split; auto.
           exists (pre ++ [g]), rest. repeat split.
           ++ rewrite <- app_assoc. exact Hc.
           ++ rewrite app_length. simpl. lia.
           ++ apply Forall_app. split; auto.
      * (* PDel *)
        destruct Hcs as (Ha & Hl & pre & rest & Hc & Hi & Hpre & Hh).
        assert (Hle : Nat.leb (S i) (hlen (shd x)) = true).
        { apply Nat.leb_le. rewrite Hl, Hc, app_length. simpl. lia. }
        rewrite Hle in Ht. inversion Ht; subst s' p'; clear Ht.
        eapply hold_move; eauto. cbn [cs_inv]. repeat split; auto.
        exists pre, rest. repeat split; auto.
      * (* PMove *)
        destruct Hcs as (Ha & Hl & HL & pre & rest & Hc & Hi & Hpre & Hh).
        inversion Ht; subst s' p'; clear Ht.
        eapply hold_move; eauto. cbn [cs_inv arr hlen]. repeat split; auto.
        exists pre, rest. repeat split; auto.
        rewrite Ha. subst i L. rewrite Hc. apply del_at_cells. rewrite <- Hc. exact Hlen.
      * (* PStore *)
        destruct Hcs as (Hl & HL & pre & rest & Hc & Hpre & Hh & Ha).
        inversion Ht; subst s' p'; clear Ht.
        eapply hold_move; eauto. cbn [cs_inv arr hlen].
        exists (pre ++ rest). repeat split; auto.
        -- subst L cur. rewrite !app_length. simpl. lia.
        -- rewrite Hc, cc_app by auto. rewrite cc_cons, Hh. reflexivity.
      * (* PRet: release *)
        destruct Hcs as (cur' & Ha & Hl & Hr).
        inversion Ht; subst s' p'; clear Ht.
        assert (Hseq' : seq_run qs gs (done ++ [h]) = (res ++ [(h, r)], cur')).
        { unfold seq_run in *. rewrite fold_left_app, Hseq. cbn [fold_left]. unfold seq_step.
          rewrite Hq. cbn [fst snd]. fold (cc q cur).
          destruct r as [g|]; [rewrite Hr; reflexivity|].
          destruct Hr as (Hr & ->). rewrite Hr. reflexivity. }
        assert (Hlen' : length cur' <= k).
        { destruct r as [g|]; [|destruct Hr as (_ & ->); auto].
          apply cc_some_perm in Hr. lia. }
        exists (done ++ [h]), (res ++ [(h, r)]), cur'. cbn [shd pcs mu arr hlen].
        split; [auto|]. split; [apply NoDup_snoc; auto|].
        split; [rewrite map_app, Hfst; reflexivity|]. split; [auto|].
        split; [rewrite gupd_length; auto|].
        split.
        -- intros j r0 Hin. apply in_app_or in Hin. destruct Hin as [Hin|[Hin|[]]].
           ++ assert (j <> h).
              { intros ->. apply Hnh. rewrite <- Hfst. change h with (fst (h, r0)). apply in_map, Hin. }
              rewrite nth_gupd_other by auto. auto.
           ++ inversion Hin; subst. eapply nth_gupd_same; eauto.
        -- split; [auto|]. split; [auto|].
           intros j p0 Hj. destruct (Nat.eq_dec j h) as [->|Hjh].
           ++ erewrite nth_gupd_same in Hj by eauto. inversion Hj; subst p0.
              left. split; [apply in_or_app; right; left; auto|].
              exists r. split; auto. apply in_or_app; right; left; auto.
           ++ rewrite nth_gupd_other in Hj by auto.
              destruct (Hoth j p0 Hjh Hj) as [(Hd & r0 & Hp0 & Hin)|(Hd & Hp0)].
              ** left. split; [apply in_or_app; auto|]. exists r0. split; auto. apply in_or_app; auto.
              ** right. split; auto. intros Hin. apply in_app_or in Hin.
                 destruct Hin as [Hin|[Hin|[]]]; auto.
    + (* a request that does not hold the lock cannot move *)
      exfalso. destruct (Hoth i p Hne Hp) as [(_ & r0 & -> & _)|(_ & ->)]; cbn [tstep] in Ht.
      * discriminate.
      * rewrite Hm in Ht. discriminate.
  - (* lock free: only Lock() can happen *)
    destruct Hmu as (Ha & Hl & Hidle).
    destruct (Hidle i p Hp) as [(_ & r0 & -> & _)|(Hnd' & ->)]; cbn [tstep] in Ht; try discriminate.
    rewrite Hm in Ht. inversion Ht; subst s' p'; clear Ht.
    eapply hold_move; eauto. cbn [cs_inv arr hlen]. auto.
Qed.

Lemma inv_run l : forall x x', Inv x -> run true qs x l = Some x' -> Inv x'.
Proof.
  induction l as [|i l IH]; intros x x' HI H; simpl in H.
  - inversion H; subst; auto.
  - destruct (step true qs x i) as [x1|] eqn:Hs; try discriminate.
    eapply IH; [eapply inv_step; eauto|exact H].
Qed.

Lemma inv_reachable x : reachable true gs qs x -> Inv x.
Proof. intros (l & H). eapply inv_run; [apply inv_init|exact H]. Qed.

(* no request is ever in the panic state *)
Lemma inv_no_panic x : Inv x -> panicked x = false.
Proof.
  intros (done & res & cur & _ & _ & _ & _ & _ & _ & Hmu).
  unfold panicked. destruct (existsb _ (pcs x)) eqn:E; auto. exfalso.
  apply existsb_exists in E. destruct E as (p & Hin & Hp). destruct p; try discriminate.
  apply In_nth_error in Hin. destruct Hin as (i & Hi).
  destruct (mu (shd x)) as [h|].
  - destruct Hmu as (_ & (ph & qh & Hph & _ & Hcs) & Hoth).
    destruct (Nat.eq_dec i h) as [->|Hne].
    + rewrite Hi in Hph. inversion Hph; subst ph. exact Hcs.
    + destruct (Hoth i _ Hne Hi) as [(_ & r & Hr & _)|(_ & Hr)]; discriminate.
  - destruct Hmu as (_ & _ & Hidle).
    destruct (Hidle i _ Hi) as [(_ & r & Hr & _)|(_ & Hr)]; discriminate.
Qed.

(* ---- linearizability ---- *)
Lemma inv_linearizable x : Inv x ->
  exists order, NoDup order /\
    (forall i r, nth_error (pcs x) i = Some (PDone r) <-> In (i, r) (fst (seq_run qs gs order))) /\
    (mu (shd x) = None -> remaining x = snd (seq_run qs gs order)) /\
    panicked x = false.
Proof.
  intros HI. pose proof (inv_no_panic x HI) as Hnp.
  destruct HI as (done & res & cur & Hseq & Hnd & Hfst & Hlen & Hpl & Hres & Hmu).
  exists done. rewrite Hseq. cbn [fst snd]. split; [auto|]. split; [|split; auto].
  - intros i r. split; [|apply Hres]. intros Hi.
    destruct (mu (shd x)) as [h|].
    + destruct Hmu as (_ & (ph & qh & Hph & _ & Hcs) & Hoth).
      destruct (Nat.eq_dec i h) as [->|Hne].
      * rewrite Hi in Hph. inversion Hph; subst ph. destruct Hcs.
      * destruct (Hoth i _ Hne Hi) as [(_ & r0 & Hr & Hin)|(_ & Hr)]; [|discriminate].
        inversion Hr; subst; auto.
    + destruct Hmu as (_ & _ & Hidle).
      destruct (Hidle i _ Hi) as [(_ & r0 & Hr & Hin)|(_ & Hr)]; [|discriminate].
      inversion Hr; subst; auto.
  - intros Hm. rewrite Hm in Hmu. destruct Hmu as (Ha & Hl & _).
    unfold remaining. rewrite Ha, Hl. apply remaining_cells.
Qed.

(* ---- deadlock freedom: while a request has not returned, some request can move ---- *)
Lemma forallb_false_nth {A} (f : A -> bool) l : forallb f l = false ->
  exists i a, nth_error l i = Some a /\ f a = false.
Proof.
  induction l as [|a l IH]; simpl; intros H; try discriminate.
  destruct (f a) eqn:E.
  - destruct (IH H) as (i & b & Hi & Hb). exists (S i), b. auto.
  - exists 0, a. auto.
Qed.

Lemma inv_progress x : Inv x -> all_done x = false -> exists i, enabled true qs x i = true.
Proof.
  intros (done & res & cur & _ & _ & _ & _ & Hpl & _ & Hmu) Hnd.
  destruct (mu (shd x)) as [h|] eqn:Hm.
  - destruct Hmu as (_ & (p & q & Hp & Hq & Hcs) & _). exists h.
    unfold enabled, step. rewrite Hp, Hq.
    destruct p; cbn [cs_inv] in Hcs; try contradiction; cbn [tstep]; auto.
    + destruct (Nat.ltb i L); auto. destruct (nth_error (arr (shd x)) i); auto.
    + destruct c as [ag|]; auto. destruct (hit q ag); auto.
    + destruct (Nat.leb (S i) (hlen (shd x))); auto.
  - destruct Hmu as (_ & _ & Hidle).
    apply forallb_false_nth in Hnd. destruct Hnd as (i & p & Hi & Hp).
    destruct (Hidle i p Hi) as [(_ & r & -> & _)|(_ & ->)]; [discriminate|].
    exists i. unfold enabled, step. rewrite Hi.
    assert (Hlt : i < length qs). { rewrite <- Hpl. apply nth_error_Some. congruence. }
    destruct (nth_error qs i) eqn:Hq; [|apply nth_error_None in Hq; lia].
    cbn [tstep]. rewrite Hm. reflexivity.
Qed.

End Locked.

(* ---- the sequential specification uses every grant at most once ---- *)
Definition succ_pairs (res : list (nat * option grant)) : list (nat * grant) :=
  flat_map (fun e => match snd e with Some g => [(fst e, g)] | None => [] end) res.

Lemma seq_run_snoc qs gs order i : seq_run qs gs (order ++ [i]) = seq_step qs (seq_run qs gs order) i.
Proof. unfold seq_run. rewrite fold_left_app. reflexivity. Qed.

Lemma seq_run_spec qs gs order :
  Permutation gs (map snd (succ_pairs (fst (seq_run qs gs order))) ++ snd (seq_run qs gs order)) /\
  (forall i g, In (i, g) (succ_pairs (fst (seq_run qs gs order))) ->
               In g gs /\ exists q, nth_error qs i = Some q /\ hit q g = true).
Proof.
  induction order as [|i order IH] using rev_ind.
  - simpl. split; [apply Permutation_refl|intros ? ? []].
  - rewrite seq_run_snoc. destruct (seq_run qs gs order) as [res cur]. cbn [fst snd] in *.
    destruct IH as (HP & HI). unfold seq_step. destruct (nth_error qs i) as [q|] eqn:Hq; cbn [fst snd]; auto.
    fold (cc q cur). destruct (cc q cur) as [[g cur']|] eqn:E; cbn [fst snd].
    + apply cc_some_perm in E. destruct E as (P & Hh & _).
      unfold succ_pairs. rewrite flat_map_app. cbn [flat_map snd fst]. rewrite app_nil_r.
      fold (succ_pairs res). split.
      * rewrite map_app, <- app_assoc. cbn [map snd app].
        eapply perm_trans; [exact HP|]. apply Permutation_app_head. exact P.
      * intros j g' Hin. apply in_app_or in Hin. destruct Hin as [Hin|[Hin|[]]]; auto.
        inversion Hin; subst. split; [|eauto].
        eapply Permutation_in; [symmetry; exact HP|]. apply in_or_app. right.
        eapply Permutation_in; [symmetry; exact P|]. left; auto.
    + unfold succ_pairs. rewrite flat_map_app. cbn [flat_map snd fst]. rewrite !app_nil_r.
      fold (succ_pairs res). auto.
Qed.

Lemma in_succ_pairs res i g : In (i, g) (succ_pairs res) <-> In (i, Some g) res.
Proof.
  unfold succ_pairs. rewrite in_flat_map. split.
  - intros ([j [g'|]] & Hin & H); cbn [fst snd] in H; [|destruct H].
    destruct H as [H|[]]. inversion H; subst. auto.
  - intros H. exists (i, Some g). split; auto. left; auto.
Qed.

Lemma NoDup_map_inj_in {A B} (f : A -> B) l a b :
  NoDup (map f l) -> In a l -> In b l -> f a = f b -> a = b.
Proof.
  induction l as [|c l IH]; simpl; intros Hnd Ha Hb Hf; [contradiction|].
  inversion Hnd; subst.
  destruct Ha as [->|Ha], Hb as [->|Hb]; auto.
  - exfalso. apply H1. rewrite Hf. apply in_map, Hb.
  - exfalso. apply H1. rewrite <- Hf. apply in_map, Ha.
Qed.

Lemma NoDup_app_disj {A} (l1 l2 : list A) a : NoDup (l1 ++ l2) -> In a l1 -> ~ In a l2.
Proof.
  induction l1 as [|b l1 IH]; simpl; intros Hnd Ha; [contradiction|].
  inversion Hnd; subst. destruct Ha as [->|Ha]; auto.
  intros H. apply H1. apply in_or_app; auto.
Qed.

Lemma NoDup_app_left {A} (l1 l2 : list A) : NoDup (l1 ++ l2) -> NoDup l1.
Proof.
  induction l1 as [|b l1 IH]; simpl; intros Hnd; [constructor|].
  inversion Hnd; subst. constructor; auto. intros H. apply H1. apply in_or_app; auto.
Qed.

Lemma in_wins_from l : forall n i g,
  In (i, g) (wins_from n l) <-> exists j, i = n + j /\ nth_error l j = Some (PDone (Some g)).
Proof.
  induction l as [|p l IH]; intros n i g; cbn [wins_from].
  - split; [intros []|intros (j & _ & H); destruct j; discriminate].
  - assert (Hrec : In (i, g) (wins_from (S n) l) <->
                   exists j, i = n + S j /\ nth_error (p :: l) (S j) = Some (PDone (Some g))).
    { rewrite IH. split; intros (j & -> & H); exists j; split; auto; lia. }
    assert (Hskip : (forall g', p <> PDone (Some g')) ->
              (In (i, g) (wins_from (S n) l) <->
               exists j, i = n + j /\ nth_error (p :: l) j = Some (PDone (Some g)))).
    { intros Hp. rewrite Hrec. split.
      - intros (j & He & H). exists (S j); auto.
      - intros ([|j] & He & H); [simpl in H; inversion H; subst; exfalso; eapply Hp; eauto|].
        exists j; auto. }
    destruct p as [| | | | | | | |[g0|]|]; try (apply Hskip; intros; discriminate).
    cbn [In]. rewrite Hrec. split.
    + intros [H|(j & He & H)].
      * inversion H; subst. exists 0. split; [lia|reflexivity].
      * exists (S j); auto.
    + intros ([|j] & He & H).
      * simpl in H. inversion H; subst. left. f_equal. lia.
      * right. exists j; auto.
Qed.

Lemma in_wins x i g : In (i, g) (wins x) <-> nth_error (pcs x) i = Some (PDone (Some g)).
Proof.
  unfold wins. rewrite in_wins_from. split.
  - intros (j & -> & H). exact H.
  - intros H. exists i. auto.
Qed.

(* ---- the property, for every schedule, every number of requests and grants ---- *)
Lemma concurrent_linearizable gs qs x : reachable true gs qs x ->
  exists order, NoDup order /\
    (forall i r, nth_error (pcs x) i = Some (PDone r) <-> In (i, r) (fst (seq_run qs gs order))) /\
    (mu (shd x) = None -> remaining x = snd (seq_run qs gs order)) /\
    panicked x = false.
Proof. intros H. apply inv_linearizable, inv_reachable, H. Qed.

Lemma concurrent_once gs qs x : reachable true gs qs x -> NoDup (map g_id gs) ->
  panicked x = false /\
  (forall i g, In (i, g) (wins x) ->
     In g gs /\ exists q, nth_error qs i = Some q /\ hit q g = true) /\
  (forall i j g g', In (i, g) (wins x) -> In (j, g') (wins x) -> g_id g = g_id g' -> i = j) /\
  (mu (shd x) = None -> forall i g, In (i, g) (wins x) -> ~ In (g_id g) (map g_id (remaining x))).
Proof.
  intros Hr Hnd. destruct (concurrent_linearizable gs qs x Hr) as (order & _ & Hres & Hrem & Hnp).
  destruct (seq_run_spec qs gs order) as (HP & HI).
  assert (Hw : forall i g, In (i, g) (wins x) -> In (i, g) (succ_pairs (fst (seq_run qs gs order)))).
  { intros i g H. apply in_succ_pairs, Hres, in_wins, H. }
  assert (Hnd2 : NoDup (map g_id (map snd (succ_pairs (fst (seq_run qs gs order)))) ++
                        map g_id (snd (seq_run qs gs order)))).
  { rewrite <- map_app. eapply Permutation_NoDup; [apply Permutation_map, HP|exact Hnd]. }
  split; [auto|]. split; [|split].
  - intros i g H. apply HI, Hw, H.
  - intros i j g g' Hi Hj He.
    apply NoDup_app_left in Hnd2. rewrite map_map in Hnd2.
    pose proof (NoDup_map_inj_in _ _ (i, g) (j, g') Hnd2 (Hw _ _ Hi) (Hw _ _ Hj) He) as H.
    inversion H; auto.
  - intros Hm i g Hi. rewrite (Hrem Hm).
    eapply NoDup_app_disj; [exact Hnd2|].
    apply in_map. change g with (snd (i, g)). apply in_map. apply Hw, Hi.
Qed.

Lemma concurrent_no_deadlock gs qs x : reachable true gs qs x -> all_done x = false ->
  exists i, enabled true qs x i = true.
Proof. intros H. apply inv_progress with (gs := gs). apply inv_reachable, H. Qed.

