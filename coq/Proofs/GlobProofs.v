(* GlobProofs.v — C20: the backtracking matcher of Model/Glob.v is total and decides `matches`;
   host-block selection and virtual-host selection follow. *)
From Hop Require Import Base Glob.
From Coq Require Import Lia Arith.
Open Scope N_scope.

Definition nostar (l : bytes) : Prop := Forall (fun c => c <> star) l.
Definition allstar (l : bytes) : Prop := Forall (fun c => c = star) l.

(* ------------------------------------------------------------------ facts about `matches` *)

Lemma matches_nil_inv s : matches [] s -> s = [].
Proof. intro H. inversion H. reflexivity. Qed.

Lemma matches_star_inv p s :
  matches (star :: p) s -> exists s1 s2, s = s1 ++ s2 /\ matches p s2.
Proof. intro H. inversion H; subst; [congruence | eauto]. Qed.

Lemma matches_lit_inv c p s :
  c <> star -> matches (c :: p) s -> exists s', s = c :: s' /\ matches p s'.
Proof. intros Hc H. inversion H; subst; [eauto | congruence]. Qed.

Lemma matches_star_skip q u : matches q u -> matches (star :: q) u.
Proof. intro H. exact (m_star q [] u H). Qed.

Lemma matches_star_more q u a : matches (star :: q) u -> matches (star :: q) (a ++ u).
Proof.
  intro H. apply matches_star_inv in H as (s1 & s2 & -> & H).
  rewrite app_assoc. now constructor.
Qed.

Lemma matches_lits_app L R U : nostar L -> matches R U -> matches (L ++ R) (L ++ U).
Proof. induction 1; simpl; intros; [assumption | constructor; auto]. Qed.

Lemma matches_lits_inv L : nostar L ->
  forall R B, matches (L ++ R) B -> exists U, B = L ++ U /\ matches R U.
Proof.
  induction 1 as [|c L Hc HL IH]; simpl; intros R B H.
  - eauto.
  - apply matches_lit_inv in H as (s' & -> & H); [|assumption].
    apply IH in H as (U & -> & H). eauto.
Qed.

Lemma matches_lits_cancel L R T : nostar L -> (matches (L ++ R) (L ++ T) <-> matches R T).
Proof.
  intro HL. split.
  - intro H. apply matches_lits_inv in H as (U & E & H); [|assumption].
    apply app_inv_head in E. now subst.
  - now apply matches_lits_app.
Qed.

Lemma matches_nil_r p : matches p [] <-> allstar p.
Proof.
  split.
  - induction p as [|c p IH]; intro H; [constructor|].
    destruct (N.eq_dec c star) as [->|Hc].
    + apply matches_star_inv in H as (s1 & s2 & E & H).
      symmetry in E. apply app_eq_nil in E as [_ ->]. constructor; [reflexivity|exact (IH H)].
    + apply matches_lit_inv in H as (s' & E & _); [discriminate|assumption].
  - induction 1 as [|c p -> _ IH]; [constructor|]. now apply matches_star_skip.
Qed.

Lemma skipn_app_len (L : bytes) n (T : bytes) : skipn (List.length L + n) (L ++ T) = skipn n T.
Proof. induction L; simpl; auto. Qed.

Lemma app_suffix (L T s1 U : bytes) : L ++ T = s1 ++ L ++ U -> exists A, T = A ++ U.
Proof.
  intro E. exists (firstn (List.length s1) T).
  assert (H : skipn (List.length s1) T = U).
  { apply (f_equal (skipn (List.length L + List.length s1))) in E.
    rewrite skipn_app_len in E. rewrite E.
    rewrite Nat.add_comm, skipn_app_len.
    rewrite <- (Nat.add_0_r (List.length L)), skipn_app_len. reflexivity. }
  rewrite <- H. symmetry. apply firstn_skipn.
Qed.

(* the greedy step: once the literals after a star have been found at the earliest possible place,
   the rest of the pattern only ever needs a suffix of the rest of the input *)
Lemma matches_greedy L R T : nostar L ->
  matches (star :: L ++ R) (L ++ T) -> exists A U, T = A ++ U /\ matches R U.
Proof.
  intros HL H. apply matches_star_inv in H as (s1 & s2 & E & H).
  apply matches_lits_inv in H as (U & -> & H); [|assumption].
  apply app_suffix in E as (A & ->). eauto.
Qed.

(* ------------------------------------------------------------------ instantiate / matches_b *)

Lemma instantiate_matches p : forall fills s, instantiate p fills = Some s -> matches p s.
Proof.
  induction p as [|c p IH]; simpl; intros fills s H.
  - destruct fills; [|discriminate]. injection H as <-. constructor.
  - destruct (N.eqb_spec c star) as [->|Hc].
    + destruct fills as [|f fs]; [discriminate|].
      destruct (instantiate p fs) as [s'|] eqn:E; [|discriminate]. injection H as <-.
      constructor. eauto.
    + destruct (instantiate p fills) as [s'|] eqn:E; [|discriminate]. injection H as <-.
      constructor; eauto.
Qed.

Lemma matches_instantiate p s : matches p s -> exists fills, instantiate p fills = Some s.
Proof.
  induction 1 as [|c p s Hc _ (fills & IH)|p s1 s2 _ (fills & IH)].
  - exists []. reflexivity.
  - exists fills. simpl. destruct (N.eqb_spec c star); [contradiction|]. now rewrite IH.
  - exists (s1 :: fills). simpl. now rewrite IH.
Qed.

Lemma matches_b_star p s :
  matches_b (star :: p) s =
  matches_b p s || match s with [] => false | _ :: s' => matches_b (star :: p) s' end.
Proof. destruct s; reflexivity. Qed.

Lemma matches_b_lit c p s : c <> star ->
  matches_b (c :: p) s = match s with [] => false | d :: s' => (c =? d) && matches_b p s' end.
Proof. intro Hc. simpl. destruct (N.eqb_spec c star); [contradiction|reflexivity]. Qed.

Lemma matches_b_sound p : forall s, matches_b p s = true -> matches p s.
Proof.
  induction p as [|c p IH]; intros s H.
  - destruct s; [constructor|discriminate].
  - destruct (N.eq_dec c star) as [->|Hc].
    + induction s as [|d s IHs]; rewrite matches_b_star in H.
      * rewrite orb_false_r in H. apply matches_star_skip. auto.
      * apply orb_true_iff in H as [H|H].
        -- apply matches_star_skip. auto.
        -- apply (matches_star_more p s [d]). auto.
    + rewrite matches_b_lit in H by assumption. destruct s as [|d s]; [discriminate|].
      apply andb_true_iff in H as [E H]. apply N.eqb_eq in E. subst d. constructor; auto.
Qed.

Lemma matches_b_complete p s : matches p s -> matches_b p s = true.
Proof.
  induction 1 as [|c p s Hc _ IH|p s1 s2 _ IH].
  - reflexivity.
  - rewrite matches_b_lit by assumption. now rewrite N.eqb_refl, IH.
  - induction s1 as [|d s1 IHs]; cbn [app]; rewrite matches_b_star.
    + now rewrite IH.
    + cbv beta iota. rewrite IHs. apply orb_true_r.
Qed.

Lemma matches_b_spec p s : matches_b p s = true <-> matches p s.
Proof. split; [apply matches_b_sound | apply matches_b_complete]. Qed.

(* ------------------------------------------------------------------ the loop body, seen through
   a decomposition  pattern = X ++ R (i = |X|),  input = Y ++ T (j = |Y|) *)

Definition backtrack (st : option nat) (mark : nat) : gnext :=
  match st with
  | Some k => Continue (mkG (k + 1) (mark + 1) st (mark + 1))
  | None => ReturnFalse
  end.

Lemma ltb_app_len (X R : bytes) :
  (List.length X <? List.length (X ++ R))%nat = match R with [] => false | _ => true end.
Proof.
  rewrite app_length. destruct R; simpl.
  - rewrite Nat.add_0_r. apply Nat.ltb_irrefl.
  - apply Nat.ltb_lt. lia.
Qed.

Lemma rd_app_len (X : bytes) c R : rd (X ++ c :: R) (List.length X) = Ok c.
Proof.
  unfold rd. rewrite nth_error_app2 by lia. now rewrite Nat.sub_diag.
Qed.

Lemma glob_body_view X R Y T st mark :
  glob_body (X ++ R) (Y ++ T) (mkG (List.length X) (List.length Y) st mark) =
  Ok match T with
     | [] => LoopExit (List.length X)
     | t :: _ =>
         match R with
         | r :: _ =>
             if r =? star then
               Continue (mkG (List.length X + 1) (List.length Y) (Some (List.length X)) (List.length Y))
             else if r =? t then
               Continue (mkG (List.length X + 1) (List.length Y + 1) st mark)
             else backtrack st mark
         | [] => backtrack st mark
         end
     end.
Proof.
  unfold glob_body. rewrite !ltb_app_len.
  destruct T as [|t T]; [reflexivity|].
  destruct R as [|r R].
  - simpl. destruct st; reflexivity.
  - rewrite !rd_app_len. simpl.
    destruct (r =? star); [reflexivity|]. simpl.
    destruct (r =? t); [reflexivity|]. destruct st; reflexivity.
Qed.

(* ------------------------------------------------------------------ loop invariant *)

Inductive ginv (P S : bytes) : gst -> Prop :=
| inv0 L R T mk :
    nostar L -> P = L ++ R -> S = L ++ T ->
    ginv P S (mkG (List.length L) (List.length L) None mk)
| inv1 A L R B T :
    nostar L -> P = (A ++ star :: L) ++ R -> S = (B ++ L) ++ T ->
    (matches P S <-> matches (star :: L ++ R) (L ++ T)) ->
    ginv P S (mkG (List.length (A ++ star :: L)) (List.length (B ++ L))
                  (Some (List.length A)) (List.length B)).

Lemma inv0' P S L R T i j mk :
  nostar L -> P = L ++ R -> S = L ++ T -> i = List.length L -> j = List.length L ->
  ginv P S (mkG i j None mk).
Proof. intros; subst i j; econstructor; eauto. Qed.

Lemma inv1' P S A L R B T i j k m :
  nostar L -> P = (A ++ star :: L) ++ R -> S = (B ++ L) ++ T ->
  (matches P S <-> matches (star :: L ++ R) (L ++ T)) ->
  i = List.length (A ++ star :: L) -> j = List.length (B ++ L) ->
  k = List.length A -> m = List.length B ->
  ginv P S (mkG i j (Some k) m).
Proof. intros; subst i j k m; econstructor; eauto. Qed.

(* termination measure *)
Definition gmeasure (P S : bytes) (s : gst) : nat :=
  ((List.length S - match g_star s with Some _ => g_mark s | None => O end) * (List.length P + 1)
   + (List.length P - g_i s))%nat.

Definition gpost (P S : bytes) (s : gst) (n : gnext) : Prop :=
  match n with
  | Continue s' => ginv P S s' /\ (gmeasure P S s' < gmeasure P S s)%nat
  | ReturnFalse => ~ matches P S
  | LoopExit i => exists X R, P = X ++ R /\ i = List.length X /\ (matches P S <-> matches R [])
  end.

Lemma meas_fwd (s m m' p i : nat) :
  (m <= m' -> i < p ->
   (s - m') * (p + 1) + (p - (i + 1)) < (s - m) * (p + 1) + (p - i))%nat.
Proof.
  intros Hm Hi.
  assert ((s - m') * (p + 1) <= (s - m) * (p + 1))%nat by (apply Nat.mul_le_mono_r; lia).
  lia.
Qed.

Lemma meas_back (s b p a x : nat) :
  (b < s -> x <= p ->
   (s - (b + 1)) * (p + 1) + (p - (a + 1)) < (s - b) * (p + 1) + (p - x))%nat.
Proof.
  intros Hb Hx. replace (s - b)%nat with (S (s - (b + 1))) by lia. simpl. lia.
Qed.

Lemma nostar_snoc L c : nostar L -> c <> star -> nostar (L ++ [c]).
Proof. intros. apply Forall_app. split; [assumption|]. constructor; [assumption|constructor]. Qed.

Lemma mismatch_no_match R t T :
  match R with r :: _ => r <> star /\ r <> t | [] => True end -> ~ matches R (t :: T).
Proof.
  destruct R as [|r R]; intros H M.
  - apply matches_nil_inv in M. discriminate.
  - destruct H as [Hs Ht]. apply matches_lit_inv in M as (s' & E & _); [|assumption].
    injection E as E _. congruence.
Qed.

Lemma glob_body_step P S s : ginv P S s -> exists n, glob_body P S s = Ok n /\ gpost P S s n.
Proof.
  intros [L R T mk HL -> -> | A L R B T HL -> -> HM].
  - (* no star seen yet *)
    rewrite glob_body_view. eexists; split; [reflexivity|].
    destruct T as [|t T].
    + exists L, R. repeat split; auto; apply matches_lits_cancel; auto.
    + assert (Hmis : match R with r :: _ => r <> star /\ r <> t | [] => True end ->
                     ~ matches (L ++ R) (L ++ t :: T)).
      { intros H M. apply matches_lits_cancel in M; [|assumption].
        revert M. now apply mismatch_no_match. }
      destruct R as [|r R]; [simpl; auto|].
      destruct (N.eqb_spec r star) as [->|Hs].
      * (* star *)
        split.
        -- eapply (inv1' _ _ L [] R L (t :: T)); try reflexivity.
           ++ constructor.
           ++ now rewrite <- app_assoc.
           ++ now rewrite app_nil_r.
           ++ simpl. apply matches_lits_cancel; auto.
           ++ rewrite app_length; simpl; lia.
           ++ now rewrite app_nil_r.
        -- unfold gmeasure; simpl. apply meas_fwd; [lia|]. rewrite app_length; simpl; lia.
      * destruct (N.eqb_spec r t) as [->|Ht].
        -- (* literal match *)
           split.
           ++ eapply (inv0' _ _ (L ++ [t]) R T); try (rewrite app_length; simpl; lia).
              ** now apply nostar_snoc.
              ** now rewrite <- app_assoc.
              ** now rewrite <- app_assoc.
           ++ unfold gmeasure; simpl. apply meas_fwd; [lia|]. rewrite app_length; simpl; lia.
        -- simpl. apply Hmis. auto.
  - (* star at |A|, currently ending at |B|, literals L matched since *)
    rewrite glob_body_view. eexists; split; [reflexivity|].
    destruct T as [|t T].
    + exists (A ++ star :: L), R. repeat split; auto.
      * intro M. apply HM in M. apply matches_greedy in M as (A' & U & E & M); [|assumption].
        symmetry in E. apply app_eq_nil in E as [_ ->]. assumption.
      * intro M. apply HM. apply matches_star_skip. apply matches_lits_app; auto.
    + (* what backtracking does, used in two branches *)
      assert (Hbt : match R with r :: _ => r <> star /\ r <> t | [] => True end ->
                    gpost ((A ++ star :: L) ++ R) ((B ++ L) ++ t :: T)
                          (mkG (List.length (A ++ star :: L)) (List.length (B ++ L))
                               (Some (List.length A)) (List.length B))
                          (backtrack (Some (List.length A)) (List.length B))).
      { intro Hmis. simpl.
        destruct (L ++ t :: T) as [|b0 T2] eqn:E0; [destruct L; discriminate|].
        split.
        - eapply (inv1' _ _ A [] (L ++ R) (B ++ [b0]) T2); try reflexivity.
          + constructor.
          + now rewrite <- !app_assoc.
          + rewrite <- !app_assoc. simpl. now rewrite E0.
          + simpl. rewrite HM. split.
            * intro M. apply matches_star_inv in M as (s1 & s2 & E & M).
              destruct s1 as [|c s1].
              -- simpl in E. subst s2. rewrite <- E0 in M.
                 apply matches_lits_cancel in M; [|assumption].
                 exfalso. revert M. now apply mismatch_no_match.
              -- injection E as _ ->. now constructor.
            * intro M. apply (matches_star_more _ _ [b0]). assumption.
          + rewrite app_length; simpl; lia.
          + rewrite app_nil_r, app_length; simpl; lia.
          + rewrite app_length; simpl; lia.
        - unfold gmeasure; simpl.
          apply meas_back.
          + rewrite !app_length; simpl; lia.
          + rewrite (app_length _ R); lia. }
      destruct R as [|r R]; [apply Hbt; exact I|].
      destruct (N.eqb_spec r star) as [->|Hs].
      * (* another star: it takes over *)
        split.
        -- eapply (inv1' _ _ (A ++ star :: L) [] R (B ++ L) (t :: T)); try reflexivity.
           ++ constructor.
           ++ now rewrite <- !app_assoc.
           ++ now rewrite app_nil_r.
           ++ simpl. rewrite HM. split.
              ** intro M. apply matches_greedy in M as (A' & U & -> & M); [|assumption].
                 now apply matches_star_more.
              ** intro M. apply matches_star_skip. apply matches_lits_app; auto.
           ++ rewrite !app_length; simpl; lia.
           ++ now rewrite app_nil_r.
        -- unfold gmeasure; simpl. apply meas_fwd.
           ++ rewrite app_length; lia.
           ++ rewrite (app_length _ (star :: R)); simpl; lia.
      * destruct (N.eqb_spec r t) as [->|Ht].
        -- (* literal match *)
           split.
           ++ eapply (inv1' _ _ A (L ++ [t]) R B T); try reflexivity.
              ** now apply nostar_snoc.
              ** rewrite <- !app_assoc. simpl. now rewrite <- app_assoc.
              ** now rewrite <- !app_assoc.
              ** rewrite HM. rewrite <- !app_assoc. reflexivity.
              ** rewrite !app_length; simpl. rewrite app_length; simpl. lia.
              ** rewrite !app_length; simpl. lia.
           ++ unfold gmeasure; simpl. apply meas_fwd; [lia|].
              rewrite (app_length _ (t :: R)); simpl; lia.
        -- apply Hbt. auto.
Qed.

Definition loop_post (P S : bytes) (r : option nat) : Prop :=
  match r with
  | None => ~ matches P S
  | Some i => exists X R, P = X ++ R /\ i = List.length X /\ (matches P S <-> matches R [])
  end.

Lemma glob_loop_correct P S : forall fuel s,
  ginv P S s -> (gmeasure P S s < fuel)%nat ->
  exists r, glob_loop fuel P S s = Ok r /\ loop_post P S r.
Proof.
  induction fuel as [|fuel IH]; intros s Hinv Hm; [lia|].
  destruct (glob_body_step P S s Hinv) as (n & E & Hp).
  simpl. rewrite E. simpl. destruct n as [s'| |i]; simpl in Hp.
  - destruct Hp as [Hinv' Hlt]. apply IH; [assumption|lia].
  - exists None. auto.
  - exists (Some i). auto.
Qed.

Lemma skip_stars_correct R : forall X fuel, (List.length R < fuel)%nat ->
  exists i, skip_stars fuel (X ++ R) (List.length X) = Ok i /\
            ((i =? List.length (X ++ R))%nat = true <-> allstar R).
Proof.
  induction R as [|c R IH]; intros X fuel Hf; (destruct fuel as [|fuel]; [simpl in Hf; lia|]).
  - simpl. rewrite ltb_app_len. eexists; split; [reflexivity|].
    rewrite app_nil_r, Nat.eqb_refl. split; [constructor|reflexivity].
  - simpl skip_stars. rewrite ltb_app_len, rd_app_len. simpl bind.
    destruct (N.eqb_spec c star) as [->|Hc].
    + specialize (IH (X ++ [star]) fuel ltac:(simpl in Hf; lia)) as (i & E & Hi).
      rewrite <- app_assoc in E, Hi. simpl in E, Hi.
      rewrite app_length in E. simpl in E.
      exists i. split; [exact E|]. rewrite Hi. split.
      * intro. constructor; auto.
      * intro H. now inversion H.
    + eexists; split; [reflexivity|]. split.
      * intro H. apply Nat.eqb_eq in H. rewrite app_length in H. simpl in H. lia.
      * intro H. inversion H. contradiction.
Qed.

(* ------------------------------------------------------------------ Glob *)

Theorem glob_correct P S : exists b, glob P S = Ok b /\ (b = true <-> matches P S).
Proof.
  unfold glob.
  destruct (glob_loop_correct P S (glob_fuel P S) (mkG 0 0 None 0)) as (r & E & Hr).
  - apply (inv0' P S [] P S); auto. constructor.
  - unfold gmeasure, glob_fuel; simpl. lia.
  - rewrite E. simpl. destruct r as [i|]; simpl in Hr.
    + destruct Hr as (X & R & -> & -> & HM).
      destruct (skip_stars_correct R X (List.length (X ++ R) + 1)) as (i & E' & Hi).
      { rewrite app_length. lia. }
      rewrite E'. simpl. eexists; split; [reflexivity|].
      rewrite Hi, HM. symmetry. apply matches_nil_r.
    + exists false. split; [reflexivity|]. split; [discriminate|contradiction].
Qed.

Theorem glob_total P S : exists b, glob P S = Ok b.
Proof. destruct (glob_correct P S) as (b & E & _). eauto. Qed.

Theorem glob_no_panic P S : glob P S <> Panic /\ glob P S <> Err.
Proof. destruct (glob_total P S) as (b & ->). split; discriminate. Qed.

Theorem glob_iff_matches P S b : glob P S = Ok b <-> (b = true <-> matches P S).
Proof.
  destruct (glob_correct P S) as (b0 & E & H). rewrite E. split.
  - intro Hb. injection Hb as <-. exact H.
  - intro Hb. f_equal. destruct b, b0; try reflexivity.
    + exact (proj2 H (proj1 Hb eq_refl)).
    + symmetry. exact (proj2 Hb (proj1 H eq_refl)).
Qed.

Theorem glob_eq_matches_b P S : glob P S = Ok (matches_b P S).
Proof.
  apply glob_iff_matches. apply matches_b_spec.
Qed.

Theorem glob_iff_instantiate P S :
  glob P S = Ok true <-> exists fills, instantiate P fills = Some S.
Proof.
  rewrite glob_iff_matches. split.
  - intro H. apply matches_instantiate. now apply H.
  - intros (fills & H). split; [intro|reflexivity]. eapply instantiate_matches; eauto.
Qed.

(* ------------------------------------------------------------------ MatchHost *)

Lemma any_pattern_spec pats h :
  exists b, any_pattern pats h = Ok b /\ (b = true <-> exists p, In p pats /\ matches p h).
Proof.
  induction pats as [|p pats (b & E & IH)]; simpl.
  - exists false. split; [reflexivity|]. split; [discriminate|]. intros (p & [] & _).
  - destruct (glob_correct p h) as (b0 & E0 & H0). rewrite E0. simpl. destruct b0.
    + exists true. split; [reflexivity|]. split; [|reflexivity]. intros _. exists p. split; [now left|].
      now apply H0.
    + exists b. split; [exact E|]. rewrite IH. split.
      * intros (q & Hq & M). exists q. split; [now right|assumption].
      * intros (q & [->|Hq] & M).
        -- apply H0 in M. discriminate.
        -- eauto.
Qed.

Theorem match_host_loop_spec h : forall hosts host,
  exists l, selected h hosts l /\ match_host_loop hosts h host = Ok (fold_left merge l host).
Proof.
  induction hosts as [|b hosts IH]; intro host; simpl.
  - exists []. split; [constructor|reflexivity].
  - destruct (any_pattern_spec (hb_pats b) h) as (m & E & Hm). rewrite E. simpl.
    destruct m.
    + destruct (IH (merge host b)) as (l & Hs & El). exists (b :: l). split; [|exact El].
      constructor; [|assumption]. apply Hm. reflexivity.
    + destruct (IH host) as (l & Hs & El). exists l. split; [|exact El].
      apply sel_out; [|assumption]. intro Hb. apply Hm in Hb. discriminate.
Qed.

Theorem match_host_spec global hosts h :
  exists l, selected h hosts l /\ match_host global hosts h = Ok (fold_left merge l global).
Proof. apply match_host_loop_spec. Qed.

(* `selected` determines its result, and it is the sub-list of exactly the matching blocks *)
Lemma selected_fun h hosts : forall l1 l2, selected h hosts l1 -> selected h hosts l2 -> l1 = l2.
Proof.
  induction hosts as [|b hosts IH]; intros l1 l2 H1 H2; inversion H1; subst; inversion H2; subst;
    try reflexivity; try contradiction.
  - f_equal. auto.
  - auto.
Qed.

Lemma selected_in h hosts l : selected h hosts l ->
  forall b, In b l <-> (In b hosts /\ block_matches h b).
Proof.
  induction 1 as [|b r l Hb _ IH|b r l Hb _ IH]; intro x; simpl.
  - tauto.
  - rewrite IH. split.
    + intros [<-|[? ?]]; auto.
    + intros [[<-|?] ?]; auto.
  - rewrite IH. split.
    + intros [? ?]; auto.
    + intros [[<-|?] ?]; [contradiction|auto].
Qed.

(* order is kept: the selected list is a sub-sequence of the configured list *)
Inductive subseq {A} : list A -> list A -> Prop :=
| ss_nil : subseq [] []
| ss_keep x l r : subseq l r -> subseq (x :: l) (x :: r)
| ss_drop x l r : subseq l r -> subseq l (x :: r).

Lemma selected_subseq h hosts l : selected h hosts l -> subseq l hosts.
Proof. induction 1; constructor; auto. Qed.

(* what the merged result shows of the applied blocks *)
Lemma merged_ca l : forall host,
  hb_ca (fold_left merge l host) = hb_ca host ++ flat_map hb_ca l.
Proof.
  induction l as [|b l IH]; intro host; simpl.
  - now rewrite app_nil_r.
  - rewrite IH. simpl. now rewrite app_assoc.
Qed.

Lemma merged_hostname l : forall host,
  hb_hostname (fold_left merge l host) = last_set hb_hostname l (hb_hostname host).
Proof. unfold last_set. induction l as [|b l IH]; intro host; simpl; [reflexivity|]. now rewrite IH. Qed.

Lemma merged_user l : forall host,
  hb_user (fold_left merge l host) = last_set hb_user l (hb_user host).
Proof. unfold last_set. induction l as [|b l IH]; intro host; simpl; [reflexivity|]. now rewrite IH. Qed.

Lemma merged_pats l : forall host, hb_pats (fold_left merge l host) = hb_pats host.
Proof. induction l as [|b l IH]; intro host; simpl; [reflexivity|]. now rewrite IH. Qed.

(* ------------------------------------------------------------------ VirtualHosts.Match *)

Definition vhost_post (k : nat) (pats : list bytes) (name : bytes) (r : option nat) : Prop :=
  match r with
  | Some i => exists pre p post, pats = pre ++ p :: post /\ i = (k + List.length pre)%nat /\
                                 matches p name /\ Forall (fun q => ~ matches q name) pre
  | None => Forall (fun q => ~ matches q name) pats
  end.

Lemma vhost_match_from_spec name : forall pats k,
  exists r, vhost_match_from k pats name = Ok r /\ vhost_post k pats name r.
Proof.
  induction pats as [|p pats IH]; intro k; simpl.
  - exists None. split; [reflexivity|constructor].
  - destruct (glob_correct p name) as (b & E & Hb). rewrite E. simpl. destruct b.
    + exists (Some k). split; [reflexivity|]. exists [], p, pats. simpl.
      repeat split; auto. now apply Hb.
    + destruct (IH (S k)) as (r & Er & Hr). exists r. split; [exact Er|].
      assert (Hn : ~ matches p name) by (intro M; apply Hb in M; discriminate).
      destruct r as [i|]; simpl in *.
      * destruct Hr as (pre & q & post & -> & -> & M & Hpre).
        exists (p :: pre), q, post. simpl. repeat split; auto; lia.
      * constructor; assumption.
Qed.

Theorem vhost_match_spec pats name :
  exists r, vhost_match pats name = Ok r /\
    match r with
    | Some i => nth_error pats i <> None /\
                (forall p, nth_error pats i = Some p -> matches p name) /\
                (forall i' q, (i' < i)%nat -> nth_error pats i' = Some q -> ~ matches q name)
    | None => forall q, In q pats -> ~ matches q name
    end.
Proof.
  destruct (vhost_match_from_spec name pats O) as (r & E & Hr).
  exists r. split; [exact E|]. destruct r as [i|]; simpl in Hr.
  - destruct Hr as (pre & p & post & -> & -> & M & Hpre). simpl.
    assert (En : nth_error (pre ++ p :: post) (List.length pre) = Some p).
    { rewrite nth_error_app2 by lia. now rewrite Nat.sub_diag. }
    repeat split.
    + rewrite En. discriminate.
    + intros p' Hp'. rewrite En in Hp'. injection Hp' as <-. exact M.
    + intros i' q Hlt Hq. rewrite nth_error_app1 in Hq by assumption.
      apply nth_error_In in Hq. rewrite Forall_forall in Hpre. auto.
  - rewrite Forall_forall in Hr. exact Hr.
Qed.

Theorem matches_iff_instantiate p s : matches p s <-> exists fills, instantiate p fills = Some s.
Proof.
  split; [apply matches_instantiate|]. intros (fills & H). eapply instantiate_matches; eauto.
Qed.

(* MatchHost, stated on the observable fields of the merged result *)
Theorem match_host_observable global hosts h :
  exists l r, selected h hosts l /\ match_host global hosts h = Ok r /\
    hb_ca r = hb_ca global ++ flat_map hb_ca l /\
    hb_hostname r = last_set hb_hostname l (hb_hostname global) /\
    hb_user r = last_set hb_user l (hb_user global) /\
    hb_pats r = hb_pats global.
Proof.
  destruct (match_host_spec global hosts h) as (l & Hs & E).
  exists l, (fold_left merge l global). repeat split; auto.
  - apply merged_ca.
  - apply merged_hostname.
  - apply merged_user.
  - apply merged_pats.
Qed.

Theorem selected_exact h hosts l : selected h hosts l ->
  subseq l hosts /\ (forall b, In b l <-> (In b hosts /\ block_matches h b)) /\
  (forall l', selected h hosts l' -> l' = l).
Proof.
  intro H. split; [eapply selected_subseq; eauto|]. split; [apply selected_in; auto|].
  intros l' H'. eapply selected_fun; eauto.
Qed.
