(* Correspondence entry point for C16: the driver samples, on a real Reliable tube and its muxer,
   (tubeState, sender.closed, r.closed closed?, muxer state) while a shutdown scenario runs.  The
   checker verifies that every sample satisfies the projections of the proved invariant of
   Model/Shutdown.v and that consecutive samples are connected in the model's tube state graph
   (states only move along created -> initiated -> {closeWait -> lastAck | finWait1 -> {finWait2 |
   closing}} -> closed, with the forced / error jump to closed from anywhere), and that the
   monotone observables (closed signal, muxer state) never go back. *)
From Hop Require Import Base Shutdown ShutdownEdges.
Open Scope N_scope.

(* the graph is Proofs/ShutdownEdges.tedge: exactly the reachable-edge relation of Shutdown.step
   (Properties/C16.v c16_state_graph_exact); tubeState numbers are those of tubes/reliable.go *)
Definition ts_of (n : N) : tstate :=
  match n with
  | 0 => TCreated | 1 => TInitiated | 2 => TCloseWait | 3 => TLastAck
  | 4 => TFinWait1 | 5 => TFinWait2 | 6 => TClosing | _ => TClosed
  end.
Definition reach (n : nat) (a b : N) : bool := treach n (ts_of a) (ts_of b).

Record smp := mkSmp { o_st : N; o_ms : N; o_sc : bool; o_rc : bool }.
Definition dec (c : N) : smp :=
  let r := c mod 64 in mkSmp (r / 8) ((r mod 8) / 2) (64 <=? c) (N.odd r).

Definition smp_ok (s : smp) : bool :=
  (o_st s <=? 7) && (o_ms s <=? 2) &&
  (negb (o_rc s) || (o_st s =? 7)) &&                    (* r.closed closed => tubeState = closed *)
  (negb (o_st s =? 0) || o_sc s) &&                      (* created => sender not started *)
  (negb (o_ms s =? 2) || (o_rc s && (o_st s =? 7))).     (* muxer stopped => the tube is closed *)

Definition pair_ok (a b : smp) : bool :=
  reach 4 (o_st a) (o_st b) && (o_ms a <=? o_ms b) && (negb (o_rc a) || o_rc b).

Fixpoint trace_ok (l : list smp) : bool :=
  match l with
  | [] => true
  | a :: r => smp_ok a && match r with [] => true | b :: _ => pair_ok a b end && trace_ok r
  end.

Definition c16_trace_ok (l : list N) : bool := trace_ok (map dec l).
