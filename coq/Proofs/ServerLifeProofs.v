(* ServerLifeProofs.v — invariants of the transport.Server lifecycle system (Model/ServerLife.v): every
   schedule, any number of goroutines calling Serve / Close / Accept / AcceptTimeout and
   ReadMsg / WriteMsg / Close on server handles, handshakes completing at any time or never. *)
From Hop Require Import Base ConcBase ConcUtil ServerLife.
From Coq Require Import Lia Arith Permutation.
Local Open Scope nat_scope.

Definition closerA (t : vthread) : bool :=
  match vpcv t with V_conn | V_stop | V_xwg | V_pending | V_handles | V_store | V_signal => true | _ => false end.
Definition preconn (t : vthread) : bool := match vpcv t with V_conn => true | _ => false end.
Definition prestop (t : vthread) : bool := match vpcv t with V_conn | V_stop => true | _ => false end.
Definition prewg (t : vthread) : bool := match vpcv t with V_conn | V_stop | V_xwg => true | _ => false end.
Definition prepend (t : vthread) : bool := match vpcv t with V_conn | V_stop | V_xwg | V_pending => true | _ => false end.
Definition prehandles (t : vthread) : bool :=
  match vpcv t with V_conn | V_stop | V_xwg | V_pending | V_handles => true | _ => false end.
Definition rdn (p : rdpc) : nat := match p with RD_check | RD_read => 1 | _ => 0 end.
Definition ckn (p : ckpc) : nat := match p with CK_check | CK_sel => 1 | _ => 0 end.

Definition VTInv (s : vsh) (t : vthread) : Prop :=
  match vpcv t with
  | V_ret => vclose_done s = true
  | V_xwaitdone => closing (vst s) = true
  | _ => True
  end.
Definition vret_ok (s : vsh) (kr : vop * N) : Prop := match kr with (VClose, r) => r = vconn_res s | _ => True end.

Record VInv (x : vst_t) : Prop := {
  b0 : vpanic (vshd x) = false;
  b1 : serve_runs (vshd x) <= 1 /\
       (vst (vshd x) = VReady -> serve_runs (vshd x) = 0 /\ rdp (vshd x) = RD_none /\ ckp (vshd x) = CK_none);
  b2 : gcnt closerA (vths x) = g2n (closing (vst (vshd x)) && negb (vclose_done (vshd x)));
  b3 : vclose_done (vshd x) = true -> closing (vst (vshd x)) = true;
  b4 : vconn_closes (vshd x) + gcnt preconn (vths x) = g2n (closing (vst (vshd x)));
  b5 : vconn_closed (vshd x) = Nat.leb 1 (vconn_closes (vshd x)) /\
       vclose_err (vshd x) = (if Nat.leb 1 (vconn_closes (vshd x)) then Some (vconn_res (vshd x)) else None);
  b6 : g2n (vstop_closed (vshd x)) + gcnt prestop (vths x) = g2n (closing (vst (vshd x)));
  b7 : g2n (pend_closed (vshd x)) + gcnt prepend (vths x) = g2n (closing (vst (vshd x)));
  b8 : vwg (vshd x) = rdn (rdp (vshd x)) + ckn (ckp (vshd x));
  b9 : closing (vst (vshd x)) = true -> gcnt prewg (vths x) = 1 \/ vwg (vshd x) = 0;
  b11 : closing (vst (vshd x)) = true -> gcnt prehandles (vths x) = 1 \/ Forall (fun b => b = true) (hclosed (vshd x));
  b12 : NoDup (pend (vshd x) ++ offered (vshd x)) /\
        (forall h, In h (pend (vshd x) ++ offered (vshd x)) -> h < length (hclosed (vshd x)));
  b13 : Forall (VTInv (vshd x)) (vths x);
  b14 : Forall (fun t => Forall (vret_ok (vshd x)) (vrets t)) (vths x)
}.

Lemma sub1 t : preconn t = true -> closerA t = true. Proof. unfold preconn, closerA; destruct (vpcv t); auto. Qed.
Lemma sub2 t : prestop t = true -> closerA t = true. Proof. unfold prestop, closerA; destruct (vpcv t); auto. Qed.
Lemma sub3 t : prewg t = true -> closerA t = true. Proof. unfold prewg, closerA; destruct (vpcv t); auto. Qed.
Lemma sub4 t : prepend t = true -> closerA t = true. Proof. unfold prepend, closerA; destruct (vpcv t); auto. Qed.
Lemma sub5 t : prehandles t = true -> closerA t = true. Proof. unfold prehandles, closerA; destruct (vpcv t); auto. Qed.

Lemma Forall_true_set_nth l i : Forall (fun b => b = true) l -> Forall (fun b => b = true) (set_nth l i).
Proof. intros H; revert i; induction H; intros [|i]; simpl; constructor; auto. Qed.
Lemma Forall_true_map l : Forall (fun b => b = true) (map (fun _ : bool => true) l).
Proof. induction l; simpl; constructor; auto. Qed.
Lemma set_nth_length l i : length (set_nth l i) = length l.
Proof. revert i; induction l; intros [|i]; simpl; auto. Qed.

Ltac vcases :=
  match goal with
  | H : vtstep ?tmo ?s ?t = Some (?s', ?t') |- _ =>
    unfold vtstep in H; destruct t as [pg p rs]; simpl in H;
    destruct p; [destruct pg as [|[ | | | | | | ] pg]; [discriminate H| | | | | | | ]|..];
    repeat (match type of H with
            | context [if ?b then _ else _] => let E := fresh "E" in destruct b eqn:E
            | context [match ?v with VReady => _ | _ => _ end] => is_var v; destruct v
            | context [match ?v with O => _ | S _ => _ end] => is_var v; destruct v
            | context [match ?v with nil => _ | _ :: _ => _ end] => is_var v; destruct v
            end; simpl in H); try discriminate H; injection H as <- <-
  end.

Ltac fwd :=
  repeat match goal with
         | H1 : ?P -> _, H2 : ?P |- _ => specialize (H1 H2)
         | H1 : ?a = ?a -> _ |- _ => specialize (H1 eq_refl)
         | H : _ /\ _ |- _ => destruct H
         end.

Lemma vt_mono s s' l : Forall (VTInv s) l ->
  (closing (vst s) = true -> closing (vst s') = true) -> (vclose_done s = true -> vclose_done s' = true) ->
  Forall (VTInv s') l.
Proof.
  intros H H1 H2. eapply Forall_impl; [|exact H]. intros t. unfold VTInv. destruct (vpcv t); auto.
Qed.

Ltac qlia :=
  repeat match goal with
  | H : Forall _ _ |- _ => clear H
  | H : NoDup _ |- _ => clear H
  | H : ?A -> ?B |- _ => lazymatch B with False => fail | _ => clear H end
  end; lia.

Ltac bprep :=
  repeat match goal with
         | H : Forall _ _ |- _ => clear H
         | H : NoDup _ |- _ => clear H
         | H : forall _, In _ _ -> _ |- _ => clear H
         | H : nth_error _ _ = _ |- _ => clear H
         end.
Ltac bsplit :=
  repeat match goal with
         | H : ?b = true -> false = true |- _ => destruct b; [discriminate (H eq_refl)|clear H]
         | H : context [if ?b then _ else _] |- _ => destruct b eqn:?
         | |- context [if ?b then _ else _] => destruct b eqn:?
         end.
Ltac bsolve :=
  first [ assumption | reflexivity
        | repeat match goal with
                 | |- _ /\ _ => split
                 | |- _ -> _ => intro
                 end;
          first [ assumption | reflexivity | discriminate
                | bprep; simpl in *; fwd; subst; simpl in *;
                  first [ congruence | lia
                        | unfold g2n in *; simpl in *; bsplit; simpl in *; fwd;
                          first [ congruence | lia | left; lia | right; lia ] ] ] ].

Lemma perm_rot (n : nat) pd off : Permutation ((n :: pd) ++ off) (pd ++ off ++ [n]).
Proof.
  simpl. rewrite app_assoc. apply Permutation_cons_append.
Qed.
Lemma nodup_rot (n : nat) pd off : NoDup ((n :: pd) ++ off) -> NoDup (pd ++ off ++ [n]).
Proof. intros H. eapply Permutation_NoDup; [apply perm_rot|exact H]. Qed.
Lemma in_rot (n : nat) pd off h : In h (pd ++ off ++ [n]) -> In h ((n :: pd) ++ off).
Proof. intros H. eapply Permutation_in; [apply Permutation_sym, perm_rot|exact H]. Qed.

Lemma vinv_th x i tmo t s' t' : VInv x -> nth_error (vths x) i = Some t -> vtstep tmo (vshd x) t = Some (s', t') ->
  VInv (mkVSt s' (gupd (vths x) i t')).
Proof.
  intros I Hn H. destruct x as [s l]. simpl in *.
  destruct I as [B0 [B1 B1'] B2 B3 B4 [B5 B5'] B6 B7 B8 B9 B11 [B12 B12'] B13 B14]; simpl in *.
  pose proof (gcnt_upd closerA l i t t' Hn) as Cc.
  pose proof (gcnt_upd preconn l i t t' Hn) as C1.
  pose proof (gcnt_upd prestop l i t t' Hn) as C2.
  pose proof (gcnt_upd prewg l i t t' Hn) as C3.
  pose proof (gcnt_upd prepend l i t t' Hn) as C4.
  pose proof (gcnt_upd prehandles l i t t' Hn) as C5.
  pose proof (gcnt_sub preconn closerA l sub1) as S1.
  pose proof (gcnt_sub prestop closerA l sub2) as S2.
  pose proof (gcnt_sub prewg closerA l sub3) as S3.
  pose proof (gcnt_sub prepend closerA l sub4) as S4.
  pose proof (gcnt_sub prehandles closerA l sub5) as S5.
  assert (Hcl : closerA t = true -> closing (vst s) = true /\ vclose_done s = false /\ gcnt closerA l = 1).
  { intros E. pose proof (gcnt_mem _ _ _ _ Hn E). rewrite B2 in *.
    destruct (closing (vst s)), (vclose_done s); simpl in *; try lia; auto. }
  assert (Hz : forall p, (forall u, p u = true -> closerA u = true) -> closerA t = true -> p t = false -> gcnt p l = 0).
  { intros p Hp E1 E2. destruct (Hcl E1) as (_ & _ & E3). pose proof (gcnt_sub_strict p closerA l i t Hp Hn E2 E1). lia. }
  pose proof (gcnt_mem prestop l i t Hn) as M2.
  pose proof (gcnt_mem prepend l i t Hn) as M4.
  pose proof (Forall_nth_error _ _ _ _ B13 Hn) as Ht.
  pose proof (Forall_nth_error _ _ _ _ B14 Hn) as Hr.
  assert (Hcd : vclose_done s = true -> vclose_err s = Some (vconn_res s)).
  { intros E. specialize (B3 E). rewrite B3, E in B2. simpl in B2. rewrite B3 in B4. simpl in B4.
    assert (vconn_closes s = 1) by lia. rewrite B5', H0. reflexivity. }
  destruct s as [vs cc sc w rd ck pd cp pc hc cd ce cr pn sr ccl off]. unfold VTInv, vret_ok in Ht, Hr. unfold with_v in *. simpl in *.
  vcases; unfold vgoto, vfin, vstart, vstartfin in *; simpl in *.
  all: try (specialize (Hcl eq_refl); destruct Hcl as (Hc1 & Hc2 & Hc3)).
  all: try (pose proof (Hz preconn sub1 eq_refl eq_refl) as Z1).
  all: try (pose proof (Hz prestop sub2 eq_refl eq_refl) as Z2).
  all: try (pose proof (Hz prewg sub3 eq_refl eq_refl) as Z3).
  all: try (pose proof (Hz prepend sub4 eq_refl eq_refl) as Z4).
  all: try (pose proof (Hz prehandles sub5 eq_refl eq_refl) as Z5).
  all: clear Hz; simpl in *.
  all: try match type of Hc1 with ?c = true => destruct c eqn:Ecl; [|discriminate Hc1] end.
  all: try match type of Hc2 with ?c = false => destruct c eqn:Ecd; [discriminate Hc2|] end.
  all: simpl in *.
  all: try (rewrite (Hcd Ht) in *).
  all: [> (constructor; simpl; try match goal with EE : closing _ = _ |- _ => rewrite !EE end; simpl;
    [> try solve [rewrite ?B0; simpl; first [reflexivity | bsolve]]
     | try solve [bsolve] | try solve [bsolve] | try solve [bsolve] | try solve [bsolve]
     | try solve [first [split; [assumption|assumption] | split; reflexivity | bsolve ]]
     | try solve [bsolve] | try solve [bsolve] | try solve [bsolve] | try solve [bsolve]
     | intro Hx; try solve [first [ right; apply Forall_true_map
                       | first [specialize (B11 Hx) | match goal with EE : closing _ = true |- _ => specialize (B11 EE) end];
                         destruct B11 as [B11|B11];
                         [first [left; bprep; lia | exfalso; bprep; simpl in *; lia] | right; auto using Forall_true_set_nth]
                       | left; bprep; simpl in *; lia ]]
     | rewrite ?set_nth_length, ?map_length;
       try solve [first [ split; assumption
             | split; [apply nodup_rot; assumption | intros hh Hh; apply B12', in_rot, Hh] ]]
     | try solve [apply Forall_gupd; [eapply vt_mono; [exact B13| simpl; intros; congruence | simpl; intros; congruence]
                          | unfold VTInv; simpl; auto]]
     | try solve [apply Forall_gupd; [exact B14 | simpl; try assumption;
                                       try (apply Forall_app; split; [assumption| constructor; [simpl|constructor]]); auto]] ]) .. ].
Qed.

Lemma nodup_snoc_fresh (pd off : list nat) n h :
  NoDup (pd ++ off) -> (forall k, In k (pd ++ off) -> k < n) -> n <= h -> NoDup ((pd ++ [h]) ++ off).
Proof.
  intros H1 H2 H3. eapply Permutation_NoDup with (l := h :: pd ++ off).
  - rewrite <- app_assoc. simpl. apply Permutation_middle.
  - constructor; auto. intros Hin. specialize (H2 _ Hin). lia.
Qed.
Lemma in_snoc_mid (pd off : list nat) h k : In k ((pd ++ [h]) ++ off) -> k = h \/ In k (pd ++ off).
Proof.
  rewrite <- app_assoc. simpl. intros H. apply in_app_or in H. destruct H as [H|[H|H]]; auto.
  - right. apply in_or_app. auto.
  - right. apply in_or_app. auto.
Qed.

Lemma vinv_env x a x' : VInv x -> (forall i tmo, a <> VT i tmo) -> vstep x a = Some x' -> VInv x'.
Proof.
  intros I Ha H. destruct x as [s l]. unfold vstep in H. simpl in H.
  destruct I as [B0 [B1 B1'] B2 B3 B4 [B5 B5'] B6 B7 B8 B9 B11 [B12 B12'] B13 B14]; simpl in *.
  rewrite B0 in H.
  destruct s as [vs cc sc w rd ck pd cp pc hc cd ce cr pn sr ccl off]. unfold with_v in *. simpl in *.
  destruct a as [i tmo| | | | ]; [exfalso; eapply Ha; reflexivity|..].
  all: repeat (match type of H with
            | context [if ?b then _ else _] => let E := fresh "E" in destruct b eqn:E
            | context [match ?v with VReady => _ | _ => _ end] => is_var v; destruct v
            | context [match ?v with RD_none => _ | _ => _ end] => is_var v; destruct v
            | context [match ?v with CK_none => _ | _ => _ end] => is_var v; destruct v
            end; simpl in H); try discriminate H; injection H as <-.
  all: simpl in *.
  all: [> (constructor; simpl;
    [> try solve [rewrite ?B0; simpl; first [reflexivity | bsolve]]
     | try solve [bsolve] | try solve [bsolve] | try solve [bsolve] | try solve [bsolve]
     | try solve [split; assumption]
     | try solve [bsolve] | try solve [bsolve] | try solve [bsolve] | try solve [bsolve]
     | try solve [assumption | intro Hx; discriminate Hx]
     | try solve [split; assumption]
     | try solve [eapply vt_mono; [exact B13| simpl; intros; congruence | simpl; intros; congruence]]
     | try solve [exact B14] ]) .. ].
  - split.
    + eapply nodup_snoc_fresh; [exact B12|exact B12'|lia].
    + intros h Hh. rewrite app_length. simpl. apply in_snoc_mid in Hh. destruct Hh as [->|Hh]; [lia|].
      specialize (B12' _ Hh). lia.
  - split; [assumption|]. intros h Hh. rewrite app_length. simpl. specialize (B12' _ Hh). lia.
Qed.

Lemma vinv_step x a x' : VInv x -> vstep x a = Some x' -> VInv x'.
Proof.
  intros I H. destruct a as [i tmo| | | | ].
  2-5: (eapply vinv_env; [exact I| | exact H]; intros ? ? Hq; discriminate Hq).
  unfold vstep in H. destruct (vpanic (vshd x)); [discriminate|].
  destruct (nth_error (vths x) i) as [t|] eqn:Hn; [|discriminate].
  destruct (vtstep tmo (vshd x) t) as [[s' t']|] eqn:Hs; [|discriminate].
  injection H as <-. eapply vinv_th; eauto.
Qed.

Lemma vinv_init sv nh cap cres progs : VInv (vinit sv nh cap cres progs).
Proof.
  assert (Hz : forall p, (forall t, vpcv t = VIdle -> p t = false) ->
                         gcnt p (map (fun p => mkVT p VIdle []) progs) = 0).
  { intros p Hp. induction progs; simpl; auto. rewrite Hp; simpl; auto. }
  assert (Hf : forall P : vthread -> Prop, (forall pg, P (mkVT pg VIdle [])) ->
                                          Forall P (map (fun p => mkVT p VIdle []) progs)).
  { clear Hz. intros P HP. induction progs; simpl; constructor; auto. }
  unfold vinit, vsh_init. destruct sv; constructor; simpl; auto; try lia.
  all: try (rewrite Hz; [reflexivity| intros t Ht; unfold closerA, preconn, prestop, prewg, prepend, prehandles; rewrite Ht; reflexivity]).
  all: try (apply Hf; intros; unfold VTInv; simpl; auto).
  all: try (split; [lia | intros; discriminate]).
  all: try discriminate.
  - split; [apply seq_NoDup|]. intros h Hh. apply in_seq in Hh. rewrite repeat_length. lia.
  - split; [constructor|]. intros h [].
Qed.

Theorem vinv_reachable sv nh cap cres progs x : vreachable sv nh cap cres progs x -> VInv x.
Proof.
  intros [l Hl]. revert x Hl.
  assert (G : forall l' x0 x, VInv x0 -> vrun x0 l' = Some x -> VInv x).
  { clear. induction l' as [|a l IH]; intros x0 x I H; simpl in H.
    - inversion H; subst; exact I.
    - destruct (vstep x0 a) as [x1|] eqn:E; [|discriminate]. eapply IH; [eapply vinv_step; eauto|exact H]. }
  intros x Hl. eapply G; [apply vinv_init|exact Hl].
Qed.
