(* ConcBase.v — list update used by the interleaving models (definitions only). *)
From Hop Require Import Base.
Fixpoint gupd {A} (l : list A) (i : nat) (x : A) : list A :=
  match l, i with
  | [], _ => []
  | _ :: r, O => x :: r
  | y :: r, S i' => y :: gupd r i' x
  end.
