#!/bin/sh
# regenerates _CoqProject from the files present (so branches adding files never conflict)
cd "$(dirname "$0")"
# build artefacts whose source is gone (renamed/deleted files) would confuse coqc/coqchk
for d in Model Proofs Properties Corr; do for f in $d/*.vo $d/*.vok $d/*.vos $d/*.glob; do [ -e "$f" ] || continue; b="${f%.*}"; [ -e "$b.v" ] || rm -f "$f" "$d/.$(basename "$b").aux"; done; done
{ echo "-Q Model Hop"; echo "-Q Proofs Hop"; echo "-Q Properties Hop"; echo "-Q Corr Hop";
  echo "-arg -w -arg -notation-overridden,-deprecated-hint-without-locality,-deprecated-instance-without-locality";
  ls Model/*.v Proofs/*.v Properties/*.v Corr/*.v 2>/dev/null | sort; } > _CoqProject.new
if ! cmp -s _CoqProject.new _CoqProject; then mv _CoqProject.new _CoqProject; coq_makefile -f _CoqProject -o Makefile >/dev/null; else rm _CoqProject.new; fi
[ -f Makefile ] || coq_makefile -f _CoqProject -o Makefile >/dev/null
