// c05: user authorization. Generates histories of SetFile / EnableAuthgrants / AddAuthGrant /
// Login / direct AuthorizeKey / AuthorizeKeyAuthGrant calls, runs them on a real HopServer with an
// in-memory file system (logins through the real hopSession.checkAuthorization over an in-memory
// tube muxer, reading the confirmation byte as a client does), evaluates the C05 specification
// oracle on what the implementation did, and emits the history + observations for the Coq model.
package main

import (
	"fmt"
	"strings"

	"verifharness/hv"
	ax "verifharness/hvxauthz"
)

var users = []string{"alice", "bob", "carol"}

type hist struct {
	class string
	ops   []*ax.Op
}

func run(pool [][32]byte, h hist) {
	w := ax.NewWorld(pool)
	defer w.Close()
	or := ax.NewOracle(pool)
	e := ax.NewEnc(pool)
	verdict := ax.Verdict{OK: true}
	var opsCoq, viewsCoq, desc []string
	nt := false
	for i, o := range h.ops {
		var v ax.View
		panicked, msg := hv.Catch(func() { v = w.Apply(o) })
		if panicked {
			verdict = ax.Verdict{OK: false, Sig: "C05:panic-during-authorization", What: fmt.Sprintf("op %d %s panicked: %s", i, o.Desc(), msg)}
			break
		}
		if r := or.Judge(o, v); !r.OK && verdict.OK {
			r.What = fmt.Sprintf("op %d: %s", i, r.What)
			verdict = r
		}
		opsCoq = append(opsCoq, o.Coq(e))
		viewsCoq = append(viewsCoq, v.Coq(e))
		desc = append(desc, o.Desc())
		if o.Kind == "LG" || o.Kind == "AK" || o.Kind == "AR" {
			nt = true
		}
	}
	d := strings.Join(desc, " ; ")
	hv.Emit(hv.Case{Fn: "c05_ok", Coq: e.Wrap(hv.Tuple(ax.ParseTable(e, h.ops), hv.List(opsCoq), hv.List(viewsCoq), w.Probes(e, h.ops))),
		Class: h.class, Desc: d, Spec: verdict.OK, Sig: verdict.Sig, What: verdict.What, NT: nt,
		Replay: map[string]interface{}{"history": desc}})
}

func main() {
	r := hv.NewRand(hv.Seed())
	pool := make([][32]byte, 7)
	for i := range pool {
		copy(pool[i][:], r.Bytes(32))
	}
	pool[3][31] = 0      // a listed key ending in a zero byte: its 31-byte truncation must stay malformed
	pool[4] = pool[0]    // never listed on purpose; differs from the listed K0 in the last byte only
	pool[4][31] ^= 1     //
	pool[5] = [32]byte{} // the all-zero key
	pool[6] = pool[1]    // differs from the listed K1 in the first byte only
	pool[6][0] ^= 0x80
	listed := pool[:4]   // keys that files may list; K4, K5 appear in files only by accident

	setFile := func(u string, kind string) *ax.Op {
		switch kind {
		case "nouser":
			return &ax.Op{Kind: "SF", User: u, FKind: ax.FNoUser}
		case "missing":
			return &ax.Op{Kind: "SF", User: u, FKind: ax.FMissing}
		case "dir":
			return &ax.Op{Kind: "SF", User: u, FKind: ax.FDir}
		}
		c, _ := ax.GenFile(r, kind, listed)
		return &ax.Op{Kind: "SF", User: u, FKind: ax.FFile, Content: c}
	}
	fileKinds := []string{"wellformed", "wellformed", "mixed", "mixed", "onebad", "onebad", "empty", "missing", "dir", "nouser"}
	intent := func(u string, k int) *ax.Intent {
		return &ax.Intent{Type: byte(1 + r.Intn(5)), Start: int64(r.Intn(100)), Exp: int64(100 + r.Intn(100)), User: u, Key: k,
			Cmd: hv.Pick(r, []string{"", "ls", "cat /etc/passwd", "ls -l"})}
	}

	var hs []hist
	// regression cases: the fail-open defect fixed in hop-go (must now be refused) and close relatives
	for _, bad := range []string{"garbage", "# comment", "hop-dh-v1-AAAA", ax.KeyLine(pool[0])[:30], " x", "hop-dh-v1-" + strings.Repeat("A", 44)} {
		for _, order := range []int{0, 1} {
			lines := []string{ax.KeyLine(pool[0]), bad}
			if order == 1 {
				lines = []string{bad, ax.KeyLine(pool[0])}
			}
			content := []byte(strings.Join(lines, "\n") + "\n")
			hs = append(hs, hist{"regression-fail-open", []*ax.Op{
				{Kind: "SF", User: "alice", FKind: ax.FFile, Content: content},
				{Kind: "LG", User: "alice", Key: 1}, {Kind: "LG", User: "alice", Key: 0}, {Kind: "AK", User: "alice", Key: 2},
				{Kind: "EN", B: true}, {Kind: "LG", User: "alice", Key: 1}}})
		}
	}

	n := hv.Scale(1100, 30000)
	for c := 0; c < n; c++ {
		class := hv.Pick(r, []string{"file-only", "file-only", "grants", "grants", "mixed", "mixed", "long-line"})
		if class == "long-line" && !r.Chance(8) {
			class = "file-only"
		}
		var ops []*ax.Op
		us := append([]string{}, users...)
		if r.Chance(20) {
			us = append(us, "ghost")
		}
		L := 5 + r.Intn(9)
		if class != "file-only" && r.Chance(70) {
			ops = append(ops, &ax.Op{Kind: "EN", B: true})
		}
		// initial files
		for _, u := range []string{users[r.Intn(3)], users[r.Intn(3)], users[r.Intn(3)]} {
			if class == "grants" {
				ops = append(ops, setFile(u, hv.Pick(r, []string{"missing", "missing", "wellformed", "empty", "onebad"})))
			} else if class == "long-line" {
				ops = append(ops, setFile(u, "long"))
			} else {
				ops = append(ops, setFile(u, hv.Pick(r, fileKinds)))
			}
			if class == "long-line" || r.Chance(45) {
				break
			}
		}
		var granted []ax.Intent
		for i := 0; i < L; i++ {
			u := hv.Pick(r, us)
			k := r.Intn(len(pool))
			x := r.Intn(100)
			switch {
			case class == "file-only" && x < 12, class == "mixed" && x < 8:
				uu := hv.Pick(r, users)
				ops = append(ops, setFile(uu, hv.Pick(r, fileKinds)))
			case class != "file-only" && x < 30:
				it := intent(hv.Pick(r, users), r.Intn(4))
				if r.Chance(4) {
					ops = append(ops, &ax.Op{Kind: "AG"})
				} else {
					ops = append(ops, &ax.Op{Kind: "AG", Intent: it})
					granted = append(granted, *it)
				}
			case class != "file-only" && x < 38:
				ops = append(ops, &ax.Op{Kind: "EN", B: r.Chance(60)})
			case x < 46:
				ops = append(ops, &ax.Op{Kind: "AK", User: u, Key: k})
			case class != "file-only" && x < 54:
				if len(granted) > 0 && r.Chance(60) {
					g := hv.Pick(r, granted)
					u, k = g.User, g.Key
				}
				ops = append(ops, &ax.Op{Kind: "AR", User: u, Key: k})
			default:
				// a login: aim at a granted user:key, at a near miss of one, or anywhere
				if len(granted) > 0 && r.Chance(55) {
					g := hv.Pick(r, granted)
					u, k = g.User, g.Key
					switch r.Intn(6) {
					case 0:
						u = hv.Pick(r, us) // same key, maybe another user
					case 1:
						k = r.Intn(len(pool)) // same user, maybe another key
					}
				}
				ops = append(ops, &ax.Op{Kind: "LG", User: u, Key: k})
				if r.Chance(25) {
					ops = append(ops, &ax.Op{Kind: "LG", User: u, Key: k}) // again: a consumed grant must not work twice
				}
			}
		}
		hs = append(hs, hist{class, ops})
	}
	// one long-lived server, files replaced in place: the answer must follow the file as it is NOW.
	// Every canonical key line has the same length, so rotating a key (or turning it into garbage
	// of the same length) changes neither the size nor - unless the writer advances it - the
	// modification time of the file.
	sameLenGarbage := func(k int) string {
		l := ax.KeyLine(pool[k])
		switch r.Intn(4) {
		case 0:
			return "#" + l[1:] // a comment of equal length
		case 1:
			return strings.Replace(l, "hop-dh-v1-", "hop-dh-v2-", 1)
		case 2:
			return l[:len(l)-1] + "!" // not base64
		}
		return strings.Repeat("x", len(l))
	}
	nr := hv.Scale(260, 4000)
	for c := 0; c < nr; c++ {
		var ops []*ax.Op
		us := []string{"alice", "bob", "carol"}[:2+r.Intn(2)]
		lines := map[string][]string{}
		keysOf := map[string][]int{} // key index per line, -1 = not a key line
		mt := map[string]int64{}
		advance := r.Chance(25)       // this writer advances the modification time on every rewrite
		write := func(u string) {
			o := &ax.Op{Kind: "SF", User: u, FKind: ax.FFile, Content: []byte(strings.Join(lines[u], "\n") + "\n")}
			if advance {
				mt[u] += 1 + int64(r.Intn(3))
				o.MTime = 1000 + mt[u]
			} else if r.Chance(30) {
				o.MTime = 1000 // a fixed, non-zero time that never moves
			}
			ops = append(ops, o)
		}
		if r.Chance(50) {
			ops = append(ops, &ax.Op{Kind: "EN", B: true})
		}
		for _, u := range us {
			n := 1 + r.Intn(3)
			for i := 0; i < n; i++ {
				k := r.Intn(4)
				lines[u] = append(lines[u], ax.KeyLine(pool[k]))
				keysOf[u] = append(keysOf[u], k)
			}
			write(u)
		}
		login := func(u string, k int) {
			if r.Chance(25) {
				ops = append(ops, &ax.Op{Kind: "AK", User: u, Key: k})
			} else {
				ops = append(ops, &ax.Op{Kind: "LG", User: u, Key: k})
			}
		}
		L := 4 + r.Intn(8)
		for i := 0; i < L; i++ {
			u := hv.Pick(r, us)
			if r.Chance(45) {
				// a login that fills whatever the server may remember about the file
				if len(keysOf[u]) > 0 && r.Chance(70) {
					if k := hv.Pick(r, keysOf[u]); k >= 0 {
						login(u, k)
						continue
					}
				}
				login(u, r.Intn(len(pool)))
				continue
			}
			// rewrite u's file in place
			j := r.Intn(len(lines[u]))
			oldK := keysOf[u][j]
			newK := -1
			switch x := r.Intn(100); {
			case x < 40: // key A -> key B, same length
				newK = r.Intn(len(pool))
				lines[u][j] = ax.KeyLine(pool[newK])
			case x < 65: // key -> garbage of the same length (the file no longer parses)
				lines[u][j] = sameLenGarbage(r.Intn(4))
			case x < 75 && len(lines[u]) > 1: // permutation of two lines
				i2 := (j + 1) % len(lines[u])
				lines[u][j], lines[u][i2] = lines[u][i2], lines[u][j]
				keysOf[u][j], keysOf[u][i2] = keysOf[u][i2], keysOf[u][j]
				oldK, newK = keysOf[u][i2], keysOf[u][j]
			case x < 85: // garbage / anything -> key (a repaired file)
				newK = r.Intn(4)
				lines[u][j] = ax.KeyLine(pool[newK])
			case x < 93: // different length: one more line
				newK = r.Intn(len(pool))
				lines[u] = append(lines[u], ax.KeyLine(pool[newK]))
				keysOf[u] = append(keysOf[u], newK)
				j = len(lines[u]) - 1
				oldK = -1
			default: // different length: white space added
				lines[u][j] = " " + lines[u][j]
				newK = oldK
			}
			if x := keysOf[u]; j < len(x) {
				x[j] = newK
			}
			write(u)
			// old and new keys right after the rewrite, other users in between
			if oldK >= 0 {
				login(u, oldK)
			}
			if r.Chance(40) {
				o := hv.Pick(r, us)
				login(o, r.Intn(len(pool)))
			}
			if newK >= 0 {
				login(u, newK)
			}
			if oldK >= 0 && r.Chance(30) {
				login(u, oldK)
			}
		}
		hs = append(hs, hist{"rotate-in-place", ops})
	}
	// near-entries built from the client's own key: the line is the only thing that could admit
	// the client, and it is not a well-formed entry (unless the shape happens to coincide with the
	// canonical text, which the oracle's own parser then recognises)
	nearHist := func(shape string, t int, placement int, u string) hist {
		var lines []string
		others := []int{}
		for k := 0; k < 4; k++ {
			if k != t {
				others = append(others, k)
			}
		}
		bad := ax.NearEntry(shape, pool[t])
		switch placement {
		case 0: // the only line
			lines = []string{bad}
		case 1: // after valid lines
			lines = []string{ax.KeyLine(pool[others[0]]), ax.KeyLine(pool[others[1]]), bad}
		case 2: // before valid lines
			lines = []string{bad, ax.KeyLine(pool[others[0]])}
		default: // between
			lines = []string{ax.KeyLine(pool[others[1]]), bad, ax.KeyLine(pool[others[0]])}
		}
		content := strings.Join(lines, "\n")
		if placement != 2 {
			content += "\n"
		}
		ops := []*ax.Op{
			{Kind: "SF", User: u, FKind: ax.FFile, Content: []byte(content)},
			{Kind: "LG", User: u, Key: t}, {Kind: "AK", User: u, Key: t}, {Kind: "LG", User: u, Key: others[0]},
			// the same bytes in a repaired file do admit the client, and only that client
			{Kind: "SF", User: u, FKind: ax.FFile, Content: []byte(ax.KeyLine(pool[t]) + "\n")},
			{Kind: "LG", User: u, Key: t}, {Kind: "LG", User: u, Key: others[0]},
		}
		return hist{"near-entry-of-client-key", ops}
	}
	// every shape once with a fixed placement rotation (deterministic part), then random combinations
	for i, shape := range ax.NearEntryShapes {
		hs = append(hs, nearHist(shape, i%len(pool), i%4, users[i%3]))
		hs = append(hs, nearHist(shape, (i+3)%len(pool), (i+1)%4, users[(i+1)%3]))
	}
	for c, nn := 0, hv.Scale(150, 4000); c < nn; c++ {
		hs = append(hs, nearHist(hv.Pick(r, ax.NearEntryShapes), r.Intn(len(pool)), r.Intn(4), hv.Pick(r, users)))
	}
	cases := make([]func(), len(hs))
	for i := range hs {
		h := hs[i]
		cases[i] = func() { run(pool, h) }
	}
	// logins racing with each other and with grant additions (lrace.go)
	cases = append(cases, lraceCases(r, pool)...)
	ax.RunCases(8, cases)
}
