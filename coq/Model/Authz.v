(* Authz.v — model of user authorization on a hop server (C05) and of what a session admitted
   through authorization grants may start (C07).  Definitions only.

   Transcribed Go code (hop-go, after the four `fix:` commits named in docs/C05.md / docs/C07.md):
     core/authorized_keys.go   ParseAuthorizedKeys (bufio.Scanner + strings.TrimSpace + keys.ParseDHPublicKey), Allowed
     hopserver/hopserver.go    AuthorizeKey, AddAuthGrant
     hopserver/target.go       AuthorizeKeyAuthGrant, checkCmd, checkIntent
     hopserver/session.go      checkAuthorization, the tube switch of start, startCodex (grant test), handleAgc
     authgrants/authgrants.go  AuthgrantMapSync.AddAuthGrant / RemoveAuthgrants, newAuthgrant
     authgrants/target.go      handleIntentCommunication
     authkeys/verify.go        SyncAuthKeySet.AddKey / RemoveKey

   The line parser keys.ParseDHPublicKey is an oracle  parse : bytes -> option key  (prefix check
   + base64 + length; its wire format belongs to C18).  Every theorem quantifies over it. *)
From Hop Require Import Base.
Open Scope N_scope.

Definition user := bytes.
Definition key := N.            (* an injective code of the 32 bytes of a keys.DHPublicKey; only ever compared *)

(* ------------------------------------------------------------------------------------------ *)
(* 1. the authorized_keys file                                                                 *)
(* ------------------------------------------------------------------------------------------ *)

(* bufio.ScanLines: tokens are the maximal segments between '\n'; a final unterminated segment is
   a token iff it is non-empty. *)
(* linear-time list reversal (stdlib rev is quadratic; files may hold 64 KiB lines) *)
Definition frev (l : bytes) : bytes := rev_append l [].

Fixpoint split_nl_acc (cur : bytes) (l : bytes) : list bytes :=
  match l with
  | [] => match cur with [] => [] | _ => [frev cur] end
  | b :: r => if b =? 10 then frev cur :: split_nl_acc [] r else split_nl_acc (b :: cur) r
  end.
Definition split_nl (l : bytes) : list bytes := split_nl_acc [] l.

(* bufio dropCR: one trailing '\r' is removed from the token *)
Definition drop_cr (l : bytes) : bytes :=
  match frev l with
  | 13 :: r => frev r
  | _ => l
  end.

(* strings.TrimSpace: leading and trailing Unicode White_Space runes are removed.  On bytes: the
   six ASCII spaces and the UTF-8 encodings of U+0085 U+00A0 U+1680 U+2000..U+200A U+2028 U+2029
   U+202F U+205F U+3000 (unicode.IsSpace).  Each multi-byte pattern is a start byte followed by
   continuation bytes, so utf8.DecodeRune on a prefix / utf8.DecodeLastRune on a suffix yields the
   rune exactly when the pattern is a prefix / suffix. *)
Definition space_runes : list bytes :=
  [[9]; [10]; [11]; [12]; [13]; [32];
   [194; 133]; [194; 160]; [225; 154; 128];
   [226; 128; 128]; [226; 128; 129]; [226; 128; 130]; [226; 128; 131]; [226; 128; 132];
   [226; 128; 133]; [226; 128; 134]; [226; 128; 135]; [226; 128; 136]; [226; 128; 137];
   [226; 128; 138]; [226; 128; 168]; [226; 128; 169]; [226; 128; 175]; [226; 129; 159];
   [227; 128; 128]].

Fixpoint strip_prefix (p l : bytes) : option bytes :=
  match p, l with
  | [], _ => Some l
  | x :: p', y :: l' => if x =? y then strip_prefix p' l' else None
  | _ :: _, [] => None
  end.

Fixpoint strip_one (pats : list bytes) (l : bytes) : option bytes :=
  match pats with
  | [] => None
  | p :: ps => match strip_prefix p l with Some r => Some r | None => strip_one ps l end
  end.

Fixpoint trim_fuel (n : nat) (pats : list bytes) (l : bytes) : bytes :=
  match n with
  | O => l
  | S n' => match strip_one pats l with Some r => trim_fuel n' pats r | None => l end
  end.
Definition trim_left (l : bytes) : bytes := trim_fuel (List.length l) space_runes l.
Definition trim_right (l : bytes) : bytes :=
  frev (trim_fuel (List.length l) (map (@rev N) space_runes) (frev l)).
Definition trim_space (l : bytes) : bytes := trim_right (trim_left l).

(* bufio.MaxScanTokenSize: a line of 65536 or more bytes (before its '\n') makes Scan return false
   with ErrTooLong; ParseAuthorizedKeys does not look at Scanner.Err, so parsing silently stops. *)
Definition max_token : N := 65536.

Section Parse.
  Variable parse : bytes -> option key.

  (* the loop of ParseAuthorizedKeys over the scanner's tokens *)
  Fixpoint parse_lines (ls : list bytes) : res (list key) :=
    match ls with
    | [] => Ok []
    | l :: r =>
        if max_token <=? len l then Ok []
        else
          let t := trim_space (drop_cr l) in
          match t with
          | [] => parse_lines r
          | _ => match parse t with
                 | None => Err
                 | Some k => ks <- parse_lines r ;; Ok (k :: ks)
                 end
          end
    end.
  Definition parse_authorized_keys (c : bytes) : res (list key) := parse_lines (split_nl c).

  (* specification side: the well-formed entries of a file, as a comprehension over its lines,
     independent of order, of other lines, of errors *)
  Definition entry_of_line (l : bytes) : option key :=
    match trim_space (drop_cr l) with [] => None | t => parse t end.
  Fixpoint filter_some {A} (l : list (option A)) : list A :=
    match l with [] => [] | Some a :: r => a :: filter_some r | None :: r => filter_some r end.
  Definition wf_entries (c : bytes) : list key := filter_some (map entry_of_line (split_nl c)).
End Parse.

(* AuthorizedKeys.Allowed *)
Fixpoint allowed (ks : list key) (k : key) : bool :=
  match ks with [] => false | x :: r => if x =? k then true else allowed r k end.

(* what fsystem.Open(<home>/.hop/authorized_keys) finds for a user *)
Inductive fentry :=
| FNoUser                 (* thunks.LookupUser fails *)
| FMissing                (* Open fails *)
| FDir                    (* Open succeeds, every Read fails (a directory) *)
| FFile (c : bytes).

(* ------------------------------------------------------------------------------------------ *)
(* 2. grants, sessions, server state                                                           *)
(* ------------------------------------------------------------------------------------------ *)

Record grant := mkGrant {
  g_id : N;            (* ghost: serial number given when stored; never read by the model's code *)
  g_type : N;          (* authgrants.GrantType byte: 1 Shell, 2 Command, 3 LocalPF, 4 RemotePF, 5 Acme *)
  g_start : Z;
  g_exp : Z;
  g_cmd : bytes;
  g_prin : N }.

Record intent := mkIntent {
  i_type : N; i_start : Z; i_exp : Z; i_user : user; i_key : key; i_cmd : bytes }.

Definition no_session : N := 4294967295.
(* authgrants.newAuthgrant, as called from HopServer.AddAuthGrant (PrincipalID(NoSession)) *)
Definition new_grant (id : N) (i : intent) : grant :=
  mkGrant id (i_type i) (i_start i) (i_exp i) (i_cmd i) no_session.

Record sess := mkSess {
  s_user : user;
  s_key : key;               (* transportConn.FetchClientLeaf().PublicKey *)
  s_using : bool;            (* usingAuthGrant *)
  s_actions : list grant }.  (* authorizedActions *)

Definition uk := (user * key)%type.
Definition uk_eqb (a b : uk) : bool := beq_bytes (fst a) (fst b) && (snd a =? snd b).

Record state := mkState {
  st_enabled : bool;                      (* config.EnableAuthgrants *)
  st_files : list (user * fentry);        (* environment: passwd + file system *)
  st_agmap : list (uk * list grant);      (* AuthgrantMapSync.agMap, flattened to user:key *)
  st_keys : list key;                     (* SyncAuthKeySet.keySet *)
  st_sess : list sess;                    (* sessions that passed user authorization; index = sid *)
  st_next : N }.                          (* ghost: next grant serial *)

Definition init_state : state := mkState false [] [] [] [] 0.

Definition set_enabled (st : state) (b : bool) :=
  mkState b (st_files st) (st_agmap st) (st_keys st) (st_sess st) (st_next st).
Definition set_files (st : state) f :=
  mkState (st_enabled st) f (st_agmap st) (st_keys st) (st_sess st) (st_next st).
Definition set_grants (st : state) m ks nx :=
  mkState (st_enabled st) (st_files st) m ks (st_sess st) nx.
Definition set_sess (st : state) ss :=
  mkState (st_enabled st) (st_files st) (st_agmap st) (st_keys st) ss (st_next st).

Fixpoint file_lookup (fs : list (user * fentry)) (u : user) : fentry :=
  match fs with
  | [] => FNoUser
  | (u', f) :: r => if beq_bytes u' u then f else file_lookup r u
  end.
Definition file_of (st : state) (u : user) : fentry := file_lookup (st_files st) u.

(* --- the grant map --- *)
Fixpoint ag_lookup (m : list (uk * list grant)) (x : uk) : option (list grant) :=
  match m with
  | [] => None
  | (y, l) :: r => if uk_eqb y x then Some l else ag_lookup r x
  end.
(* AddAuthGrant: append to the entry, creating it if needed *)
Fixpoint ag_add (m : list (uk * list grant)) (x : uk) (g : grant) : list (uk * list grant) :=
  match m with
  | [] => [(x, [g])]
  | (y, l) :: r => if uk_eqb y x then (y, l ++ [g]) :: r else (y, l) :: ag_add r x g
  end.
(* RemoveAuthgrants: delete the entry *)
Fixpoint ag_del (m : list (uk * list grant)) (x : uk) : list (uk * list grant) :=
  match m with
  | [] => []
  | (y, l) :: r => if uk_eqb y x then r else (y, l) :: ag_del r x
  end.

(* --- the key set --- *)
Fixpoint key_mem (ks : list key) (k : key) : bool :=
  match ks with [] => false | x :: r => (x =? k) || key_mem r k end.
Definition key_add (ks : list key) (k : key) : list key := if key_mem ks k then ks else k :: ks.
Fixpoint key_del (ks : list key) (k : key) : list key :=
  match ks with [] => [] | x :: r => if x =? k then key_del r k else x :: key_del r k end.

(* ------------------------------------------------------------------------------------------ *)
(* 3. the code                                                                                 *)
(* ------------------------------------------------------------------------------------------ *)

Inductive handler := HCodex | HAcmeNoop | HAgc | HStartPF | HHandlePF | HSize | HClose.

Section Code.
  Variable parse : bytes -> option key.

  (* HopServer.AuthorizeKey: true = returns nil *)
  Definition authorize_key (st : state) (u : user) (k : key) : bool :=
    match file_of st u with
    | FNoUser => false
    | FMissing => false
    | FDir => match parse_lines parse [] with Ok ks => allowed ks k | _ => false end
    | FFile c => match parse_authorized_keys parse c with
                 | Ok ks => allowed ks k
                 | _ => false            (* `return err` (was `return nil` before the fix) *)
                 end
    end.

  (* HopServer.AddAuthGrant *)
  Definition add_auth_grant (st : state) (oi : option intent) : state * option grant :=
    if negb (st_enabled st) then (st, None)
    else match oi with
         | None => (st, None)
         | Some i =>
             let g := new_grant (st_next st) i in
             (set_grants st (ag_add (st_agmap st) (i_user i, i_key i) g)
                            (key_add (st_keys st) (i_key i)) (st_next st + 1), Some g)
         end.

  (* HopServer.AuthorizeKeyAuthGrant *)
  Definition authorize_key_authgrant (st : state) (u : user) (k : key) : state * option (list grant) :=
    if st_enabled st then
      match ag_lookup (st_agmap st) (u, k) with
      | Some ags => (set_grants st (ag_del (st_agmap st) (u, k)) (key_del (st_keys st) k) (st_next st), Some ags)
      | None => (st, None)
      end
    else (st, None).

  (* hopSession.checkAuthorization (after the user-auth tube was accepted) *)
  Definition check_authorization (st : state) (u : user) (k : key) : state * option sess :=
    if authorize_key st u k then (st, Some (mkSess u k false []))
    else if st_enabled st then
           match authorize_key_authgrant st u k with
           | (st', Some ags) => (st', Some (mkSess u k true ags))
           | (st', None) => (st', None)
           end
         else (st, None).

  (* hopSession.checkCmd: first grant, in order, that is in time and matches; it is deleted *)
  Definition grant_live (now : Z) (g : grant) : bool :=
    (g_start g <=? now)%Z && (now <? g_exp g)%Z.     (* `g_start <= now` added by the fix *)
  Definition grant_matches_exec (cmd : bytes) (shell : bool) (g : grant) : bool :=
    (negb shell && (g_type g =? 2) && beq_bytes (g_cmd g) cmd) || (shell && (g_type g =? 1)).
  Fixpoint check_cmd (now : Z) (cmd : bytes) (shell : bool) (ags : list grant) : option (grant * list grant) :=
    match ags with
    | [] => None
    | ag :: r =>
        if grant_live now ag && grant_matches_exec cmd shell ag then Some (ag, r)
        else match check_cmd now cmd shell r with
             | Some (g, r') => Some (g, ag :: r')
             | None => None
             end
    end.

  (* hopSession.checkIntent; the certificate format check is an oracle bit (C04), `wall` is time.Now *)
  Definition check_intent (s : sess) (i : intent) (cert_ok : bool) (wall : Z) : bool :=
    if (i_exp i <? wall)%Z then false
    else if negb (beq_bytes (s_user s) (i_user i)) then false
    else if negb cert_ok then false
    else (1 <=? i_type i) && (i_type i <=? 4).

  (* the tube switch of hopSession.start *)
  Definition acme_only (s : sess) : bool :=
    match s_actions s with [g] => g_type g =? 5 | _ => false end.
  Definition dispatch (s : sess) (ty : N) (reliable : bool) : handler :=
    if reliable then
      if ty =? 1 then (if acme_only s then HAcmeNoop else HCodex)
      else if ty =? 2 then HAgc
      else if ty =? 5 then HStartPF
      else if ty =? 6 then HHandlePF
      else if ty =? 7 then HSize
      else HClose
    else
      if ty =? 6 then HHandlePF else HClose.
End Code.

(* ------------------------------------------------------------------------------------------ *)
(* 4. histories: operations, events, the step function                                         *)
(* ------------------------------------------------------------------------------------------ *)

Inductive op :=
| OSetFile (u : user) (f : fentry)
| OEnable (b : bool)
| OAddGrant (oi : option intent)                     (* HopServer.AddAuthGrant called on the server *)
| OApiKey (u : user) (k : key)                       (* HopServer.AuthorizeKey called directly *)
| OApiGrant (u : user) (k : key)                     (* HopServer.AuthorizeKeyAuthGrant called directly *)
| OLogin (u : user) (k : key)                        (* a connection with client key k asks to be user u *)
| OExec (sid : N) (cmd : bytes) (shell : bool) (t : Z)           (* exec tubes + command at clock t *)
| OPF (sid : N) (t : Z)                                          (* PFControl tube + forwarding request *)
| OIntent (sid : N) (i : intent) (cert_ok : bool) (wall : Z)     (* AuthGrant tube + one intent communication *)
| OTube (sid : N) (ty : N) (reliable : bool).                    (* any other tube *)

Inductive action :=
| AExec (cmd : bytes) (shell : bool)
| APF
| AIssue (i : intent).

Inductive via := ViaFile | ViaGrant (ags : list grant).

Inductive event :=
| EvSetFile (u : user) (f : fentry)
| EvEnable (b : bool)
| EvAdded (g : grant) (u : user) (k : key)          (* a grant was stored for u:k *)
| EvAddRefused
| EvApiKey (u : user) (k : key) (ok : bool)
| EvApiGrant (u : user) (k : key) (r : option (list grant))
| EvLogin (sid : N) (u : user) (k : key) (v : via)
| EvDenied (u : user) (k : key)
| EvStart (sid : N) (a : action) (t : Z) (used : option grant)   (* the server started the action *)
| EvRefuse (sid : N) (a : action) (t : Z)
| EvTube (sid : N) (h : handler)
| EvNoSession (sid : N).

Definition nth_sess (ss : list sess) (sid : N) : option sess := nth_error ss (N.to_nat sid).
Fixpoint update_nth {A} (l : list A) (n : nat) (a : A) : list A :=
  match l, n with
  | [], _ => []
  | _ :: r, O => a :: r
  | x :: r, S n' => x :: update_nth r n' a
  end.
Definition set_actions (s : sess) (a : list grant) := mkSess (s_user s) (s_key s) (s_using s) a.

Section Step.
  Variable parse : bytes -> option key.

  (* `gated` = the code after the two fixes that refuse authgrant tubes and port forwarding for a
     session admitted through grants (handleAgc, startPF / handlePF test usingAuthGrant first);
     gated = false is the tube switch as it was, kept for the refutation witnesses. *)
  Variable gated : bool.

  (* which handler effectively serves a tube: startPF / handlePF close it for a grant session *)
  Definition tube_outcome (s : sess) (ty : N) (reliable : bool) : handler :=
    match dispatch s ty reliable with
    | HStartPF => if gated && s_using s then HClose else HStartPF
    | HHandlePF => if gated && s_using s then HClose else HHandlePF
    | h => h
    end.

  Definition step_gen (st : state) (o : op) : state * list event :=
    match o with
    | OSetFile u f => (set_files st ((u, f) :: st_files st), [EvSetFile u f])
    | OEnable b => (set_enabled st b, [EvEnable b])
    | OAddGrant oi =>
        match add_auth_grant st oi, oi with
        | (st', Some g), Some i => (st', [EvAdded g (i_user i) (i_key i)])
        | (st', _), _ => (st', [EvAddRefused])
        end
    | OApiKey u k => (st, [EvApiKey u k (authorize_key parse st u k)])
    | OApiGrant u k =>
        let (st', r) := authorize_key_authgrant st u k in (st', [EvApiGrant u k r])
    | OLogin u k =>
        match check_authorization parse st u k with
        | (st', Some s) =>
            (set_sess st' (st_sess st' ++ [s]),
             [EvLogin (N.of_nat (List.length (st_sess st'))) u k (if s_using s then ViaGrant (s_actions s) else ViaFile)])
        | (st', None) => (st', [EvDenied u k])
        end
    | OExec sid cmd shell t =>
        match nth_sess (st_sess st) sid with
        | None => (st, [EvNoSession sid])
        | Some s =>
            match dispatch s 1 true with
            | HCodex =>
                (* startCodex *)
                if s_using s then
                  match check_cmd t cmd shell (s_actions s) with
                  | Some (g, rest) =>
                      (set_sess st (update_nth (st_sess st) (N.to_nat sid) (set_actions s rest)),
                       [EvStart sid (AExec cmd shell) t (Some g)])
                  | None => (st, [EvRefuse sid (AExec cmd shell) t])
                  end
                else (st, [EvStart sid (AExec cmd shell) t None])
            | h => (st, [EvTube sid h])
            end
        end
    | OPF sid t =>
        match nth_sess (st_sess st) sid with
        | None => (st, [EvNoSession sid])
        | Some s =>
            match dispatch s 5 true with
            | HStartPF =>
                (* startPF: refused for a grant session (no grant can authorize forwarding yet) *)
                if gated && s_using s then (st, [EvRefuse sid APF t])
                else (st, [EvStart sid APF t None])
            | h => (st, [EvTube sid h])
            end
        end
    | OIntent sid i cert_ok wall =>
        match nth_sess (st_sess st) sid with
        | None => (st, [EvNoSession sid])
        | Some s =>
            match dispatch s 2 true with
            | HAgc =>
                (* handleAgc: a grant session is refused first, then the coarse enable switch *)
                if gated && s_using s then (st, [EvRefuse sid (AIssue i) wall])
                else if negb (st_enabled st) then (st, [EvRefuse sid (AIssue i) wall])
                else if check_intent s i cert_ok wall then
                       match add_auth_grant st (Some i) with
                       | (st', Some g) => (st', [EvAdded g (i_user i) (i_key i); EvStart sid (AIssue i) wall None])
                       | (st', None) => (st', [EvRefuse sid (AIssue i) wall])
                       end
                     else (st, [EvRefuse sid (AIssue i) wall])
            | h => (st, [EvTube sid h])
            end
        end
    | OTube sid ty reliable =>
        match nth_sess (st_sess st) sid with
        | None => (st, [EvNoSession sid])
        | Some s => (st, [EvTube sid (tube_outcome s ty reliable)])
        end
    end.

  Definition exec1_gen (x : state * list event) (o : op) : state * list event :=
    let (st', evs) := step_gen (fst x) o in (st', snd x ++ evs).
  Definition run_gen (ops : list op) : state * list event := fold_left exec1_gen ops (init_state, []).
End Step.

(* the code as it is *)
Definition step (parse : bytes -> option key) := step_gen parse true.
Definition exec1 (parse : bytes -> option key) := exec1_gen parse true.
Definition run (parse : bytes -> option key) (ops : list op) : state * list event := run_gen parse true ops.
Definition trace (parse : bytes -> option key) (ops : list op) : list event := snd (run parse ops).
Definition final (parse : bytes -> option key) (ops : list op) : state := fst (run parse ops).
(* the tube switch before the two fixes *)
Definition trace_orig (parse : bytes -> option key) (ops : list op) : list event := snd (run_gen parse false ops).

(* ------------------------------------------------------------------------------------------ *)
(* 5. specification: what a trace must satisfy (declarative functions of the trace only)       *)
(* ------------------------------------------------------------------------------------------ *)

Definition file_at (tr : list event) (u : user) : fentry :=
  fold_left (fun acc e => match e with
                          | EvSetFile u' f => if beq_bytes u' u then f else acc
                          | _ => acc end) tr FNoUser.
Definition enabled_at (tr : list event) : bool :=
  fold_left (fun acc e => match e with EvEnable b => b | _ => acc end) tr false.

(* the grants stored for u:k and not yet handed out: those added since the last time the grants of
   u:k were handed out (to a login or to a direct AuthorizeKeyAuthGrant call) *)
Definition unconsumed (tr : list event) (u : user) (k : key) : list grant :=
  fold_left (fun acc e => match e with
                          | EvAdded g u' k' => if uk_eqb (u', k') (u, k) then acc ++ [g] else acc
                          | EvLogin _ u' k' (ViaGrant _) => if uk_eqb (u', k') (u, k) then [] else acc
                          | EvApiGrant u' k' (Some _) => if uk_eqb (u', k') (u, k) then [] else acc
                          | _ => acc end) tr [].

(* how session sid was admitted *)
Definition login_of (tr : list event) (sid : N) : option (user * key * via) :=
  fold_left (fun acc e => match e with
                          | EvLogin sid' u k v => if sid' =? sid then Some (u, k, v) else acc
                          | _ => acc end) tr None.

(* serial numbers of the grants already spent on a started action *)
Fixpoint used_ids (tr : list event) : list N :=
  match tr with
  | [] => []
  | EvStart _ _ _ (Some g) :: r => g_id g :: used_ids r
  | _ :: r => used_ids r
  end.
Fixpoint added_ids (tr : list event) : list N :=
  match tr with
  | [] => []
  | EvAdded g _ _ :: r => g_id g :: added_ids r
  | _ :: r => added_ids r
  end.

(* does grant g authorize action a at clock t *)
Definition authorizes (g : grant) (a : action) (t : Z) : Prop :=
  (g_start g <= t < g_exp g)%Z /\
  match a with
  | AExec cmd false => g_type g = 2 /\ g_cmd g = cmd
  | AExec _ true => g_type g = 1
  | APF => g_type g = 3 \/ g_type g = 4
  | AIssue _ => False                 (* no grant type lets a delegate issue further grants *)
  end.

Section Spec.
  Variable parse : bytes -> option key.

  (* C05: when may a login / API answer happen, given the trace before it *)
  Definition login_justified (tr : list event) (e : event) : Prop :=
    match e with
    | EvLogin _ u k ViaFile => exists c, file_at tr u = FFile c /\ In k (wf_entries parse c)
    | EvLogin _ u k (ViaGrant ags) => enabled_at tr = true /\ ags <> [] /\ ags = unconsumed tr u k
    | EvApiKey u k true => exists c, file_at tr u = FFile c /\ In k (wf_entries parse c)
    | EvApiGrant u k (Some ags) => enabled_at tr = true /\ ags <> [] /\ ags = unconsumed tr u k
    | _ => True
    end.

  (* C07: a started action of a grant-admitted session needs a grant issued for that user and key,
     handed to that session, live, matching, and not spent before.  `scope` selects the actions
     the clause is demanded for. *)
  Definition start_justified (scope : action -> bool) (tr : list event) (e : event) : Prop :=
    match e with
    | EvStart sid a t used =>
        match login_of tr sid with
        | Some (u, k, ViaGrant ags) =>
            scope a = true ->
            exists g, used = Some g /\ In g ags /\ In (EvAdded g u k) tr /\
                      authorizes g a t /\ ~ In (g_id g) (used_ids tr)
        | Some (_, _, ViaFile) => True
        | None => False
        end
    | _ => True
    end.

  (* every event of the trace is justified by the trace before it *)
  Inductive all_justified (J : list event -> event -> Prop) : list event -> Prop :=
  | aj_nil : all_justified J []
  | aj_snoc : forall tr e, all_justified J tr -> J tr e -> all_justified J (tr ++ [e]).
End Spec.

Definition scope_all (a : action) : bool := true.
Definition scope_exec (a : action) : bool := match a with AExec _ _ => true | _ => false end.
