#!/usr/bin/env python3
"""Regenerates MANIFEST.json from props/*.json (one file per claimed property)."""
import json, os, glob
HERE = os.path.dirname(os.path.dirname(os.path.abspath(__file__)))
def hook_commits():
    import subprocess
    try:
        out = subprocess.run(["git", "-C", "/repo", "log", "--reverse", "--format=%H %s"], stdout=subprocess.PIPE, text=True).stdout
        return [l.split(" ", 1)[0] for l in out.strip().split("\n") if " hook:" in " " + l.split(" ", 1)[1][:6]]
    except Exception:
        return []
ids = [json.loads(l)["id"] for l in open(os.path.join(HERE, "properties.jsonl"))]
checks, na = [], []
na_reasons = json.load(open(os.path.join(HERE, "props", "not_applicable.json"))) if os.path.exists(os.path.join(HERE, "props", "not_applicable.json")) else {}
for pid in ids:
    p = os.path.join(HERE, "props", pid + ".json")
    if not os.path.exists(p):
        na.append({"property_id": pid, "reason": na_reasons.get(pid, "not claimed yet: model/theorems/correspondence for this property are not built in this revision")})
        continue
    c = json.load(open(p))
    m = c["manifest"]
    checks.append({
        "property_id": pid,
        "quick_cmd": "./check %s --tier quick" % pid,
        "thorough_cmd": "./check %s --tier thorough" % pid,
        "evidence_file": "/verif/evidence/%s.json" % pid,
        "replay_cmd_template": "./check %s --replay {path}" % pid,
        "engine": "coq+corr",
        "level_claimed": {"category": "proof", "text": m["level_text"], "design_ref": m.get("design_ref", "DESIGN.md")},
        "level_note": m["level_note"],
        "technique": m["technique"],
    })
man = {
    "version": 1,
    "setup_cmd": "./setup.sh",
    "hooks": {
        "guard": "verif",
        "enable": "go build -tags verif -overlay <generated overlay.json mapping harness/overlay/<pkg>/zz_verif_*.go into /repo/<pkg>/> (done by ./check)",
        "baseline_off_cmd": "cd /repo && GOFLAGS=-mod=mod go test -mod=mod -json -vet=off -count=1 -timeout 25m ./...",
        "source_commits": hook_commits(),
        "add_only": True,
    },
    "engines": [{"name": "coq+corr", "path": "/verif/check", "serves_properties": [c["property_id"] for c in checks],
                 "kind_free_text": "Coq 8.16.1 development (coq/: Model, Proofs, Properties, Corr) + Go correspondence drivers (harness/) run against /repo's working tree; model evaluated inside Coq by vm_compute"}],
    "checks": checks,
    "not_applicable": na,
    "notes": "All checks: ./check <id> --tier quick|thorough; honours VERIF_SEED, VERIF_TIER. Known findings: known_findings.json. See DESIGN.md.",
}
json.dump(man, open(os.path.join(HERE, "MANIFEST.json"), "w"), indent=1)
print("checks:", [c["property_id"] for c in checks], "not_applicable:", [x["property_id"] for x in na])
