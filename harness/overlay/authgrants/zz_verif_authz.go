//go:build verif

package authgrants

import "hop.computer/hop/keys"

// VerifGrants returns a copy of the grants currently stored for user:key and whether the
// inner map has an entry for the key.
func (m *AuthgrantMapSync) VerifGrants(user string, key keys.DHPublicKey) ([]Authgrant, bool) {
	m.agLock.Lock()
	defer m.agLock.Unlock()
	inner, ok := m.agMap[user]
	if !ok {
		return nil, false
	}
	v, ok := inner[key]
	return append([]Authgrant(nil), v...), ok
}

// VerifEntries is the total number of (user,key) entries.
func (m *AuthgrantMapSync) VerifEntries() int {
	m.agLock.Lock()
	defer m.agLock.Unlock()
	n := 0
	for _, inner := range m.agMap {
		n += len(inner)
	}
	return n
}
