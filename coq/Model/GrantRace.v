(* GrantRace.v — interleaving transition system for N concurrent exec requests of ONE session
   admitted through authorization grants: every exec tube is served by its own goroutine
   (hopSession.start: `go sess.startCodex(..)`), and each of them runs hopSession.checkCmd on the
   shared slice sess.authorizedActions.

   Shared state + one program counter per request; ONE transition per atomic Go action of

     func (sess *hopSession) checkCmd(cmd string, shell bool) (sessID, error) {
   PStart    sess.actionsLock.Lock(); defer sess.actionsLock.Unlock()      // e9951a1; absent in `orig`
   PRange    for i, ag := range sess.authorizedActions {                   // slice header read ONCE: len L
   PIter       (i < L ?)  ag := <backing array>[i]                         // element copied out
   PTest       now := thunks.TimeNow(); live && type/command test          // thread-local
   PDel          slices.Delete(sess.authorizedActions, i, i+1):
                   s := sess.authorizedActions (header read again: len L'); _ = s[i:i+1:L']  -> panic if i+1 > L'
   PMove           append(s[:i], s[i+1:]...); clear(s[L'-1:L'])            // memmove inside the SAME backing array
   PStore        sess.authorizedActions = <header with len L'-1>
   PRet          return sessID(ag.PrincipalID), nil   /  return 0, err     // deferred Unlock
     }

   Granularity assumptions (stated, not proved): a slice-header read/write and the memmove of
   `append` are one transition each (Go gives no such guarantee without the lock: the real unlocked
   code can only misbehave MORE; with the lock nothing else runs between PStart and PRet, so the
   theorems about the locked program do not depend on the granularity).  The backing array never
   moves: Delete never grows the slice, and nothing appends to authorizedActions after login.
   A cell beyond the current length is the zero Authgrant (GrantType 0: matches no request) = None.

   [locked = true]  is the code as it is (after `fix: hopserver: serialise grant matching ...`);
   [locked = false] is checkCmd as found (`…_original` witnesses, regression class of the driver).

   Definitions only.  Proofs: Proofs/GrantRaceProofs.v. *)
From Hop Require Import Base Authz ConcBase.
Local Open Scope nat_scope.

Record req := mkReq { r_cmd : bytes; r_shell : bool; r_now : Z }.

(* the test of one loop iteration of checkCmd *)
Definition hit (q : req) (g : grant) : bool :=
  grant_live (r_now q) g && grant_matches_exec (r_cmd q) (r_shell q) g.

Inductive pc :=
| PStart | PRange
| PIter (i L : nat) | PTest (i L : nat) (c : option grant)
| PDel (i : nat) (ag : grant) | PMove (i L : nat) (ag : grant) | PStore (L : nat) (ag : grant)
| PRet (r : option grant)
| PDone (r : option grant)       (* returned: Some ag = nil error, the action is started under ag *)
| PPanic.                        (* runtime panic: slice bounds out of range *)

Record sh := mkSh {
  arr : list (option grant);     (* the backing array, capacity fixed at login *)
  hlen : nat;                    (* len(sess.authorizedActions) *)
  mu : option nat }.             (* actionsLock holder *)

(* append(s[:i], s[i+1:L]...) + clear of the last cell, on the backing array *)
Definition del_at (i L : nat) (a : list (option grant)) : list (option grant) :=
  firstn i a ++ firstn (L - S i) (skipn (S i) a) ++ None :: skipn L a.

Definition tstep (locked : bool) (me : nat) (q : req) (s : sh) (p : pc) : option (sh * pc) :=
  match p with
  | PStart =>
      if locked then
        match mu s with
        | None => Some (mkSh (arr s) (hlen s) (Some me), PRange)
        | Some _ => None                                    (* blocked in Lock() *)
        end
      else Some (s, PRange)
  | PRange => Some (s, PIter 0 (hlen s))
  | PIter i L =>
      if Nat.ltb i L then
        match nth_error (arr s) i with
        | Some c => Some (s, PTest i L c)
        | None => Some (s, PPanic)                          (* beyond the capacity: cannot happen, L <= cap *)
        end
      else Some (s, PRet None)
  | PTest i L c =>
      match c with
      | Some ag => if hit q ag then Some (s, PDel i ag) else Some (s, PIter (S i) L)
      | None => Some (s, PIter (S i) L)
      end
  | PDel i ag =>
      if Nat.leb (S i) (hlen s) then Some (s, PMove i (hlen s) ag) else Some (s, PPanic)
  | PMove i L ag => Some (mkSh (del_at i L (arr s)) (hlen s) (mu s), PStore L ag)
  | PStore L ag => Some (mkSh (arr s) (L - 1) (mu s), PRet (Some ag))
  | PRet r => Some (if locked then mkSh (arr s) (hlen s) None else s, PDone r)
  | PDone _ | PPanic => None
  end.

Record st := mkSt { shd : sh; pcs : list pc }.

(* the scheduler picks a request (goroutine) *)
Definition step (locked : bool) (qs : list req) (x : st) (i : nat) : option st :=
  match nth_error (pcs x) i, nth_error qs i with
  | Some p, Some q =>
      match tstep locked i q (shd x) p with
      | Some (s', p') => Some (mkSt s' (gupd (pcs x) i p'))
      | None => None
      end
  | _, _ => None
  end.

Fixpoint run (locked : bool) (qs : list req) (x : st) (l : list nat) : option st :=
  match l with
  | [] => Some x
  | i :: r => match step locked qs x i with Some x' => run locked qs x' r | None => None end
  end.

(* a session that login handed the grants gs, and one not yet started request per element of qs *)
Definition init (gs : list grant) (qs : list req) : st :=
  mkSt (mkSh (map Some gs) (length gs) None) (map (fun _ => PStart) qs).

Definition reachable (locked : bool) (gs : list grant) (qs : list req) (x : st) : Prop :=
  exists l, run locked qs (init gs qs) l = Some x.

(* ---- observations ---- *)
Fixpoint somes {A} (l : list (option A)) : list A :=
  match l with [] => [] | Some a :: r => a :: somes r | None :: r => somes r end.
(* sess.authorizedActions as a slice value *)
Definition remaining (x : st) : list grant := somes (firstn (hlen (shd x)) (arr (shd x))).
Definition result_of (p : pc) : option (option grant) := match p with PDone r => Some r | _ => None end.
Definition panicked (x : st) : bool := existsb (fun p => match p with PPanic => true | _ => false end) (pcs x).
(* successful requests with the grant each one consumed, in request order *)
Fixpoint wins_from (i : nat) (l : list pc) : list (nat * grant) :=
  match l with
  | [] => []
  | PDone (Some g) :: r => (i, g) :: wins_from (S i) r
  | _ :: r => wins_from (S i) r
  end.
Definition wins (x : st) : list (nat * grant) := wins_from 0 (pcs x).
Definition all_done (x : st) : bool := forallb (fun p => match p with PDone _ => true | _ => false end) (pcs x).
Definition enabled (locked : bool) (qs : list req) (x : st) (i : nat) : bool :=
  match step locked qs x i with Some _ => true | None => false end.

(* ---- the sequential specification: the requests one after the other through check_cmd ---- *)
Definition seq_step (qs : list req) (a : list (nat * option grant) * list grant) (i : nat)
  : list (nat * option grant) * list grant :=
  match nth_error qs i with
  | None => a
  | Some q =>
      match check_cmd (r_now q) (r_cmd q) (r_shell q) (snd a) with
      | Some (g, cur') => (fst a ++ [(i, Some g)], cur')
      | None => (fst a ++ [(i, None)], snd a)
      end
  end.
Definition seq_run (qs : list req) (gs : list grant) (order : list nat) :=
  fold_left (seq_step qs) order ([], gs).

(* ---- driving one request to completion (used by the correspondence checker and the witnesses) ---- *)
Fixpoint drive (locked : bool) (qs : list req) (fuel : nat) (x : st) (i : nat) : st :=
  match fuel with
  | O => x
  | S f => match step locked qs x i with Some x' => drive locked qs f x' i | None => x end
  end.
(* the schedule "requests in this order, each one run until it returns" *)
Definition run_order (locked : bool) (gs : list grant) (qs : list req) (order : list nat) : st :=
  fold_left (drive locked qs (3 * length gs + 8)) order (init gs qs).
