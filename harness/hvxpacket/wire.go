// Package hvxpacket is the shared body of the C03 and C15 correspondence drivers
// (harness/cmd/c03, harness/cmd/c15): real transport.Server / Client / Handle objects wired through
// an in-memory "wire" the driver owns, an adversary schedule, and the specification oracles.
package hvxpacket

import (
	"bytes"
	"fmt"
	"net"
	"strconv"
	"strings"
	"sync"
	"time"

	"hop.computer/hop/kravatte"
	"verifharness/hv"
)

// ---------------------------------------------------------------- the wire

type emit struct {
	pkt []byte
	dst *net.UDPAddr
}

// wire implements transport.UDPLike; every datagram the code under test sends lands in out.
type wire struct {
	mu  sync.Mutex
	out []emit
}

func (w *wire) WriteMsgUDP(b, _ []byte, a *net.UDPAddr) (int, int, error) {
	w.mu.Lock()
	defer w.mu.Unlock()
	w.out = append(w.out, emit{append([]byte(nil), b...), a})
	return len(b), 0, nil
}
func (w *wire) ReadMsgUDP(_, _ []byte) (int, int, int, *net.UDPAddr, error) {
	return 0, 0, 0, nil, net.ErrClosed
}
func (w *wire) Read(b []byte) (int, error)  { return 0, net.ErrClosed }
func (w *wire) Write(b []byte) (int, error) { n, _, err := w.WriteMsgUDP(b, nil, nil); return n, err }
func (w *wire) Close() error                { return nil }
func (w *wire) LocalAddr() net.Addr         { return &net.UDPAddr{IP: net.IPv4(127, 0, 0, 1), Port: 1} }
func (w *wire) RemoteAddr() net.Addr        { return &net.UDPAddr{IP: net.IPv4(127, 0, 0, 1), Port: 2} }
func (w *wire) SetDeadline(time.Time) error      { return nil }
func (w *wire) SetReadDeadline(time.Time) error  { return nil }
func (w *wire) SetWriteDeadline(time.Time) error { return nil }

func (w *wire) take() []emit {
	w.mu.Lock()
	defer w.mu.Unlock()
	o := w.out
	w.out = nil
	return o
}

// ---------------------------------------------------------------- addresses

// Five source addresses; id 0 is the nil address (a msg-conn underlay reports no address).
// Address 1 is sometimes presented in its 4-byte and sometimes in its 16-byte form
// (EqualUDPAddress treats them as the same address).
func mkAddr(id uint64, variant bool) *net.UDPAddr {
	switch id {
	case 0:
		return nil
	case 1:
		if variant {
			return &net.UDPAddr{IP: net.IP{10, 0, 0, 1}, Port: 1000}
		}
		return &net.UDPAddr{IP: net.IPv4(10, 0, 0, 1), Port: 1000}
	case 2:
		return &net.UDPAddr{IP: net.IPv4(10, 0, 0, 2), Port: 1000}
	case 3:
		return &net.UDPAddr{IP: net.IPv4(10, 0, 0, 1), Port: 2000}
	default:
		return &net.UDPAddr{IP: net.ParseIP("fe80::1"), Port: 1000, Zone: "eth0"}
	}
}

func addrID(a *net.UDPAddr) uint64 {
	if a == nil {
		return 0
	}
	for id := uint64(1); id <= 4; id++ {
		b := mkAddr(id, false)
		if a.Port == b.Port && a.IP.Equal(b.IP) && a.Zone == b.Zone {
			return id
		}
	}
	return 99
}

// ---------------------------------------------------------------- SANSE, called directly

func sealDirect(key [16]byte, ad, pt []byte) []byte {
	a, err := kravatte.NewSANSE(key[:])
	if err != nil {
		panic(err)
	}
	return a.Seal(nil, nil, pt, ad)
}

func openDirect(key [16]byte, ad, ct []byte) ([]byte, bool) {
	a, err := kravatte.NewSANSE(key[:])
	if err != nil {
		panic(err)
	}
	p, err := a.Open(nil, nil, ct, ad)
	if err != nil {
		return nil, false
	}
	if p == nil {
		p = []byte{}
	}
	return p, true
}

func header(mt byte, sid [4]byte, ctr uint64) []byte {
	h := []byte{mt, 0, 0, 0, sid[0], sid[1], sid[2], sid[3], 0, 0, 0, 0, 0, 0, 0, 0}
	for i := 0; i < 8; i++ {
		h[8+i] = byte(ctr >> (56 - 8*uint(i)))
	}
	return h
}

// ---------------------------------------------------------------- small helpers

// hx prints a byte string as (hx len [w1; w2; ...]%uint63), 7 bytes per 63-bit primitive integer
// (Model/PacketHex.v); ~6x cheaper for Coq to parse than a string literal.
func hx(b []byte) string {
	if len(b) == 0 {
		return "(hx 0 [])"
	}
	var sb strings.Builder
	sb.WriteString("(hx ")
	sb.WriteString(strconv.Itoa(len(b)))
	sb.WriteString(" [")
	for i := 0; i < len(b); i += 7 {
		var w uint64
		for j := 0; j < 7; j++ {
			w <<= 8
			if i+j < len(b) {
				w |= uint64(b[i+j])
			}
		}
		if i > 0 {
			sb.WriteString("; ")
		}
		sb.WriteString(strconv.FormatUint(w, 10))
	}
	sb.WriteString("]%uint63)")
	return sb.String()
}

// u64 prints a 64-bit number as (u hi lo) with 32-bit halves (large N numerals are slow for Coq to elaborate).
func u64(v uint64) string {
	if v < 1<<20 {
		return strconv.FormatUint(v, 10)
	}
	return "(u " + strconv.FormatUint(v>>32, 10) + " " + strconv.FormatUint(v&0xffffffff, 10) + ")"
}

func u64s(vs []uint64) string {
	xs := make([]string, len(vs))
	for i, v := range vs {
		xs[i] = u64(v)
	}
	return hv.List(xs)
}

func optHex(b []byte, ok bool) string {
	if !ok {
		return "None"
	}
	return hv.Some(hx(b))
}

func hexes(bs [][]byte) string {
	xs := make([]string, len(bs))
	for i, b := range bs {
		xs[i] = hx(b)
	}
	return hv.List(xs)
}

func short(b []byte) string {
	if len(b) <= 24 {
		return fmt.Sprintf("%x", b)
	}
	return fmt.Sprintf("%x..(%d)", b[:24], len(b))
}

func contains(hay, needle []byte) bool { return len(needle) > 0 && bytes.Contains(hay, needle) }
