(* C16 — tube and muxer shutdown always terminates and is clean.
   Model: Model/Shutdown.v — one muxer endpoint with a Reliable tube (FIN state machine, sender
   queues, lastAck timer, initiation goroutine), the Muxer sender/receiver goroutines, Stop with its
   helper, forced-close timer, sender timer and `go m.Stop()` goroutines, user goroutines calling
   Close / WaitForClose / Stop / Write — against an ARBITRARY environment: any frame (ACK of any
   count, FIN in or out of order, data, initiation) may arrive at any moment or never, so every
   theorem covers any loss pattern including a dead network, duplication, reordering and a
   misbehaving peer.  All theorems quantify over every schedule ([reachable] = exists a list of
   actors), both initial states (established / still waiting for the peer's initiation frame) and
   both configurations (with / without a muxer read timeout). *)
From Hop Require Import Base ConcBase Shutdown ShutdownProofs ShutdownProofs2 ShutdownThms.
Local Open Scope nat_scope.

(* no send on a closed queue, no double close: [panic] is set by a send to a closed sender queue or
   muxer queue and by a second close of r.closed / the sender queues / the muxer queues / m.stopped *)
Theorem c16_no_send_on_closed_queue : forall est tmo progs x,
  reachable est tmo progs x -> panic (shd x) = false.
Proof. exact no_panic. Qed.
Print Assumptions c16_no_send_on_closed_queue.

(* the shutdown order producers -> consumers: the sender queues are closed only by the close
   transition; the muxer queues only after the tube has signalled closed, its initiation goroutine
   and its send goroutine have ended *)
Theorem c16_queue_closing_order : forall est tmo progs x, reachable est tmo progs x ->
  (tq_closed (shd x) = true -> ts (shd x) = TClosed /\ s_closed (shd x) = true) /\
  (mq_closed (shd x) = true -> r_closed (shd x) = true /\ init_done (shd x) = true /\ ts (shd x) = TClosed /\
                               sp (shd x) <> S_run /\ ms (shd x) = MStopped) /\
  (r_closed (shd x) = true -> ts (shd x) = TClosed /\ ecs_pending (shd x) = false /\ sp (shd x) <> S_run) /\
  (send_done (shd x) = true -> tq_closed (shd x) = true /\ tq (shd x) = 0).
Proof. exact queue_closing_order. Qed.
Print Assumptions c16_queue_closing_order.

(* once Stop has begun the forced close is pending or the tube is closed: the tube is closed at the
   latest two steps of the forced-close goroutine after its timer fired; Stop is elected once *)
Theorem c16_force_close_bounds : forall est tmo progs x, reachable est tmo progs x ->
  (ms (shd x) <> MRunning ->
     force_armed (shd x) = true \/ fp (shd x) = F_cb \/ fp (shd x) = F_go \/ ts (shd x) = TClosed) /\
  (fp (shd x) = F_ecs \/ fp (shd x) = F_done -> ts (shd x) = TClosed) /\
  (ts (shd x) = TClosed -> r_closed (shd x) = true \/ ecs_pending (shd x) = true) /\
  stop_owner (shd x) <= 1.
Proof. exact force_close_bounds. Qed.
Print Assumptions c16_force_close_bounds.

(* closed semantics: after Close returned nil (FIN admitted) or once the tube left
   initiated/closeWait, Write fails; Close itself reports nil at most until the FIN is admitted *)
Theorem c16_closed_semantics : forall s,
  (fin_sent s = true \/ s_closed s = true \/ (ts s <> TInitiated /\ ts s <> TCloseWait)) ->
  snd (do_write s) <> 0%N /\ fst (do_write s) = s.
Proof. exact closed_semantics. Qed.
Print Assumptions c16_closed_semantics.

Theorem c16_close_admits_fin_once : forall s s' r, do_close s = (s', r) ->
  (r = 0%N -> fin_sent s = false /\ fin_sent s' = true /\ unack_fin s' = true /\
              (ts s = TInitiated /\ ts s' = TFinWait1 \/ ts s = TCloseWait /\ ts s' = TLastAck /\ la_armed s' = true)) /\
  (fin_sent s = true -> r <> 0%N).
Proof. exact close_admits_fin_once. Qed.
Print Assumptions c16_close_admits_fin_once.

(* every close call returns / Stop completes: in every reachable state in which Stop has begun, or
   whenever a muxer read timeout is configured, if no progress transition is enabled (arrivals,
   retransmission ticks and the re-arming lastAck timer are background) then every
   Close/WaitForClose/Stop/Write call has returned, every goroutine (tube sender, initiation,
   muxer sender and receiver, helper, forced close, lastAck callback, go-Stop) has ended, the tube
   is closed and Stop has published its result — for any loss pattern, including a dead network.
   Scope (DESIGN.md C16): without a read timeout and without Stop, closure is not bounded. *)
From Hop Require Import ShutdownSpec ShutdownLive.
Theorem c16_close_returns : forall est tmo progs x, reachable est tmo progs x ->
  ms (shd x) <> MRunning \/ cfg_timeout (shd x) = true -> quiescent x -> all_done x.
Proof. exact stop_returns. Qed.
Print Assumptions c16_close_returns.

(* non-vacuity: dead network from the start, one Stop call; the run ends quiescent with everything done *)
Example c16_close_returns_instance :
  exists x, run (init true false [[UStop]])
    [AU 0; AHelper; ASendDrain true; AMSend; TForceFire; AForce; AForce; ASendDrain true; AForce; AHelper; AHelper;
     AOwner; AOwner; AMSend; AOwner; AOwner; AMRecvStep; AOwner; AOwner; AU 0] = Some x /\
  ts (shd x) = TClosed /\ stopped (shd x) = true /\ own (shd x) = O_done /\ map urets (uths x) = [[(UStop, 0%N)]].
Proof. eexists. split; [vm_compute; reflexivity|]. vm_compute. auto. Qed.
(* a tube that was never initiated (peer silent from the start): Close blocks until the forced close *)
Example c16_never_initiated_instance :
  exists x, run (init false false [[UStop]; [UClose]])
    [AU 1; AU 0; AInitTick; AMSend; TForceFire; AForce; AForce; AInit; AU 1; AHelper; AHelper; AHelper;
     AOwner; AOwner; AMSend; AOwner; AOwner; AMRecvStep; AOwner; AOwner; AU 0] = Some x /\
  ts (shd x) = TClosed /\ map urets (uths x) = [[(UStop, 0%N)]; [(UClose, 1%N)]].
Proof. eexists. split; [vm_compute; reflexivity|]. vm_compute. auto. Qed.

(* FIN carries the next frame number: for any sequence of writes and closes on the sender, the FIN's
   frame number is one more than the number of data frames, every data frame number is below it,
   and nothing is numbered after it (with C08's in-order reassembly, EOF follows all data) *)
Theorem c16_fin_after_data : forall l, let s := snd_run l in
  finSent s = true ->
  (finNo s = N.of_nat (length (datas s)) + 1 /\ (forall f, In f (datas s) -> 1 <= f < finNo s) /\ frameNo s = finNo s + 1)%N.
Proof. exact fin_after_data. Qed.
Print Assumptions c16_fin_after_data.

(* the tube state graph used by the trace checker (Corr/CorrC16.v) is exactly the reachable-edge
   relation of the model: every run moves tubeState along a path of [tedge] (any state, any actors),
   and every edge of [tedge] is taken by a single transition from a reachable state *)
From Hop Require Import ShutdownEdges.
Theorem c16_state_graph_exact :
  (forall x l x', run x l = Some x' -> treach 4 (ts (shd x)) (ts (shd x')) = true) /\
  (forall a b, tedge a b = true -> realised a b).
Proof. split; [exact run_edges|exact edges_realised]. Qed.
Print Assumptions c16_state_graph_exact.

(* a FIN that waited in the reorder heap is consumed by the data frame that fills the gap (a packet
   WITHOUT the FIN flag): the state machine still moves initiated -> closeWait / finWait1 -> closing *)
Example c16_fin_from_heap :
  ts (fst (receive (sh_init true false) (mkF false ANone false true true))) = TCloseWait /\
  ts (fst (receive (fst (do_close (sh_init true false))) (mkF false ANone false true true))) = TClosing.
Proof. split; vm_compute; reflexivity. Qed.

(* ------------------------------------------------------------------ Unreliable: lifecycle lock (Model/Unrel.v) *)
From Hop Require Import ConcUtil Unrel UnrelProofs.
(* for every schedule of Write/Close callers, the initiation goroutine, the sender goroutine and the
   peer's initiation frame: no send on the closed send queue and no second close of any lifecycle
   channel ([upanic]); nothing is queued after the FIN; the queue is closed only in state closed with
   no writer past its admission check; at most one caller runs the close procedure and lifecycleMu
   has at most one holder *)
Theorem c16_unreliable_lifecycle_safe : forall acc cap progs x, ureachable acc cap progs x ->
  upanic (ushd x) = false /\ after_fin (ushd x) = false /\
  (sq_closed (ushd x) = true -> st (ushd x) = UClosed /\ gcnt wsend (uths x) = 0) /\
  (st (ushd x) = UClosed -> gcnt wsend (uths x) = 0) /\
  gcnt closer (uths x) <= 1 /\ gcnt holder (uths x) <= 1.
Proof. exact unrel_safe. Qed.
Print Assumptions c16_unreliable_lifecycle_safe.

(* what the model does NOT give (model-level observation, not reproduced on the real code, where it
   needs the 1000-slot send queue to be filled before the initiation goroutine is scheduled): if
   Close swaps the state after the peer's initiation but before initiate() has seen it, the sender
   goroutine is never started; with a full send queue Close then blocks on its FIN while holding
   lifecycleMu and nothing can move *)
Theorem c16_unreliable_close_returns_refuted :
  exists l x, urun (uinit false 2 [[UWrite; UWrite; UClose]]) l = Some x /\
    st (ushd x) = UClosed /\ map upcv (uths x) = [C_fin] /\ snp (ushd x) = SN_none /\ sq (ushd x) = 2 /\
    (forall a, a <> UInitTick -> ustep x a = None).
Proof.
  exists ([UInit; UPeerInit] ++ map UT [0;0;0;0; 0;0;0;0; 0;0]%nat ++ [UInit; UInit] ++ map UT [0;0]%nat).
  eexists. split; [vm_compute; reflexivity|]. repeat split.
  intros a Ha. destruct a as [i| | | |]; try reflexivity; try contradiction.
  destruct i as [|i]; [reflexivity|]. vm_compute. destruct i; reflexivity.
Qed.
Print Assumptions c16_unreliable_close_returns_refuted.

(* ------------------------------------------------------------------ bounded sender queue and the tube lock (Model/ShutdownQ.v) *)
From Hop Require Import ShutdownQ ShutdownQProofs.
(* The tube's sender queue has capacity [cap]; its producers (the muxer receiver acknowledging a data
   frame, Close queueing the FIN, the window branch of Reliable.send) hold the tube lock r.l, its only
   consumer Reliable.send takes r.l in its ticker and window branches and hands frames to the
   unbuffered muxer queue, whose consumer Muxer.sender may be stuck in a blocking transport write
   until Stop's forced close closes the transport.  With the code as it is now (an enqueue under r.l
   never waits), for EVERY capacity, every schedule, any number of arriving data frames, ticks and
   window events, blocking or non-blocking link, with or without unacknowledged frames: once Stop
   began, a state in which nothing but background events (arrival, tick, window) is enabled has
   Close/WaitForClose returned, the forced close finished, Reliable.send and the receiver ended, the
   tube closed and signalled, the queue empty; no send on the closed queue, no second close. *)
Theorem c16_full_queue_every_call_returns : forall cap wblock retx x,
  qreach (mkQC cap true wblock retx) x -> qquiet (mkQC cap true wblock retx) x -> qfinal x /\ pn x = false.
Proof. exact q_fixed_returns. Qed.
Print Assumptions c16_full_queue_every_call_returns.

(* both versions, every capacity, every schedule: no send on the closed sender queue and no second
   close; r.l has at most one holder; the queue is closed exactly when the tube is closed; r.closed
   is signalled only for a closed tube *)
Theorem c16_full_queue_safe : forall c x, qreach c x ->
  pn x = false /\ hR (rp x) + hS (sp x) + hC (cp x) + hF (fp x) = b2n (lk x) /\ qc x = tc x /\ (rc x = true -> tc x = true).
Proof. exact q_safe. Qed.
Print Assumptions c16_full_queue_safe.

(* the code BEFORE the fix (an enqueue under r.l waits for room), for every capacity >= 1, on a
   healthy non-blocking link: [cap] data frames arrive and are acknowledged into the queue before
   Reliable.send runs, one more arrives (the muxer receiver now waits for room holding r.l), send's
   select takes the ticker (it waits for r.l), Stop's forced close fires (its goroutine waits for
   r.l): nothing can move any more - not even a background event - and Close has not returned.
   Replayed on the real code by the driver's full-sender-queue scenarios (capacity 1024). *)
Theorem c16_full_queue_every_call_returns_refuted : forall cap wblock retx, 1 <= cap ->
  exists l x, qrun (mkQC cap false wblock retx) (qinit false) l = Some x /\
    qdead (mkQC cap false wblock retx) x /\
    cp x = C_lock /\ fp x = F_lock /\ rp x = R_enq /\ sp x = S_tick_lock /\ ql x = cap /\ xc x = true.
Proof.
  intros cap wb rx Hc. destruct (q_unfixed_deadlock cap wb rx Hc) as [H1 H2].
  exists (qfill cap ++ [AArr; ARecv; ATick; AForce]), (qstuck cap). repeat split; assumption.
Qed.
Print Assumptions c16_full_queue_every_call_returns_refuted.

(* non-vacuity: capacity 1, blocked link, Muxer.sender inside a write, unacknowledged frames: the queue
   fills, a second acknowledgement is dropped, Reliable.send is stuck handing a frame to the muxer;
   the forced close closes the transport, everything drains and the final state is reached; and the
   refuted schedule (capacity 2) continues to the final state with the code as it is now *)
Example c16_full_queue_run_fixed :
  exists l x, qrun (mkQC 1 true true true) (qinit true) l = Some x /\ qfinal x /\ qquiet (mkQC 1 true true true) x.
Proof.
  exists [AArr; ARecv; ARecv; AArr; ARecv; ARecv; ASend; AForce; AMux; ASend; ATick; ASend; ASend;
          AForce; AForce; ASend; AForce; AClose; AClose; ARecv].
  eexists. split; [vm_compute; reflexivity|]. split; [vm_compute; repeat split; reflexivity|].
  intros a Ha. destruct a; try discriminate Ha; reflexivity.
Qed.
Example c16_full_queue_refuted_schedule_fixed :
  exists l x, qrun (mkQC 2 true false false) (qinit false)
                (qfill 2 ++ [AArr; ARecv; ATick; AForce] ++ l) = Some x /\ qfinal x.
Proof.
  exists [ARecv; ASend; ASend; ASend; ASend; ASend; AMux; ASend; AForce; AForce; ASend; AForce; AClose; AClose; ARecv].
  eexists. split; [vm_compute; reflexivity|]. vm_compute. repeat split; reflexivity.
Qed.
