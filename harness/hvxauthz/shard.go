package hvxauthz

import (
	"bytes"
	"fmt"
	"os"
	"os/exec"
	"strconv"
	"sync"

	"verifharness/hv"
)

// RunCases executes the case closures. The thunks the code under test reads (LookupUser, TimeNow)
// are process-global, so parallelism is by re-executing this binary n times (VERIF_SHARD=i/n):
// every copy generates the same case list from the one PRNG and runs its share; the parent
// concatenates the children's output in shard order (deterministic for a given seed).
func RunCases(n int, cases []func()) {
	if sh := os.Getenv("VERIF_SHARD"); sh != "" {
		var i, m int
		fmt.Sscanf(sh, "%d/%d", &i, &m)
		for j, c := range cases {
			if j%m == i {
				c()
			}
		}
		hv.Flush()
		return
	}
	if n <= 1 {
		for _, c := range cases {
			c()
		}
		hv.Flush()
		return
	}
	outs := make([]bytes.Buffer, n)
	errs := make([]error, n)
	var wg sync.WaitGroup
	for i := 0; i < n; i++ {
		wg.Add(1)
		go func(i int) {
			defer wg.Done()
			cmd := exec.Command(os.Args[0])
			cmd.Env = append(os.Environ(), "VERIF_SHARD="+strconv.Itoa(i)+"/"+strconv.Itoa(n))
			cmd.Stdout = &outs[i]
			cmd.Stderr = os.Stderr
			errs[i] = cmd.Run()
		}(i)
	}
	wg.Wait()
	for i := 0; i < n; i++ {
		os.Stdout.Write(outs[i].Bytes())
		if errs[i] != nil {
			fmt.Fprintf(os.Stderr, "shard %d failed: %v\n", i, errs[i])
			os.Exit(3)
		}
	}
}
