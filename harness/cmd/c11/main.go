// c11: "no peer-supplied frame or protocol message crashes or wedges the process, or makes it
// allocate out of proportion". Three parts:
//
//	A. every application-protocol decoder on arbitrary peer bytes (mutated valid messages, length
//	   bombs, random), run in a crash-isolated child process with an address-space limit; the
//	   observations (code, decoded value, bytes left, bytes allocated) are compared with the Gallina
//	   decoders and their ghost allocation counter; oracle: no panic/crash, allocation <=
//	   16*|input| + 256 KiB;
//	B. frame decoding (fromBytes, the muxer's re-framing) and sender.recvAck, white box, from
//	   arbitrary buffers / sender states; compared with the model; oracle: no panic;
//	C. two real muxers over an in-memory connection with a raw frame injector (child processes, a
//	   goroutine panic kills the child): oracle only — no crash, an unrelated tube still echoes,
//	   Stop returns within the bound.
package main

import (
	"encoding/hex"
	"encoding/json"
	"fmt"
	"io"
	"os"
	"strings"
	"time"

	"github.com/sirupsen/logrus"

	"hop.computer/hop/tubes"
	"verifharness/hv"
	xw "verifharness/hvxwire"
)

const (
	allocSlope = 16
	allocConst = 256 << 10
	stopBound  = 25 * time.Second
)

func ident(b []byte) string {
	if len(b) <= 80 {
		return hex.EncodeToString(b)
	}
	return fmt.Sprintf("%s..len=%d", hex.EncodeToString(b[:40]), len(b))
}

// ---------------------------------------------------------------- part A: decoders (child side)

var decoders = map[string]*xw.Format{}

func init() {
	for _, f := range []*xw.Format{xw.WString, xw.Cert, xw.Intent, xw.Ag, xw.ConfDen, xw.Proxy, xw.Exec, xw.UserAuth, xw.Pf, relMsg,
		xw.StatusMsg, xw.WinSizeMsg, xw.WinLoop, xw.UAReply, xw.ProxyID, xw.IntentReq, xw.IntentComm} {
		decoders[f.Name] = f
	}
}

var relMsg = &xw.Format{
	Name: "relmsg", DecFn: "c18_dec_relmsg",
	Prep: func(b []byte) func() (xw.Value, int, bool) {
		t, buf := tubes.VerifWirePreloadedReliable(b), make([]byte, 1<<17)
		return func() (xw.Value, int, bool) {
			m, left, err := tubes.VerifWireReliableReadMsgUDPOn(t, buf)
			return m, left, err == nil
		}
	},
	Coq:  func(v xw.Value) string { return xw.CoqBytes(v.([]byte)) },
	Zero: func() xw.Value { return []byte{} },
}

type decJob struct {
	Dec string `json:"dec"`
	Hex string `json:"hex"`
}
type decOut struct {
	Code  int    `json:"code"`
	Coq   string `json:"coq"`   // tuple (bytes, code, value, remaining [, oracle arg])
	Alloc uint64 `json:"alloc"` // bytes allocated by the decoder call
	Msg   string `json:"msg"`
}

func childDecoders(j xw.Job) interface{} {
	var dj decJob
	json.Unmarshal(j.Data, &dj)
	b, _ := hex.DecodeString(dj.Hex)
	f := decoders[dj.Dec]
	d, alloc := xw.RunDecAlloc(f, b)
	parts := []string{xw.CoqBytes(b), hv.Ni(d.Code), f.Coq(d.V), hv.Ni(d.Rem)}
	if f.DecArg != nil {
		parts = append(parts, f.DecArg(b))
	}
	parts = append(parts, hv.N(alloc))
	return decOut{Code: d.Code, Coq: hv.Tuple(parts...), Alloc: alloc, Msg: d.Msg}
}

// ---------------------------------------------------------------- part C: muxer (child side)

type muxJob struct {
	Frames []string   `json:"frames"`
	Opts   xw.MuxOpts `json:"opts"`
}

func childMux(j xw.Job) interface{} {
	var mj muxJob
	json.Unmarshal(j.Data, &mj)
	frames := make([][]byte, len(mj.Frames))
	for i, h := range mj.Frames {
		frames[i], _ = hex.DecodeString(h)
	}
	return xw.RunMuxCase(frames, mj.Opts, stopBound)
}

// ---------------------------------------------------------------- generators (parent side)

func bombs(name string) [][]byte {
	ff := []byte{0xff, 0xff, 0xff, 0xff}
	switch name {
	case "exec":
		return [][]byte{
			append([]byte{0}, ff...),                     // the original 4 GiB case
			append([]byte{3}, ff...),                     // with flags
			{0, 0x7f, 0xff, 0xff, 0xff},                  // 2 GiB
			{0, 0, 0, 0, 1, 'x', 0xff, 0xff, 0xff, 0xff}, // huge term after a valid cmd
			{2, 0, 0, 0, 0, 0, 0, 0, 0},                  // size announced, missing
			{0, 0x00, 0x10, 0x00, 0x00, 1, 2, 3},         // 1 MiB announced, 3 bytes sent
			append(append([]byte{0, 0, 1, 0, 0}, xw.Pattern(65536, 1)...), 0, 0, 0, 0), // 64 KiB really sent
			{0, 0x40, 0, 0, 0}, // 1 GiB
		}
	case "userauth":
		return [][]byte{{0xff, 0xff}, {0xff}, {}, {0xff, 0xff, 'a'}, {0x80, 0x00, 1, 2, 3}}
	case "pf":
		return [][]byte{{3, 4, 0xff, 0xff}, {1, 4, 0xff, 0xff, ':'}, {3, 4, 0x80, 0}, {9, 9, 0, 0}}
	case "relmsg":
		return [][]byte{{0xff, 0xff}, {0xff, 0xff, 1}, {0x80, 0, 1, 2}}
	case "wstring":
		return [][]byte{{0xff}, {0xff, 1, 2}, {0x80}}
	case "status":
		return [][]byte{{2, 0xff, 0xff, 0xff, 0xff}, {2, 0xff, 0xff}, {0, 0xff, 0xff, 0, 0, 1}, {}, {2}}
	case "intent", "agmsg", "confden", "intentreq", "intentcomm":
		return [][]byte{{1, 3}, {2, 4}, {4, 0xff}, {1, 2, 0, 0, 0xff, 0xff, 0xff, 0xff, 0xff, 0xff, 0xff, 0xff}}
	}
	return nil
}

func decoderInputs(r *hv.Rand, f *xw.Format, gen *xw.Format, nValues, mutPer, nRandom int) [][]byte {
	var ins [][]byte
	ins = append(ins, bombs(f.Name)...)
	if gen.Corpus != nil {
		ins = append(ins, gen.Corpus()...)
	}
	for k := 0; k < nValues; k++ {
		v := gen.Gen(r)
		o := xw.RunEnc(gen, v)
		if o.Code != xw.OK || len(o.Bytes) > 3000 {
			continue
		}
		ins = append(ins, o.Bytes)
		ins = append(ins, xw.Mutations(r, o.Bytes, xw.HotOffsets(gen, v, o.Bytes), mutPer)...)
	}
	for k := 0; k < nRandom; k++ {
		n := hv.Pick(r, []int{0, 1, 2, 3, 4, 5, 6, 9, 16, 33, 100, 300})
		b := r.Bytes(n)
		if n > 0 && r.Bool() {
			b[0] = hv.Pick(r, []byte{0, 1, 2, 3, 4, 5})
		}
		ins = append(ins, b)
	}
	return ins
}

// ---------------------------------------------------------------- part B: frames and recvAck

func coqFrame(v tubes.VerifWireFrame) string {
	fl := hv.App("Fl", hv.B(v.REQ), hv.B(v.RESP), hv.B(v.REL), hv.B(v.ACK), hv.B(v.FIN), hv.B(v.RTR))
	return hv.App("Fr", hv.N(uint64(v.AckNo)), hv.N(uint64(v.FrameNo)), hv.N(uint64(v.DataLength)), fl, hv.N(uint64(v.TubeID)), xw.CoqBytes(v.Data))
}
func coqIFrame(v tubes.VerifWireInitFrame) string {
	fl := hv.App("Fl", hv.B(v.REQ), hv.B(v.RESP), hv.B(v.REL), hv.B(v.ACK), hv.B(v.FIN), hv.B(v.RTR))
	return hv.App("Ifr", hv.N(uint64(v.FrameNo)), hv.N(uint64(v.TubeID)), hv.N(uint64(v.TubeType)), xw.CoqBytes(v.Data), hv.N(uint64(v.DataLength)), fl)
}

func exact(b []byte) []byte {
	c := make([]byte, len(b))
	copy(c, b)
	return c[:len(b):len(b)]
}

func frameCase(b []byte, class string) {
	var got tubes.VerifWireFrame
	var err error
	p, msg := hv.Catch(func() { got, err = tubes.VerifWireFromBytes(exact(b)) })
	code, ok, what := xw.OK, true, ""
	if p {
		code, ok, what = xw.PANIC, false, fmt.Sprintf("fromBytes panicked on a %d-byte buffer with length field %d: %s", len(b), lenField(b), msg)
	} else if err != nil {
		code = xw.ERR
		got = tubes.VerifWireFrame{}
	}
	hv.Emit(hv.Case{Fn: "c18_frame_from_bytes", Coq: hv.Tuple(xw.CoqBytes(b), hv.Ni(code), coqFrame(got)), Class: "frame/" + class,
		Desc: fmt.Sprintf("fromBytes len=%d dl=%d #%s", len(b), lenField(b), ident(b)), Spec: ok, Sig: "C11:frombytes-panics", What: what, NT: len(b) >= 4,
		Replay: map[string]interface{}{"op": "tubes.fromBytes", "len": len(b), "length_field": lenField(b), "hex_prefix": hex.EncodeToString(b[:min(len(b), 64)])}})
	var ig tubes.VerifWireInitFrame
	p, msg = hv.Catch(func() { ig, err = tubes.VerifWireReframe(exact(b)) })
	code, ok, what = xw.OK, true, ""
	if p {
		code, ok, what = xw.PANIC, false, fmt.Sprintf("fromInitiateBytes(frame.toBytes()) panicked: %s", msg)
	} else if err != nil {
		code = xw.ERR
		ig = tubes.VerifWireInitFrame{}
	}
	hv.Emit(hv.Case{Fn: "c18_reframe", Coq: hv.Tuple(xw.CoqBytes(b), hv.Ni(code), coqIFrame(ig)), Class: "reframe/" + class,
		Desc: fmt.Sprintf("reframe len=%d dl=%d #%s", len(b), lenField(b), ident(b)), Spec: ok, Sig: "C11:reframe-panics", What: what, NT: len(b) >= 4,
		Replay: map[string]interface{}{"op": "fromInitiateBytes(fromBytes(b).toBytes())", "len": len(b), "length_field": lenField(b)}})
}

func lenField(b []byte) int {
	if len(b) < 4 {
		return -1
	}
	return int(b[2])<<8 | int(b[3])
}

func partB(r *hv.Rand) {
	// the muxer's full read buffer, every critical length field, all flag bytes
	for _, dl := range []int{0, 1, 2, 32768, 65000, 65522, 65523, 65524, 65525, 65526, 65534, 65535} {
		b := make([]byte, 65535)
		copy(b, r.Bytes(12))
		b[1] = byte(r.Intn(256))
		b[2], b[3] = byte(dl>>8), byte(dl)
		frameCase(b, "full-buffer")
	}
	// other buffer sizes around the header and around 12+dl
	for n := 0; n <= 16; n++ {
		b := r.Bytes(n)
		if n >= 4 {
			b[2], b[3] = 0, byte(r.Intn(4))
		}
		frameCase(b, "short")
	}
	for k := 0; k < hv.Scale(150, 1500); k++ {
		n := 12 + hv.Pick(r, []int{0, 1, 2, 10, 100, 1000})
		b := append(r.Bytes(12), xw.PatternD(n-12, byte(r.U64()), byte(r.Intn(3)))...)
		dl := hv.Pick(r, []int{0, 1, n - 13, n - 12, n - 11, n - 10, n, 65523, 65524, 65535})
		if dl < 0 {
			dl = 0
		}
		b[2], b[3] = byte(dl>>8), byte(dl)
		frameCase(b, "length-field")
	}
	// recvAck from arbitrary sender states
	acks := []uint64{1, 2, 20, 21, 22, 100, 1<<32 - 5, 1<<32 - 1, 1 << 32, 1<<32 + 7, 1 << 40}
	for k := 0; k < hv.Scale(600, 6000); k++ {
		ackNo := hv.Pick(r, acks)
		nf := hv.Pick(r, []int{0, 0, 1, 2, 3, 5, 12, 50})
		window := hv.Pick(r, []uint16{0, 1, 10, 11, 100, 1000, 65535})
		dup := hv.Pick(r, []int{0, 0, 0, 1, 4, 5, 99, 100, 101, 102, 1000, -1})
		low := uint32(ackNo)
		var ack uint32
		switch r.Intn(8) {
		case 0:
			ack = low
		case 1:
			ack = low + uint32(nf)
		case 2:
			ack = low + uint32(nf) + 1 // one beyond anything sent
		case 3:
			ack = low + uint32(nf) + uint32(1+r.Intn(5))
		case 4:
			ack = low + uint32(r.Intn(nf+1))
		case 5:
			ack = hv.Pick(r, []uint32{0, 1, 2, 5, 1 << 31, 1<<32 - 1, 1<<32 - 2})
		case 6:
			ack = low - uint32(1+r.Intn(12)) // behind: wrap-around branch depends on the window
		default:
			ack = uint32(r.U64())
		}
		dls := make([]uint16, nf)
		for i := range dls {
			dls[i] = hv.Pick(r, []uint16{0, 1, 1000, 1001, 32768})
		}
		var newAck uint64
		var remaining int
		var err error
		p, msg := hv.Catch(func() { newAck, remaining, _, err = tubes.VerifWireRecvAck(ackNo, dls, window, dup, ack) })
		code, ok, what := xw.OK, true, ""
		if p {
			code, ok = xw.PANIC, false
			what = fmt.Sprintf("recvAck(%d) panicked with ackNo=%d and %d buffered frames: %s", ack, ackNo, nf, msg)
			newAck, remaining = 0, 0
		} else if err != nil {
			code = xw.ERR
		} else if newAck-ackNo > uint64(nf) || remaining != nf-int(newAck-ackNo) {
			ok, what = false, fmt.Sprintf("recvAck(%d) retired %d frames of %d buffered (%d left)", ack, newAck-ackNo, nf, remaining)
		}
		hv.Emit(hv.Case{Fn: "c11_recv_ack", Coq: hv.Tuple(hv.N(ackNo), hv.Ni(nf), hv.N(uint64(window)), hv.Z(int64(dup)), hv.N(uint64(ack)), hv.Ni(code), hv.N(newAck), hv.Ni(remaining)),
			Class: "recvack", Desc: fmt.Sprintf("recvAck ackNo=%d frames=%d window=%d dup=%d ack=%d", ackNo, nf, window, dup, ack),
			Spec: ok, Sig: "C11:recvack-panics", What: what, NT: true,
			Replay: map[string]interface{}{"op": "sender.recvAck", "ackNo": ackNo, "frames": nf, "window": window, "dup": dup, "ack": ack}})
	}
}

// ---------------------------------------------------------------- part C generator

func rawFrame(tube byte, meta byte, dl int, ack, no uint32, data []byte) []byte {
	b := []byte{tube, meta, byte(dl >> 8), byte(dl), byte(ack >> 24), byte(ack >> 16), byte(ack >> 8), byte(ack), byte(no >> 24), byte(no >> 16), byte(no >> 8), byte(no)}
	return append(b, data...)
}

// reqFrame is a tube request exactly as a peer sends it: the 10-byte initiate frame
// {tube, flags|REQ, dataLength 0, tube type, 0, frameNo 0}. (The receiver first parses it with
// the 12-byte frame layout, where the tube type is the top byte of the ack field.)
func reqFrame(tube, meta, tubeType byte) []byte {
	return []byte{tube, meta | fREQ, 0, 0, tubeType, 0, 0, 0, 0, 0}
}

const (
	fREQ  = 1
	fRESP = 2
	fREL  = 4
	fACK  = 8
	fFIN  = 16
	fRTR  = 32
)

// tube id for injected frames: anything but the probe tube's (reliable, id)
func pickTube(r *hv.Rand, meta byte) byte {
	for {
		id := byte(r.Intn(256))
		if r.Chance(50) {
			id = hv.Pick(r, []byte{0, 1, 2, 3, 4, 254, 255})
		}
		if meta&fREL != 0 && id == xw.ProbeID {
			continue
		}
		return id
	}
}

var u32s = []uint32{0, 1, 2, 3, 5, 20, 21, 100, 1<<31 - 1, 1 << 31, 1<<32 - 2, 1<<32 - 1}

func muxSequence(r *hv.Rand, class string) [][]byte {
	var fs [][]byte
	n := 40 + r.Intn(80)
	switch class {
	case "flags-sweep":
		for m := 0; m < 64; m++ {
			meta := byte(m) | byte(r.Intn(4))<<6
			id := pickTube(r, meta)
			d := r.Bytes(hv.Pick(r, []int{0, 0, 1, 10}))
			fs = append(fs, rawFrame(id, meta, len(d), hv.Pick(r, u32s), hv.Pick(r, u32s), d))
			if r.Bool() { // and again on the tube that may now exist
				fs = append(fs, rawFrame(id, meta&^fREQ, len(d), hv.Pick(r, u32s), hv.Pick(r, u32s), d))
			}
		}
	case "length-field":
		for i := 0; i < n; i++ {
			meta := byte(r.Intn(64))
			id := pickTube(r, meta)
			d := r.Bytes(hv.Pick(r, []int{0, 1, 5, 100}))
			dl := hv.Pick(r, []int{0, 1, len(d) - 1, len(d), len(d) + 1, 255, 65523, 65524, 65525, 65535})
			if dl < 0 {
				dl = 0
			}
			f := rawFrame(id, meta, dl, hv.Pick(r, u32s), hv.Pick(r, u32s), d)
			if r.Chance(25) { // datagram shorter than the header: the receiver parses stale buffer bytes
				f = f[:r.Intn(12)]
			}
			fs = append(fs, f)
		}
	case "ack-beyond-sent":
		// open a reliable tube, then acknowledge frames it never sent
		for t := 0; t < 6; t++ {
			id := pickTube(r, fREL)
			fs = append(fs, reqFrame(id, fREL|fACK, 7))
			for i := 0; i < 6; i++ {
				fs = append(fs, rawFrame(id, fREL|fACK|byte(hv.Pick(r, []int{0, fFIN, fRTR})), 0, hv.Pick(r, []uint32{2, 3, 5, 100, 1 << 31, 1<<32 - 1}), hv.Pick(r, u32s), nil))
			}
		}
	case "dup-acks":
		id := pickTube(r, fREL)
		fs = append(fs, reqFrame(id, fREL|fACK, 7))
		for i := 0; i < 130; i++ {
			fs = append(fs, rawFrame(id, fREL|fACK, 0, 1, 1, nil))
		}
	case "data-and-fin":
		for t := 0; t < 8; t++ {
			rel := byte(0)
			if r.Bool() {
				rel = fREL
			}
			id := pickTube(r, rel)
			fs = append(fs, reqFrame(id, rel, byte(r.Intn(8))))
			for i := 0; i < 8; i++ {
				d := r.Bytes(hv.Pick(r, []int{0, 1, 50, 1400}))
				meta := rel | byte(hv.Pick(r, []int{0, fACK, fFIN, fFIN | fACK, fRTR, fRTR | fACK, fRESP, fREQ}))
				fs = append(fs, rawFrame(id, meta, len(d), hv.Pick(r, []uint32{0, 1, 2}), hv.Pick(r, []uint32{0, 1, 2, 3, 4, 1000, 1<<32 - 1}), d))
			}
		}
	case "backpressure-unreliable-999", "backpressure-unreliable-1000", "backpressure-unreliable-1200":
		// An unreliable tube that the application accepts and then never reads (type 201), flooded
		// with N datagrams - its receive queue has 1000 slots - and only then, in the same FIFO the
		// receiver consumes, FIN / further data / a duplicate request on it. N = 999 is the negative
		// control (the FIN still fits), 1000 and 1200 put the FIN on a full queue.
		flood := map[string]int{"backpressure-unreliable-999": 999, "backpressure-unreliable-1000": 1000, "backpressure-unreliable-1200": 1200}[class]
		id := pickTube(r, 0)
		fs = append(fs, reqFrame(id, 0, xw.HoldTubeType))
		for i := 0; i < flood; i++ {
			fs = append(fs, rawFrame(id, 0, 3, 0, uint32(i+1), []byte{byte(i), byte(i >> 8), 7}))
		}
		fs = append(fs,
			rawFrame(id, fFIN, 0, 0, uint32(flood+1), nil),
			rawFrame(id, 0, 1, 0, uint32(flood+2), []byte{9}),
			reqFrame(id, 0, xw.HoldTubeType),
			rawFrame(id, fFIN, 2, 0, uint32(flood+3), []byte{1, 2}),
			rawFrame(id, 0, 1, 0, uint32(flood+4), []byte{8}))
	case "backpressure-reliable":
		// a reliable tube the application holds without reading: in-order data well past the
		// receive window, out-of-window frames, retransmission requests, FIN
		id := pickTube(r, fREL)
		fs = append(fs, reqFrame(id, fREL|fACK, xw.HoldTubeType))
		flood := hv.Pick(r, []int{200, 1000, 1500})
		for i := 0; i < flood; i++ {
			d := xw.PatternD(hv.Pick(r, []int{1, 100, 1400}), byte(i), 1)
			fs = append(fs, rawFrame(id, fREL, len(d), 1, uint32(i+1), d))
			if i%97 == 0 {
				fs = append(fs, rawFrame(id, fREL|fRTR, len(d), 1, uint32(i+5000), d), rawFrame(id, fREL, len(d), 1, uint32(i/2), d))
			}
		}
		fs = append(fs, rawFrame(id, fREL|fFIN|fACK, 0, 1, uint32(flood+1), nil))
	case "backpressure-accept":
		// more tube requests than the accept queue holds (128) while nobody accepts
		for i := 0; i < 300; i++ {
			meta := byte(fREQ)
			if i%2 == 0 {
				meta |= fREL
			}
			id := byte(2 + i/2)
			fs = append(fs, reqFrame(id, meta, byte(3+r.Intn(5))))
		}
	case "req-flood":
		// more tube requests than the accept queue holds (128), both kinds
		for i := 0; i < 300; i++ {
			meta := byte(fREQ)
			if i%2 == 0 {
				meta |= fREL
			}
			id := byte(i / 2)
			if meta&fREL != 0 && id == xw.ProbeID {
				continue
			}
			fs = append(fs, reqFrame(id, meta, byte(r.Intn(256))))
		}
	default: // random
		for i := 0; i < n; i++ {
			meta := byte(r.Intn(256))
			id := pickTube(r, meta)
			d := r.Bytes(r.Intn(40))
			f := rawFrame(id, meta, hv.Pick(r, []int{len(d), len(d), r.Intn(65536)}), uint32(r.U64()), uint32(r.U64()), d)
			if r.Chance(10) {
				f = r.Bytes(r.Intn(30))
				if len(f) >= 2 && f[1]&fREL != 0 && f[0] == xw.ProbeID {
					f[0] = 9
				}
			}
			fs = append(fs, f)
		}
	}
	return fs
}

// ---------------------------------------------------------------- main

func main() {
	logrus.SetOutput(io.Discard)
	if len(os.Args) >= 3 && os.Args[1] == "-child" {
		switch os.Args[2] {
		case "decoders":
			xw.ChildMain(3<<30, childDecoders) // 3 GiB of address space: a 4 GiB make() fails here, not on the host
		case "mux":
			xw.ChildMain(0, childMux)
		}
		return
	}
	defer hv.Flush()
	r := hv.NewRand(hv.Seed())

	// ---- part A
	agNoSweep := *xw.Ag
	if !hv.Thorough() {
		agNoSweep.Sweep = nil
	}
	type plan struct {
		f, gen       *xw.Format
		nv, mut, rnd int
	}
	plans := []plan{
		{xw.WString, xw.WString, hv.Scale(10, 100), 6, hv.Scale(10, 100)},
		{xw.Cert, xw.Cert, hv.Scale(8, 100), 8, hv.Scale(6, 60)},
		{xw.Intent, xw.Intent, hv.Scale(30, 300), 12, hv.Scale(10, 100)},
		{xw.Ag, xw.Ag, hv.Scale(24, 300), 6, hv.Scale(16, 160)},
		{xw.ConfDen, xw.Ag, hv.Scale(24, 300), 5, hv.Scale(10, 100)},
		{xw.Proxy, xw.Proxy, hv.Scale(8, 80), 5, hv.Scale(8, 80)},
		{xw.Exec, xw.Exec, hv.Scale(24, 300), 10, hv.Scale(20, 200)},
		{xw.UserAuth, xw.UserAuth, hv.Scale(16, 200), 6, hv.Scale(16, 160)},
		{xw.Pf, xw.Pf, hv.Scale(24, 300), 7, hv.Scale(16, 160)},
		{relMsg, xw.UserAuth, hv.Scale(10, 100), 5, hv.Scale(10, 100)},
		// extension round (coq/Model/WireMore.v)
		{xw.StatusMsg, xw.StatusMsg, hv.Scale(12, 200), 5, hv.Scale(10, 100)},
		{xw.WinSizeMsg, xw.WinSizeMsg, hv.Scale(4, 60), 3, hv.Scale(5, 50)},
		{xw.WinLoop, xw.WinSeq, hv.Scale(10, 100), 3, hv.Scale(6, 60)},
		{xw.UAReply, xw.ReplyGen, hv.Scale(6, 60), 2, hv.Scale(5, 50)},
		{xw.ProxyID, xw.ProxyID, hv.Scale(3, 30), 2, hv.Scale(3, 30)},
		// the length-field sweep over AgMessages already runs through agmsg and confden (same ReadFrom underneath)
		{xw.IntentReq, &agNoSweep, hv.Scale(10, 200), 5, hv.Scale(6, 60)},
		{xw.IntentComm, &agNoSweep, hv.Scale(10, 200), 5, hv.Scale(6, 60)},
	}
	type meta struct {
		f       *xw.Format
		in      []byte
		class   string
		compare bool // also evaluate on the model
	}
	var jobs []xw.Job
	var metas []meta
	for _, p := range plans {
		nb := len(bombs(p.f.Name))
		for i, in := range decoderInputs(r, p.f, p.gen, p.nv, p.mut, p.rnd) {
			class := "mutated"
			if i < nb {
				class = "length-bomb"
			}
			d, _ := json.Marshal(decJob{Dec: p.f.Name, Hex: hex.EncodeToString(in)})
			jobs = append(jobs, xw.Job{ID: len(jobs), Kind: "decoders", Data: d})
			metas = append(metas, meta{p.f, in, class, true})
		}
		// length-field sweep: every offset of representative valid messages overwritten with a
		// huge 1-, 2-, 4-byte value, message cut right after. All are judged by the oracle; one in
		// five (all in the thorough tier) is also compared with the model.
		if p.gen.Sweep != nil {
			k := 0
			for _, v := range p.gen.Sweep() {
				o := xw.RunEnc(p.gen, v)
				if o.Code != xw.OK {
					continue
				}
				for _, in := range xw.LengthSweep(o.Bytes) {
					d, _ := json.Marshal(decJob{Dec: p.f.Name, Hex: hex.EncodeToString(in)})
					jobs = append(jobs, xw.Job{ID: len(jobs), Kind: "decoders", Data: d})
					metas = append(metas, meta{p.f, in, "length-sweep", hv.Thorough() || k%5 == 0})
					k++
				}
			}
		}
	}
	results := xw.RunJobs("decoders", jobs, 60*time.Second, 6)
	for id, m := range metas {
		res := results[id]
		fn := strings.Replace(m.f.DecFn, "c18_", "c11_", 1)
		bound := uint64(allocSlope*len(m.in) + allocConst)
		c := hv.Case{Class: "decoder/" + m.f.Name + "/" + m.class, Desc: "decode " + m.f.Name + " #" + ident(m.in), NT: len(m.in) >= 2, Spec: true,
			Replay: map[string]interface{}{"decoder": m.f.Name, "hex": hex.EncodeToString(m.in[:min(len(m.in), 4096)]), "len": len(m.in)}}
		switch {
		case res.Crashed || res.Hung:
			c.Spec = false
			c.Sig = "C11:" + m.f.Name + "-decoder-kills-process"
			c.What = fmt.Sprintf("the process died or hung while decoding %d bytes (address space limited to 3 GiB): %s at %s", len(m.in), res.Detail, res.Site)
		default:
			var o decOut
			json.Unmarshal(res.Out, &o)
			if m.compare {
				c.Fn, c.Coq = fn, o.Coq
			}
			if o.Code == xw.PANIC {
				c.Spec, c.Sig, c.What = false, "C11:"+m.f.Name+"-decoder-panics", "decoder panicked: "+o.Msg
			} else if o.Alloc > bound {
				c.Spec, c.Sig = false, "C11:"+m.f.Name+"-decoder-over-allocates"
				c.What = fmt.Sprintf("%d bytes allocated while decoding %d bytes of input (bound %d*len + %d): %s", o.Alloc, len(m.in), allocSlope, allocConst, hex.EncodeToString(m.in[:min(len(m.in), 300)]))
			}
		}
		hv.Emit(c)
	}

	// ---- part B
	partB(r)

	// ---- part C
	classes := []string{"flags-sweep", "length-field", "ack-beyond-sent", "dup-acks", "data-and-fin", "req-flood", "random",
		"backpressure-unreliable-999", "backpressure-unreliable-1000", "backpressure-unreliable-1200", "backpressure-reliable", "backpressure-accept"}
	var mjobs []xw.Job
	var mdesc []struct {
		class  string
		frames [][]byte
	}
	for k := 0; k < hv.Scale(36, 240); k++ {
		class := classes[k%len(classes)]
		fs := muxSequence(r, class)
		hx := make([]string, len(fs))
		for i, f := range fs {
			hx[i] = hex.EncodeToString(f)
		}
		d, _ := json.Marshal(muxJob{Frames: hx, Opts: xw.MuxOpts{StopAccepting: class == "backpressure-accept"}})
		mjobs = append(mjobs, xw.Job{ID: len(mjobs), Kind: "mux", Data: d})
		mdesc = append(mdesc, struct {
			class  string
			frames [][]byte
		}{class, fs})
	}
	mres := xw.RunJobs("mux", mjobs, 3*time.Minute, 7)
	for id, md := range mdesc {
		res := mres[id]
		var sb strings.Builder
		for i, f := range md.frames {
			if i >= 6 {
				fmt.Fprintf(&sb, " ...(%d frames)", len(md.frames))
				break
			}
			sb.WriteString(" " + hex.EncodeToString(f[:min(len(f), 14)]))
		}
		hx := make([]string, len(md.frames))
		for i, f := range md.frames {
			hx[i] = hex.EncodeToString(f)
		}
		c := hv.Case{Class: "mux/" + md.class, Desc: fmt.Sprintf("inject %d frames (%s):%s", len(md.frames), md.class, sb.String()), NT: true, Spec: true,
			Key: fmt.Sprintf("mux-%d-%s", id, md.class), Replay: map[string]interface{}{"op": "inject into a server muxer with a live probe tube (reliable, id 1); the application echoes on the probe tube, keeps tubes of type 201 without reading them, closes all others" + map[bool]string{true: "; it stops accepting after the probe tube", false: ""}[md.class == "backpressure-accept"], "class": md.class, "frames_hex": hx}}
		switch {
		case res.Crashed:
			site := res.Site
			if site == "" {
				site = "unknown"
			}
			c.Spec, c.Sig = false, "C11:muxer-crash-in-"+site
			c.What = fmt.Sprintf("the process hosting the muxer died: %s (first hop-go frame: %s)", res.Detail, res.Site)
		case res.Hung:
			c.Spec, c.Sig, c.What = false, "C11:muxer-run-hangs", "the muxer run did not finish: "+res.Detail
		default:
			var o xw.MuxResult
			json.Unmarshal(res.Out, &o)
			c.Desc += fmt.Sprintf(" | application holds %d tube(s) unread, %d datagrams queued on them, %d tubes accepted", o.Held, o.HeldQueued, o.Accepted)
			switch {
			case !o.SetupOK || !o.EchoBefore:
				c.Spec, c.Sig, c.What = false, "C11:muxer-probe-setup", "the probe tube did not work before anything was injected: "+o.Note
			case !o.EchoAfter:
				c.Spec, c.Sig, c.What = false, "C11:muxer-stops-serving-other-tube", fmt.Sprintf("after the injected frames the unrelated reliable tube no longer echoes (tubes held unread by the application: %d, datagrams queued on them: %d)", o.Held, o.HeldQueued)
			case !o.StopReturned:
				c.Spec, c.Sig, c.What = false, "C11:muxer-stop-does-not-return", fmt.Sprintf("Muxer.Stop had not returned after %d ms", o.StopMs)
			}
		}
		hv.Emit(c)
	}
	hv.Info(map[string]interface{}{"driver": "c11", "decoder_jobs": len(jobs), "mux_runs": len(mjobs)})
}
