(* ShutdownProofs2.v — remaining actors, reachability and the theorems of the shutdown system. *)
From Hop Require Import Base ConcBase ConcUtil Shutdown ShutdownProofs.
From Coq Require Import Lia Arith.
Local Open Scope nat_scope.

Ltac dS H := destruct H as [Xms Xmqc Xuc Xst Xfa Xwg Xcfg Xhp Xsp Xip Xmsp Xmrp Xfp Xlp Xg1 Xg2 Xown Xso Xsd Xid Xmq].

Lemma inv_force s s' : Inv s ->
  match fp s with
  | F_cb => match ms s with
            | MStopped => Some (set_fp s F_done)
            | _ => Some (set_fp (set_mux s (ms s) (mq s) (mq_closed s) true (stopped s) (force_armed s) (wgc s) (stop_owner s) (written s)) F_go)
            end
  | F_go => let '(s1, w) := ecs1 s in Some (set_fp s1 (if w then F_ecs else F_done))
  | F_ecs => match ecs2 s with Some s1 => Some (set_fp s1 F_done) | None => None end
  | _ => None
  end = Some s' -> Inv s'.
Proof.
  intros HI H. pose proof HI as [HA HP]. unfold npend in HP. destruct (fp s) eqn:Ef; try discriminate.
  - (* callback *)
    dA HA. destruct (ms s) eqn:Es; inversion H; subst; clear H; unfold set_fp, set_procs, set_mux.
    + split; [solveA|solveP].
    + split; [solveA|solveP].
    + (* stopped: the tube is closed already *)
      assert (Hh : hp s = H_done) by (destruct (own s); simpl in *; try discriminate; auto).
      split; [solveA|solveP].
  - (* per-tube goroutine: enterClosedState *)
    destruct (ecs1 s) as [s1 w] eqn:Ee. inversion H; subst; clear H.
    pose proof (TStep_ecs1 _ _ _ (Inv_TInv _ HA) Ee) as HS.
    assert (Hc1 : ts s1 = TClosed).
    { destruct (ecs1_ok _ _ _ (Inv_TInv _ HA) Ee) as (_ & _ & _ & _ & [(E1 & E2 & _)|[(_ & E2 & _)|(_ & E2 & _)]]); congruence. }
    pose proof (invA_tstep _ _ _ HA HS) as HA1.
    destruct HS as [HSame HT1 HM _ _]. dS HSame.
    dA HA1. rewrite Xfp, Ef in *. unfold set_fp, set_procs.
    destruct HM as [A1 A2 [k1 k2 k3 k4] A4|A1 A2 [k1 k2 k3 k4] A4|A1 A2 A3 A4 A5 A6 A7 A8 A9 A10 A11|A1 A2 A3 A4 A5 A6 A7 A8 A9 A10];
      subst w; try contradiction;
      (split; [solveA|unfold npend; simpl; rewrite ?Xmrp, ?Xlp; try rewrite k4; try rewrite A6; try rewrite A7 in HP; simpl in *; lia]).
  - (* phase 2 *)
    assert (Hp : ecs_pending s = true) by (destruct (ecs_pending s); auto; simpl in HP; lia).
    destruct (ecs2 s) as [s1|] eqn:E2; [|discriminate]. inversion H; subst; clear H.
    destruct (inv_ecs2 _ _ HI Hp E2) as (HA1 & HS & B1 & B2 & B3). dS HS. rewrite Hp in HP.
    dA HA1. rewrite Xfp, Ef in *. unfold set_fp, set_procs.
    split; [solveA|unfold npend; simpl; rewrite Xmrp, Xlp, B1; lia].
Qed.

Lemma inv_last_fire s : Inv s -> la_armed s = true -> lp s = LA_none ->
  Inv (set_lp (with_tube s (ts s) (s_closed s) (tq s) (tq_closed s) (fin_sent s) (unack_data s) (unack_fin s) (send_done s)
                         (r_closed s) (init_done s) (init_recv s) false (rw_closed s) (ecs_pending s)) LA_cb).
Proof.
  intros [HA HP] Hl El. unfold npend in HP. dA HA. unfold set_lp, set_procs. unf. split; [solveA|solveP].
Qed.

Lemma inv_last s s' : Inv s ->
  match lp s with
  | LA_cb =>
    match ts s with
    | TLastAck =>
      if Nat.ltb 1 (unacked s) then
        Some (set_lp (with_tube s (ts s) (s_closed s) (tq s) (tq_closed s) (fin_sent s) (unack_data s) (unack_fin s) (send_done s)
                                (r_closed s) (init_done s) (init_recv s) true (rw_closed s) (ecs_pending s)) LA_none)
      else let '(s1, w) := ecs1 s in Some (set_lp s1 (if w then LA_ecs else LA_none))
    | _ => Some (set_lp s LA_none)
    end
  | LA_ecs => match ecs2 s with Some s1 => Some (set_lp s1 LA_none) | None => None end
  | _ => None
  end = Some s' -> Inv s'.
Proof.
  intros HI H. pose proof HI as [HA HP]. unfold npend in HP. destruct (lp s) eqn:El; try discriminate.
  - destruct (ts s) eqn:Ets.
    all: try (inversion H; subst; clear H; dA HA; unfold set_lp, set_procs; split; [solveA|solveP]; fail).
    destruct (Nat.ltb 1 (unacked s)).
    + inversion H; subst; clear H. dA HA. unfold set_lp, set_procs. unf. split; [solveA|solveP].
    + destruct (ecs1 s) as [s1 w] eqn:Ee. inversion H; subst; clear H.
      pose proof (TStep_ecs1 _ _ _ (Inv_TInv _ HA) Ee) as HS.
      assert (Hc1 : ts s1 = TClosed).
      { destruct (ecs1_ok _ _ _ (Inv_TInv _ HA) Ee) as (_ & _ & _ & _ & [(E1 & E2 & _)|[(_ & E2 & _)|(_ & E2 & _)]]); congruence. }
      pose proof (invA_tstep _ _ _ HA HS) as HA1.
      destruct HS as [HSame HT1 HM _ _]. dS HSame.
      dA HA1. try rewrite Xlp in *. unfold set_lp, set_procs.
      destruct HM as [A1 A2 [k1 k2 k3 k4] A4|A1 A2 [k1 k2 k3 k4] A4|A1 A2 A3 A4 A5 A6 A7 A8 A9 A10 A11|A1 A2 A3 A4 A5 A6 A7 A8 A9 A10];
        subst w; try contradiction;
        (split; [solveA|unfold npend; simpl; rewrite ?Xmrp, ?Xfp; try rewrite k4; try rewrite A6; try rewrite A7 in HP; simpl in *; lia]).
  - assert (Hp : ecs_pending s = true) by (destruct (ecs_pending s); auto; simpl in HP; lia).
    destruct (ecs2 s) as [s1|] eqn:E2; [|discriminate]. inversion H; subst; clear H.
    destruct (inv_ecs2 _ _ HI Hp E2) as (HA1 & HS & B1 & B2 & B3). dS HS. rewrite Hp in HP.
    dA HA1. try rewrite Xlp in *. unfold set_lp, set_procs.
    split; [solveA|unfold npend; simpl; rewrite Xmrp, Xfp, B1; lia].
Qed.

Lemma inv_gstep s p s' p' : Inv s -> gstep s p = Some (s', p') -> Inv s'.
Proof.
  intros HI H. unfold gstep in H. destruct p; try discriminate.
  - destruct (stop_begin s) as [s1 o] eqn:E. inversion H; subst.
    pose proof (inv_stop_begin s HI) as H1. rewrite E in H1. exact H1.
  - destruct (stopped s); inversion H; subst; auto.
Qed.

Lemma stop_begin_ms s : running (ms (fst (stop_begin s))) = false.
Proof. unfold stop_begin. destruct (ms s) eqn:E; simpl; auto; rewrite E; reflexivity. Qed.

Lemma stop_begin_same_g s : g1 (fst (stop_begin s)) = g1 s /\ g2 (fst (stop_begin s)) = g2 s.
Proof. unfold stop_begin. destruct (ms s); simpl; auto. Qed.

Lemma inv_g1 s s' : Inv s -> match gstep s (g1 s) with Some (s1, p) => Some (set_g1 s1 p) | None => None end = Some s' -> Inv s'.
Proof.
  intros HI H. destruct (gstep s (g1 s)) as [[s1 p]|] eqn:E; [|discriminate]. inversion H; subst; clear H.
  pose proof (inv_gstep _ _ _ _ HI E) as [HA HP]. unfold npend in HP.
  assert (Hr : p = G_wait /\ running (ms s1) = false \/ p = G_done /\ s1 = s /\ (g1 s = G_wait)).
  { unfold gstep in E. destruct (g1 s) eqn:Eg; try discriminate.
    - left. destruct (stop_begin s) as [s2 o] eqn:Eb. inversion E; subst. split; auto.
      pose proof (stop_begin_ms s). rewrite Eb in H. exact H.
    - right. destruct (stopped s); inversion E; subst; auto. }
  dA HA. unfold set_g1, set_procs.
  destruct Hr as [[-> Hr]|(-> & -> & Hg)]; (split; [solveA|solveP]).
Qed.

Lemma inv_g2 s s' : Inv s -> match gstep s (g2 s) with Some (s1, p) => Some (set_g2 s1 p) | None => None end = Some s' -> Inv s'.
Proof.
  intros HI H. destruct (gstep s (g2 s)) as [[s1 p]|] eqn:E; [|discriminate]. inversion H; subst; clear H.
  pose proof (inv_gstep _ _ _ _ HI E) as [HA HP]. unfold npend in HP.
  assert (Hr : p = G_wait /\ running (ms s1) = false /\ g2 s1 = g2 s /\ g2 s = G_start \/ p = G_done /\ s1 = s /\ (g2 s = G_wait)).
  { unfold gstep in E. destruct (g2 s) eqn:Eg; try discriminate.
    - left. destruct (stop_begin s) as [s2 o] eqn:Eb. inversion E; subst. split; auto.
      pose proof (stop_begin_ms s). pose proof (stop_begin_same_g s) as [_ Hg]. rewrite Eb in *. simpl in *.
      repeat split; auto; congruence.
    - right. destruct (stopped s); inversion E; subst; auto. }
  dA HA. unfold set_g2, set_procs.
  destruct Hr as [(-> & Hr & Hg & Hg')|(-> & -> & Hg)]; (split; [solveA|solveP]).
Qed.

Lemma inv_sender_timer s : Inv s -> own s = O_senderr false ->
  Inv (set_own (set_mux s (ms s) (mq s) (mq_closed s) true (stopped s) (force_armed s) (wgc s) (stop_owner s) (written s)) (O_senderr true)).
Proof.
  intros [HA HP] Eo. unfold npend in HP. dA HA. rewrite Eo in *. unfold set_own, set_mux. split; [solveA|solveP].
  all: msd s.
Qed.

(* ------------------------------------------------------------------ every transition preserves the invariant *)
Theorem inv_step x a x' : Inv (shd x) -> step x a = Some x' -> Inv (shd x').
Proof.
  intros HI H. unfold step in H. destruct (panic (shd x)); [discriminate|].
  destruct a.
  - (* user *)
    destruct (nth_error (uths x) i) as [t|]; [|discriminate].
    destruct (ustep (shd x) t) as [[s' t']|] eqn:E; [|discriminate]. inversion H; subst. simpl.
    eapply inv_ustep; eauto.
  - (* helper *)
    apply (inv_helper (shd x) (shd x') HI).
    destruct (hp (shd x)); try discriminate.
    + destruct (init_done (shd x) || r_closed (shd x)); [|discriminate].
      destruct (do_close (shd x)) as [s1 r]. destruct (r =? 2)%N; inversion H; subst; reflexivity.
    + destruct (r_closed (shd x)); inversion H; subst; reflexivity.
    + destruct (init_done (shd x)); inversion H; subst; reflexivity.
  - (* send drain *)
    apply (inv_send_drain (shd x) emit (shd x') HI).
    destruct (sp (shd x)); try discriminate. destruct (tq (shd x)).
    + destruct (tq_closed (shd x)); inversion H; subst; reflexivity.
    + inversion H; subst; reflexivity.
  - (* tick *)
    destruct (sp (shd x)) eqn:Es; try discriminate. destruct (s_closed (shd x)) eqn:Ec; [discriminate|].
    destruct (Nat.ltb 0 (unacked (shd x))); inversion H; subst. simpl.
    eapply inv_send_bg; eauto.
  - (* window *)
    destruct (sp (shd x)) eqn:Es; try discriminate. destruct (s_closed (shd x)) eqn:Ec; [discriminate|].
    destruct (Nat.ltb 0 (unacked (shd x))); inversion H; subst. simpl.
    eapply inv_send_bg; eauto.
  - (* init *)
    apply (inv_init (shd x) (shd x') HI).
    destruct (ip (shd x)); try discriminate.
    destruct (r_closed (shd x)); [inversion H; subst; reflexivity|].
    destruct (init_recv (shd x)); [|discriminate].
    destruct (ts (shd x)); inversion H; subst; reflexivity.
  - (* muxer sender *)
    apply (inv_msend (shd x) (shd x') HI).
    destruct (msp (shd x)); try discriminate; destruct (mq (shd x)).
    + destruct (mq_closed (shd x)); inversion H; subst; reflexivity.
    + destruct (under_closed (shd x)); inversion H; subst; reflexivity.
    + destruct (mq_closed (shd x)); inversion H; subst; reflexivity.
    + inversion H; subst; reflexivity.
  - (* frame *)
    destruct (mrp (shd x)) eqn:Em; try discriminate. destruct (under_closed (shd x)); [discriminate|].
    apply (inv_recv_frame (shd x) f (shd x') HI Em).
    destruct (receive (shd x) f) as [s1 w]. inversion H; subst; reflexivity.
  - (* read error *)
    destruct (mrp (shd x)) eqn:Em; try discriminate. destruct (under_closed (shd x)) eqn:Eu; [|discriminate].
    apply (inv_recv_err (shd x) (shd x') HI Em (or_introl Eu)).
    destruct (ms (shd x)); inversion H; subst; reflexivity.
  - (* receiver step *)
    apply (inv_recv_step (shd x) (shd x') HI).
    destruct (mrp (shd x)); try discriminate.
    + destruct (ms (shd x)); inversion H; subst; reflexivity.
    + destruct (ecs2 (shd x)); inversion H; subst; reflexivity.
  - (* force *)
    apply (inv_force (shd x) (shd x') HI).
    destruct (fp (shd x)); try discriminate.
    + destruct (ms (shd x)); inversion H; subst; reflexivity.
    + destruct (ecs1 (shd x)) as [s1 w]. inversion H; subst; reflexivity.
    + destruct (ecs2 (shd x)); inversion H; subst; reflexivity.
  - (* lastAck callback *)
    apply (inv_last (shd x) (shd x') HI).
    destruct (lp (shd x)); try discriminate.
    + destruct (ts (shd x)); try (inversion H; subst; reflexivity).
      destruct (Nat.ltb 1 (unacked (shd x))); [inversion H; subst; reflexivity|].
      destruct (ecs1 (shd x)) as [s1 w]. inversion H; subst; reflexivity.
    + destruct (ecs2 (shd x)); inversion H; subst; reflexivity.
  - (* g1 *)
    apply (inv_g1 (shd x) (shd x') HI).
    destruct (gstep (shd x) (g1 (shd x))) as [[s1 p]|]; inversion H; subst; reflexivity.
  - (* g2 *)
    apply (inv_g2 (shd x) (shd x') HI).
    destruct (gstep (shd x) (g2 (shd x))) as [[s1 p]|]; inversion H; subst; reflexivity.
  - (* owner *)
    destruct (ostep (shd x)) as [s1|] eqn:E; [|discriminate]. inversion H; subst. simpl.
    eapply inv_owner; eauto.
  - (* force timer *)
    destruct (force_armed (shd x)) eqn:Ef; [|discriminate]. inversion H; subst. simpl.
    apply inv_force_fire; auto.
  - (* lastAck timer *)
    destruct (la_armed (shd x)) eqn:El; [|discriminate]. destruct (lp (shd x)) eqn:Ep; try discriminate.
    inversion H; subst. simpl. apply inv_last_fire; auto.
  - (* sender timer *)
    destruct (own (shd x)) as [| | |[|]| | | |] eqn:Eo; try discriminate. inversion H; subst. simpl.
    apply inv_sender_timer; auto.
  - (* read timeout *)
    destruct (mrp (shd x)) eqn:Em; try discriminate.
    destruct (cfg_timeout (shd x) && negb (under_closed (shd x))) eqn:Ec; [|discriminate].
    apply (inv_recv_err (shd x) (shd x') HI Em (or_intror Ec)).
    destruct (ms (shd x)); inversion H; subst; reflexivity.
  - (* init tick *)
    destruct (ip (shd x)) eqn:Ei; try discriminate. destruct (ts (shd x)) eqn:Et; try discriminate.
    inversion H; subst. simpl. apply inv_init_tick; auto.
Qed.

Lemma inv_init_state est tmo : Inv (sh_init est tmo).
Proof.
  unfold sh_init. destruct est; simpl; (split; [constructor; simpl; intros; auto; try discriminate; try congruence; try tauto;
    try (intuition (try discriminate; try congruence); fail)|reflexivity]).
Qed.

Lemma inv_run x l x' : Inv (shd x) -> run x l = Some x' -> Inv (shd x').
Proof.
  revert x; induction l as [|a r IH]; intros x HI H; simpl in H.
  - inversion H; subst; auto.
  - destruct (step x a) eqn:E; [|discriminate]. eapply IH; [|exact H]. eapply inv_step; eauto.
Qed.

Theorem inv_reachable est tmo progs x : reachable est tmo progs x -> Inv (shd x).
Proof. intros [l Hl]. eapply inv_run; [|exact Hl]. apply inv_init_state. Qed.
