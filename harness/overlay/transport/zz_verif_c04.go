//go:build verif

package transport

import "hop.computer/hop/certs"

// VerifCertPolicy runs certificateParserAndVerifier of a handshake whose certVerify is cfg.
func VerifCertPolicy(cfg *VerifyConfig, rawLeaf, rawIntermediate []byte) (certs.Certificate, error) {
	hs := &HandshakeState{certVerify: cfg}
	leaf, _, err := hs.certificateParserAndVerifier(rawLeaf, rawIntermediate)
	return leaf, err
}
