(* RecvLoopCorollaries.v — the per-session theorems of C03 / C15 / C10 lifted to the receive loops through the
   refinement theorems of RecvLoopProofs.v; instances for Kravatte-SANSE; non-vacuity examples. *)
From Hop Require Import Base Replay ReplayProofs Packet PacketProofs PacketExamples PacketSanse PacketSanseProofs
  RecvLoop RecvLoopProofs.
From Coq Require Import ZifyN ZifyNat ZifyBool.
Open Scope N_scope.

Section Lift.
  Variable seal : bytes -> bytes -> bytes -> bytes.
  Variable open : bytes -> bytes -> bytes -> option bytes.
  Variable max : N.
  Variable H : Type.
  Variable HS : H -> list bytes -> addr -> bytes -> option (H * list hs_eff).
  Notation srv_run := (srv_run seal open max H HS).
  Notation no_finish := (no_finish seal open max H HS).
  Notation ep_run := (ep_run seal open max).
  Notation delivered := (delivered seal open max).

  (* non-interference between sessions: two runs of the loop — different handshake-side states, different other
     sessions, different traffic for everybody else, of any type, length and source — that agree on the
     events addressed to B leave B's record identical *)
  Theorem srv_loop_noninterference st1 st2 evs1 evs2 B sB :
    lookup (l_tab H st1) B = Some sB -> lookup (l_tab H st2) B = Some sB ->
    l_crashed H (srv_run st1 evs1) = false -> l_crashed H (srv_run st2 evs2) = false ->
    no_finish B st1 evs1 -> no_finish B st2 evs2 ->
    evs_for B evs1 = evs_for B evs2 ->
    lookup (l_tab H (srv_run st1 evs1)) B = lookup (l_tab H (srv_run st2 evs2)) B.
  Proof.
    intros L1 L2 C1 C2 Q1 Q2 E.
    rewrite (srv_loop_refines_session seal open max H HS evs1 st1 B sB L1 C1 Q1).
    rewrite (srv_loop_refines_session seal open max H HS evs2 st2 B sB L2 C2 Q2). now rewrite E.
  Qed.

  (* C03 at the loop: at-most-once and the reader's byte stream *)
  Theorem srv_loop_delivery st evs B sB A :
    lookup (l_tab H st) B = Some sB -> l_crashed H (srv_run st evs) = false -> no_finish B st evs ->
    Inv (window sB) A -> Forall (fun x => x < lim) A -> NoDup A ->
    auth_below open (key_recv sB) (evs_for B evs) ->
    let h := evs_for B evs in
    lookup (l_tab H (srv_run st evs)) B = Some (fst (ep_run sB h)) /\
    NoDup (map fst (delivered sB h)) /\ (forall c, In c (map fst (delivered sB h)) -> ~ In c A) /\
    pending sB ++ List.concat (map snd (delivered sB h)) = read_bytes (snd (ep_run sB h)) ++ pending (fst (ep_run sB h)).
  Proof.
    intros L C Q HI HA HN HB h. split; [now apply srv_loop_refines_session|].
    destruct (delivered_at_most_once seal open max h sB A HI HA HN HB) as [D1 D2].
    split; [exact D1|]. split; [exact D2|]. apply reader_stream.
  Qed.

  (* C10 (session part) at the loop: the record equals the one produced by the authentic fresh subsequence alone *)
  Theorem srv_loop_authentic_subsequence st evs B sB :
    lookup (l_tab H st) B = Some sB -> l_crashed H (srv_run st evs) = false -> no_finish B st evs ->
    let h := auth_only seal open max sB (evs_for B evs) in
    lookup (l_tab H (srv_run st evs)) B = Some (fst (ep_run sB h)) /\ all_authentic seal open max sB h.
  Proof.
    intros L C Q h. split; [|apply auth_only_all_authentic].
    unfold h. rewrite auth_only_same_state. now apply srv_loop_refines_session.
  Qed.

  (* C15 at the loop *)
  Theorem srv_loop_addr st evs B sB :
    lookup (l_tab H st) B = Some sB -> l_crashed H (srv_run st evs) = false -> no_finish B st evs ->
    exists sB', lookup (l_tab H (srv_run st evs)) B = Some sB' /\
                remote sB' = addr_spec seal open max sB (evs_for B evs) (remote sB).
  Proof.
    intros L C Q. exists (fst (ep_run sB (evs_for B evs))). split; [now apply srv_loop_refines_session|]. apply addr_history.
  Qed.
End Lift.

Section LiftClient.
  Variable seal : bytes -> bytes -> bytes -> bytes.
  Variable open : bytes -> bytes -> bytes -> option bytes.
  Variable max : N.
  Variable C : Type.
  Variable CHS : C -> bytes -> C + option sess.
  Notation cli_run := (cli_run seal open max C CHS).
  Notation ep_run := (ep_run seal open max).
  Notation delivered := (delivered seal open max).

  Theorem cli_loop_delivery evs s s' A :
    cli_run (COpen C s) evs = COpen C s' ->
    Inv (window s) A -> Forall (fun x => x < lim) A -> NoDup A ->
    auth_below open (key_recv s) (cli_evs_for (sid s) evs) ->
    let h := cli_evs_for (sid s) evs in
    s' = fst (ep_run s h) /\
    NoDup (map fst (delivered s h)) /\ (forall c, In c (map fst (delivered s h)) -> ~ In c A) /\
    pending s ++ List.concat (map snd (delivered s h)) = read_bytes (snd (ep_run s h)) ++ pending (fst (ep_run s h)).
  Proof.
    intros R HI HA HN HB h. split; [now apply (cli_loop_refines_session seal open max C CHS)|].
    destruct (delivered_at_most_once seal open max h s A HI HA HN HB) as [D1 D2].
    split; [exact D1|]. split; [exact D2|]. apply reader_stream.
  Qed.

  Theorem cli_loop_authentic_subsequence evs s s' :
    cli_run (COpen C s) evs = COpen C s' ->
    let h := auth_only seal open max s (cli_evs_for (sid s) evs) in
    s' = fst (ep_run s h) /\ all_authentic seal open max s h.
  Proof.
    intros R h. split; [|apply auth_only_all_authentic].
    unfold h. rewrite auth_only_same_state. now apply (cli_loop_refines_session seal open max C CHS).
  Qed.

  Theorem cli_loop_addr evs s s' :
    cli_run (COpen C s) evs = COpen C s' ->
    remote s' = addr_spec seal open max s (cli_evs_for (sid s) evs) (remote s).
  Proof.
    intros R. rewrite (cli_loop_refines_session seal open max C CHS _ _ _ R). apply addr_history.
  Qed.
End LiftClient.

(* ---------------------------------------------------------------- Kravatte-SANSE *)
Lemma sanse_open_len_ok : open_len_ok sanse_open.
Proof. intros k ad ct p. apply sanse_open_len. Qed.

Theorem srv_crash_only_in_handshake_handler_sanse seal max H HS st e :
  l_crashed H st = false -> l_crashed H (srv_step seal sanse_open max H HS st e) = true ->
  exists a raw, e = LDgram a raw /\ classify (sock_read raw) = DHandshake.
Proof. apply srv_crash_only_in_handshake_handler. exact sanse_open_len_ok. Qed.

Theorem cli_never_crashes_sanse seal max C CHS evs s s' :
  cli_run seal sanse_open max C CHS (COpen C s) evs <> CCrash C s'.
Proof. apply cli_never_crashes. exact sanse_open_len_ok. Qed.

(* a handshake side whose effects never finish B keeps the premise no_finish for every event sequence *)
Lemma no_finish_of_quiet_HS seal open max H HS B :
  (forall h ids a d h' es, HS h ids a d = Some (h', es) -> Forall (eff_quiet B) es) ->
  forall evs st, no_finish seal open max H HS B st evs.
Proof.
  intros Hq. induction evs as [|e r IH]; intros st; [exact I|].
  cbn [no_finish]. split; [|apply IH].
  destruct e as [a raw|id e0]; cbn [step_quiet]; [|exact I].
  destruct (classify (sock_read raw)); try exact I.
  destruct (HS (l_h H st) (map sid (l_tab H st)) a (sock_read raw)) as [[h' es]|] eqn:E; [|exact I].
  eapply Hq; exact E.
Qed.

(* ---------------------------------------------------------------- a concrete run (non-vacuity) *)
(* the server holds B (id 01020304) and C (id 09090909); the handshake side rejects everything (no effects) *)
Definition ex_HS : unit -> list bytes -> addr -> bytes -> option (unit * list hs_eff) := fun _ _ _ _ => Some (tt, []).
Definition ex_pktC : bytes := Eval vm_compute in wire_image toy_seal exC mt_transport 0 [5].
Definition ex_lst : lsrv unit := mkL unit tt [exB; exC] false.
Definition ex_levs : list lev :=
  [LDgram 3 ex_pkt;                                   (* genuine, for B *)
   LDgram 7 ex_pktC;                                  (* genuine, for C *)
   LDgram 4 ex_pkt;                                   (* replay *)
   LDgram 4 ex_forged;                                (* forgery *)
   LDgram 5 (1 :: skipn 1 ex_close);                  (* B's genuine close under the ClientHello type: handshake handler *)
   LDgram 5 (17 :: skipn 1 ex_close);                 (* ... under an unknown type: default branch *)
   LDgram 5 [16; 0; 0];                               (* fewer than 4 bytes *)
   LDgram 6 (ex_close ++ repeat 0 (N.to_nat 65600));  (* B's genuine close followed by 65600 bytes: truncated, rejected *)
   LLocal [9; 9; 9; 9] (EvReadMsg 100);               (* C's reader *)
   LDgram 8 ex_close].                                (* B's genuine close from a new address *)

Example ex_loop_runs :
  l_crashed unit (srv_run toy_seal toy_open 100 unit ex_HS ex_lst ex_levs) = false /\
  no_finish toy_seal toy_open 100 unit ex_HS [1; 2; 3; 4] ex_lst ex_levs /\
  map (fun e => match e with EvIn a p => (a, len p) | _ => (0, 0) end) (evs_for [1; 2; 3; 4] ex_levs) =
    [(3, 50); (4, 50); (4, 50); (5, 49); (6, 65535); (8, 49)] /\
  option_map (fun s => (closed s, remote s, queue s, wt (window s)))
             (lookup (l_tab unit (srv_run toy_seal toy_open 100 unit ex_HS ex_lst ex_levs)) [1; 2; 3; 4]) =
    Some (true, 8, [[9; 9]], 6) /\
  option_map (fun s => (closed s, remote s, queue s))
             (lookup (l_tab unit (srv_run toy_seal toy_open 100 unit ex_HS ex_lst ex_levs)) [9; 9; 9; 9]) =
    Some (false, 7, []) /\
  map (fun e => match e with EvIn a _ => a | _ => 0 end) (auth_only toy_seal toy_open 100 exB (evs_for [1; 2; 3; 4] ex_levs)) = [3; 8].
Proof.
  split; [vm_compute; reflexivity|]. split.
  - apply no_finish_of_quiet_HS. intros h ids a d h' es E. inversion E. constructor.
  - vm_compute. repeat split; reflexivity.
Qed.

(* the listen loop on the same traffic (client B) *)
Example ex_cli_loop_runs :
  exists s', cli_run toy_seal toy_open 100 unit (fun _ _ => inr None) (COpen unit exB)
               [LDgram 3 ex_pkt; LDgram 4 ex_pkt; LDgram 5 (1 :: skipn 1 ex_close);
                LDgram 6 (ex_close ++ repeat 0 (N.to_nat 65600)); LDgram 7 ex_pktC; LDgram 8 ex_close] = COpen unit s' /\
             (closed s', remote s', queue s') = (true, 8, [[9; 9]]).
Proof. eexists. vm_compute. split; reflexivity. Qed.

(* a handshake creating and finishing a third session leaves B alone (HCreate / HFinish exercised) *)
Definition ex_HS2 : unit -> list bytes -> addr -> bytes -> option (unit * list hs_eff) :=
  fun _ _ a d => if nth 0 d 0 =? 3 then Some (tt, [HCreate [[1; 2; 3; 4]; [7; 7; 7; 7]] a])
                 else if nth 0 d 0 =? 5 then Some (tt, [HFinish [7; 7; 7; 7] kC kC 4 false]) else Some (tt, []).
Example ex_loop_handshake :
  let st' := srv_run toy_seal toy_open 100 unit ex_HS2 ex_lst
               [LDgram 9 [3; 0; 0; 0]; LDgram 3 ex_pkt; LDgram 9 [5; 0; 0; 0]] in
  no_finish toy_seal toy_open 100 unit ex_HS2 [1; 2; 3; 4] ex_lst [LDgram 9 [3; 0; 0; 0]; LDgram 3 ex_pkt; LDgram 9 [5; 0; 0; 0]] /\
  map sid (l_tab unit st') = [[7; 7; 7; 7]; [1; 2; 3; 4]; [9; 9; 9; 9]] /\
  option_map (fun s => (key_recv s, qcap s, remote s)) (lookup (l_tab unit st') [7; 7; 7; 7]) = Some (Some kC, 4, 9) /\
  option_map queue (lookup (l_tab unit st') [1; 2; 3; 4]) = Some [[9; 9]].
Proof.
  split.
  - apply no_finish_of_quiet_HS. intros h ids a d h' es. unfold ex_HS2.
    destruct (nth 0 d 0 =? 3); [intros E; inversion E; repeat constructor|].
    destruct (nth 0 d 0 =? 5); intros E; inversion E; repeat constructor. cbn [eff_quiet]. discriminate.
  - vm_compute. repeat split; reflexivity.
Qed.
