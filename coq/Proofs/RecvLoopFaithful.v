(* RecvLoopFaithful.v — the end-to-end completeness theorem of C03 through the peer's receive LOOP: on a faithful
   network every byte accepted by a Write of any size reaches the peer session's queue, the socket's truncation
   and the loop's dispatch included. *)
From Hop Require Import Base Replay ReplayProofs Packet PacketProofs PacketSanse PacketSanseProofs
  RecvLoop RecvLoopProofs RecvLoopCorollaries.
From Coq Require Import ZifyN ZifyNat ZifyBool.
Open Scope N_scope.

(* a transport datagram built by an honest sender of session id B that fits the receive buffer is handed, whole,
   to handleSessionMessage for B *)
Lemma built_ev_for B c rest a :
  len B = 4 -> len (header mt_transport B c ++ rest) <= recv_buf_len ->
  ev_for B (LDgram a (header mt_transport B c ++ rest)) = [EvIn a (header mt_transport B c ++ rest)] /\
  classify (sock_read (header mt_transport B c ++ rest)) = DSession.
Proof.
  intros HB Hfit. set (p := header mt_transport B c ++ rest) in *.
  assert (Hlen : len p = 16 + len rest) by (unfold p; rewrite len_app, len_header; lia).
  assert (Hcl : classify p = DSession).
  { unfold classify. replace (len p <? 4) with false by lia. unfold p, header. reflexivity. }
  assert (Hpk : peek_session p = Some B).
  { unfold peek_session, header_len, session_id_len. replace (len p <? 4 + 4) with false by lia. f_equal.
    assert (E4 : drop 4 p = B ++ be_enc 8 c ++ rest) by (unfold p, header; rewrite <- !app_assoc; reflexivity).
    unfold pkt_sid, slice. rewrite E4. replace (8 - 4) with (len B) by lia. apply take_app_exact. }
  unfold ev_for. rewrite (sock_read_fits p Hfit), Hcl, Hpk, beq_bytes_refl. split; reflexivity.
Qed.

Section Faithful.
  Variable seal : bytes -> bytes -> bytes -> bytes.
  Variable open : bytes -> bytes -> bytes -> option bytes.
  Variable max : N.
  Variable H : Type.
  Variable HS : H -> list bytes -> addr -> bytes -> option (H * list hs_eff).
  Notation srv_run := (srv_run seal open max H HS).
  Notation srv_step := (srv_step seal open max H HS).

  Definition not_handshake (e : lev) : Prop :=
    match e with LDgram _ raw => classify (sock_read raw) <> DHandshake | LLocal _ _ => True end.

  Lemma run_no_crash : open_len_ok open -> forall evs st,
    l_crashed H st = false -> Forall not_handshake evs -> l_crashed H (srv_run st evs) = false.
  Proof.
    intros Ho. induction evs as [|e r IH]; intros st Hc Hf; [exact Hc|].
    inversion Hf; subst. unfold RecvLoop.srv_run. cbn [fold_left]. apply IH; [|assumption].
    destruct (l_crashed H (srv_step st e)) eqn:C; [|reflexivity].
    destruct (srv_crash_only_in_handshake_handler seal open max H HS st e Ho Hc C) as (a&raw&->&Hcl).
    simpl in H2. contradiction.
  Qed.

  Lemma run_no_finish B : forall evs st, Forall not_handshake evs -> no_finish seal open max H HS B st evs.
  Proof.
    induction evs as [|e r IH]; intros st Hf; [exact I|]. inversion Hf; subst.
    cbn [no_finish]. split; [|now apply IH].
    destruct e as [a raw|id e0]; cbn [step_quiet]; [|exact I]. simpl in H2.
    destruct (classify (sock_read raw)); try exact I. congruence.
  Qed.

  Lemma feed_ep_run : forall pkts B0 a B' os,
    feed open B0 a pkts = Ok (B', os) -> fst (ep_run seal open max B0 (map (EvIn a) pkts)) = B'.
  Proof.
    induction pkts as [|p r IH]; intros B0 a B' os; simpl; [intros E; inversion E; reflexivity|].
    destruct (session_input open B0 a p) as [[B1 o]| |] eqn:S; try discriminate.
    destruct (feed open B1 a r) as [[B2 os2]| |] eqn:F; try discriminate.
    intros E. inversion E; subst. specialize (IH _ _ _ _ F).
    destruct (ep_run seal open max B1 (map (EvIn a) r)) as [s2 o2]. exact IH.
  Qed.

  (* END TO END THROUGH THE LOOP: sender A writes a buffer of any size; the datagrams arrive, in order and unchanged,
     from address a at the socket of a server that holds A's peer session B among any others; then the loop has not
     crashed, B's queue holds exactly the buffer (appended), B's address is a *)
  Theorem srv_loop_write_delivered :
    (forall k ad p, open k ad (seal k ad p) = Some p) ->
    (forall k ad p, len (seal k ad p) = tag_len + len p) ->
    open_len_ok open ->
    forall st A B a b w,
      l_crashed H st = false -> lookup (l_tab H st) (sid A) = Some B -> in_sync A B ->
      count A + len b + 1 < lim -> qlen (queue B) + len b + 1 <= qcap B ->
      write seal max_plaintext_size A b = Some w ->
      let evs := map (fun d : dgram => LDgram a (fst d)) (w_out w) in
      w_err w = false /\ w_panic w = false /\ w_n w = len b /\
      l_crashed H (srv_run st evs) = false /\
      exists B', lookup (l_tab H (srv_run st evs)) (sid A) = Some B' /\
                 List.concat (queue B') = List.concat (queue B) ++ b /\ rbuf B' = rbuf B /\ remote B' = a.
  Proof.
    intros Hos Hsl Ho st A B a b w Hc L Sync Hcnt Hq W evs.
    assert (Hmax : 0 < max_plaintext_size) by (unfold max_plaintext_size; lia).
    destruct (write_delivered seal open Hos Hsl max_plaintext_size A B a b w Hmax Sync Hcnt Hq W)
      as (E1&E2&E3&_&B'&F&Q1&Q2&Q3).
    assert (HsA : len (sid A) = 4) by (destruct Sync as (_&_&_&_&X&_); exact X).
    pose proof (write_fits_receive_buffers seal A b w HsA W) as Hfit.
    pose proof (write_wire seal max_plaintext_size A b w W) as Himg.
    assert (Hall : Forall (fun d : dgram => ev_for (sid A) (LDgram a (fst d)) = [EvIn a (fst d)] /\
                                            classify (sock_read (fst d)) = DSession) (w_out w)).
    { rewrite Forall_forall in *. intros d Hd. destruct (Himg d Hd) as (c&i&e&Ed).
      destruct (Hfit d Hd) as (Hl&_&_). rewrite Ed in *. unfold wire_image in *.
      apply built_ev_for; [exact HsA|]. pose proof max_datagram_fits as (F1&_). eapply N.le_trans; eassumption. }
    assert (Hnh : Forall not_handshake evs).
    { unfold evs. rewrite Forall_forall. intros e He. apply in_map_iff in He. destruct He as (d&<-&Hd).
      rewrite Forall_forall in Hall. destruct (Hall d Hd) as (_&Hcl). simpl. congruence. }
    assert (Hev : evs_for (sid A) evs = map (EvIn a) (map fst (w_out w))).
    { unfold evs. clear -Hall. induction (w_out w) as [|d r IH]; [reflexivity|].
      inversion Hall; subst. destruct H1 as (E&_). unfold evs_for in *. cbn [map flat_map]. rewrite E, IH by assumption. reflexivity. }
    pose proof (run_no_crash Ho evs st Hc Hnh) as Hnc.
    repeat split; try assumption.
    exists B'. split; [|auto].
    rewrite (srv_loop_refines_session seal open max H HS evs st (sid A) B L Hnc (run_no_finish (sid A) evs st Hnh)).
    rewrite Hev. f_equal. eapply feed_ep_run; eauto.
  Qed.
End Faithful.

(* unconditional on Kravatte-SANSE (keys as NewSANSE accepts them; transport keys are 16 bytes) *)
Theorem srv_loop_write_delivered_sanse max H HS st A B a b w :
  good_key (key_send A) ->
  l_crashed H st = false -> lookup (l_tab H st) (sid A) = Some B -> in_sync A B ->
  count A + len b + 1 < lim -> qlen (queue B) + len b + 1 <= qcap B ->
  write sanse_seal max_plaintext_size A b = Some w ->
  let evs := map (fun d : dgram => LDgram a (fst d)) (w_out w) in
  w_err w = false /\ w_n w = len b /\
  l_crashed H (srv_run sanse_seal sanse_open max H HS st evs) = false /\
  exists B', lookup (l_tab H (srv_run sanse_seal sanse_open max H HS st evs)) (sid A) = Some B' /\
             List.concat (queue B') = List.concat (queue B) ++ b /\ remote B' = a.
Proof.
  intros Hk Hc L Sync Hcnt Hq W evs.
  assert (Hmax : 0 < max_plaintext_size) by (unfold max_plaintext_size; lia).
  destruct (write_delivered_sanse max_plaintext_size A B a b w Hk Hmax Sync Hcnt Hq W) as (E1&E2&E3&_&B'&F&Q1&Q2&Q3).
  assert (HsA : len (sid A) = 4) by (destruct Sync as (_&_&_&_&X&_); exact X).
  pose proof (write_fits_receive_buffers sanse_seal A b w HsA W) as Hfit.
  pose proof (write_wire sanse_seal max_plaintext_size A b w W) as Himg.
  assert (Hall : Forall (fun d : dgram => ev_for (sid A) (LDgram a (fst d)) = [EvIn a (fst d)] /\
                                          classify (sock_read (fst d)) = DSession) (w_out w)).
  { rewrite Forall_forall in *. intros d Hd. destruct (Himg d Hd) as (c&i&e&Ed).
    destruct (Hfit d Hd) as (Hl&_&_). rewrite Ed in *. unfold wire_image in *.
    apply built_ev_for; [exact HsA|]. pose proof max_datagram_fits as (F1&_). eapply N.le_trans; eassumption. }
  assert (Hnh : Forall not_handshake evs).
  { unfold evs. rewrite Forall_forall. intros e He. apply in_map_iff in He. destruct He as (d&<-&Hd).
    rewrite Forall_forall in Hall. destruct (Hall d Hd) as (_&Hcl). simpl. congruence. }
  assert (Hev : evs_for (sid A) evs = map (EvIn a) (map fst (w_out w))).
  { unfold evs. clear -Hall. induction (w_out w) as [|d r IH]; [reflexivity|].
    inversion Hall; subst. destruct H1 as (E&_). unfold evs_for in *. cbn [map flat_map]. rewrite E, IH by assumption. reflexivity. }
  pose proof (run_no_crash sanse_seal sanse_open max H HS sanse_open_len_ok evs st Hc Hnh) as Hnc.
  repeat split; try assumption.
  exists B'. split; [|auto].
  rewrite (srv_loop_refines_session sanse_seal sanse_open max H HS evs st (sid A) B L Hnc
             (run_no_finish sanse_seal sanse_open max H HS (sid A) evs st Hnh)).
  rewrite Hev. f_equal. eapply feed_ep_run; eauto.
Qed.

(* the toy AEAD of PacketExamples.v is honest about lengths *)
From Hop Require Import PacketExamples.
Lemma toy_open_len_ok : open_len_ok toy_open.
Proof.
  intros k ad ct p. unfold toy_open. destruct (N.ltb_spec (len ct) 32); [discriminate|].
  destruct (beq_bytes _ _); [|discriminate]. intros E. inversion E. rewrite len_take. lia.
Qed.
