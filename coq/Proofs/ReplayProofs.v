(* proofs for Model/Replay.v — see Properties/C14.v *)
From Hop Require Import Base Replay.
