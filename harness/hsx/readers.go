package hsx

import (
	"fmt"
	"net"
	"time"

	"golang.org/x/crypto/sha3"

	"hop.computer/hop/cyclist"
	"hop.computer/hop/keys"
	"hop.computer/hop/kravatte"
	"hop.computer/hop/transport"
	"verifharness/hv"
)

// key / configuration ids used in the Coq cases
const (
	IDCliEph  = 1
	IDCliStat = 2
	IDSrvEph  = 3
	IDCliKEM  = 5
	IDCookie  = 7
	IDPolCli  = 10 // the client's verify configuration
	IDPolSrv  = 11 // the server's ClientVerify
	IDSrvStat = 20 // + certificate index
	IDSrvKEM  = 30 // + certificate index
	K0        = 9  // arbitrary number of earlier duplex operations given to the model
)

const (
	PQName       = transport.PostQuantumProtocolName
	PQHiddenName = transport.PostQuantumHiddenProtocolName
)

// splitVectors: the two length-prefixed vectors of handshake_spec.md (leaf, intermediate).
func splitVectors(p []byte) (leaf, inter []byte, ok bool) {
	if len(p) < 2 {
		return
	}
	l := int(p[0])<<8 | int(p[1])
	if len(p) < 2+l {
		return
	}
	leaf = p[2 : 2+l]
	q := p[2+l:]
	if len(q) < 2 {
		return
	}
	m := int(q[0])<<8 | int(q[1])
	if len(q) < 2+m {
		return
	}
	inter = q[2 : 2+m]
	return leaf, inter, l+m+4 == len(p)
}

// Meta describes a generated case for the spec oracle and the evidence.
type Meta struct {
	Prop    string // property id: prefixes finding signatures
	Class   string
	Desc    string
	MustRej bool   // the specification requires the receiver to reject this input
	MustAcc bool   // the specification requires acceptance (honest, untampered)
	Why     string // why it must be rejected
	Sig     string // signature when MustRej is violated
	NT      bool
}

func (m Meta) judge(accepted, panicked bool, prefix int, haveSh bool) (spec bool, sig, what string) {
	switch {
	case panicked:
		return false, m.Prop + ":handshake-reader-panics", "the reader panicked on " + m.Desc
	case m.MustRej && accepted:
		return false, m.Sig, "accepted although " + m.Why
	case m.MustAcc && !accepted:
		return false, m.Prop + ":honest-message-rejected", "an untampered honest message was rejected: " + m.Desc
	case haveSh && prefix < 0:
		return false, m.Prop + ":duplex-schedule-differs-from-spec", "the reader's duplex operations are not a prefix of the schedule of handshake_spec.md (a field is absorbed differently) on " + m.Desc
	}
	return true, "", ""
}

// The check evaluates the cases of one checker name in shards of 150; the handshake cases
// are large, so each checker has Aliases names (identical definitions) used round-robin.
const Aliases = 8

var emitted = map[string]int{}

func alias(fn string) string {
	k := emitted[fn] % Aliases
	emitted[fn]++
	if k == 0 {
		return fn
	}
	return fmt.Sprintf("%s_%d", fn, k)
}

func emit(fn, coq string, m Meta, accepted, panicked bool, prefix int, haveSh bool) {
	spec, sig, what := m.judge(accepted, panicked, prefix, haveSh)
	hv.Emit(hv.Case{Fn: alias(fn), Coq: coq, Class: m.Class, Desc: m.Desc, Spec: spec, Sig: sig, What: what, NT: m.NT,
		Replay: map[string]interface{}{"class": m.Class, "input": m.Desc}})
}

func catch2(f func() (int, error)) (n int, err error, panicked bool) {
	defer func() {
		if r := recover(); r != nil {
			panicked = true
		}
	}()
	n, err = f()
	return
}

// ---------------------------------------------------------------- ServerAuth (client reads)

// CaseSA runs readPQServerAuth on b from duplex state pre and emits the case.
func CaseSA(hs *transport.VerifHsState, pre cyclist.Cyclist, b []byte, m Meta) (accepted bool) {
	sh := NewShadow(pre)
	e := NewEnv(b, K0, sh)
	eph := hs.VerifHsDHEphemeral()
	func() {
		if len(b) < 72 {
			return
		}
		L := int(b[2])<<8 | int(b[3])
		if len(b) < 72+L {
			return
		}
		sh.Absorb(b[:4])
		sh.Absorb(b[4:8])
		sh.Absorb(b[8:40])
		ee, err := eph.DH(b[8:40])
		e.DH(IDCliEph, b[8:40], ee, err == nil)
		if err != nil {
			return
		}
		sh.Absorb(ee)
		pt := sh.Decrypt(b[40 : 40+L])
		sh.Squeeze(16)
		leaf, inter, ok := splitVectors(pt)
		if !ok {
			return
		}
		pk, err := hs.VerifHsPolicy(leaf, inter)
		e.Policy(IDPolCli, leaf, inter, pk[:], err == nil)
		if err != nil {
			return
		}
		es, err := eph.DH(pk[:])
		e.DH(IDCliEph, pk[:], es, err == nil)
		if err != nil {
			return
		}
		sh.Absorb(es)
		sh.Squeeze(16)
	}()
	hs.VerifHsSetDuplex(pre)
	n, err, pan := catch2(func() (int, error) { return hs.VerifHsReadPQServerAuth(b) })
	prefix := sh.PrefixOf(hs.VerifHsFingerprint())
	var vals [][]byte
	if err == nil && !pan {
		sid := hs.VerifHsSessionID()
		re := hs.VerifHsRemoteEphemeral()
		vals = [][]byte{sid[:], re[:], e.lastPK}
	}
	coq := e.Case(e.Coq(), hv.Tuple(hv.Ni(IDCliEph), hv.Ni(IDPolCli)), e.Obs(Code(pan, err), n, vals, sh, prefix))
	emit("hs_sa_ok", coq, m, err == nil && !pan, pan, prefix, true)
	return err == nil && !pan
}


// ---------------------------------------------------------------- ServerResponseHidden (client reads)

func CaseSRH(hs *transport.VerifHsState, stat keys.Exchangable, pre cyclist.Cyclist, b []byte, m Meta) bool {
	sh := NewShadow(pre)
	e := NewEnv(b, K0, sh)
	func() {
		if len(b) < 808 {
			return
		}
		L := int(b[2])<<8 | int(b[3])
		if len(b) < 808+L {
			return
		}
		sh.Absorb(b[:4])
		sh.Absorb(b[4:8])
		k, err := hs.VerifHsKEMEphemeral().Decapsulate(b[8:776])
		e.Decaps(IDCliKEM, b[8:776], k, err == nil)
		if err != nil {
			return
		}
		sh.Absorb(k)
		pt := sh.Decrypt(b[776 : 776+L])
		sh.Squeeze(16)
		leaf, inter, ok := splitVectors(pt)
		if !ok {
			return
		}
		pk, err := hs.VerifHsPolicy(leaf, inter)
		e.Policy(IDPolCli, leaf, inter, pk[:], err == nil)
		if err != nil {
			return
		}
		ss, err := stat.Agree(pk[:])
		e.DH(IDCliStat, pk[:], ss, err == nil)
		if err != nil {
			return
		}
		sh.Absorb(ss)
		sh.Squeeze(16)
	}()
	hs.VerifHsSetDuplex(pre)
	n, err, pan := catch2(func() (int, error) { return hs.VerifHsReadPQServerResponseHidden(b) })
	prefix := sh.PrefixOf(hs.VerifHsFingerprint())
	var vals [][]byte
	if err == nil && !pan {
		sid := hs.VerifHsSessionID()
		vals = [][]byte{sid[:], e.lastPK}
	}
	coq := e.Case(e.Coq(), hv.Tuple(hv.Ni(IDCliKEM), hv.Ni(IDCliStat), hv.Ni(IDPolCli)), e.Obs(Code(pan, err), n, vals, sh, prefix))
	emit("hs_srh_ok", coq, m, err == nil && !pan, pan, prefix, true)
	return err == nil && !pan
}

// ---------------------------------------------------------------- ClientAuth (server reads, stored state)

// shadowCAuth: the schedule of a ClientAuth read (handshake_spec.md), on the stored state hs.
func shadowCAuth(e *Env, sh *Shadow, hs *transport.VerifHsState, b []byte) {
	if len(b) < 4 {
		return
	}
	L := int(b[2])<<8 | int(b[3])
	if len(b) < 8+L+32 {
		return
	}
	sh.Absorb(b[:4])
	sh.Absorb(b[4:8])
	pt := sh.Decrypt(b[8 : 8+L])
	sh.Squeeze(16)
	leaf, inter, ok := splitVectors(pt)
	if !ok {
		return
	}
	pk, err := hs.VerifHsPolicy(leaf, inter)
	e.Policy(IDPolSrv, leaf, inter, pk[:], err == nil)
	if err != nil {
		return
	}
	se, err := hs.VerifHsDHEphemeral().DH(pk[:])
	e.DH(IDSrvEph, pk[:], se, err == nil)
	if err != nil {
		return
	}
	sh.Absorb(se)
	sh.Squeeze(16)
}

// CaseCAuth runs readPQClientAuth on b for addr, whose stored handshake has duplex state pre.
func CaseCAuth(srv *Srv, addr *net.UDPAddr, pre cyclist.Cyclist, b []byte, m Meta) bool {
	hs := srv.S.VerifHsHandshakeFor(addr)
	if hs == nil {
		panic("CaseCAuth: no stored handshake")
	}
	hs.VerifHsSetDuplex(pre)
	sid := hs.VerifHsSessionID()
	sh := NewShadow(pre)
	e := NewEnv(b, K0, sh)
	shadowCAuth(e, sh, hs, b)
	n, err, pan := catch2(func() (int, error) { n, _, err := srv.S.VerifHsReadPQClientAuth(b, addr); return n, err })
	prefix := sh.PrefixOf(hs.VerifHsFingerprint())
	var vals [][]byte
	if err == nil && !pan {
		vals = [][]byte{e.lastPK}
	}
	coq := e.Case(e.Coq(), hv.Tuple(hv.Ni(IDSrvEph), hv.Ni(IDPolSrv)), hv.Hex(sid[:]), e.Obs(Code(pan, err), n, vals, sh, prefix))
	emit("hs_cauth_ok", coq, m, err == nil && !pan, pan, prefix, true)
	hs.VerifHsSetDuplex(pre)
	return err == nil && !pan
}

// ---------------------------------------------------------------- ClientHello (server reads, scratch state)

func kemParse(e *Env, b []byte) {
	pk, err := keys.ParseKEMPublicKeyFromBytes(b)
	if err != nil {
		e.KemParse(b, nil, false)
		return
	}
	canon, err := (*pk).MarshalBinary()
	e.KemParse(b, canon, err == nil)
}

func CaseCH(b []byte, m Meta) bool {
	hs := transport.VerifHsNewScratchHS()
	pre := hs.VerifHsDuplex()
	sh := NewShadow(pre)
	e := NewEnv(b, K0, sh)
	if len(b) >= 820 {
		sh.Absorb(b[:4])
		kemParse(e, b[4:804])
		sh.Absorb(b[4:804])
		sh.Squeeze(16)
	}
	n, err, pan := catch2(func() (int, error) { return transport.VerifHsReadPQClientHello(hs, b) })
	prefix := sh.PrefixOf(hs.VerifHsFingerprint())
	var vals [][]byte
	if err == nil && !pan {
		vals = [][]byte{e.kemCanon(b[4:804])}
	}
	coq := e.Case(e.Coq(), e.Obs(Code(pan, err), n, vals, sh, prefix))
	emit("hs_ch_ok", coq, m, err == nil && !pan, pan, prefix, true)
	return err == nil && !pan
}

// ---------------------------------------------------------------- ServerHello (client reads the whole buffer)

// CaseSHBuf: as the client does it, the reader is handed the whole receive buffer; the model is
// given its first n bytes (the reader looks at no more than the first 852).
func CaseSHBuf(hs *transport.VerifHsState, pre cyclist.Cyclist, buf []byte, n int, m Meta) bool {
	return caseSH(hs, pre, buf[:n], buf, m)
}

func CaseSH(hs *transport.VerifHsState, pre cyclist.Cyclist, b []byte, m Meta) bool {
	return caseSH(hs, pre, b, b, m)
}

func caseSH(hs *transport.VerifHsState, pre cyclist.Cyclist, b, real []byte, m Meta) bool {
	sh := NewShadow(pre)
	e := NewEnv(b, K0, sh)
	if len(b) >= 852 {
		sh.Absorb(b[:4])
		k, err := hs.VerifHsKEMEphemeral().Decapsulate(b[4:772])
		e.Decaps(IDCliKEM, b[4:772], k, err == nil)
		if err == nil {
			sh.Absorb(k)
			sh.Absorb(b[772:836])
			sh.Squeeze(16)
		}
	}
	hs.VerifHsSetDuplex(pre)
	n, err, pan := catch2(func() (int, error) { return transport.VerifHsReadPQServerHello(hs, real) })
	prefix := sh.PrefixOf(hs.VerifHsFingerprint())
	var vals [][]byte
	if err == nil && !pan {
		vals = [][]byte{hs.VerifHsCookie()}
	}
	coq := e.Case(e.Coq(), hv.Ni(IDCliKEM), e.Obs(Code(pan, err), n, vals, sh, prefix))
	emit("hs_sh_ok", coq, m, err == nil && !pan, pan, prefix, true)
	return err == nil && !pan
}

// ---------------------------------------------------------------- ClientAck (server reads, replays the cookie)

// CookieADSpec: H(ekem || ip || port) as the property states it, with SHA3-256.
func CookieADSpec(ekem []byte, a *net.UDPAddr) (pre, ad []byte) {
	pre = append(append(append([]byte(nil), ekem...), a.IP...), byte(a.Port>>8), byte(a.Port))
	h := sha3.Sum256(pre)
	return pre, h[:]
}

// openCookieSpec opens a cookie with the SANSE AEAD directly (not through the transport code).
func openCookieSpec(key [16]byte, ad, cookie []byte) ([]byte, bool) {
	a, err := kravatte.NewSANSE(key[:])
	if err != nil {
		return nil, false
	}
	out, err := a.Open(nil, nil, cookie, ad)
	return out, err == nil
}

// shadowCAck: cookie replay and ClientAck read. Returns the decrypted SNI when the schedule ran.
func shadowCAck(e *Env, sh *Shadow, ck [16]byte, addr *net.UDPAddr, b []byte) (sni []byte) {
	if len(b) < 1172 {
		return
	}
	kb := b[36:836]
	kemParse(e, kb)
	kc := e.kemCanon(kb)
	if kc == nil {
		return
	}
	cookie := b[836:900]
	_, ad := CookieADSpec(kc, addr)
	e.HashParts(ad, kc, addr.IP, []byte{byte(addr.Port >> 8), byte(addr.Port)})
	k, ok := openCookieSpec(ck, ad, cookie)
	e.Open(IDCookie, ad, cookie, k, ok)
	if !ok {
		return
	}
	sh.Reset()
	sh.Absorb([]byte(PQName))
	sh.Absorb([]byte{1, 1, 0, 0})
	sh.Absorb(kc)
	sh.Squeeze(16)
	sh.Absorb([]byte{2, 0, 0, 0})
	sh.Absorb(k)
	sh.Absorb(cookie)
	sh.Squeeze(16)
	sh.Rekey(PQName)
	sh.Absorb(b[:4])
	sh.Absorb(b[4:36])
	sh.Absorb(kc)
	sh.Absorb(cookie)
	sni = sh.Decrypt(b[900:1156])
	sh.Squeeze(16)
	return
}

func CaseCAck(srv *Srv, addr *net.UDPAddr, b []byte, m Meta) bool {
	sh := &Shadow{Fps: [][]byte{nil}} // no state before InitializeEmpty
	e := NewEnv(b, 0, sh)
	shadowCAck(e, sh, srv.S.VerifHsCookieKey(), addr, b)
	var hs *transport.VerifHsState
	n, err, pan := catch2(func() (int, error) {
		n, h, err := srv.S.VerifHsReadPQClientAck(b, addr)
		hs = h
		return n, err
	})
	prefix := -1
	haveSh := false
	var vals [][]byte
	if err == nil && !pan && hs != nil {
		haveSh = true
		prefix = sh.PrefixOf(hs.VerifHsFingerprint())
		re := hs.VerifHsRemoteEphemeral()
		vals = [][]byte{re[:], e.kemCanon(b[36:836]), hs.VerifHsSNI().Label}
	}
	var osh *Shadow
	if haveSh {
		osh = sh
	}
	coq := e.Case(e.Coq(), hv.Tuple(hv.Ni(IDCookie), hv.Ni(addr.Port)), hv.Hex(addr.IP), e.Obs(Code(pan, err), n, vals, osh, prefix))
	emit("hs_cack_ok", coq, m, err == nil && !pan, pan, prefix, haveSh)
	return err == nil && !pan
}

// ---------------------------------------------------------------- hidden request (server reads, per-certificate trials)

// shadowHReq: per-certificate trials, policy, timestamp, MAC. Returns the index of the matching
// certificate (-1: none) and the client's certified key when the policy admitted it.
func shadowHReq(e *Env, sh *Shadow, hs *transport.VerifHsState, list []HCert, listErr bool, b []byte) (matched int, pk []byte) {
	matched = -1
	if len(b) < 4 {
		return
	}
	L := int(b[2])<<8 | int(b[3])
	if len(b) < 4+768+L+16+800+8+16 || listErr {
		return
	}
	var leaf, inter []byte
	for i, c := range list {
		sh.Reset()
		sh.Absorb([]byte(PQHiddenName))
		sh.Rekey(PQHiddenName)
		sh.Absorb(b[:4])
		sh.Absorb(b[4:804])
		if c.KEM == nil {
			continue
		}
		k, err := c.KEM.Decapsulate(b[804:1572])
		e.Decaps(IDSrvKEM+i, b[804:1572], k, err == nil)
		if err != nil {
			continue
		}
		sh.Absorb(k)
		pt := sh.Decrypt(b[1572 : 1572+L])
		var ok bool
		leaf, inter, ok = splitVectors(pt)
		if !ok {
			continue // malformed certificate vectors: next certificate
		}
		tag := sh.Squeeze(16)
		if string(tag) != string(b[1572+L:1588+L]) || !c.HasName {
			continue
		}
		matched = i
		break
	}
	if matched < 0 {
		return
	}
	kemParse(e, b[4:804])
	p, err := hs.VerifHsPolicy(leaf, inter)
	e.Policy(IDPolSrv, leaf, inter, p[:], err == nil)
	if err != nil {
		return
	}
	sh.Decrypt(b[1588+L : 1596+L])
	sh.Squeeze(16)
	return matched, p[:]
}

// CaseHReq runs readPQClientRequestHidden on b. certsKEM lists, per configured certificate in
// GetCertList order, its KEM key pair (nil: none) and whether it has a host name.
type HCert struct {
	KEM     *keys.KEMKeyPair
	HasName bool
}

func CaseHReq(srv *Srv, list []HCert, listErr bool, b []byte, m Meta) bool {
	hs := transport.VerifHsNewHiddenServerHS()
	hs.VerifHsSetCertVerify(srv.S.VerifHsConfig().ClientVerify)
	sh := &Shadow{Fps: [][]byte{nil}} // the duplex of a fresh HandshakeState is not initialised
	e := NewEnv(b, K0, sh)
	var now0, now1 int64
	matched, _ := shadowHReq(e, sh, hs, list, listErr, b)
	now0 = time.Now().Unix()
	// the reader overwrites the beginning of its input (copy(b, rest)): hand it a copy
	bb := append(make([]byte, 0, len(b)), b...)
	n, err, pan := catch2(func() (int, error) { return srv.S.VerifHsReadPQClientRequestHidden(hs, bb) })
	now1 = time.Now().Unix()
	if now0 != now1 {
		return CaseHReq(srv, list, listErr, b, m) // the clock ticked during the call: redo
	}
	prefix := sh.PrefixOf(hs.VerifHsFingerprint())
	var vals [][]byte
	if err == nil && !pan {
		vals = [][]byte{e.kemCanon(b[4:804]), e.lastPK, {byte(matched)}}
	}
	cs := "None"
	if !listErr {
		xs := make([]string, len(list))
		for i, c := range list {
			kem := "None"
			if c.KEM != nil {
				kem = hv.Some(hv.Ni(IDSrvKEM + i))
			}
			xs[i] = hv.App("HC", kem, hv.B(c.HasName), hv.Ni(i))
		}
		cs = hv.Some(hv.List(xs))
	}
	coq := e.Case(e.Coq(), cs, hv.Tuple(hv.Ni(IDPolSrv), hv.N(uint64(now0))), e.Obs(Code(pan, err), n, vals, sh, prefix))
	emit("hs_hreq_ok", coq, m, err == nil && !pan, pan, prefix, true)
	return err == nil && !pan
}

