(* Correspondence entry points for C04.  Every case carries an abstract scenario (certificate
   records as parsed by the Go code, the valid-signature triples computed with real Ed25519, the
   trust store as fingerprint-id -> certificate index) and what the Go code answered. *)
From Hop Require Import Base Certs.
Open Scope N_scope.

(* K type names nb na pk parent sig fp raw rawlen *)
Definition K := mkCert.
Definition dummy_cert : cert := mkCert 0 [] 0%Z 0%Z 0 0 0 0 0 0.
Definition cn (cs : list cert) (i : N) : cert := nth (N.to_nat i) cs dummy_cert.
Definition ocn (cs : list cert) (i : option N) : option cert :=
  match i with Some j => Some (cn cs j) | None => None end.
Definition mk_store (cs : list cert) (l : list (fpid * N)) : store :=
  store_of (map (fun e => (fst e, cn cs (snd e))) l).

Definition scen := (list cert * list (key * rawid * sigid))%type.

(* ---- Store.VerifyLeaf: (scenario, (store, presented, name, cur, clock, leaf), Go's ok bit) ---- *)
Definition c04v_query := (list (fpid * N) * option N * option name * option Z * Z * N)%type.
Definition c04v_case := (scen * c04v_query * bool)%type.
Definition c04v_run (s : scen) (q : c04v_query) : vres :=
  let '(cs, sigs) := s in
  let '(st, pr, nm, cu, clock, leaf) := q in
  verify_leaf (sig_table sigs) clock (mk_store cs st) (mkOpts (ocn cs pr) nm cu) (cn cs leaf).
Definition c04v_ok (c : c04v_case) : bool :=
  let '(s, q, obs) := c in Bool.eqb (vres_ok (c04v_run s q)) obs.

(* ---- VerifyParent: (scenario, child, parent, Go's ok bit) ---- *)
Definition c04p_case := (scen * N * N * bool)%type.
Definition c04p_ok (c : c04p_case) : bool :=
  let '(s, ch, pa, obs) := c in
  let '(cs, sigs) := s in
  Bool.eqb (match verify_parent (sig_table sigs) (cn cs ch) (cn cs pa) with VPOk => true | _ => false end) obs.

(* ---- issuing functions.  kind 0 = issue, 1 = IssueLeafAt, 2 = IssueIntermediate,
        3 = selfSign with a key pair (kp = its public key), 4 = selfSign without.
        (kind, parent, has_key, (pk, names), type, t0 (selfSign: now), dur (selfSign: expiry), kp,
         sig fp raw ids of the result, observed result) ---- *)
Definition cert_obs_eqb (a b : cert) : bool :=
  (ctype a =? ctype b) && beq_list name_eqb (names a) (names b) && (nb a =? nb b)%Z && (na a =? na b)%Z &&
  (pk a =? pk b) && (parent a =? parent b) && (sg a =? sg b) && (fp a =? fp b) && (rawlen a =? rawlen b).
Definition c04i_case := (N * cert * bool * (key * list name) * N * Z * Z * key * (sigid * fpid * rawid) * option cert)%type.
Definition c04i_run (kind : N) (par : cert) (hk : bool) (id : key * list name) (ty : N) (t0 dur : Z) (kp : key)
                    (o : sigid * fpid * rawid) : option cert :=
  let idn := mkId (fst id) (snd id) in
  let '(s, f, r) := o in
  match kind with
  | 0 => issue par hk idn ty t0 dur s f r
  | 1 => issue_leaf_at par hk idn t0 dur s f r
  | 2 => issue_intermediate par hk idn t0 dur s f r
  | 3 => self_sign idn ty (Some kp) t0 dur s f r
  | _ => self_sign idn ty None t0 dur s f r
  end.
Definition c04i_ok (c : c04i_case) : bool :=
  let '(kind, par, hk, id, ty, t0, dur, kp, o, obs) := c in
  match c04i_run kind par hk id ty t0 dur kp o, obs with
  | Some a, Some b => cert_obs_eqb a b
  | None, None => true
  | _, _ => false
  end.

(* ---- authkeys.SyncAuthKeySet.VerifyLeaf: (certs, key set, requested name, leaf, ok bit) ---- *)
Definition c04k_case := (list cert * list key * option name * N * bool)%type.
Definition c04k_ok (c : c04k_case) : bool :=
  let '(cs, ks, nm, leaf, obs) := c in
  Bool.eqb (authkeys_verify ks (mkOpts None nm None) (cn cs leaf)) obs.

(* ---- certificateParserAndVerifier.
   config = None (hs.certVerify == nil) or
   (store, authkeys (None = nil set), allowed, skip, name, cur, callback (None = nil; Some ks = "accept iff
   the leaf's key is in ks")); pleaf / pim = parse results as certificate indices;
   observation: 0 = nil error, 1 = error, 2 = panic ---- *)
Definition c04a_cfg := (list (fpid * N) * option (list key) * bool * bool * option name * option Z * option (list key))%type.
Definition c04a_case := (scen * option c04a_cfg * option N * option (option N) * Z * N)%type.
Definition c04a_ok (c : c04a_case) : bool :=
  let '(s, cfg, pl, pi, clock, obs) := c in
  let '(cs, sigs) := s in
  let cfg' := match cfg with
              | None => None
              | Some (st, ak, al, sk, nm, cu, cb) =>
                Some (mkCfg (mk_store cs st) ak al sk nm cu
                            (match cb with Some ks => Some (fun c => existsb (fun k => k =? pk c) ks) | None => None end))
              end in
  let pi' := match pi with
             | None => None
             | Some None => Some None
             | Some (Some j) => Some (Some (cn cs j))
             end in
  pres_code (policy_verify (sig_table sigs) clock cfg' (ocn cs pl) pi') =? obs.

(* ---- typed case builders: the generated files write cases as applications of these, so that every
   argument is elaborated against a known type (nested untyped tuples elaborate ~50x slower) ---- *)
Definition sigs_t := list (key * rawid * sigid).
Definition V (cs : list cert) (sigs : sigs_t) (st : list (fpid * N)) (pr : option N) (nm : option name)
             (cu : option Z) (clock : Z) (leaf : N) (obs : bool) : c04v_case :=
  ((cs, sigs), (st, pr, nm, cu, clock, leaf), obs).
Definition P (cs : list cert) (sigs : sigs_t) (ch pa : N) (obs : bool) : c04p_case := ((cs, sigs), ch, pa, obs).
Definition I (kind : N) (par : cert) (hk : bool) (idpk : key) (idnames : list name) (ty : N) (t0 dur : Z) (kp : key)
             (s : sigid) (f : fpid) (r : rawid) (obs : option cert) : c04i_case :=
  (kind, par, hk, (idpk, idnames), ty, t0, dur, kp, (s, f, r), obs).
Definition AK (cs : list cert) (ks : list key) (nm : option name) (leaf : N) (obs : bool) : c04k_case :=
  (cs, ks, nm, leaf, obs).
Definition CFG (st : list (fpid * N)) (ak : option (list key)) (al sk : bool) (nm : option name) (cu : option Z)
               (cb : option (list key)) : c04a_cfg := (st, ak, al, sk, nm, cu, cb).
Definition A (cs : list cert) (sigs : sigs_t) (cfg : option c04a_cfg) (pl : option N) (pi : option (option N))
             (clock : Z) (obs : N) : c04a_case := ((cs, sigs), cfg, pl, pi, clock, obs).
