package hvxauthz

import (
	"bytes"
	"fmt"
	"io"
	"os"
	"io/fs"
	"math/big"
	"strings"
	"testing/fstest"
	"time"

	"github.com/AstromechZA/etcpwdparse"
	"github.com/sirupsen/logrus"

	"hop.computer/hop/authgrants"
	"hop.computer/hop/authkeys"
	"hop.computer/hop/certs"
	"hop.computer/hop/common"
	"hop.computer/hop/config"
	"hop.computer/hop/hopserver"
	"hop.computer/hop/keys"
	"hop.computer/hop/pkg/thunks"
	"hop.computer/hop/tubes"
	"hop.computer/hop/userauth"
	"verifharness/hv"
)

// ---------------------------------------------------------------- operations and observations

type Intent struct {
	Type       byte
	Start, Exp int64
	User       string
	Key        int // index into the key universe
	Cmd        string
}

const (
	FNoUser = iota
	FMissing
	FDir
	FFile
)

type Op struct {
	Kind    string // SF EN AG AK AR LG EX PF IT TB
	User    string
	FKind   int
	Content []byte
	B       bool
	Intent  *Intent // AG with nil Intent = AddAuthGrant(nil)
	Key     int
	Sid     int
	Cmd     string
	Shell   bool
	T       int64
	CertOK  bool
	Wall    int64
	Ty      byte
	Rel     bool
}

type GView struct {
	Type       byte
	Start, Exp int64
	Cmd        string
	Prin       uint32
}

type View struct {
	Kind      string // N B G L E S H
	B         bool
	Some      bool
	Grants    []GView
	OK, Using bool
	Entry     bool
	KeyIn     bool
	Prin      uint32
	H         int
	// not part of the compared projection; used by the specification oracles only
	GrantKeys [][32]byte
	ClientOK  bool
}

// GViewOf projects a stored grant.
func GViewOf(a authgrants.Authgrant) GView { return gviewOf(a) }

func gviewOf(a authgrants.Authgrant) GView {
	return GView{Type: byte(a.GrantType), Start: a.StartTime.Unix(), Exp: a.ExpTime.Unix(),
		Cmd: a.AssociatedData.CommandGrantData.Cmd, Prin: uint32(a.PrincipalID)}
}
func gviewsOf(as []authgrants.Authgrant) []GView {
	out := make([]GView, len(as))
	for i, a := range as {
		out[i] = gviewOf(a)
	}
	return out
}

// ---------------------------------------------------------------- Coq printing

func KeyN(k [32]byte) string { return new(big.Int).SetBytes(k[:]).String() }

func (g GView) Coq(e *Enc) string {
	return hv.Tuple(hv.Ni(int(g.Type)), hv.Z(g.Start), hv.Z(g.Exp), e.Str(g.Cmd), hv.N(uint64(g.Prin)))
}
func gviewsCoq(e *Enc, gs []GView) string {
	xs := make([]string, len(gs))
	for i, g := range gs {
		xs[i] = g.Coq(e)
	}
	return hv.List(xs)
}
func (i *Intent) Coq(e *Enc) string {
	return hv.App("I", hv.Ni(int(i.Type)), "("+hv.Z(i.Start)+")", "("+hv.Z(i.Exp)+")", e.Str(i.User), e.Key(i.Key), e.Str(i.Cmd))
}
func (o *Op) Coq(e *Enc) string {
	switch o.Kind {
	case "SF":
		f := []string{"FN", "FM", "FD"}
		if o.FKind == FFile {
			return hv.App("SF", e.Str(o.User), hv.App("FF", e.Bytes(o.Content)))
		}
		return hv.App("SF", e.Str(o.User), f[o.FKind])
	case "EN":
		return hv.App("EN", hv.B(o.B))
	case "AG":
		if o.Intent == nil {
			return "(AG None)"
		}
		return hv.App("AG", hv.Some(o.Intent.Coq(e)))
	case "AK":
		return hv.App("AK", e.Str(o.User), e.Key(o.Key))
	case "AR":
		return hv.App("AR", e.Str(o.User), e.Key(o.Key))
	case "LG":
		return hv.App("LG", e.Str(o.User), e.Key(o.Key))
	case "EX":
		return hv.App("EX", hv.Ni(o.Sid), e.Str(o.Cmd), hv.B(o.Shell), "("+hv.Z(o.T)+")")
	case "PF":
		return hv.App("PF", hv.Ni(o.Sid), "("+hv.Z(o.T)+")")
	case "IT":
		return hv.App("IT", hv.Ni(o.Sid), o.Intent.Coq(e), hv.B(o.CertOK), "("+hv.Z(o.Wall)+")")
	case "TB":
		return hv.App("TB", hv.Ni(o.Sid), hv.Ni(int(o.Ty)), hv.B(o.Rel))
	}
	panic(o.Kind)
}
func (v View) Coq(e *Enc) string {
	switch v.Kind {
	case "N":
		return "VN"
	case "B":
		return hv.App("VB", hv.B(v.B))
	case "G":
		if !v.Some {
			return "(VG None)"
		}
		return hv.App("VG", hv.Some(gviewsCoq(e, v.Grants)))
	case "L":
		return hv.App("VL", hv.B(v.OK), hv.B(v.Using), gviewsCoq(e, v.Grants), hv.B(v.Entry), hv.B(v.KeyIn))
	case "E":
		return hv.App("VE", hv.B(v.B), hv.N(uint64(v.Prin)), gviewsCoq(e, v.Grants))
	case "S":
		return hv.App("VS", hv.B(v.B))
	case "H":
		return hv.App("VH", hv.Ni(v.H))
	}
	panic(v.Kind)
}

func q(s string) string { return fmt.Sprintf("%q", s) }
func (o *Op) Desc() string {
	switch o.Kind {
	case "SF":
		switch o.FKind {
		case FNoUser:
			return "NoUser(" + o.User + ")"
		case FMissing:
			return "NoFile(" + o.User + ")"
		case FDir:
			return "DirAtFile(" + o.User + ")"
		}
		c := string(o.Content)
		if len(c) > 300 {
			c = fmt.Sprintf("%s…(%d bytes)", c[:120], len(c))
		}
		return "SetFile(" + o.User + "," + q(c) + ")"
	case "EN":
		return fmt.Sprintf("EnableAuthgrants=%v", o.B)
	case "AG":
		if o.Intent == nil {
			return "AddAuthGrant(nil)"
		}
		return "AddAuthGrant" + o.Intent.desc()
	case "AK":
		return fmt.Sprintf("AuthorizeKey(%s,K%d)", o.User, o.Key)
	case "AR":
		return fmt.Sprintf("AuthorizeKeyAuthGrant(%s,K%d)", o.User, o.Key)
	case "LG":
		return fmt.Sprintf("Login(%s,K%d)", o.User, o.Key)
	case "EX":
		return fmt.Sprintf("Exec(s%d,%q,shell=%v)@%d", o.Sid, o.Cmd, o.Shell, o.T)
	case "PF":
		return fmt.Sprintf("PortForward(s%d)@%d", o.Sid, o.T)
	case "IT":
		return fmt.Sprintf("IntentComm(s%d,%s,certok=%v)", o.Sid, o.Intent.desc(), o.CertOK)
	case "TB":
		return fmt.Sprintf("Tube(s%d,type=%d,reliable=%v)", o.Sid, o.Ty, o.Rel)
	}
	return o.Kind
}
func (i *Intent) desc() string {
	return fmt.Sprintf("{type=%d %s:K%d cmd=%q [%d,%d)}", i.Type, i.User, i.Key, i.Cmd, i.Start, i.Exp)
}

// ---------------------------------------------------------------- the world: a real HopServer

type Session struct {
	VS    *hopserver.VerifSession
	User  string
	Key   int
	Using bool
	// dispatch level only
	Client *tubes.Muxer
	conns  []io.Closer
}

type World struct {
	Pool     [][32]byte
	Cfg      *config.ServerConfig
	Srv      *hopserver.HopServer
	KS       *authkeys.SyncAuthKeySet
	FS       fstest.MapFS
	Known    map[string]bool
	Sessions []*Session
	Now      int64

	sm, cm *tubes.Muxer
	ca, cb *MemConn
	nTubes int
}

var cur *World

func init() {
	logrus.SetOutput(io.Discard)
	logrus.SetLevel(logrus.PanicLevel)
	thunks.LookupUser = func(name string) (*etcpwdparse.EtcPasswdEntry, error) {
		if cur == nil || !cur.Known[name] || strings.ContainsAny(name, ":\n") {
			return nil, thunks.ErrUserNotFound
		}
		if homeBase != "/home" {
			os.MkdirAll(homeBase+"/"+name, 0755) // a granted pty shell is started in the home directory
		}
		ent, err := etcpwdparse.ParsePasswdLine(fmt.Sprintf("%s:x:1000:1000:u:%s/%s:/bin/true", name, homeBase, name))
		return &ent, err
	}
	thunks.TimeNow = func() time.Time {
		if cur == nil {
			return time.Unix(0, 0)
		}
		return time.Unix(cur.Now, 0)
	}
}

func NewWorld(pool [][32]byte) *World {
	w := &World{Pool: pool, Cfg: &config.ServerConfig{}, KS: authkeys.NewSyncAuthKeySet(), FS: fstest.MapFS{}, Known: map[string]bool{}}
	// EnableAuthgrants must be on while constructing so that the server keeps our key set
	w.Cfg.EnableAuthgrants = true
	srv, err := hopserver.NewHopServerExt(nil, w.Cfg, w.KS)
	if err != nil {
		panic(err)
	}
	w.Cfg.EnableAuthgrants = false
	w.Srv = srv
	srv.SetFSystem(w.FS)
	cur = w
	return w
}

func (w *World) Close() {
	if w.ca != nil {
		w.ca.Close()
		w.cb.Close()
	}
	for _, s := range w.Sessions {
		for _, c := range s.conns {
			c.Close()
		}
	}
}

// homeBase is where the passwd thunk puts home directories ("/home" unless the dispatch level
// needs them to exist on disk).
var homeBase = "/home"

func akPath(user string) string { return homeBase[1:] + "/" + user + "/.hop/authorized_keys" }

func (w *World) key(i int) keys.DHPublicKey { return keys.DHPublicKey(w.Pool[i]) }

func (w *World) leaf(i int) *certs.Certificate {
	return &certs.Certificate{Version: 1, Type: certs.Leaf, PublicKey: w.key(i)}
}

func (w *World) GoIntent(i *Intent) *authgrants.Intent {
	return &authgrants.Intent{
		GrantType:      authgrants.GrantType(i.Type),
		StartTime:      time.Unix(i.Start, 0),
		ExpTime:        time.Unix(i.Exp, 0),
		TargetUsername: i.User,
		DelegateCert:   *w.leaf(i.Key),
		AssociatedData: authgrants.GrantData{CommandGrantData: authgrants.CommandGrantData{Cmd: i.Cmd}},
	}
}

func (w *World) probe(user string, k int) (entry bool, inset bool) {
	_, entry = w.Srv.VerifAgMap().VerifGrants(user, w.key(k))
	return entry, w.KS.VerifHas(w.key(k))
}

// Apply runs one operation on the real code (direct level: user authorization through the real
// checkAuthorization over an in-memory muxer, exec requests through the real checkCmd of the very
// session object that authorization produced).
func (w *World) Apply(o *Op) View {
	switch o.Kind {
	case "SF":
		p := akPath(o.User)
		delete(w.FS, p)
		w.Known[o.User] = o.FKind != FNoUser
		switch o.FKind {
		case FDir:
			w.FS[p] = &fstest.MapFile{Mode: fs.ModeDir | 0755}
		case FFile:
			w.FS[p] = &fstest.MapFile{Data: o.Content, Mode: 0600}
		}
		return View{Kind: "N"}
	case "EN":
		w.Cfg.EnableAuthgrants = o.B
		return View{Kind: "N"}
	case "AG":
		var err error
		if o.Intent == nil {
			err = w.Srv.AddAuthGrant(nil)
		} else {
			err = w.Srv.AddAuthGrant(w.GoIntent(o.Intent))
		}
		return View{Kind: "B", B: err == nil}
	case "AK":
		return View{Kind: "B", B: w.Srv.AuthorizeKey(o.User, w.key(o.Key)) == nil}
	case "AR":
		ags, err := w.Srv.AuthorizeKeyAuthGrant(o.User, w.key(o.Key))
		v := View{Kind: "G", Some: err == nil}
		if err == nil {
			v.Grants = gviewsOf(ags)
			for _, a := range ags {
				v.GrantKeys = append(v.GrantKeys, a.DelegateCert.PublicKey)
			}
		}
		return v
	case "LG":
		return w.login(o)
	case "EX":
		s := w.Sessions[o.Sid]
		w.Now = o.T
		prin, err := s.VS.CheckCmd(o.Cmd, o.Shell)
		_, _, rest := s.VS.State()
		v := View{Kind: "E", B: err == nil, Grants: gviewsOf(rest)}
		if err == nil {
			v.Prin = prin
		}
		return v
	}
	panic("Apply: " + o.Kind)
}

func (w *World) login(o *Op) View {
	if w.sm == nil || w.nTubes >= 100 {
		if w.ca != nil {
			w.ca.Close()
			w.cb.Close()
		}
		w.ca, w.cb = MemPipe()
		w.sm = tubes.Server(w.ca, &tubes.Config{Log: logrus.WithField("muxer", "server")})
		w.cm = tubes.Client(w.cb, &tubes.Config{Log: logrus.WithField("muxer", "client")})
		w.nTubes = 0
	}
	w.nTubes++
	vs := w.Srv.VerifNewSessionOn(w.sm, w.leaf(o.Key))
	res := make(chan bool, 1)
	go func() { res <- vs.CheckAuthorization() }()
	t, err := w.cm.CreateReliableTube(common.UserAuthTube)
	if err != nil {
		panic(err)
	}
	clientOK := userauth.RequestAuthorization(t, o.User)
	ok := <-res
	t.Close()
	user, using, acts := vs.State()
	v := View{Kind: "L", OK: ok, ClientOK: clientOK}
	if ok {
		v.Using = using
		v.Grants = gviewsOf(acts)
		for _, a := range acts {
			v.GrantKeys = append(v.GrantKeys, a.DelegateCert.PublicKey)
		}
		if user != o.User {
			v.ClientOK = !ok // force a disagreement: the session must carry the requested user
		}
		w.Sessions = append(w.Sessions, &Session{VS: vs, User: o.User, Key: o.Key, Using: using})
	}
	v.Entry, v.KeyIn = w.probe(o.User, o.Key)
	return v
}

// ParseTable: what keys.ParseDHPublicKey (the model's oracle) answers on every trimmed non-blank
// line occurring in the files of the history.
func ParseTable(e *Enc, ops []*Op) string {
	seen := map[string]bool{}
	var rows []string
	for _, o := range ops {
		if o.Kind != "SF" || o.FKind != FFile {
			continue
		}
		for _, l := range bytes.Split(o.Content, []byte("\n")) {
			if len(l) >= 65536 {
				continue // the scanner never hands such a line to the parser
			}
			t := strings.TrimSpace(string(l))
			if t == "" || seen[t] {
				continue
			}
			seen[t] = true
			k, err := keys.ParseDHPublicKey(t)
			if err != nil {
				rows = append(rows, hv.Tuple(e.Bytes([]byte(t)), "None"))
			} else {
				rows = append(rows, hv.Tuple(e.Bytes([]byte(t)), hv.Some(e.KeyVal(*k))))
			}
		}
	}
	return hv.List(rows)
}

// Probes prints the final probe of the grant map / key set for the user:key pairs the history
// touched (logins, grants, direct calls).
func (w *World) Probes(e *Enc, ops []*Op) string {
	var rows []string
	seen := map[string]bool{}
	add := func(u string, k int) {
		id := fmt.Sprintf("%s/%d", u, k)
		if seen[id] {
			return
		}
		seen[id] = true
		gs, _ := w.Srv.VerifAgMap().VerifGrants(u, w.key(k))
		rows = append(rows, hv.Tuple(e.Str(u), e.Key(k), gviewsCoq(e, gviewsOf(gs)), hv.B(w.KS.VerifHas(w.key(k)))))
	}
	for _, o := range ops {
		switch o.Kind {
		case "AG", "IT":
			if o.Intent != nil {
				add(o.Intent.User, o.Intent.Key)
			}
		case "LG", "AR":
			add(o.User, o.Key)
		}
	}
	return hv.List(rows)
}
