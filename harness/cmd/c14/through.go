package main

// Class "through-readPacket": counter histories pushed through the REAL receive path
// (transport.SessionState.readPacketLocked: Check -> AEAD open -> Mark) with genuinely sealed
// packets and forged copies.  Property C14 is about the receive-side filter as the transport uses
// it: an authentic packet is accepted iff its counter is fresh by the set-based definition, and a
// packet that does not authenticate neither passes nor moves the filter.

import (
	"fmt"
	"net"
	"strings"
	"time"

	"hop.computer/hop/transport"
	"verifharness/hv"
)

type capConn struct{ out [][]byte }

func (w *capConn) WriteMsgUDP(b, _ []byte, _ *net.UDPAddr) (int, int, error) {
	w.out = append(w.out, append([]byte(nil), b...))
	return len(b), 0, nil
}
func (w *capConn) ReadMsgUDP(_, _ []byte) (int, int, int, *net.UDPAddr, error) {
	return 0, 0, 0, nil, net.ErrClosed
}
func (w *capConn) Read(b []byte) (int, error) { return 0, net.ErrClosed }
func (w *capConn) Write(b []byte) (int, error) {
	n, _, err := w.WriteMsgUDP(b, nil, nil)
	return n, err
}
func (w *capConn) Close() error                     { return nil }
func (w *capConn) LocalAddr() net.Addr              { return &net.UDPAddr{IP: net.IPv4(127, 0, 0, 1), Port: 1} }
func (w *capConn) RemoteAddr() net.Addr             { return &net.UDPAddr{IP: net.IPv4(127, 0, 0, 1), Port: 2} }
func (w *capConn) SetDeadline(time.Time) error      { return nil }
func (w *capConn) SetReadDeadline(time.Time) error  { return nil }
func (w *capConn) SetWriteDeadline(time.Time) error { return nil }

type hstep struct {
	c      uint64
	forged bool
}

func runThrough(class string, r *hv.Rand, steps []hstep) {
	var key [transport.KeyLen]byte
	copy(key[:], r.Bytes(transport.KeyLen))
	sid := transport.SessionID{1, 2, 3, 4}
	remote := &net.UDPAddr{IP: net.IPv4(127, 0, 0, 1), Port: 9}
	sc := &capConn{}
	sender := transport.VerifNewSession(sc, transport.VerifSessionConfig{SessionID: sid, WriteKey: key, Remote: remote, BufLen: 4})
	rk := key
	recv := transport.VerifNewSession(&capConn{}, transport.VerifSessionConfig{SessionID: sid, ReadKey: &rk, Remote: remote, BufLen: 4})

	o := &oracle{seen: map[uint64]bool{}}
	var coq, desc []string
	var obs []bool
	specOK, what := true, ""
	blocks := map[uint64]bool{}
	for i, st := range steps {
		sender.VerifSetCount(st.c)
		sc.out = nil
		payload := []byte{byte(i), byte(st.c)}
		if err := sender.VerifSend(0x10, payload); err != nil || len(sc.out) != 1 {
			return // could not build the packet: nothing to judge
		}
		pkt := sc.out[0]
		if st.forged {
			pkt[len(pkt)-1-r.Intn(8)] ^= byte(1 << uint(r.Intn(8))) // corrupt the tag / body
		}
		var accepted bool
		if p, _ := hv.Catch(func() {
			_, _, _, err := recv.VerifReadPacket(len(pkt), pkt)
			accepted = err == nil
		}); p {
			accepted = false
		}
		want := !st.forged && o.fresh(st.c)
		if accepted != want && specOK {
			specOK = false
			what = fmt.Sprintf("step %d: %s packet with counter %d was %s, but by the set-based definition it must be %s (a packet that does not authenticate must neither pass nor move the filter)",
				i, map[bool]string{true: "forged", false: "authentic"}[st.forged], st.c,
				map[bool]string{true: "accepted", false: "rejected"}[accepted], map[bool]string{true: "accepted", false: "rejected"}[want])
		}
		if want {
			o.mark(st.c)
		}
		obs = append(obs, accepted)
		coq = append(coq, hv.Tuple(hv.N(st.c), hv.B(!st.forged)))
		desc = append(desc, map[bool]string{true: "F", false: "A"}[st.forged]+hv.N(st.c))
		blocks[st.c>>6] = true
	}
	d := strings.Join(desc, " ")
	hv.Emit(hv.Case{Fn: "c14t_ok", Coq: hv.Tuple(hv.List(coq), hv.Bools(obs)), Class: class, Desc: d,
		Spec: specOK, Sig: "C14:receive-path-filter-differs-from-set-definition", What: what,
		NT: len(blocks) >= 2, Replay: map[string]interface{}{"steps(A=authentic,F=forged)": d}})
}

func throughClass(r *hv.Rand) {
	n := hv.Scale(150, 1500)
	for k := 0; k < n; k++ {
		var steps []hstep
		top := hv.Pick(r, []uint64{0, 3, 64, 447, 448, 1000, 1 << 32})
		L := 6 + r.Intn(hv.Scale(30, 60))
		for i := 0; i < L; i++ {
			var c uint64
			switch r.Intn(6) {
			case 0:
				c = top + 1
			case 1:
				c = top + hv.Pick(r, []uint64{2, 63, 64, 65, 447, 448, 449, 512, 600, 1 << 20, 1 << 40})
			case 2:
				d := hv.Pick(r, []uint64{0, 1, 2, 63, 64, 447, 448, 449, 500})
				if top >= d {
					c = top - d
				}
			default:
				lo := uint64(0)
				if top > 460 {
					lo = top - 460
				}
				c = lo + uint64(r.Intn(520))
			}
			if c >= 1<<62 {
				c = 1 << 61
			}
			forged := r.Chance(30)
			steps = append(steps, hstep{c, forged})
			if !forged && c > top {
				top = c
			}
			if forged && r.Chance(50) { // the genuine packet with the same counter right after its forgery
				steps = append(steps, hstep{c, false})
				if c > top {
					top = c
				}
			}
		}
		runThrough("through-readPacket", r, steps)
	}
}
