(* C17 — transport connections and deadline queues under concurrent use.
   Part 1: the deadline-aware queue (common/sync.go), model Model/DChan.v.
   Part 2: Client / Server lifecycle machines (transport/client.go, server.go), model Model/Lifecycle.v.
   All theorems quantify over every schedule (list of actors), any number of threads and any
   per-thread programs.  cfg `fixed` = code after the three fix: commits, `prev` = after the first two
   (Close still takes d.m first), `cand` = the new Close without the barrier in Recv (a refuted
   candidate repair), `orig` = code as found. *)
From Hop Require Import Base DChan DChanProofs.
Local Open Scope nat_scope.

(* ------------------------------------------------------------------ FIFO, at most once *)
(* sent = taken ++ queue: every item put on the queue is taken at most once and in the order it was
   put; what one receiver got is (in its own order) a subsequence of the sent sequence. *)
Theorem c17_fifo_at_most_once : forall c size progs x,
  wf_progs progs = true -> reachable c size progs x ->
  sent (shd x) = map snd (taken (shd x)) ++ buf (shd x) /\
  length (buf (shd x)) <= cap (shd x) /\
  forall i t, nth_error (ths x) i = Some t ->
    items (rets t) = taken_by i (taken (shd x)) /\ subseq (items (rets t)) (sent (shd x)).
Proof. exact fifo_at_most_once. Qed.
Print Assumptions c17_fifo_at_most_once.

(* ------------------------------------------------------------------ data before EOF *)
(* code as found: Recv reports io.EOF while an item sent before Close is still queued *)
Definition T (i : nat) := Th i false.
Theorem c17_recv_eof_before_data_refuted :
  exists l x, run orig (init 4 [[ORecv]; [OSend 7; OClose]]) l = Some x /\
    (exists t, nth_error (ths x) 0 = Some t /\ In (KRecv, RErr eEOF) (rets t)) /\
    buf (shd x) = [7%N] /\
    (exists t, nth_error (ths x) 1 = Some t /\ rets t = [(KSend, RErr eNil); (KClose, RErr eNil)]).
Proof.
  exists [T 0; T 1; T 1; T 1; T 1; T 1; T 1; T 1; T 1; T 1; T 0].
  eexists. split; [vm_compute; reflexivity|]. simpl. repeat split; eauto. eexists; split; [reflexivity|]. simpl; auto.
Qed.
Print Assumptions c17_recv_eof_before_data_refuted.

(* fixed code (eof_safe: the re-poll, and with the new Close also the barrier in Recv; `fixed` and
   `prev` both qualify): once any Recv has returned io.EOF the queue is closed and empty in every
   later state, and everything ever sent has been delivered *)
Theorem c17_data_before_eof : forall c size progs x,
  wf_progs progs = true -> reachable c size progs x ->
  forall i t, nth_error (ths x) i = Some t ->
    (eof_safe c = true -> In (KRecv, RErr eEOF) (rets t) ->
       closed (shd x) = true /\ buf (shd x) = [] /\ sent (shd x) = map snd (taken (shd x))) /\
    (* and a Recv never reports success without an item *)
    (forall e, In (KRecv, RErr e) (rets t) -> e <> 0%N).
Proof.
  intros c size progs x Hw Hr i t Hn. split.
  - intros Hc. exact (data_before_eof c size progs x Hc Hw Hr i t Hn).
  - intros e. exact (recv_error_not_nil c size progs x Hw Hr i t e Hn).
Qed.
Print Assumptions c17_data_before_eof.

(* the regression schedule on the fixed model: the same interleaving now delivers the item *)
Example c17_data_before_eof_regression :
  exists x, run fixed (init 4 [[ORecv]; [OSend 7; OClose]])
      [T 0; T 1; T 1; T 1; T 1; T 1; T 1; T 1; T 1; T 0; T 0; T 0] = Some x /\
    map rets (ths x) = [[(KRecv, RItem 7)]; [(KSend, RErr eNil); (KClose, RErr eNil)]] /\
    eof_safe fixed = true /\ eof_safe prev = true /\ eof_safe cand = false.
Proof. eexists. split; [vm_compute; reflexivity|]. vm_compute. auto. Qed.

(* the candidate repair "Close publishes and cancels first, then waits for d.m" ALONE is wrong: a
   Send in flight (past its `closed` check, parked before its select) enqueues after a Recv has
   seen `closed`, found the queue empty and reported io.EOF; the next Recv returns data after
   end-of-stream.  (With the barrier the same schedule parks the Recv behind the Send: see
   c17_close_releases_blocked_send_instance2.) *)
Theorem c17_close_candidate_without_barrier_refuted :
  exists l x, run cand (init 1 [[OSend 7]; [OClose]; [ORecv; ORecv]]) l = Some x /\
    (exists t, nth_error (ths x) 2 = Some t /\ rets t = [(KRecv, RErr eEOF); (KRecv, RItem 7)]) /\
    (exists t, nth_error (ths x) 0 = Some t /\ rets t = [(KSend, RErr eNil)]).
Proof.
  exists [T 0; T 0; T 0; T 0; T 1; T 2; T 2; T 2; T 0; T 2].
  eexists. split; [vm_compute; reflexivity|]. simpl. split; eexists; split; reflexivity.
Qed.
Print Assumptions c17_close_candidate_without_barrier_refuted.

(* ------------------------------------------------------------------ close *)
(* exactly one Close call reports nil (and only when the queue really is closed), every other EOF *)
Theorem c17_queue_close_once : forall c size progs x,
  wf_progs progs = true -> reachable c size progs x ->
  sumf nclose (ths x) <= 1 /\
  (1 <= sumf nclose (ths x) -> closed (shd x) = true) /\
  forall i t r, nth_error (ths x) i = Some t -> In (KClose, r) (rets t) -> r = RErr eNil \/ r = RErr eEOF.
Proof. exact close_once. Qed.
Print Assumptions c17_queue_close_once.

(* code as found: a SetDeadline racing with Close un-expires the deadline channel; a Recv that
   fetches the channel afterwards blocks for ever although the queue is closed and nothing else
   can run (terminal state, closed, a thread unfinished) *)
Theorem c17_lost_wakeup_after_close_refuted :
  exists l x, run orig (init 4 [[ORecv]; [OSetDl DZero]; [OClose]]) l = Some x /\
    closed (shd x) = true /\ terminal orig x = true /\ all_finished x = false /\
    map tpc (ths x) = [R_select 1; Idle; Idle].
Proof.
  exists [T 0; T 0; T 1; T 2; T 2; T 2; T 2; T 1; T 0; T 0].
  eexists. split; [vm_compute; reflexivity|]. vm_compute. auto.
Qed.
Print Assumptions c17_lost_wakeup_after_close_refuted.

(* fixed code: after `closed` is set no wake-up is lost — every unfinished thread can step, or the
   mutex holder can, or a thread that is never blocked (a Close/SetDeadline about to cancel) can *)
Theorem c17_no_stuck_after_close : forall c size progs x,
  fix_recheck c = true -> wf_progs progs = true -> reachable c size progs x ->
  closed (shd x) = true ->
  forall i t, nth_error (ths x) i = Some t -> unfinished t = true ->
    enabled c x (Th i false) = true \/
    exists j tj, j <> i /\ nth_error (ths x) j = Some tj /\
                 (lock_pc (tpc tj) || helper_pc (tpc tj) = true)%bool /\
                 enabled c x (Th j false) = true.
Proof. exact no_stuck_after_close. Qed.
Print Assumptions c17_no_stuck_after_close.

(* every transition (of any thread, of the timer) decreases the measure, so every schedule from x
   has at most [measure x] steps, and a thread's own steps decrease its own measure: each call
   finishes within a bounded number of its own steps *)
Theorem c17_steps_bounded :
  (forall c x l x', run c x l = Some x' -> length l + measure x' <= measure x) /\
  (forall c i ch s t s' t', tstep c i ch s t = Some (s', t') -> tmeasure t' < tmeasure t + (tw s - tw s')).
Proof. split; [exact run_bounded|exact own_step_decreases]. Qed.
Print Assumptions c17_steps_bounded.

(* hence (with the two above): after Close, whenever nothing can move any more, every call has
   returned.  Together with c17_steps_bounded: every maximal schedule from a closed state is
   finite and ends with all calls returned (termination under weak fairness). *)
Theorem c17_close_releases_everyone : forall c size progs x,
  fix_recheck c = true -> wf_progs progs = true -> reachable c size progs x ->
  closed (shd x) = true -> terminal c x = true -> all_finished x = true.
Proof. exact close_terminates. Qed.
Print Assumptions c17_close_releases_everyone.

(* non-vacuity: a reachable closed state of the fixed model with a Recv parked in the blocking
   select that is released (same race as the refutation above, now with the re-check) *)
Example c17_no_stuck_instance :
  exists x, run fixed (init 4 [[ORecv]; [OSetDl DZero]; [OClose]])
      [T 0; T 0; T 1; T 2; T 2; T 2; T 1; T 0; T 0] = Some x /\
    closed (shd x) = true /\ map tpc (ths x) = [R_select 1; D_recheck; Idle] /\
    enabled fixed x (T 0) = false /\ enabled fixed x (T 1) = true /\ wf_progs [[ORecv]; [OSetDl DZero]; [OClose]] = true.
Proof. eexists. split; [vm_compute; reflexivity|]. vm_compute. auto 10. Qed.

(* code before the third fix (`prev`; finding C17:close-behind-blocked-send, now fixed): Send keeps
   the queue mutex while blocked on a full queue, Close needed that mutex before it could set
   `closed`, so Close did not release such a Send — both calls hung until a receiver or a deadline
   intervened. *)
Theorem c17_close_releases_blocked_send_original_refuted :
  exists l x, run prev (init 1 [[OSend 1; OSend 2]; [OClose]]) l = Some x /\
    terminal prev x = true /\ all_finished x = false /\ closed (shd x) = false /\
    map tpc (ths x) = [S_select 2 0; Idle] /\ map prog (ths x) = [[]; [OClose]].
Proof.
  exists [T 0; T 0; T 0; T 0; T 0; T 0; T 0; T 0; T 0].
  eexists. split; [vm_compute; reflexivity|]. vm_compute. auto 10.
Qed.
Print Assumptions c17_close_releases_blocked_send_original_refuted.

(* fixed code, every schedule: a Close call is never blocked before it has published `closed` and
   cancelled the deadline channel (it takes d.m only afterwards); once `closed` is published every
   Send parked in its blocking select — it holds d.m, the queue may be full — can step, or a
   never-blocked thread is about to cancel its channel; what it then reports is a non-nil error.
   With c17_no_stuck_after_close / c17_close_releases_everyone (closed + nothing can move => every
   call has returned, Close's own wait for d.m included) and c17_steps_bounded this is "every call
   returns, blocked calls are released by close". *)
Theorem c17_close_releases_blocked_send : forall c size progs x,
  fix_close c = true -> fix_recheck c = true -> wf_progs progs = true -> reachable c size progs x ->
  (forall i t, nth_error (ths x) i = Some t ->
     (tpc t = Idle /\ exists r, prog t = OClose :: r) \/ tpc t = C2_cancel ->
     enabled c x (Th i false) = true) /\
  (closed (shd x) = true -> forall i t v g, nth_error (ths x) i = Some t -> tpc t = S_select v g ->
     enabled c x (Th i false) = true \/
     exists k tk, nth_error (ths x) k = Some tk /\ helper_pc (tpc tk) = true /\ enabled c x (Th k false) = true) /\
  (forall i t, nth_error (ths x) i = Some t -> tpc t = S_err -> derr (shd x) <> 0%N).
Proof. exact close_releases_blocked_send. Qed.
Print Assumptions c17_close_releases_blocked_send.

(* non-vacuity: the witness schedule of the refutation on the fixed code — the second Send is
   parked on the full queue holding d.m, Close can step; after Close's two first actions the Send
   is released with io.EOF, Close returns nil, the first item is still queued *)
Example c17_close_releases_blocked_send_instance :
  exists x1 x2,
    run fixed (init 1 [[OSend 1; OSend 2]; [OClose]]) [T 0; T 0; T 0; T 0; T 0; T 0; T 0; T 0; T 0] = Some x1 /\
    map tpc (ths x1) = [S_select 2 0; Idle] /\ enabled fixed x1 (T 0) = false /\ enabled fixed x1 (T 1) = true /\
    run fixed x1 [T 1; T 1; T 0; T 0; T 1] = Some x2 /\
    map rets (ths x2) = [[(KSend, RErr eNil); (KSend, RErr eEOF)]; [(KClose, RErr eNil)]] /\
    buf (shd x2) = [1%N] /\ all_finished x2 = true /\ wf_progs [[OSend 1; OSend 2]; [OClose]] = true.
Proof. eexists. eexists. split; [vm_compute; reflexivity|]. vm_compute. auto 10. Qed.
(* the schedule that refutes the candidate, on the fixed code: the Recv that saw `closed` waits at
   the barrier behind the Send in flight (and is not enabled), the Send and the Close are *)
Example c17_close_releases_blocked_send_instance2 :
  exists x, run fixed (init 1 [[OSend 7]; [OClose]; [ORecv; ORecv]]) [T 0; T 0; T 0; T 0; T 1; T 2; T 2] = Some x /\
    map tpc (ths x) = [S_select 7 0; C2_cancel; R_barrier] /\
    enabled fixed x (T 2) = false /\ enabled fixed x (T 0) = true /\ enabled fixed x (T 1) = true.
Proof. eexists. split; [vm_compute; reflexivity|]. vm_compute. auto. Qed.

(* nothing is enqueued after Close has returned nil (both versions of Close): no Send is past its
   `closed` check any more, and no later step changes the sequence of items ever put on the queue *)
Theorem c17_no_enqueue_after_close : forall c size progs x,
  wf_progs progs = true -> reachable c size progs x -> 1 <= sumf nclose (ths x) ->
  closed (shd x) = true /\ cnt sendstage (ths x) = 0 /\
  forall a x', step c x a = Some x' -> sent (shd x') = sent (shd x) /\ 1 <= sumf nclose (ths x').
Proof. exact no_enqueue_after_close. Qed.
Print Assumptions c17_no_enqueue_after_close.

(* ------------------------------------------------------------------ deadlines *)
(* once the deadline channel is closed (expiry or Cancel) every caller parked in a blocking select
   can step, and what it will report is a non-nil error (or a queued item) *)
Theorem c17_deadline_releases :
  (forall c size progs x,
   wf_progs progs = true -> reachable c size progs x -> cur_closed (shd x) = true ->
   forall i t, nth_error (ths x) i = Some t ->
     (exists g, tpc t = R_select g) \/ (exists v g, tpc t = S_select v g) ->
     enabled c x (Th i false) = true /\ derr (shd x) <> 0%N) /\
  (* the timer callback closes the deadline channel with os.ErrDeadlineExceeded *)
  (forall c x x', step c x TimerRun = Some x' -> cur_closed (shd x') = true /\ derr (shd x') = eDE).
Proof. split; [exact deadline_releases|exact timer_expiry]. Qed.
Print Assumptions c17_deadline_releases.

(* non-vacuity: Send blocked on a full queue (holding the mutex) is released by a deadline set
   from another thread and reports os.ErrDeadlineExceeded *)
Example c17_deadline_releases_instance :
  exists x, run fixed (init 1 [[OSend 1; OSend 2]; [OSetDl DSoon]])
      [T 0; T 0; T 0; T 0; T 0; T 0; T 0; T 0; T 0; T 1; T 1; TimerFire; TimerRun; T 0; T 0; T 1] = Some x /\
    map rets (ths x) = [[(KSend, RErr eNil); (KSend, RErr eDE)]; [(KSetDl, RErr eNil)]] /\
    all_finished x = true.
Proof. eexists. split; [vm_compute; reflexivity|]. vm_compute. auto. Qed.

(* ================================================================== Part 2: Client lifecycle *)
From Hop Require Import ConcBase ConcUtil Lifecycle LifecycleProofs LifecycleLive.
Local Open Scope nat_scope.

(* for every number of goroutines calling Handshake/Read/Write/Close in any order, live or dead
   peer, with or without a handshake timeout: the handshake body is entered at most once *)
Theorem c17_handshake_runs_once : forall pe tm cr progs x,
  creachable pe tm cr progs x ->
  hs_runs (csd x) <= 1 /\
  (* and Handshake reports nil only when the session exists *)
  (forall i t, nth_error (cths x) i = Some t -> In (CHandshake, 0%N) (crets t) -> handle_set (csd x) = true).
Proof.
  intros pe tm cr progs x Hr. split.
  - exact (handshake_runs_once pe tm cr progs x Hr).
  - exact (handshake_nil_means_session pe tm cr progs x Hr).
Qed.
Print Assumptions c17_handshake_runs_once.

(* Close is idempotent: the socket is closed at most once and every caller — the elected one and
   every waiter — reports the result of that one close *)
Theorem c17_close_idempotent_same_result : forall pe tm cr progs x, creachable pe tm cr progs x ->
  (conn_closes (csd x) <= 1 /\
   forall i t r, nth_error (cths x) i = Some t -> In (CClose, r) (crets t) -> r = cr) /\
  (* completion channels publish: results are stored before the channel is closed *)
  ((close_done (csd x) = true -> close_err (csd x) = Some cr /\ conn_closed (csd x) = true /\ is_closing (cstate (csd x)) = true) /\
   (hs_done (csd x) = true -> hs_runs (csd x) = 1) /\
   (cstate (csd x) = sError -> cerr (csd x) <> 0%N)).
Proof.
  intros pe tm cr progs x Hr. split.
  - exact (close_same_result pe tm cr progs x Hr).
  - exact (results_published_before_signal pe tm cr progs x Hr).
Qed.
Print Assumptions c17_close_idempotent_same_result.

(* close-before-wait: once a Close has been elected, any state in which nothing can move has
   every call returned — even with a dead peer and no handshake timeout (the handshake's socket
   read, the receive loop, waiting Handshake/Close callers and blocked readers are all released) *)
Theorem c17_client_close_releases_everyone : forall pe tm cr progs x, creachable pe tm cr progs x ->
  is_closing (cstate (csd x)) = true -> cterminal x = true -> call_finished x = true.
Proof. exact close_returns. Qed.
Print Assumptions c17_client_close_releases_everyone.

(* non-vacuity: dead peer, no timeout; T0 is parked in the handshake read, T1 waits for the
   handshake, T2 reads; then Close (T3) releases all of them *)
Example c17_client_close_instance :
  exists x, crun (cinit false false 0 [[CHandshake]; [CHandshake]; [CRead]; [CClose]])
      (map CT [0;0;0; 1;1; 2;2;2]%nat) = Some x /\
    map cpcv (cths x) = [H_io; H_wait; H_wait; CIdle] /\ cterminal (mkCSt (csd x) (firstn 3 (cths x))) = true.
Proof. eexists. split; [vm_compute; reflexivity|]. vm_compute. auto. Qed.
Example c17_client_close_instance_released :
  exists x, crun (cinit false false 0 [[CHandshake]; [CHandshake]; [CRead]; [CClose]])
      (map CT ([0;0;0; 1;1; 2;2;2] ++ [3;3;3;3] ++ [0;0;0;0;0] ++ [1;1] ++ [2;2] ++ [3;3;3;3;3;3])%nat) = Some x /\
    call_finished x = true /\ is_closing (cstate (csd x)) = true /\
    map crets (cths x) = [[(CHandshake, 1)]; [(CHandshake, 1)]; [(CRead, 1)]; [(CClose, 0)]]%N.
Proof. eexists. split; [vm_compute; reflexivity|]. vm_compute. auto. Qed.

(* ------------------------------------------------------------------------------------------
   transport.Server lifecycle (Model/ServerLife.v): any number of goroutines calling Serve / Close /
   Accept / AcceptTimeout and ReadMsg / WriteMsg / Close on server handles, the receive loop and the
   cookie rotation goroutine, handshakes completing at any time or never; every schedule. *)
From Hop Require Import ServerLife ServerLifeProofs ServerLifeLive.

(* Serve runs once: CompareAndSwap(Ready, Serving) succeeds at most once (never again on a server
   that already serves), so the two worker goroutines are started at most once; every other Serve
   reports the non-ready error.  Nothing ever sends on / closes again a closed channel
   (stopCookieRotate, pendingConnections, closeDone). *)
Theorem c17_server_serve_runs_once : forall sv nh cap cres progs x, vreachable sv nh cap cres progs x ->
  serve_runs (vshd x) <= 1 /\ vpanic (vshd x) = false /\
  vwg (vshd x) = rdn (rdp (vshd x)) + ckn (ckp (vshd x)) /\ vwg (vshd x) <= 2.
Proof.
  intros sv nh cap cres progs x R. pose proof (vinv_reachable _ _ _ _ _ _ R) as I.
  destruct I as [B0 [B1 _] _ _ _ _ _ _ B8 _ _ _ _ _]. repeat split; auto.
  rewrite B8. destruct (rdp (vshd x)), (ckp (vshd x)); simpl; lia.
Qed.
Print Assumptions c17_server_serve_runs_once.

(* Close is idempotent with the same result for every caller: the socket is closed once, every
   Close call that has returned -- the elected one and every concurrent or later one -- reports
   the result of that one socket close, and closeDone is published only after the state is closed. *)
Theorem c17_server_close_same_result : forall sv nh cap cres progs x, vreachable sv nh cap cres progs x ->
  vconn_closes (vshd x) <= 1 /\
  (forall t r, In t (vths x) -> In (VClose, r) (vrets t) -> r = cres) /\
  (vclose_done (vshd x) = true -> closing (vst (vshd x)) = true /\ vconn_closes (vshd x) = 1 /\
                                  vclose_err (vshd x) = Some cres).
Proof.
  intros sv nh cap cres progs x R. pose proof (vinv_reachable _ _ _ _ _ _ R) as I.
  assert (Hres : vconn_res (vshd x) = cres).
  { clear I. destruct R as [l Hl].
    assert (G : forall l x0 x, vrun x0 l = Some x -> vconn_res (vshd x) = vconn_res (vshd x0)).
    { clear. induction l as [|a l IH]; intros x0 x H; simpl in H.
      - inversion H; reflexivity.
      - destruct (vstep x0 a) as [x1|] eqn:E; [|discriminate]. rewrite (IH _ _ H). clear IH H.
        unfold vstep in E. destruct (vpanic (vshd x0)); [discriminate|].
        destruct a as [i tmo| | | | ].
        + destruct (nth_error (vths x0) i) as [t|]; [|discriminate].
          destruct (vtstep tmo (vshd x0) t) as [[s' t']|] eqn:Es; [|discriminate]. injection E as <-. simpl.
          unfold vtstep, with_v in Es.
          repeat (match type of Es with
                  | context [match ?v with _ => _ end] => destruct v
                  end; try discriminate Es); injection Es as <- _; reflexivity.
        + unfold with_v in E.
          repeat (match type of E with
                  | context [match ?v with _ => _ end] => destruct v
                  end; try discriminate E); injection E as <-; reflexivity.
        + unfold with_v in E.
          repeat (match type of E with
                  | context [match ?v with _ => _ end] => destruct v
                  end; try discriminate E); injection E as <-; reflexivity.
        + unfold with_v in E.
          repeat (match type of E with
                  | context [match ?v with _ => _ end] => destruct v
                  end; try discriminate E); injection E as <-; reflexivity.
        + unfold with_v in E.
          repeat (match type of E with
                  | context [match ?v with _ => _ end] => destruct v
                  end; try discriminate E); injection E as <-; reflexivity. }
    rewrite (G _ _ _ Hl). unfold vinit, vsh_init. destruct sv; reflexivity. }
  destruct I as [B0 B1 B2 B3 B4 [B5 B5'] B6 B7 B8 B9 B11 B12 B13 B14].
  split; [|split].
  - destruct (closing (vst (vshd x))); simpl in B4; lia.
  - intros t r Ht Hr. rewrite Forall_forall in B14. specialize (B14 t Ht). rewrite Forall_forall in B14.
    specialize (B14 _ Hr). simpl in B14. congruence.
  - intros Hd. specialize (B3 Hd). rewrite B3, Hd in *. simpl in *.
    pose proof (gcnt_sub preconn closerA (vths x) sub1).
    assert (Hone : vconn_closes (vshd x) = 1) by lia. rewrite B5', Hone, Hres. auto.
Qed.
Print Assumptions c17_server_close_same_result.

(* a handle offered by Accept / AcceptTimeout is offered exactly once: the handles returned so far
   are pairwise distinct, distinct from those still queued in pendingConnections, and each is a
   session that finishHandshake created *)
Theorem c17_server_accept_offers_once : forall sv nh cap cres progs x, vreachable sv nh cap cres progs x ->
  NoDup (offered (vshd x)) /\ NoDup (pend (vshd x)) /\
  (forall h, In h (pend (vshd x)) -> ~ In h (offered (vshd x))) /\
  (forall h, In h (offered (vshd x)) -> h < length (hclosed (vshd x))).
Proof.
  intros sv nh cap cres progs x R. pose proof (vinv_reachable _ _ _ _ _ _ R) as I.
  destruct I as [_ _ _ _ _ _ _ _ _ _ _ [B12 B12'] _ _].
  repeat split.
  - revert B12. generalize (pend (vshd x)). clear. induction l as [|a l IH]; simpl; auto.
    intros N. inversion N; auto.
  - revert B12. generalize (pend (vshd x)) (offered (vshd x)). clear. induction l as [|a l IH]; simpl; intros o N.
    + constructor.
    + inversion N; subst. constructor; eauto. intros Hin. apply H1. apply in_or_app. auto.
  - intros h H1 H2. revert B12 H1 H2. generalize (pend (vshd x)) (offered (vshd x)). clear.
    induction l as [|a l IH]; simpl; intros o N H1 H2; [tauto|]. inversion N; subst.
    destruct H1 as [->|H1]; [apply H3; apply in_or_app; auto | eauto].
  - intros h H. apply B12'. apply in_or_app. auto.
Qed.
Print Assumptions c17_server_accept_offers_once.

(* Close releases everyone, no lost wake-up: once a Close has been elected, in any state where no
   transition other than a handshake arrival or a cookie timer tick is enabled, every call of every
   goroutine -- blocked Accept / AcceptTimeout / ReadMsg on a handle, Serve, the other Close calls --
   has returned, both worker goroutines have ended, socket, stop signal, pendingConnections and every
   session are closed and closeDone is published. *)
Theorem c17_server_close_releases_everyone : forall sv nh cap cres progs x, vreachable sv nh cap cres progs x ->
  closing (vst (vshd x)) = true -> vquiescent x ->
  Forall (fun t => vfinished t = true) (vths x) /\ vclose_done (vshd x) = true /\ vwg (vshd x) = 0 /\
  pend_closed (vshd x) = true /\ Forall (fun b => b = true) (hclosed (vshd x)).
Proof.
  intros sv nh cap cres progs x R Hc Q. pose proof (vinv_reachable _ _ _ _ _ _ R) as I.
  destruct (close_releases_everyone x I Hc Q) as (H1 & H2 & H3 & _ & _ & _ & _ & H4 & H5). auto.
Qed.
Print Assumptions c17_server_close_releases_everyone.

(* ... and with end-of-stream: a blocked Accept / ReadMsg can only return a handle / nothing else
   than io.EOF (1); in particular after Close published closeDone with an empty pending queue every
   Accept that returns reports end of stream.  Non-vacuity: a serving server with one accepted session; a
   blocked Accept (T0), a ReadMsg blocked on handle 0 (T1), two concurrent Closes (T2, T3): everything
   returns, Accept and ReadMsg with io.EOF, both Closes with the socket's result 7. *)
Example c17_server_close_instance :
  exists x, vrun (vinit true 1 4 7 [[VAccept]; [VRead 0]; [VClose]; [VClose]])
      ([VT 0 false; VT 1 false; VT 2 false; VT 3 false; VT 2 false; VT 2 false; VReader; VCookie;
        VT 2 false; VT 2 false; VT 2 false; VT 2 false; VT 2 false; VT 2 false;
        VT 3 false; VT 3 false; VT 0 false; VT 1 false]) = Some x /\
    map vrets (vths x) = [[(VAccept, 1)]; [(VRead 0, 1)]; [(VClose, 7)]; [(VClose, 7)]]%N /\
    vst (vshd x) = VClosed.
Proof. eexists. split; [vm_compute; reflexivity|]. vm_compute. auto. Qed.

(* ==========================================================================================
   Part 4: the read side of transport.Handle — leftover handling of Read / ReadMsg
   (Model/HandleRead.v, Proofs/HandleReadProofs.v; docs/C17.md section "Handle.Read / ReadMsg") *)
From Hop Require Import Base HandleRead HandleReadProofs.
Local Open Scope N_scope.

(* ------------------------------------------------------------------ byte-stream law *)
(* Nothing lost, nothing duplicated, order kept: at every moment the bytes handed to the reader so
   far, then the leftover buffer, then the queued messages, are exactly the bytes of the messages
   accepted into the queue so far.  (A message that finds the queue full, or the session closed,
   is dropped whole by handleSessionMessage before it is accepted — the datagram layer may lose
   messages, the read path may not lose bytes.) *)
Theorem c17_read_stream_law : forall cap ex ops s evs,
  hr_run (hrinit cap ex) ops = (s, evs) ->
  hr_delivered evs ++ hrbuf s ++ List.concat (hrq s) = hr_accepted evs.
Proof. exact hr_stream_law. Qed.
Print Assumptions c17_read_stream_law.

(* the same from an arbitrary state (the step-by-step form of the law) *)
Theorem c17_read_stream_law_from_any_state : forall ops s s' evs,
  hr_run s ops = (s', evs) ->
  hr_pending s ++ hr_accepted evs = hr_delivered evs ++ hr_pending s'.
Proof. exact hr_run_stream. Qed.
Print Assumptions c17_read_stream_law_from_any_state.

(* a call never returns more than the caller's buffer holds *)
Theorem c17_read_fits_buffer : forall s n s' b,
  (hr_step s (HRead n) = (s', HData b) \/ hr_step s (HReadMsg n) = (s', HData b)) -> len b <= n.
Proof. exact hr_read_fits. Qed.
Print Assumptions c17_read_fits_buffer.

(* Non-vacuity: a 5-byte message read with buffers of 2, 0, 2, 4 bytes while a second message
   arrives in between, then Close: the fragments are 2+0+2+1 bytes, then the second message, then
   io.EOF; delivered = accepted = both messages. *)
Example c17_read_stream_instance :
  let ops := [HArrive [1;2;3;4;5]; HRead 2; HRead 0; HArrive [6;7]; HRead 2; HRead 4; HShut; HRead 4; HRead 4] in
  let '(s, evs) := hr_run (hrinit 4 false) ops in
  map snd evs = [HQueued; HData [1;2]; HData []; HQueued; HData [3;4]; HData [5]; HNil; HData [6;7]; HEof] /\
  hr_delivered evs = [1;2;3;4;5;6;7] /\ hr_accepted evs = [1;2;3;4;5;6;7] /\ hrbuf s = [] /\ hrq s = [].
Proof. vm_compute. repeat split. Qed.

(* ------------------------------------------------------------------ data before end-of-stream *)
(* A reader call reports io.EOF only on a closed handle whose leftover buffer and queue are both
   empty, and it changes nothing. *)
Theorem c17_read_eof_only_when_drained : forall s o s',
  hr_is_reader_ev (o, HEof) = true -> hr_step s o = (s', HEof) ->
  (hrclosed s = true /\ hrbuf s = [] /\ hrq s = []) /\ s' = s.
Proof. exact hr_eof_drained. Qed.
Print Assumptions c17_read_eof_only_when_drained.

(* For every history: when a Read/ReadMsg reports io.EOF, every byte accepted so far has been
   delivered; afterwards nothing is accepted, nothing is delivered, and every Read/ReadMsg reports
   io.EOF again (no data after end-of-stream). *)
Theorem c17_read_data_before_eof : forall cap ex ops1 o ops2 s1 evs1 s2 s3 evs2,
  hr_run (hrinit cap ex) ops1 = (s1, evs1) ->
  hr_is_reader_ev (o, HEof) = true ->
  hr_step s1 o = (s2, HEof) ->
  hr_run s2 ops2 = (s3, evs2) ->
  hr_delivered evs1 = hr_accepted evs1 /\
  hr_accepted evs2 = [] /\ hr_delivered evs2 = [] /\
  Forall (fun e => hr_is_reader_ev e = true -> snd e = HEof) evs2.
Proof. exact hr_data_before_eof. Qed.
Print Assumptions c17_read_data_before_eof.

(* runs compose, so the two halves above are one history *)
Theorem c17_read_run_app : forall ops1 ops2 s s1 evs1 s2 evs2,
  hr_run s ops1 = (s1, evs1) -> hr_run s1 ops2 = (s2, evs2) ->
  hr_run s (ops1 ++ ops2) = (s2, evs1 ++ evs2).
Proof. exact hr_run_app. Qed.
Print Assumptions c17_read_run_app.

(* Close does not discard anything: a Read with a non-empty buffer on a handle that still holds
   something (leftover or queued, closed or not) returns data — never an error, never blocks — and
   strictly reduces what is held ... *)
Theorem c17_read_progress : forall s n,
  0 < n -> (hr_measure s > 0)%nat ->
  exists s' b, hr_step s (HRead n) = (s', HData b) /\ (hr_measure s' < hr_measure s)%nat /\
               hrclosed s' = hrclosed s.
Proof. exact hr_read_progress. Qed.
Print Assumptions c17_read_progress.

(* ... so a closed handle is drained by at most [hr_measure s] (= bytes + messages held) Reads of any
   non-empty buffer size: all of them return data, together exactly the pending bytes in order, and
   the next Read reports io.EOF. *)
Theorem c17_read_close_then_drain : forall n, 0 < n -> forall k s,
  hrclosed s = true -> (hr_measure s <= k)%nat ->
  exists j s' evs, (j <= k)%nat /\ hr_run s (hr_reads n j) = (s', evs) /\
    Forall (fun e => exists b, snd e = HData b) evs /\
    hr_delivered evs = hr_pending s /\ hr_accepted evs = [] /\
    hr_step s' (HRead n) = (s', HEof).
Proof. exact hr_drain. Qed.
Print Assumptions c17_read_close_then_drain.

(* Non-vacuity: leftover [3;4;5] and two queued messages (one empty) on a closed handle, 2-byte
   buffer: measure 3 + (1+2) + (1+0) = 7; five Reads return 2,1,2,0 bytes... then io.EOF. *)
Example c17_read_drain_instance :
  let s := mkHR [[6;7]; []] [3;4;5] true false 4 in
  hr_measure s = 7%nat /\
  map snd (snd (hr_run s (hr_reads 2 5))) = [HData [3;4]; HData [5]; HData [6;7]; HData []; HEof].
Proof. vm_compute. split; reflexivity. Qed.

(* ------------------------------------------------------------------ message law (ReadMsg) *)
(* A connection that is read with ReadMsg only (no Read): the messages returned, then the message
   parked in the buffer by an ErrBufOverflow (if any), then the queue, are exactly the accepted
   messages — whole, in order, at most once (C03: "byte-identical to a message the peer wrote"). *)
Theorem c17_readmsg_whole_messages : forall cap ex ops s evs,
  forallb (fun o => negb (hr_is_read_op o)) ops = true ->
  hr_run (hrinit cap ex) ops = (s, evs) ->
  hr_delivered_msgs evs ++ hr_bufmsg s ++ hrq s = hr_accepted_msgs evs.
Proof. exact hr_msg_law. Qed.
Print Assumptions c17_readmsg_whole_messages.

(* Non-vacuity: a 9-byte message, ReadMsg with 8 bytes twice (ErrBufOverflow, message kept), then 9. *)
Example c17_readmsg_overflow_instance :
  let ops := [HArrive [1;2;3;4;5;6;7;8;9]; HReadMsg 8; HReadMsg 8; HReadMsg 9; HReadMsg 9] in
  map snd (snd (hr_run (hrinit 2 true) ops)) = [HQueued; HOverflow; HOverflow; HData [1;2;3;4;5;6;7;8;9]; HTimeout].
Proof. vm_compute. reflexivity. Qed.

(* The hypothesis "no Read" is needed: after a short Read, ReadMsg returns the rest of the fragmented
   message, which is not a message the peer wrote (the byte-stream law still holds).  This is the
   stream interface working as written ("If there's buffered data, return all of it"), recorded so
   that nobody reads the message law as covering mixed use.  Replayed on the real Handle by the
   driver (class handle-read-script). *)
Theorem c17_readmsg_after_short_read_returns_fragment_refuted :
  exists ops s evs, hr_run (hrinit 4 true) ops = (s, evs) /\
    hr_accepted_msgs evs = [[1;2;3;4;5]] /\ hr_delivered_msgs evs = [[3;4;5]] /\
    hr_delivered evs = [1;2;3;4;5].
Proof. exists [HArrive [1;2;3;4;5]; HRead 2; HReadMsg 10]. eexists. eexists. vm_compute. repeat split. Qed.
Print Assumptions c17_readmsg_after_short_read_returns_fragment_refuted.

(* Also as written: Read with a zero-length buffer on an empty leftover buffer still performs the
   Recv — on an idle open handle it blocks (or times out / reports io.EOF), and when a message is
   queued it moves the whole message into the leftover buffer and returns (0, nil). *)
Example c17_read_zero_length_buffer :
  map snd (snd (hr_run (hrinit 4 false) [HRead 0])) = [HBlock] /\
  map snd (snd (hr_run (hrinit 4 true) [HRead 0])) = [HTimeout] /\
  (let '(s, evs) := hr_run (hrinit 4 false) [HArrive [1;2;3;4]; HRead 0] in
   map snd evs = [HQueued; HData []] /\ hrbuf s = [1;2;3;4] /\ hrq s = []).
Proof. vm_compute. repeat split. Qed.
