//go:build verif

// White-box access for the handshake properties C01, C02, C10, C19 (group hs).
// Add-only: mapped into /repo/transport at build time with -overlay; exports wrappers only.
package transport

import (
	"crypto/rand"
	"net"

	"hop.computer/hop/certs"
	"hop.computer/hop/cyclist"
	"hop.computer/hop/keys"
)

// ---------------------------------------------------------------- server stepping

// VerifHsSetServing puts the server into the serving state without starting the receive
// goroutine; the driver then calls VerifHsStep for each datagram.
func (s *Server) VerifHsSetServing() { s.state.Store(uint32(serverStateServing)) }

// VerifHsStep runs one iteration of the Serve loop body (readPacket) on the caller's buffers.
func (s *Server) VerifHsStep(rawRead, hwbuf []byte) error { return s.readPacket(rawRead, hwbuf) }

// VerifHsTables returns the sizes of the handshake table, session table and accept queue.
func (s *Server) VerifHsTables() (hs, ss, pending int) {
	s.m.RLock()
	defer s.m.RUnlock()
	return len(s.handshakes), len(s.sessions), len(s.pendingConnections)
}

func (s *Server) VerifHsCookieKey() [KeyLen]byte {
	s.cookieLock.Lock()
	defer s.cookieLock.Unlock()
	return s.cookieKey
}

// VerifHsRotateCookieKey does what the rotation ticker in Serve does.
func (s *Server) VerifHsRotateCookieKey() {
	s.cookieLock.Lock()
	defer s.cookieLock.Unlock()
	rand.Read(s.cookieKey[:])
}

func (s *Server) VerifHsHandshakeFor(addr *net.UDPAddr) *HandshakeState {
	return s.fetchHandshakeState(addr)
}

// VerifHsSession reports the state of a session id: exists, established (handle published), keys.
func (s *Server) VerifHsSession(id SessionID) (exists, est bool, c2s, s2c [KeyLen]byte) {
	ss := s.fetchSession(id)
	if ss == nil {
		return
	}
	ss.m.Lock()
	defer ss.m.Unlock()
	return true, ss.handle != nil && ss.handleState == established, ss.clientToServerKey, ss.serverToClientKey
}

func (s *Server) VerifHsSessionIDs() []SessionID {
	s.m.RLock()
	defer s.m.RUnlock()
	var out []SessionID
	for k := range s.sessions {
		out = append(out, k)
	}
	return out
}

func (s *Server) VerifHsConfig() *ServerConfig { return &s.config }

// ---------------------------------------------------------------- handshake state

type VerifHsState = HandshakeState

// VerifHsNewClientHS builds the state clientHandshakeLocked builds before the first message.
func VerifHsNewClientHS(cfg *ClientConfig, server *net.UDPAddr, hidden bool) (*HandshakeState, error) {
	c := NewClient(nil, server, *cfg)
	hs := new(HandshakeState)
	hs.duplex.InitializeEmpty()
	hs.dh = new(dhState)
	hs.dh.ephemeral.Generate()
	hs.dh.static = cfg.Exchanger
	hs.kem = new(kemState)
	eph, err := keys.GenerateKEMKeyPair(rand.Reader)
	if err != nil {
		return nil, err
	}
	hs.kem.ephemeral = *eph
	hs.leaf, hs.intermediate, err = c.prepareCertificates()
	if err != nil {
		return nil, err
	}
	hs.remoteAddr = server
	hs.certVerify = &c.config.Verify
	if hidden {
		hs.duplex.Absorb([]byte(PostQuantumHiddenProtocolName))
		hs.RekeyFromSqueeze(PostQuantumHiddenProtocolName)
	} else {
		hs.duplex.Absorb([]byte(PostQuantumProtocolName))
	}
	return hs, nil
}

// VerifHsNewScratchHS is the state handlePQClientHello builds before reading the hello.
func VerifHsNewScratchHS() *HandshakeState {
	hs := &HandshakeState{}
	hs.duplex.InitializeEmpty()
	hs.duplex.Absorb([]byte(PostQuantumProtocolName))
	hs.dh = new(dhState)
	hs.kem = new(kemState)
	return hs
}

// VerifHsNewHiddenServerHS is the state handlePQClientRequestHidden builds.
func VerifHsNewHiddenServerHS() *HandshakeState {
	hs := &HandshakeState{}
	hs.dh = new(dhState)
	hs.dh.ephemeral.Generate()
	hs.kem = new(kemState)
	return hs
}

func (hs *HandshakeState) VerifHsDuplex() cyclist.Cyclist          { return hs.duplex }
func (hs *HandshakeState) VerifHsSetDuplex(c cyclist.Cyclist)      { hs.duplex = c }
func (hs *HandshakeState) VerifHsSessionID() [SessionIDLen]byte    { return hs.sessionID }
func (hs *HandshakeState) VerifHsDHEphemeral() *keys.X25519KeyPair { return &hs.dh.ephemeral }
func (hs *HandshakeState) VerifHsRemoteEphemeral() [DHLen]byte     { return hs.dh.remoteEphemeral }
func (hs *HandshakeState) VerifHsRemoteStatic() [DHLen]byte        { return hs.dh.remoteStatic }
func (hs *HandshakeState) VerifHsKEMEphemeral() *keys.KEMKeyPair   { return &hs.kem.ephemeral }
func (hs *HandshakeState) VerifHsCookie() []byte                   { return hs.cookie }
func (hs *HandshakeState) VerifHsSNI() certs.Name                  { return hs.sni }
func (hs *HandshakeState) VerifHsSetCertVerify(v *VerifyConfig)    { hs.certVerify = v }
func (hs *HandshakeState) VerifHsParsedLeaf() *certs.Certificate   { return hs.parsedLeaf }
func (hs *HandshakeState) VerifHsRekey(name string)                { hs.RekeyFromSqueeze(name) }
func (hs *HandshakeState) VerifHsSetCookieCtx(k [KeyLen]byte, a *net.UDPAddr) {
	hs.cookieKey = k
	hs.remoteAddr = a
}

// VerifHsFingerprint squeezes 8 bytes from a copy of the duplex: identifies the duplex state
// without disturbing it.
func (hs *HandshakeState) VerifHsFingerprint() []byte {
	c := hs.duplex
	if c == (cyclist.Cyclist{}) {
		return nil // never initialised (Squeeze would not terminate on the zero value)
	}
	var out [8]byte
	c.Squeeze(out[:])
	return out[:]
}

func (hs *HandshakeState) VerifHsFinalKeys() (c2s, s2c [KeyLen]byte) {
	hs.deriveFinalKeys(&c2s, &s2c)
	return
}

// VerifHsPolicy runs certificateParserAndVerifier and returns the leaf public key.
func (hs *HandshakeState) VerifHsPolicy(rawLeaf, rawIntermediate []byte) (pk [32]byte, err error) {
	leaf, _, err := hs.certificateParserAndVerifier(rawLeaf, rawIntermediate)
	return leaf.PublicKey, err
}

// ---------------------------------------------------------------- message readers / writers (PQ)

func VerifHsWritePQClientHello(hs *HandshakeState, b []byte) (int, error) {
	return writePQClientHello(hs, b)
}
func VerifHsReadPQClientHello(hs *HandshakeState, b []byte) (int, error) {
	return readPQClientHello(hs, b)
}
func VerifHsWritePQServerHello(hs *HandshakeState, b []byte) (int, error) {
	return writePQServerHello(hs, b)
}
func VerifHsReadPQServerHello(hs *HandshakeState, b []byte) (int, error) {
	return readPQServerHello(hs, b)
}
func (hs *HandshakeState) VerifHsWritePQClientAck(b []byte) (int, error) {
	return hs.writePQClientAck(b)
}
func (s *Server) VerifHsReadPQClientAck(b []byte, a *net.UDPAddr) (int, *HandshakeState, error) {
	return s.readPQClientAck(b, a)
}
func (s *Server) VerifHsWritePQServerAuth(b []byte, hs *HandshakeState) (int, error) {
	return s.writePQServerAuth(b, hs)
}
func (hs *HandshakeState) VerifHsReadPQServerAuth(b []byte) (int, error) {
	return hs.readPQServerAuth(b)
}
func (hs *HandshakeState) VerifHsWritePQClientAuth(b []byte) (int, error) {
	return hs.writePQClientAuth(b)
}
func (s *Server) VerifHsReadPQClientAuth(b []byte, a *net.UDPAddr) (int, *HandshakeState, error) {
	return s.readPQClientAuth(b, a)
}
func (s *Server) VerifHsSetHandshakeState(a *net.UDPAddr, hs *HandshakeState) bool {
	return s.setHandshakeState(a, hs)
}
func (s *Server) VerifHsFinishHandshake(hs *HandshakeState, hidden bool) error {
	return s.finishHandshake(hs, hidden)
}
func (s *Server) VerifHsHandlePQClientHello(b []byte) (*HandshakeState, error) {
	return s.handlePQClientHello(b)
}
func (hs *HandshakeState) VerifHsWritePQClientRequestHidden(b []byte, k *keys.KEMPublicKey) (int, error) {
	return hs.writePQClientRequestHidden(b, k)
}
func (s *Server) VerifHsReadPQClientRequestHidden(hs *HandshakeState, b []byte) (int, error) {
	return s.readPQClientRequestHidden(hs, b)
}
func (s *Server) VerifHsWritePQServerResponseHidden(hs *HandshakeState, b []byte) (int, error) {
	return s.writePQServerResponseHidden(hs, b)
}
func (hs *HandshakeState) VerifHsReadPQServerResponseHidden(b []byte) (int, error) {
	return hs.readPQServerResponseHidden(b)
}
func (s *Server) VerifHsReplayPQDuplexFromCookie(cookie []byte, k keys.KEMPublicKey, a *net.UDPAddr) (*HandshakeState, error) {
	return s.ReplayPQDuplexFromCookie(cookie, k, a)
}
func (hs *HandshakeState) VerifHsWriteCookie(b, k []byte) (int, error) { return hs.writeCookie(b, k) }
func (hs *HandshakeState) VerifHsDecryptCookie(b []byte) (int, *[]byte, error) {
	return hs.decryptCookie(b)
}

// ---------------------------------------------------------------- client

// VerifHsSession returns the client's session id and keys after a successful handshake.
func (c *Client) VerifHsSession() (ok bool, id SessionID, c2s, s2c [KeyLen]byte) {
	if c.ss == nil {
		return
	}
	return true, c.ss.sessionID, c.ss.clientToServerKey, c.ss.serverToClientKey
}

// VerifHsClientStep feeds one datagram to an established client exactly as listen() does.
func (c *Client) VerifHsClientStep(addr *net.UDPAddr, msg []byte) error {
	return c.handleSessionMessage(addr, msg)
}

// ---------------------------------------------------------------- transport packets with known keys

// VerifHsSeal builds the transport packet a party holding key would send as its count-th packet.
func VerifHsSeal(sid SessionID, key [KeyLen]byte, count uint64, mt MessageType, pt []byte) ([]byte, error) {
	ss := &SessionState{sessionID: sid, count: count}
	return ss.sealPacketLocked(mt, pt, &key)
}

// VerifHsOpen opens a transport packet with key (fresh replay window).
func VerifHsOpen(sid SessionID, key [KeyLen]byte, pkt []byte) ([]byte, error) {
	ss := &SessionState{sessionID: sid}
	if PlaintextLen(len(pkt)) < 0 {
		return nil, ErrBufUnderflow
	}
	pt := make([]byte, PlaintextLen(len(pkt)))
	n, _, err := ss.readPacketLocked(pt, pkt, &key)
	if err != nil {
		return nil, err
	}
	return pt[:n], nil
}

// VerifHsSetConn replaces the socket of a server that is not serving yet (e.g. one built by
// hopserver.NewHopServer) by the driver's in-memory connection and closes the old one.
func (s *Server) VerifHsSetConn(c UDPLike) {
	old := s.udpConn
	s.udpConn = c
	if old != nil {
		old.Close()
	}
}
