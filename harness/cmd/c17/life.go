package main

import "verifharness/hv"

func runLifecycle(r *hv.Rand) {}
