(* proofs for Model/Recv.v — see Properties/C08.v *)
From Hop Require Import Base Recv.
From Coq Require Import ZifyN ZifyNat ZifyBool Lia.
Ltac Zify.zify_post_hook ::= Z.div_mod_to_equations.
Open Scope N_scope.

(* ------------------------------------------------------------------ unwrapFrameNo *)
Definition choose (ack lower upper : N) : N :=
  let lower_diff := if lower <? ack then ack - lower else lower - ack in
  let upper_diff := if upper <? ack then ack - upper else upper - ack in
  if upper_diff <? lower_diff then upper else lower.

Lemma choose_lower : forall ack lower upper, lower < ack + two31 -> ack < lower + two31 ->
  (upper + two31 <= ack \/ ack + two31 <= upper) -> choose ack lower upper = lower.
Proof. intros. unfold choose, two31 in *.
  destruct (lower <? ack) eqn:A; destruct (upper <? ack) eqn:B;
  match goal with |- (if ?c then _ else _) = _ => destruct c eqn:C end; lia. Qed.
Lemma choose_upper : forall ack lower upper, upper < ack + two31 -> ack < upper + two31 ->
  (lower + two31 <= ack \/ ack + two31 <= lower) -> choose ack lower upper = upper.
Proof. intros. unfold choose, two31 in *.
  destruct (lower <? ack) eqn:A; destruct (upper <? ack) eqn:B;
  match goal with |- (if ?c then _ else _) = _ => destruct c eqn:C end; lia. Qed.

Lemma unwrap_unfold : forall ack f32, unwrap_frame_no ack f32 =
  let mult := two32 in
  let lower := if ack =? 0 then f32 else if ack mod mult <? two31 then u64 (u64 (u64sub (ack / mult) 1 * mult) + f32) else u64 (u64 ((ack / mult) * mult) + f32) in
  let upper := if ack =? 0 then u64 (mult + f32) else if ack mod mult <? two31 then u64 (u64 ((ack / mult) * mult) + f32) else u64 (u64 (u64 (ack / mult + 1) * mult) + f32) in
  choose ack lower upper.
Proof. intros. unfold unwrap_frame_no, choose. destruct (ack =? 0); [reflexivity|]. destruct (_ <? two31); reflexivity. Qed.

Lemma unwrap_correct : forall ack f, ack + two32 < two64 -> near ack f ->
  unwrap_frame_no ack (f mod two32) = f.
Proof.
  intros ack f Hb [H1 H2]. rewrite unwrap_unfold. cbv zeta.
  destruct (ack =? 0) eqn:E0.
  - apply N.eqb_eq in E0. subst ack. unfold u64, two31,two32,two64 in *.
    assert (f mod 4294967296 = f) by (apply N.mod_small; lia). rewrite H.
    rewrite choose_lower; unfold two31; try lia.
  - apply N.eqb_neq in E0.
    destruct (ack mod two32 <? two31) eqn:E1.
    + destruct (f / two32 =? ack / two32) eqn:E2.
      * assert (U: u64 (u64 (ack / two32 * two32) + f mod two32) = f).
        { unfold u64, two31, two32, two64 in *. lia. }
        rewrite U. apply choose_upper; try assumption.
        unfold u64, u64sub, two31, two32, two64 in *. lia.
      * assert (L: u64 (u64 (u64sub (ack / two32) 1 * two32) + f mod two32) = f).
        { unfold u64, u64sub, two31, two32, two64 in *. lia. }
        rewrite L. apply choose_lower; try assumption.
        unfold u64, u64sub, two31, two32, two64 in *. lia.
    + destruct (f / two32 =? ack / two32) eqn:E2.
      * assert (L: u64 (u64 (ack / two32 * two32) + f mod two32) = f).
        { unfold u64, two31, two32, two64 in *. lia. }
        rewrite L. apply choose_lower; try assumption.
        unfold u64, u64sub, two31, two32, two64 in *. lia.
      * assert (U: u64 (u64 (u64 (ack / two32 + 1) * two32) + f mod two32) = f).
        { unfold u64, u64sub, two31, two32, two64 in *. lia. }
        rewrite U. apply choose_upper; try assumption.
        unfold u64, u64sub, two31, two32, two64 in *. lia.
Qed.

(* ------------------------------------------------------------------ fragments *)
Section Stream.
Variable chunks : list bytes.
Let n := nchunks chunks.
Hypothesis n_small : nchunks chunks + two32 + 2000 < two64.

Definition valid_frag (fr : frag) : Prop :=
  (1 <= fr_prio fr /\ fr_prio fr <= nchunks chunks /\ fr_data fr = nth_chunk chunks (fr_prio fr) /\ fr_fin fr = false)
  \/ (fr_prio fr = nchunks chunks + 1 /\ fr_data fr = [] /\ fr_fin fr = true).

Fixpoint sorted (l : list frag) : Prop :=
  match l with [] => True | x :: r => Forall (fun y => fr_prio x <= fr_prio y) r /\ sorted r end.

Lemma pq_push_forall : forall (P : frag -> Prop) x l, P x -> Forall P l -> Forall P (pq_push x l).
Proof. induction l; simpl; intros. - constructor; auto.
  - destruct (_ <=? _). + constructor; auto. + inversion H0; subst. constructor; auto. Qed.

Lemma pq_push_in : forall x l y, In y (pq_push x l) <-> y = x \/ In y l.
Proof. induction l; simpl; intros. - intuition.
  - destruct (_ <=? _); simpl. + intuition. + rewrite IHl. intuition. Qed.

Lemma pq_push_sorted : forall x l, sorted l -> sorted (pq_push x l).
Proof. induction l; simpl; intros. - split; auto.
  - destruct H as [H1 H2]. destruct (fr_prio x <=? fr_prio a) eqn:E.
    + simpl. split; [|split; auto]. constructor. lia.
      eapply Forall_impl; [|exact H1]. simpl. intros. lia.
    + simpl. split; [|auto]. apply Forall_forall. intros y Hy. apply pq_push_in in Hy.
      destruct Hy as [->|Hy]. lia. rewrite Forall_forall in H1. auto. Qed.

Lemma pq_push_head : forall x l, Forall (fun y => fr_prio x <= fr_prio y) l -> pq_push x l = x :: l.
Proof. destruct l; simpl; intros; auto. inversion H; subst. destruct (_ <=? _) eqn:E; auto. lia. Qed.

(* ------------------------------------------------------------------ the stream invariant *)
(* `out` = bytes already handed to the reader *)
Record Inv (r : recv) (out : bytes) : Prop := {
  inv_ws_lo : 1 <= r_ws r;
  inv_ws_hi : r_ws r <= nchunks chunks + 2;
  inv_ack : r_ack r = r_ws r;
  inv_frags : Forall valid_frag (r_frags r);
  inv_buf : out ++ r_buf r = List.concat (firstn (consumed r) chunks);
  inv_closed : r_closed r = (nchunks chunks + 1 <? r_ws r)
}.

Lemma firstn_succ_nth : forall (l : list bytes) k, (k < List.length l)%nat ->
  firstn (S k) l = firstn k l ++ [nth k l []].
Proof. induction l; intros k H; simpl in H. lia. destruct k. reflexivity.
  change (a :: firstn (S k) l = a :: (firstn k l ++ [nth k l []])). f_equal. apply IHl. lia. Qed.

Lemma concat_firstn_step : forall w, 1 <= w -> w <= nchunks chunks ->
  List.concat (firstn (N.to_nat (w + 1 - 1)) chunks) = List.concat (firstn (N.to_nat (w - 1)) chunks) ++ nth_chunk chunks w.
Proof. intros. unfold nchunks in *. replace (N.to_nat (w + 1 - 1)) with (S (N.to_nat (w - 1))) by lia.
  rewrite firstn_succ_nth by lia. rewrite concat_app. simpl. rewrite app_nil_r. reflexivity. Qed.

Lemma concat_firstn_all : forall k, (List.length chunks <= k)%nat -> List.concat (firstn k chunks) = List.concat chunks.
Proof. intros. rewrite firstn_all2; auto. Qed.

Lemma process_inv : forall frags ack ws closed buf fin out,
  Forall valid_frag frags -> ack = ws -> 1 <= ws -> ws <= nchunks chunks + 2 ->
  out ++ buf = List.concat (firstn (N.to_nat (ws - 1)) chunks) ->
  closed = (nchunks chunks + 1 <? ws) ->
  Inv (fst (process_frags frags ack ws closed buf fin)) out /\
  ws <= r_ws (fst (process_frags frags ack ws closed buf fin)).
Proof.
  induction frags as [|f rest IH]; intros ack ws closed buf fin out Hv Ha Hlo Hhi Hb Hc.
  - simpl. split; [constructor; simpl; auto|lia].
  - inversion Hv as [|? ? Hf Hr]; subst. simpl.
    destruct (ws =? fr_prio f) eqn:E; simpl.
    + apply N.eqb_eq in E.
      assert (W: u64 (ws + 1) = ws + 1) by (unfold u64, two32, two64 in *; apply N.mod_small; lia).
      rewrite W.
      assert (Hle: ws <= nchunks chunks + 1) by (destruct Hf as [Hf|Hf]; lia).
      edestruct (IH (ws + 1) (ws + 1) ((nchunks chunks + 1 <? ws) || fr_fin f) (buf ++ fr_data f) (fin || fr_fin f) out) as [I1 I2]; auto; try lia.
      * rewrite app_assoc, Hb. destruct Hf as [(F1 & F2 & F3 & F4)|(F1 & F2 & F3)].
        -- rewrite F3, <- E. symmetry. apply concat_firstn_step; lia.
        -- rewrite F2, app_nil_r. unfold nchunks in *. rewrite !concat_firstn_all by lia. reflexivity.
      * destruct Hf as [(F1 & F2 & F3 & F4)|(F1 & F2 & F3)].
        -- rewrite F4. destruct (_ <? ws) eqn:A; destruct (_ <? ws + 1) eqn:B; simpl; try reflexivity; lia.
        -- rewrite F3. destruct (_ <? ws) eqn:A; destruct (_ <? ws + 1) eqn:B; simpl; try reflexivity; lia.
      * split; auto. lia.
    + destruct (ws <? fr_prio f) eqn:E2; simpl.
      * split; [|lia]. constructor; simpl; auto. apply pq_push_forall; auto.
      * apply IH; auto.
Qed.

Lemma frame_in_bounds_spec : forall ws f, ws + 1000 < two64 ->
  frame_in_bounds ws (u64 (ws + max_window_size)) f = (ws <=? f) && (f <=? ws + 1000).
Proof. intros. unfold frame_in_bounds, u64, max_window_size. rewrite N.mod_small by auto.
  destruct (ws <? ws + 1000) eqn:A; [|lia].
  destruct (ws + 1000 <? f) eqn:B; destruct (f <? ws) eqn:C; destruct (ws <=? f) eqn:D; destruct (f <=? ws + 1000) eqn:F; simpl; try reflexivity; lia. Qed.

Definition arrival_ok (r : recv) (a : arrival) : Prop := arrival_wf chunks (r_ack r) a.

Lemma frag_of_arrival_valid : forall r a, Inv r [] \/ True -> arrival_ok r a -> r_ack r + two32 < two64 ->
  (f_fin (frame_of chunks a) = true \/ ((0 <? len (f_data (frame_of chunks a))) && negb (f_ack (frame_of chunks a))) = true) ->
  valid_frag {| fr_prio := unwrap_frame_no (r_ack r) (f_no (frame_of chunks a));
                fr_data := f_data (frame_of chunks a); fr_fin := f_fin (frame_of chunks a) |}.
Proof.
  intros r a _ Hok Hb Hc. unfold arrival_ok in Hok.
  destruct a as [i| |f|f d]; cbn [frame_of f_no f_data f_fin f_ack arrival_wf] in *.
  - destruct Hok as (H1 & H2 & H3). rewrite unwrap_correct by auto. left. cbn. auto.
  - rewrite unwrap_correct by auto. right. cbn. auto.
  - destruct Hc as [Hc|Hc]; discriminate.
  - destruct Hc as [Hc|Hc]; try discriminate. rewrite andb_false_r in Hc. discriminate.
Qed.

Lemma receive_inv : forall r a out, Inv r out -> arrival_ok r a ->
  Inv (fst (fst (receive r (frame_of chunks a)))) out /\
  r_ws r <= r_ws (fst (fst (receive r (frame_of chunks a)))).
Proof.
  intros r a out I Hok. unfold receive.
  destruct (r_closed r) eqn:C; simpl; [split; auto; lia|].
  destruct I as [I1 I2 I3 I4 I5 I6].
  assert (Hb: r_ack r + two32 < two64) by (unfold two32, two64 in *; lia).
  match goal with |- context [if ?c then _ else _] => destruct c eqn:E end.
  - apply andb_true_iff in E. destruct E as [E1 E2]. unfold process_into_buffer. simpl.
    destruct (process_frags _ _ _ _ _ _) as [r2 fin] eqn:P. simpl.
    pose proof (process_inv (pq_push {| fr_prio := unwrap_frame_no (r_ack r) (f_no (frame_of chunks a)); fr_data := f_data (frame_of chunks a); fr_fin := f_fin (frame_of chunks a) |} (r_frags r)) (r_ack r) (r_ws r) false (r_buf r) false out) as L.
    rewrite P in L. simpl in L. apply L; auto.
    + apply pq_push_forall; auto. apply frag_of_arrival_valid; auto.
      apply orb_true_iff in E1. destruct E1; auto.
    + rewrite <- C. auto.
  - match goal with |- context [if ?c then _ else _] => destruct c eqn:E' end; simpl.
    + split; [constructor; auto|lia].
    + unfold process_into_buffer. destruct (process_frags _ _ _ _ _ _) as [r2 fin] eqn:P. simpl.
      pose proof (process_inv (r_frags r) (r_ack r) (r_ws r) (r_closed r) (r_buf r) false out) as L.
      rewrite P in L. simpl in L. apply L; auto.
Qed.

Lemma read_inv : forall r k out r' o e, Inv r out -> read r k = Some (r', o, e) ->
  Inv r' (out ++ o) /\ r_ws r' = r_ws r /\ r_frags r' = r_frags r /\
  (e = true -> r_closed r' = true /\ r_buf r' = []).
Proof.
  intros r k out r' o e I H. unfold read in H.
  destruct (_ && _); [discriminate|]. inversion H; subst; clear H.
  destruct I as [I1 I2 I3 I4 I5 I6]. split; [|split; [reflexivity|split; [reflexivity|]]].
  - constructor; simpl; auto. unfold consumed in *. simpl. rewrite <- I5, <- app_assoc.
    unfold take, drop. rewrite firstn_skipn. reflexivity.
  - simpl. intros E. apply andb_true_iff in E. destruct E as [E1 E2]. split; auto.
    unfold len in E2. apply N.eqb_eq in E2. destruct (drop k (r_buf r)); auto. simpl in E2. lia.
Qed.

Lemma inv_init : Inv recv_init [].
Proof. constructor; simpl; auto; try lia. Qed.

(* the general statement about histories *)
Lemma deliver_inv : forall evs r out eof,
  Inv r out -> (eof = true -> r_closed r = true /\ r_buf r = []) ->
  history_ok r chunks evs ->
  let '(r', out', eof') := deliver r chunks evs out eof in
  Inv r' out' /\ (eof' = true -> r_closed r' = true /\ r_buf r' = []) /\ r_ws r <= r_ws r'.
Proof.
  induction evs as [|ev rest IH]; intros r out eof I E H; simpl.
  - split; auto. split; auto. lia.
  - destruct ev as [a|k]; simpl in H.
    + destruct H as [H1 H2].
      pose proof (receive_inv r a out I H1) as [J1 J2].
      destruct (receive r (frame_of chunks a)) as [[r1 f1] e1] eqn:R. simpl in *.
      specialize (IH r1 out eof J1).
      assert (E': eof = true -> r_closed r1 = true /\ r_buf r1 = []).
      { intros He. destruct (E He) as [C B]. unfold receive in R. rewrite C in R. inversion R; subst. auto. }
      specialize (IH E' H2). destruct (deliver r1 chunks rest out eof) as [[r' out'] eof'].
      destruct IH as (A & B & C). split; auto. split; auto. lia.
    + destruct (read r k) as [[[r1 o] e]|] eqn:R.
      * pose proof (read_inv _ _ _ _ _ _ I R) as (J1 & J2 & J3 & J4).
        specialize (IH r1 (out ++ o) (eof || e) J1).
        assert (E': eof || e = true -> r_closed r1 = true /\ r_buf r1 = []).
        { intros He. apply orb_true_iff in He. destruct He as [He|He]; auto.
          destruct (E He) as [C B]. unfold read in R. rewrite C, B in R. simpl in R.
          inversion R; subst. simpl. split; auto. unfold drop. destruct (N.to_nat k); reflexivity. }
        specialize (IH E' H). destruct (deliver r1 chunks rest (out ++ o) (eof || e)) as [[r' out'] eof'].
        destruct IH as (A & B & C). split; auto. split; auto. lia.
      * apply IH; auto.
Qed.

(* closed (FIN consumed) means every frame was consumed *)
Lemma inv_closed_all : forall r out, Inv r out -> r_closed r = true -> consumed r = S (List.length chunks).
Proof. intros r out [I1 I2 I3 I4 I5 I6] C. rewrite C in I6. symmetry in I6. apply N.ltb_lt in I6.
  unfold consumed, nchunks in *. lia. Qed.

Theorem reassembly_prefix : forall evs,
  history_ok recv_init chunks evs ->
  let '(r, out, eof) := deliver recv_init chunks evs [] false in
  out ++ r_buf r = List.concat (firstn (consumed r) chunks) /\
  (consumed r <= S (List.length chunks))%nat /\
  (eof = true -> out = List.concat chunks /\ consumed r = S (List.length chunks)).
Proof.
  intros evs H. assert (F: false = true -> r_closed recv_init = true /\ r_buf recv_init = []) by (intros; discriminate).
  pose proof (deliver_inv evs recv_init [] false inv_init F H) as L.
  destruct (deliver recv_init chunks evs [] false) as [[r out] eof].
  destruct L as (I & E & _).
  split. apply (inv_buf _ _ I). split.
  - pose proof (inv_ws_hi _ _ I). unfold consumed, nchunks in *. lia.
  - intros He. destruct (E He) as [C B]. pose proof (inv_closed_all _ _ I C) as K. split; auto.
    pose proof (inv_buf _ _ I) as Hb. rewrite B, app_nil_r, K in Hb. rewrite Hb.
    apply concat_firstn_all. lia.
Qed.

(* ------------------------------------------------------------------ completeness *)
Hypothesis chunks_nonempty : Forall (fun c => c <> []) chunks.

Definition have (r : recv) (i : N) : Prop := i < r_ws r \/ exists fr, In fr (r_frags r) /\ fr_prio fr = i.
Definition settled (r : recv) : Prop := sorted (r_frags r) /\ Forall (fun fr => r_ws r < fr_prio fr) (r_frags r).

Lemma process_settled : forall frags ack ws closed buf fin,
  sorted frags ->
  forall bound, ws <= bound + 1 -> Forall (fun fr => fr_prio fr <= bound) frags -> bound + 2 < two64 ->
  let r' := fst (process_frags frags ack ws closed buf fin) in
  settled r' /\ ws <= r_ws r' /\
  (forall i, (i < ws \/ exists fr, In fr frags /\ fr_prio fr = i) -> have r' i).
Proof.
  induction frags as [|f rest IH]; intros ack ws closed buf fin Hs bound Hw Hbd Hb; simpl.
  - split; [split; simpl; auto|]. split; [lia|]. intros i [Hi|[fr [[] _]]]. left; auto.
  - destruct Hs as [S1 S2]. inversion Hbd as [|? ? B1 B2]; subst.
    destruct (ws =? fr_prio f) eqn:E; simpl.
    + apply N.eqb_eq in E.
      assert (W: u64 (ws + 1) = ws + 1) by (unfold u64; apply N.mod_small; lia). rewrite W.
      edestruct (IH (u64 (ack + 1)) (ws + 1) (closed || fr_fin f) (buf ++ fr_data f) (fin || fr_fin f)) as (A & B & C); eauto; try lia.
      split; auto. split; [lia|]. intros i [Hi|[fr [[->|Hin] Hp]]]; apply C.
      * left; lia. * left; lia. * right; eauto.
    + apply N.eqb_neq in E. destruct (ws <? fr_prio f) eqn:E2; simpl.
      * rewrite pq_push_head by auto. split; [split; simpl; auto|].
        -- constructor. lia. eapply Forall_impl; [|exact S1]. simpl; intros; lia.
        -- split; [lia|]. intros i [Hi|[fr [Hin Hp]]]; [left; auto|right; exists fr; simpl; auto].
      * edestruct (IH ack ws closed buf fin) as (A & B & C); eauto.
        split; auto. split; auto. intros i [Hi|[fr [[->|Hin] Hp]]]; apply C.
        -- left; auto. -- left; lia. -- right; eauto.
Qed.

(* a slightly stronger invariant for completeness: sorted fragments bounded by n+1 *)
Definition Inv2 (r : recv) : Prop := settled r.

Lemma valid_frag_bound : forall fr, valid_frag fr -> fr_prio fr <= nchunks chunks + 1.
Proof. intros fr [H|H]; lia. Qed.

Lemma arrival_unwrap : forall r a i, arrival_ok r a -> arrival_index chunks a = Some i ->
  r_ack r + two32 < two64 ->
  unwrap_frame_no (r_ack r) (f_no (frame_of chunks a)) = i /\ 1 <= i /\ i <= nchunks chunks + 1.
Proof.
  intros r a i Hok Hi Hb. unfold arrival_ok in Hok.
  destruct a as [j| |f|f d]; cbn [frame_of f_no arrival_wf arrival_index] in *; inversion Hi; subst.
  - destruct Hok as (H1 & H2 & H3). rewrite unwrap_correct by auto. lia.
  - rewrite unwrap_correct by auto. lia.
Qed.

Lemma arrival_pushable : forall r a i, arrival_ok r a -> arrival_index chunks a = Some i ->
  ((0 <? len (f_data (frame_of chunks a))) && negb (f_ack (frame_of chunks a)) || f_fin (frame_of chunks a)) = true.
Proof.
  intros r a i Hok Hi. unfold arrival_ok in Hok.
  destruct a as [j| |f|f d]; cbn [frame_of f_data f_ack f_fin arrival_wf arrival_index] in *; inversion Hi; subst.
  - destruct Hok as (H1 & H2 & H3).
    assert (nth_chunk chunks i <> []).
    { unfold nth_chunk. rewrite Forall_forall in chunks_nonempty. apply chunks_nonempty. apply nth_In.
      unfold nchunks in *. lia. }
    destruct (nth_chunk chunks i); [congruence|]. reflexivity.
  - apply orb_true_r.
Qed.

Lemma receive_settled : forall r a out, Inv r out -> settled r -> arrival_ok r a ->
  let r' := fst (fst (receive r (frame_of chunks a))) in
  settled r' /\ (forall i, have r i -> have r' i) /\
  (forall i, arrival_index chunks a = Some i -> i <= r_ws r + 1000 -> have r' i).
Proof.
  intros r a out I S Hok. cbv zeta.
  unfold receive. destruct (r_closed r) eqn:C; cbn [fst].
  - split; auto. split; auto. intros i Hi Hw. left.
    pose proof (inv_closed _ _ I) as K. rewrite C in K. symmetry in K. apply N.ltb_lt in K.
    assert (Hb: r_ack r + two32 < two64) by (rewrite (inv_ack _ _ I); pose proof (inv_ws_hi _ _ I); unfold two32, two64 in *; lia).
    destruct (arrival_unwrap r a i Hok Hi Hb) as (_ & _ & ?). lia.
  - destruct I as [I1 I2 I3 I4 I5 I6].
    assert (Hb: r_ack r + two32 < two64) by (unfold two32, two64 in *; lia).
    assert (Hbnd: Forall (fun fr => fr_prio fr <= nchunks chunks + 1) (r_frags r)).
    { eapply Forall_impl; [|exact I4]. apply valid_frag_bound. }
    rewrite frame_in_bounds_spec by (unfold two32, two64 in *; lia).
    match goal with |- context [if ?c then _ else _] => destruct c eqn:E end.
    + apply andb_true_iff in E. destruct E as [E1 E2]. unfold process_into_buffer. cbn [r_frags r_ack r_ws r_closed r_buf].
      set (fr0 := {| fr_prio := unwrap_frame_no (r_ack r) (f_no (frame_of chunks a)); fr_data := f_data (frame_of chunks a); fr_fin := f_fin (frame_of chunks a) |}).
      assert (V: valid_frag fr0).
      { apply frag_of_arrival_valid; auto. apply orb_true_iff in E1. destruct E1; auto. }
      pose proof (process_settled (pq_push fr0 (r_frags r)) (r_ack r) (r_ws r) false (r_buf r) false) as L.
      destruct (process_frags _ _ _ _ _ _) as [r2 fin] eqn:P. cbn [fst] in *.
      destruct (L (pq_push_sorted _ _ (proj1 S)) (nchunks chunks + 1)) as (A & B & D).
      * lia.
      * apply pq_push_forall. apply (valid_frag_bound _ V). exact Hbnd.
      * unfold two32, two64 in *; lia.
      * split; auto. split.
        -- unfold have at 1. intros i [Hi|[fr [Hin Hp]]]; apply D; [left; auto|right]. exists fr. split; auto. apply pq_push_in; auto.
        -- intros i Hi Hw. apply D. right. exists fr0. split. apply pq_push_in; auto.
           unfold fr0; cbn [fr_prio]. apply (arrival_unwrap r a i Hok Hi Hb).
    + match goal with |- context [if ?c then _ else _] => destruct c eqn:E' end; cbn [fst].
      * split; auto. split; auto. intros i Hi Hw.
        destruct (arrival_unwrap r a i Hok Hi Hb) as (U & _ & _).
        rewrite U in E. cbn [orb andb] in E. apply andb_false_iff in E. left. destruct E as [E|E]; lia.
      * unfold process_into_buffer.
        pose proof (process_settled (r_frags r) (r_ack r) (r_ws r) (r_closed r) (r_buf r) false) as L.
        destruct (process_frags _ _ _ _ _ _) as [r2 fin] eqn:P. cbn [fst] in *.
        destruct (L (proj1 S) (nchunks chunks + 1)) as (A & B & D). lia. exact Hbnd. unfold two32, two64 in *; lia.
        split; auto. split.
        -- unfold have at 1. intros i [Hi|[fr [Hin Hp]]]; apply D; [left; auto|right; eauto].
        -- intros i Hi Hw.
           destruct (arrival_unwrap r a i Hok Hi Hb) as (U & _ & _).
           pose proof (arrival_pushable r a i Hok Hi) as Pu. rewrite E' in Pu. cbn [orb] in Pu, E. rewrite Pu, U in E. cbn [andb] in E.
           apply andb_false_iff in E. apply D. left. destruct E as [E|E]; lia.
Qed.

Lemma deliver_complete : forall evs r out eof, Inv r out -> settled r -> history_ok r chunks evs ->
  let r' := fst (fst (deliver r chunks evs out eof)) in
  settled r' /\ (forall i, have r i -> have r' i) /\ (forall i, arrives_in_window r chunks evs i -> have r' i).
Proof.
  induction evs as [|ev rest IH]; intros r out eof I S H; cbn [deliver arrives_in_window].
  - cbn. split; auto. split; auto. intros i [].
  - destruct ev as [a|k]; cbn [history_ok] in H.
    + destruct H as [H1 H2].
      pose proof (receive_inv r a out I H1) as [J1 _].
      pose proof (receive_settled r a out I S H1) as (K1 & K2 & K3).
      destruct (receive r (frame_of chunks a)) as [[r1 f1] e1] eqn:R. cbn [fst] in *.
      destruct (IH r1 out eof J1 K1 H2) as (A & B & C). split; auto. split; auto.
      intros i [[Hi Hw]|Hi]; auto.
    + destruct (read r k) as [[[r1 o] e]|] eqn:R.
      * pose proof (read_inv _ _ _ _ _ _ I R) as (J1 & J2 & J3 & J4).
        assert (S1: settled r1) by (unfold settled in *; rewrite J2, J3; auto).
        destruct (IH r1 (out ++ o) (eof || e) J1 S1 H) as (A & B & C). split; auto. split; auto.
        intros i Hi. apply B. unfold have in *. rewrite J2, J3. auto.
      * apply IH; auto.
Qed.

Theorem complete_if_delivered : forall evs,
  history_ok recv_init chunks evs ->
  (forall i, 1 <= i -> i <= nchunks chunks + 1 -> arrives_in_window recv_init chunks evs i) ->
  let '(r, out, eof) := deliver recv_init chunks evs [] false in
  consumed r = S (List.length chunks) /\ r_closed r = true /\ out ++ r_buf r = List.concat chunks /\
  (forall m, len (r_buf r) <= m -> exists r', read r m = Some (r', r_buf r, true)).
Proof.
  intros evs H Hall.
  assert (F: false = true -> r_closed recv_init = true /\ r_buf recv_init = []) by (intros; discriminate).
  pose proof (deliver_inv evs recv_init [] false inv_init F H) as L.
  assert (S0: settled recv_init) by (split; cbn; auto).
  pose proof (deliver_complete evs recv_init [] false inv_init S0 H) as (A & B & C).
  destruct (deliver recv_init chunks evs [] false) as [[r out] eof]. cbn [fst] in *.
  destruct L as (I & E & _).
  assert (W: r_ws r = nchunks chunks + 2).
  { pose proof (inv_ws_hi _ _ I). pose proof (inv_ws_lo _ _ I).
    destruct (N.eq_dec (r_ws r) (nchunks chunks + 2)); auto. exfalso.
    assert (Hh: have r (r_ws r)) by (apply C, Hall; lia).
    destruct Hh as [Hh|[fr [Hin Hp]]]. lia.
    destruct A as [_ A]. rewrite Forall_forall in A. specialize (A fr Hin). lia. }
  assert (Cl: r_closed r = true).
  { rewrite (inv_closed _ _ I), W. apply N.ltb_lt. lia. }
  assert (K: consumed r = S (List.length chunks)) by (unfold consumed, nchunks in *; lia).
  split; auto. split; auto. split.
  - rewrite (inv_buf _ _ I), K. apply concat_firstn_all. lia.
  - intros m Hm. unfold read. rewrite Cl, andb_false_r. eexists.
    unfold take, drop, len in *. rewrite firstn_all2, skipn_all2 by lia. cbn. reflexivity.
Qed.
End Stream.
