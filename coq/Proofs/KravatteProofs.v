(* KravatteProofs.v — (1) the incremental SANSE instance that is executed (deck state updated in place,
   as the Go code does by copying its Kravatte struct) computes the same thing as Deck-SANSE over the
   list-of-strings deck function, so the theorems stated for F on histories apply to it;
   (2) the Go mask derivation agrees with the specification's p(K||1||0..0) (checked for every key
   length 1..199 on the Gallina transcription of the fixed code) and the code before the fix did not. *)
From Hop Require Import Base Keccak Kravatte Sanse SanseProofs.
From Coq Require Import ZifyN ZifyNat ZifyBool.
Open Scope N_scope.

Section Simulation.
Variable D : Type.
Variable dk_absorb : D -> bitstr -> D.
Variable dk_out : D -> nat -> bytes.
Variable d0 : D.

Definition replay (h : list bitstr) : D := fold_right (fun m s => dk_absorb s m) d0 h.
Definition F_of : list bitstr -> nat -> bytes := fun h n => dk_out (replay h) n.
Definition lift (s : sanse (list bitstr)) : sanse D := mksn (replay (sn_d s)) (sn_e s).
Definition consh (h : list bitstr) (m : bitstr) := m :: h.

Lemma wrap_simulation : forall s a p,
  sn_wrap D dk_absorb dk_out (lift s) a p =
  let '(c, t, s') := sn_wrap (list bitstr) consh F_of s a p in (c, t, lift s').
Proof.
  intros [h e] a p. unfold sn_wrap, sn_ad_step, lift, F_of, consh. cbn [sn_d sn_e].
  destruct (is_nil p); destruct (negb (is_nil a) || _); reflexivity.
Qed.

Lemma unwrap_simulation : forall s a c t,
  sn_unwrap D dk_absorb dk_out (lift s) a c t =
  let '(r, s') := sn_unwrap (list bitstr) consh F_of s a c t in (r, lift s').
Proof.
  intros [h e] a c t. unfold sn_unwrap, sn_ad_step, lift, F_of, consh. cbn [sn_d sn_e].
  destruct (is_nil c); destruct (negb (is_nil a) || _); reflexivity.
Qed.

Lemma seal_simulation : forall s a p,
  sn_seal D dk_absorb dk_out (lift s) a p =
  let '(ct, s') := sn_seal (list bitstr) consh F_of s a p in (ct, lift s').
Proof.
  intros. unfold sn_seal. rewrite wrap_simulation.
  destruct (sn_wrap (list bitstr) consh F_of s a p) as [[c t] s']. reflexivity.
Qed.

Lemma open_simulation : forall s a ct,
  sn_open D dk_absorb dk_out (lift s) a ct =
  let '(r, s') := sn_open (list bitstr) consh F_of s a ct in (r, lift s').
Proof.
  intros. unfold sn_open. destruct (List.length ct <? sn_tag_len)%nat; [reflexivity|].
  apply unwrap_simulation.
Qed.
End Simulation.

(* the Kravatte deck function as the Go code keys it *)
Definition kravatte6_go (k : lanes) : list bitstr -> nat -> bytes :=
  F_of kv_state kv6_absorb kv6_out (mkkv k k zero_lanes).

(* with the specification's mask this is literally kravatte_F *)
Lemma kravatte6_is_F : forall key h n,
  kravatte6_go (kv_k (kv6_init key)) h n = kravatte_F keccak6 key h n.
Proof. reflexivity. Qed.

(* ---- mask derivation of the Go code vs the specification ---- *)
Definition test_key (l : nat) : bytes := map (fun i => N.of_nat ((i * 37 + l + 1) mod 256)) (seq 0 l).
Definition res_lanes_eqb (r : res lanes) (k : lanes) : bool :=
  match r with Ok a => beq_bytes a k | _ => false end.

Example go_mask_init_matches_spec_all_lengths :
  forallb (fun l => res_lanes_eqb (go_mask_init (test_key l)) (kv_k (kv6_init (test_key l)))) (seq 1 199) = true.
Proof. vm_compute. reflexivity. Qed.

(* before the fix: conformant exactly for the key lengths that are multiples of 8 *)
Example go_mask_init_orig_matches_spec_iff_len_mod_8 :
  forallb (fun l => Bool.eqb (res_lanes_eqb (go_mask_init_orig (test_key l)) (kv_k (kv6_init (test_key l))))
                             ((l mod 8) =? 0)%nat) (seq 1 199) = true.
Proof. vm_compute. reflexivity. Qed.

Definition k17a : bytes := map N.of_nat (seq 0 17).
Definition k17b : bytes := map N.of_nat (seq 0 16) ++ [255].
Lemma go_mask_init_orig_not_injective :
  exists k1 k2, List.length k1 = 17%nat /\ List.length k2 = 17%nat /\ k1 <> k2 /\
                go_mask_init_orig k1 = go_mask_init_orig k2.
Proof.
  exists k17a, k17b. split; [reflexivity|]. split; [reflexivity|]. split; [discriminate|].
  vm_compute. reflexivity.
Qed.
Example go_mask_init_fixed_separates_them : go_mask_init k17a <> go_mask_init k17b.
Proof. vm_compute. discriminate. Qed.

(* ------------------------------------------------------------------ every key byte reaches the mask *)
(* lanes_of_bytes is injective on well-formed 200-byte strings (bytes_of_lanes is a left inverse) *)
Lemma land_lor_low : forall b x, b < 256 -> N.land (N.lor b (N.shiftl x 8)) 255 = b.
Proof.
  intros b x H. change 255 with (N.ones 8).
  rewrite N.land_lor_distr_l, !N.land_ones, N.shiftl_mul_pow2, N.mod_mul by discriminate.
  rewrite N.mod_small by exact H. apply N.lor_0_r.
Qed.
Lemma shiftr_lor_high : forall b x, b < 256 -> N.shiftr (N.lor b (N.shiftl x 8)) 8 = x.
Proof.
  intros b x H.
  rewrite N.shiftr_lor, N.shiftr_shiftl_r by reflexivity.
  rewrite N.sub_diag, N.shiftr_0_r, N.shiftr_div_pow2, N.div_small by exact H. apply N.lor_0_l.
Qed.

Lemma bytes_of_lane_of_8 : forall b0 b1 b2 b3 b4 b5 b6 b7 rest,
  b0 < 256 -> b1 < 256 -> b2 < 256 -> b3 < 256 -> b4 < 256 -> b5 < 256 -> b6 < 256 -> b7 < 256 ->
  bytes_of_lane (lane_of_8 (b0 :: b1 :: b2 :: b3 :: b4 :: b5 :: b6 :: b7 :: rest)) =
  [b0; b1; b2; b3; b4; b5; b6; b7].
Proof.
  intros. unfold bytes_of_lane, lane_of_8. cbn [firstn fold_right]. cbv zeta.
  rewrite !shiftr_lor_high, !land_lor_low by assumption. reflexivity.
Qed.

Lemma wf_cons : forall x l, wf_bytes (x :: l) = true -> x < 256 /\ wf_bytes l = true.
Proof.
  intros x l H. unfold wf_bytes in *. cbn [forallb] in H. apply andb_true_iff in H as [H1 H2].
  unfold wf_byte in H1. apply N.ltb_lt in H1. auto.
Qed.

Lemma lanes_bytes_roundtrip : forall n b,
  List.length b = (8 * n)%nat -> wf_bytes b = true ->
  bytes_of_lanes (lanes_of_bytes_n n b) = b.
Proof.
  induction n as [|n IH]; intros b L W.
  - destruct b; [reflexivity|discriminate].
  - do 8 (destruct b as [|? b]; [cbn in L; lia|]).
    repeat match goal with H : wf_bytes (_ :: _) = true |- _ => apply wf_cons in H as [? ?] end.
    cbn [lanes_of_bytes_n skipn]. unfold bytes_of_lanes. cbn [flat_map].
    rewrite bytes_of_lane_of_8 by assumption.
    fold (bytes_of_lanes (lanes_of_bytes_n n b)). rewrite IH; [reflexivity| cbn in L; lia | assumption].
Qed.

Lemma lanes_of_bytes_injective : forall b1 b2,
  List.length b1 = 200%nat -> List.length b2 = 200%nat -> wf_bytes b1 = true -> wf_bytes b2 = true ->
  lanes_of_bytes b1 = lanes_of_bytes b2 -> b1 = b2.
Proof.
  intros b1 b2 L1 L2 W1 W2 H.
  rewrite <- (lanes_bytes_roundtrip 25 b1), <- (lanes_bytes_roundtrip 25 b2) by assumption.
  unfold lanes_of_bytes in H. rewrite H. reflexivity.
Qed.

Lemma pad_key_wf : forall k, wf_bytes k = true -> wf_bytes (kv_pad_key k) = true.
Proof.
  intros k W. unfold kv_pad_key, wf_bytes in *. rewrite !forallb_app, W. cbn [forallb].
  assert (R : forall n, forallb wf_byte (repeat 0 n) = true) by (induction n; [reflexivity|exact IHn]).
  rewrite R. reflexivity.
Qed.

(* if the permutation is injective, two different keys never give the same mask: every byte (every
   bit) of the key influences k, for every key length below 200 *)
Lemma mask_injective : forall (p : lanes -> lanes),
  (forall a b, p a = p b -> a = b) ->
  forall k1 k2, (List.length k1 < kv_width)%nat -> (List.length k2 < kv_width)%nat ->
                wf_bytes k1 = true -> wf_bytes k2 = true ->
                kv_k (kv_init p k1) = kv_k (kv_init p k2) -> k1 = k2.
Proof.
  intros p Pinj k1 k2 L1 L2 W1 W2 H. unfold kv_init in H. cbn [kv_k] in H.
  apply Pinj in H. apply lanes_of_bytes_injective in H.
  - apply pad_key_injective; assumption.
  - apply pad_key_length, L1.
  - apply pad_key_length, L2.
  - apply pad_key_wf, W1.
  - apply pad_key_wf, W2.
Qed.

Lemma executed_instance_is_deck_sanse : forall k s a ct,
  sanse6_open (lift kv_state kv6_absorb (mkkv k k zero_lanes) s) a ct =
  let '(r, s') := sn_open (list bitstr) (fun h m => m :: h) (kravatte6_go k) s a ct in
  (r, lift kv_state kv6_absorb (mkkv k k zero_lanes) s').
Proof. intros k s a ct. exact (open_simulation kv_state kv6_absorb kv6_out (mkkv k k zero_lanes) s a ct). Qed.
