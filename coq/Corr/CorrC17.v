(* Correspondence entry points for C17 (deadline queue part).

   c17s_ok — controlled runs: the driver parks every goroutine at the verifYield points of
     common/sync.go and grants one atomic action at a time; the case carries the granted
     schedule (thread, yield point, select choice) and what the calls returned.  The checker
     replays the *same* schedule on the model (cfg fixed): at every grant the model thread must be
     at the same program point, the step must be enabled, and at the end the results, the set of
     blocked threads and "nothing else can move" must agree.

   c17f_ok — free runs (Go scheduler, race detector): only the call/return history is known.
     The checker searches the model's interleavings (memoised DFS driven by [step]) for one that
     respects the observed real-time order, returns the observed results, and ends in a state
     where nothing can move with exactly the observed calls still blocked. *)
From Hop Require Import Base DChan.
From Hop Require Export CorrC17Read.
Open Scope N_scope.

(* short constructor aliases for the generated files *)
Definition Rv := ORecv.
Definition Sd (v : N) := OSend v.
Definition Cl := OClose.
Definition Dz := OSetDl DZero.
Definition Dp := OSetDl DPast.
Definition Ds := OSetDl DSoon.
Definition Dl := OSetDl DLate.
Definition Cn (e : N) := OCancel e.
Definition It (v : N) := RItem v.
Definition Er (e : N) := RErr e.

Definition ret_eqb (a b : ret) : bool :=
  match a, b with
  | RItem x, RItem y => x =? y
  | RErr x, RErr y => x =? y
  | _, _ => false
  end.

(* ------------------------------------------------------------------ controlled runs *)
(* yield point of the next atomic action of a thread (numbers = table in harness/cmd/c17) *)
Definition point_of (t : thread) : N :=
  match tpc t with
  | Idle => match prog t with
            | [] => 0
            | ORecv :: _ => 1 | OSend _ :: _ => 10 | OClose :: _ => 20 | OSetDl _ :: _ => 30 | OCancel _ :: _ => 40
            end
  | R_closed => 2 | R_done => 3 | R_pollerr _ => 4 | R_select _ => 5 | R_err => 6 | R_repoll _ => 7
  | R_barrier => 8
  | S_closed _ => 11 | S_done _ => 12 | S_pollerr _ _ => 13 | S_select _ _ => 14 | S_err => 15
  | C_closed => 21 | C_store => 22 | C_cancel => 23
  | C2_cancel => 23 | C2_wait => 24          (* fixed Close: dc.close.cas = 20 (Idle), dc.close.cancel, dc.close.wait *)
  | D_set _ => 31 | D_recheck => 32 | D_recancel => 33
  | K_cancel _ => 41
  end.

(* one recorded step: thread, yield point it was at, select choice, woken?  A step is `woken` when
   it completed as a consequence of another thread's granted step (a blocked select or Lock that
   became ready); the driver cannot observe the relative order of several such steps, so a run of
   consecutive woken steps is replayed in any order in which each is enabled. *)
Definition sev := (N * N * bool * bool)%type.
(* compact form used in the generated files: ((thread * 64 + point) * 2 + choice) * 2 + woken *)
Definition dec_ev (n : N) : sev :=
  let w := N.odd n in let n1 := n / 2 in
  let ch := N.odd n1 in let n2 := n1 / 2 in
  (n2 / 64, n2 mod 64, ch, w).

Definition try_ev (x : st) (e : sev) : option st :=
  let '(iN, pt, ch, _) := e in
  let i := N.to_nat iN in
  match nth_error (ths x) i with
  | None => None
  | Some t => if point_of t =? pt then step fixed x (Th i ch) else None
  end.

(* pick the first of the pending woken steps that is enabled *)
Fixpoint pick (x : st) (w acc : list sev) : option (st * list sev) :=
  match w with
  | [] => None
  | e :: r => match try_ev x e with
              | Some x' => Some (x', rev_append acc r)
              | None => pick x r (e :: acc)
              end
  end.
Fixpoint resolve (fuel : nat) (x : st) (w : list sev) : option st :=
  match w with
  | [] => Some x
  | _ => match fuel with
         | O => None
         | S f => match pick x w [] with Some (x', w') => resolve f x' w' | None => None end
         end
  end.

Fixpoint replay (x : st) (ev : list sev) (w : list sev) : option st :=
  match ev with
  | [] => resolve (S (length w)) x w
  | e :: r =>
    let '(_, _, _, woken) := e in
    if woken then replay x r (w ++ [e])
    else match resolve (S (length w)) x w with
         | None => None
         | Some x1 => match try_ev x1 e with Some x2 => replay x2 r [] | None => None end
         end
  end.

Definition thread_end_ok (x : st) (i : nat) (t : thread) (obs : list ret) (blocked : bool) : bool :=
  beq_list ret_eqb (map snd (rets t)) obs &&
  (if unfinished t then blocked && negb (enabled fixed x (Th i false)) && negb (enabled fixed x (Th i true))
   else negb blocked).

Fixpoint ends_ok (x : st) (i : nat) (l : list thread) (obs : list (list ret)) (bl : list bool) : bool :=
  match l, obs, bl with
  | [], [], [] => true
  | t :: l', o :: obs', b :: bl' => thread_end_ok x i t o b && ends_ok x (S i) l' obs' bl'
  | _, _, _ => false
  end.

(* (capacity, programs, granted schedule, results per thread, blocked-at-the-end per thread) *)
Definition c17s_case := (N * list (list op) * list N * list (list ret) * list bool)%type.
Definition c17s_ok (c : c17s_case) : bool :=
  let '(cp, progs, ev, obs, bl) := c in
  match replay (init (N.to_nat cp) progs) (map dec_ev ev) [] with
  | None => false
  | Some x => ends_ok x 0 (ths x) obs bl
  end.

(* ------------------------------------------------------------------ free runs *)
(* one observed call: the operation, what it returned (None = never returned), for every thread
   the number of its calls that had returned before this one was issued, and the return stamp *)
Definition ocall := (op * option ret * list N * N)%type.

Definition pc_code (p : pc) : list N :=
  match p with
  | Idle => [0]
  | R_closed => [1] | R_done => [2] | R_pollerr g => [3; N.of_nat g] | R_select g => [4; N.of_nat g]
  | R_err => [5] | R_repoll e => [6; e]
  | S_closed v => [7; v] | S_done v => [8; v] | S_pollerr v g => [9; v; N.of_nat g]
  | S_select v g => [10; v; N.of_nat g] | S_err => [11]
  | C_closed => [12] | C_store => [13] | C_cancel => [14]
  | R_barrier => [19] | C2_cancel => [20] | C2_wait => [21]
  | D_set k => [15; match k with DZero => 0 | DPast => 1 | DSoon => 2 | DLate => 3 end]
  | D_recheck => [16] | D_recancel => [17]
  | K_cancel e => [18; e]
  end.

Definition bN (b : bool) : N := if b then 1 else 0.
Definition key (x : st) : list N :=
  let s := shd x in
  (N.of_nat (length (buf s))) :: buf s ++
  [bN (closed s); match mu s with None => 0 | Some h => N.of_nat (S h) end; N.of_nat (cur s); bN (cur_closed s);
   derr s; bN (armed s); N.of_nat (pending s)] ++
  flat_map (fun t => 99 :: N.of_nat (length (rets t)) :: pc_code (tpc t)) (ths x).

Fixpoint mem (k : list N) (l : list (list N)) : bool :=
  match l with [] => false | y :: r => beq_list N.eqb k y || mem k r end.

Definition done_count (x : st) : list nat := map (fun t => length (rets t)) (ths x).
Fixpoint ge_all (a : list nat) (b : list N) : bool :=       (* a >= b pointwise; b may be shorter *)
  match b with
  | [] => true
  | y :: b' => match a with [] => false | z :: a' => (y <=? N.of_nat z) && ge_all a' b' end
  end.

(* is the step of thread i from x to x' consistent with the observations? *)
Definition valid_th (obs : list (list ocall)) (x x' : st) (i : nat) : bool :=
  match nth_error (ths x) i, nth_error (ths x') i, nth_error obs i with
  | Some t, Some t', Some oc =>
    let k := length (rets t) in
    (* starting call k: everything that had returned before it was issued must be done *)
    (match tpc t with
     | Idle => match nth_error oc k with
               | Some (_, _, need, _) => ge_all (done_count x) need
               | None => false
               end
     | _ => true
     end) &&
    (* finishing call k: same result as observed *)
    (if Nat.ltb k (length (rets t')) then
       match nth_error oc k, nth_error (rets t') k with
       | Some (_, Some r, _, _), Some (_, r') => ret_eqb r r'
       | _, _ => false
       end
     else true)
  | _, _, _ => false
  end.

Definition vstep (obs : list (list ocall)) (x : st) (a : actor) : option st :=
  match step fixed x a with
  | None => None
  | Some x' => match a with
               | Th i _ => if valid_th obs x x' i then Some x' else None
               | _ => Some x'
               end
  end.

(* return stamp of the call a thread is in (or about to start); threads are tried in this order *)
Definition cur_stamp (obs : list (list ocall)) (x : st) (i : nat) : N :=
  match nth_error (ths x) i, nth_error obs i with
  | Some t, Some oc =>
    match nth_error oc (length (rets t)) with Some (_, _, _, s) => s | None => 1000000000 end
  | _, _ => 1000000000
  end.
Fixpoint insert_by (f : nat -> N) (i : nat) (l : list nat) : list nat :=
  match l with [] => [i] | j :: r => if f i <=? f j then i :: l else j :: insert_by f i r end.
Definition order (obs : list (list ocall)) (x : st) : list actor :=
  let idx := fold_right (insert_by (cur_stamp obs x)) [] (seq 0 (length (ths x))) in
  flat_map (fun i =>
    match nth_error (ths x) i with
    | Some t => match tpc t with
                | R_select _ | S_select _ _ => [Th i false; Th i true]
                | _ => [Th i false]
                end
    | None => []
    end) idx ++ [TimerFire; TimerRun].

Definition goal (obs : list (list ocall)) (x : st) : bool :=
  terminal fixed x &&
  beq_list Nat.eqb (done_count x)
    (map (fun oc => length (filter (fun c : ocall => match c with (_, Some _, _, _) => true | _ => false end) oc)) obs).

(* the search gives up (answer: not admissible) after [budget] distinct model states; on the
   unchanged code the first descent almost always succeeds (threads are tried in order of the
   observed return stamps), so the budget only bounds the cost of refuting a bad history *)
Definition budget : nat := 2 * 1500.

Fixpoint dfs (obs : list (list ocall)) (fuel : nat) (x : st) (n : nat) (vis : list (list N)) : bool * nat * list (list N) :=
  match fuel with
  | O => (false, n, vis)
  | S f =>
    if goal obs x then (true, n, vis) else
    (fix loop (acts : list actor) (n : nat) (vis : list (list N)) : bool * nat * list (list N) :=
       match acts with
       | [] => (false, n, vis)
       | a :: r =>
         if Nat.ltb budget n then (false, n, vis) else
         match vstep obs x a with
         | None => loop r n vis
         | Some x' =>
           let k := key x' in
           if mem k vis then loop r n vis
           else let '(b, n', vis') := dfs obs f x' (S n) (k :: vis) in
                if b then (true, n', vis') else loop r n' vis'
         end
       end) (order obs x) n vis
  end.

Definition c17f_case := (N * list (list ocall))%type.
Definition c17f_ok (c : c17f_case) : bool :=
  let '(cp, obs) := c in
  let x0 := init (N.to_nat cp) (map (map (fun c : ocall => match c with (o, _, _, _) => o end)) obs) in
  fst (fst (dfs obs (S (measure x0)) x0 0%nat [])).
(* the number of model states the search visited (for the evidence / tuning) *)
Definition c17f_visited (c : c17f_case) : nat :=
  let '(cp, obs) := c in
  let x0 := init (N.to_nat cp) (map (map (fun c : ocall => match c with (o, _, _, _) => o end)) obs) in
  snd (fst (dfs obs (S (measure x0)) x0 0%nat [])).

(* ================================================================== transport.Client histories *)
(* c17l_ok — free runs of a real transport.Client (live or dead peer, with or without handshake
   timeout): the call/return history must be admissible in Model/Lifecycle.v. *)
From Hop Require Import ConcBase Lifecycle.
Open Scope N_scope.

Definition Hs := CHandshake.
Definition Xc := CClose.
Definition Rd := CRead.
Definition Wr := CWrite.

Definition lcall := (cop * option N * list N * N)%type.

Definition cpc_code (p : cpc) : list N :=
  match p with
  | CIdle => [0] | H_load => [1] | H_cas => [2] | H_io => [3] | H_add => [4] | H_open => [5] | H_wgdone => [6]
  | H_store e => [7; e] | H_caserr e => [8; e] | H_signal e => [9; e] | H_recheck e => [10; e] | H_wait => [11]
  | X_load => [12] | X_cas p => [13; p] | X_conn p => [14; p] | X_waiths => [15] | X_wgwait => [16]
  | X_handle => [17] | X_store => [18] | X_signal => [19] | X_waitdone => [20] | X_ret => [21]
  | Lifecycle.R_load => [22] | R_waitdone => [23] | R_ss => [24] | R_recv => [25] | W_check => [26] | W_sock => [27]
  end.

Definition ckey (x : cst) : list N :=
  let s := csd x in
  [cstate s; bN (hs_done s); bN (close_done s); cerr s; match close_err s with None => 0 | Some e => e + 1 end;
   bN (conn_closed s); N.of_nat (wg s); match lis s with L_none => 0 | L_check => 1 | L_read => 2 | L_done => 3 end;
   bN (handle_set s); bN (handle_closed s); N.of_nat (hpend s)] ++
  flat_map (fun t => 99 :: N.of_nat (length (crets t)) :: match ck t with KRet => 0 | KRead => 1 | KWrite => 2 end
                     :: cpc_code (cpcv t)) (cths x).

Definition cdone_count (x : cst) : list nat := map (fun t => length (crets t)) (cths x).

Definition cvalid_th (obs : list (list lcall)) (x x' : cst) (i : nat) : bool :=
  match nth_error (cths x) i, nth_error (cths x') i, nth_error obs i with
  | Some t, Some t', Some oc =>
    let k := length (crets t) in
    (match cpcv t with
     | CIdle => match nth_error oc k with
                | Some (_, _, need, _) => ge_all (cdone_count x) need
                | None => false
                end
     | _ => true
     end) &&
    (if Nat.ltb k (length (crets t')) then
       match nth_error oc k, nth_error (crets t') k with
       | Some (_, Some r, _, _), Some (_, r') => r =? r'
       | _, _ => false
       end
     else true)
  | _, _, _ => false
  end.

Definition cvstep (obs : list (list lcall)) (x : cst) (a : cactor) : option cst :=
  match cstepa x a with
  | None => None
  | Some x' => match a with
               | CT i => if cvalid_th obs x x' i then Some x' else None
               | _ => Some x'
               end
  end.

Definition ccur_stamp (obs : list (list lcall)) (x : cst) (i : nat) : N :=
  match nth_error (cths x) i, nth_error obs i with
  | Some t, Some oc =>
    match nth_error oc (length (crets t)) with Some (_, _, _, s) => s | None => 1000000000 end
  | _, _ => 1000000000
  end.
Definition corder (obs : list (list lcall)) (x : cst) : list cactor :=
  map CT (fold_right (insert_by (ccur_stamp obs x)) [] (seq 0 (length (cths x)))) ++ [CListen; CHClose].

Definition cgoal (obs : list (list lcall)) (x : cst) : bool :=
  cterminal x &&
  beq_list Nat.eqb (cdone_count x)
    (map (fun oc => length (filter (fun c : lcall => match c with (_, Some _, _, _) => true | _ => false end) oc)) obs).

Fixpoint cdfs (obs : list (list lcall)) (fuel : nat) (x : cst) (n : nat) (vis : list (list N)) : bool * nat * list (list N) :=
  match fuel with
  | O => (false, n, vis)
  | S f =>
    if cgoal obs x then (true, n, vis) else
    (fix loop (acts : list cactor) (n : nat) (vis : list (list N)) : bool * nat * list (list N) :=
       match acts with
       | [] => (false, n, vis)
       | a :: r =>
         if Nat.ltb budget n then (false, n, vis) else
         match cvstep obs x a with
         | None => loop r n vis
         | Some x' =>
           let k := ckey x' in
           if mem k vis then loop r n vis
           else let '(b, n', vis') := cdfs obs f x' (S n) (k :: vis) in
                if b then (true, n', vis') else loop r n' vis'
         end
       end) (corder obs x) n vis
  end.

(* every thread step strictly advances a pc or consumes an op; loops (CAS retry, handshake wait)
   are bounded by the memo table, the depth bound below is generous *)
Definition c17l_case := (bool * bool * N * list (list lcall))%type.   (* peer alive, timeout, close result, history *)
Definition c17l_ok (c : c17l_case) : bool :=
  let '(pe, tm, cr, obs) := c in
  let x0 := cinit pe tm cr (map (map (fun c : lcall => match c with (o, _, _, _) => o end)) obs) in
  fst (fst (cdfs obs (40 * S (length (List.concat obs)) + 40) x0 0%nat [])).
Definition c17l_visited (c : c17l_case) : nat :=
  let '(pe, tm, cr, obs) := c in
  let x0 := cinit pe tm cr (map (map (fun c : lcall => match c with (o, _, _, _) => o end)) obs) in
  snd (fst (cdfs obs (40 * S (length (List.concat obs)) + 40) x0 0%nat [])).
