(* Correspondence entry points for C20: each case carries the input and what the Go code did. *)
From Hop Require Import Base Glob.
Open Scope N_scope.

(* observation code of a Glob call: 0 = false, 1 = true, 2 = panic (3 = model ran out of fuel,
   which no Go observation ever equals) *)
Definition bcode (r : res bool) : N :=
  match r with Ok false => 0 | Ok true => 1 | Panic => 2 | Err => 3 end.

(* one pair: (pattern, input, code) *)
Definition c20_glob_case := (bytes * bytes * N)%type.
Definition c20_glob_ok (c : c20_glob_case) : bool :=
  let '(p, s, o) := c in bcode (glob p s) =? o.

(* one pattern against every string over `alpha` of length <= n, enumerated as the driver does
   (by length; within a length, every string of the previous length extended by each letter) *)
Fixpoint strings_of_len (alpha : bytes) (n : nat) : list bytes :=
  match n with
  | O => [[]]
  | S n' => flat_map (fun x => map (fun c => x ++ [c]) alpha) (strings_of_len alpha n')
  end.
Definition all_strings (alpha : bytes) (n : nat) : list bytes :=
  flat_map (strings_of_len alpha) (seq 0 (S n)).

(* (pattern, alphabet, max length, codes as one byte string) *)
Definition c20_exh_case := (bytes * bytes * N * bytes)%type.
Definition c20_exh_ok (c : c20_exh_case) : bool :=
  let '(p, alpha, n, codes) := c in
  beq_bytes (map (fun s => bcode (glob p s)) (all_strings alpha (N.to_nat n))) codes.

(* MatchHost: (global, hosts, name, (panicked, CAFiles, Hostname, User, Port)) *)
Definition HB := mkHB.
Definition beq_opt (a b : option bytes) : bool :=
  match a, b with
  | Some x, Some y => beq_bytes x y
  | None, None => true
  | _, _ => false
  end.
Definition c20_host_case :=
  (hblock * list hblock * bytes * (bool * list bytes * option bytes * option bytes * N))%type.
Definition c20_host_ok (c : c20_host_case) : bool :=
  let '(g, hosts, h, (pan, ca, hn, us, port)) := c in
  match match_host g hosts h with
  | Ok r => negb pan && beq_list beq_bytes (hb_ca r) ca && beq_opt (hb_hostname r) hn
            && beq_opt (hb_user r) us && (hb_port r =? port)
  | Panic => pan
  | Err => false
  end.

(* VirtualHosts.Match: (patterns, name, (panicked, 0 for nil | index+1)) *)
Definition c20_vhost_case := (list bytes * bytes * (bool * N))%type.
Definition c20_vhost_ok (c : c20_vhost_case) : bool :=
  let '(pats, name, (pan, o)) := c in
  match vhost_match pats name with
  | Ok None => negb pan && (o =? 0)
  | Ok (Some i) => negb pan && (o =? N.of_nat i + 1)
  | Panic => pan
  | Err => false
  end.
