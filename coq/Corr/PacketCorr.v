(* Correspondence entry points for C03 / C15.
   c03_ok   : an operation sequence on one endpoint (a server with several sessions, or a client),
              with the AEAD results recorded by the driver as oracle tables; after EVERY operation the
              model's result and the state projection of every session are compared with what the Go
              code produced.
   c03w_ok  : Handle.Write of a large buffer: chunk structure, headers, destinations, returned n.
   c03rp_ok : direct readPacketLocked calls (short packets, short buffers). *)
From Hop Require Import Base Replay Packet PacketSanse.
From Hop Require Export PacketHex.
Open Scope N_scope.

(* ---- oracle tables: what SANSE returned in the Go run ---- *)
Definition otbl := list (bytes * bytes * bytes * option bytes).   (* key, ad, ciphertext -> Open result *)
Definition stbl := list (bytes * bytes * bytes * bytes).          (* key, ad, plaintext -> Seal result *)

Fixpoint open_tbl (t : otbl) (k ad c : bytes) : option bytes :=
  match t with
  | [] => None
  | (k', ad', c', r) :: rest =>
    if beq_bytes k k' && beq_bytes ad ad' && beq_bytes c c' then r else open_tbl rest k ad c
  end.
Fixpoint seal_tbl (t : stbl) (k ad p : bytes) : bytes :=
  match t with
  | [] => []     (* not recorded: seal_packet then reports Panic (length), which never matches *)
  | (k', ad', p', c) :: rest =>
    if beq_bytes k k' && beq_bytes ad ad' && beq_bytes p p' then c else seal_tbl rest k ad p
  end.

(* ---- session configuration (what the handshake leaves) ---- *)
(* Ss sid key_send key_recv count marks qcap closed remote *)
Definition Ss (id ks : bytes) (kr : option bytes) (cnt : N) (marks : list N) (cap : N) (cl : bool) (rem : N) : sess :=
  mkSess id ks kr cnt (fold_left mark marks win_init) [] cap [] cl rem.

(* ---- operations; each carries what SANSE returned for it in the Go run ---- *)
Inductive op :=
| I (a : N) (pkt : bytes) (ki : N) (r : option bytes)
     (* endpoint.handleSessionMessage(addr a, pkt); r = Open(read key of session ki, pkt[:16], pkt[16:]) *)
| RM (i : N) (n : N)               (* session i: ReadMsg with an n-byte buffer *)
| RD (i : N) (n : N)               (* session i: Read with an n-byte buffer *)
| WM (i : N) (m ad ct : bytes)     (* session i: WriteMsg(m); ct = Seal(write key of i, ad, m) *)
| WR (i : N) (b ad ct : bytes)     (* session i: Write(b), len b <= MaxPlaintextSize *)
| SD (i : N) (mt : N) (b ad ct : bytes)  (* session i: send(mt, b) — control messages *)
| CL (i : N).                      (* session i: Close() *)

(* projection of a session: closed, remote, count, wt, blocks, queue length *)
Definition snap := (bool * N * N * N * list N * N)%type.
Definition snap_of (s : sess) : snap :=
  (closed s, remote s, count s, wt (window s), blocks (window s), qlen (queue s)).
(* compact literal: [closed; remote; qlen; count_hi; count_lo; wt_hi; wt_lo; b0_hi; b0_lo; ... b7_hi; b7_lo] *)
Definition sn (ws : list int) : snap :=
  match ws with
  | c :: r :: q :: rest =>
    match pairs rest with
    | cnt :: w :: bl => (negb (of_int c =? 0), of_int r, cnt, w, bl, of_int q)
    | _ => (false, 0, 0, 0, [], 0)
    end
  | _ => (false, 0, 0, 0, [], 0)
  end.
Definition beq_snap (x y : snap) : bool :=
  let '(c1, r1, n1, w1, b1, q1) := x in
  let '(c2, r2, n2, w2, b2, q2) := y in
  Bool.eqb c1 c2 && (r1 =? r2) && (n1 =? n2) && (w1 =? w2) && beq_list N.eqb b1 b2 && (q1 =? q2).

(* observation of one operation: code, number, byte strings, addresses, all session projections.
   I  : code 0 nil / 1 error / 2 panic
   RM/RD : code 0 data / 1 error / 2 EOF / 3 would block; data = [bytes]
   WM/SD : code 0 nil / 1 error / 2 panic; data = emitted datagrams, addrs = their destinations
   WR : same, n = returned count
   CL : code 0 *)
Definition ob := (N * N * list bytes * list N * list snap)%type.
Definition Ob (code n : N) (data : list bytes) (addrs : list N) (snaps : list snap) : ob :=
  (code, n, data, addrs, snaps).
Definition beq_ob (x y : ob) : bool :=
  let '(c1, n1, d1, a1, s1) := x in
  let '(c2, n2, d2, a2, s2) := y in
  (c1 =? c2) && (n1 =? n2) && beq_list beq_bytes d1 d2 && beq_list N.eqb a1 a2 && beq_list beq_snap s1 s2.

Definition nth_sess (sv : list sess) (i : N) : sess :=
  nth (N.to_nat i) sv (mkSess [] [] None 0 win_init [] 0 [] true 0).
Fixpoint set_nth (sv : list sess) (i : nat) (s : sess) : list sess :=
  match sv, i with
  | [], _ => []
  | _ :: r, O => s :: r
  | x :: r, S i' => x :: set_nth r i' s
  end.

Definition rd_ob (r : rd) : N * list bytes :=
  match r with RData b => (0, [b]) | RErr => (1, []) | REOF => (2, []) | RBlock => (3, []) end.

Section Run.
  Variable sealf : bytes -> bytes -> bytes -> bytes.          (* the AEAD the model runs with: oracle tables, *)
  Variable openf : bytes -> bytes -> bytes -> option bytes.   (* or the Kravatte-SANSE model itself *)
  Variable kind : N.     (* 0 = server (session table), 1 = client (first session only) *)

  Definition snaps (sv : list sess) : list snap := map snap_of sv.

  Definition send_ob (sv : list sess) (i : N) (r : res (sess * dgram)) : list sess * ob :=
    match r with
    | Ok (s', (pkt, a)) => let sv' := set_nth sv (N.to_nat i) s' in (sv', Ob 0 0 [pkt] [a] (snaps sv'))
    | Err => (sv, Ob 1 0 [] [] (snaps sv))
    | Panic => (sv, Ob 2 0 [] [] (snaps sv))
    end.

  Definition step (sv : list sess) (o : op) : list sess * ob :=
    match o with
    | I a pkt _ _ =>
      if kind =? 0 then
        match server_handle openf sv a pkt with
        | Ok (sv', oc) => (sv', Ob (if outcome_err oc then 1 else 0) 0 [] [] (snaps sv'))
        | Err => (sv, Ob 1 0 [] [] (snaps sv))
        | Panic => (sv, Ob 2 0 [] [] (snaps sv))
        end
      else
        match client_handle openf (nth_sess sv 0) a pkt with
        | Ok (s', oc) => let sv' := set_nth sv 0 s' in (sv', Ob (if outcome_err oc then 1 else 0) 0 [] [] (snaps sv'))
        | Err => (sv, Ob 1 0 [] [] (snaps sv))
        | Panic => (sv, Ob 2 0 [] [] (snaps sv))
        end
    | RM i n =>
      let '(s', r) := read_msg (nth_sess sv i) n in
      let sv' := set_nth sv (N.to_nat i) s' in
      let '(c, d) := rd_ob r in (sv', Ob c 0 d [] (snaps sv'))
    | RD i n =>
      let '(s', r) := read (nth_sess sv i) n in
      let sv' := set_nth sv (N.to_nat i) s' in
      let '(c, d) := rd_ob r in (sv', Ob c 0 d [] (snaps sv'))
    | WM i m _ _ => send_ob sv i (write_msg sealf max_plaintext_size (nth_sess sv i) m)
    | SD i mt b _ _ => send_ob sv i (send sealf (nth_sess sv i) mt b)
    | WR i b _ _ =>
      match write sealf max_plaintext_size (nth_sess sv i) b with
      | Some w =>
        let sv' := set_nth sv (N.to_nat i) (w_ss w) in
        (sv', Ob (if w_panic w then 2 else if w_err w then 1 else 0) (w_n w) (map fst (w_out w)) (map snd (w_out w)) (snaps sv'))
      | None => (sv, Ob 9 0 [] [] (snaps sv))
      end
    | CL i =>
      let sv' := set_nth sv (N.to_nat i) (close (nth_sess sv i)) in (sv', Ob 0 0 [] [] (snaps sv'))
    end.

  Fixpoint run (sv : list sess) (ops : list op) : list ob :=
    match ops with
    | [] => []
    | o :: r => let '(sv', b) := step sv o in b :: run sv' r
    end.
End Run.

(* the oracle tables of a case, collected from its operations *)
Definition key_recv_of (sv : list sess) (ki : N) : bytes :=
  match key_recv (nth_sess sv ki) with Some k => k | None => [] end.
Fixpoint otbl_of (sv : list sess) (ops : list op) : otbl :=
  match ops with
  | [] => []
  | I _ pkt ki r :: rest => (key_recv_of sv ki, take 16 pkt, drop 16 pkt, r) :: otbl_of sv rest
  | _ :: rest => otbl_of sv rest
  end.
Fixpoint stbl_of (sv : list sess) (ops : list op) : stbl :=
  match ops with
  | [] => []
  | WM i m ad ct :: rest => (key_send (nth_sess sv i), ad, m, ct) :: stbl_of sv rest
  | WR i m ad ct :: rest => (key_send (nth_sess sv i), ad, m, ct) :: stbl_of sv rest
  | SD i _ m ad ct :: rest => (key_send (nth_sess sv i), ad, m, ct) :: stbl_of sv rest
  | _ :: rest => stbl_of sv rest
  end.

(* case: kind, sessions, operations, observations *)
Definition c03_case := (N * list sess * list op * list ob)%type.
Definition c03_ok (c : c03_case) : bool :=
  let '(kind, sv, ops, obs) := c in
  beq_list beq_ob (run (seal_tbl (stbl_of sv ops)) (open_tbl (otbl_of sv ops)) kind sv ops) obs.

(* byte-exact: NO oracle inputs — the checker computes every Seal and Open itself with the Kravatte-SANSE model
   (Model/PacketSanse.v) from the session keys, and must reproduce every datagram byte the Go code emitted and
   every accept/reject decision.  The oracle fields of the operations are ignored (the driver leaves them empty). *)
Definition c03x_ok (c : c03_case) : bool :=
  let '(kind, sv, ops, obs) := c in
  beq_list beq_ob (run sanse_seal sanse_open kind sv ops) obs.

(* ---- large writes: only the structure is compared (the seal is a length-correct dummy) ---- *)
Definition dummy_seal (k ad p : bytes) : bytes := p ++ repeat 0 32.
(* case: session, buffer length, observed (code, n, [(first 16 bytes, total length, destination)], count after) *)
Definition c03w_case := (sess * N * (N * N * list (bytes * N * N) * N))%type.
Definition c03w_ok (c : c03w_case) : bool :=
  let '(s, L, (code, n, pk, cnt)) := c in
  match write dummy_seal max_plaintext_size s (repeat 0 (N.to_nat L)) with
  | None => false
  | Some w =>
    ((if w_panic w then 2 else if w_err w then 1 else 0) =? code) && (w_n w =? n) && (count (w_ss w) =? cnt) &&
    beq_list (fun x y => let '(h1, l1, a1) := x in let '(h2, l2, a2) := y in beq_bytes h1 h2 && (l1 =? l2) && (a1 =? a2))
             (map (fun d => (take 16 (fst d), len (fst d), snd d)) (w_out w)) pk
  end.

(* ---- direct readPacketLocked ---- *)
(* case: session, open table, buflen, packet, observed (code, n, type, plaintext, wt, blocks) *)
Definition c03rp_case := (sess * otbl * N * bytes * (N * N * N * bytes * N * list N))%type.
Definition c03rp_ok (c : c03rp_case) : bool :=
  let '(s, ot, bl, pkt, (code, n, t, out, w, bs)) := c in
  match read_packet (open_tbl ot) s bl pkt (key_recv s) with
  | Ok (w', t', out') =>
    (code =? 0) && (len out' =? n) && (t' =? t) && beq_bytes out' out && (wt w' =? w) && beq_list N.eqb (blocks w') bs
  | Err => (code =? 1) && (wt (window s) =? w) && beq_list N.eqb (blocks (window s)) bs
  | Panic => (code =? 2)
  end.
