// c16: shutdown driver for tubes.Reliable / tubes.Muxer (and Unreliable) on real muxer pairs over an
// in-memory datagram link with loss (none ... total), duplication and an optional read timeout.
//
// The parent process runs the scenarios in child processes (a panic in a muxer goroutine, e.g. a
// send on a closed channel, kills the process: it is then reported as an observation of the
// scenario that was running, not as a driver failure).
package main

import (
	"bufio"
	"bytes"
	"errors"
	"fmt"
	"io"
	"net"
	"os"
	"os/exec"
	"path/filepath"
	"runtime"
	"strings"
	"sync"
	"sync/atomic"
	"time"

	"github.com/sirupsen/logrus"

	"hop.computer/hop/common"
	"hop.computer/hop/tubes"
	"verifharness/hv"
)

// ---------------------------------------------------------------- in-memory lossy link

type link struct {
	dead atomic.Bool  // total loss
	loss atomic.Int32 // percent
	dup  atomic.Int32 // percent
	seed atomic.Uint64
}

func (l *link) rnd() uint64 {
	x := l.seed.Add(0x9E3779B97F4A7C15)
	x = (x ^ (x >> 30)) * 0xBF58476D1CE4E5B9
	x = (x ^ (x >> 27)) * 0x94D049BB133111EB
	return x ^ (x >> 31)
}

type memConn struct {
	l         *link
	in, out   chan []byte
	fmu       sync.Mutex
	drop      func([]byte) bool // programmable loss on what this end sends
	paused    bool              // hold what this end sends until resume
	held      [][]byte
	closed    chan struct{}
	closeOnce sync.Once
	dlMu      sync.Mutex
	deadline  time.Time
	wdelay    atomic.Int64 // slow link: every write of this end takes this long (ns)
	wblock    atomic.Bool  // blocked link: a write of this end blocks until the transport is closed
}

func newLink(seed uint64) (*memConn, *memConn, *link) {
	l := &link{}
	l.seed.Store(seed)
	ab := make(chan []byte, 8192)
	ba := make(chan []byte, 8192)
	a := &memConn{l: l, in: ba, out: ab, closed: make(chan struct{})}
	b := &memConn{l: l, in: ab, out: ba, closed: make(chan struct{})}
	return a, b, l
}

type timeoutErr struct{}

func (timeoutErr) Error() string   { return "i/o timeout" }
func (timeoutErr) Timeout() bool   { return true }
func (timeoutErr) Temporary() bool { return true }
func (timeoutErr) Unwrap() error   { return os.ErrDeadlineExceeded }

func (c *memConn) ReadMsg(b []byte) (int, error) {
	for {
		c.dlMu.Lock()
		dl := c.deadline
		c.dlMu.Unlock()
		var tm <-chan time.Time
		if !dl.IsZero() {
			d := time.Until(dl)
			if d <= 0 {
				return 0, timeoutErr{}
			}
			t := time.NewTimer(d)
			defer t.Stop()
			tm = t.C
		}
		select {
		case <-c.closed:
			return 0, net.ErrClosed
		case <-tm:
			return 0, timeoutErr{}
		case m := <-c.in:
			if c.l.dead.Load() {
				continue
			}
			return copy(b, m), nil
		}
	}
}

func (c *memConn) WriteMsg(b []byte) error {
	select {
	case <-c.closed:
		return net.ErrClosed
	default:
	}
	if c.wblock.Load() {
		<-c.closed
		return net.ErrClosed
	}
	if d := c.wdelay.Load(); d > 0 {
		select {
		case <-c.closed:
			return net.ErrClosed
		case <-time.After(time.Duration(d)):
		}
	}
	if c.l.dead.Load() {
		return nil
	}
	if int32(c.l.rnd()%100) < c.l.loss.Load() {
		return nil
	}
	c.fmu.Lock()
	if c.drop != nil && c.drop(b) {
		c.fmu.Unlock()
		return nil
	}
	if c.paused {
		c.held = append(c.held, append([]byte(nil), b...))
		c.fmu.Unlock()
		return nil
	}
	c.fmu.Unlock()
	n := 1
	if int32(c.l.rnd()%100) < c.l.dup.Load() {
		n = 2
	}
	for i := 0; i < n; i++ {
		select {
		case c.out <- append([]byte(nil), b...):
		default:
		}
	}
	return nil
}
func (c *memConn) pause() { c.fmu.Lock(); c.paused = true; c.fmu.Unlock() }
func (c *memConn) resume() {
	c.fmu.Lock()
	c.paused = false
	h := c.held
	c.held = nil
	c.fmu.Unlock()
	for _, m := range h {
		select {
		case c.out <- m:
		default:
		}
	}
}
func (c *memConn) Read(p []byte) (int, error)  { return c.ReadMsg(p) }
func (c *memConn) Write(p []byte) (int, error) { return len(p), c.WriteMsg(p) }
func (c *memConn) Close() error {
	c.closeOnce.Do(func() { close(c.closed) })
	return nil
}
func (c *memConn) LocalAddr() net.Addr         { return &net.IPAddr{} }
func (c *memConn) RemoteAddr() net.Addr        { return &net.IPAddr{} }
func (c *memConn) SetDeadline(time.Time) error { return nil }
func (c *memConn) SetReadDeadline(t time.Time) error {
	c.dlMu.Lock()
	c.deadline = t
	c.dlMu.Unlock()
	return nil
}
func (c *memConn) SetWriteDeadline(time.Time) error { return nil }

// ---------------------------------------------------------------- scenarios

type scen struct {
	id        int
	seed      uint64
	timeout   bool   // Config.Timeout != 0
	fault     string // "none", "dead", "loss30", "loss70", "dup"
	faultAt   int    // index in the op list at which the fault starts
	peerFirst bool   // the peer closes its end first (local end in closeWait)
	ops       []string
	// unreliable variant
	unrel bool
	// the local end is in lastAck with only its FIN unacknowledged: the lastAck timer (4*RTT) must close
	// the tube without Stop
	lastAckCheck bool
}

func (s scen) String() string {
	return fmt.Sprintf("#%d timeout=%v fault=%s@%d peerFirst=%v unreliable=%v lastAckCheck=%v ops=[%s]", s.id, s.timeout, s.fault, s.faultAt, s.peerFirst, s.unrel, s.lastAckCheck, strings.Join(s.ops, ";"))
}

var opNames = []string{"c.Write", "c.Close", "c.WaitForClose", "c.Stop", "s.Write", "s.Close", "s.WaitForClose", "s.Stop", "c.Read", "s.Read", "sleep"}

func genScen(r *hv.Rand, id int) scen {
	s := scen{id: id, seed: r.U64(), timeout: r.Chance(35), fault: hv.Pick(r, []string{"none", "dead", "dead", "dead", "loss30", "loss70", "dup"}),
		peerFirst: r.Chance(40), unrel: r.Chance(15)}
	n := 2 + r.Intn(5)
	for i := 0; i < n; i++ {
		s.ops = append(s.ops, hv.Pick(r, opNames))
	}
	// shutdown is what is tested: most scenarios end with a Stop on the client
	if r.Chance(80) {
		s.ops = append(s.ops, "c.Stop")
	}
	s.faultAt = r.Intn(len(s.ops) + 1)
	return s
}

func quiet() *logrus.Entry {
	l := logrus.New()
	l.SetOutput(io.Discard)
	l.SetLevel(logrus.PanicLevel)
	return l.WithField("c16", "")
}

const bound = 6 * time.Second // forced close (1 s) + sender timer (1 s) + generous margin

type callRes struct {
	name     string
	returned bool
	err      string
	dur      time.Duration
}

func within(d time.Duration, f func() error) (bool, string, time.Duration) {
	done := make(chan string, 1)
	t0 := time.Now()
	go func() {
		e := f()
		if e == nil {
			done <- ""
		} else {
			done <- e.Error()
		}
	}()
	select {
	case e := <-done:
		return true, e, time.Since(t0)
	case <-time.After(d):
		return false, "", d
	}
}

type sample struct {
	st     int
	sc, rc bool
	ms     int
}

func settle(want int) int {
	for k := 0; k < 2000; k++ {
		if n := runtime.NumGoroutine(); n <= want {
			return n
		}
		time.Sleep(time.Millisecond)
	}
	return runtime.NumGoroutine()
}

func runScen(s scen) {
	fmt.Fprintf(os.Stderr, "START %s\n", s.String())
	goBefore := runtime.NumGoroutine()
	var ca, cb *memConn
	var l *link
	var cm, sm *tubes.Muxer
	var ct, st tubes.Tube
	var cr *tubes.Reliable
	cfg := &tubes.Config{Log: quiet()}
	if s.timeout {
		cfg.Timeout = 800 * time.Millisecond
	}
	setupOK := false
	for attempt := 0; attempt < 3 && !setupOK; attempt++ {
		ca, cb, l = newLink(s.seed + uint64(attempt))
		cm = tubes.Client(ca, cfg)
		sm = tubes.Server(cb, &tubes.Config{Log: quiet(), Timeout: cfg.Timeout})
		ct, st, cr = nil, nil, nil
		setupOK = true
		if s.unrel {
			u, err := cm.CreateUnreliableTube(common.ExecTube)
			if err != nil {
				setupOK = false
			} else {
				ct = u
			}
		} else {
			r, err := cm.CreateReliableTube(common.ExecTube)
			if err != nil {
				setupOK = false
			} else {
				ct, cr = r, r
			}
		}
		if setupOK {
			// the Accept goroutine outlives a timed-out attempt: it must not touch the
			// variables the next attempt reassigns (sm, st)
			smA := sm
			got := make(chan tubes.Tube, 1)
			ok, _, _ := within(3*time.Second, func() error {
				t, err := smA.Accept()
				got <- t
				return err
			})
			if ok {
				st = <-got
			}
			setupOK = ok && st != nil
			if cr != nil && setupOK {
				cr.WaitForInit()
			}
		}
		if !setupOK {
			// machine too loaded for the handshake to beat the read timeout: tear down and retry
			within(bound, func() error { cm.Stop(); return nil })
			within(bound, func() error { sm.Stop(); return nil })
			ca.Close()
			cb.Close()
		}
	}
	if !setupOK {
		hv.Emit(hv.Case{Class: "setup-skipped", Desc: s.String() + " => tube pair could not be opened on a loss-free link in 3 attempts (scenario skipped)", Spec: true})
		hv.Flush()
		return
	}
	v := verdict{ok: true}
	fail := func(sig, what string) {
		if v.ok {
			v = verdict{false, sig, what}
		}
	}
	results := make([]callRes, 0, 64)
	var resMu sync.Mutex
	resMuFinal, resPtr := &resMu, &results
	var trace []sample
	var trMu sync.Mutex
	stopSampler := make(chan struct{})
	samplerDone := make(chan struct{})
	if cr != nil && setupOK {
		go func() {
			defer close(samplerDone)
			for {
				select {
				case <-stopSampler:
					return
				default:
				}
				// not one atomic snapshot: the muxer state is read FIRST. Every cross clause the checker
				// uses has the form "muxer state >= k implies a monotone tube fact" (stopped => r.closed
				// signalled and state closed), which survives reading the tube later, not earlier.
				msv := cm.VerifMuxerState()
				a, b, c := cr.VerifShutdownState()
				smp := sample{a, b, c, msv}
				trMu.Lock()
				if len(trace) == 0 || trace[len(trace)-1] != smp {
					trace = append(trace, smp)
				}
				trMu.Unlock()
				time.Sleep(100 * time.Microsecond)
			}
		}()
	} else {
		close(samplerDone)
	}
	{
		if s.peerFirst {
			within(bound, func() error { return st.Close() })
			// let the FIN arrive so that the local end is in closeWait
			time.Sleep(30 * time.Millisecond)
		}
		applyFault := func() {
			switch s.fault {
			case "dead":
				l.dead.Store(true)
			case "loss30":
				l.loss.Store(30)
			case "loss70":
				l.loss.Store(70)
			case "dup":
				l.dup.Store(50)
			}
		}
		var wg sync.WaitGroup
		buf := make([]byte, 1<<16)
		for i, o := range s.ops {
			if i == s.faultAt {
				applyFault()
			}
			if o == "sleep" {
				time.Sleep(time.Duration(1+i) * 3 * time.Millisecond)
				continue
			}
			side, name, _ := strings.Cut(o, ".")
			tube, mux := ct, cm
			if side == "s" {
				tube, mux = st, sm
			}
			f := func() error { return nil }
			switch name {
			case "Write":
				f = func() error { _, err := tube.Write(bytes.Repeat([]byte{byte(i)}, 300+100*i)); return err }
			case "Read":
				f = func() error {
					tube.SetReadDeadline(time.Now().Add(200 * time.Millisecond))
					_, err := tube.Read(buf)
					return err
				}
			case "Close":
				f = func() error { return tube.Close() }
			case "WaitForClose":
				f = func() error { tube.WaitForClose(); return nil }
			case "Stop":
				f = func() error { mux.Stop(); return nil }
			}
			// Close/Stop/WaitForClose run concurrently with what follows; Write/Read inline
			{
				wg.Add(1)
				resMu.Lock()
				idx := len(results)
				results = append(results, callRes{name: o})
				resMu.Unlock()
				fin := make(chan struct{})
				go func(o string, f func() error, idx int) {
					defer wg.Done()
					defer close(fin)
					t0 := time.Now()
					e := f()
					es := ""
					if e != nil {
						es = e.Error()
					}
					resMu.Lock()
					results[idx] = callRes{o, true, es, time.Since(t0)}
					resMu.Unlock()
				}(o, f, idx)
				if name == "Write" || name == "Read" {
					// normally immediate; if it blocks (tube not initiated yet, dead network) go on: the
					// call stays outstanding and has to return once the muxers are stopped
					select {
					case <-fin:
					case <-time.After(300 * time.Millisecond):
					}
				}
				time.Sleep(time.Duration(i%3) * time.Millisecond)
			}
		}
		if s.faultAt >= len(s.ops) {
			applyFault()
		}
		if s.lastAckCheck {
			okl, _, dl := within(4*time.Second, func() error { ct.WaitForClose(); return nil })
			resMu.Lock()
			results = append(results, callRes{"c.WaitForClose(lastAck timer, no Stop)", okl, "", dl})
			resMu.Unlock()
			if !okl {
				fail("C16:lastack-timer-did-not-close", "local end in lastAck with only the FIN unacknowledged on a dead network: the tube was not closed by the lastAck timer within 4 s")
			}
		}
		// the network stays as it is; both muxers are now stopped (if not already): must return
		okc, _, dc := within(bound, func() error { cm.Stop(); return nil })
		resMu.Lock()
		results = append(results, callRes{"final c.Stop", okc, "", dc})
		resMu.Unlock()
		// closed semantics on the client tube after the muxer stopped
		if okc {
			if _, err := ct.Write([]byte("x")); err == nil {
				fail("C16:write-after-close-succeeded", "Write on a tube of a stopped muxer returned nil")
			}
			okr, _, _ := within(2*time.Second, func() error {
				for k := 0; k < 100000; k++ {
					ct.SetReadDeadline(time.Time{})
					n, err := ct.Read(buf)
					if err != nil {
						if err != io.EOF {
							return fmt.Errorf("read after close ended with %v (n=%d), not io.EOF", err, n)
						}
						return nil
					}
				}
				return fmt.Errorf("read after close never reached EOF")
			})
			_ = okr
		}
		l.dead.Store(false)
		oks, _, ds := within(bound, func() error { sm.Stop(); return nil })
		resMu.Lock()
		results = append(results, callRes{"final s.Stop", oks, "", ds})
		resMu.Unlock()
		// every call issued above must have returned now that both muxers were stopped
		allBack, _, _ := within(bound, func() error { wg.Wait(); return nil })
		_ = allBack
		resMu.Lock()
		for _, r := range results {
			if !r.returned && r.name != "" {
				fail("C16:call-did-not-return", fmt.Sprintf("%s did not return within %v", r.name, bound))
			}
		}
		resMu.Unlock()
	}
	close(stopSampler)
	<-samplerDone
	ca.Close()
	cb.Close()
	goAfter := settle(goBefore)
	if v.ok && goAfter > goBefore {
		// reapers wait 4*RTT (RTT up to a few hundred ms): give them time before calling it a leak
		time.Sleep(1500 * time.Millisecond)
		goAfter = settle(goBefore)
		if goAfter > goBefore {
			fail("C16:goroutine-leak", fmt.Sprintf("goroutines before=%d after both muxers stopped=%d", goBefore, goAfter))
		}
	}
	// final sample
	if cr != nil && setupOK {
		msv := cm.VerifMuxerState()
		a, b, c := cr.VerifShutdownState()
		smp := sample{a, b, c, msv}
		if len(trace) == 0 || trace[len(trace)-1] != smp {
			trace = append(trace, smp)
		}
		if v.ok && (a != 7 || !c) {
			fail("C16:tube-not-closed-after-stop", fmt.Sprintf("after Stop returned the tube is in state %d, closed signalled=%v", a, c))
		}
	}
	var rs []string
	resMuFinal.Lock()
	resCopy := append([]callRes(nil), *resPtr...)
	resMuFinal.Unlock()
	for _, r := range resCopy {
		if r.name == "" {
			continue
		}
		e := r.err
		if !r.returned {
			e = "NO RETURN"
		} else if e == "" {
			e = "nil"
		}
		rs = append(rs, fmt.Sprintf("%s=%s(%dms)", r.name, e, r.dur.Milliseconds()))
	}
	var tr []string
	for _, t := range trace {
		code := t.st*8 + t.ms*2
		if t.sc {
			code += 64
		}
		if t.rc {
			code++
		}
		tr = append(tr, hv.Ni(code))
	}
	fn, coq := "", ""
	if len(tr) > 0 {
		fn, coq = "c16_trace_ok", hv.List(tr)
	}
	desc := s.String() + " => " + strings.Join(rs, ", ")
	hv.Emit(hv.Case{Fn: fn, Coq: coq, Class: "shutdown-" + s.fault, Desc: desc, Spec: v.ok, Sig: v.sig, What: v.what,
		NT: s.fault != "none" || len(s.ops) >= 4, Key: desc,
		Replay: map[string]interface{}{"scenario": s.String(), "results": rs, "trace(state*8+mux*2+closedSignal, +64 senderClosed)": tr}})
	hv.Flush()
}

// The FIN overtakes a lost tail data frame: X writes head and tail, the first transmission of the
// tail frame is lost, Y's acknowledgements are held until X's Close has queued the FIN, so the FIN
// reaches Y while the tail is still missing and waits in Y's reorder heap; the retransmitted tail
// (no FIN flag) then completes the stream.  Link healthy afterwards: both Close calls return, Y
// reads all data then EOF, WaitForClose completes on both ends, writes after close fail.
func runFinOvertake(id int, xIsClient bool, yClosesFirst bool) {
	desc := fmt.Sprintf("#%d fin-overtakes-lost-tail writer=%s yClosesBeforeFin=%v", id, map[bool]string{true: "client", false: "server"}[xIsClient], yClosesFirst)
	fmt.Fprintf(os.Stderr, "START %s\n", desc)
	goBefore := runtime.NumGoroutine()
	ca, cb, _ := newLink(uint64(id) + 77)
	cm := tubes.Client(ca, &tubes.Config{Log: quiet()})
	sm := tubes.Server(cb, &tubes.Config{Log: quiet()})
	v := verdict{ok: true}
	fail := func(sig, what string) {
		if v.ok {
			v = verdict{false, sig, what}
		}
	}
	var rs []string
	note := func(f string, a ...interface{}) { rs = append(rs, fmt.Sprintf(f, a...)) }
	ctube, err := cm.CreateReliableTube(common.ExecTube)
	var stube *tubes.Reliable
	if err == nil {
		ok, _, _ := within(3*time.Second, func() error {
			t, e := sm.Accept()
			if e == nil {
				stube = t.(*tubes.Reliable)
			}
			return e
		})
		if !ok || stube == nil {
			err = fmt.Errorf("accept")
		}
	}
	if err != nil {
		hv.Emit(hv.Case{Class: "setup-skipped", Desc: desc + " => setup failed (skipped)", Spec: true})
		hv.Flush()
		cm.Stop()
		sm.Stop()
		return
	}
	ctube.WaitForInit()
	stube.WaitForInit()
	x, y, xc, yc := ctube, stube, ca, cb
	if !xIsClient {
		x, y, xc, yc = stube, ctube, cb, ca
	}
	head := bytes.Repeat([]byte("h"), 100)
	tail := bytes.Repeat([]byte("t"), 100)
	dropped := false
	xc.fmu.Lock()
	xc.drop = func(b []byte) bool {
		// frame: tubeID, meta, dataLength(2), ackNo(4), frameNo(4), data; meta bit layout irrelevant here:
		// the tail data frame is recognised by its payload
		if !dropped && len(b) == 12+len(tail) && bytes.Equal(b[12:], tail) {
			dropped = true
			return true
		}
		return false
	}
	xc.fmu.Unlock()
	yc.pause()
	x.Write(head)
	x.Write(tail)
	okx, ex, dx := within(bound, func() error { return x.Close() })
	note("writer.Close=%v/%q(%dms)", okx, ex, dx.Milliseconds())
	if !okx || ex != "" {
		fail("C16:close-did-not-return", "writer Close: returned="+fmt.Sprint(okx)+" err="+ex)
	}
	if yClosesFirst {
		oky, ey, _ := within(bound, func() error { return y.Close() })
		note("reader.Close(before FIN)=%v/%q", oky, ey)
		if !oky || ey != "" {
			fail("C16:close-did-not-return", "reader Close: returned="+fmt.Sprint(oky)+" err="+ey)
		}
	}
	yc.resume()
	// the reader gets everything, then end-of-stream
	var got []byte
	okr, er, _ := within(10*time.Second, func() error {
		y.SetReadDeadline(time.Time{})
		buf := make([]byte, 4096)
		for {
			n, e := y.Read(buf)
			got = append(got, buf[:n]...)
			if e == io.EOF {
				return nil
			}
			if e != nil {
				if errors.Is(e, os.ErrDeadlineExceeded) && yClosesFirst {
					// the reader's own Close cancelled pending reads; buffered data is still returned
					// by later reads: keep reading until EOF
					time.Sleep(5 * time.Millisecond)
					continue
				}
				return e
			}
		}
	})
	note("read=%dB ok=%v err=%q", len(got), okr, er)
	if !okr || er != "" {
		fail("C16:reader-no-eof", fmt.Sprintf("reader did not reach end-of-stream (returned=%v err=%s, %d bytes)", okr, er, len(got)))
	} else if !bytes.Equal(got, append(append([]byte(nil), head...), tail...)) {
		fail("C16:reader-data-mismatch", fmt.Sprintf("reader got %d bytes, want %d", len(got), len(head)+len(tail)))
	}
	if !yClosesFirst {
		oky, ey, _ := within(bound, func() error { return y.Close() })
		note("reader.Close=%v/%q", oky, ey)
		if !oky || ey != "" {
			fail("C16:close-did-not-return", "reader Close: returned="+fmt.Sprint(oky)+" err="+ey)
		}
	}
	// both ends closed, link healthy: closure completes without Stop
	for _, p := range []struct {
		n string
		t *tubes.Reliable
	}{{"writer", x}, {"reader", y}} {
		okw, _, dw := within(10*time.Second, func() error { p.t.WaitForClose(); return nil })
		note("%s.WaitForClose=%v(%dms)", p.n, okw, dw.Milliseconds())
		if !okw {
			st, _, _ := p.t.VerifShutdownState()
			fail("C16:waitforclose-did-not-complete", fmt.Sprintf("both ends closed on a healthy link, %s.WaitForClose did not complete within 10 s (tubeState %d)", p.n, st))
		}
	}
	if _, e := y.Write([]byte("late")); e == nil {
		fail("C16:write-after-close-succeeded", "write after local close succeeded")
	}
	within(bound, func() error { cm.Stop(); return nil })
	within(bound, func() error { sm.Stop(); return nil })
	ca.Close()
	cb.Close()
	if goAfter := settle(goBefore); v.ok && goAfter > goBefore {
		time.Sleep(1500 * time.Millisecond)
		if goAfter = settle(goBefore); goAfter > goBefore {
			fail("C16:goroutine-leak", fmt.Sprintf("goroutines before=%d after=%d", goBefore, goAfter))
		}
	}
	full := desc + " => " + strings.Join(rs, ", ")
	hv.Emit(hv.Case{Class: "fin-overtakes-tail", Desc: full, Spec: v.ok, Sig: v.sig, What: v.what, NT: true, Key: full,
		Replay: map[string]interface{}{"scenario": desc, "results": rs}})
	hv.Flush()
}

// Full sender queue of a Reliable tube (capacity 1024) while its only consumer, Reliable.send, is
// slowed down by the link: the peer's data frame is duplicated `flood` times (a duplication storm
// / misbehaving peer; every data frame, duplicate or not, is acknowledged through the tube's
// sender queue by the muxer receiver holding the tube lock).  variant "slow": every transport
// write of the flooded end takes 5 ms (never blocks for good); "blocked": writes block until the
// transport is closed (Stop's forced close does that).  Then Close and Stop on the flooded end.
// Oracle: every call returns within the bound, the tube is closed after Stop, no goroutine left.
func runFullQueue(id int, variant string, flood int) (okRun bool) {
	desc := fmt.Sprintf("#%d full-sender-queue link=%s duplicates=%d ops=[c.Write x3 (slow link only);c.Close;c.Stop;s.Stop]", id, variant, flood)
	fmt.Fprintf(os.Stderr, "START %s\n", desc)
	goBefore := runtime.NumGoroutine()
	ca, cb, _ := newLink(uint64(id) + 991)
	cm := tubes.Client(ca, &tubes.Config{Log: quiet()})
	sm := tubes.Server(cb, &tubes.Config{Log: quiet()})
	v := verdict{ok: true}
	fail := func(sig, what string) {
		if v.ok {
			v = verdict{false, sig, what}
		}
	}
	var rs []string
	note := func(f string, a ...interface{}) { rs = append(rs, fmt.Sprintf(f, a...)) }
	ctube, err := cm.CreateReliableTube(common.ExecTube)
	var stube *tubes.Reliable
	if err == nil {
		ok, _, _ := within(3*time.Second, func() error {
			t, e := sm.Accept()
			if e == nil {
				stube = t.(*tubes.Reliable)
			}
			return e
		})
		if !ok || stube == nil {
			err = fmt.Errorf("accept")
		}
	}
	payload := bytes.Repeat([]byte("q"), 64)
	var captured []byte
	if err == nil {
		ctube.WaitForInit()
		stube.WaitForInit()
		cb.fmu.Lock()
		cb.drop = func(b []byte) bool {
			if captured == nil && len(b) == 12+len(payload) && bytes.Equal(b[12:], payload) {
				captured = append([]byte(nil), b...)
			}
			return false
		}
		cb.fmu.Unlock()
		stube.Write(payload)
		buf := make([]byte, 256)
		okr, _, _ := within(3*time.Second, func() error { _, e := io.ReadFull(ctube, buf[:len(payload)]); return e })
		cb.fmu.Lock()
		cb.drop = nil
		got := captured
		cb.fmu.Unlock()
		if !okr || got == nil {
			err = fmt.Errorf("capture")
		}
	}
	if err != nil {
		hv.Emit(hv.Case{Class: "setup-skipped", Desc: desc + " => setup failed (skipped)", Spec: true})
		hv.Flush()
		within(bound, func() error { cm.Stop(); return nil })
		within(bound, func() error { sm.Stop(); return nil })
		return true
	}
	time.Sleep(50 * time.Millisecond) // let the ACK of the payload leave before the link slows down
	if variant == "blocked" {
		ca.wblock.Store(true)
	} else {
		ca.wdelay.Store(int64(5 * time.Millisecond))
	}
	for i := 0; i < flood; i++ {
		select {
		case ca.in <- captured:
		default:
		}
	}
	type r3 struct {
		ok bool
		e  string
		d  time.Duration
	}
	// While the flood lasts the receiver re-fills the queue within microseconds after every frame
	// Reliable.send takes out.  On the slow link three Writes signal windowOpen during the flood, so
	// that send's select takes its window branch (which needs the tube lock) while the queue is full;
	// the retransmission ticker (its period doubles on an idle tube) may fire as well.
	var wres []chan r3
	if variant == "slow" {
		time.Sleep(100 * time.Millisecond)
		for i := 0; i < 3; i++ {
			ch := make(chan r3, 1)
			go func() {
				o, e, d := within(bound, func() error { _, e := ctube.Write([]byte("w")); return e })
				ch <- r3{o, e, d}
			}()
			wres = append(wres, ch)
			time.Sleep(60 * time.Millisecond)
		}
		time.Sleep(320 * time.Millisecond)
	} else {
		time.Sleep(600 * time.Millisecond)
	}
	st0, _, _, okS := func() (int, bool, bool, bool) {
		var a int
		var b, c bool
		ok, _, _ := within(time.Second, func() error { a, b, c = ctube.VerifShutdownState(); return nil })
		return a, b, c, ok
	}()
	note("stateBefore=%d(sampled=%v)", st0, okS)
	qn, qcap := ctube.VerifSenderQueue()
	note("senderQueue=%d/%d", qn, qcap)
	chClose, chStop := make(chan r3, 1), make(chan r3, 1)
	go func() { o, e, d := within(bound, func() error { return ctube.Close() }); chClose <- r3{o, e, d} }()
	time.Sleep(20 * time.Millisecond)
	go func() { o, e, d := within(bound, func() error { cm.Stop(); return nil }); chStop <- r3{o, e, d} }()
	rc, rstop := <-chClose, <-chStop
	note("c.Close=%v/%q(%dms)", rc.ok, rc.e, rc.d.Milliseconds())
	note("c.Stop=%v(%dms)", rstop.ok, rstop.d.Milliseconds())
	wok := true
	for i, ch := range wres {
		rw := <-ch
		note("c.Write%d=%v/%q(%dms)", i, rw.ok, rw.e, rw.d.Milliseconds())
		wok = wok && rw.ok
	}
	okRun = rc.ok && rstop.ok && wok
	blocked := ""
	if !okRun {
		// where the goroutines of the code under test are parked (evidence for the replay)
		buf := make([]byte, 1<<20)
		buf = buf[:runtime.Stack(buf, true)]
		for _, g := range strings.Split(string(buf), "\n\n") {
			if !strings.Contains(g, "hop/tubes.") {
				continue
			}
			var fns []string
			for _, ln := range strings.Split(g, "\n") {
				if strings.HasPrefix(ln, "\t") || strings.HasPrefix(ln, "goroutine ") || strings.HasPrefix(ln, "created by") {
					continue
				}
				if i := strings.LastIndex(ln, "("); i > 0 {
					ln = ln[:i]
				}
				if j := strings.LastIndex(ln, "/"); j >= 0 {
					ln = ln[j+1:]
				}
				fns = append(fns, ln)
				if len(fns) == 6 {
					break
				}
			}
			if len(blocked) < 1500 {
				blocked += strings.Join(fns, " < ") + " | "
			}
		}
	}
	if !okRun {
		fail("C16:call-did-not-return-full-sender-queue", fmt.Sprintf("the tube's sender queue was filled by acknowledgements of %d duplicated data frames while the link was %s: Close returned=%v, Stop returned=%v, Writes returned=%v within %v (the muxer receiver blocks on the full queue holding the tube lock; the queue's only consumer Reliable.send waits for that lock in its ticker/window branch)", flood, variant, rc.ok, rstop.ok, wok, bound))
	} else {
		if rc.e != "" && rc.e != "EOF" {
			fail("C16:close-error", "Close: "+rc.e)
		}
		okw, _, _ := within(bound, func() error { ctube.WaitForClose(); return nil })
		st1, _, sig1 := ctube.VerifShutdownState()
		note("WaitForClose=%v state=%d signalled=%v", okw, st1, sig1)
		if !okw || st1 != 7 || !sig1 {
			fail("C16:tube-not-closed-after-stop", fmt.Sprintf("after Stop: WaitForClose returned=%v tubeState=%d r.closed=%v", okw, st1, sig1))
		}
		if _, e := ctube.Write([]byte("late")); e == nil {
			fail("C16:write-after-close-succeeded", "write after Stop succeeded")
		}
	}
	oks, _, ds := within(bound, func() error { sm.Stop(); return nil })
	note("s.Stop=%v(%dms)", oks, ds.Milliseconds())
	if !oks {
		fail("C16:call-did-not-return", "peer Stop did not return")
		okRun = false
	}
	ca.Close()
	cb.Close()
	if okRun {
		if goAfter := settle(goBefore); v.ok && goAfter > goBefore {
			time.Sleep(1500 * time.Millisecond)
			if goAfter = settle(goBefore); goAfter > goBefore {
				fail("C16:goroutine-leak", fmt.Sprintf("goroutines before=%d after=%d", goBefore, goAfter))
			}
		}
	}
	full := desc + " => " + strings.Join(rs, ", ")
	fn, coq := "", ""
	if variant == "blocked" && qn == qcap && okRun {
		// the model's history: queue full behind a blocked write, Close, forced close, drain
		st1, _, sig1 := ctube.VerifShutdownState()
		fn, coq = "c16_fullq_ok", hv.Tuple(hv.Ni(qcap), hv.Ni(qn), hv.Bools([]bool{rc.ok, rstop.ok, st1 == 7, sig1}))
	}
	hv.Emit(hv.Case{Fn: fn, Coq: coq, Class: "full-sender-queue", Desc: full, Spec: v.ok, Sig: v.sig, What: v.what, NT: qn == qcap, Key: full,
		Replay: map[string]interface{}{"scenario": desc, "results": rs, "parked_goroutines": blocked}})
	hv.Flush()
	return okRun
}

// Locally created (requesting side) Unreliable tubes closed around the arrival of the peer's RESP.
// The peer's outgoing frames are held (latency) so that the tube is still `created` when the local
// calls start; variants:
//
//	gated-close-after-resp  the initiation goroutine is held at the yield point ut.initiate.initiated after
//	                        the RESP made the tube `initiated`; Close swaps the state and reaches its
//	                        wait for initiateDone; only then the initiation goroutine continues
//	parked-write / parked-read  a goroutine parked in Write / Read (waiting for initiation) calls Close
//	                        as soon as its call returns (run with GOMAXPROCS(1) and default)
//	close-while-created     Close before the RESP
//
// Oracle (property text): every call returns within the bound; the first Close gives nil and a second
// io.EOF; Write and Read after Close give io.EOF; WaitForClose and both Stops return; the goroutine
// count settles.
func runUnrelLocal(id int, variant string, oneP bool) (okRun bool) {
	desc := fmt.Sprintf("#%d unreliable-local %s GOMAXPROCS=%s", id, variant, map[bool]string{true: "1", false: "default"}[oneP])
	fmt.Fprintf(os.Stderr, "START %s\n", desc)
	goBefore := runtime.NumGoroutine()
	v := verdict{ok: true}
	fail := func(sig, what string) {
		if v.ok {
			v = verdict{false, sig, what}
		}
	}
	var rs []string
	var rsMu sync.Mutex
	note := func(f string, a ...interface{}) { rsMu.Lock(); rs = append(rs, fmt.Sprintf(f, a...)); rsMu.Unlock() }

	var visits atomic.Int32
	var armed atomic.Bool
	arrived := make(chan struct{}, 64)
	release := make(chan struct{}, 64)
	closeAtWait := make(chan struct{}, 4)
	if variant == "gated-close-after-resp" {
		armed.Store(true)
		common.SetVerifYield(func(pt string) {
			switch pt {
			case "ut.initiate.initiated": // the initiation goroutine has seen u.initiated and is about to re-read the state
				if visits.Add(1) >= 1 && armed.Load() {
					select {
					case arrived <- struct{}{}:
					default:
					}
					select {
					case <-release:
					case <-time.After(5 * time.Second): // watchdog: never keep the code under test parked
					}
				}
			case "ut.close.waitinit":
				select {
				case closeAtWait <- struct{}{}:
				default:
				}
			}
		})
		defer common.SetVerifYield(nil)
	}

	ca, cb, _ := newLink(uint64(id) + 4242)
	cm := tubes.Client(ca, &tubes.Config{Log: quiet()})
	sm := tubes.Server(cb, &tubes.Config{Log: quiet()})
	cb.pause() // the RESP (and everything else the peer sends) is held
	u, err := cm.CreateUnreliableTube(common.ExecTube)
	var st tubes.Tube
	if err == nil {
		got := make(chan tubes.Tube, 1)
		ok, _, _ := within(3*time.Second, func() error {
			t, e := sm.Accept()
			got <- t
			return e
		})
		if ok {
			st = <-got
		}
		if !ok || st == nil {
			err = fmt.Errorf("accept")
		}
	}
	if err != nil {
		armed.Store(false)
		for k := 0; k < 8; k++ {
			release <- struct{}{}
		}
		cb.resume()
		within(bound, func() error { cm.Stop(); return nil })
		within(bound, func() error { sm.Stop(); return nil })
		ca.Close()
		cb.Close()
		hv.Emit(hv.Case{Class: "setup-skipped", Desc: desc + " => setup failed (skipped)", Spec: true})
		hv.Flush()
		return true
	}
	closeRes := make(chan string, 1)
	doClose := func() {
		ok, e, d := within(bound, func() error { return u.Close() })
		note("Close=%v/%q(%dms)", ok, e, d.Milliseconds())
		if !ok {
			s0, idn, sdn, cl := u.VerifUnreliableState()
			fail("C16:unreliable-close-did-not-return", fmt.Sprintf("Unreliable.Close did not return within %v (state %d, initiateDone=%v senderDone=%v closed=%v)", bound, s0, idn, sdn, cl))
		} else if e != "" {
			fail("C16:unreliable-close-result", "first Close of an open tube returned "+e)
		}
		closeRes <- e
	}
	switch variant {
	case "gated-close-after-resp":
		cb.resume()
		// wait until the initiation goroutine is back at the top of its loop with the tube initiated
		gated := false
		for k := 0; k < 20 && !gated; k++ {
			select {
			case <-arrived:
				if s0, _, _, _ := u.VerifUnreliableState(); s0 == 1 {
					gated = true
				} else {
					release <- struct{}{} // retransmission tick before the RESP: let it go round again
				}
			case <-time.After(2 * time.Second):
				k = 20
			}
		}
		note("initiation goroutine held after RESP=%v", gated)
		go doClose()
		select {
		case <-closeAtWait:
			time.Sleep(2 * time.Millisecond)
		case <-time.After(2 * time.Second):
		}
		s0, idn, _, _ := u.VerifUnreliableState()
		note("Close at its wait: state=%d initiateDone=%v", s0, idn)
		armed.Store(false)
		for k := 0; k < 8; k++ {
			release <- struct{}{}
		}
	case "parked-write", "parked-read":
		started := make(chan struct{})
		go func() {
			close(started)
			if variant == "parked-write" {
				_, e := u.Write([]byte("datagram"))
				note("Write(parked)=%v", e)
				if e != nil && e != io.EOF {
					fail("C16:unreliable-write-result", "parked Write returned "+e.Error())
				}
			} else {
				buf := make([]byte, 64)
				n, e := u.Read(buf)
				note("Read(parked)=%d/%v", n, e)
			}
			doClose()
		}()
		<-started
		if variant == "parked-read" {
			st.Write([]byte("hello")) // held behind the RESP
		}
		time.Sleep(3 * time.Millisecond)
		cb.resume()
	case "close-while-created":
		go doClose()
		time.Sleep(2 * time.Millisecond)
		cb.resume()
	}
	select {
	case <-closeRes:
	case <-time.After(bound + 4*time.Second):
		fail("C16:unreliable-close-did-not-return", "the goroutine that was to call Close never got there (its Write/Read did not return)")
	}
	if v.ok {
		if ok, e, _ := within(bound, func() error { return u.Close() }); !ok || e != io.EOF.Error() {
			fail("C16:unreliable-second-close", fmt.Sprintf("second Close: returned=%v err=%q, want io.EOF", ok, e))
		}
		if ok, e, _ := within(bound, func() error { _, e := u.Write([]byte("late")); return e }); !ok || e != io.EOF.Error() {
			fail("C16:write-after-close-succeeded", fmt.Sprintf("Write after Close: returned=%v err=%q, want io.EOF", ok, e))
		}
		if ok, e, _ := within(bound, func() error {
			buf := make([]byte, 64)
			for k := 0; k < 4; k++ { // buffered datagrams may still be returned before end-of-stream
				if _, e := u.Read(buf); e != nil {
					return e
				}
			}
			return nil
		}); !ok || e != io.EOF.Error() {
			fail("C16:unreliable-read-after-close", fmt.Sprintf("Read after Close: returned=%v err=%q, want io.EOF", ok, e))
		}
	}
	okw, _, dw := within(bound, func() error { u.WaitForClose(); return nil })
	note("WaitForClose=%v(%dms)", okw, dw.Milliseconds())
	if !okw {
		fail("C16:waitforclose-did-not-complete", "Unreliable.WaitForClose did not return after Close")
	}
	oks, es, _ := within(bound, func() error { return st.Close() })
	note("peer.Close=%v/%q", oks, es)
	if !oks {
		fail("C16:unreliable-close-did-not-return", "peer side Close did not return")
	}
	for _, m := range []struct {
		n string
		m *tubes.Muxer
	}{{"client", cm}, {"server", sm}} {
		ok, _, d := within(bound, func() error { m.m.Stop(); return nil })
		note("%s.Stop=%v(%dms)", m.n, ok, d.Milliseconds())
		if !ok {
			fail("C16:stop-did-not-return", m.n+" Muxer.Stop did not return within the bound")
		}
	}
	ca.Close()
	cb.Close()
	if goAfter := settle(goBefore); v.ok && goAfter > goBefore {
		time.Sleep(1500 * time.Millisecond)
		if goAfter = settle(goBefore); goAfter > goBefore {
			fail("C16:goroutine-leak", fmt.Sprintf("goroutines before=%d after both muxers stopped=%d", goBefore, goAfter))
		}
	}
	rsMu.Lock()
	full := desc + " => " + strings.Join(rs, ", ")
	rcopy := append([]string(nil), rs...)
	rsMu.Unlock()
	hv.Emit(hv.Case{Class: "unreliable-local-close", Desc: full, Spec: v.ok, Sig: v.sig, What: v.what, NT: true, Key: full,
		Replay: map[string]interface{}{"scenario": desc, "results": rcopy}})
	hv.Flush()
	return v.ok
}

type verdict struct {
	ok   bool
	sig  string
	what string
}

func scenarios() []scen {
	r := hv.NewRand(hv.Seed())
	var all []scen
	id := 0
	add := func(s scen) { s.id = id; id++; all = append(all, s) }
	// fixed shapes: the histories the theorems are about
	for _, tmo := range []bool{false, true} {
		add(scen{seed: 1, timeout: tmo, fault: "dead", faultAt: 0, ops: []string{"c.Stop"}})
		add(scen{seed: 2, timeout: tmo, fault: "dead", faultAt: 0, ops: []string{"c.Close", "c.WaitForClose", "c.Stop"}})
		add(scen{seed: 3, timeout: tmo, fault: "dead", faultAt: 0, ops: []string{"c.Write", "c.Close", "c.Stop", "c.Stop"}})
		// the peer closed first, local data can never be acknowledged, then Close/Stop
		add(scen{seed: 4, timeout: tmo, fault: "dead", faultAt: 0, peerFirst: true, ops: []string{"c.Write", "c.Stop"}})
		add(scen{seed: 5, timeout: tmo, fault: "dead", faultAt: 0, peerFirst: true, ops: []string{"c.Write", "c.Close", "sleep", "c.Stop"}})
		add(scen{seed: 6, timeout: tmo, fault: "none", faultAt: 0, ops: []string{"c.Write", "s.Read", "c.Close", "s.Close", "c.WaitForClose", "c.Stop"}})
		add(scen{seed: 7, timeout: tmo, fault: "dead", faultAt: 1, ops: []string{"c.Close", "s.Close", "c.Stop", "s.Stop"}})
		add(scen{seed: 8, timeout: tmo, fault: "loss70", faultAt: 0, ops: []string{"c.Write", "s.Write", "c.Close", "s.Close", "c.Stop"}})
		add(scen{seed: 9, timeout: tmo, fault: "dead", faultAt: 0, unrel: true, ops: []string{"c.Write", "c.Close", "c.Stop"}})
		add(scen{seed: 10, timeout: false, fault: "dead", faultAt: 0, peerFirst: true, lastAckCheck: true, ops: []string{"c.Close"}})
		add(scen{seed: 11, timeout: tmo, fault: "dead", faultAt: 0, unrel: true, ops: []string{"c.Write", "c.Close", "c.Write", "c.Close", "c.Stop"}})
	}
	n := hv.Scale(34, 600)
	for i := 0; i < n; i++ {
		add(genScen(r, 0))
	}
	return all
}

func child(from, to int) {
	if from == -4 { // full sender queue of a Reliable tube
		k := 0
		for rep := 0; rep < hv.Scale(1, 5); rep++ {
			for _, vr := range []struct {
				v string
				n int
			}{{"slow", 7000}, {"blocked", 3000}, {"slow", 1500}} {
				if !runFullQueue(k, vr.v, vr.n) {
					return
				}
				k++
			}
		}
		return
	}
	if from == -2 || from == -3 { // locally created unreliable tubes; -3: one P
		oneP := from == -3
		if oneP {
			runtime.GOMAXPROCS(1)
		}
		k := 0
		for rep := 0; rep < hv.Scale(3, 30); rep++ {
			for _, vr := range []string{"gated-close-after-resp", "parked-write", "parked-read", "parked-write", "parked-read", "close-while-created"} {
				if !runUnrelLocal(k, vr, oneP) {
					// a call that never returned leaves goroutines of the code under test behind (possibly
					// spinning): later scenarios in this process would only measure that
					return
				}
				k++
			}
		}
		return
	}
	if from < 0 { // the fin-overtakes-tail family
		k := 0
		for _, xc := range []bool{true, false} {
			for _, yf := range []bool{false, true} {
				for rep := 0; rep < hv.Scale(1, 10); rep++ {
					runFinOvertake(k, xc, yf)
					k++
				}
			}
		}
		return
	}
	all := scenarios()
	for i := from; i < to && i < len(all); i++ {
		runScen(all[i])
	}
}

func main() {
	if len(os.Args) == 4 && os.Args[1] == "child" {
		var a, b int
		fmt.Sscan(os.Args[2], &a)
		fmt.Sscan(os.Args[3], &b)
		child(a, b)
		return
	}
	defer hv.Flush()
	all := scenarios()
	const batch = 6
	type job struct{ from, to int }
	jobs := make(chan job, len(all)+4)
	jobs <- job{-1, 0}
	jobs <- job{-2, 0}
	jobs <- job{-3, 0}
	jobs <- job{-4, 0}
	for i := 0; i < len(all); i += batch {
		jobs <- job{i, i + batch}
	}
	close(jobs)
	var outMu sync.Mutex
	var wg sync.WaitGroup
	workers := 6
	for w := 0; w < workers; w++ {
		wg.Add(1)
		go func() {
			defer wg.Done()
			for j := range jobs {
				cmd := exec.Command(os.Args[0], "child", fmt.Sprint(j.from), fmt.Sprint(j.to))
				cmd.Env = os.Environ()
				var stdout, stderr bytes.Buffer
				cmd.Stdout, cmd.Stderr = &stdout, &stderr
				err := cmd.Run()
				outMu.Lock()
				os.Stdout.Write(stdout.Bytes())
				if err != nil {
					// the child died: find the scenario that was running and the panic message
					last := ""
					sc := bufio.NewScanner(bytes.NewReader(stderr.Bytes()))
					sc.Buffer(make([]byte, 1<<20), 1<<20)
					msg := ""
					for sc.Scan() {
						t := sc.Text()
						if strings.HasPrefix(t, "START ") {
							last = strings.TrimPrefix(t, "START ")
						}
						if msg == "" && (strings.HasPrefix(t, "panic:") || strings.HasPrefix(t, "fatal error:")) {
							msg = t
						}
					}
					tail := stderr.String()
					if len(tail) > 1800 {
						tail = tail[len(tail)-1800:]
					}
					hv.Emit(hv.Case{Class: "shutdown-crash", Desc: last + " => process died: " + msg, Spec: false, Sig: "C16:panic",
						What: "the process running the scenario died: " + msg + " | " + err.Error(), NT: true,
						Replay: map[string]interface{}{"scenario": last, "stderr_tail": tail}})
					hv.Flush()
				}
				outMu.Unlock()
			}
		}()
	}
	wg.Wait()
	// race detector reports of the children (GORACE log_path=race, exitcode=0)
	if ms, _ := filepath.Glob("race.*"); len(ms) > 0 {
		b, _ := os.ReadFile(ms[0])
		txt := string(b)
		if len(txt) > 1800 {
			txt = txt[:1800]
		}
		first := ""
		for _, l := range strings.Split(txt, "\n") {
			if strings.Contains(l, ".go:") {
				first = strings.TrimSpace(l)
				break
			}
		}
		hv.Emit(hv.Case{Class: "race-detector", Desc: "go race detector report: " + first, Spec: false, Sig: "C16:data-race", What: txt, NT: true,
			Replay: map[string]interface{}{"report": txt}})
	} else {
		hv.Emit(hv.Case{Class: "race-detector", Desc: "no data race reported by the Go race detector in this run", Spec: true})
	}
}
