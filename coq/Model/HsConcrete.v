(* HsConcrete.v — the concrete interpretation of the symbolic handshake duplex (Model/Handshake.v)
   on the executable Cyclist model (Model/Cyclist.v, group crypto): [cy_of f T] runs the operations
   recorded in the transcript T on a Cyclist object, and [concO f] is the duplex oracle whose answers
   are what that object returns. With f = keccak12 this is byte-exact hop: nothing about the duplex
   remains an oracle.

   A transcript lists operations newest first; the object is determined by the operations since the
   last (re-)initialisation (OReset = InitializeEmpty, OInitKey = Initialize(key, id, nil)).

   Also: state-threading ("concrete") versions of the two authenticating readers, written directly
   over Cyclist API calls on a [cy] value, as the Go code is. Proofs/HsConcreteProofs.v shows them
   equal to the symbolic readers under [concO].

   Definitions only. *)
From Hop Require Import Base Keccak Cyclist Handshake.
Open Scope N_scope.

Section Conc.
Variable f : bytes -> bytes.

(* the Cyclist object after the operations of T (Panic where the Go calls would panic: keyed-only
   calls in hash mode, over-long key||id) *)
Fixpoint cy_of (T : tr) : res cy :=
  match T with
  | [] => Ok cy_empty
  | OReset :: _ => Ok cy_empty
  | OInitKey k id :: _ => cy_initialize f k id []
  | OAbsorb x :: T' => bind (cy_of T') (fun c => Ok (cy_absorb f c x))
  | OCrypt p :: T' => bind (cy_of T') (fun c => match cy_encrypt f c p with Ok (_, c') => Ok c' | Err => Err | Panic => Panic end)
  | OSqueeze n :: T' => bind (cy_of T') (fun c => Ok (snd (cy_squeeze f c (N.to_nat n))))
  | ORatchet :: T' => bind (cy_of T') (fun c => cy_ratchet f c)
  end.

(* The oracle. Where the object does not exist (the Go call sequence would have panicked) the
   answers are padding of the right length; Proofs/HsConcreteProofs.v shows that the transcripts of
   the handshake never get there (lemmas cy_of_start_ok). *)
Definition conc_sq (T : tr) (n : N) : bytes :=
  match cy_of T with Ok c => fst (cy_squeeze f c (N.to_nat n)) | _ => repeat 0 (N.to_nat n) end.
Definition conc_dec (T : tr) (ct : bytes) : bytes :=
  match cy_of T with
  | Ok c => match cy_decrypt f c ct with Ok (p, _) => p | _ => ct end
  | _ => ct
  end.
Definition conc_enc (T : tr) (p : bytes) : bytes :=
  match cy_of T with
  | Ok c => match cy_encrypt f c p with Ok (ct, _) => ct | _ => p end
  | _ => p
  end.
Definition concO : doracle := {| o_sq := conc_sq; o_dec := conc_dec; o_enc := conc_enc |}.

(* ------------------------------------------------------------------ state-threading readers *)
(* DecryptCertificates on an object *)
Definition c_decrypt_certs (c : cy) (ct : bytes) : res (cy * res (bytes * bytes)) :=
  match cy_decrypt f c ct with
  | Ok (p, c1) =>
    Ok (c1,
        match read_vector p with
        | Ok (ll, leaf) =>
          match read_vector (drop (2 + ll) p) with
          | Ok (il, inter) => if ll + il + 4 =? len ct then Ok (leaf, inter) else Err
          | _ => Err
          end
        | _ => Err
        end)
  | Err => Err
  | Panic => Panic
  end.

Definition c_squeeze (c : cy) (n : N) : bytes * cy := cy_squeeze f c (N.to_nat n).

(* readPQServerAuth, statement by statement, on the Cyclist object c of the client's handshake
   state: returns the object it leaves behind and the outcome (outer Panic: a Cyclist call panicked) *)
Definition c_read_server_auth (X : xoracle) (ce pol : N) (c : cy) (b : bytes) : res (cy * res sa_ok) :=
  if len b <? SAMinLen then Ok (c, Err) else
  if negb (at_ b 0 =? MT_ServerAuth) then Ok (c, Err) else
  if negb (at_ b 1 =? 0) then Ok (c, Err) else
  let L := at_ b 2 * 256 + at_ b 3 in
  let full := SAMinLen + L in
  if len b <? full then Ok (c, Err) else
  let c1 := cy_absorb f c (take HeaderLen b) in
  let sid := slice b HeaderLen SessionIDLen in
  let c2 := cy_absorb f c1 sid in
  let eph := slice b (HeaderLen + SessionIDLen) DHLen in
  let c3 := cy_absorb f c2 eph in
  match x_dh X ce eph with
  | None => Ok (c3, Err)
  | Some ee =>
    let c4 := cy_absorb f c3 ee in
    let off := HeaderLen + SessionIDLen + DHLen in
    match c_decrypt_certs c4 (slice b off L) with
    | Ok (c5, Ok (leaf, inter)) =>
      let '(tag, c6) := c_squeeze c5 MacLen in
      if negb (beq_bytes tag (slice b (off + L) MacLen)) then Ok (c6, Err) else
      match x_policy X pol leaf inter with
      | None => Ok (c6, Err)
      | Some pk =>
        match x_dh X ce pk with
        | None => Ok (c6, Err)
        | Some des =>
          let c7 := cy_absorb f c6 des in
          let '(mac, c8) := c_squeeze c7 MacLen in
          if negb (beq_bytes mac (slice b (off + L + MacLen) MacLen)) then Ok (c8, Err)
          else Ok (c8, Ok {| sa_n := full; sa_sid := sid; sa_eph := eph; sa_pk := pk |})
        end
      end
    | Ok (c5, _) => Ok (c5, Err)
    | Err => Err
    | Panic => Panic
    end
  end.

(* readPQClientAuth on the Cyclist object of the stored handshake state *)
Definition c_read_client_auth (X : xoracle) (se pol : N) (sid : bytes) (c : cy) (b : bytes)
  : res (cy * res (N * bytes)) :=
  match read_client_auth_pre b with
  | Ok L =>
    let c1 := cy_absorb f c (take HeaderLen b) in
    let bsid := slice b HeaderLen SessionIDLen in
    if negb (beq_bytes sid bsid) then Ok (c1, Err) else
    let c2 := cy_absorb f c1 bsid in
    let off := HeaderLen + SessionIDLen in
    match c_decrypt_certs c2 (slice b off L) with
    | Ok (c3, Ok (leaf, inter)) =>
      let '(tag, c4) := c_squeeze c3 MacLen in
      if negb (beq_bytes tag (slice b (off + L) MacLen)) then Ok (c4, Err) else
      match x_policy X pol leaf inter with
      | None => Ok (c4, Err)
      | Some pk =>
        match x_dh X se pk with
        | None => Ok (c4, Err)
        | Some dse =>
          let c5 := cy_absorb f c4 dse in
          let '(mac, c6) := c_squeeze c5 MacLen in
          if negb (beq_bytes mac (slice b (off + L + MacLen) MacLen)) then Ok (c6, Err)
          else Ok (c6, Ok (off + L + 2 * MacLen, pk))
        end
      end
    | Ok (c3, _) => Ok (c3, Err)
    | Err => Err
    | Panic => Panic
    end
  | _ => Ok (c, Err)
  end.

End Conc.

(* the instance hop runs *)
Definition hopO : doracle := concO keccak12.
