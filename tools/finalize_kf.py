#!/usr/bin/env python3
"""normalises known_findings.json: every `fixed` entry becomes the string
   "fixed: property=<id> <commit on /repo main> <what failed>" (commit looked up by subject)."""
import json, subprocess, os
HERE = os.path.dirname(os.path.dirname(os.path.abspath(__file__)))
p = os.path.join(HERE, "known_findings.json")
kf = json.load(open(p))
log = subprocess.run(["git", "-C", "/repo", "log", "--format=%h\t%s"], stdout=subprocess.PIPE, text=True).stdout.strip().split("\n")
by_subj = {s: h for h, s in (l.split("\t", 1) for l in log if "\t" in l)}
out, missing = [], []
for e in kf.get("fixed", []):
    if isinstance(e, str):
        out.append(e); continue
    subj = e.get("commit_subject") or e.get("commit") or ""
    h = by_subj.get(subj)
    if not h:
        cands = [hh for s, hh in by_subj.items() if subj and (subj in s or s in subj)]
        h = cands[0] if cands else None
    if not h: missing.append(subj)
    out.append("fixed: property=%s %s (%s) %s" % (e.get("property"), h or "UNKNOWN", subj, e.get("what", "")))
seen = set(); out2 = []
for e in out:
    if e not in seen: seen.add(e); out2.append(e)
kf["fixed"] = out2
json.dump(kf, open(p, "w"), indent=1)
print("fixed entries:", len(out2), "unresolved:", missing)
