(* SendConcProofs.v — every schedule of concurrent send calls: consecutive counters in wire order, each datagram
   sealed under the counter it carries. *)
From Hop Require Import Base Replay Packet PacketProofs SendConc.
From Coq Require Import ZifyN ZifyNat ZifyBool.
Open Scope N_scope.

Lemma nth_set_eq : forall l i x t, nth_error l i = Some x -> nth_error (set_thr l i t) i = Some t.
Proof. induction l as [|y r IH]; intros [|i] x t; simpl; try discriminate; auto. intros H. eapply IH; eauto. Qed.
Lemma nth_set_ne : forall l i j t, i <> j -> nth_error (set_thr l i t) j = nth_error l j.
Proof.
  induction l as [|y r IH]; intros [|i] [|j] t Hne; simpl; try reflexivity; try congruence.
  apply IH. congruence.
Qed.
Lemma Forall_set (P : wthread -> Prop) : forall l i t, Forall P l -> P t -> Forall P (set_thr l i t).
Proof.
  induction l as [|y r IH]; intros [|i] t Hl Ht; simpl; auto; inversion Hl; subst; constructor; auto.
Qed.
(* when every other element is false under f, existsb after replacing position i is f of the new element *)
Lemma existsb_set (f : wthread -> bool) : forall l i x t,
  nth_error l i = Some x ->
  (forall j y, j <> i -> nth_error l j = Some y -> f y = false) ->
  existsb f (set_thr l i t) = f t.
Proof.
  induction l as [|y r IH]; intros [|i] x t Hn Ho; simpl in *; try discriminate.
  - assert (E : existsb f r = false).
    { clear -Ho. assert (forall k z, nth_error r k = Some z -> f z = false) as Hr.
      { intros k z Hk. apply (Ho (S k) z); [discriminate|exact Hk]. }
      clear Ho. induction r as [|a r IH]; [reflexivity|]. simpl.
      rewrite (Hr O a eq_refl). simpl. apply IH. intros k z Hk. apply (Hr (S k) z Hk). }
    rewrite E. apply Bool.orb_false_r.
  - rewrite (Ho O y); [|discriminate|reflexivity]. simpl.
    eapply IH; [exact Hn|]. intros j z Hj Hz. apply (Ho (S j) z); [congruence|exact Hz].
Qed.
Lemma existsb_all_false (f : wthread -> bool) : forall l,
  (forall j y, nth_error l j = Some y -> f y = false) -> existsb f l = false.
Proof.
  induction l as [|a r IH]; intros Hr; [reflexivity|]. simpl. rewrite (Hr O a eq_refl). simpl.
  apply IH. intros k z Hk. apply (Hr (S k) z Hk).
Qed.

Lemma iterc_S c k : iterc c (S k) = u64_add (iterc c k) 1.
Proof. reflexivity. Qed.
Lemma iterc_shift c k : iterc (u64_add c 1) k = iterc c (S k).
Proof.
  unfold iterc. induction k as [|k IH]; [reflexivity|]. simpl in *. f_equal. exact IH.
Qed.

Definition held (t : wthread) : bool := match w_pc t with WLocked | WSealed _ _ => true | _ => false end.
Definition sealed (t : wthread) : bool := match w_pc t with WSealed _ _ => true | _ => false end.
Lemma sealed_held t : held t = false -> sealed t = false.
Proof. unfold held, sealed. destruct (w_pc t); congruence. Qed.

Section Proofs.
  Variable seal : bytes -> bytes -> bytes -> bytes.
  Notation cstep := (cstep seal).
  Notation crun := (crun seal).
  Notation wire_seq := (wire_seq seal).
  Notation image_at := (image_at seal).

  Lemma wire_seq_app ss0 calls : forall w c p,
    wire_seq ss0 calls c w -> image_at ss0 calls (iterc c (length w)) p -> wire_seq ss0 calls c (w ++ [p]).
  Proof.
    induction w as [|q r IH]; intros c p Hw Hp; simpl in *; [split; [exact Hp|exact I]|].
    destruct Hw as [Hq Hr]. split; [exact Hq|]. apply IH; [exact Hr|]. now rewrite iterc_shift.
  Qed.

  Record CInv (ss0 : sess) (calls : list (N * bytes)) (c0 : N) (st : cst) : Prop := {
    i_sid : sid (c_ss st) = sid ss0;
    i_key : key_send (c_ss st) = key_send ss0;
    i_calls : Forall (fun t => In (w_mt t, w_msg t) calls) (c_thr st);
    i_held : forall i t, nth_error (c_thr st) i = Some t -> held t = true -> c_wlock st = Some i;
    i_wire : wire_seq ss0 calls c0 (map fst (c_wire st));
    i_count : count (c_ss st) = iterc c0 (length (c_wire st) + (if existsb sealed (c_thr st) then 1 else 0));
    i_pend : forall i t p a, nth_error (c_thr st) i = Some t -> w_pc t = WSealed p a ->
               image_at ss0 calls (iterc c0 (length (c_wire st))) p
  }.

  Lemma in_calls ss0 calls c0 st i t :
    CInv ss0 calls c0 st -> nth_error (c_thr st) i = Some t -> In (w_mt t, w_msg t) calls.
  Proof.
    intros I Hn. pose proof (i_calls _ _ _ _ I) as F. rewrite Forall_forall in F. apply F.
    eapply nth_error_In; eauto.
  Qed.

  (* when goroutine i holds the lock, nobody else is between Lock and Unlock *)
  Lemma others_idle ss0 calls c0 st i :
    CInv ss0 calls c0 st -> c_wlock st = Some i ->
    forall j y, j <> i -> nth_error (c_thr st) j = Some y -> held y = false.
  Proof.
    intros I Hl j y Hne Hy. destruct (held y) eqn:E; [|reflexivity].
    pose proof (i_held _ _ _ _ I j y Hy E) as X. congruence.
  Qed.
  Lemma nobody_holds ss0 calls c0 st :
    CInv ss0 calls c0 st -> c_wlock st = None ->
    forall j y, nth_error (c_thr st) j = Some y -> held y = false.
  Proof.
    intros I Hl j y Hy. destruct (held y) eqn:E; [|reflexivity].
    pose proof (i_held _ _ _ _ I j y Hy E) as X. congruence.
  Qed.

  Lemma cstep_inv ss0 calls c0 st e : CInv ss0 calls c0 st -> CInv ss0 calls c0 (cstep st e).
  Proof.
    intros I. unfold SendConc.cstep. destruct (c_panic st); [exact I|].
    destruct e as [i| |a].
    - destruct (nth_error (c_thr st) i) as [t|] eqn:Hn; [|exact I].
      pose proof (in_calls _ _ _ _ _ _ I Hn) as Hc.
      destruct (w_pc t) as [| |pkt a|err] eqn:Hpc; [| | |exact I].
      + (* WStart: take the write lock if it is free *)
        destruct (c_wlock st) as [h|] eqn:Hl; [exact I|].
        pose proof (nobody_holds _ _ _ _ I Hl) as Hidle.
        assert (Hs : existsb sealed (c_thr st) = false).
        { apply existsb_all_false. intros j y Hy. apply sealed_held. eapply Hidle; eauto. }
        assert (Hs' : existsb sealed (set_thr (c_thr st) i (set_pc t WLocked)) = false).
        { rewrite (existsb_set sealed _ i t _ Hn); [reflexivity|].
          intros j y _ Hy. apply sealed_held. eapply Hidle; eauto. }
        constructor; cbn [c_ss c_wlock c_thr c_wire].
        * exact (i_sid _ _ _ _ I).
        * exact (i_key _ _ _ _ I).
        * apply Forall_set; [exact (i_calls _ _ _ _ I)|exact Hc].
        * intros j y Hy Hh. destruct (Nat.eq_dec i j) as [->|Hne]; [reflexivity|].
          rewrite nth_set_ne in Hy by exact Hne. rewrite (Hidle _ _ Hy) in Hh. discriminate.
        * exact (i_wire _ _ _ _ I).
        * rewrite Hs'. rewrite (i_count _ _ _ _ I), Hs. reflexivity.
        * intros j y p a0 Hy Hp. destruct (Nat.eq_dec i j) as [->|Hne].
          -- rewrite (nth_set_eq _ _ _ _ Hn) in Hy. inversion Hy; subst y. discriminate.
          -- rewrite nth_set_ne in Hy by exact Hne. eapply (i_pend _ _ _ _ I); eauto.
      + (* WLocked: the ss.m section *)
        assert (Hh : held t = true) by (unfold held; now rewrite Hpc).
        pose proof (i_held _ _ _ _ I i t Hn Hh) as Hl.
        pose proof (others_idle _ _ _ _ _ I Hl) as Hidle.
        assert (Hs : existsb sealed (c_thr st) = false).
        { apply existsb_all_false. intros j y Hy. destruct (Nat.eq_dec j i) as [->|Hne].
          - rewrite Hn in Hy. inversion Hy; subst y. unfold sealed. now rewrite Hpc.
          - apply sealed_held. eapply Hidle; eauto. }
        destruct (closed (c_ss st)).
        * (* io.EOF *)
          assert (Hs' : existsb sealed (set_thr (c_thr st) i (set_pc t (WDone true))) = false).
          { rewrite (existsb_set sealed _ i t _ Hn); [reflexivity|].
            intros j y Hne Hy. apply sealed_held. eapply Hidle; eauto. }
          constructor; cbn [c_ss c_wlock c_thr c_wire].
          -- exact (i_sid _ _ _ _ I).
          -- exact (i_key _ _ _ _ I).
          -- apply Forall_set; [exact (i_calls _ _ _ _ I)|exact Hc].
          -- intros j y Hy Hh'. destruct (Nat.eq_dec i j) as [->|Hne].
             ++ rewrite (nth_set_eq _ _ _ _ Hn) in Hy. inversion Hy; subst y. discriminate.
             ++ rewrite nth_set_ne in Hy by exact Hne. rewrite (Hidle j y) in Hh'; [discriminate|congruence|exact Hy].
          -- exact (i_wire _ _ _ _ I).
          -- rewrite Hs'. rewrite (i_count _ _ _ _ I), Hs. reflexivity.
          -- intros j y p a0 Hy Hp. destruct (Nat.eq_dec i j) as [->|Hne].
             ++ rewrite (nth_set_eq _ _ _ _ Hn) in Hy. inversion Hy; subst y. discriminate.
             ++ rewrite nth_set_ne in Hy by exact Hne. eapply (i_pend _ _ _ _ I); eauto.
        * destruct (seal_packet seal (c_ss st) (w_mt t) (w_msg t)) as [[ss' pkt]| |] eqn:S.
          -- destruct (seal_packet_ok _ _ _ _ _ _ S) as (E1&E2&_).
             assert (Hs' : existsb sealed (set_thr (c_thr st) i (set_pc t (WSealed pkt (remote (c_ss st))))) = true).
             { rewrite (existsb_set sealed _ i t _ Hn); [reflexivity|].
               intros j y Hne Hy. apply sealed_held. eapply Hidle; eauto. }
             pose proof (i_count _ _ _ _ I) as Hcnt. rewrite Hs, Nat.add_0_r in Hcnt.
             constructor; cbn [c_ss c_wlock c_thr c_wire].
             ++ subst ss'. exact (i_sid _ _ _ _ I).
             ++ subst ss'. exact (i_key _ _ _ _ I).
             ++ apply Forall_set; [exact (i_calls _ _ _ _ I)|exact Hc].
             ++ intros j y Hy Hh'. destruct (Nat.eq_dec i j) as [->|Hne]; [exact Hl|].
                rewrite nth_set_ne in Hy by exact Hne. rewrite (Hidle j y) in Hh'; [discriminate|congruence|exact Hy].
             ++ exact (i_wire _ _ _ _ I).
             ++ rewrite Hs'. subst ss'. cbn [count set_count]. rewrite Hcnt.
                rewrite Nat.add_1_r. reflexivity.
             ++ intros j y p a0 Hy Hp. destruct (Nat.eq_dec i j) as [->|Hne].
                ** rewrite (nth_set_eq _ _ _ _ Hn) in Hy. inversion Hy; subst y. cbn [w_pc set_pc] in Hp.
                   inversion Hp; subst p a0. exists (w_mt t), (w_msg t). split; [exact Hc|].
                   rewrite E2, (i_sid _ _ _ _ I), (i_key _ _ _ _ I), Hcnt. reflexivity.
                ** rewrite nth_set_ne in Hy by exact Hne.
                   pose proof (Hidle j y (fun X => Hne (eq_sym X)) Hy) as Hj. unfold held in Hj. rewrite Hp in Hj. discriminate.
          -- (* Err: cannot happen; the model panics *) constructor; try apply I.
          -- constructor; try apply I.
      + (* WSealed: WriteMsgUDP, then Unlock *)
        assert (Hh : held t = true) by (unfold held; now rewrite Hpc).
        pose proof (i_held _ _ _ _ I i t Hn Hh) as Hl.
        pose proof (others_idle _ _ _ _ _ I Hl) as Hidle.
        assert (Hs : existsb sealed (c_thr st) = true).
        { apply existsb_exists. exists t. split; [eapply nth_error_In; eauto|]. unfold sealed. now rewrite Hpc. }
        assert (Hs' : existsb sealed (set_thr (c_thr st) i (set_pc t (WDone false))) = false).
        { rewrite (existsb_set sealed _ i t _ Hn); [reflexivity|].
          intros j y Hne Hy. apply sealed_held. eapply Hidle; eauto. }
        constructor; cbn [c_ss c_wlock c_thr c_wire].
        * exact (i_sid _ _ _ _ I).
        * exact (i_key _ _ _ _ I).
        * apply Forall_set; [exact (i_calls _ _ _ _ I)|exact Hc].
        * intros j y Hy Hh'. destruct (Nat.eq_dec i j) as [->|Hne].
          -- rewrite (nth_set_eq _ _ _ _ Hn) in Hy. inversion Hy; subst y. discriminate.
          -- rewrite nth_set_ne in Hy by exact Hne. rewrite (Hidle j y) in Hh'; [discriminate|congruence|exact Hy].
        * rewrite map_app. cbn [map fst]. apply wire_seq_app; [exact (i_wire _ _ _ _ I)|].
          rewrite map_length. eapply (i_pend _ _ _ _ I); eauto.
        * rewrite Hs'. rewrite (i_count _ _ _ _ I), Hs, app_length. cbn [length]. f_equal. lia.
        * intros j y p a0 Hy Hp. destruct (Nat.eq_dec i j) as [->|Hne].
          -- rewrite (nth_set_eq _ _ _ _ Hn) in Hy. inversion Hy; subst y. discriminate.
          -- rewrite nth_set_ne in Hy by exact Hne.
             pose proof (Hidle j y (fun X => Hne (eq_sym X)) Hy) as Hj. unfold held in Hj. rewrite Hp in Hj. discriminate.
    - constructor; cbn [c_ss c_wlock c_thr c_wire]; apply I.
    - constructor; cbn [c_ss c_wlock c_thr c_wire]; apply I.
  Qed.

  Lemma crun_inv ss0 calls c0 : forall sched st, CInv ss0 calls c0 st -> CInv ss0 calls c0 (crun st sched).
  Proof.
    induction sched as [|e r IH]; intros st I; [exact I|]. unfold SendConc.crun. cbn [fold_left].
    apply IH. now apply cstep_inv.
  Qed.

  Lemma cinit_inv ss calls : CInv ss calls (count ss) (cinit ss calls).
  Proof.
    assert (Hall : forall j y, nth_error (map (fun c : N * bytes => mkWT (fst c) (snd c) WStart) calls) j = Some y ->
                               w_pc y = WStart).
    { intros j y Hy. apply nth_error_In in Hy. apply in_map_iff in Hy. destruct Hy as [c [E _]]. now subst y. }
    constructor; unfold cinit; cbn [c_ss c_wlock c_thr c_wire].
    - reflexivity.
    - reflexivity.
    - rewrite Forall_forall. intros t Ht. apply in_map_iff in Ht. destruct Ht as [[mt m] [E Hin]]. now subst t.
    - intros i t Hn Hh. unfold held in Hh. rewrite (Hall _ _ Hn) in Hh. discriminate.
    - exact I.
    - rewrite existsb_all_false; [reflexivity|]. intros j y Hy. unfold sealed. now rewrite (Hall _ _ Hy).
    - intros i t p a Hn Hp. rewrite (Hall _ _ Hn) in Hp. discriminate.
  Qed.

  (* EVERY schedule of any number of concurrent send calls (interleaved with closes and address changes): the
     datagrams on the wire, in wire order, carry the consecutive counters count, count+1, ... (mod 2^64), and each
     one is header(type, 0,0,0, sid, THAT counter) ++ Seal(key, ad = that header, message) of one of the calls;
     the session's counter has advanced by exactly the number of sealed packets *)
  Theorem concurrent_sends_consecutive_counters ss calls sched :
    let st := crun (cinit ss calls) sched in
    wire_seq ss calls (count ss) (map fst (c_wire st)) /\
    count (c_ss st) = iterc (count ss) (length (c_wire st) + (if existsb sealed (c_thr st) then 1 else 0)).
  Proof.
    intros st. pose proof (crun_inv ss calls (count ss) sched _ (cinit_inv ss calls)) as I.
    split; [exact (i_wire _ _ _ _ I)|exact (i_count _ _ _ _ I)].
  Qed.

  (* below the uint64 wrap the k-th datagram on the wire carries counter count + k: pairwise distinct *)
  Lemma iterc_plain c k : c + N.of_nat k < 2 ^ 64 -> iterc c k = c + N.of_nat k.
  Proof.
    induction k as [|k IH]; intros Hb; [unfold iterc; simpl; lia|].
    rewrite iterc_S, IH by lia. unfold u64_add, two64. rewrite N.mod_small; lia.
  Qed.
End Proofs.
