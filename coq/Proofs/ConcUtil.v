(* ConcUtil.v — counting threads by program-counter class, lemmas about list update. *)
From Hop Require Import Base ConcBase.
From Coq Require Import Lia Arith.
Local Open Scope nat_scope.

Definition g2n (b : bool) : nat := if b then 1 else 0.

Section Cnt.
Context {A : Type}.
Fixpoint gcnt (p : A -> bool) (l : list A) : nat :=
  match l with [] => 0 | t :: r => g2n (p t) + gcnt p r end.

Lemma gcnt_upd p l i t t' : nth_error l i = Some t ->
  gcnt p (gupd l i t') + g2n (p t) = gcnt p l + g2n (p t').
Proof.
  revert i; induction l as [|y r IH]; intros [|i] H; simpl in *; try discriminate.
  - inversion H; subst. lia.
  - specialize (IH i H). lia.
Qed.

Lemma nth_gupd_same (l : list A) i t t' : nth_error l i = Some t -> nth_error (gupd l i t') i = Some t'.
Proof. revert i; induction l; intros [|i] H; simpl in *; try discriminate; auto. Qed.

Lemma nth_gupd_other (l : list A) i j t' : i <> j -> nth_error (gupd l i t') j = nth_error l j.
Proof. revert i j; induction l; intros [|i] [|j] H; simpl; auto; try congruence. Qed.

Lemma gupd_length (l : list A) i t : length (gupd l i t) = length l.
Proof. revert i; induction l; intros [|i]; simpl; auto. Qed.

Lemma gcnt_pos_exists p l : 1 <= gcnt p l -> exists i t, nth_error l i = Some t /\ p t = true.
Proof.
  induction l as [|y r IH]; simpl; [lia|].
  destruct (p y) eqn:E; simpl.
  - intros _. exists 0, y. auto.
  - intros H. destruct (IH H) as (i & t & H1 & H2). exists (S i), t. auto.
Qed.

Lemma gcnt_zero_all p l i t : gcnt p l = 0 -> nth_error l i = Some t -> p t = false.
Proof.
  revert i; induction l as [|y r IH]; intros [|i] H0 H; simpl in *; try discriminate.
  - inversion H; subst. destruct (p t); simpl in *; auto; lia.
  - apply (IH i); auto. lia.
Qed.

Lemma gcnt_mem p l i t : nth_error l i = Some t -> p t = true -> 1 <= gcnt p l.
Proof.
  revert i; induction l as [|y r IH]; intros [|i] H Hp; simpl in *; try discriminate.
  - inversion H; subst. rewrite Hp. simpl. lia.
  - specialize (IH i H Hp). lia.
Qed.

Lemma gcnt_sub p q l : (forall x, p x = true -> q x = true) -> gcnt p l <= gcnt q l.
Proof.
  intros Hpq. induction l as [|y r IH]; simpl; auto.
  specialize (Hpq y). destruct (p y), (q y); simpl; try lia.
  all: try (discriminate Hpq; auto).
Qed.

Lemma gcnt_sub_strict p q l i t : (forall x, p x = true -> q x = true) ->
  nth_error l i = Some t -> p t = false -> q t = true -> gcnt p l + 1 <= gcnt q l.
Proof.
  intros Hpq. revert i; induction l as [|y r IH]; intros [|i] H Hp Hq; simpl in *; try discriminate.
  - inversion H; subst. rewrite Hp, Hq. simpl. pose proof (gcnt_sub p q r Hpq). lia.
  - specialize (IH i H Hp Hq). pose proof (Hpq y).
    destruct (p y), (q y); simpl; try lia. all: try (discriminate H0; auto).
Qed.

(* two different threads in class p: impossible when the count is at most one *)
Lemma gcnt_one_unique p l i j ti tj : gcnt p l <= 1 ->
  nth_error l i = Some ti -> nth_error l j = Some tj -> p ti = true -> p tj = true -> i = j.
Proof.
  revert i j; induction l as [|y r IH]; intros [|i] [|j] Hc Hi Hj Pi Pj; simpl in *; try discriminate; auto.
  - inversion Hi; subst. rewrite Pi in Hc. simpl in Hc. pose proof (gcnt_mem p r j tj Hj Pj). lia.
  - inversion Hj; subst. rewrite Pj in Hc. simpl in Hc. pose proof (gcnt_mem p r i ti Hi Pi). lia.
  - f_equal. apply (IH i j); auto. lia.
Qed.

Lemma Forall_gupd (P : A -> Prop) l i x : Forall P l -> P x -> Forall P (gupd l i x).
Proof. intros H; revert i; induction H; intros [|i] Hx; simpl; constructor; auto. Qed.

Lemma Forall_nth_error (P : A -> Prop) l i x : Forall P l -> nth_error l i = Some x -> P x.
Proof.
  intros H; revert i; induction H; intros [|i] Hx; simpl in *; try discriminate.
  - inversion Hx; subst; auto.
  - eauto.
Qed.

(* Forall over all threads but the one being replaced *)
Lemma Forall_gupd_others (P Q : A -> Prop) l i t t' : nth_error l i = Some t ->
  Forall P l -> Q t' -> (forall j tj, j <> i -> nth_error l j = Some tj -> P tj -> Q tj) ->
  Forall Q (gupd l i t').
Proof.
  revert i; induction l as [|y r IH]; intros [|i] Hn HP Hq Hoth; simpl in *; try discriminate.
  - inversion HP; subst. constructor; auto.
    clear IH. revert H2. assert (Ho : forall j tj, nth_error r j = Some tj -> P tj -> Q tj).
    { intros j tj Hj. apply (Hoth (S j)); auto. }
    clear Hoth Hn. induction r as [|z r IHr]; intros HF; constructor.
    + inversion HF; subst. apply (Ho 0 z); auto.
    + inversion HF; subst. apply IHr; auto. intros j tj Hj. apply (Ho (S j)); auto.
  - inversion HP; subst. constructor.
    + apply (Hoth 0 y); auto.
    + apply (IH i); auto. intros j tj Hne Hj. apply (Hoth (S j)); auto.
Qed.
End Cnt.
